//go:build verif

package forwarder

import (
	"github.com/khirono/go-nl"
	"github.com/wmnsk/go-pfcp/ie"
)

// VerifNewFlowDesc calls the unexported (*Gtp5g).newFlowDesc of this tree (it uses no field of
// the receiver).  Exists only in the scratch copy built by /verif/check.py.
func VerifNewFlowDesc(s string, swapSrcDst bool) (nl.AttrList, error) {
	return (&Gtp5g{}).newFlowDesc(s, swapSrcDst)
}

// VerifConvertSlice calls the unexported convertSlice of this tree.
func VerifConvertSlice(ports [][]uint16) []byte {
	return convertSlice(ports)
}

// VerifNewPdi calls the unexported (*Gtp5g).newPdi of this tree on a PDI IE.
func VerifNewPdi(i *ie.IE) (nl.AttrList, error) {
	return (&Gtp5g{}).newPdi(i)
}
