//go:build verif

// SimKernel: a simulated gtp5g generic-netlink endpoint, so that go-upf's REAL forwarder.Gtp5g
// driver (gtp5g.go) runs offline, without the gtp5g kernel module.  Overlay file: it exists only
// in the scratch copy of the tree that /verif/check.py builds (tag verif); nothing here is part
// of go-upf and nothing in go-upf is changed.
//
// ------------------------------------------------------------------------------------------
// API (package forwarder, build tag verif)
//
//	g, k, err := NewVerifGtp5g(VerifOpts{...})     // real *Gtp5g wired to a fresh *SimKernel
//	    VerifOpts.Version   string   answer to CMD_GET_VERSION            (default "0.9.5")
//	    VerifOpts.LinkIndex int      ifindex put into every LINK attribute (default 7)
//	    VerifOpts.FamilyID  int      genl family id = nlmsg type           (default 31)
//	    VerifOpts.GtpuAddr  string   local addr of the GTP-U socket g.link.conn (default "127.0.0.1:0")
//	    VerifOpts.Lenient   bool     false: kernel-like EEXIST/ENOENT; true: every add/del is accepted
//	    VerifOpts.Wg        *sync.WaitGroup  (default: a private one, k.Wg)
//	  g.client and g.psClient are gtp5gnl.Clients over two separate simulated sockets ("main", "ps"),
//	  g.link.client an nl.Client over a third one ("rt", acknowledges everything), g.mux a real nl.Mux
//	  with its Serve goroutine, g.ps a real perio.Server (perio.OpenServer), g.bsnl a real
//	  buffnetlink.Server value (buffnetlink.NewVerifServer), g.link.conn a real UDP socket.
//	  g.Close() works (closes all of it).  g.HandleReport(h) works as in production.
//	g.VerifCheckVersion() error                    // the real, unexported g.checkVersion()
//	g.VerifQueryMultiURR(m, ps) (map, error)       // the real, unexported g.queryMultiURR()
//	g.VerifGtpuAddr() *net.UDPAddr                 // where g.link.WriteTo sends from
//	g.VerifPerio() *perio.Server                   // the real periodic server; perio.(*Server).VerifTick(period) injects a ticker
//	                                               // expiry through the server's own event channel (FIFO after pending Add/Del)
//
//	k.Requests() []SimRequest      copy of the log: every request received, in order of arrival
//	k.Take() []SimRequest          same, and clears the log
//	    SimRequest{Conn "main"|"ps"|"rt", NlType, Flags (nlmsg flags), Seq, Cmd, Version (genl header),
//	               Attrs []SimAttr (parsed tree), Raw []byte (attribute bytes; "raw" hex in JSON), Errno (what was answered),
//	               OIDs []SimOID (the (seid,id) pairs named by the request)}
//	    SimAttr{Type uint16 (flag bits masked off), Nested bool, Data []byte (leaf payload), Sub []SimAttr}
//	    both marshal to JSON: {"t":7,"d":"0a000000"} / {"t":5,"n":true,"s":[...]}
//	k.Rule(kind, seid, id) (SimRule, bool)         stored attributes of one rule; kind = SimPDR|SimFAR|SimQER|SimURR|SimBAR
//	k.Rules(kind) []SimRule                        all stored rules of a kind (sorted by seid, id)
//	    store semantics: ADD+NLM_F_EXCL creates (EEXIST if present), ADD+NLM_F_REPLACE replaces the attributes
//	    of every type present in the request and keeps the others (ENOENT if absent), DEL removes (ENOENT),
//	    GET_PDR/FAR/QER/URR/BAR answer ID, SEID, the stored attributes and - for FAR and QER - the
//	    RELATED_TO_PDR list computed from the stored PDRs of the same session (ENOENT if absent); NLM_F_DUMP
//	    on a GET answers all rules + NLMSG_DONE.
//	k.SetReports(occasion, seid, urrid, []SimReport)   usage reports answered for that URR on
//	    SimOnQuery (GET_REPORT and GET_MULTI_REPORTS), SimOnUpdate (ADD_URR+REPLACE), SimOnRemove (DEL_URR; answered
//	    with an empty report message when nothing is scripted, as go-gtp5gnl's RemoveURROID needs one)
//	    SimReport{URRID, SEID, Trigger, SEQN, QueryRef, Start, End (ns), VolMask (bit i => counter i present),
//	              TotVol, UlVol, DlVol, TotPkt, UlPkt, DlPkt}
//	k.ReportHook func(req *SimRequest, occ SimOccasion, oids []SimOID) []SimReport   overrides SetReports when non-nil
//	k.SetVersion(s)                                    scriptable GET_VERSION answer
//	k.Reset()                                          forget rules, scripted reports, failure schedule, log, request counter
//	k.FailAt(n, errno)             the n-th request (0-based, counted over "main"+"ps") is answered with errno, no effect
//	k.FailWhen(func(*SimRequest) syscall.Errno)        predicate form (0 = do not fail); evaluated for every request
//	k.OnRequest func(*SimRequest)                      called (without the lock) before a request is processed: delay/block here
//	k.InjectBuffer(seid, pdrid, action, pkt) bool      multicast BUFFER message -> g.bsnl.ServeMsg (synchronously)
//	k.InjectReport([]SimReport) bool                   multicast REPORT message -> g.bsnl.ServeMsg (synchronously)
//	k.Wg                                               WaitGroup of mux/perio goroutines
//
//	NewVerifGnb("127.9.9.2") (*VerifGnb, error)        fake gNB: UDP socket on <ip>:2152; gnb.Recv(timeout) ([]byte, *net.UDPAddr, bool); gnb.Close()
//	BuildSimAttrs / ParseSimAttrs                      the attribute (de)serialiser used by SimKernel
//
// Wire facts relied upon (go-nl v1.0.5): the mux epolls Conner.Fd() -> a unix SOCK_DGRAM socketpair;
// a reply is accepted iff Seq matches, Pid != 0 and type is the family id / NLMSG_ERROR / NLMSG_DONE;
// errno 0 in NLMSG_ERROR is the ACK.
// ------------------------------------------------------------------------------------------
package forwarder

import (
	"encoding/binary"
	"encoding/hex"
	"encoding/json"
	"fmt"
	"net"
	"sort"
	"sync"
	"syscall"
	"time"
	"unsafe"

	"github.com/khirono/go-genl"
	"github.com/khirono/go-nl"
	"github.com/pkg/errors"

	"github.com/free5gc/go-gtp5gnl"
	"github.com/free5gc/go-upf/internal/forwarder/buffnetlink"
	"github.com/free5gc/go-upf/internal/forwarder/perio"
	"github.com/free5gc/go-upf/internal/logger"
	"github.com/free5gc/go-upf/internal/report"
	logger_util "github.com/free5gc/util/logger"
)

var simNative binary.ByteOrder = gtp5gnl.NativeEndian()

// ---------------------------------------------------------------- attribute trees

type SimAttr struct {
	Type   uint16
	Nested bool
	Data   []byte
	Sub    []SimAttr
}

type simAttrJSON struct {
	T uint16    `json:"t"`
	N bool      `json:"n,omitempty"`
	D string    `json:"d,omitempty"`
	S []SimAttr `json:"s,omitempty"`
}

func (a SimAttr) MarshalJSON() ([]byte, error) {
	return json.Marshal(simAttrJSON{T: a.Type, N: a.Nested, D: hex.EncodeToString(a.Data), S: a.Sub})
}

func (a *SimAttr) UnmarshalJSON(b []byte) error {
	var j simAttrJSON
	if err := json.Unmarshal(b, &j); err != nil {
		return err
	}
	d, err := hex.DecodeString(j.D)
	if err != nil {
		return err
	}
	*a = SimAttr{Type: j.T, Nested: j.N, Data: d, Sub: j.S}
	return nil
}

// ParseSimAttrs parses a netlink attribute stream.  An attribute is a container iff NLA_F_NESTED is
// set (go-nl sets it exactly for AttrList values).  ok=false: a length field does not fit the buffer.
func ParseSimAttrs(b []byte) (attrs []SimAttr, ok bool) {
	for len(b) > 0 {
		if len(b) < 4 {
			return attrs, false
		}
		l := int(simNative.Uint16(b[0:2]))
		t := simNative.Uint16(b[2:4])
		if l < 4 || l > len(b) {
			return attrs, false
		}
		a := SimAttr{Type: t & nl.NLA_TYPE_MASK}
		if t&syscall.NLA_F_NESTED != 0 {
			a.Nested = true
			sub, ok := ParseSimAttrs(b[4:l])
			if !ok {
				return attrs, false
			}
			a.Sub = sub
		} else {
			a.Data = append([]byte{}, b[4:l]...)
		}
		attrs = append(attrs, a)
		adv := (l + 3) &^ 3
		if adv > len(b) {
			adv = len(b)
		}
		b = b[adv:]
	}
	return attrs, true
}

// BuildSimAttrs serialises an attribute tree (4-byte alignment, native endian, NLA_F_NESTED on containers).
func BuildSimAttrs(attrs []SimAttr) []byte {
	var out []byte
	for _, a := range attrs {
		var pl []byte
		t := a.Type
		if a.Nested {
			pl = BuildSimAttrs(a.Sub)
			t |= syscall.NLA_F_NESTED
		} else {
			pl = a.Data
		}
		hdr := make([]byte, 4)
		simNative.PutUint16(hdr[0:2], uint16(4+len(pl)))
		simNative.PutUint16(hdr[2:4], t)
		out = append(out, hdr...)
		out = append(out, pl...)
		for len(out)%4 != 0 {
			out = append(out, 0)
		}
	}
	return out
}

func simU8(t uint16, v uint8) SimAttr { return SimAttr{Type: t, Data: []byte{v}} }
func simU16(t uint16, v uint16) SimAttr {
	b := make([]byte, 2)
	simNative.PutUint16(b, v)
	return SimAttr{Type: t, Data: b}
}

func simU32(t uint16, v uint32) SimAttr {
	b := make([]byte, 4)
	simNative.PutUint32(b, v)
	return SimAttr{Type: t, Data: b}
}

func simU64(t uint16, v uint64) SimAttr {
	b := make([]byte, 8)
	simNative.PutUint64(b, v)
	return SimAttr{Type: t, Data: b}
}

func simLE(b []byte) uint64 {
	var v uint64
	for i := 0; i < len(b) && i < 8; i++ {
		if simNative == binary.LittleEndian {
			v |= uint64(b[i]) << (8 * uint(i))
		} else {
			v = v<<8 | uint64(b[i])
		}
	}
	return v
}

func simFind(attrs []SimAttr, t uint16) (SimAttr, bool) {
	for _, a := range attrs {
		if a.Type == t {
			return a, true
		}
	}
	return SimAttr{}, false
}

// ---------------------------------------------------------------- rules, reports, requests

type SimKind int

const (
	SimPDR SimKind = iota
	SimFAR
	SimQER
	SimURR
	SimBAR
	simNKinds
)

var simKinds = [simNKinds]struct {
	name          string
	add, del, get uint8
	seidAttr      uint16
	relatedAttr   uint16 // RELATED_TO_PDR attribute of GET replies (0: none)
	pdrRefAttr    uint16 // attribute of a PDR that references this kind
}{
	{"PDR", gtp5gnl.CMD_ADD_PDR, gtp5gnl.CMD_DEL_PDR, gtp5gnl.CMD_GET_PDR, gtp5gnl.PDR_SEID, 0, 0},
	{"FAR", gtp5gnl.CMD_ADD_FAR, gtp5gnl.CMD_DEL_FAR, gtp5gnl.CMD_GET_FAR, gtp5gnl.FAR_SEID, gtp5gnl.FAR_RELATED_TO_PDR, gtp5gnl.PDR_FAR_ID},
	{"QER", gtp5gnl.CMD_ADD_QER, gtp5gnl.CMD_DEL_QER, gtp5gnl.CMD_GET_QER, gtp5gnl.QER_SEID, gtp5gnl.QER_RELATED_TO_PDR, gtp5gnl.PDR_QER_ID},
	{"URR", gtp5gnl.CMD_ADD_URR, gtp5gnl.CMD_DEL_URR, gtp5gnl.CMD_GET_URR, gtp5gnl.URR_SEID, 0, 0},
	{"BAR", gtp5gnl.CMD_ADD_BAR, gtp5gnl.CMD_DEL_BAR, gtp5gnl.CMD_GET_BAR, gtp5gnl.BAR_SEID, 0, 0},
}

func (k SimKind) String() string { return simKinds[k].name }

func simIsGet(cmd uint8) bool {
	for _, ki := range simKinds {
		if ki.get == cmd {
			return true
		}
	}
	return false
}

const simIDAttr = 3 // PDR_ID = FAR_ID = QER_ID = URR_ID = BAR_ID

type SimOID struct {
	SEID    uint64 `json:"seid"`
	ID      uint64 `json:"id"`
	HasSEID bool   `json:"has_seid"`
}

type SimRule struct {
	Kind  SimKind
	OID   SimOID
	IDRaw []byte    // the ID attribute's payload as received (u16 / u32 / u8)
	Attrs []SimAttr // everything except LINK, ID, SEID
}

type SimOccasion int

const (
	SimOnQuery SimOccasion = iota
	SimOnUpdate
	SimOnRemove
)

type SimReport struct {
	URRID    uint32 `json:"urrid"`
	SEID     uint64 `json:"seid"`
	Trigger  uint32 `json:"trigger"`
	SEQN     uint32 `json:"seqn"`
	QueryRef uint32 `json:"query_ref"`
	Start    uint64 `json:"start"` // ns since the epoch
	End      uint64 `json:"end"`
	VolMask  uint8  `json:"vol_mask"` // bit0 TOVOL, bit1 UVOL, bit2 DVOL, bit3 TOPACKET, bit4 UPACKET, bit5 DPACKET
	TotVol   uint64 `json:"tot_vol"`
	UlVol    uint64 `json:"ul_vol"`
	DlVol    uint64 `json:"dl_vol"`
	TotPkt   uint64 `json:"tot_pkt"`
	UlPkt    uint64 `json:"ul_pkt"`
	DlPkt    uint64 `json:"dl_pkt"`
}

// Attr renders the report as one UR container in the layout gtp5gnl.DecodeAllUSAReports reads.
func (r SimReport) Attr() SimAttr {
	var vol []SimAttr
	vs := []uint64{r.TotVol, r.UlVol, r.DlVol, r.TotPkt, r.UlPkt, r.DlPkt}
	for i, v := range vs {
		if r.VolMask&(1<<uint(i)) != 0 {
			vol = append(vol, simU64(uint16(gtp5gnl.UR_VOLUME_MEASUREMENT_TOVOL+i), v))
		}
	}
	sub := []SimAttr{
		simU32(gtp5gnl.UR_URRID, r.URRID),
		simU32(gtp5gnl.UR_USAGE_REPORT_TRIGGER, r.Trigger),
		simU32(gtp5gnl.UR_URSEQN, r.SEQN),
		{Type: gtp5gnl.UR_VOLUME_MEASUREMENT, Nested: true, Sub: vol},
		simU32(gtp5gnl.UR_QUERY_URR_REFERENCE, r.QueryRef),
		simU64(gtp5gnl.UR_START_TIME, r.Start),
		simU64(gtp5gnl.UR_END_TIME, r.End),
		simU64(gtp5gnl.UR_SEID, r.SEID),
	}
	return SimAttr{Type: gtp5gnl.UR, Nested: true, Sub: sub}
}

type SimRequest struct {
	Conn    string    `json:"conn"`
	NlType  uint16    `json:"nl_type"`
	Flags   uint16    `json:"flags"`
	Seq     uint32    `json:"seq"`
	Cmd     uint8     `json:"cmd"`
	Version uint8     `json:"version"`
	Attrs   []SimAttr `json:"attrs"`
	Raw     []byte    `json:"-"`
	RawHex  string    `json:"raw"` // Raw, for JSON consumers
	ParseOK bool      `json:"parse_ok"`
	Errno   int       `json:"errno"`
	OIDs    []SimOID  `json:"oids,omitempty"`
}

// ---------------------------------------------------------------- the simulated socket

type simConn struct {
	name string
	fds  [2]int // [0]: go-upf's end (polled and read by nl.Mux), [1]: kernel's end
	seq  int
	mu   sync.Mutex
	k    *SimKernel
}

func newSimConn(k *SimKernel, name string) (*simConn, error) {
	fds, err := syscall.Socketpair(syscall.AF_UNIX, syscall.SOCK_DGRAM|syscall.SOCK_CLOEXEC, 0)
	if err != nil {
		return nil, errors.Wrap(err, "socketpair")
	}
	return &simConn{name: name, fds: fds, seq: 1, k: k}, nil
}

func (c *simConn) Fd() int { return c.fds[0] }

func (c *simConn) Close() {
	syscall.Close(c.fds[0])
	syscall.Close(c.fds[1])
}

func (c *simConn) Read(b []byte) (int, error) { return syscall.Read(c.fds[0], b) }

func (c *simConn) Write(b []byte) (int, error) {
	c.k.serve(c, append([]byte{}, b...))
	return len(b), nil
}

func (c *simConn) Writev(iovs []syscall.Iovec) (int, error) {
	var buf []byte
	for _, iov := range iovs {
		if iov.Len == 0 {
			continue
		}
		buf = append(buf, unsafe.Slice(iov.Base, int(iov.Len))...)
	}
	c.k.serve(c, buf)
	return len(buf), nil
}

func (c *simConn) TakeSeq() int {
	c.mu.Lock()
	defer c.mu.Unlock()
	s := c.seq
	c.seq++
	return s
}

func (c *simConn) reply(b []byte) {
	if len(b) == 0 {
		return
	}
	// one datagram may carry several netlink messages; nl.Mux walks them by Header.Len
	_, _ = syscall.Write(c.fds[1], b)
}

// ---------------------------------------------------------------- SimKernel

type VerifOpts struct {
	Version   string
	LinkIndex int
	FamilyID  int
	GtpuAddr  string
	Lenient   bool
	Wg        *sync.WaitGroup
}

type SimKernel struct {
	mu       sync.Mutex
	opts     VerifOpts
	pid      uint32
	version  string
	log      []SimRequest
	nreq     int // requests seen on "main" + "ps"
	rules    [simNKinds]map[SimOID]*SimRule
	reports  [3]map[SimOID][]SimReport
	failAt   map[int]syscall.Errno
	failWhen func(*SimRequest) syscall.Errno
	// DeferReply, when it returns a non-nil channel for a request, holds that request's answer back until the channel is
	// closed; the simulated socket keeps serving later requests meanwhile (add-only hook for the C18 probes)
	DeferReply func(*SimRequest) <-chan struct{}
	bsnl       *buffnetlink.Server
	conns      []*simConn

	ReportHook func(req *SimRequest, occ SimOccasion, oids []SimOID) []SimReport
	OnRequest  func(req *SimRequest)
	Wg         *sync.WaitGroup
}

func newSimKernel(o VerifOpts) *SimKernel {
	k := &SimKernel{opts: o, pid: 0x5150, version: o.Version, failAt: map[int]syscall.Errno{}, Wg: o.Wg}
	for i := range k.rules {
		k.rules[i] = map[SimOID]*SimRule{}
	}
	for i := range k.reports {
		k.reports[i] = map[SimOID][]SimReport{}
	}
	return k
}

// Reset forgets all rules, scripted reports, failure schedules and the request log (version and hooks stay).
func (k *SimKernel) Reset() {
	k.mu.Lock()
	defer k.mu.Unlock()
	for i := range k.rules {
		k.rules[i] = map[SimOID]*SimRule{}
	}
	for i := range k.reports {
		k.reports[i] = map[SimOID][]SimReport{}
	}
	k.failAt = map[int]syscall.Errno{}
	k.failWhen = nil
	k.log = nil
	k.nreq = 0
}

func (k *SimKernel) SetVersion(s string) {
	k.mu.Lock()
	k.version = s
	k.mu.Unlock()
}

func (k *SimKernel) FailAt(n int, errno syscall.Errno) {
	k.mu.Lock()
	k.failAt[n] = errno
	k.mu.Unlock()
}

func (k *SimKernel) FailWhen(f func(*SimRequest) syscall.Errno) {
	k.mu.Lock()
	k.failWhen = f
	k.mu.Unlock()
}

func (k *SimKernel) SetReports(occ SimOccasion, seid uint64, urrid uint32, rs []SimReport) {
	k.mu.Lock()
	k.reports[occ][SimOID{SEID: seid, ID: uint64(urrid), HasSEID: true}] = append([]SimReport{}, rs...)
	k.mu.Unlock()
}

func (k *SimKernel) Requests() []SimRequest {
	k.mu.Lock()
	defer k.mu.Unlock()
	return append([]SimRequest{}, k.log...)
}

func (k *SimKernel) Take() []SimRequest {
	k.mu.Lock()
	defer k.mu.Unlock()
	r := k.log
	k.log = nil
	return r
}

func (k *SimKernel) Rule(kind SimKind, seid uint64, id uint64) (SimRule, bool) {
	k.mu.Lock()
	defer k.mu.Unlock()
	r, ok := k.rules[kind][SimOID{SEID: seid, ID: id, HasSEID: true}]
	if !ok {
		return SimRule{}, false
	}
	return *r, true
}

func (k *SimKernel) Rules(kind SimKind) []SimRule {
	k.mu.Lock()
	defer k.mu.Unlock()
	return k.rulesLocked(kind)
}

func (k *SimKernel) rulesLocked(kind SimKind) []SimRule {
	var rs []SimRule
	for _, r := range k.rules[kind] {
		rs = append(rs, *r)
	}
	sort.Slice(rs, func(i, j int) bool {
		if rs[i].OID.SEID != rs[j].OID.SEID {
			return rs[i].OID.SEID < rs[j].OID.SEID
		}
		return rs[i].OID.ID < rs[j].OID.ID
	})
	return rs
}

func simMsg(typ uint16, flags uint16, seq, pid uint32, body []byte) []byte {
	for len(body)%4 != 0 {
		body = append(body, 0)
	}
	b := make([]byte, 16, 16+len(body))
	simNative.PutUint32(b[0:4], uint32(16+len(body)))
	simNative.PutUint16(b[4:6], typ)
	simNative.PutUint16(b[6:8], flags)
	simNative.PutUint32(b[8:12], seq)
	simNative.PutUint32(b[12:16], pid)
	return append(b, body...)
}

func (k *SimKernel) ackMsg(reqHdr []byte, seq uint32, errno syscall.Errno) []byte {
	body := make([]byte, 4, 20)
	simNative.PutUint32(body, uint32(-int32(errno)))
	body = append(body, reqHdr[:16]...)
	return simMsg(syscall.NLMSG_ERROR, 0, seq, k.pid, body)
}

func (k *SimKernel) genlMsg(typ uint16, flags uint16, seq uint32, cmd uint8, attrs []SimAttr) []byte {
	body := []byte{cmd, 0, 0, 0}
	body = append(body, BuildSimAttrs(attrs)...)
	return simMsg(typ, flags, seq, k.pid, body)
}

// serve handles everything go-upf wrote on one simulated socket (normally one request).
func (k *SimKernel) serve(c *simConn, buf []byte) {
	for len(buf) >= 16 {
		l := int(simNative.Uint32(buf[0:4]))
		if l < 16 || l > len(buf) {
			l = len(buf)
		}
		k.serveOne(c, buf[:l])
		adv := (l + 3) &^ 3
		if adv > len(buf) {
			adv = len(buf)
		}
		buf = buf[adv:]
	}
}

func (k *SimKernel) serveOne(c *simConn, m []byte) {
	req := &SimRequest{Conn: c.name}
	req.NlType = simNative.Uint16(m[4:6])
	req.Flags = simNative.Uint16(m[6:8])
	req.Seq = simNative.Uint32(m[8:12])
	body := m[16:]
	if c.name != "rt" && len(body) >= genl.SizeofHeader {
		req.Cmd, req.Version = body[0], body[1]
		req.Raw = append([]byte{}, body[genl.SizeofHeader:]...)
		req.Attrs, req.ParseOK = ParseSimAttrs(req.Raw)
	} else {
		req.Raw = append([]byte{}, body...)
	}
	req.RawHex = hex.EncodeToString(req.Raw)
	if req.ParseOK {
		k.fillOIDs(req)
	}
	if k.OnRequest != nil {
		k.OnRequest(req)
	}

	k.mu.Lock()
	var out []byte
	var errno syscall.Errno
	if c.name == "rt" {
		// rtnetlink towards the link: acknowledged, nothing simulated
	} else {
		n := k.nreq
		k.nreq++
		if e, ok := k.failAt[n]; ok {
			errno = e
		} else if k.failWhen != nil {
			errno = k.failWhen(req)
		}
		if errno == 0 {
			out, errno = k.process(req)
		}
	}
	req.Errno = int(errno)
	k.log = append(k.log, *req)
	k.mu.Unlock()

	if errno != 0 {
		out = nil
	}
	needAck := req.Flags&(syscall.NLM_F_ACK) != 0 || errno != 0
	if req.Flags&syscall.NLM_F_DUMP == syscall.NLM_F_DUMP && errno == 0 && simIsGet(req.Cmd) {
		done := make([]byte, 4)
		out = append(out, simMsg(syscall.NLMSG_DONE, syscall.NLM_F_MULTI, req.Seq, k.pid, done)...)
		needAck = false
	}
	if needAck {
		out = append(out, k.ackMsg(m, req.Seq, errno)...)
	}
	if k.DeferReply != nil {
		if ch := k.DeferReply(req); ch != nil {
			// the answer to this request is held back while the socket goes on serving later requests: replies may
			// then overtake it, as they can on a real netlink socket shared by two callers
			go func() { <-ch; c.reply(out) }()
			return
		}
	}
	c.reply(out)
}

func (k *SimKernel) oidOf(kind SimKind, attrs []SimAttr) (SimOID, []byte, bool) {
	var oid SimOID
	ida, ok := simFind(attrs, simIDAttr)
	if !ok || ida.Nested || len(ida.Data) == 0 {
		return oid, nil, false
	}
	oid.ID = simLE(ida.Data)
	if sa, ok := simFind(attrs, simKinds[kind].seidAttr); ok && !sa.Nested && len(sa.Data) == 8 {
		oid.SEID = simLE(sa.Data)
		oid.HasSEID = true
	}
	return oid, ida.Data, true
}

// fillOIDs: the (seid, id) pairs a request names (also for requests that are then failed).
func (k *SimKernel) fillOIDs(req *SimRequest) {
	switch req.Cmd {
	case gtp5gnl.CMD_GET_REPORT:
		if oid, _, ok := k.oidOf(SimURR, req.Attrs); ok {
			req.OIDs = []SimOID{oid}
		}
		return
	case gtp5gnl.CMD_GET_MULTI_REPORTS:
		for _, a := range req.Attrs {
			if a.Type == gtp5gnl.URR_MULTI_SEID_URRID && a.Nested {
				if oid, _, ok := k.oidOf(SimURR, a.Sub); ok {
					req.OIDs = append(req.OIDs, oid)
				}
			}
		}
		return
	}
	for kind := SimKind(0); kind < simNKinds; kind++ {
		ki := simKinds[kind]
		if req.Cmd == ki.add || req.Cmd == ki.del || req.Cmd == ki.get {
			if oid, _, ok := k.oidOf(kind, req.Attrs); ok {
				req.OIDs = []SimOID{oid}
			}
			return
		}
	}
}

func (k *SimKernel) ruleReply(r *SimRule) []SimAttr {
	ki := simKinds[r.Kind]
	attrs := []SimAttr{{Type: simIDAttr, Data: r.IDRaw}}
	if r.OID.HasSEID {
		attrs = append(attrs, simU64(ki.seidAttr, r.OID.SEID))
	}
	attrs = append(attrs, r.Attrs...)
	if ki.relatedAttr != 0 {
		var ids []byte
		for _, p := range k.rulesLocked(SimPDR) {
			if p.OID.SEID != r.OID.SEID || p.OID.HasSEID != r.OID.HasSEID {
				continue
			}
			for _, a := range p.Attrs {
				if a.Type == ki.pdrRefAttr && !a.Nested && simLE(a.Data) == r.OID.ID {
					b := make([]byte, 2)
					simNative.PutUint16(b, uint16(p.OID.ID))
					ids = append(ids, b...)
					break
				}
			}
		}
		if len(ids) > 0 {
			attrs = append(attrs, SimAttr{Type: ki.relatedAttr, Data: ids})
		}
	}
	return attrs
}

func (k *SimKernel) reportsFor(req *SimRequest, occ SimOccasion, oids []SimOID) []SimAttr {
	var rs []SimReport
	if k.ReportHook != nil {
		rs = k.ReportHook(req, occ, oids)
	} else {
		for _, o := range oids {
			rs = append(rs, k.reports[occ][o]...)
		}
	}
	var attrs []SimAttr
	for _, r := range rs {
		attrs = append(attrs, r.Attr())
	}
	return attrs
}

// process: the request's effect on the stores and the data messages of the answer (mutex held).
func (k *SimKernel) process(req *SimRequest) ([]byte, syscall.Errno) {
	if !req.ParseOK {
		return nil, syscall.EINVAL
	}
	switch req.Cmd {
	case gtp5gnl.CMD_GET_VERSION:
		v := append([]byte(k.version), 0)
		return k.genlMsg(req.NlType, 0, req.Seq, req.Cmd, []SimAttr{{Type: 1, Data: v}}), 0
	case gtp5gnl.CMD_GET_REPORT:
		oid, _, ok := k.oidOf(SimURR, req.Attrs)
		if !ok {
			return nil, syscall.EINVAL
		}
		_ = oid
		return k.genlMsg(req.NlType, 0, req.Seq, req.Cmd, k.reportsFor(req, SimOnQuery, req.OIDs)), 0
	case gtp5gnl.CMD_GET_MULTI_REPORTS:
		for _, a := range req.Attrs {
			if a.Type == gtp5gnl.URR_MULTI_SEID_URRID && a.Nested {
				if _, _, ok := k.oidOf(SimURR, a.Sub); !ok {
					return nil, syscall.EINVAL
				}
			}
		}
		return k.genlMsg(req.NlType, 0, req.Seq, req.Cmd, k.reportsFor(req, SimOnQuery, req.OIDs)), 0
	}
	for kind := SimKind(0); kind < simNKinds; kind++ {
		ki := simKinds[kind]
		switch req.Cmd {
		case ki.add:
			oid, idraw, ok := k.oidOf(kind, req.Attrs)
			if !ok {
				return nil, syscall.EINVAL
			}
			var rest []SimAttr
			for _, a := range req.Attrs {
				if a.Type == gtp5gnl.LINK || a.Type == simIDAttr || a.Type == ki.seidAttr {
					continue
				}
				rest = append(rest, a)
			}
			old, exists := k.rules[kind][oid]
			replace := req.Flags&syscall.NLM_F_REPLACE != 0
			if !k.opts.Lenient {
				if !replace && exists {
					return nil, syscall.EEXIST
				}
				if replace && !exists {
					return nil, syscall.ENOENT
				}
			}
			var out []byte
			if replace && kind == SimURR {
				if rs := k.reportsFor(req, SimOnUpdate, req.OIDs); len(rs) > 0 {
					out = k.genlMsg(req.NlType, 0, req.Seq, req.Cmd, rs)
				}
			}
			if replace && exists {
				present := map[uint16]bool{}
				for _, a := range rest {
					present[a.Type] = true
				}
				var merged []SimAttr
				for _, a := range old.Attrs {
					if !present[a.Type] {
						merged = append(merged, a)
					}
				}
				old.Attrs = append(merged, rest...)
			} else {
				k.rules[kind][oid] = &SimRule{Kind: kind, OID: oid, IDRaw: idraw, Attrs: rest}
			}
			return out, 0
		case ki.del:
			oid, _, ok := k.oidOf(kind, req.Attrs)
			if !ok {
				return nil, syscall.EINVAL
			}
			if _, exists := k.rules[kind][oid]; !exists && !k.opts.Lenient {
				return nil, syscall.ENOENT
			}
			var out []byte
			if kind == SimURR {
				// gtp5g always answers DEL_URR with a report message (go-gtp5gnl's RemoveURROID fails without one);
				// with nothing scripted the message carries no UR attribute
				out = k.genlMsg(req.NlType, 0, req.Seq, req.Cmd, k.reportsFor(req, SimOnRemove, req.OIDs))
			}
			delete(k.rules[kind], oid)
			return out, 0
		case ki.get:
			if req.Flags&syscall.NLM_F_DUMP == syscall.NLM_F_DUMP {
				var out []byte
				for _, r := range k.rulesLocked(kind) {
					r := r
					out = append(out, k.genlMsg(req.NlType, syscall.NLM_F_MULTI, req.Seq, req.Cmd, k.ruleReply(&r))...)
				}
				return out, 0
			}
			oid, _, ok := k.oidOf(kind, req.Attrs)
			if !ok {
				return nil, syscall.EINVAL
			}
			r, exists := k.rules[kind][oid]
			if !exists {
				return nil, syscall.ENOENT
			}
			return k.genlMsg(req.NlType, 0, req.Seq, req.Cmd, k.ruleReply(r)), 0
		}
	}
	return nil, syscall.EOPNOTSUPP
}

// ---------------------------------------------------------------- multicast injection

func (k *SimKernel) inject(cmd uint8, top SimAttr) bool {
	body := []byte{cmd, 0, 0, 0}
	body = append(body, BuildSimAttrs([]SimAttr{top})...)
	msg := &nl.Msg{Body: body}
	msg.Header = nl.Header{Len: uint32(16 + len(body)), Type: uint16(k.opts.FamilyID), Pid: 0}
	return k.bsnl.ServeMsg(msg)
}

// InjectBuffer delivers what gtp5g multicasts for a packet hitting a buffering FAR.
func (k *SimKernel) InjectBuffer(seid uint64, pdrid uint16, action uint16, pkt []byte) bool {
	return k.inject(gtp5gnl.CMD_BUFFER_GTPU, SimAttr{Type: gtp5gnl.BUFFER, Nested: true, Sub: []SimAttr{
		simU16(gtp5gnl.BUFFER_ID, pdrid),
		simU64(gtp5gnl.BUFFER_SEID, seid),
		simU16(gtp5gnl.BUFFER_ACTION, action),
		{Type: gtp5gnl.BUFFER_PACKET, Data: pkt},
	}})
}

// InjectReport delivers what gtp5g multicasts for threshold/quota-triggered usage reports.
func (k *SimKernel) InjectReport(rs []SimReport) bool {
	var sub []SimAttr
	for _, r := range rs {
		sub = append(sub, r.Attr())
	}
	return k.inject(gtp5gnl.CMD_GET_REPORT, SimAttr{Type: gtp5gnl.REPORT, Nested: true, Sub: sub})
}

// ---------------------------------------------------------------- assembling a real Gtp5g

func NewVerifGtp5g(o VerifOpts) (*Gtp5g, *SimKernel, error) {
	if o.Version == "" {
		o.Version = "0.9.5"
	}
	if o.LinkIndex == 0 {
		o.LinkIndex = 7
	}
	if o.FamilyID == 0 {
		o.FamilyID = 31
	}
	if o.GtpuAddr == "" {
		o.GtpuAddr = "127.0.0.1:0"
	}
	if o.Wg == nil {
		o.Wg = new(sync.WaitGroup)
	}
	k := newSimKernel(o)
	g := &Gtp5g{log: logger.FwderLog.WithField(logger_util.FieldCategory, "Gtp5g")}

	mux, err := nl.NewMux()
	if err != nil {
		return nil, nil, errors.Wrap(err, "new Mux")
	}
	o.Wg.Add(1)
	go func() {
		defer o.Wg.Done()
		_ = mux.Serve()
	}()
	g.mux = mux

	mk := func(name string) (*simConn, error) {
		c, err := newSimConn(k, name)
		if err == nil {
			k.conns = append(k.conns, c)
		}
		return c, err
	}
	cMain, err := mk("main")
	if err != nil {
		return nil, nil, err
	}
	cPs, err := mk("ps")
	if err != nil {
		return nil, nil, err
	}
	cRt, err := mk("rt")
	if err != nil {
		return nil, nil, err
	}
	g.client = &gtp5gnl.Client{Client: nl.NewClient(cMain, mux), ID: o.FamilyID}
	g.psClient = &gtp5gnl.Client{Client: nl.NewClient(cPs, mux), ID: o.FamilyID}

	laddr, err := net.ResolveUDPAddr("udp4", o.GtpuAddr)
	if err != nil {
		return nil, nil, errors.Wrap(err, "resolve addr")
	}
	uc, err := net.ListenUDP("udp4", laddr)
	if err != nil {
		return nil, nil, errors.Wrap(err, "listen")
	}
	g.link = &Gtp5gLink{
		mux:    mux,
		client: nl.NewClient(cRt, mux),
		link:   &gtp5gnl.Link{Name: "upfgtp-sim", Index: o.LinkIndex},
		conn:   uc,
		log:    g.log,
	}

	g.bsnl = buffnetlink.NewVerifServer(g.client.Client, mux)
	k.bsnl = g.bsnl

	ps, err := perio.OpenServer(o.Wg)
	if err != nil {
		return nil, nil, errors.Wrap(err, "open perio server")
	}
	g.ps = ps
	return g, k, nil
}

// CloseConns closes the simulated sockets (after g.Close()).
func (k *SimKernel) CloseConns() {
	for _, c := range k.conns {
		c.Close()
	}
}

func (g *Gtp5g) VerifCheckVersion() error { return g.checkVersion() }

func (g *Gtp5g) VerifQueryMultiURR(m map[uint64][]uint32, ps bool) (map[uint64][]report.USAReport, error) {
	return g.queryMultiURR(m, ps)
}

// VerifPerio: the real periodic-report server of this driver (see perio/verif_hooks.go for VerifTick).
func (g *Gtp5g) VerifPerio() *perio.Server { return g.ps }

func (g *Gtp5g) VerifGtpuAddr() *net.UDPAddr { return g.link.conn.LocalAddr().(*net.UDPAddr) }

// ---------------------------------------------------------------- fake gNB

type VerifGnb struct {
	conn *net.UDPConn
}

// NewVerifGnb listens on <ip>:2152 (the port Gtp5g forces whenever the outer header carries a TEID).
func NewVerifGnb(ip string) (*VerifGnb, error) {
	a, err := net.ResolveUDPAddr("udp4", fmt.Sprintf("%s:%d", ip, 2152))
	if err != nil {
		return nil, err
	}
	c, err := net.ListenUDP("udp4", a)
	if err != nil {
		return nil, err
	}
	return &VerifGnb{conn: c}, nil
}

func (s *VerifGnb) Addr() *net.UDPAddr { return s.conn.LocalAddr().(*net.UDPAddr) }

func (s *VerifGnb) Recv(timeout time.Duration) ([]byte, *net.UDPAddr, bool) {
	b := make([]byte, 65536)
	_ = s.conn.SetReadDeadline(time.Now().Add(timeout))
	n, from, err := s.conn.ReadFromUDP(b)
	if err != nil {
		return nil, nil, false
	}
	return b[:n], from, true
}

func (s *VerifGnb) Close() { _ = s.conn.Close() }
