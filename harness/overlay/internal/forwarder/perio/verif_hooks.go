//go:build verif

// Overlay (tag verif): inject a ticker expiry into the real periodic-report server.
package perio

import "time"

// VerifTick queues exactly what a PERIOGroup's ticker goroutine queues when it fires (server.go:66-70).
// The event queue is FIFO, so the tick is handled after every Add/Del issued before it.
func (s *Server) VerifTick(period time.Duration) {
	s.evtQ.put(Event{eType: TYPE_PERIO_TIMEOUT, period: period})
}
