//go:build verif

// Verification hooks for the periodic-report server (C15).  Add-only: nothing here changes Serve;
// the hooks inject the event a ticker goroutine would send, wait until Serve has processed what was
// sent, and read the group table / count the live ticker goroutines.
package perio

import (
	"runtime"
	"sort"
	"strings"
	"sync/atomic"
	"time"
)

// (VerifTick, the injection of a ticker expiry, lives in verif_hooks.go, shared with the SimKernel harness.)

var verifFence int32

// VerifBarrier sends a no-op event (eType 0 matches no case of Serve's switch) and waits until the
// channel is empty.  Serve takes events one at a time in order, so once the no-op has been taken every
// event sent before it has been processed completely.  Returns false on timeout (Serve wedged or gone).
func (s *Server) VerifBarrier(timeout time.Duration) (ok bool) {
	if !s.evtQ.put(Event{}) { // queue closed: Serve has returned
		return false
	}
	deadline := time.Now().Add(timeout)
	for s.VerifQueued() != 0 {
		if time.Now().After(deadline) {
			return false
		}
		runtime.Gosched()
	}
	atomic.AddInt32(&verifFence, 1) // full fence before the caller reads perioList
	return true
}

// VerifQueued is the number of events waiting in the queue.
func (s *Server) VerifQueued() int {
	s.evtQ.mu.Lock()
	defer s.evtQ.mu.Unlock()
	return len(s.evtQ.events)
}

// VerifClosed: Serve has returned and closed the queue (posts are dropped from now on).
func (s *Server) VerifClosed() bool {
	s.evtQ.mu.Lock()
	defer s.evtQ.mu.Unlock()
	return s.evtQ.closed
}

type VerifEntry struct {
	SEID uint64
	URRs []uint32
}

type VerifGroup struct {
	Period    time.Duration
	HasTicker bool // PERIOGroup.ticker != nil
	Entries   []VerifEntry
}

// VerifDump reads perioList (call only after VerifBarrier or after Serve has returned); sorted.
func (s *Server) VerifDump() []VerifGroup {
	res := []VerifGroup{}
	for p, pg := range s.perioList {
		g := VerifGroup{Period: p, HasTicker: pg.ticker != nil, Entries: []VerifEntry{}}
		for seid, urrs := range pg.urrids {
			e := VerifEntry{SEID: seid, URRs: []uint32{}}
			for u := range urrs {
				e.URRs = append(e.URRs, u)
			}
			sort.Slice(e.URRs, func(i, j int) bool { return e.URRs[i] < e.URRs[j] })
			g.Entries = append(g.Entries, e)
		}
		sort.Slice(g.Entries, func(i, j int) bool { return g.Entries[i].SEID < g.Entries[j].SEID })
		res = append(res, g)
	}
	sort.Slice(res, func(i, j int) bool { return res[i].Period < res[j].Period })
	return res
}

// VerifLiveTickers counts the goroutines that are executing the ticker loop started by
// PERIOGroup.newTicker (identified in the goroutine dump by a frame of one of newTicker's closures:
// "newTicker.func1" / "newTicker.gowrap1"; the "created by ...newTicker in goroutine" line has no dot).
func VerifLiveTickers() int {
	buf := make([]byte, 1<<20)
	for {
		n := runtime.Stack(buf, true)
		if n < len(buf) {
			buf = buf[:n]
			break
		}
		buf = make([]byte, 2*len(buf))
	}
	cnt := 0
	for _, blk := range strings.Split(string(buf), "\n\n") {
		if strings.Contains(blk, "(*PERIOGroup).newTicker.") {
			cnt++
		}
	}
	return cnt
}
