//go:build verif

package forwarder

import "syscall"

// SetReadBuffer enlarges the fake gNB's receive queue so that a burst of released packets is not dropped by the
// socket layer of the test host.
func (s *VerifGnb) SetReadBuffer(n int) error { return s.conn.SetReadBuffer(n) }

// RecvNow returns the next datagram already queued in the socket, without waiting (loopback delivery is synchronous:
// whatever was written before the caller's barrier is queued).
func (s *VerifGnb) RecvNow() ([]byte, bool) {
	rc, err := s.conn.SyscallConn()
	if err != nil {
		return nil, false
	}
	buf := make([]byte, 65536)
	n := -1
	_ = rc.Read(func(fd uintptr) bool {
		m, _, e := syscall.Recvfrom(int(fd), buf, syscall.MSG_DONTWAIT)
		if e == nil {
			n = m
		}
		return true
	})
	if n < 0 {
		return nil, false
	}
	return buf[:n], true
}
