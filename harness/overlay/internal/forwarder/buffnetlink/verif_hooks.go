//go:build verif

// Overlay (tag verif): a buffnetlink.Server value that does not need the gtp5g genl family.
// OpenServer asks the kernel for the family's multicast group; here the struct is built directly.
// The multicast messages are injected by calling the real ServeMsg (SimKernel.InjectBuffer/InjectReport).
package buffnetlink

import (
	"syscall"

	"github.com/khirono/go-nl"
)

// NewVerifServer: same fields as OpenServer sets.  conn is a real (unbound-to-groups) generic netlink
// socket when the sandbox allows one, so that the real Close() works; nothing ever arrives on it.
func NewVerifServer(client *nl.Client, mux *nl.Mux) *Server {
	s := &Server{client: client, mux: mux}
	conn, err := nl.Open(syscall.NETLINK_GENERIC)
	if err == nil {
		s.conn = conn
		_ = s.mux.PushHandler(s.conn, s)
	}
	return s
}

// VerifClosable: false if no netlink socket could be opened (then Close() must not be called).
func (s *Server) VerifClosable() bool { return s.conn != nil }

// VerifDecodBuffer calls the unexported decodbuffer of this tree.
func VerifDecodBuffer(b []byte) (uint64, uint16, uint16, []byte, error) {
	return decodbuffer(b)
}
