//go:build verif

package pfcp

// Read-only state dumps and a counter positioner for the correspondence harness.
// Add-only, build tag verif; never compiled into go-upf proper.

import (
	"fmt"
	"net"
	"sort"
	"time"
)

type VerifURR struct {
	ID      uint32 `json:"id"`
	Removed bool   `json:"removed"`
	SEQN    uint32 `json:"seqn"`
	Ref     uint16 `json:"ref"`
	DURAT   bool   `json:"durat"`
	VOLUM   bool   `json:"volum"`
	EVENT   bool   `json:"event"`
	MNOP    bool   `json:"mnop"`
}

type VerifPDR struct {
	ID   uint16   `json:"id"`
	URRs []uint32 `json:"urrs"`
}

type VerifQ struct {
	PDR  uint16   `json:"pdr"`
	Pkts []string `json:"pkts"`
}

type VerifSess struct {
	LID  uint64     `json:"lid"`
	RID  uint64     `json:"rid"`
	Node string     `json:"node"` // object identity of the RemoteNode
	PDRs []VerifPDR `json:"pdrs"`
	FARs []uint32   `json:"fars"`
	QERs []uint32   `json:"qers"`
	BARs []uint32   `json:"bars"`
	URRs []VerifURR `json:"urrs"`
	Q    []VerifQ   `json:"q"`
}

type VerifNode struct {
	Obj  string   `json:"obj"`
	ID   string   `json:"id"`
	Addr string   `json:"addr"`
	Sess []uint64 `json:"sess"`
}

type VerifTx struct {
	Key   string `json:"key"`
	Count uint8  `json:"count"`
	Timer bool   `json:"timer"` // a retransmission timer object exists
}

type VerifRx struct {
	Key    string `json:"key"`
	Cached bool   `json:"cached"`
	Timer  bool   `json:"timer"` // a retention timer object exists
}

type VerifDump struct {
	Slots  []*VerifSess      `json:"slots"`
	Free   []uint64          `json:"free"`
	Nodes  []VerifNode       `json:"nodes"`  // every RemoteNode object reachable from rnodes or a session
	RNodes map[string]string `json:"rnodes"` // node id -> object identity
	Rx     []VerifRx         `json:"rx"`
	Tx     []VerifTx         `json:"tx"`
	TxSeq  uint32            `json:"txseq"`
}

func verifNode(n *RemoteNode) VerifNode {
	v := VerifNode{Obj: fmt.Sprintf("%p", n), ID: n.ID}
	if n.addr != nil {
		v.Addr = n.addr.String()
	}
	for id := range n.sess {
		v.Sess = append(v.Sess, id)
	}
	sort.Slice(v.Sess, func(i, j int) bool { return v.Sess[i] < v.Sess[j] })
	return v
}

// VerifDumpState must only be called while the event loop is idle (after a barrier).
func (s *PfcpServer) VerifDumpState() VerifDump {
	d := VerifDump{RNodes: map[string]string{}, TxSeq: s.txSeq}
	seen := map[*RemoteNode]bool{}
	addNode := func(n *RemoteNode) {
		if n != nil && !seen[n] {
			seen[n] = true
			d.Nodes = append(d.Nodes, verifNode(n))
		}
	}
	for _, x := range s.lnode.sess {
		if x == nil {
			d.Slots = append(d.Slots, nil)
			continue
		}
		v := &VerifSess{LID: x.LocalID, RID: x.RemoteID, Node: fmt.Sprintf("%p", x.rnode)}
		addNode(x.rnode)
		for id, info := range x.PDRIDs {
			p := VerifPDR{ID: id}
			for u := range info.RelatedURRIDs {
				p.URRs = append(p.URRs, u)
			}
			sort.Slice(p.URRs, func(i, j int) bool { return p.URRs[i] < p.URRs[j] })
			v.PDRs = append(v.PDRs, p)
		}
		sort.Slice(v.PDRs, func(i, j int) bool { return v.PDRs[i].ID < v.PDRs[j].ID })
		for id := range x.FARIDs {
			v.FARs = append(v.FARs, id)
		}
		for id := range x.QERIDs {
			v.QERs = append(v.QERs, id)
		}
		for id := range x.BARIDs {
			v.BARs = append(v.BARs, uint32(id))
		}
		sort.Slice(v.FARs, func(i, j int) bool { return v.FARs[i] < v.FARs[j] })
		sort.Slice(v.QERs, func(i, j int) bool { return v.QERs[i] < v.QERs[j] })
		sort.Slice(v.BARs, func(i, j int) bool { return v.BARs[i] < v.BARs[j] })
		for id, u := range x.URRIDs {
			v.URRs = append(v.URRs, VerifURR{ID: id, Removed: u.removed, SEQN: u.SEQN, Ref: u.refPdrNum,
				DURAT: u.DURAT, VOLUM: u.VOLUM, EVENT: u.EVENT, MNOP: u.MNOP})
		}
		sort.Slice(v.URRs, func(i, j int) bool { return v.URRs[i].ID < v.URRs[j].ID })
		for id, q := range x.q {
			// non-destructive copy of the queue content: rotate through the channel
			vq := VerifQ{PDR: id}
			func() {
				// a queue of a closed session is a closed channel: rotating it would panic
				defer func() {
					if recover() != nil {
						vq.Pkts = append(vq.Pkts, "closed")
					}
				}()
				n := len(q)
				for i := 0; i < n; i++ {
					p := <-q
					vq.Pkts = append(vq.Pkts, fmt.Sprintf("%x", p))
					q <- p
				}
			}()
			v.Q = append(v.Q, vq)
		}
		sort.Slice(v.Q, func(i, j int) bool { return v.Q[i].PDR < v.Q[j].PDR })
		d.Slots = append(d.Slots, v)
	}
	d.Free = append(d.Free, s.lnode.free...)
	for id, n := range s.rnodes {
		d.RNodes[id] = fmt.Sprintf("%p", n)
		addNode(n)
	}
	for k, rx := range s.rxTrans {
		d.Rx = append(d.Rx, VerifRx{Key: k, Cached: len(rx.msgBuf) > 0, Timer: rx.timer != nil})
	}
	sort.Slice(d.Rx, func(i, j int) bool { return d.Rx[i].Key < d.Rx[j].Key })
	for k, tx := range s.txTrans {
		d.Tx = append(d.Tx, VerifTx{Key: k, Count: tx.retransCount, Timer: tx.timer != nil})
	}
	sort.Slice(d.Tx, func(i, j int) bool { return d.Tx[i].Key < d.Tx[j].Key })
	return d
}

func (s *PfcpServer) VerifSetTxSeq(v uint32) { s.txSeq = v }

// VerifSetURRSeq positions the UR-SEQN counter of one URR (only while the event loop is idle)
func (s *PfcpServer) VerifSetURRSeq(lid uint64, urr uint32, v uint32) bool {
	if lid == 0 || lid > uint64(len(s.lnode.sess)) || s.lnode.sess[lid-1] == nil {
		return false
	}
	info, ok := s.lnode.sess[lid-1].URRIDs[urr]
	if !ok {
		return false
	}
	info.SEQN = v
	return true
}

// VerifFailWrites makes every write on the PFCP socket fail (write deadline in the past) until switched off again: a
// transient send failure (ENOBUFS, unreachable for a moment) placed where the harness wants it
func (s *PfcpServer) VerifFailWrites(on bool) {
	s.connMu.Lock()
	c := s.conn
	s.connMu.Unlock()
	if c == nil {
		return
	}
	if on {
		_ = c.SetWriteDeadline(time.Unix(1, 0))
	} else {
		_ = c.SetWriteDeadline(time.Time{})
	}
}

func (s *PfcpServer) VerifChanLens() (int, int, int) { return len(s.rcvCh), len(s.srCh), len(s.trToCh) }

// VerifTxKeys returns the keys the real constructors give a sender-side and a receiver-side transaction (C06)
func (s *PfcpServer) VerifTxKeys(raddr net.Addr, seq uint32) (string, string) {
	tx := NewTxTransaction(s, raddr, seq)
	rx := NewRxTransaction(s, raddr, seq)
	if rx.timer != nil {
		rx.timer.Stop()
	}
	return tx.id, rx.id
}
