//go:build verif

package main

// Mode "flags" (property C19): runs the REAL flag-word code of internal/report on packed cases.
//
// Octet strings are packed as  len | value<<3  (len <= 7 octets, value = the octets read little-endian);
// every observation is one unsigned integer below 2^63 so that the checker can hand it to Coq as one literal:
//
//   decode (ApplyAction.Unmarshal / ReportingTrigger.Unmarshal + all bool accessors)
//        status | Flags<<2 | accmask<<34            status: 0 ok, 1 error returned, 2 panic, 3 not representable
//   encode (x.Flags = f; x.IE() + all bool accessors)
//        status | len(Payload)<<2 | payload(LE)<<5 | accmask<<37     (payload of at most 4 octets)
//   SetReportingTrigger(r) from Flags f0:   status | Flags<<2
//   SetFlags(mnop) from Flags f0, then IE(): status | Flags<<2 | Payload[0]<<10 | len(Payload)<<18
//
// accmask: bit i = answer of the i-th bool accessor in the (sorted) name list reported once in "names".
// The accessors are enumerated by reflection, so the answers are keyed by the accessor's NAME.

import (
	"encoding/json"
	"fmt"
	"reflect"

	"github.com/free5gc/go-upf/internal/report"
)

type flagsSweep struct {
	Kind   string `json:"kind"`   // "aa" | "rt" (decode, octets = value in nbytes LE octets) | "rtie" | "usar" (encode, flags = value)
	NBytes int    `json:"nbytes"` // decode sweeps only
	Start  uint64 `json:"start"`
	Count  uint64 `json:"count"`
}

type flagsIn struct {
	AA     []uint64     `json:"aa"`
	RT     []uint64     `json:"rt"`
	RTIE   []uint64     `json:"rtie"`
	USAR   []uint64     `json:"usar"`
	SRT    [][2]uint64  `json:"srt"` // [f0, r]
	SF     [][2]uint64  `json:"sf"`  // [f0, mnop]
	Sweeps []flagsSweep `json:"sweeps"`
}

type flagsOut struct {
	Names  map[string][]string          `json:"names"`
	Consts map[string]map[string]uint64 `json:"consts"`
	AA     []uint64                     `json:"aa"`
	RT     []uint64                     `json:"rt"`
	RTIE   []uint64                     `json:"rtie"`
	USAR   []uint64                     `json:"usar"`
	SRT    []uint64                     `json:"srt"`
	SF     []uint64                     `json:"sf"`
	Sweeps [][]uint64                   `json:"sweeps"`
	Panics []string                     `json:"panics"` // first few panic messages (diagnostics only)
}

type boolAccessors struct {
	names []string
	fns   []func() bool
}

// bindAccessors collects every method "func() bool" of ptr's type, bound to ptr (reflection lists
// methods sorted by name).
func bindAccessors(ptr interface{}) boolAccessors {
	v := reflect.ValueOf(ptr)
	t := v.Type()
	var a boolAccessors
	for i := 0; i < t.NumMethod(); i++ {
		m := v.Method(i)
		mt := m.Type()
		if mt.NumIn() != 0 || mt.NumOut() != 1 || mt.Out(0).Kind() != reflect.Bool {
			continue
		}
		fn, ok := m.Interface().(func() bool)
		if !ok {
			continue
		}
		a.names = append(a.names, t.Method(i).Name)
		a.fns = append(a.fns, fn)
	}
	return a
}

func (a boolAccessors) mask() uint64 {
	var m uint64
	for i, f := range a.fns {
		if f() {
			m |= 1 << uint(i)
		}
	}
	return m
}

func unpackOctets(p uint64) []byte {
	n := int(p & 7)
	v := p >> 3
	b := make([]byte, n)
	for i := 0; i < n; i++ {
		b[i] = byte(v >> (8 * uint(i)))
	}
	return b
}

func leOctets(v uint64, n int) []byte {
	b := make([]byte, n)
	for i := 0; i < n; i++ {
		b[i] = byte(v >> (8 * uint(i)))
	}
	return b
}

const (
	stOK    = 0
	stErr   = 1
	stPanic = 2
	stUnrep = 3
)

type flagsRunner struct {
	rt     report.ReportingTrigger
	usar   report.UsageReportTrigger
	aa     report.ApplyAction
	rtAcc  boolAccessors
	usAcc  boolAccessors
	aaAcc  boolAccessors
	panics []string
}

func newFlagsRunner() *flagsRunner {
	r := &flagsRunner{}
	r.rtAcc = bindAccessors(&r.rt)
	r.usAcc = bindAccessors(&r.usar)
	r.aaAcc = bindAccessors(&r.aa)
	return r
}

func (r *flagsRunner) notePanic(p interface{}) {
	if len(r.panics) < 5 {
		r.panics = append(r.panics, fmt.Sprint(p))
	}
}

func (r *flagsRunner) decodeAA(b []byte) (obs uint64) {
	defer func() {
		if p := recover(); p != nil {
			r.notePanic(p)
			obs = stPanic
		}
	}()
	r.aa = report.ApplyAction{}
	if err := r.aa.Unmarshal(b); err != nil {
		return stErr
	}
	return stOK | uint64(r.aa.Flags)<<2 | r.aaAcc.mask()<<34
}

func (r *flagsRunner) decodeRT(b []byte) (obs uint64) {
	defer func() {
		if p := recover(); p != nil {
			r.notePanic(p)
			obs = stPanic
		}
	}()
	r.rt = report.ReportingTrigger{}
	if err := r.rt.Unmarshal(b); err != nil {
		return stErr
	}
	return stOK | uint64(r.rt.Flags)<<2 | r.rtAcc.mask()<<34
}

func packPayload(p []byte, accmask uint64) uint64 {
	if len(p) > 4 {
		return stUnrep
	}
	var v uint64
	for i, x := range p {
		v |= uint64(x) << (8 * uint(i))
	}
	return stOK | uint64(len(p))<<2 | v<<5 | accmask<<37
}

func (r *flagsRunner) encodeRT(f uint64) (obs uint64) {
	defer func() {
		if p := recover(); p != nil {
			r.notePanic(p)
			obs = stPanic
		}
	}()
	r.rt = report.ReportingTrigger{Flags: uint32(f)}
	return packPayload(r.rt.IE().Payload, r.rtAcc.mask())
}

func (r *flagsRunner) encodeUSAR(f uint64) (obs uint64) {
	defer func() {
		if p := recover(); p != nil {
			r.notePanic(p)
			obs = stPanic
		}
	}()
	r.usar = report.UsageReportTrigger{Flags: uint32(f)}
	return packPayload(r.usar.IE().Payload, r.usAcc.mask())
}

func (r *flagsRunner) setRT(f0, cause uint64) (obs uint64) {
	defer func() {
		if p := recover(); p != nil {
			r.notePanic(p)
			obs = stPanic
		}
	}()
	t := report.UsageReportTrigger{Flags: uint32(f0)}
	t.SetReportingTrigger(uint32(cause))
	return stOK | uint64(t.Flags)<<2
}

func (r *flagsRunner) setFlags(f0, mnop uint64) (obs uint64) {
	defer func() {
		if p := recover(); p != nil {
			r.notePanic(p)
			obs = stPanic
		}
	}()
	m := report.VolumeMeasure{Flags: uint8(f0)}
	m.SetFlags(mnop != 0)
	p := m.IE().Payload
	if len(p) == 0 || len(p) > 255 {
		return stUnrep
	}
	return stOK | uint64(m.Flags)<<2 | uint64(p[0])<<10 | uint64(len(p))<<18
}

func flagsConsts() map[string]map[string]uint64 {
	return map[string]map[string]uint64{
		"rt": {
			"PERIO": report.RPT_TRIG_PERIO, "VOLTH": report.RPT_TRIG_VOLTH, "TIMTH": report.RPT_TRIG_TIMTH,
			"QUHTI": report.RPT_TRIG_QUHTI, "START": report.RPT_TRIG_START, "STOPT": report.RPT_TRIG_STOPT,
			"DROTH": report.RPT_TRIG_DROTH, "LIUSA": report.RPT_TRIG_LIUSA, "VOLQU": report.RPT_TRIG_VOLQU,
			"TIMQU": report.RPT_TRIG_TIMQU, "ENVCL": report.RPT_TRIG_ENVCL, "MACAR": report.RPT_TRIG_MACAR,
			"EVETH": report.RPT_TRIG_EVETH, "EVEQU": report.RPT_TRIG_EVEQU, "IPMJL": report.RPT_TRIG_IPMJL,
			"QUVTI": report.RPT_TRIG_QUVTI, "REEMR": report.RPT_TRIG_REEMR, "UPINT": report.RPT_TRIG_UPINT,
		},
		"usar": {
			"PERIO": report.USAR_TRIG_PERIO, "VOLTH": report.USAR_TRIG_VOLTH, "TIMTH": report.USAR_TRIG_TIMTH,
			"QUHTI": report.USAR_TRIG_QUHTI, "START": report.USAR_TRIG_START, "STOPT": report.USAR_TRIG_STOPT,
			"DROTH": report.USAR_TRIG_DROTH, "IMMER": report.USAR_TRIG_IMMER, "VOLQU": report.USAR_TRIG_VOLQU,
			"TIMQU": report.USAR_TRIG_TIMQU, "LIUSA": report.USAR_TRIG_LIUSA, "TERMR": report.USAR_TRIG_TERMR,
			"MONIT": report.USAR_TRIG_MONIT, "ENVCL": report.USAR_TRIG_ENVCL, "MACAR": report.USAR_TRIG_MACAR,
			"EVETH": report.USAR_TRIG_EVETH, "EVEQU": report.USAR_TRIG_EVEQU, "TEBUR": report.USAR_TRIG_TEBUR,
			"IPMJL": report.USAR_TRIG_IPMJL, "QUVTI": report.USAR_TRIG_QUVTI, "EMRRE": report.USAR_TRIG_EMRRE,
			"UPINT": report.USAR_TRIG_UPINT,
		},
		"aa": {
			"DROP": report.APPLY_ACT_DROP, "FORW": report.APPLY_ACT_FORW, "BUFF": report.APPLY_ACT_BUFF,
			"NOCP": report.APPLY_ACT_NOCP, "DUPL": report.APPLY_ACT_DUPL, "IPMA": report.APPLY_ACT_IPMA,
			"IPMD": report.APPLY_ACT_IPMD, "DFRT": report.APPLY_ACT_DFRT, "EDRT": report.APPLY_ACT_EDRT,
			"BDPN": report.APPLY_ACT_BDPN, "DDPN": report.APPLY_ACT_DDPN, "FSSM": report.APPLY_ACT_FSSM,
			"MBSU": report.APPLY_ACT_MBSU,
		},
		"vol": {
			"TOVOL": uint64(report.TOVOL), "ULVOL": uint64(report.ULVOL), "DLVOL": uint64(report.DLVOL),
			"TONOP": uint64(report.TONOP), "ULNOP": uint64(report.ULNOP), "DLNOP": uint64(report.DLNOP),
		},
	}
}

func init() {
	modes["flags"] = func(in json.RawMessage) (interface{}, error) {
		var c flagsIn
		if err := json.Unmarshal(in, &c); err != nil {
			return nil, err
		}
		r := newFlagsRunner()
		out := flagsOut{
			Names:  map[string][]string{"rt": r.rtAcc.names, "usar": r.usAcc.names, "aa": r.aaAcc.names},
			Consts: flagsConsts(),
			AA:     make([]uint64, len(c.AA)), RT: make([]uint64, len(c.RT)),
			RTIE: make([]uint64, len(c.RTIE)), USAR: make([]uint64, len(c.USAR)),
			SRT: make([]uint64, len(c.SRT)), SF: make([]uint64, len(c.SF)),
		}
		for i, p := range c.AA {
			out.AA[i] = r.decodeAA(unpackOctets(p))
		}
		for i, p := range c.RT {
			out.RT[i] = r.decodeRT(unpackOctets(p))
		}
		for i, f := range c.RTIE {
			out.RTIE[i] = r.encodeRT(f)
		}
		for i, f := range c.USAR {
			out.USAR[i] = r.encodeUSAR(f)
		}
		for i, x := range c.SRT {
			out.SRT[i] = r.setRT(x[0], x[1])
		}
		for i, x := range c.SF {
			out.SF[i] = r.setFlags(x[0], x[1])
		}
		for _, s := range c.Sweeps {
			if s.Count > 1<<24 {
				return nil, fmt.Errorf("sweep too large")
			}
			obs := make([]uint64, s.Count)
			for k := uint64(0); k < s.Count; k++ {
				v := s.Start + k
				switch s.Kind {
				case "aa":
					obs[k] = r.decodeAA(leOctets(v, s.NBytes))
				case "rt":
					obs[k] = r.decodeRT(leOctets(v, s.NBytes))
				case "rtie":
					obs[k] = r.encodeRT(v)
				case "usar":
					obs[k] = r.encodeUSAR(v)
				default:
					return nil, fmt.Errorf("unknown sweep kind %q", s.Kind)
				}
			}
			out.Sweeps = append(out.Sweeps, obs)
		}
		out.Panics = r.panics
		return out, nil
	}
}
