//go:build verif

package main

// Mode "wedge" (C18): full stack - real PfcpServer + real Gtp5g driver over the simulated kernel + real periodic
// server.  N sessions with one periodic URR each; a tick is injected and held inside its netlink query while a
// re-association makes the event loop remove all N URRs in ONE turn; then the query is released.  The probe
// answers: does the UPF still answer a Heartbeat Request within the deadline?  One case per process invocation
// (a wedge leaves goroutines blocked for ever).

import (
	"encoding/json"
	"fmt"
	"net"
	"runtime"
	"strings"
	"sync"
	"sync/atomic"
	"time"

	"github.com/wmnsk/go-pfcp/ie"
	"github.com/wmnsk/go-pfcp/message"

	"github.com/free5gc/go-gtp5gnl"
	"github.com/free5gc/go-upf/internal/forwarder"
	"github.com/free5gc/go-upf/internal/pfcp"
	"github.com/free5gc/go-upf/pkg/factory"
)

type wedgeCase struct {
	Sessions   int  `json:"sessions"`
	HoldTick   bool `json:"hold_tick"`   // keep the tick's query pending until the bulk removal is under way
	Reassoc    bool `json:"reassoc"`     // bulk removal by re-association (else: nothing)
	DeadlineMs int  `json:"deadline_ms"` // heartbeat deadline after the burst
	URRs       int  `json:"urrs"`        // periodic URRs per session (default 1): timer events per bulk removal = sessions x urrs
	Burst      int  `json:"burst"`       // instead of tick / re-association: this many BUFFER notifications for one PDR of session 1
	// with hold_tick and reassoc: the event loop is held in the middle of the bulk removal (the reply to one of its
	// URR removals is kept back), THEN the tick's query is released - the periodic server hands over its reports
	// until the report channel is full and waits for the loop - and only then the loop is let go.  Whatever the loop
	// still has to do in that turn must not need the periodic server.
	HoldLoop bool `json:"hold_loop"`
	// burst, then: delete session 1 (which has packets queued) - the loop must get through the deletion
	DeleteAfterBurst bool `json:"delete_after_burst"`
}

type wedgeOut struct {
	Established int      `json:"established"`
	Answered    bool     `json:"answered"`
	AnswerMs    int64    `json:"answer_ms"`
	Blocked     []string `json:"blocked"` // call sites of goroutines blocked in channel operations when not answered
	Error       string   `json:"error"`
	TickConn    string   `json:"tick_conn"` // the simulated socket the tick's query arrived on
	// hold_loop: reports waiting in the report channel when the loop was let go (= its capacity when the periodic
	// server was really waiting for the loop)
	SrLenAtRelease int `json:"sr_len_at_release"`
}

func blockedSites() []string {
	buf := make([]byte, 1<<22)
	n := runtime.Stack(buf, true)
	seen := map[string]bool{}
	var out []string
	for _, g := range strings.Split(string(buf[:n]), "\n\n") {
		if !strings.Contains(g, "chan send") && !strings.Contains(g, "chan receive") && !strings.Contains(g, "select") {
			continue
		}
		for _, l := range strings.Split(g, "\n") {
			if strings.Contains(l, "go-upf/internal/") && strings.Contains(l, "(") && !strings.Contains(l, "verif") {
				s := strings.TrimSpace(l)
				if i := strings.LastIndex(s, "("); i > 0 {
					s = s[:i]
				}
				s = s[strings.LastIndex(s, "/")+1:]
				hdr := strings.SplitN(g, "\n", 2)[0]
				st := ""
				if i := strings.Index(hdr, "["); i >= 0 {
					st = hdr[i:]
					if j := strings.Index(st, ","); j > 0 {
						st = st[:j] + "]"
					}
				}
				key := s + " " + st
				if !seen[key] {
					seen[key] = true
					out = append(out, key)
				}
				break
			}
		}
	}
	return out
}

func wedgeOne(f *fixture, c wedgeCase) wedgeOut {
	var out wedgeOut
	fatalMsg.Store("")
	var wg sync.WaitGroup
	g, k, err := forwarder.NewVerifGtp5g(forwarder.VerifOpts{Wg: &wg, Lenient: true})
	if err != nil {
		out.Error = err.Error()
		return out
	}
	k.ReportHook = func(req *forwarder.SimRequest, occ forwarder.SimOccasion, oids []forwarder.SimOID) []forwarder.SimReport {
		if occ != forwarder.SimOnQuery {
			return nil
		}
		var rs []forwarder.SimReport
		for _, o := range oids {
			rs = append(rs, forwarder.SimReport{URRID: uint32(o.ID), SEID: o.SEID, VolMask: 7, TotVol: 1})
		}
		return rs
	}
	cfg := &factory.Config{Pfcp: &factory.Pfcp{Addr: f.prefix + "1", NodeID: f.prefix + "1", RetransTimeout: time.Hour, MaxRetrans: 0}}
	srv := pfcp.NewPfcpServer(cfg, g)
	g.HandleReport(srv)
	srv.Start(&wg)
	up := false
	for i := 0; i < 200 && !up; i++ {
		up = f.barrierRT(20 * time.Millisecond)
	}
	if !up {
		out.Error = "server did not start"
		return out
	}
	send := func(m message.Message) {
		b := make([]byte, m.MarshalLen())
		_ = m.MarshalTo(b)
		_, _ = f.peers[0].WriteTo(b, f.upf)
	}
	nodeIE := func() *ie.IE { return ie.NewNodeID(peerIP(f.prefix, 0), "", "") }
	send(message.NewAssociationSetupRequest(1, nodeIE(), ie.NewRecoveryTimeStamp(time.Unix(1000, 0))))
	f.barrierRT(time.Second)
	// answer (drain) whatever the UPF sends to the SMF, for ever
	go func() {
		buf := make([]byte, 65536)
		for {
			_ = f.peers[0].SetReadDeadline(time.Now().Add(50 * time.Millisecond))
			n, _, err := f.peers[0].ReadFrom(buf)
			if err != nil {
				continue
			}
			if m, e := message.Parse(buf[:n]); e == nil {
				if req, ok := m.(*message.SessionReportRequest); ok {
					rsp := message.NewSessionReportResponse(0, 0, req.SEID(), req.Sequence(), 0, ie.NewCause(ie.CauseRequestAccepted))
					b := make([]byte, rsp.MarshalLen())
					_ = rsp.MarshalTo(b)
					_, _ = f.peers[0].WriteTo(b, f.upf)
				}
			}
		}
	}()
	nurr := c.URRs
	if nurr < 1 {
		nurr = 1
	}
	for i := 0; i < c.Sessions; i++ {
		ies := []*ie.IE{nodeIE(), ie.NewFSEID(uint64(1000+i), net.ParseIP(peerIP(f.prefix, 0)), nil)}
		for u := 1; u <= nurr; u++ {
			ies = append(ies, ie.NewCreateURR(ie.NewURRID(uint32(u)), ie.New(ie.MeasurementMethod, []byte{2}), ie.NewReportingTriggers(0x01, 0x00),
				ie.NewMeasurementPeriod(60*time.Second)))
		}
		send(message.NewSessionEstablishmentRequest(0, 0, 0, uint32(10+i), 0, ies...))
		if i%50 == 49 {
			f.barrierRT(5 * time.Second)
		}
	}
	if !f.barrierRT(10 * time.Second) {
		out.Error = "establishment phase did not complete"
		return out
	}
	out.Established = len(k.Rules(forwarder.SimURR)) / nurr
	if c.Burst > 0 {
		// more buffered packets for one PDR than its queue holds: the surplus must be dropped, the loop must go on
		for n := 0; n < c.Burst; n++ {
			k.InjectBuffer(1, 1, 4 /* BUFF */, []byte{byte(n >> 8), byte(n), 0xaa})
		}
		if c.DeleteAfterBurst {
			f.barrierRT(time.Duration(c.DeadlineMs) * time.Millisecond)
			send(message.NewSessionDeletionRequest(0, 0, 1, 6000, 0))
		}
		t0 := time.Now()
		out.Answered = f.barrierRT(time.Duration(c.DeadlineMs) * time.Millisecond)
		out.AnswerMs = time.Since(t0).Milliseconds()
		if !out.Answered {
			out.Blocked = blockedSites()
		}
		return out
	}

	release := make(chan struct{})
	inQuery := make(chan struct{}, 1)
	releaseLoop := make(chan struct{})
	loopHeld := make(chan struct{}, 1)
	var ndel int32
	if c.HoldTick {
		// the data plane takes its time over the tick's query: its answer is held back while the simulated socket goes on
		// serving whatever else arrives on it (the event loop has a socket of its own, so nothing else should)
		k.DeferReply = func(req *forwarder.SimRequest) <-chan struct{} {
			if req.Cmd == gtp5gnl.CMD_GET_MULTI_REPORTS || req.Cmd == gtp5gnl.CMD_GET_REPORT {
				select {
				case inQuery <- struct{}{}:
				default:
				}
				out.TickConn = req.Conn
				return release
			}
			if c.HoldLoop && req.Cmd == gtp5gnl.CMD_DEL_URR && atomic.AddInt32(&ndel, 1) == 10 {
				select {
				case loopHeld <- struct{}{}:
				default:
				}
				return releaseLoop
			}
			return nil
		}
	}
	g.VerifPerio().VerifTick(60 * time.Second)
	if c.HoldTick {
		select {
		case <-inQuery:
		case <-time.After(5 * time.Second):
			out.Error = "tick did not reach its query"
			close(release)
			return out
		}
	}
	if c.Reassoc {
		send(message.NewAssociationSetupRequest(5000, nodeIE(), ie.NewRecoveryTimeStamp(time.Unix(1000, 0))))
		if c.HoldLoop && c.HoldTick {
			select {
			case <-loopHeld:
			case <-time.After(5 * time.Second):
				out.Error = "the bulk removal did not reach its 10th URR removal"
				close(release)
				close(releaseLoop)
				return out
			}
			close(release)                     // the tick goes on: reports for the sessions that are still there
			time.Sleep(300 * time.Millisecond) // ... until the report channel is full and the periodic server waits
			_, out.SrLenAtRelease, _ = srv.VerifChanLens()
			close(releaseLoop) // the loop goes on with its turn
		} else {
			time.Sleep(300 * time.Millisecond) // let the bulk removal fill the periodic server's queue
		}
	}
	if !(c.HoldLoop && c.HoldTick && c.Reassoc) {
		close(release)
	}
	t0 := time.Now()
	out.Answered = f.barrierRT(time.Duration(c.DeadlineMs) * time.Millisecond)
	out.AnswerMs = time.Since(t0).Milliseconds()
	if !out.Answered {
		out.Blocked = blockedSites()
	}
	if fm, _ := fatalMsg.Load().(string); fm != "" {
		out.Error = "fatal: " + fm
	}
	return out
}

func init() {
	modes["wedge"] = func(in json.RawMessage) (interface{}, error) {
		var c wedgeCase
		if err := json.Unmarshal(in, &c); err != nil {
			return nil, err
		}
		setupLogger()
		f, err := newFixture()
		if err != nil {
			return nil, err
		}
		res := wedgeOne(f, c)
		_ = fmt.Sprint()
		return res, nil
	}
}
