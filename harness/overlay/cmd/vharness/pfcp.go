//go:build verif

package main

// Mode "pfcp": runs abstract event histories against the REAL PfcpServer (UDP loopback sockets, real
// message parsing, real transactions) with a model data plane (ModelDP) behind forwarder.Driver.
// One event at a time, each followed by a barrier (heartbeat round trip from a dedicated socket),
// then the datagrams that arrived at the simulated SMFs, the driver calls and a state dump are recorded.

import (
	"encoding/binary"
	"encoding/hex"
	"encoding/json"
	"fmt"
	"net"
	"os"
	"sort"
	"strconv"
	"strings"
	"sync"
	"sync/atomic"
	"syscall"
	"time"

	"github.com/sirupsen/logrus"
	"github.com/wmnsk/go-pfcp/ie"
	"github.com/wmnsk/go-pfcp/message"

	"github.com/free5gc/go-upf/internal/logger"
	"github.com/free5gc/go-upf/internal/pfcp"
	"github.com/free5gc/go-upf/internal/report"
	"github.com/free5gc/go-upf/pkg/factory"
)

// ---------------------------------------------------------------- JSON shapes

type jIEVal struct {
	Absent bool    `json:"absent,omitempty"`
	Bad    bool    `json:"bad,omitempty"`
	V      *uint64 `json:"v,omitempty"`
}

type jURR struct {
	ID     *uint32 `json:"id"`
	Method *uint8  `json:"method"`
	Info   *uint8  `json:"info"`
}

type jPDR struct {
	ID   *uint16  `json:"id"`
	URRs []uint32 `json:"urrs"`
	UEIP bool     `json:"ueip"`
}

type jOps struct {
	CFAR []*uint32 `json:"cFAR"`
	CQER []*uint32 `json:"cQER"`
	CURR []jURR    `json:"cURR"`
	CBAR []*uint8  `json:"cBAR"`
	CPDR []jPDR    `json:"cPDR"`
	RFAR []*uint32 `json:"rFAR"`
	RQER []*uint32 `json:"rQER"`
	RURR []*uint32 `json:"rURR"`
	RBAR []*uint8  `json:"rBAR"`
	RPDR []*uint16 `json:"rPDR"`
	UFAR []*uint32 `json:"uFAR"`
	UQER []*uint32 `json:"uQER"`
	UURR []jURR    `json:"uURR"`
	UBAR []*uint8  `json:"uBAR"`
	UPDR []jPDR    `json:"uPDR"`
	QURR []*uint32 `json:"qURR"`
}

type jMsg struct {
	K     string  `json:"k"` // hb asr est mod del otherreq srr otherrsp
	NID   *jIEVal `json:"nid,omitempty"`
	FSEID *jIEVal `json:"fseid,omitempty"`
	SEID  uint64  `json:"seid,omitempty"`
	Hdr   uint64  `json:"hdr,omitempty"`
	Type  uint8   `json:"type,omitempty"`
	Ops   *jOps   `json:"ops,omitempty"`
}

type jRpt struct {
	URR    uint32   `json:"urr"`
	Trig   uint32   `json:"trig"`
	VFlags uint8    `json:"vflags"`
	Cnt    []uint64 `json:"cnt"`
	Dur    uint64   `json:"dur"` // seconds
	Start  int64    `json:"start"`
	End    int64    `json:"end"`
}

type jItem struct {
	Dld *struct {
		PDR    uint16 `json:"pdr"`
		Action uint16 `json:"action"`
		Pkt    string `json:"pkt"`
	} `json:"dld,omitempty"`
	Usa *jRpt `json:"usa,omitempty"`
}

type jFail struct {
	Op   string `json:"op"`
	Kind string `json:"kind"`
	ID   uint64 `json:"id"`
}

type jUsage struct {
	Op   string `json:"op"`
	ID   uint32 `json:"id"`
	Rpts []jRpt `json:"rpts"`
}

type jEvent struct {
	T     string   `json:"t"` // recv report timeout
	Peer  int      `json:"peer"`
	Seq   uint32   `json:"seq"`
	Msg   *jMsg    `json:"msg,omitempty"`
	SEID  uint64   `json:"seid,omitempty"`
	Items []jItem  `json:"items,omitempty"`
	Tx    bool     `json:"tx,omitempty"`
	Fail  []jFail  `json:"fail,omitempty"`
	Usage []jUsage `json:"usage,omitempty"`
	Raw   string   `json:"raw,omitempty"`   // t == "raw": datagram bytes (hex) sent as they are
	Panic *jFail   `json:"panic,omitempty"` // the driver PANICS at this call (stands for an IE accessor of the dependency reading past a malformed IE)
	// t == "setseq": position the UR-SEQN counter of URR `urr` of session `seid` at `v` (C11: counters far from 0)
	URR uint32 `json:"urr,omitempty"`
	V   uint32 `json:"v,omitempty"`
	// every write on the PFCP socket fails while this report / datagram / expiry is served
	WFail bool `json:"wfail,omitempty"`
}

type jCase struct {
	MaxRetrans uint8    `json:"maxretrans"`
	TxSeq0     uint32   `json:"txseq0"`
	Events     []jEvent `json:"events"`
}

type oDrv struct {
	Op   string `json:"op"`
	Kind string `json:"kind"`
	SEID uint64 `json:"seid"`
	ID   uint64 `json:"id"`
	OK   bool   `json:"ok"`
}

type oVol struct {
	Flags uint8    `json:"flags"`
	Cnt   []uint64 `json:"cnt"`
}

type oUR struct {
	URR   uint32  `json:"urr"`
	SEQN  uint32  `json:"seqn"`
	Trig  uint32  `json:"trig"`
	Start *int64  `json:"start"`
	End   *int64  `json:"end"`
	Vol   *oVol   `json:"vol"`
	Dur   *uint32 `json:"dur"`
}

type oSend struct {
	Dst     int      `json:"dst"`  // peer index that received the datagram
	Type    string   `json:"type"` // hbrsp asrsp estrsp modrsp delrsp srreq other
	Seq     uint32   `json:"seq"`
	SEID    uint64   `json:"seid"`
	Cause   int      `json:"cause"`
	FSEID   uint64   `json:"fseid"`
	NodeID  string   `json:"nodeid"`
	RTS     int64    `json:"rts"`
	Created []uint16 `json:"created"`
	URs     []oUR    `json:"urs"`
	DLDR    int      `json:"dldr"` // PDR id of a downlink data report, -1 if none
	Hex     string   `json:"hex"`
	Class   int      `json:"class"` // index (in this case's datagram sequence) of the first datagram with equal bytes
}

type oEvent struct {
	Drv   []oDrv          `json:"drv"`
	Sends []oSend         `json:"sends"`
	Dump  *pfcp.VerifDump `json:"dump"`
	DP    [][3]uint64     `json:"dp"`    // model data plane content: (seid, kind index, id)
	Fault string          `json:"fault"` // "" | "fatal:<msg>" | "hang"
	// the scripted driver panic fired during this event (the handler was aborted there)
	Panicked bool `json:"panicked,omitempty"`
}

// ---------------------------------------------------------------- ModelDP

var kindIdx = map[string]uint64{"pdr": 0, "far": 1, "qer": 2, "urr": 3, "bar": 4}

type modelDP struct {
	mu    sync.Mutex
	rules map[[3]uint64]bool
	calls []oDrv
	fail  map[string]bool
	usage map[string][]jRpt
	// scripted panic: "op/kind/id" of the driver call that panics; panicked: it fired
	panicOn  string
	panicked bool
	// mode "timers": clock for time-stamping calls, artificial latency of every driver call
	clock func() int64
	hold  time.Duration
	times []int64
}

func (d *modelDP) setClock(c func() int64) { d.mu.Lock(); d.clock = c; d.mu.Unlock() }
func (d *modelDP) setHold(h time.Duration) { d.mu.Lock(); d.hold = h; d.mu.Unlock() }

func (d *modelDP) takeTimed() []tmDrv {
	d.mu.Lock()
	defer d.mu.Unlock()
	var out []tmDrv
	for i, c := range d.calls {
		t := int64(-1)
		if i < len(d.times) {
			t = d.times[i]
		}
		out = append(out, tmDrv{TMs: t, oDrv: c})
	}
	d.calls, d.times = nil, nil
	return out
}

func newModelDP() *modelDP {
	return &modelDP{rules: map[[3]uint64]bool{}, fail: map[string]bool{}, usage: map[string][]jRpt{}}
}

func (d *modelDP) script(ev *jEvent) {
	d.mu.Lock()
	defer d.mu.Unlock()
	d.fail = map[string]bool{}
	d.usage = map[string][]jRpt{}
	d.panicOn, d.panicked = "", false
	if ev.Panic != nil {
		d.panicOn = fmt.Sprintf("%s/%s/%d", ev.Panic.Op, ev.Panic.Kind, ev.Panic.ID)
	}
	for _, f := range ev.Fail {
		d.fail[fmt.Sprintf("%s/%s/%d", f.Op, f.Kind, f.ID)] = true
	}
	for _, u := range ev.Usage {
		k := fmt.Sprintf("%s/%d", u.Op, u.ID)
		if _, dup := d.usage[k]; !dup {
			d.usage[k] = u.Rpts
		}
	}
}

func (d *modelDP) take() []oDrv {
	d.mu.Lock()
	defer d.mu.Unlock()
	c := d.calls
	d.calls = nil
	return c
}

func (d *modelDP) table() [][3]uint64 {
	d.mu.Lock()
	defer d.mu.Unlock()
	var t [][3]uint64
	for r := range d.rules {
		t = append(t, r)
	}
	sort.Slice(t, func(i, j int) bool {
		for k := 0; k < 3; k++ {
			if t[i][k] != t[j][k] {
				return t[i][k] < t[j][k]
			}
		}
		return false
	})
	return t
}

var errDP = fmt.Errorf("modelDP: error")

func (d *modelDP) call(op, kind string, seid, id uint64) bool {
	d.mu.Lock()
	hold := d.hold
	d.mu.Unlock()
	if hold > 0 {
		time.Sleep(hold) // the event loop is busy in this call: timer expiries and datagrams queue up meanwhile
	}
	d.mu.Lock()
	defer d.mu.Unlock()
	if d.clock != nil {
		for len(d.times) < len(d.calls) {
			d.times = append(d.times, -1)
		}
		d.times = append(d.times, d.clock())
	}
	key := [3]uint64{seid, kindIdx[kind], id}
	if d.panicOn != "" && d.panicOn == fmt.Sprintf("%s/%s/%d", op, kind, id) {
		// before anything reaches the data plane, as in the real driver (the IEs are decoded before the netlink request)
		d.calls = append(d.calls, oDrv{op, kind, seid, id, false})
		d.panicOn, d.panicked = "", true
		panic("verif: scripted panic inside the driver call " + fmt.Sprintf("%s/%s/%d", op, kind, id))
	}
	present := d.rules[key]
	scripted := d.fail[fmt.Sprintf("%s/%s/%d", op, kind, id)]
	ok := false
	switch op {
	case "create":
		if !scripted && !present {
			d.rules[key] = true
			ok = true
		} else if scripted && !present && d.fail[fmt.Sprintf("remove/%s/%d", kind, id)] {
			// residue: the installation is reported as failed but the rule stays behind (scripted by a "remove" entry,
			// which has no other meaning: removals never fail here)
			d.rules[key] = true
		}
	case "update", "query":
		ok = !scripted && present
	case "remove":
		// "rmfail": the data plane refuses to remove an INSTALLED rule (monitor-only phases; the Coq model's data plane
		// removes whatever is installed)
		if present && !d.fail[fmt.Sprintf("rmfail/%s/%d", kind, id)] {
			delete(d.rules, key)
			ok = true
		}
	}
	d.calls = append(d.calls, oDrv{op, kind, seid, id, ok})
	return ok
}

func (d *modelDP) didPanic() bool {
	d.mu.Lock()
	defer d.mu.Unlock()
	return d.panicked
}

func (d *modelDP) reports(op string, id uint32) []report.USAReport {
	d.mu.Lock()
	defer d.mu.Unlock()
	var out []report.USAReport
	for _, r := range d.usage[fmt.Sprintf("%s/%d", op, id)] {
		out = append(out, toUSAReport(r))
	}
	return out
}

func toUSAReport(r jRpt) report.USAReport {
	u := report.USAReport{URRID: r.URR, StartTime: time.Unix(r.Start, 0), EndTime: time.Unix(r.End, 0)}
	u.USARTrigger.Flags = r.Trig
	c := append(append([]uint64{}, r.Cnt...), 0, 0, 0, 0, 0, 0)
	u.VolumMeasure = report.VolumeMeasure{Flags: r.VFlags, TotalVolume: c[0], UplinkVolume: c[1], DownlinkVolume: c[2],
		TotalPktNum: c[3], UplinkPktNum: c[4], DownlinkPktNum: c[5]}
	u.DuratMeasure.DurationValue = r.Dur * uint64(time.Second)
	return u
}

func (d *modelDP) Close() {}

func idErr(v uint64, err error) (uint64, bool) { return v, err == nil }

func (d *modelDP) simple(op, kind string, seid uint64, id uint64, err error) error {
	if err != nil {
		return err
	}
	if d.call(op, kind, seid, id) {
		return nil
	}
	return errDP
}

func pdrIDOf(req *ie.IE) uint64 {
	var ies []*ie.IE
	var err error
	switch req.Type {
	case ie.CreatePDR:
		ies, err = req.CreatePDR()
	case ie.UpdatePDR:
		ies, err = req.UpdatePDR()
	}
	if err != nil {
		return 0
	}
	var id uint64
	for _, i := range ies {
		if i.Type == ie.PDRID {
			if v, e := i.PDRID(); e == nil {
				id = uint64(v)
			}
		}
	}
	return id
}

func (d *modelDP) CreatePDR(s uint64, req *ie.IE) error {
	return d.simple("create", "pdr", s, pdrIDOf(req), nil)
}
func (d *modelDP) UpdatePDR(s uint64, req *ie.IE) error {
	return d.simple("update", "pdr", s, pdrIDOf(req), nil)
}
func (d *modelDP) RemovePDR(s uint64, req *ie.IE) error {
	v, err := req.PDRID()
	return d.simple("remove", "pdr", s, uint64(v), err)
}
func (d *modelDP) CreateFAR(s uint64, req *ie.IE) error {
	v, err := req.FARID()
	return d.simple("create", "far", s, uint64(v), err)
}
func (d *modelDP) UpdateFAR(s uint64, req *ie.IE) error {
	v, err := req.FARID()
	return d.simple("update", "far", s, uint64(v), err)
}
func (d *modelDP) RemoveFAR(s uint64, req *ie.IE) error {
	v, err := req.FARID()
	return d.simple("remove", "far", s, uint64(v), err)
}
func (d *modelDP) CreateQER(s uint64, req *ie.IE) error {
	v, err := req.QERID()
	return d.simple("create", "qer", s, uint64(v), err)
}
func (d *modelDP) UpdateQER(s uint64, req *ie.IE) error {
	v, err := req.QERID()
	return d.simple("update", "qer", s, uint64(v), err)
}
func (d *modelDP) RemoveQER(s uint64, req *ie.IE) error {
	v, err := req.QERID()
	return d.simple("remove", "qer", s, uint64(v), err)
}
func (d *modelDP) CreateBAR(s uint64, req *ie.IE) error {
	v, err := req.BARID()
	return d.simple("create", "bar", s, uint64(v), err)
}
func (d *modelDP) UpdateBAR(s uint64, req *ie.IE) error {
	v, err := req.BARID()
	return d.simple("update", "bar", s, uint64(v), err)
}
func (d *modelDP) RemoveBAR(s uint64, req *ie.IE) error {
	v, err := req.BARID()
	return d.simple("remove", "bar", s, uint64(v), err)
}
func (d *modelDP) CreateURR(s uint64, req *ie.IE) error {
	v, err := req.URRID()
	return d.simple("create", "urr", s, uint64(v), err)
}
func (d *modelDP) UpdateURR(s uint64, req *ie.IE) ([]report.USAReport, error) {
	v, err := req.URRID()
	if err != nil {
		return nil, err
	}
	if !d.call("update", "urr", s, uint64(v)) {
		return nil, errDP
	}
	return d.reports("update", v), nil
}
func (d *modelDP) RemoveURR(s uint64, req *ie.IE) ([]report.USAReport, error) {
	v, err := req.URRID()
	if err != nil {
		return nil, err
	}
	if !d.call("remove", "urr", s, uint64(v)) {
		return nil, errDP
	}
	return d.reports("remove", v), nil
}
func (d *modelDP) QueryURR(s uint64, id uint32) ([]report.USAReport, error) {
	if !d.call("query", "urr", s, uint64(id)) {
		return nil, errDP
	}
	return d.reports("query", id), nil
}
func (d *modelDP) HandleReport(report.Handler) {}

// ---------------------------------------------------------------- network fixture

type fixture struct {
	prefix  string // "127.a.b."
	peers   []*net.UDPConn
	barrier *net.UDPConn
	upf     *net.UDPAddr
	bseq    uint32
}

const nPeers = 4

// peers nPeers..2*nPeers-1 are "alias" peers: the IP address of peer k-nPeers, another source port (two control-plane
// nodes behind one address); requests the UPF initiates go to <node id>:8805, i.e. never to an alias socket
const nAlias = 4
const aliasPort = 9805

func peerIP(prefix string, k int) string { return fmt.Sprintf("%s%d", prefix, 10+k%nPeers) }

func peerPort(k int) int {
	if k >= nPeers {
		return aliasPort
	}
	return 8805
}

func peerAddr(prefix string, k int) string { return fmt.Sprintf("%s:%d", peerIP(prefix, k), peerPort(k)) }

func newFixture() (*fixture, error) {
	pid := os.Getpid()
	f := &fixture{prefix: fmt.Sprintf("127.%d.%d.", 1+(pid/250)%250, 1+pid%250), bseq: 0x800000}
	var err error
	f.upf, _ = net.ResolveUDPAddr("udp4", f.prefix+"1:8805")
	for k := 0; k < nPeers+nAlias; k++ {
		a, _ := net.ResolveUDPAddr("udp4", peerAddr(f.prefix, k))
		c, e := net.ListenUDP("udp4", a)
		if e != nil {
			return nil, e
		}
		_ = c.SetReadBuffer(8 << 20) // a batch of 700 downlink data reports must fit into the receive queue
		f.peers = append(f.peers, c)
	}
	a, _ := net.ResolveUDPAddr("udp4", f.prefix+"2:8805")
	f.barrier, err = net.ListenUDP("udp4", a)
	return f, err
}

func (f *fixture) close() {
	for _, c := range f.peers {
		c.Close()
	}
	f.barrier.Close()
}

// barrierRT returns true when the server answered a heartbeat sent after everything else.
func (f *fixture) barrierRT(timeout time.Duration) bool {
	f.bseq++
	if f.bseq >= 0xffffff {
		f.bseq = 0x800001
	}
	req := message.NewHeartbeatRequest(f.bseq, ie.NewRecoveryTimeStamp(time.Unix(0, 0)), nil)
	b := make([]byte, req.MarshalLen())
	_ = req.MarshalTo(b)
	if _, err := f.barrier.WriteTo(b, f.upf); err != nil {
		return false
	}
	buf := make([]byte, 65536)
	deadline := time.Now().Add(timeout)
	for {
		_ = f.barrier.SetReadDeadline(deadline)
		n, _, err := f.barrier.ReadFrom(buf)
		if err != nil {
			return false
		}
		m, err := message.Parse(buf[:n])
		if err == nil && m.Sequence() == f.bseq {
			return true
		}
	}
}

func (f *fixture) drain() [][2]interface{} {
	// Non-blocking reads straight on the descriptor: everything the server sent before it answered the barrier is
	// already queued in the peers' sockets (loopback delivery is synchronous), and read deadlines are unreliable
	// under CPU load (an already expired deadline fails the read without trying).
	var res [][2]interface{}
	buf := make([]byte, 65536)
	for k, c := range f.peers {
		rc, err := c.SyscallConn()
		if err != nil {
			continue
		}
		for {
			n := -1
			_ = rc.Read(func(fd uintptr) bool {
				m, _, e := syscall.Recvfrom(int(fd), buf, syscall.MSG_DONTWAIT)
				if e == nil {
					n = m
				}
				return true
			})
			if n < 0 {
				break
			}
			b := make([]byte, n)
			copy(b, buf[:n])
			res = append(res, [2]interface{}{k, b})
		}
	}
	return res
}

// ---------------------------------------------------------------- message construction

func nodeIE(prefix string, v *jIEVal) *ie.IE {
	if v == nil || v.Absent {
		return nil
	}
	if v.Bad {
		return ie.New(ie.NodeID, []byte{})
	}
	if *v.V >= 1000 {
		// a node id nothing can be sent to from the loopback-bound PFCP socket (TEST-NET-1): every write to it fails
		return ie.NewNodeID(fmt.Sprintf("192.0.2.%d", *v.V-1000), "", "")
	}
	return ie.NewNodeID(peerIP(prefix, int(*v.V)), "", "")
}

func fseidIE(prefix string, v *jIEVal, peer int) *ie.IE {
	if v == nil || v.Absent {
		return nil
	}
	if v.Bad {
		return ie.New(ie.FSEID, []byte{})
	}
	return ie.NewFSEID(*v.V, net.ParseIP(peerIP(prefix, peer)), nil)
}

func urrChildren(u jURR) []*ie.IE {
	var c []*ie.IE
	if u.ID != nil {
		c = append(c, ie.NewURRID(*u.ID))
	}
	if u.Method != nil {
		c = append(c, ie.New(ie.MeasurementMethod, []byte{*u.Method}))
	}
	if u.Info != nil {
		c = append(c, ie.NewMeasurementInformation(*u.Info))
	}
	return c
}

func opsIEs(o *jOps) []*ie.IE {
	var ies []*ie.IE
	if o == nil {
		return nil
	}
	farC := func(id *uint32) []*ie.IE {
		c := []*ie.IE{ie.NewApplyAction(2)}
		if id != nil {
			c = append([]*ie.IE{ie.NewFARID(*id)}, c...)
		}
		return c
	}
	qerC := func(id *uint32) []*ie.IE {
		c := []*ie.IE{ie.NewGateStatus(0, 0)}
		if id != nil {
			c = append([]*ie.IE{ie.NewQERID(*id)}, c...)
		}
		return c
	}
	barC := func(id *uint8) []*ie.IE {
		var c []*ie.IE
		if id != nil {
			c = append(c, ie.NewBARID(*id))
		}
		return c
	}
	pdrC := func(p jPDR) []*ie.IE {
		var c []*ie.IE
		if p.ID != nil {
			c = append(c, ie.NewPDRID(*p.ID))
		}
		c = append(c, ie.NewPrecedence(10))
		if p.UEIP {
			c = append(c, ie.NewPDI(ie.NewSourceInterface(ie.SrcInterfaceCore), ie.NewUEIPAddress(2, "10.60.0.1", "", 0, 0)))
		} else {
			c = append(c, ie.NewPDI(ie.NewSourceInterface(ie.SrcInterfaceAccess)))
		}
		for _, u := range p.URRs {
			c = append(c, ie.NewURRID(u))
		}
		return c
	}
	for _, x := range o.CFAR {
		ies = append(ies, ie.NewCreateFAR(farC(x)...))
	}
	for _, x := range o.CQER {
		ies = append(ies, ie.NewCreateQER(qerC(x)...))
	}
	for _, x := range o.CURR {
		ies = append(ies, ie.NewCreateURR(urrChildren(x)...))
	}
	for _, x := range o.CBAR {
		ies = append(ies, ie.NewCreateBAR(barC(x)...))
	}
	for _, x := range o.CPDR {
		ies = append(ies, ie.NewCreatePDR(pdrC(x)...))
	}
	for _, x := range o.RFAR {
		if x != nil {
			ies = append(ies, ie.NewRemoveFAR(ie.NewFARID(*x)))
		} else {
			ies = append(ies, ie.New(ie.RemoveFAR, []byte{}))
		}
	}
	for _, x := range o.RQER {
		if x != nil {
			ies = append(ies, ie.NewRemoveQER(ie.NewQERID(*x)))
		} else {
			ies = append(ies, ie.New(ie.RemoveQER, []byte{}))
		}
	}
	for _, x := range o.RURR {
		if x != nil {
			ies = append(ies, ie.NewRemoveURR(ie.NewURRID(*x)))
		} else {
			ies = append(ies, ie.New(ie.RemoveURR, []byte{}))
		}
	}
	for _, x := range o.RBAR {
		if x != nil {
			ies = append(ies, ie.NewRemoveBAR(ie.NewBARID(*x)))
		} else {
			ies = append(ies, ie.New(ie.RemoveBAR, []byte{}))
		}
	}
	for _, x := range o.RPDR {
		if x != nil {
			ies = append(ies, ie.NewRemovePDR(ie.NewPDRID(*x)))
		} else {
			ies = append(ies, ie.New(ie.RemovePDR, []byte{}))
		}
	}
	for _, x := range o.UFAR {
		ies = append(ies, ie.NewUpdateFAR(farC(x)...))
	}
	for _, x := range o.UQER {
		ies = append(ies, ie.NewUpdateQER(qerC(x)...))
	}
	for _, x := range o.UURR {
		ies = append(ies, ie.NewUpdateURR(urrChildren(x)...))
	}
	for _, x := range o.UBAR {
		ies = append(ies, ie.NewUpdateBARWithinSessionModificationRequest(barC(x)...))
	}
	for _, x := range o.UPDR {
		var c []*ie.IE
		if x.ID != nil {
			c = append(c, ie.NewPDRID(*x.ID))
		}
		c = append(c, ie.NewPrecedence(20))
		for _, u := range x.URRs {
			c = append(c, ie.NewURRID(u))
		}
		ies = append(ies, ie.NewUpdatePDR(c...))
	}
	for _, x := range o.QURR {
		if x != nil {
			ies = append(ies, ie.NewQueryURR(ie.NewURRID(*x)))
		} else {
			ies = append(ies, ie.New(ie.QueryURR, []byte{}))
		}
	}
	return ies
}

func buildMsg(prefix string, ev *jEvent) ([]byte, error) {
	m := ev.Msg
	var msg message.Message
	switch m.K {
	case "hb":
		msg = message.NewHeartbeatRequest(ev.Seq, ie.NewRecoveryTimeStamp(time.Unix(1000, 0)), nil)
	case "asr":
		var ies []*ie.IE
		if n := nodeIE(prefix, m.NID); n != nil {
			ies = append(ies, n)
		}
		ies = append(ies, ie.NewRecoveryTimeStamp(time.Unix(1000, 0)))
		msg = message.NewAssociationSetupRequest(ev.Seq, ies...)
	case "est":
		var ies []*ie.IE
		if n := nodeIE(prefix, m.NID); n != nil {
			ies = append(ies, n)
		}
		if f := fseidIE(prefix, m.FSEID, ev.Peer); f != nil {
			ies = append(ies, f)
		}
		ies = append(ies, opsIEs(m.Ops)...)
		msg = message.NewSessionEstablishmentRequest(0, 0, 0, ev.Seq, 0, ies...)
	case "mod":
		var ies []*ie.IE
		if n := nodeIE(prefix, m.NID); n != nil {
			ies = append(ies, n)
		}
		ies = append(ies, opsIEs(m.Ops)...)
		msg = message.NewSessionModificationRequest(0, 0, m.SEID, ev.Seq, 0, ies...)
	case "del":
		msg = message.NewSessionDeletionRequest(0, 0, m.SEID, ev.Seq, 0)
	case "srr":
		msg = message.NewSessionReportResponse(0, 0, m.Hdr, ev.Seq, 0, ie.NewCause(ie.CauseRequestAccepted))
	case "otherreq":
		switch m.Type {
		case message.MsgTypeAssociationUpdateRequest:
			msg = message.NewAssociationUpdateRequest(ev.Seq, ie.NewNodeID(peerIP(prefix, ev.Peer), "", ""))
		case message.MsgTypeAssociationReleaseRequest:
			msg = message.NewAssociationReleaseRequest(ev.Seq, ie.NewNodeID(peerIP(prefix, ev.Peer), "", ""))
		case message.MsgTypePFDManagementRequest:
			msg = message.NewPFDManagementRequest(ev.Seq)
		case message.MsgTypeNodeReportRequest:
			msg = message.NewNodeReportRequest(ev.Seq, ie.NewNodeID(peerIP(prefix, ev.Peer), "", ""))
		default:
			msg = message.NewSessionReportRequest(0, 0, m.SEID, ev.Seq, 0, ie.NewReportType(0, 0, 1, 0))
		}
	case "otherrsp":
		switch m.Type {
		case message.MsgTypeAssociationSetupResponse:
			msg = message.NewAssociationSetupResponse(ev.Seq, ie.NewCause(ie.CauseRequestAccepted))
		case message.MsgTypeSessionEstablishmentResponse:
			msg = message.NewSessionEstablishmentResponse(0, 0, m.SEID, ev.Seq, 0, ie.NewCause(ie.CauseRequestAccepted))
		case message.MsgTypeSessionModificationResponse:
			msg = message.NewSessionModificationResponse(0, 0, m.SEID, ev.Seq, 0, ie.NewCause(ie.CauseRequestAccepted))
		default:
			msg = message.NewHeartbeatResponse(ev.Seq, ie.NewRecoveryTimeStamp(time.Unix(1000, 0)))
		}
	default:
		return nil, fmt.Errorf("unknown msg kind %q", m.K)
	}
	b := make([]byte, msg.MarshalLen())
	if err := msg.MarshalTo(b); err != nil {
		return nil, err
	}
	return b, nil
}

// ---------------------------------------------------------------- datagram decoding at the simulated SMF

func decodeUR(g *ie.IE) oUR {
	var u oUR
	children, err := g.UsageReport()
	if err != nil {
		return u
	}
	for _, c := range children {
		switch c.Type {
		case ie.URRID:
			if len(c.Payload) >= 4 {
				u.URR = binary.BigEndian.Uint32(c.Payload)
			}
		case ie.URSEQN:
			if len(c.Payload) >= 4 {
				u.SEQN = binary.BigEndian.Uint32(c.Payload)
			}
		case ie.UsageReportTrigger:
			p := append(append([]byte{}, c.Payload...), 0, 0, 0, 0)
			u.Trig = binary.LittleEndian.Uint32(p[:4]) & 0xffffff
		case ie.StartTime:
			if len(c.Payload) >= 4 {
				v := int64(binary.BigEndian.Uint32(c.Payload)) - 2208988800
				u.Start = &v
			}
		case ie.EndTime:
			if len(c.Payload) >= 4 {
				v := int64(binary.BigEndian.Uint32(c.Payload)) - 2208988800
				u.End = &v
			}
		case ie.VolumeMeasurement:
			if len(c.Payload) >= 1 {
				v := &oVol{Flags: c.Payload[0], Cnt: make([]uint64, 6)}
				off := 1
				for b := 0; b < 6; b++ {
					if c.Payload[0]&(1<<uint(b)) != 0 && len(c.Payload) >= off+8 {
						v.Cnt[b] = binary.BigEndian.Uint64(c.Payload[off:])
						off += 8
					}
				}
				u.Vol = v
			}
		case ie.DurationMeasurement:
			if len(c.Payload) >= 4 {
				v := binary.BigEndian.Uint32(c.Payload)
				u.Dur = &v
			}
		}
	}
	return u
}

func causeOf(i *ie.IE) int {
	if i == nil {
		return -1
	}
	v, err := i.Cause()
	if err != nil {
		return -1
	}
	return int(v)
}

func rtsOf(i *ie.IE) int64 {
	if i == nil {
		return -1
	}
	t, err := i.RecoveryTimeStamp()
	if err != nil {
		return -1
	}
	return t.Unix()
}

func nodeIDOf(i *ie.IE) string {
	if i == nil {
		return ""
	}
	s, err := i.NodeID()
	if err != nil {
		return "?"
	}
	return s
}

func decodeDatagram(dst int, b []byte) oSend {
	o := oSend{Dst: dst, Type: "other", Cause: -1, DLDR: -1, RTS: -1, Hex: hex.EncodeToString(b)}
	m, err := message.Parse(b)
	if err != nil {
		o.Type = "unparsable"
		return o
	}
	o.Seq = m.Sequence()
	o.SEID = m.SEID()
	switch x := m.(type) {
	case *message.HeartbeatResponse:
		o.Type = "hbrsp"
		o.RTS = rtsOf(x.RecoveryTimeStamp)
	case *message.AssociationSetupResponse:
		o.Type = "asrsp"
		o.Cause = causeOf(x.Cause)
		o.NodeID = nodeIDOf(x.NodeID)
		o.RTS = rtsOf(x.RecoveryTimeStamp)
	case *message.SessionEstablishmentResponse:
		o.Type = "estrsp"
		o.Cause = causeOf(x.Cause)
		o.NodeID = nodeIDOf(x.NodeID)
		if x.UPFSEID != nil {
			if f, e := x.UPFSEID.FSEID(); e == nil {
				o.FSEID = f.SEID
			}
		}
		for _, c := range x.CreatedPDR {
			if id, e := c.PDRID(); e == nil {
				o.Created = append(o.Created, id)
			}
		}
	case *message.SessionModificationResponse:
		o.Type = "modrsp"
		o.Cause = causeOf(x.Cause)
		for _, u := range x.UsageReport {
			o.URs = append(o.URs, decodeUR(u))
		}
	case *message.SessionDeletionResponse:
		o.Type = "delrsp"
		o.Cause = causeOf(x.Cause)
		for _, u := range x.UsageReport {
			o.URs = append(o.URs, decodeUR(u))
		}
	case *message.SessionReportRequest:
		o.Type = "srreq"
		if x.DownlinkDataReport != nil {
			if id, e := x.DownlinkDataReport.PDRID(); e == nil {
				o.DLDR = int(id)
			}
		}
		for _, u := range x.UsageReport {
			o.URs = append(o.URs, decodeUR(u))
		}
	default:
		o.Type = "other:" + strconv.Itoa(int(m.MessageType()))
	}
	return o
}

// ---------------------------------------------------------------- running a case

var fatalMsg atomic.Value

type nullWriter struct{}

func (nullWriter) Write(p []byte) (int, error) { return len(p), nil }

type fatalHook struct{}

func (fatalHook) Levels() []logrus.Level { return []logrus.Level{logrus.FatalLevel, logrus.PanicLevel} }
func (fatalHook) Fire(e *logrus.Entry) error {
	msg := e.Message
	if i := strings.Index(msg, "\n"); i > 0 {
		msg = msg[:i]
	}
	fatalMsg.Store(msg)
	return nil
}

func setupLogger() {
	logger.Log.SetOutput(nullWriter{})
	logger.Log.SetLevel(logrus.FatalLevel)
	logger.Log.ExitFunc = func(int) {}
	logger.Log.AddHook(fatalHook{})
}

func keyToPeer(prefix, key string) (int, uint64) {
	// "127.a.b.X:8805-SEQ" (or port 9805: alias peer)
	i := strings.LastIndex(key, "-")
	if i < 0 {
		return -1, 0
	}
	seq, _ := strconv.ParseUint(key[i+1:], 10, 64)
	addr := key[:i]
	off := 0
	switch {
	case strings.HasSuffix(addr, ":8805"):
	case strings.HasSuffix(addr, fmt.Sprintf(":%d", aliasPort)):
		off = nPeers
	default:
		return -1, seq
	}
	if !strings.HasPrefix(addr, prefix) {
		return -1, seq
	}
	x, err := strconv.Atoi(strings.TrimPrefix(addr[:len(addr)-5], prefix))
	if err != nil {
		return -1, seq
	}
	return x - 10 + off, seq
}

func runPfcpCase(f *fixture, c jCase) []oEvent {
	fatalMsg.Store("")
	dp := newModelDP()
	cfg := &factory.Config{Pfcp: &factory.Pfcp{Addr: f.prefix + "1", NodeID: f.prefix + "1",
		RetransTimeout: time.Hour, MaxRetrans: c.MaxRetrans}}
	srv := pfcp.NewPfcpServer(cfg, dp)
	srv.VerifSetTxSeq(c.TxSeq0)
	var wg sync.WaitGroup
	srv.Start(&wg)
	up := false
	for i := 0; i < 200 && !up; i++ {
		up = f.barrierRT(20 * time.Millisecond)
	}
	defer func() {
		srv.Stop()
		done := make(chan struct{})
		go func() { wg.Wait(); close(done) }()
		select {
		case <-done:
		case <-time.After(3 * time.Second):
		}
	}()
	var out []oEvent
	if !up {
		return []oEvent{{Fault: "server did not start"}}
	}
	f.drain()
	var allHex []string
	var scribble [][]byte
	for i := range c.Events {
		ev := &c.Events[i]
		dp.script(ev)
		var o oEvent
		switch ev.T {
		case "recv":
			b, err := buildMsg(f.prefix, ev)
			if err != nil {
				o.Fault = "harness: " + err.Error()
				out = append(out, o)
				return out
			}
			if ev.WFail {
				// handled while every write of the PFCP socket fails; the datagram passes the receiver goroutine and the
				// channel before the loop takes it: a grace period instead of a hand-shake (if the loop is slower the
				// response leaves after all and the event is judged as an ordinary one)
				srv.VerifFailWrites(true)
				_, _ = f.peers[ev.Peer].WriteTo(b, f.upf)
				time.Sleep(40 * time.Millisecond)
				srv.VerifFailWrites(false)
			} else {
				_, _ = f.peers[ev.Peer].WriteTo(b, f.upf)
			}
		case "raw":
			b, _ := hex.DecodeString(ev.Raw)
			_, _ = f.peers[ev.Peer].WriteTo(b, f.upf)
		case "report":
			sr := report.SessReport{SEID: ev.SEID}
			for _, it := range ev.Items {
				if it.Dld != nil {
					pk, _ := hex.DecodeString(it.Dld.Pkt)
					sr.Reports = append(sr.Reports, report.DLDReport{PDRID: it.Dld.PDR, Action: it.Dld.Action, BufPkt: pk})
					scribble = append(scribble, pk)
				} else if it.Usa != nil {
					sr.Reports = append(sr.Reports, toUSAReport(*it.Usa))
				}
			}
			if ev.WFail {
				srv.VerifFailWrites(true)
			}
			srv.NotifySessReport(sr)
			for j := 0; j < 20000; j++ {
				if _, n, _ := srv.VerifChanLens(); n == 0 {
					break
				}
				time.Sleep(50 * time.Microsecond)
			}
			if ev.WFail {
				// the loop has taken the report; give it time to run into the failing write before writes work again
				time.Sleep(30 * time.Millisecond)
				srv.VerifFailWrites(false)
			}
		case "setseq":
			// the loop is idle (the previous barrier went through it): the counter is positioned directly
			if !srv.VerifSetURRSeq(ev.SEID, ev.URR, ev.V) {
				o.Fault = "harness: setseq for a URR the session does not hold"
			}
		case "timeout":
			tt := pfcp.RX
			if ev.Tx {
				tt = pfcp.TX
			}
			if ev.WFail {
				srv.VerifFailWrites(true)
			}
			srv.NotifyTransTimeout(tt, fmt.Sprintf("%s-%d", peerAddr(f.prefix, ev.Peer), ev.Seq))
			for j := 0; j < 20000; j++ {
				if _, _, n := srv.VerifChanLens(); n == 0 {
					break
				}
				time.Sleep(50 * time.Microsecond)
			}
			if ev.WFail {
				time.Sleep(30 * time.Millisecond)
				srv.VerifFailWrites(false)
			}
		}
		alive := f.barrierRT(2 * time.Second)
		// the notification has been consumed (the barrier went through the event loop after it): a producer may now
		// reuse its buffer - whatever the server still holds must be its own copy (C13: held packets stay intact)
		for _, b := range scribble {
			for j := range b {
				b[j] ^= 0xa5
			}
		}
		scribble = scribble[:0]
		for _, d := range f.drain() {
			s := decodeDatagram(d[0].(int), d[1].([]byte))
			s.Class = len(allHex)
			for j, h := range allHex {
				if h == s.Hex {
					s.Class = j
					break
				}
			}
			allHex = append(allHex, s.Hex)
			o.Sends = append(o.Sends, s)
		}
		o.Drv = dp.take()
		o.DP = dp.table()
		o.Panicked = dp.didPanic()
		if fm, _ := fatalMsg.Load().(string); fm != "" {
			o.Fault = "fatal:" + fm
		} else if !alive {
			o.Fault = "hang"
		}
		if o.Fault == "" {
			d := srv.VerifDumpState()
			o.Dump = &d
		}
		out = append(out, o)
		if o.Fault != "" {
			break
		}
	}
	return out
}

func init() {
	modes["pfcp"] = func(in json.RawMessage) (interface{}, error) {
		var cases []jCase
		if err := json.Unmarshal(in, &cases); err != nil {
			return nil, err
		}
		setupLogger()
		f, err := newFixture()
		if err != nil {
			return nil, err
		}
		defer f.close()
		res := map[string]interface{}{"prefix": f.prefix}
		var outs [][]oEvent
		for _, c := range cases {
			outs = append(outs, runPfcpCase(f, c))
		}
		res["cases"] = outs
		return res, nil
	}
}
