//go:build verif

package main

// Modes "fuzzbase" and "fuzz" (C07, byte level): structure-aware mutations of valid PFCP messages are delivered, after
// a valid prefix that creates two sessions, to the real server with either the model data plane or the REAL gtp5g
// driver over the simulated kernel (so that the driver's IE decoding runs).  Oracle: no fatal exit, no hang, the
// heartbeat is answered after every datagram, and the reference session that no datagram addresses is unchanged.

import (
	"encoding/hex"
	"encoding/json"
	"fmt"
	"net"
	"os"
	"sync"
	"time"

	"github.com/wmnsk/go-pfcp/ie"
	"github.com/wmnsk/go-pfcp/message"

	"github.com/free5gc/go-upf/internal/forwarder"
	"github.com/free5gc/go-upf/internal/pfcp"
	"github.com/free5gc/go-upf/pkg/factory"
)

func richIEs(create bool, prefix string) []*ie.IE {
	gnb := prefix + "200"
	pdi := ie.NewPDI(ie.NewSourceInterface(ie.SrcInterfaceAccess),
		ie.NewFTEID(0x01, 0x11223344, net.ParseIP(prefix+"1"), nil, 0),
		ie.NewNetworkInstance("internet"), ie.NewUEIPAddress(2, "10.60.0.1", "", 0, 0),
		ie.NewSDFFilter("permit out ip from 10.1.2.0/24 80-90 to assigned 1000", "", "", "", 7))
	fp := []*ie.IE{ie.NewDestinationInterface(ie.DstInterfaceAccess), ie.NewNetworkInstance("internet"),
		ie.NewOuterHeaderCreation(0x0100, 0x55667788, gnb, "", 0, 0, 0), ie.NewForwardingPolicy("pol1")}
	urr := []*ie.IE{ie.NewURRID(1), ie.NewMeasurementMethod(0, 1, 1), ie.NewReportingTriggers(0x03, 0x01),
		ie.NewMeasurementPeriod(10 * time.Second), ie.NewMeasurementInformation(0x10),
		ie.NewVolumeThreshold(0x07, 1000, 2000, 3000), ie.NewVolumeQuota(0x07, 10000, 20000, 30000)}
	qer := []*ie.IE{ie.NewQERID(1), ie.NewQERCorrelationID(9), ie.NewGateStatus(0, 0), ie.NewMBR(1<<33, 1<<34),
		ie.NewGBR(1000, 2000), ie.NewQFI(9), ie.NewRQI(1), ie.NewPagingPolicyIndicator(2)}
	bar := []*ie.IE{ie.NewBARID(1), ie.NewDownlinkDataNotificationDelay(100 * time.Millisecond), ie.NewSuggestedBufferingPacketsCount(5)}
	if create {
		return []*ie.IE{
			ie.NewCreateFAR(ie.NewFARID(1), ie.NewApplyAction(0x02), ie.NewForwardingParameters(fp...), ie.NewBARID(1)),
			ie.NewCreateFAR(ie.NewFARID(2), ie.NewApplyAction(0x0c)),
			ie.NewCreateQER(qer...), ie.NewCreateURR(urr...), ie.NewCreateBAR(bar...),
			ie.NewCreatePDR(ie.NewPDRID(1), ie.NewPrecedence(255), pdi, ie.NewOuterHeaderRemoval(0, 0), ie.NewFARID(1), ie.NewQERID(1), ie.NewURRID(1)),
			ie.NewCreatePDR(ie.NewPDRID(2), ie.NewPrecedence(100), ie.NewPDI(ie.NewSourceInterface(ie.SrcInterfaceCore),
				ie.NewUEIPAddress(2, "10.60.0.1", "", 0, 0)), ie.NewFARID(2), ie.NewQERID(1)),
		}
	}
	return []*ie.IE{
		ie.NewUpdateFAR(ie.NewFARID(2), ie.NewApplyAction(0x02), ie.NewUpdateForwardingParameters(fp...)),
		ie.NewUpdateQER(qer...), ie.NewUpdateURR(urr...), ie.NewUpdateBARWithinSessionModificationRequest(bar...),
		ie.NewUpdatePDR(ie.NewPDRID(1), ie.NewPrecedence(10), pdi, ie.NewFARID(1), ie.NewURRID(1)),
		ie.NewQueryURR(ie.NewURRID(1)), ie.NewRemovePDR(ie.NewPDRID(2)), ie.NewCreateFAR(ie.NewFARID(3), ie.NewApplyAction(0x01)),
	}
}

func marshal(m message.Message) []byte {
	b := make([]byte, m.MarshalLen())
	_ = m.MarshalTo(b)
	return b
}

// the valid messages the mutations start from (peer 0 is the SMF; session 2 is the one mutated traffic addresses)
func fuzzBase(prefix string) map[string]string {
	node := ie.NewNodeID(peerIP(prefix, 0), "", "")
	out := map[string]string{}
	out["hb"] = hex.EncodeToString(marshal(message.NewHeartbeatRequest(100, ie.NewRecoveryTimeStamp(time.Unix(1000, 0)), nil)))
	out["asr"] = hex.EncodeToString(marshal(message.NewAssociationSetupRequest(101, node, ie.NewRecoveryTimeStamp(time.Unix(1000, 0)))))
	est := append([]*ie.IE{node, ie.NewFSEID(0x1234, net.ParseIP(peerIP(prefix, 0)), nil)}, richIEs(true, prefix)...)
	out["est"] = hex.EncodeToString(marshal(message.NewSessionEstablishmentRequest(0, 0, 0, 102, 0, est...)))
	out["mod"] = hex.EncodeToString(marshal(message.NewSessionModificationRequest(0, 0, 2, 103, 0, richIEs(false, prefix)...)))
	out["del"] = hex.EncodeToString(marshal(message.NewSessionDeletionRequest(0, 0, 2, 104, 0)))
	out["srr"] = hex.EncodeToString(marshal(message.NewSessionReportResponse(0, 0, 2, 0, 0, ie.NewCause(ie.CauseRequestAccepted))))
	return out
}

type fuzzCase struct {
	Driver    string   `json:"driver"` // modeldp | gtp5g
	Datagrams []string `json:"datagrams"`
}

type fuzzOut struct {
	FaultIndex int    `json:"fault_index"` // index of the datagram after which the server was found dead / hung; -1 = none
	Fault      string `json:"fault"`
	RefChanged bool   `json:"ref_changed"` // the reference session (UP SEID 1) differs from its state after the prefix
	Sent       int    `json:"sent"`
}

func fuzzOne(f *fixture, c fuzzCase, caseIndex int) fuzzOut {
	out := fuzzOut{FaultIndex: -1}
	fatalMsg.Store("")
	var wg sync.WaitGroup
	var srv *pfcp.PfcpServer
	cfg := &factory.Config{Pfcp: &factory.Pfcp{Addr: f.prefix + "1", NodeID: f.prefix + "1", RetransTimeout: time.Hour, MaxRetrans: 1}}
	var cleanup func()
	if c.Driver == "gtp5g" {
		g, k, err := forwarder.NewVerifGtp5g(forwarder.VerifOpts{Wg: &wg, GtpuAddr: f.prefix + "1:0"})
		if err != nil {
			out.Fault = "harness: " + err.Error()
			return out
		}
		srv = pfcp.NewPfcpServer(cfg, g)
		g.HandleReport(srv)
		cleanup = func() { g.Close(); k.CloseConns() }
	} else {
		srv = pfcp.NewPfcpServer(cfg, newModelDP())
		cleanup = func() {}
	}
	srv.Start(&wg)
	defer func() {
		srv.Stop()
		cleanup()
		done := make(chan struct{})
		go func() { wg.Wait(); close(done) }()
		select {
		case <-done:
		case <-time.After(3 * time.Second):
		}
	}()
	up := false
	for i := 0; i < 200 && !up; i++ {
		up = f.barrierRT(20 * time.Millisecond)
	}
	if !up {
		out.Fault = "server did not start"
		return out
	}
	base := fuzzBase("127.0.0.")
	// the mutated datagrams were derived from base messages generated for the placeholder prefix 127.0.0.x:
	// re-home the three addresses that matter (SMF node id, UPF, gNB) to this process's loopback prefix
	real := net.ParseIP(f.prefix + "1").To4()
	sendHex := func(h string) {
		b, _ := hex.DecodeString(h)
		for i := 0; i+3 < len(b); i++ {
			if b[i] == 127 && b[i+1] == 0 && b[i+2] == 0 && (b[i+3] == 10 || b[i+3] == 1 || b[i+3] == 200) {
				b[i+1], b[i+2] = real[1], real[2]
			}
		}
		_, _ = f.peers[0].WriteTo(b, f.upf)
	}
	// valid prefix: the reference session (UP SEID 1) belongs to ANOTHER node (peer 1), which the mutated traffic of
	// peer 0 does not address; then peer 0 associates and establishes the target session (UP SEID 2)
	node1 := ie.NewNodeID(peerIP(f.prefix, 1), "", "")
	_, _ = f.peers[1].WriteTo(marshal(message.NewAssociationSetupRequest(40, node1, ie.NewRecoveryTimeStamp(time.Unix(1000, 0)))), f.upf)
	f.barrierRT(time.Second)
	est1 := append([]*ie.IE{node1, ie.NewFSEID(0x1111, net.ParseIP(peerIP(f.prefix, 1)), nil)}, richIEs(true, f.prefix)...)
	_, _ = f.peers[1].WriteTo(marshal(message.NewSessionEstablishmentRequest(0, 0, 0, 41, 0, est1...)), f.upf)
	f.barrierRT(time.Second)
	sendHex(base["asr"])
	f.barrierRT(time.Second)
	node := ie.NewNodeID(peerIP(f.prefix, 0), "", "")
	est := append([]*ie.IE{node, ie.NewFSEID(0x1234, net.ParseIP(peerIP(f.prefix, 0)), nil)}, richIEs(true, f.prefix)...)
	_, _ = f.peers[0].WriteTo(marshal(message.NewSessionEstablishmentRequest(0, 0, 0, 50, 0, est...)), f.upf)
	f.barrierRT(time.Second)
	f.drain()
	ref := func() string {
		d := srv.VerifDumpState()
		if len(d.Slots) == 0 || d.Slots[0] == nil {
			return "gone"
		}
		b, _ := json.Marshal(d.Slots[0])
		return string(b)
	}
	ref0 := ref()
	for i, h := range c.Datagrams {
		// a fault that takes the whole process down (a panic in a goroutine nobody recovers) leaves no result: the
		// datagram under way is noted in a side file first
		if pf := os.Getenv("VHARNESS_PROGRESS"); pf != "" {
			_ = os.WriteFile(pf, []byte(fmt.Sprintf("{\"case\": %d, \"datagram\": %d}", caseIndex, i)), 0o644)
		}
		sendHex(h)
		out.Sent++
		alive := f.barrierRT(2 * time.Second)
		f.drain()
		if fm, _ := fatalMsg.Load().(string); fm != "" {
			out.FaultIndex, out.Fault = i, "fatal:"+fm
			return out
		}
		if !alive {
			out.FaultIndex, out.Fault = i, "hang"
			return out
		}
	}
	out.RefChanged = ref() != ref0
	return out
}

func init() {
	modes["fuzzbase"] = func(in json.RawMessage) (interface{}, error) {
		var prefix string
		_ = json.Unmarshal(in, &prefix)
		return fuzzBase(prefix), nil
	}
	modes["fuzz"] = func(in json.RawMessage) (interface{}, error) {
		var cases []fuzzCase
		if err := json.Unmarshal(in, &cases); err != nil {
			return nil, err
		}
		setupLogger()
		f, err := newFixture()
		if err != nil {
			return nil, err
		}
		defer f.close()
		var outs []fuzzOut
		for ci, c := range cases {
			outs = append(outs, fuzzOne(f, c, ci))
		}
		return map[string]interface{}{"prefix": f.prefix, "cases": outs}, nil
	}
}
