//go:build verif

// Mode "writepacket" (C14): the REAL forwarder.Gtp5g.WritePacket (gtp5g.go:1650-1681), assembled over SimKernel, sends to a
// fake gNB (a UDP socket on 127.x.y.z:<port>); the datagram received there is returned.
//
//	in : [{"teid": n, "peer": "7f000102" (hex, 4 octets; "" = nil), "port": n (0 = pick a free one on the peer address),
//	       "no_creation": bool (FAR without outer header creation), "no_param": bool (FAR without forwarding parameters),
//	       "qer": null | {"id": n, "qfi": n}, "payload": "hex"}]
//	out: [{"err": "" | "error:..." | "panic:...", "received": bool, "datagram": "hex", "from": "ip:port" (the driver's GTP-U socket),
//	       "dst": "ip:port" (where the fake gNB listened), "far_port": n (the port put into the FAR)}]
//
// With port 0 the harness binds the fake gNB to an ephemeral port of the peer address and puts that port into the FAR
// (WritePacket sends to hc.Port, whatever it is); with a fixed port (e.g. 2152) it binds exactly there.
package main

import (
	"encoding/hex"
	"encoding/json"
	"fmt"
	"io"
	"log"
	"net"
	"time"

	"github.com/sirupsen/logrus"

	"github.com/free5gc/go-gtp5gnl"
	"github.com/free5gc/go-upf/internal/forwarder"
	"github.com/free5gc/go-upf/internal/logger"
)

type wpQER struct {
	ID  uint32 `json:"id"`
	QFI uint8  `json:"qfi"`
}

type wpCase struct {
	TEID       uint32 `json:"teid"`
	Peer       string `json:"peer"`
	Port       uint16 `json:"port"`
	NoCreation bool   `json:"no_creation"`
	NoParam    bool   `json:"no_param"`
	QER        *wpQER `json:"qer"`
	Payload    string `json:"payload"`
}

type wpOut struct {
	Err      string `json:"err"`
	Received bool   `json:"received"`
	Datagram string `json:"datagram"`
	From     string `json:"from"`
	Dst      string `json:"dst"`
	FarPort  uint16 `json:"far_port"`
}

func wpOne(g *forwarder.Gtp5g, c wpCase) (out wpOut) {
	defer func() {
		if p := recover(); p != nil {
			out.Err = fmt.Sprintf("panic:%v", p)
		}
	}()
	pl, err := hex.DecodeString(c.Payload)
	if err != nil {
		return wpOut{Err: "badcase"}
	}
	peer, err := hex.DecodeString(c.Peer)
	if err != nil || (len(peer) != 0 && len(peer) != 4) {
		return wpOut{Err: "badcase"}
	}
	var sink *net.UDPConn
	port := c.Port
	if len(peer) == 4 {
		sink, err = net.ListenUDP("udp4", &net.UDPAddr{IP: net.IP(peer), Port: int(c.Port)})
		if err != nil {
			return wpOut{Err: "badcase: cannot listen on " + net.IP(peer).String() + ": " + err.Error()}
		}
		defer sink.Close()
		port = uint16(sink.LocalAddr().(*net.UDPAddr).Port)
		out.Dst = sink.LocalAddr().String()
	}
	out.FarPort = port
	far := &gtp5gnl.FAR{ID: 1}
	if !c.NoParam {
		far.Param = &gtp5gnl.ForwardParam{}
		if !c.NoCreation {
			hc := &gtp5gnl.HeaderCreation{Desc: 0x0100, TEID: c.TEID, Port: port}
			if len(peer) == 4 {
				hc.PeerAddr = net.IP(peer)
			}
			far.Param.Creation = hc
		}
	}
	var qer *gtp5gnl.QER
	if c.QER != nil {
		qer = &gtp5gnl.QER{ID: c.QER.ID, QFI: c.QER.QFI}
	}
	if err := g.WritePacket(far, qer, pl); err != nil {
		out.Err = "error:" + err.Error()
	}
	if sink != nil {
		b := make([]byte, 70000)
		_ = sink.SetReadDeadline(time.Now().Add(300 * time.Millisecond))
		if out.Err != "" {
			_ = sink.SetReadDeadline(time.Now().Add(20 * time.Millisecond))
		}
		n, from, err := sink.ReadFromUDP(b)
		if err == nil {
			out.Received = true
			out.Datagram = hex.EncodeToString(b[:n])
			out.From = from.String()
		}
	}
	return out
}

func init() {
	modes["writepacket"] = func(in json.RawMessage) (interface{}, error) {
		var cases []wpCase
		if err := json.Unmarshal(in, &cases); err != nil {
			return nil, err
		}
		logger.Log.SetLevel(logrus.PanicLevel)
		log.SetOutput(io.Discard)
		g, k, err := forwarder.NewVerifGtp5g(forwarder.VerifOpts{Lenient: true})
		if err != nil {
			return nil, err
		}
		out := make([]wpOut, len(cases))
		for i, c := range cases {
			out[i] = wpOne(g, c)
		}
		g.Close()
		k.CloseConns()
		return out, nil
	}
}
