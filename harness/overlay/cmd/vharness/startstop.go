//go:build verif

package main

// Mode "startstop" (C17, "Stop stops"): Start immediately followed, after a random pause of 0-300 microseconds, by Stop -
// the request lands anywhere between "the loop goroutine does not exist yet" and "the socket is open and the receiver
// runs".  Every round must end: Stop returns, all goroutines of the server terminate.  Meant for the -race build.

import (
	"encoding/json"
	"math/rand"
	"sync"
	"time"

	"github.com/free5gc/go-upf/internal/pfcp"
	"github.com/free5gc/go-upf/pkg/factory"
)

type ssIn struct {
	Seed   int64 `json:"seed"`
	Rounds int   `json:"rounds"`
}

type ssOut struct {
	Rounds  int      `json:"rounds"`
	StuckAt int      `json:"stuck_at"` // -1, or the round in which Stop did not return / goroutines did not end
	What    string   `json:"what"`
	PauseUs int      `json:"pause_us"`
	Blocked []string `json:"blocked"`
	Fatal   string   `json:"fatal"`
}

func init() {
	modes["startstop"] = func(in json.RawMessage) (interface{}, error) {
		var c ssIn
		if err := json.Unmarshal(in, &c); err != nil {
			return nil, err
		}
		setupLogger()
		f, err := newFixture()
		if err != nil {
			return nil, err
		}
		defer f.close()
		fatalMsg.Store("")
		out := ssOut{StuckAt: -1}
		rnd := rand.New(rand.NewSource(c.Seed))
		for r := 1; r <= c.Rounds; r++ {
			cfg := &factory.Config{Pfcp: &factory.Pfcp{Addr: f.prefix + "1", NodeID: f.prefix + "1", RetransTimeout: time.Hour, MaxRetrans: 1}}
			srv := pfcp.NewPfcpServer(cfg, newModelDP())
			var wg sync.WaitGroup
			pause := rnd.Intn(300)
			srv.Start(&wg)
			if pause > 0 {
				time.Sleep(time.Duration(pause) * time.Microsecond)
			}
			stopped := make(chan struct{})
			go func() { srv.Stop(); close(stopped) }()
			select {
			case <-stopped:
			case <-time.After(3 * time.Second):
				out.StuckAt, out.What, out.PauseUs, out.Blocked = r, "Stop did not return", pause, blockedSites()
				return out, nil
			}
			done := make(chan struct{})
			go func() { wg.Wait(); close(done) }()
			select {
			case <-done:
			case <-time.After(3 * time.Second):
				out.StuckAt, out.What, out.PauseUs, out.Blocked = r, "goroutines did not terminate after Stop", pause, blockedSites()
				return out, nil
			}
			if fm, _ := fatalMsg.Load().(string); fm != "" {
				out.Fatal = fm
				out.StuckAt = r
				return out, nil
			}
			out.Rounds = r
		}
		return out, nil
	}
}
