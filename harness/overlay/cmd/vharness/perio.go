//go:build verif

package main

import (
	"encoding/json"
	"errors"
	"fmt"
	"io"
	"sort"
	"sync"
	"time"

	"github.com/sirupsen/logrus"

	"github.com/free5gc/go-upf/internal/forwarder/perio"
	"github.com/free5gc/go-upf/internal/logger"
	"github.com/free5gc/go-upf/internal/report"
)

// ---- input

type perioRep struct {
	URR   uint32 `json:"urr"`
	Flags uint32 `json:"flags"`
	Tag   uint32 `json:"tag"`
}

type perioAns struct {
	SEID    uint64     `json:"seid"`
	Reports []perioRep `json:"reports"`
}

type perioEvent struct {
	Op     string     `json:"op"` // add del tick close
	SEID   uint64     `json:"seid"`
	URR    uint32     `json:"urr"`
	Period int64      `json:"period"` // abstract period index; the real ticker gets Period * perioUnit
	Err    bool       `json:"err"`    // tick: queryURR returns an error
	Ans    []perioAns `json:"ans"`    // tick: queryURR returns this map (distinct SEIDs)
}

type perioIn struct {
	Histories [][]perioEvent `json:"histories"`
}

// ---- output

type perioObs struct {
	Q [][]interface{} `json:"q"` // every queryURR call: [[seid,[urr..]]..] sorted
	N []interface{}   `json:"n"` // every NotifySessReport: [seid,[[urr,flags,tag]..]] sorted by seid (stable)
	G []interface{}   `json:"g"` // perioList afterwards: [period,[[seid,[urr..]]..]] sorted
	T int             `json:"t"` // live ticker goroutines afterwards
	H int             `json:"h"` // groups whose PERIOGroup.ticker is non-nil
	F string          `json:"f"` // "" or "panic:..." / "timeout:..."
}

type perioOut struct {
	Histories [][]perioObs `json:"histories"`
	Limit     int          `json:"limit"` // gtp5gnl.MaxNetlinkUsageReportNum()
}

// perioUnit: real tickers must never fire during a run
const perioUnit = 1000 * time.Hour

// ---- scripted data plane + recording handler (both are called from the Serve goroutine)

type perioRec struct {
	mu      sync.Mutex
	queries [][]interface{}
	notifs  []perioNotif
	cur     *perioEvent
}

// a notification is kept as it was handed over and decoded only when the observation is taken - the way the PFCP
// server consumes it (NotifySessReport just queues the value; the loop reads it later): reports must stay what they
// were after the periodic server has gone on to the next session
type perioNotif struct {
	seid uint64
	sr   report.SessReport
}

func (r *perioRec) query(m map[uint64][]uint32) (map[uint64][]report.USAReport, error) {
	r.mu.Lock()
	defer r.mu.Unlock()
	seids := make([]uint64, 0, len(m))
	for s := range m {
		seids = append(seids, s)
	}
	sort.Slice(seids, func(i, j int) bool { return seids[i] < seids[j] })
	q := []interface{}{}
	for _, s := range seids {
		us := append([]uint32{}, m[s]...)
		sort.Slice(us, func(i, j int) bool { return us[i] < us[j] })
		q = append(q, []interface{}{s, us})
	}
	r.queries = append(r.queries, q)
	if r.cur == nil {
		return nil, errors.New("verif: query outside a tick")
	}
	if r.cur.Err {
		return nil, errors.New("verif: scripted data-plane error")
	}
	res := map[uint64][]report.USAReport{}
	for _, a := range r.cur.Ans {
		reps := []report.USAReport{}
		for _, x := range a.Reports {
			reps = append(reps, report.USAReport{
				URRID: x.URR, URSEQN: x.Tag,
				USARTrigger: report.UsageReportTrigger{Flags: x.Flags},
			})
		}
		res[a.SEID] = reps
	}
	return res, nil
}

func (r *perioRec) NotifySessReport(sr report.SessReport) {
	r.mu.Lock()
	defer r.mu.Unlock()
	r.notifs = append(r.notifs, perioNotif{seid: sr.SEID, sr: sr})
}

func perioReps(sr report.SessReport) []interface{} {
	reps := []interface{}{}
	for _, rp := range sr.Reports {
		if u, ok := rp.(report.USAReport); ok {
			reps = append(reps, []uint32{u.URRID, u.USARTrigger.Flags, u.URSEQN})
		} else {
			reps = append(reps, fmt.Sprintf("not-a-usage-report:%T", rp))
		}
	}
	return reps
}

func (r *perioRec) PopBufPkt(uint64, uint16) ([]byte, bool) { return nil, false }

func (r *perioRec) take() ([][]interface{}, []interface{}) {
	r.mu.Lock()
	defer r.mu.Unlock()
	q := r.queries
	if q == nil {
		q = [][]interface{}{}
	}
	ns := r.notifs
	sort.SliceStable(ns, func(i, j int) bool { return ns[i].seid < ns[j].seid })
	n := []interface{}{}
	for _, x := range ns {
		n = append(n, []interface{}{x.seid, perioReps(x.sr)})
	}
	r.queries, r.notifs = nil, nil
	return q, n
}

// ---- running one history against a real perio.Server

func perioDump(s *perio.Server) ([]interface{}, int) {
	g := []interface{}{}
	h := 0
	for _, grp := range s.VerifDump() {
		es := []interface{}{}
		for _, e := range grp.Entries {
			es = append(es, []interface{}{e.SEID, e.URRs})
		}
		g = append(g, []interface{}{int64(grp.Period / perioUnit), es})
		if grp.HasTicker {
			h++
		}
	}
	return g, h
}

func guarded(f func()) (res string) {
	defer func() {
		if p := recover(); p != nil {
			res = fmt.Sprintf("panic:%v", p)
		}
	}()
	f()
	return ""
}

func waitWG(wg *sync.WaitGroup, d time.Duration) bool {
	done := make(chan struct{})
	go func() { wg.Wait(); close(done) }()
	select {
	case <-done:
		return true
	case <-time.After(d):
		return false
	}
}

func perioHistory(evs []perioEvent) []perioObs {
	out := make([]perioObs, 0, len(evs))
	base := perio.VerifLiveTickers()
	var wg sync.WaitGroup
	s, err := perio.OpenServer(&wg)
	if err != nil {
		return []perioObs{{F: "error:OpenServer:" + err.Error()}}
	}
	rec := &perioRec{}
	s.Handle(rec, rec.query)
	closed := false // Serve has returned (observed through wg)
	patience := 5 * time.Second
	for i := range evs {
		e := &evs[i]
		rec.mu.Lock()
		rec.cur = nil
		if e.Op == "tick" {
			rec.cur = e
		}
		rec.mu.Unlock()
		o := perioObs{}
		o.F = guarded(func() {
			switch e.Op {
			case "add":
				s.AddPeriodReportTimer(e.SEID, e.URR, time.Duration(e.Period)*perioUnit)
			case "del":
				s.DelPeriodReportTimer(e.SEID, e.URR)
			case "tick":
				s.VerifTick(time.Duration(e.Period) * perioUnit)
			case "close":
				s.Close()
			default:
				panic("bad op " + e.Op)
			}
		})
		if !closed {
			if e.Op == "close" && o.F == "" {
				if waitWG(&wg, patience) {
					closed = true
				} else {
					o.F = "timeout:Serve or a ticker goroutine did not finish after Close"
					patience = 20 * time.Millisecond
				}
			} else if !s.VerifBarrier(patience) {
				if o.F == "" {
					o.F = "timeout:barrier"
				}
				patience = 20 * time.Millisecond
			}
		}
		o.Q, o.N = rec.take()
		o.G, o.H = perioDump(s)
		// ticker goroutines leave asynchronously after the stop handshake: give them time to go
		want := len(o.G)
		deadline := time.Now().Add(patience)
		for {
			o.T = perio.VerifLiveTickers() - base
			if o.T == want || time.Now().After(deadline) {
				break
			}
			time.Sleep(50 * time.Microsecond)
		}
		if o.T != want {
			patience = 20 * time.Millisecond
		}
		out = append(out, o)
	}
	if !closed { // clean up; not part of the observation
		guarded(func() { s.Close() })
		waitWG(&wg, patience)
	}
	return out
}

// The chunking loop of Gtp5g.queryMultiURR is exercised by mode "gtp5g_multiurr" (gtp5g_aux.go, over the
// simulated netlink endpoint of internal/forwarder/verif_sim.go); this mode only reports the limit it uses.

func init() {
	modes["perio"] = func(in json.RawMessage) (interface{}, error) {
		var inp perioIn
		if err := json.Unmarshal(in, &inp); err != nil {
			return nil, err
		}
		logger.Log.SetOutput(io.Discard)
		logger.Log.SetLevel(logrus.PanicLevel)
		res := perioOut{Histories: make([][]perioObs, len(inp.Histories))}
		for i, h := range inp.Histories {
			res.Histories[i] = perioHistory(h)
		}
		res.Limit = perioBatchLimit()
		return res, nil
	}
}
