//go:build verif

// Command vharness runs go-upf's real code on generated cases and prints what it did.
// It exists only in the scratch copy of the tree that /verif/check.py builds
// (overlay, build tag verif); nothing here is part of go-upf.
//
// usage: vharness <mode> <in.json> <out.json>
package main

import (
	"encoding/json"
	"fmt"
	"os"
)

type modeFn func(in json.RawMessage) (interface{}, error)

var modes = map[string]modeFn{}

func main() {
	if len(os.Args) != 4 {
		fmt.Fprintln(os.Stderr, "usage: vharness <mode> <in.json> <out.json>")
		os.Exit(2)
	}
	fn, ok := modes[os.Args[1]]
	if !ok {
		fmt.Fprintf(os.Stderr, "unknown mode %q\n", os.Args[1])
		os.Exit(2)
	}
	raw, err := os.ReadFile(os.Args[2])
	if err != nil {
		fmt.Fprintln(os.Stderr, err)
		os.Exit(2)
	}
	res, err := fn(raw)
	if err != nil {
		fmt.Fprintln(os.Stderr, err)
		os.Exit(2)
	}
	b, err := json.Marshal(res)
	if err != nil {
		fmt.Fprintln(os.Stderr, err)
		os.Exit(2)
	}
	if err := os.WriteFile(os.Args[3], b, 0o644); err != nil {
		fmt.Fprintln(os.Stderr, err)
		os.Exit(2)
	}
}
