//go:build verif

// Mode "gtp5g": grouped IEs (built with go-pfcp constructors) are handed to the REAL
// forwarder.Gtp5g.CreatePDR/UpdatePDR/CreateFAR/UpdateFAR, running over SimKernel.
// Per case the output has
//
//	err    the driver's return value ("" = nil) or "panic:..."
//	reqs   every netlink request the driver issued (cmd, nlmsg flags, parsed attribute tree)
//	abs    the abstract view of the grouped IE: what go-pfcp's accessors - the same ones the driver
//	       calls - return for each child IE (this is the input handed to the Coq model and spec)
//	dec    what go-gtp5gnl's own DecodePDR/DecodeFAR make of the ADD request's attribute bytes
package main

import (
	"encoding/hex"
	"encoding/json"
	"fmt"
	"io"
	"log"
	"net"
	"time"

	"github.com/sirupsen/logrus"
	"github.com/wmnsk/go-pfcp/ie"

	"github.com/free5gc/go-gtp5gnl"
	"github.com/free5gc/go-upf/internal/forwarder"
	"github.com/free5gc/go-upf/internal/logger"
	"github.com/free5gc/go-upf/internal/report"
)

type ieSpec struct {
	K     string   `json:"k"`
	V     uint64   `json:"v"`
	C     []ieSpec `json:"c"`
	Flags uint8    `json:"flags"`
	TEID  uint32   `json:"teid"`
	V4    string   `json:"v4"` // hex, 4 octets
	V6    string   `json:"v6"` // hex, 16 octets
	ChID  uint8    `json:"chid"`
	FD    string   `json:"fd"`  // flow description, hex of its octets
	TTC   string   `json:"ttc"` // hex (2)
	SPI   string   `json:"spi"` // hex (4)
	FL    string   `json:"fl"`  // hex (3)
	BID   uint32   `json:"bid"`
	Desc  uint16   `json:"desc"`
	Ext   *uint8   `json:"ext"`
	Port  uint16   `json:"port"`
	CTag  uint32   `json:"ctag"`
	STag  uint32   `json:"stag"`
	Hex   string   `json:"hex"`
	Type  uint16   `json:"type"`
	UL    uint64   `json:"ul"`
	DL    uint64   `json:"dl"`
	Tot   uint64   `json:"tot"`
}

type gtp5gCase struct {
	Op   string   `json:"op"` // create_pdr update_pdr create_far update_far
	SEID uint64   `json:"seid"`
	IEs  []ieSpec `json:"ies"`
}

func unhex(s string) []byte {
	b, err := hex.DecodeString(s)
	if err != nil {
		panic("badcase: hex " + s)
	}
	return b
}

func ipOf(h string, n int) net.IP {
	b := unhex(h)
	if len(b) == 0 {
		return nil
	}
	if len(b) != n {
		panic("badcase: ip length")
	}
	return net.IP(b)
}

func buildIEs(specs []ieSpec) []*ie.IE {
	var out []*ie.IE
	for _, s := range specs {
		out = append(out, buildIE(s))
	}
	return out
}

func buildIE(s ieSpec) *ie.IE {
	var r *ie.IE
	switch s.K {
	case "pdrid":
		r = ie.NewPDRID(uint16(s.V))
	case "prec":
		r = ie.NewPrecedence(uint32(s.V))
	case "pdi":
		r = ie.NewPDI(buildIEs(s.C)...)
	case "srcif":
		r = ie.NewSourceInterface(uint8(s.V))
	case "fteid":
		r = ie.NewFTEID(s.Flags, s.TEID, ipOf(s.V4, 4), ipOf(s.V6, 16), s.ChID)
	case "netinst":
		r = ie.NewNetworkInstance(string(unhex(s.Hex)))
	case "appid":
		r = ie.NewApplicationID(string(unhex(s.Hex)))
	case "ueip":
		v4, v6 := "", ""
		if b := unhex(s.V4); len(b) == 4 {
			v4 = net.IP(b).String()
		}
		if b := unhex(s.V6); len(b) == 16 {
			v6 = net.IP(b).String()
		}
		r = ie.NewUEIPAddress(s.Flags, v4, v6, 0, 0)
	case "sdf":
		// the constructor derives the flags from non-empty arguments; the fields struct allows BID = 0
		fd := string(unhex(s.FD))
		f := &ie.SDFFilterFields{
			Flags: s.Flags, FDLength: uint16(len(fd)), FlowDescription: fd,
			ToSTrafficClass: string(unhex(s.TTC)), SecurityParameterIndex: string(unhex(s.SPI)),
			FlowLabel: string(unhex(s.FL)), SDFFilterID: s.BID,
		}
		b, err := f.Marshal()
		if err != nil {
			panic("badcase: sdf marshal")
		}
		r = ie.New(ie.SDFFilter, b)
	case "ohr":
		if s.Ext == nil {
			r = ie.New(ie.OuterHeaderRemoval, []byte{uint8(s.Desc)})
		} else {
			r = ie.NewOuterHeaderRemoval(uint8(s.Desc), *s.Ext)
		}
	case "farid":
		r = ie.NewFARID(uint32(s.V))
	case "qerid":
		r = ie.NewQERID(uint32(s.V))
	case "urrid":
		r = ie.NewURRID(uint32(s.V))
	case "aa":
		r = ie.NewApplyAction(unhex(s.Hex)...)
	case "fp":
		r = ie.NewForwardingParameters(buildIEs(s.C)...)
	case "ufp":
		r = ie.NewUpdateForwardingParameters(buildIEs(s.C)...)
	case "dstif":
		r = ie.NewDestinationInterface(uint8(s.V))
	case "ohc":
		v4, v6 := "", ""
		if b := unhex(s.V4); len(b) == 4 {
			v4 = net.IP(b).String()
		}
		if b := unhex(s.V6); len(b) == 16 {
			v6 = net.IP(b).String()
		}
		r = ie.NewOuterHeaderCreation(s.Desc, s.TEID, v4, v6, s.Port, s.CTag, s.STag)
	case "fpol":
		r = ie.NewForwardingPolicy(string(unhex(s.Hex)))
	case "smreq":
		r = ie.NewPFCPSMReqFlags(uint8(s.V))
	case "barid":
		r = ie.NewBARID(uint8(s.V))
	case "corrid":
		r = ie.NewQERCorrelationID(uint32(s.V))
	case "gate":
		r = ie.NewGateStatus(uint8(s.V)>>2, uint8(s.V)&3)
	case "mbr":
		r = ie.NewMBR(s.UL, s.DL)
	case "gbr":
		r = ie.NewGBR(s.UL, s.DL)
	case "qfi":
		r = ie.NewQFI(uint8(s.V))
	case "rqi":
		r = ie.NewRQI(uint8(s.V))
	case "ppi":
		r = ie.NewPagingPolicyIndicator(uint8(s.V))
	case "method":
		r = ie.NewMeasurementMethod(int(s.V>>2), int(s.V>>1)&1, int(s.V)&1)
	case "trig":
		r = ie.NewReportingTriggers(unhex(s.Hex)...)
	case "period":
		r = ie.NewMeasurementPeriod(time.Duration(s.V) * time.Second)
	case "info":
		r = ie.NewMeasurementInformation(uint8(s.V))
	case "volthr":
		r = ie.NewVolumeThreshold(s.Flags, s.Tot, s.UL, s.DL)
	case "volquota":
		r = ie.NewVolumeQuota(s.Flags, s.Tot, s.UL, s.DL)
	case "delay":
		r = ie.NewDownlinkDataNotificationDelay(time.Duration(s.V) * 50 * time.Millisecond)
	case "count":
		r = ie.NewSuggestedBufferingPacketsCount(uint8(s.V))
	case "raw":
		r = ie.New(s.Type, unhex(s.Hex))
	default:
		panic("badcase: kind " + s.K)
	}
	if r == nil {
		panic("badcase: constructor returned nil for " + s.K)
	}
	return r
}

type absIE map[string]interface{}

func absList(ies []*ie.IE) []absIE {
	out := []absIE{}
	for _, x := range ies {
		out = append(out, absOf(x))
	}
	return out
}

func bad(t uint16) absIE { return absIE{"k": "bad", "type": t} }

func u16lists(p [][]uint16) [][]uint16 {
	if p == nil {
		return [][]uint16{}
	}
	return p
}

// absOf: what the accessor the driver uses for this IE type returns.
func absOf(x *ie.IE) absIE {
	switch x.Type {
	case ie.PDRID:
		v, err := x.PDRID()
		if err != nil {
			return bad(x.Type)
		}
		return absIE{"k": "pdrid", "v": v}
	case ie.Precedence:
		v, err := x.Precedence()
		if err != nil {
			return bad(x.Type)
		}
		return absIE{"k": "prec", "v": v}
	case ie.PDI:
		c, err := x.PDI()
		if err != nil {
			return bad(x.Type)
		}
		return absIE{"k": "pdi", "c": absList(c)}
	case ie.SourceInterface:
		v, err := x.SourceInterface()
		if err != nil {
			return bad(x.Type)
		}
		return absIE{"k": "srcif", "v": v}
	case ie.FTEID:
		v, err := x.FTEID()
		if err != nil {
			return bad(x.Type)
		}
		return absIE{"k": "fteid", "teid": v.TEID, "v4": hex.EncodeToString(v.IPv4Address)}
	case ie.UEIPAddress:
		v, err := x.UEIPAddress()
		if err != nil {
			return bad(x.Type)
		}
		return absIE{"k": "ueip", "v4": hex.EncodeToString(v.IPv4Address)}
	case ie.SDFFilter:
		v, err := x.SDFFilter()
		if err != nil {
			return bad(x.Type)
		}
		a := absIE{
			"k": "sdf", "has_fd": v.HasFD(), "has_ttc": v.HasTTC(), "has_spi": v.HasSPI(), "has_fl": v.HasFL(),
			"has_bid": v.HasBID(), "bid": v.SDFFilterID, "fd_raw": hex.EncodeToString([]byte(v.FlowDescription)), "pfd": nil,
		}
		if v.HasFD() {
			// the parser is the subject of C16; here its result is an input of the model
			if fd, err := forwarder.ParseFlowDesc(v.FlowDescription); err == nil {
				a["pfd"] = absIE{
					"action": fd.Action, "dir": fd.Dir, "proto": fd.Proto,
					"src_ip": hex.EncodeToString(fd.Src.IP), "src_mask": hex.EncodeToString(fd.Src.Mask),
					"dst_ip": hex.EncodeToString(fd.Dst.IP), "dst_mask": hex.EncodeToString(fd.Dst.Mask),
					"sports": u16lists(fd.SrcPorts), "dports": u16lists(fd.DstPorts),
				}
			}
		}
		return a
	case ie.OuterHeaderRemoval:
		v, err := x.OuterHeaderRemovalDescription()
		if err != nil {
			return bad(x.Type)
		}
		return absIE{"k": "ohr", "v": v}
	case ie.FARID:
		v, err := x.FARID()
		if err != nil {
			return bad(x.Type)
		}
		return absIE{"k": "farid", "v": v}
	case ie.QERID:
		v, err := x.QERID()
		if err != nil {
			return bad(x.Type)
		}
		return absIE{"k": "qerid", "v": v}
	case ie.URRID:
		v, err := x.URRID()
		if err != nil {
			return bad(x.Type)
		}
		return absIE{"k": "urrid", "v": v}
	case ie.ApplyAction:
		v, err := x.ApplyAction()
		if err != nil {
			return bad(x.Type)
		}
		return absIE{"k": "aa", "b": hex.EncodeToString(v)}
	case ie.ForwardingParameters:
		c, err := x.ForwardingParameters()
		if err != nil {
			return bad(x.Type)
		}
		return absIE{"k": "fp", "c": absList(c)}
	case ie.UpdateForwardingParameters:
		c, err := x.UpdateForwardingParameters()
		if err != nil {
			return bad(x.Type)
		}
		return absIE{"k": "ufp", "c": absList(c)}
	case ie.OuterHeaderCreation:
		v, err := x.OuterHeaderCreation()
		if err != nil {
			return bad(x.Type)
		}
		return absIE{
			"k": "ohc", "desc": v.OuterHeaderCreationDescription, "has_teid": x.HasTEID(), "has_v4": x.HasIPv4(),
			"teid": v.TEID, "v4": hex.EncodeToString(v.IPv4Address), "port": v.PortNumber,
		}
	case ie.ForwardingPolicy:
		v, err := x.ForwardingPolicyIdentifier()
		if err != nil {
			return bad(x.Type)
		}
		return absIE{"k": "fpol", "id": hex.EncodeToString([]byte(v))}
	case ie.PFCPSMReqFlags:
		v, err := x.PFCPSMReqFlags()
		if err != nil {
			return bad(x.Type)
		}
		return absIE{"k": "smreq", "v": v}
	case ie.BARID:
		v, err := x.BARID()
		if err != nil {
			return bad(x.Type)
		}
		return absIE{"k": "barid", "v": v}
	case ie.QERCorrelationID:
		v, err := x.QERCorrelationID()
		if err != nil {
			return bad(x.Type)
		}
		return absIE{"k": "corrid", "v": v}
	case ie.GateStatus:
		v, err := x.GateStatus()
		if err != nil {
			return bad(x.Type)
		}
		return absIE{"k": "gate", "v": v}
	case ie.MBR:
		ul, err := x.MBRUL()
		if err != nil {
			return bad(x.Type)
		}
		dl, err := x.MBRDL()
		if err != nil {
			return bad(x.Type)
		}
		return absIE{"k": "mbr", "ul": ul, "dl": dl}
	case ie.GBR:
		ul, err := x.GBRUL()
		if err != nil {
			return bad(x.Type)
		}
		dl, err := x.GBRDL()
		if err != nil {
			return bad(x.Type)
		}
		return absIE{"k": "gbr", "ul": ul, "dl": dl}
	case ie.QFI:
		v, err := x.QFI()
		if err != nil {
			return bad(x.Type)
		}
		return absIE{"k": "qfi", "v": v}
	case ie.RQI:
		v, err := x.RQI()
		if err != nil {
			return bad(x.Type)
		}
		return absIE{"k": "rqi", "v": v}
	case ie.PagingPolicyIndicator:
		v, err := x.PagingPolicyIndicator()
		if err != nil {
			return bad(x.Type)
		}
		return absIE{"k": "ppi", "v": v}
	case ie.MeasurementMethod:
		v, err := x.MeasurementMethod()
		if err != nil {
			return bad(x.Type)
		}
		return absIE{"k": "method", "v": v}
	case ie.ReportingTriggers:
		v, err := x.ReportingTriggers()
		if err != nil {
			return bad(x.Type)
		}
		return absIE{"k": "trig", "b": hex.EncodeToString(v)}
	case ie.MeasurementPeriod:
		v, err := x.MeasurementPeriod()
		if err != nil {
			return bad(x.Type)
		}
		return absIE{"k": "period", "ns": int64(v)}
	case ie.MeasurementInformation:
		v, err := x.MeasurementInformation()
		if err != nil {
			return bad(x.Type)
		}
		return absIE{"k": "info", "v": v}
	case ie.VolumeThreshold:
		v, err := x.VolumeThreshold()
		if err != nil {
			return bad(x.Type)
		}
		return absIE{"k": "volthr", "flags": v.Flags, "has": []bool{v.HasTOVOL(), v.HasULVOL(), v.HasDLVOL()},
			"tot": v.TotalVolume, "ul": v.UplinkVolume, "dl": v.DownlinkVolume}
	case ie.VolumeQuota:
		v, err := x.VolumeQuota()
		if err != nil {
			return bad(x.Type)
		}
		return absIE{"k": "volquota", "flags": v.Flags, "has": []bool{v.HasTOVOL(), v.HasULVOL(), v.HasDLVOL()},
			"tot": v.TotalVolume, "ul": v.UplinkVolume, "dl": v.DownlinkVolume}
	case ie.DownlinkDataNotificationDelay:
		v, err := x.DownlinkDataNotificationDelay()
		if err != nil {
			return bad(x.Type)
		}
		return absIE{"k": "delay", "ns": int64(v)}
	case ie.SuggestedBufferingPacketsCount:
		v, err := x.SuggestedBufferingPacketsCount()
		if err != nil {
			return bad(x.Type)
		}
		return absIE{"k": "count", "v": v}
	default:
		return absIE{"k": "other", "type": x.Type}
	}
}

type gtp5gOut struct {
	Err      string                 `json:"err"`
	Reqs     []forwarder.SimRequest `json:"reqs"`
	TopErr   bool                   `json:"top_err"`
	Abs      []absIE                `json:"abs"`
	AbsPanic string                 `json:"abs_panic"`
	Dec      interface{}            `json:"dec"`
}

func ipHex(ip net.IP) string { return hex.EncodeToString(ip) }

func decPDR(raw []byte) (res interface{}) {
	defer func() {
		if p := recover(); p != nil {
			res = fmt.Sprintf("panic:%v", p)
		}
	}()
	p, err := gtp5gnl.DecodePDR(raw)
	if err != nil {
		return "error:" + err.Error()
	}
	m := map[string]interface{}{"id": p.ID, "prec": p.Precedence, "ohr": p.OuterHdrRemoval, "farid": p.FARID,
		"qerids": p.QERID, "urrids": p.URRID, "seid": p.SEID, "pdi": nil}
	if p.PDI != nil {
		d := map[string]interface{}{"srcif": p.PDI.SrcIntf, "ueaddr": ipHex(p.PDI.UEAddr), "has_ueaddr": p.PDI.UEAddr != nil, "fteid": nil, "sdf": nil}
		if p.PDI.FTEID != nil {
			d["fteid"] = map[string]interface{}{"teid": p.PDI.FTEID.TEID, "addr": ipHex(p.PDI.FTEID.GTPuAddr)}
		}
		if s := p.PDI.SDF; s != nil {
			sd := map[string]interface{}{"ttc": s.TTC, "spi": s.SPI, "fl": s.FL, "bid": s.BID, "fd": nil}
			if s.FD != nil {
				sd["fd"] = map[string]interface{}{
					"action": s.FD.Action, "dir": s.FD.Dir, "proto": s.FD.Proto,
					"src_ip": ipHex(s.FD.Src.IP), "src_mask": hex.EncodeToString(s.FD.Src.Mask),
					"dst_ip": ipHex(s.FD.Dst.IP), "dst_mask": hex.EncodeToString(s.FD.Dst.Mask),
					"sports": u16lists(s.FD.SrcPorts), "dports": u16lists(s.FD.DstPorts),
				}
			}
			d["sdf"] = sd
		}
		m["pdi"] = d
	}
	return m
}

func decFAR(raw []byte) (res interface{}) {
	defer func() {
		if p := recover(); p != nil {
			res = fmt.Sprintf("panic:%v", p)
		}
	}()
	f, err := gtp5gnl.DecodeFAR(raw)
	if err != nil {
		return "error:" + err.Error()
	}
	m := map[string]interface{}{"id": f.ID, "action": f.Action, "barid": f.BARID, "seid": f.SEID, "param": nil}
	if f.Param != nil {
		d := map[string]interface{}{"policy": nil, "creation": nil}
		if f.Param.Policy != nil {
			d["policy"] = hex.EncodeToString([]byte(*f.Param.Policy))
		}
		if c := f.Param.Creation; c != nil {
			d["creation"] = map[string]interface{}{"desc": c.Desc, "teid": c.TEID, "peer": ipHex(c.PeerAddr),
				"has_peer": c.PeerAddr != nil, "port": c.Port}
		}
		m["param"] = d
	}
	return m
}

func gtp5gOne(g *forwarder.Gtp5g, k *forwarder.SimKernel, c gtp5gCase) (out gtp5gOut) {
	defer func() {
		if p := recover(); p != nil {
			out.Err = fmt.Sprintf("panic:%v", p)
			out.Reqs = append(append([]forwarder.SimRequest{}, out.Reqs...), k.Take()...)
		}
	}()
	k.Reset()
	var children []*ie.IE
	func() {
		defer func() {
			if p := recover(); p != nil {
				panic(fmt.Sprintf("badcase: constructing the IE: %v", p)) // go-pfcp constructor, not go-upf
			}
		}()
		children = buildIEs(c.IEs)
	}()
	var req *ie.IE
	var parsed []*ie.IE
	var perr error
	var run func() error
	var addCmd uint8
	var dec func([]byte) interface{}
	switch c.Op {
	case "create_pdr":
		req = ie.NewCreatePDR(children...)
		parsed, perr = req.CreatePDR()
		run = func() error { return g.CreatePDR(c.SEID, req) }
		addCmd, dec = gtp5gnl.CMD_ADD_PDR, decPDR
	case "update_pdr":
		req = ie.NewUpdatePDR(children...)
		parsed, perr = req.UpdatePDR()
		run = func() error { return g.UpdatePDR(c.SEID, req) }
		addCmd, dec = gtp5gnl.CMD_ADD_PDR, decPDR
	case "create_far":
		req = ie.NewCreateFAR(children...)
		parsed, perr = req.CreateFAR()
		run = func() error { return g.CreateFAR(c.SEID, req) }
		addCmd, dec = gtp5gnl.CMD_ADD_FAR, decFAR
	case "update_far":
		req = ie.NewUpdateFAR(children...)
		parsed, perr = req.UpdateFAR()
		run = func() error { return g.UpdateFAR(c.SEID, req) }
		addCmd, dec = gtp5gnl.CMD_ADD_FAR, decFAR
	default:
		panic("badcase: op " + c.Op)
	}
	if req == nil {
		panic("badcase: grouped constructor returned nil")
	}
	if perr != nil {
		out.TopErr = true
	} else {
		func() {
			defer func() {
				if p := recover(); p != nil {
					out.AbsPanic = fmt.Sprintf("%v", p) // a go-pfcp accessor panicked; the driver is still run below
					out.Abs = nil
				}
			}()
			out.Abs = absList(parsed)
		}()
	}
	if err := run(); err != nil {
		out.Err = "error:" + err.Error()
	}
	out.Reqs = append([]forwarder.SimRequest{}, k.Take()...)
	for _, r := range out.Reqs {
		if r.Cmd == addCmd {
			out.Dec = dec(r.Raw)
		}
	}
	return out
}

type nopHandler struct{}

func (nopHandler) NotifySessReport(report.SessReport)      {}
func (nopHandler) PopBufPkt(uint64, uint16) ([]byte, bool) { return nil, false }

func init() {
	modes["gtp5g"] = func(in json.RawMessage) (interface{}, error) {
		var cases []gtp5gCase
		if err := json.Unmarshal(in, &cases); err != nil {
			return nil, err
		}
		logger.Log.SetLevel(logrus.PanicLevel)
		log.SetOutput(io.Discard) // go-gtp5gnl's decoders log "unknown type" through the std logger
		g, k, err := forwarder.NewVerifGtp5g(forwarder.VerifOpts{Lenient: true})
		if err != nil {
			return nil, err
		}
		g.HandleReport(nopHandler{})
		out := make([]gtp5gOut, len(cases))
		for i, c := range cases {
			out[i] = gtp5gOne(g, k, c)
		}
		g.Close()
		k.CloseConns()
		return out, nil
	}
}
