//go:build verif

// Two small modes over SimKernel for other verticals:
//
//	gtp5g_version   (C20)  in: ["0.9.5", "0.10.0", "garbage", ...]
//	                       out: [{"err": "" | "error:...", "requests": n, "cmds": [16]}]   real Gtp5g.checkVersion per string
//	gtp5g_multiurr  (C15)  in: [{"regs": {"<seid>": [urrid,...]}, "ps": bool, "reports": [SimReport...], "fail_at": {"<n>": errno}}]
//	                       out: [{"err", "batches": [len(oids) of each GET_MULTI_REPORTS request, in order], "conns": ["main"|"ps"...],
//	                              "oids": [[{seid,id,has_seid}...]...], "urr_num": [value of the URR_NUM attribute per request],
//	                              "result": {"<seid>": [{urrid, trigger, tot_vol, ...}]}, "result_nil": bool}]
//	                       real Gtp5g.queryMultiURR(map, ps); a scripted report is answered for the request that names its (seid, urrid)
package main

import (
	"encoding/json"
	"fmt"
	"io"
	"log"
	"sort"
	"strconv"
	"syscall"

	"github.com/sirupsen/logrus"

	"github.com/free5gc/go-gtp5gnl"
	"github.com/free5gc/go-upf/internal/forwarder"
	"github.com/free5gc/go-upf/internal/logger"
)

type versionOut struct {
	Err      string `json:"err"`
	Requests int    `json:"requests"`
	Cmds     []int  `json:"cmds"`
}

type multiCase struct {
	Regs    map[string][]uint32   `json:"regs"`
	Ps      bool                  `json:"ps"`
	Reports []forwarder.SimReport `json:"reports"`
	FailAt  map[string]int        `json:"fail_at"`
}

type multiRep struct {
	URRID    uint32 `json:"urrid"`
	Trigger  uint32 `json:"trigger"`
	QueryRef uint32 `json:"query_ref"`
	Start    int64  `json:"start"`
	End      int64  `json:"end"`
	TotVol   uint64 `json:"tot_vol"`
	UlVol    uint64 `json:"ul_vol"`
	DlVol    uint64 `json:"dl_vol"`
	TotPkt   uint64 `json:"tot_pkt"`
	UlPkt    uint64 `json:"ul_pkt"`
	DlPkt    uint64 `json:"dl_pkt"`
	Flags    uint8  `json:"vol_flags"`
}

type multiOut struct {
	Err       string                `json:"err"`
	Batches   []int                 `json:"batches"`
	Conns     []string              `json:"conns"`
	OIDs      [][]forwarder.SimOID  `json:"oids"`
	URRNum    []uint64              `json:"urr_num"`
	Result    map[string][]multiRep `json:"result"`
	ResultNil bool                  `json:"result_nil"`
}

func leUint(b []byte) uint64 {
	var v uint64
	for i := 0; i < len(b) && i < 8; i++ {
		v |= uint64(b[i]) << (8 * uint(i))
	}
	return v
}

func multiOne(g *forwarder.Gtp5g, k *forwarder.SimKernel, c multiCase) (out multiOut) {
	defer func() {
		if p := recover(); p != nil {
			out.Err = fmt.Sprintf("panic:%v", p)
		}
	}()
	k.Reset()
	m := map[uint64][]uint32{}
	for s, ids := range c.Regs {
		seid, err := strconv.ParseUint(s, 10, 64)
		if err != nil {
			panic("badcase: seid " + s)
		}
		m[seid] = ids
	}
	by := map[[2]uint64][]forwarder.SimReport{}
	for _, r := range c.Reports {
		key := [2]uint64{r.SEID, uint64(r.URRID)}
		by[key] = append(by[key], r)
	}
	for key, rs := range by {
		k.SetReports(forwarder.SimOnQuery, key[0], uint32(key[1]), rs)
	}
	for n, e := range c.FailAt {
		i, err := strconv.Atoi(n)
		if err != nil {
			panic("badcase: fail_at " + n)
		}
		k.FailAt(i, syscall.Errno(e))
	}
	res, err := g.VerifQueryMultiURR(m, c.Ps)
	if err != nil {
		out.Err = "error:" + err.Error()
	}
	out.ResultNil = res == nil
	out.Result = map[string][]multiRep{}
	for seid, rs := range res {
		var l []multiRep
		for _, r := range rs {
			l = append(l, multiRep{URRID: r.URRID, Trigger: r.USARTrigger.Flags, QueryRef: r.QueryUrrRef,
				Start: r.StartTime.UnixNano(), End: r.EndTime.UnixNano(),
				TotVol: r.VolumMeasure.TotalVolume, UlVol: r.VolumMeasure.UplinkVolume, DlVol: r.VolumMeasure.DownlinkVolume,
				TotPkt: r.VolumMeasure.TotalPktNum, UlPkt: r.VolumMeasure.UplinkPktNum, DlPkt: r.VolumMeasure.DownlinkPktNum,
				Flags: r.VolumMeasure.Flags})
		}
		sort.SliceStable(l, func(i, j int) bool { return l[i].URRID < l[j].URRID })
		out.Result[strconv.FormatUint(seid, 10)] = l
	}
	out.Batches, out.Conns, out.OIDs, out.URRNum = []int{}, []string{}, [][]forwarder.SimOID{}, []uint64{}
	for _, r := range k.Take() {
		if r.Cmd != gtp5gnl.CMD_GET_MULTI_REPORTS {
			continue
		}
		out.Batches = append(out.Batches, len(r.OIDs))
		out.Conns = append(out.Conns, r.Conn)
		out.OIDs = append(out.OIDs, r.OIDs)
		num := uint64(1<<64 - 1)
		for _, a := range r.Attrs {
			if a.Type == gtp5gnl.URR_NUM {
				num = leUint(a.Data)
			}
		}
		out.URRNum = append(out.URRNum, num)
	}
	return out
}

func init() {
	modes["gtp5g_version"] = func(in json.RawMessage) (interface{}, error) {
		var vs []string
		if err := json.Unmarshal(in, &vs); err != nil {
			return nil, err
		}
		logger.Log.SetLevel(logrus.PanicLevel)
		log.SetOutput(io.Discard)
		g, k, err := forwarder.NewVerifGtp5g(forwarder.VerifOpts{})
		if err != nil {
			return nil, err
		}
		out := make([]versionOut, len(vs))
		for i, v := range vs {
			k.Reset()
			k.SetVersion(v)
			func() {
				defer func() {
					if p := recover(); p != nil {
						out[i].Err = fmt.Sprintf("panic:%v", p)
					}
				}()
				if err := g.VerifCheckVersion(); err != nil {
					out[i].Err = "error:" + err.Error()
				}
			}()
			rs := k.Take()
			out[i].Requests = len(rs)
			out[i].Cmds = []int{}
			for _, r := range rs {
				out[i].Cmds = append(out[i].Cmds, int(r.Cmd))
			}
		}
		g.Close()
		k.CloseConns()
		return out, nil
	}
	modes["gtp5g_multiurr"] = func(in json.RawMessage) (interface{}, error) {
		var cases []multiCase
		if err := json.Unmarshal(in, &cases); err != nil {
			return nil, err
		}
		logger.Log.SetLevel(logrus.PanicLevel)
		log.SetOutput(io.Discard)
		g, k, err := forwarder.NewVerifGtp5g(forwarder.VerifOpts{Lenient: true})
		if err != nil {
			return nil, err
		}
		out := make([]multiOut, len(cases))
		for i, c := range cases {
			out[i] = multiOne(g, k, c)
		}
		g.Close()
		k.CloseConns()
		return out, nil
	}
}
