//go:build verif

package main

// Modes "usagefs" and "usagedec" (C10, kernel side).
//
// usagefs: full stack - real PfcpServer + real Gtp5g driver over the simulated kernel + fake SMF sockets.  A case is a
// list of steps: est (a peer establishes a session with URRs of a given measurement method / information, optionally
// periodic), mod (Create / Remove / Update / Query URR; the kernel's replies to DEL_URR, ADD_URR+REPLACE and GET_REPORT are
// scripted), del, mcast (a gtp5g REPORT multicast with 1..n usage reports for several sessions goes through the real
// buffnetlink.ServeMsg), tick (a ticker expiry is injected into the real periodic server, which asks the kernel through
// the real queryMultiURR).  Per step: every datagram each SMF socket received (decodeDatagram), every batch of reports
// the simulated kernel PRODUCED (what it multicast / answered, with the SEIDs resolved), fault (fatal hook / hang).
// The harness knows nothing about what is expected: sessions are referred to by a handle whose UP SEID is read from the
// Session Establishment Response the fake SMF received.
//
// usagedec: driver level - the same kernel reports through the conversion sites alone (ServeMsg with a recording
// handler, Gtp5g.UpdateURR / RemoveURR / QueryURR / queryMultiURR), returning the report.USAReport values they build and
// the bytes of the message the kernel sent; compared inside Coq with model/UsageDec.v.

import (
	"encoding/hex"
	"encoding/json"
	"net"
	"sort"
	"sync"
	"time"

	"github.com/wmnsk/go-pfcp/ie"
	"github.com/wmnsk/go-pfcp/message"

	"github.com/free5gc/go-upf/internal/forwarder"
	"github.com/free5gc/go-upf/internal/pfcp"
	"github.com/free5gc/go-upf/internal/report"
	"github.com/free5gc/go-upf/pkg/factory"
)

type ufsURR struct {
	ID     uint32 `json:"id"`
	Method *uint8 `json:"method"` // Measurement Method octet (DURAT 1, VOLUM 2, EVENT 4); absent in an update if nil
	Info   *uint8 `json:"info"`   // Measurement Information octet (MNOP 0x10); IE absent if nil
	Perio  uint32 `json:"perio"`  // > 0: Reporting Triggers = PERIO and Measurement Period = Perio seconds
}

// a kernel report; Sess != nil: its SEID is (UP SEID of that session handle) + SeidOff (mod 2^64)
type ufsReport struct {
	forwarder.SimReport
	Sess    *int   `json:"sess"`
	SeidOff uint64 `json:"seid_off"`
}

type ufsReply struct {
	Occ     string      `json:"occ"` // query | update | remove
	Sess    *int        `json:"sess"`
	SEID    uint64      `json:"seid"`
	URRID   uint32      `json:"urrid"`
	Reports []ufsReport `json:"reports"`
}

type ufsStep struct {
	Op      string      `json:"op"` // est mod del mcast tick
	H       int         `json:"h"`  // est: handle of the new session
	Peer    int         `json:"peer"`
	RSEID   uint64      `json:"rseid"` // est: the SMF's SEID (CP F-SEID)
	Sess    *int        `json:"sess"`  // mod / del: handle of the addressed session (else SEID as given)
	SEID    uint64      `json:"seid"`
	Create  []ufsURR    `json:"create"`
	Update  []ufsURR    `json:"update"`
	Remove  []uint32    `json:"remove"`
	Query   []uint32    `json:"query"`
	Reports []ufsReport `json:"reports"` // mcast
	Period  uint32      `json:"period"`  // tick
	Replies []ufsReply  `json:"replies"`
}

type ufsProduced struct {
	Occ     string                `json:"occ"` // mcast query update remove
	Conn    string                `json:"conn"`
	Reports []forwarder.SimReport `json:"reports"`
}

type ufsObs struct {
	Sends    []oSend       `json:"sends"`
	Produced []ufsProduced `json:"produced"`
	Accepted *bool         `json:"accepted,omitempty"` // mcast: what ServeMsg returned
	UpSEID   uint64        `json:"upseid"`             // mod / del: the header SEID used; est: the UP SEID learnt
	Fault    string        `json:"fault"`
}

var ufsOccName = map[forwarder.SimOccasion]string{forwarder.SimOnQuery: "query", forwarder.SimOnUpdate: "update", forwarder.SimOnRemove: "remove"}

type ufsKey struct {
	occ  string
	seid uint64
	urr  uint32
}

func ufsUrrIEs(u ufsURR, create bool) []*ie.IE {
	c := []*ie.IE{ie.NewURRID(u.ID)}
	if u.Method != nil {
		c = append(c, ie.New(ie.MeasurementMethod, []byte{*u.Method}))
	}
	if create {
		if u.Perio > 0 {
			c = append(c, ie.NewReportingTriggers(0x01, 0x00), ie.NewMeasurementPeriod(time.Duration(u.Perio)*time.Second))
		} else {
			c = append(c, ie.NewReportingTriggers(0x02, 0x00))
		}
	}
	if u.Info != nil {
		c = append(c, ie.NewMeasurementInformation(*u.Info))
	}
	return c
}

func usagefsCase(f *fixture, steps []ufsStep) []ufsObs {
	fatalMsg.Store("")
	var wg sync.WaitGroup
	var out []ufsObs
	g, k, err := forwarder.NewVerifGtp5g(forwarder.VerifOpts{Wg: &wg, GtpuAddr: f.prefix + "1:0"})
	if err != nil {
		return []ufsObs{{Fault: "harness: " + err.Error()}}
	}
	var mu sync.Mutex
	script := map[ufsKey][]forwarder.SimReport{}
	var produced []ufsProduced
	k.ReportHook = func(req *forwarder.SimRequest, occ forwarder.SimOccasion, oids []forwarder.SimOID) []forwarder.SimReport {
		mu.Lock()
		defer mu.Unlock()
		var rs []forwarder.SimReport
		for _, o := range oids {
			rs = append(rs, script[ufsKey{ufsOccName[occ], o.SEID, uint32(o.ID)}]...)
		}
		if len(rs) > 0 {
			produced = append(produced, ufsProduced{Occ: ufsOccName[occ], Conn: req.Conn, Reports: append([]forwarder.SimReport{}, rs...)})
		}
		return rs
	}
	cfg := &factory.Config{Pfcp: &factory.Pfcp{Addr: f.prefix + "1", NodeID: f.prefix + "1", RetransTimeout: time.Hour, MaxRetrans: 0}}
	srv := pfcp.NewPfcpServer(cfg, g)
	g.HandleReport(srv)
	srv.Start(&wg)
	defer func() {
		srv.Stop()
		g.Close()
		k.CloseConns()
		done := make(chan struct{})
		go func() { wg.Wait(); close(done) }()
		select {
		case <-done:
		case <-time.After(3 * time.Second):
		}
	}()
	up := false
	for i := 0; i < 400 && !up; i++ {
		up = f.barrierRT(10 * time.Millisecond)
	}
	if !up {
		return []ufsObs{{Fault: "server did not start"}}
	}
	seq := uint32(1)
	sendFrom := func(peer int, m message.Message) {
		b := make([]byte, m.MarshalLen())
		_ = m.MarshalTo(b)
		_, _ = f.peers[peer%nPeers].WriteTo(b, f.upf)
	}
	for p := 0; p < nPeers; p++ {
		seq++
		sendFrom(p, message.NewAssociationSetupRequest(seq, ie.NewNodeID(peerIP(f.prefix, p), "", ""), ie.NewRecoveryTimeStamp(time.Unix(1000, 0))))
	}
	f.barrierRT(time.Second)
	f.drain()

	upseid := map[int]uint64{}
	resolve := func(sess *int, raw uint64, off uint64) uint64 {
		if sess != nil {
			return upseid[*sess] + off
		}
		return raw
	}
	conv := func(rs []ufsReport) []forwarder.SimReport {
		var o []forwarder.SimReport
		for _, r := range rs {
			s := r.SimReport
			s.SEID = resolve(r.Sess, r.SimReport.SEID, r.SeidOff)
			o = append(o, s)
		}
		return o
	}
	waitSr := func() {
		for j := 0; j < 40000; j++ {
			if _, n, _ := srv.VerifChanLens(); n == 0 {
				return
			}
			time.Sleep(50 * time.Microsecond)
		}
	}
	for _, st := range steps {
		var o ufsObs
		seq++
		mu.Lock()
		script = map[ufsKey][]forwarder.SimReport{}
		produced = nil
		for _, rp := range st.Replies {
			key := ufsKey{rp.Occ, resolve(rp.Sess, rp.SEID, 0), rp.URRID}
			script[key] = append(script[key], conv(rp.Reports)...)
		}
		mu.Unlock()
		switch st.Op {
		case "est", "mod":
			var ies []*ie.IE
			for _, u := range st.Create {
				ies = append(ies, ie.NewCreateURR(ufsUrrIEs(u, true)...))
			}
			for _, id := range st.Remove {
				ies = append(ies, ie.NewRemoveURR(ie.NewURRID(id)))
			}
			for _, u := range st.Update {
				ies = append(ies, ie.NewUpdateURR(ufsUrrIEs(u, false)...))
			}
			for _, id := range st.Query {
				ies = append(ies, ie.NewQueryURR(ie.NewURRID(id)))
			}
			if st.Op == "est" {
				ies = append([]*ie.IE{ie.NewNodeID(peerIP(f.prefix, st.Peer), "", ""),
					ie.NewFSEID(st.RSEID, net.ParseIP(peerIP(f.prefix, st.Peer)), nil)}, ies...)
				sendFrom(st.Peer, message.NewSessionEstablishmentRequest(0, 0, 0, seq, 0, ies...))
			} else {
				o.UpSEID = resolve(st.Sess, st.SEID, 0)
				sendFrom(st.Peer, message.NewSessionModificationRequest(0, 0, o.UpSEID, seq, 0, ies...))
			}
		case "del":
			o.UpSEID = resolve(st.Sess, st.SEID, 0)
			sendFrom(st.Peer, message.NewSessionDeletionRequest(0, 0, o.UpSEID, seq, 0))
		case "mcast":
			rs := conv(st.Reports)
			mu.Lock()
			produced = append(produced, ufsProduced{Occ: "mcast", Conn: "mcast", Reports: rs})
			mu.Unlock()
			ok := func() (ok bool) {
				defer func() {
					if r := recover(); r != nil {
						o.Fault = "panic in ServeMsg"
					}
				}()
				return k.InjectReport(rs)
			}()
			o.Accepted = &ok
			waitSr()
		case "tick":
			ps := g.VerifPerio()
			ps.VerifTick(time.Duration(st.Period) * time.Second)
			if !ps.VerifBarrier(3 * time.Second) {
				o.Fault = "hang: periodic server"
			}
			waitSr()
		}
		alive := f.barrierRT(3 * time.Second)
		for _, d := range f.drain() {
			o.Sends = append(o.Sends, decodeDatagram(d[0].(int), d[1].([]byte)))
		}
		mu.Lock()
		o.Produced = produced
		mu.Unlock()
		if st.Op == "est" {
			for _, s := range o.Sends {
				if s.Type == "estrsp" && s.Dst == st.Peer%nPeers && s.Cause == int(ie.CauseRequestAccepted) {
					upseid[st.H] = s.FSEID
					o.UpSEID = s.FSEID
				}
			}
		}
		if fm, _ := fatalMsg.Load().(string); fm != "" {
			o.Fault = "fatal:" + fm
		} else if !alive && o.Fault == "" {
			o.Fault = "hang"
		}
		out = append(out, o)
		if o.Fault != "" {
			break
		}
	}
	return out
}

// ---------------------------------------------------------------- driver level

type udecCase struct {
	Site    string                `json:"site"` // mcast | update | remove | query | multi
	SEID    uint64                `json:"seid"` // the session asked for (update/remove/query)
	URRID   uint32                `json:"urrid"`
	Reports []forwarder.SimReport `json:"reports"`
}

type udecUSA struct {
	URRID  uint32    `json:"urrid"`
	SEQN   uint32    `json:"seqn"`
	Trig   uint32    `json:"trig"`
	VFlags uint8     `json:"vflags"`
	Cnt    [6]uint64 `json:"cnt"`
	Dur    uint64    `json:"dur"`
	QRef   uint32    `json:"qref"`
	Start  int64     `json:"start"` // UnixNano
	End    int64     `json:"end"`
}

type udecGroup struct {
	SEID uint64    `json:"seid"` // map key (mcast, multi); 0 for the sites that return a plain slice
	USAs []udecUSA `json:"usas"`
}

type udecOut struct {
	Groups []udecGroup `json:"groups"`
	Bytes  string      `json:"bytes"` // attribute bytes of the message the kernel sent (REPORT container for mcast, UR list for replies)
	Err    string      `json:"err"`
	Ret    bool        `json:"ret"` // mcast: ServeMsg's return
}

func udecOf(r report.USAReport) udecUSA {
	return udecUSA{URRID: r.URRID, SEQN: r.URSEQN, Trig: r.USARTrigger.Flags, VFlags: r.VolumMeasure.Flags,
		Cnt: [6]uint64{r.VolumMeasure.TotalVolume, r.VolumMeasure.UplinkVolume, r.VolumMeasure.DownlinkVolume,
			r.VolumMeasure.TotalPktNum, r.VolumMeasure.UplinkPktNum, r.VolumMeasure.DownlinkPktNum},
		Dur: r.DuratMeasure.DurationValue, QRef: r.QueryUrrRef, Start: r.StartTime.UnixNano(), End: r.EndTime.UnixNano()}
}

type udecHandler struct {
	mu  sync.Mutex
	got []report.SessReport
}

func (h *udecHandler) NotifySessReport(sr report.SessReport) {
	h.mu.Lock()
	h.got = append(h.got, sr)
	h.mu.Unlock()
}
func (h *udecHandler) PopBufPkt(uint64, uint16) ([]byte, bool) { return nil, false }

func udecRun(g *forwarder.Gtp5g, k *forwarder.SimKernel, h *udecHandler, c udecCase) (o udecOut) {
	defer func() {
		if r := recover(); r != nil {
			o.Err = "panic"
		}
	}()
	var attrs []forwarder.SimAttr
	for _, r := range c.Reports {
		attrs = append(attrs, r.Attr())
	}
	k.ReportHook = func(*forwarder.SimRequest, forwarder.SimOccasion, []forwarder.SimOID) []forwarder.SimReport {
		return c.Reports
	}
	plain := func(rs []report.USAReport, err error) {
		if err != nil {
			o.Err = err.Error()
			return
		}
		gr := udecGroup{}
		for _, r := range rs {
			gr.USAs = append(gr.USAs, udecOf(r))
		}
		if len(rs) > 0 {
			o.Groups = []udecGroup{gr}
		}
	}
	grouped := func(m map[uint64][]report.USAReport) {
		for seid, rs := range m {
			gr := udecGroup{SEID: seid}
			for _, r := range rs {
				gr.USAs = append(gr.USAs, udecOf(r))
			}
			o.Groups = append(o.Groups, gr)
		}
		sort.Slice(o.Groups, func(i, j int) bool { return o.Groups[i].SEID < o.Groups[j].SEID })
	}
	o.Bytes = hex.EncodeToString(forwarder.BuildSimAttrs(attrs))
	switch c.Site {
	case "mcast":
		o.Bytes = hex.EncodeToString(forwarder.BuildSimAttrs([]forwarder.SimAttr{{Type: 2 /* gtp5gnl.REPORT */, Nested: true, Sub: attrs}}))
		h.mu.Lock()
		h.got = nil
		h.mu.Unlock()
		o.Ret = k.InjectReport(c.Reports)
		h.mu.Lock()
		m := map[uint64][]report.USAReport{}
		for _, sr := range h.got {
			for _, r := range sr.Reports {
				if u, ok := r.(report.USAReport); ok {
					m[sr.SEID] = append(m[sr.SEID], u)
				}
			}
		}
		h.mu.Unlock()
		grouped(m)
	case "update":
		plain(g.UpdateURR(c.SEID, ie.NewUpdateURR(ie.NewURRID(c.URRID))))
	case "remove":
		plain(g.RemoveURR(c.SEID, ie.NewRemoveURR(ie.NewURRID(c.URRID))))
	case "query":
		plain(g.QueryURR(c.SEID, c.URRID))
	case "multi":
		m, err := g.VerifQueryMultiURR(map[uint64][]uint32{c.SEID: {c.URRID}}, c.URRID%2 == 1)
		if err != nil {
			o.Err = err.Error()
		} else {
			grouped(m)
		}
	}
	return o
}

func init() {
	modes["usagefs"] = func(in json.RawMessage) (interface{}, error) {
		var cases [][]ufsStep
		if err := json.Unmarshal(in, &cases); err != nil {
			return nil, err
		}
		setupLogger()
		f, err := newFixture()
		if err != nil {
			return nil, err
		}
		defer f.close()
		var outs [][]ufsObs
		for _, c := range cases {
			outs = append(outs, usagefsCase(f, c))
		}
		return map[string]interface{}{"prefix": f.prefix, "cases": outs}, nil
	}
	modes["usagedec"] = func(in json.RawMessage) (interface{}, error) {
		var cases []udecCase
		if err := json.Unmarshal(in, &cases); err != nil {
			return nil, err
		}
		setupLogger()
		var wg sync.WaitGroup
		g, k, err := forwarder.NewVerifGtp5g(forwarder.VerifOpts{Wg: &wg, Lenient: true})
		if err != nil {
			return nil, err
		}
		h := &udecHandler{}
		g.HandleReport(h)
		var outs []udecOut
		for _, c := range cases {
			outs = append(outs, udecRun(g, k, h, c))
		}
		g.Close()
		k.CloseConns()
		return outs, nil
	}
}
