//go:build verif

package main

// Mode "txkey" (C06): the transaction keys the real constructors build for given remote addresses and sequence
// numbers, next to the address's own String() - compared in Coq with model/TxKey.trid.

import (
	"encoding/json"
	"net"
	"time"

	"github.com/free5gc/go-upf/internal/pfcp"
	"github.com/free5gc/go-upf/pkg/factory"
)

type txkeyCase struct {
	IP   string `json:"ip"`
	Port int    `json:"port"`
	Zone string `json:"zone"`
	Seq  uint32 `json:"seq"`
}

type txkeyOut struct {
	Addr string `json:"addr"`
	Tx   string `json:"tx"`
	Rx   string `json:"rx"`
}

func init() {
	modes["txkey"] = func(in json.RawMessage) (interface{}, error) {
		var cases []txkeyCase
		if err := json.Unmarshal(in, &cases); err != nil {
			return nil, err
		}
		setupLogger()
		cfg := &factory.Config{Pfcp: &factory.Pfcp{Addr: "127.0.0.1", NodeID: "127.0.0.1", RetransTimeout: time.Hour, MaxRetrans: 1}}
		srv := pfcp.NewPfcpServer(cfg, newModelDP())
		var outs []txkeyOut
		for _, c := range cases {
			a := &net.UDPAddr{IP: net.ParseIP(c.IP), Port: c.Port, Zone: c.Zone}
			tx, rx := srv.VerifTxKeys(a, c.Seq)
			outs = append(outs, txkeyOut{Addr: a.String(), Tx: tx, Rx: rx})
		}
		return outs, nil
	}
}
