//go:build verif

package main

// Mode "release" (C13, release path): full stack - real PfcpServer + real Gtp5g driver over the simulated kernel,
// BUFFER multicasts injected into the real buffnetlink listener, two fake gNB sockets.  After every step: the GTP-U
// datagrams that reached each gNB (in order), the Session Report Requests at the SMF, the per-PDR queue contents.

import (
	"encoding/hex"
	"encoding/json"
	"sync"
	"syscall"
	"time"

	"github.com/wmnsk/go-pfcp/ie"
	"github.com/wmnsk/go-pfcp/message"

	gtp5gnl "github.com/free5gc/go-gtp5gnl"
	"github.com/free5gc/go-upf/internal/forwarder"
	"github.com/free5gc/go-upf/internal/pfcp"
	"github.com/free5gc/go-upf/pkg/factory"
)

type relOHC struct {
	TEID uint32 `json:"teid"`
	Gnb  int    `json:"gnb"` // 0 or 1: which fake gNB
}

type relFAR struct {
	ID      uint32  `json:"id"`
	Action  uint8   `json:"action"`
	OHC     *relOHC `json:"ohc"`
	IDLast  bool    `json:"id_last"`  // FAR ID IE after the Apply Action IE
	NoApply bool    `json:"no_apply"` // no Apply Action IE at all
}

type relPDR struct {
	ID   uint16   `json:"id"`
	FAR  uint32   `json:"far"`
	QERs []uint32 `json:"qers"`
}

type relQER struct {
	ID  uint32 `json:"id"`
	QFI uint8  `json:"qfi"`
}

type relStep struct {
	Op     string   `json:"op"` // est mod del buffer
	SEID   uint64   `json:"seid"`
	CFARs  []relFAR `json:"cfars"`
	UFARs  []relFAR `json:"ufars"`
	CPDRs  []relPDR `json:"cpdrs"`
	RPDRs  []uint16 `json:"rpdrs"`
	CQERs  []relQER `json:"cqers"`
	PDR    uint16   `json:"pdr"`
	Action uint16   `json:"action"`
	Pkt    string   `json:"pkt"`
	Count  int      `json:"count"` // op "burst": Count packets with payloads Pkt || 3-octet index, one observation at the end
	// op "mod": errno the simulated kernel answers every FAR update (CMD_ADD_FAR with NLM_F_REPLACE) of this request with
	FailUFAR int `json:"fail_ufar"`
}

type relObs struct {
	Gnb   [2][]string         `json:"gnb"`   // datagrams (hex) per fake gNB, in arrival order
	DLDR  []int               `json:"dldr"`  // PDR ids of downlink data reports at the SMF
	Queue map[string][]string `json:"queue"` // "seid/pdr" -> packets (hex) in queue order
	Fault string              `json:"fault"`
}

func relFarIEs(f *fixture, x relFAR, gnbs [2]string, update bool) []*ie.IE {
	var c []*ie.IE
	id := ie.NewFARID(x.ID)
	if !x.IDLast {
		c = append(c, id)
	}
	if !x.NoApply {
		c = append(c, ie.NewApplyAction(x.Action))
	}
	if x.OHC != nil {
		ohc := ie.NewOuterHeaderCreation(0x0100, x.OHC.TEID, gnbs[x.OHC.Gnb], "", 0, 0, 0)
		if update {
			c = append(c, ie.NewUpdateForwardingParameters(ohc))
		} else {
			c = append(c, ie.NewForwardingParameters(ohc))
		}
	}
	if x.IDLast {
		c = append(c, id)
	}
	return c
}

func releaseCase(f *fixture, steps []relStep) []relObs {
	fatalMsg.Store("")
	var wg sync.WaitGroup
	var out []relObs
	g, k, err := forwarder.NewVerifGtp5g(forwarder.VerifOpts{Wg: &wg, GtpuAddr: f.prefix + "1:0"})
	if err != nil {
		return []relObs{{Fault: "harness: " + err.Error()}}
	}
	gnbIPs := [2]string{f.prefix + "200", f.prefix + "201"}
	var gnbs [2]*forwarder.VerifGnb
	for i := range gnbs {
		gnbs[i], err = forwarder.NewVerifGnb(gnbIPs[i])
		if err != nil {
			return []relObs{{Fault: "harness: " + err.Error()}}
		}
		defer gnbs[i].Close()
		_ = gnbs[i].SetReadBuffer(4 << 20) // a burst of 512 released packets must fit into the receive queue
	}
	cfg := &factory.Config{Pfcp: &factory.Pfcp{Addr: f.prefix + "1", NodeID: f.prefix + "1", RetransTimeout: time.Hour, MaxRetrans: 0}}
	srv := pfcp.NewPfcpServer(cfg, g)
	g.HandleReport(srv)
	srv.Start(&wg)
	defer func() {
		srv.Stop()
		g.Close()
		k.CloseConns()
		done := make(chan struct{})
		go func() { wg.Wait(); close(done) }()
		select {
		case <-done:
		case <-time.After(3 * time.Second):
		}
	}()
	up := false
	for i := 0; i < 200 && !up; i++ {
		up = f.barrierRT(20 * time.Millisecond)
	}
	if !up {
		return []relObs{{Fault: "server did not start"}}
	}
	seq := uint32(1)
	send := func(m message.Message) {
		b := make([]byte, m.MarshalLen())
		_ = m.MarshalTo(b)
		_, _ = f.peers[0].WriteTo(b, f.upf)
	}
	nodeIE := func() *ie.IE { return ie.NewNodeID(peerIP(f.prefix, 0), "", "") }
	send(message.NewAssociationSetupRequest(seq, nodeIE(), ie.NewRecoveryTimeStamp(time.Unix(1000, 0))))
	f.barrierRT(time.Second)
	f.drain()
	for _, st := range steps {
		var o relObs
		seq++
		switch st.Op {
		case "est", "mod":
			var ies []*ie.IE
			for _, x := range st.CFARs {
				ies = append(ies, ie.NewCreateFAR(relFarIEs(f, x, gnbIPs, false)...))
			}
			for _, q := range st.CQERs {
				ies = append(ies, ie.NewCreateQER(ie.NewQERID(q.ID), ie.NewGateStatus(0, 0), ie.NewQFI(q.QFI)))
			}
			for _, p := range st.CPDRs {
				c := []*ie.IE{ie.NewPDRID(p.ID), ie.NewPrecedence(1), ie.NewPDI(ie.NewSourceInterface(ie.SrcInterfaceCore)), ie.NewFARID(p.FAR)}
				for _, q := range p.QERs {
					c = append(c, ie.NewQERID(q))
				}
				ies = append(ies, ie.NewCreatePDR(c...))
			}
			for _, p := range st.RPDRs {
				ies = append(ies, ie.NewRemovePDR(ie.NewPDRID(p)))
			}
			for _, x := range st.UFARs {
				ies = append(ies, ie.NewUpdateFAR(relFarIEs(f, x, gnbIPs, true)...))
			}
			if st.FailUFAR != 0 {
				errno := syscall.Errno(st.FailUFAR)
				k.FailWhen(func(r *forwarder.SimRequest) syscall.Errno {
					if r.Cmd == gtp5gnl.CMD_ADD_FAR && r.Flags&syscall.NLM_F_REPLACE != 0 {
						return errno
					}
					return 0
				})
			}
			if st.Op == "est" {
				ies = append([]*ie.IE{nodeIE(), ie.NewFSEID(77, nil, nil)}, ies...)
				send(message.NewSessionEstablishmentRequest(0, 0, 0, seq, 0, ies...))
			} else {
				send(message.NewSessionModificationRequest(0, 0, st.SEID, seq, 0, ies...))
			}
		case "del":
			send(message.NewSessionDeletionRequest(0, 0, st.SEID, seq, 0))
		case "burst":
			base, _ := hex.DecodeString(st.Pkt)
			for n := 0; n < st.Count; n++ {
				pk := append(append([]byte{}, base...), byte(n>>16), byte(n>>8), byte(n))
				k.InjectBuffer(st.SEID, st.PDR, st.Action, pk)
			}
			for j := 0; j < 40000; j++ {
				if _, n, _ := srv.VerifChanLens(); n == 0 {
					break
				}
				time.Sleep(50 * time.Microsecond)
			}
		case "buffer":
			pk, _ := hex.DecodeString(st.Pkt)
			k.InjectBuffer(st.SEID, st.PDR, st.Action, pk)
			for j := 0; j < 20000; j++ {
				if _, n, _ := srv.VerifChanLens(); n == 0 {
					break
				}
				time.Sleep(50 * time.Microsecond)
			}
		}
		alive := f.barrierRT(3 * time.Second)
		if st.FailUFAR != 0 {
			k.FailWhen(nil)
		}
		// everything was written before the barrier was answered, hence is queued in the gNB sockets
		for i := range gnbs {
			for {
				b, ok := gnbs[i].RecvNow()
				if !ok {
					break
				}
				o.Gnb[i] = append(o.Gnb[i], hex.EncodeToString(b))
			}
		}
		for _, d := range f.drain() {
			s := decodeDatagram(d[0].(int), d[1].([]byte))
			if s.Type == "srreq" && s.DLDR >= 0 {
				o.DLDR = append(o.DLDR, s.DLDR)
			}
		}
		if fm, _ := fatalMsg.Load().(string); fm != "" {
			o.Fault = "fatal:" + fm
		} else if !alive {
			o.Fault = "hang"
		} else {
			o.Queue = map[string][]string{}
			d := srv.VerifDumpState()
			for _, s := range d.Slots {
				if s == nil {
					continue
				}
				for _, q := range s.Q {
					o.Queue[keyQ(s.LID, q.PDR)] = q.Pkts
				}
			}
		}
		out = append(out, o)
		if o.Fault != "" {
			break
		}
	}
	return out
}

func keyQ(seid uint64, pdr uint16) string {
	b, _ := json.Marshal([]uint64{seid, uint64(pdr)})
	return string(b)
}

func init() {
	modes["release"] = func(in json.RawMessage) (interface{}, error) {
		var cases [][]relStep
		if err := json.Unmarshal(in, &cases); err != nil {
			return nil, err
		}
		setupLogger()
		f, err := newFixture()
		if err != nil {
			return nil, err
		}
		defer f.close()
		var outs [][]relObs
		for _, c := range cases {
			outs = append(outs, releaseCase(f, c))
		}
		return map[string]interface{}{"prefix": f.prefix, "cases": outs}, nil
	}
}
