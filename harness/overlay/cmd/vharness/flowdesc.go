//go:build verif

package main

import (
	"encoding/hex"
	"encoding/json"
	"fmt"

	"github.com/khirono/go-nl"
	"github.com/wmnsk/go-pfcp/ie"

	"github.com/free5gc/go-gtp5gnl"
	"github.com/free5gc/go-upf/internal/forwarder"
)

// one case: the flow-description string as hex (arbitrary octets), swap = uplink PDR
type fdCase struct {
	S    string `json:"s"`
	Swap bool   `json:"swap"`
}

type fdParsed struct {
	Action  string     `json:"action"` // hex of the Go string
	Dir     string     `json:"dir"`    // hex
	Proto   int        `json:"proto"`
	SrcIP   string     `json:"src_ip"`
	SrcMask string     `json:"src_mask"`
	DstIP   string     `json:"dst_ip"`
	DstMask string     `json:"dst_mask"`
	SPorts  [][]uint16 `json:"sports"`
	DPorts  [][]uint16 `json:"dports"`
}

type fdDecoded struct {
	Action  int        `json:"action"`
	Dir     int        `json:"dir"`
	Proto   int        `json:"proto"`
	SrcIP   string     `json:"src_ip"`
	SrcMask string     `json:"src_mask"`
	DstIP   string     `json:"dst_ip"`
	DstMask string     `json:"dst_mask"`
	SPorts  [][]uint16 `json:"sports"`
	DPorts  [][]uint16 `json:"dports"`
}

type fdResult struct {
	Parse  string          `json:"parse"` // "ok" | "err" | "panic:..."
	Parsed *fdParsed       `json:"parsed,omitempty"`
	Attrs  string          `json:"attrs"` // "ok" | "err" | "panic:..."
	List   [][]interface{} `json:"list,omitempty"`
	// go-gtp5gnl's own decoder applied to the encoded attribute list ("ok" | "err" | "panic:..." | "")
	Dec     string     `json:"dec"`
	Decoded *fdDecoded `json:"decoded,omitempty"`
}

func ports(p [][]uint16) [][]uint16 {
	if p == nil {
		return [][]uint16{}
	}
	return p
}

func fdParse(s string, r *fdResult) {
	defer func() {
		if p := recover(); p != nil {
			r.Parse = fmt.Sprintf("panic:%v", p)
			r.Parsed = nil
		}
	}()
	fd, err := forwarder.ParseFlowDesc(s)
	if err != nil {
		r.Parse = "err"
		return
	}
	r.Parsed = &fdParsed{
		Action: hex.EncodeToString([]byte(fd.Action)), Dir: hex.EncodeToString([]byte(fd.Dir)), Proto: int(fd.Proto),
		SrcIP: hex.EncodeToString(fd.Src.IP), SrcMask: hex.EncodeToString(fd.Src.Mask),
		DstIP: hex.EncodeToString(fd.Dst.IP), DstMask: hex.EncodeToString(fd.Dst.Mask),
		SPorts: ports(fd.SrcPorts), DPorts: ports(fd.DstPorts),
	}
	r.Parse = "ok"
}

func renderAttrs(al nl.AttrList) ([][]interface{}, error) {
	out := make([][]interface{}, 0, len(al))
	for _, a := range al {
		switch v := a.Value.(type) {
		case nl.AttrU8:
			out = append(out, []interface{}{int(a.Type), "u8", int(v)})
		case nl.AttrBytes:
			out = append(out, []interface{}{int(a.Type), "bytes", hex.EncodeToString([]byte(v))})
		case nl.AttrList:
			sub, err := renderAttrs(v)
			if err != nil {
				return nil, err
			}
			out = append(out, []interface{}{int(a.Type), "nested", sub})
		default:
			return nil, fmt.Errorf("attribute %d has value type %T", a.Type, a.Value)
		}
	}
	return out, nil
}

func fdAttrs(s string, swap bool, r *fdResult) (al nl.AttrList) {
	defer func() {
		if p := recover(); p != nil {
			r.Attrs = fmt.Sprintf("panic:%v", p)
			r.List = nil
			al = nil
		}
	}()
	al, err := forwarder.VerifNewFlowDesc(s, swap)
	if err != nil {
		r.Attrs = "err"
		return nil
	}
	l, err := renderAttrs(al)
	if err != nil {
		r.Attrs = "err:" + err.Error()
		return nil
	}
	r.List = l
	r.Attrs = "ok"
	return al
}

func fdDecode(al nl.AttrList, r *fdResult) {
	defer func() {
		if p := recover(); p != nil {
			r.Dec = fmt.Sprintf("panic:%v", p)
			r.Decoded = nil
		}
	}()
	b := make([]byte, al.Len())
	if _, err := al.Encode(b); err != nil {
		r.Dec = "err"
		return
	}
	d, err := gtp5gnl.DecodeFlowDesc(b)
	if err != nil {
		r.Dec = "err"
		return
	}
	r.Decoded = &fdDecoded{
		Action: int(d.Action), Dir: int(d.Dir), Proto: int(d.Proto),
		SrcIP: hex.EncodeToString(d.Src.IP), SrcMask: hex.EncodeToString(d.Src.Mask),
		DstIP: hex.EncodeToString(d.Dst.IP), DstMask: hex.EncodeToString(d.Dst.Mask),
		SPorts: ports(d.SrcPorts), DPorts: ports(d.DstPorts),
	}
	r.Dec = "ok"
}

func fdOne(c fdCase) fdResult {
	var r fdResult
	raw, err := hex.DecodeString(c.S)
	if err != nil {
		r.Parse, r.Attrs = "badcase", "badcase"
		return r
	}
	s := string(raw)
	fdParse(s, &r)
	al := fdAttrs(s, c.Swap, &r)
	if al != nil {
		fdDecode(al, &r)
	}
	return r
}

func init() {
	modes["flowdesc"] = func(in json.RawMessage) (interface{}, error) {
		var cases []fdCase
		if err := json.Unmarshal(in, &cases); err != nil {
			return nil, err
		}
		out := make([]fdResult, len(cases))
		for i, c := range cases {
			out[i] = fdOne(c)
		}
		return out, nil
	}
	// newPdi: a PDI whose IEs stand in the given order; items ["sdf", hex of the flow description] | ["srcif", v] |
	// ["other"].  Output: the PDI_SRC_INTF values and, per PDI_SDF_FILTER attribute in order, its flow-description
	// attribute list, next to what newFlowDesc gives for the same string with and without the exchange.
	modes["pdi"] = func(in json.RawMessage) (interface{}, error) {
		var cases [][][]interface{}
		if err := json.Unmarshal(in, &cases); err != nil {
			return nil, err
		}
		type pdiOut struct {
			Res    string            `json:"res"`
			SrcIfs []int             `json:"srcifs"`
			Sdfs   [][][]interface{} `json:"sdfs"`
			Swap   [][][]interface{} `json:"swap"`   // newFlowDesc(s, true) per sdf item of the case
			NoSwap [][][]interface{} `json:"noswap"` // newFlowDesc(s, false)
		}
		out := make([]pdiOut, len(cases))
		for ci, c := range cases {
			func() {
				o := &out[ci]
				defer func() {
					if p := recover(); p != nil {
						o.Res = fmt.Sprintf("panic:%v", p)
					}
				}()
				var ies []*ie.IE
				for _, it := range c {
					switch it[0].(string) {
					case "sdf":
						raw, _ := hex.DecodeString(it[1].(string))
						ies = append(ies, ie.NewSDFFilter(string(raw), "", "", "", 0))
						var r fdResult
						for _, sw := range []bool{true, false} {
							fdAttrs(string(raw), sw, &r)
							if sw {
								o.Swap = append(o.Swap, r.List)
							} else {
								o.NoSwap = append(o.NoSwap, r.List)
							}
						}
					case "srcif":
						ies = append(ies, ie.NewSourceInterface(uint8(it[1].(float64))))
					default:
						ies = append(ies, ie.NewNetworkInstance("internet"))
					}
				}
				al, err := forwarder.VerifNewPdi(ie.NewPDI(ies...))
				if err != nil {
					o.Res = "err"
					return
				}
				for _, a := range al {
					switch int(a.Type) {
					case gtp5gnl.PDI_SRC_INTF:
						if v, ok := a.Value.(nl.AttrU8); ok {
							o.SrcIfs = append(o.SrcIfs, int(v))
						}
					case gtp5gnl.PDI_SDF_FILTER:
						sub, _ := a.Value.(nl.AttrList)
						var fd [][]interface{}
						for _, b := range sub {
							if int(b.Type) == gtp5gnl.SDF_FILTER_FLOW_DESCRIPTION {
								if l, ok := b.Value.(nl.AttrList); ok {
									fd, _ = renderAttrs(l)
								}
							}
						}
						o.Sdfs = append(o.Sdfs, fd)
					}
				}
				o.Res = "ok"
			}()
		}
		return out, nil
	}
	// convertSlice alone: input [][]uint16 lists, output hex
	modes["convslice"] = func(in json.RawMessage) (interface{}, error) {
		var cases [][][]uint16
		if err := json.Unmarshal(in, &cases); err != nil {
			return nil, err
		}
		out := make([]string, len(cases))
		for i, c := range cases {
			func() {
				defer func() {
					if p := recover(); p != nil {
						out[i] = fmt.Sprintf("panic:%v", p)
					}
				}()
				out[i] = hex.EncodeToString(forwarder.VerifConvertSlice(c))
			}()
		}
		return out, nil
	}
}
