//go:build verif

// Mode "gtp5g3" (C03): histories of Create/Update QER, Create/Update/Remove URR, Create/Update BAR handed to the REAL
// forwarder.Gtp5g over SimKernel, plus the state of the REAL periodic-report server observed through injected ticks.
//
//	in : [{"seid": n, "steps": [{"op": "create_urr", "ies": [...]}, {"op": "remove_urr", "v": urrid}, ...], "ticks": [seconds, ...]}]
//	out: [{"steps": [{"err", "reqs", "top_err", "abs", "abs_panic", "dec"}], "ticks": [{"secs": s, "oids": [{seid,id}...]}], "err"}]
//
// A tick of period p is injected through the server's own event channel and followed by a barrier (a tick of a sentinel
// registration, period 24 h, whose GET_MULTI_REPORTS request must appear on the "ps" socket); the (seid, urr) pairs of the
// GET_MULTI_REPORTS requests seen in between are the query set of period p.
package main

import (
	"encoding/json"
	"fmt"
	"io"
	"log"
	"time"

	"github.com/sirupsen/logrus"
	"github.com/wmnsk/go-pfcp/ie"

	"github.com/free5gc/go-gtp5gnl"
	"github.com/free5gc/go-upf/internal/forwarder"
	"github.com/free5gc/go-upf/internal/logger"
)

type c03Step struct {
	Op  string   `json:"op"`
	IEs []ieSpec `json:"ies"`
	V   uint64   `json:"v"`
}

type c03Case struct {
	SEID  uint64    `json:"seid"`
	Steps []c03Step `json:"steps"`
	Ticks []uint64  `json:"ticks"`
}

type c03Tick struct {
	Secs uint64             `json:"secs"`
	OIDs []forwarder.SimOID `json:"oids"`
}

type c03Out struct {
	Steps []gtp5gOut `json:"steps"`
	Ticks []c03Tick  `json:"ticks"`
	Err   string     `json:"err"`
}

const (
	sentinelSEID   = uint64(0x5ea71e550badf00d) // cases must not use this SEID
	sentinelURR    = uint32(0x5ea71e55)
	sentinelPeriod = 24 * time.Hour
)

func decQER(raw []byte) (res interface{}) {
	defer func() {
		if p := recover(); p != nil {
			res = fmt.Sprintf("panic:%v", p)
		}
	}()
	q, err := gtp5gnl.DecodeQER(raw)
	if err != nil {
		return "error:" + err.Error()
	}
	return map[string]interface{}{"id": q.ID, "gate": q.Gate, "mbr_ul": q.MBR.UL_Kbps, "mbr_dl": q.MBR.DL_Kbps,
		"gbr_ul": q.GBR.UL_Kbps, "gbr_dl": q.GBR.DL_Kbps, "corr": q.CorrID, "rqi": q.RQI, "qfi": q.QFI, "ppi": q.PPI, "seid": q.SEID}
}

func decURR(raw []byte) (res interface{}) {
	defer func() {
		if p := recover(); p != nil {
			res = fmt.Sprintf("panic:%v", p)
		}
	}()
	u, err := gtp5gnl.DecodeURR(raw)
	if err != nil {
		return "error:" + err.Error()
	}
	m := map[string]interface{}{"id": u.ID, "method": u.Method, "trigger": u.Trigger, "period": u.Period, "info": u.Info, "seid": u.SEID,
		"volthr": nil, "volquota": nil}
	if u.VolThreshold != nil {
		m["volthr"] = fmt.Sprintf("%+v", *u.VolThreshold) // unexported fields
	}
	if u.VolQuota != nil {
		m["volquota"] = fmt.Sprintf("%+v", *u.VolQuota)
	}
	return m
}

func decBAR(raw []byte) (res interface{}) {
	defer func() {
		if p := recover(); p != nil {
			res = fmt.Sprintf("panic:%v", p)
		}
	}()
	b, err := gtp5gnl.DecodeBAR(raw)
	if err != nil {
		return "error:" + err.Error()
	}
	return map[string]interface{}{"id": b.ID, "delay": b.Delay, "count": b.Count, "seid": b.SEID}
}

type c03Env struct {
	g *forwarder.Gtp5g
	k *forwarder.SimKernel
}

func isSentinel(o forwarder.SimOID) bool {
	return o.SEID == sentinelSEID && o.ID == uint64(sentinelURR)
}

// barrier: everything queued on the periodic server before this call has been handled when it returns.
// Returns the GET_MULTI_REPORTS requests seen on the "ps" socket since the log was last taken (sentinel batch excluded).
func (e *c03Env) barrier() ([]forwarder.SimRequest, error) {
	e.g.VerifPerio().VerifTick(sentinelPeriod)
	deadline := time.Now().Add(5 * time.Second)
	for {
		rs := e.k.Requests()
		for _, r := range rs {
			if r.Conn == "ps" && r.Cmd == gtp5gnl.CMD_GET_MULTI_REPORTS {
				for _, o := range r.OIDs {
					if isSentinel(o) {
						var out []forwarder.SimRequest
						for _, q := range e.k.Take() {
							if q.Conn == "ps" && q.Cmd == gtp5gnl.CMD_GET_MULTI_REPORTS && !(len(q.OIDs) == 1 && isSentinel(q.OIDs[0])) {
								out = append(out, q)
							}
						}
						return out, nil
					}
				}
			}
		}
		if time.Now().After(deadline) {
			return nil, fmt.Errorf("periodic server did not answer the sentinel tick")
		}
		time.Sleep(50 * time.Microsecond)
	}
}

func (e *c03Env) step(seid uint64, st c03Step) (out gtp5gOut) {
	defer func() {
		if p := recover(); p != nil {
			out.Err = fmt.Sprintf("panic:%v", p)
		}
	}()
	var children []*ie.IE
	func() {
		defer func() {
			if p := recover(); p != nil {
				panic(fmt.Sprintf("badcase: constructing the IE: %v", p))
			}
		}()
		children = buildIEs(st.IEs)
	}()
	g := e.g
	var req *ie.IE
	var parsed []*ie.IE
	var perr error
	var run func() error
	var cmd uint8
	var dec func([]byte) interface{}
	switch st.Op {
	case "create_qer":
		req = ie.NewCreateQER(children...)
		parsed, perr = req.CreateQER()
		run = func() error { return g.CreateQER(seid, req) }
		cmd, dec = gtp5gnl.CMD_ADD_QER, decQER
	case "update_qer":
		req = ie.NewUpdateQER(children...)
		parsed, perr = req.UpdateQER()
		run = func() error { return g.UpdateQER(seid, req) }
		cmd, dec = gtp5gnl.CMD_ADD_QER, decQER
	case "create_urr":
		req = ie.NewCreateURR(children...)
		parsed, perr = req.CreateURR()
		run = func() error { return g.CreateURR(seid, req) }
		cmd, dec = gtp5gnl.CMD_ADD_URR, decURR
	case "update_urr":
		req = ie.NewUpdateURR(children...)
		parsed, perr = req.UpdateURR()
		run = func() error { _, err := g.UpdateURR(seid, req); return err }
		cmd, dec = gtp5gnl.CMD_ADD_URR, decURR
	case "remove_urr":
		req = ie.NewRemoveURR(ie.NewURRID(uint32(st.V)))
		parsed, perr = req.RemoveURR()
		run = func() error { _, err := g.RemoveURR(seid, req); return err }
		cmd, dec = gtp5gnl.CMD_DEL_URR, func([]byte) interface{} { return nil }
	case "create_bar":
		req = ie.NewCreateBAR(children...)
		parsed, perr = req.CreateBAR()
		run = func() error { return g.CreateBAR(seid, req) }
		cmd, dec = gtp5gnl.CMD_ADD_BAR, decBAR
	case "update_bar":
		req = ie.NewUpdateBARWithinSessionModificationRequest(children...)
		parsed, perr = req.UpdateBAR()
		run = func() error { return g.UpdateBAR(seid, req) }
		cmd, dec = gtp5gnl.CMD_ADD_BAR, decBAR
	default:
		panic("badcase: op " + st.Op)
	}
	if req == nil {
		panic("badcase: grouped constructor returned nil")
	}
	if perr != nil {
		out.TopErr = true
	} else {
		func() {
			defer func() {
				if p := recover(); p != nil {
					out.AbsPanic = fmt.Sprintf("%v", p)
					out.Abs = nil
				}
			}()
			out.Abs = absList(parsed)
		}()
	}
	if err := run(); err != nil {
		out.Err = "error:" + err.Error()
	}
	out.Reqs = []forwarder.SimRequest{}
	for _, r := range e.k.Take() {
		if r.Conn == "main" {
			out.Reqs = append(out.Reqs, r)
			if r.Cmd == cmd {
				out.Dec = dec(r.Raw)
			}
		}
	}
	return out
}

func (e *c03Env) one(c c03Case) (out c03Out) {
	defer func() {
		if p := recover(); p != nil {
			out.Err = fmt.Sprintf("panic:%v", p)
		}
	}()
	if c.SEID == sentinelSEID {
		panic("badcase: the sentinel SEID")
	}
	e.k.Reset()
	e.g.VerifPerio().AddPeriodReportTimer(sentinelSEID, sentinelURR, sentinelPeriod) // idempotent
	out.Steps = []gtp5gOut{}
	out.Ticks = []c03Tick{}
	urrs := []uint32{0} // a Create URR without URR ID registers id 0
	for _, st := range c.Steps {
		o := e.step(c.SEID, st)
		out.Steps = append(out.Steps, o)
		for _, a := range o.Abs {
			if a["k"] == "urrid" {
				if v, ok := a["v"].(uint32); ok {
					urrs = append(urrs, v)
				}
			}
		}
	}
	if _, err := e.barrier(); err != nil {
		out.Err = "error:" + err.Error()
		return out
	}
	for _, secs := range c.Ticks {
		e.g.VerifPerio().VerifTick(time.Duration(secs) * time.Second)
		rs, err := e.barrier()
		if err != nil {
			out.Err = "error:" + err.Error()
			return out
		}
		t := c03Tick{Secs: secs, OIDs: []forwarder.SimOID{}}
		for _, r := range rs {
			t.OIDs = append(t.OIDs, r.OIDs...)
		}
		out.Ticks = append(out.Ticks, t)
	}
	// leave no registration (and no running ticker) behind: every Create URR of this case may have added one
	for range c.Steps {
		for _, u := range urrs {
			e.g.VerifPerio().DelPeriodReportTimer(c.SEID, u)
		}
	}
	if _, err := e.barrier(); err != nil {
		out.Err = "error:" + err.Error()
	}
	return out
}

func init() {
	modes["gtp5g3"] = func(in json.RawMessage) (interface{}, error) {
		var cases []c03Case
		if err := json.Unmarshal(in, &cases); err != nil {
			return nil, err
		}
		logger.Log.SetLevel(logrus.PanicLevel)
		log.SetOutput(io.Discard)
		g, k, err := forwarder.NewVerifGtp5g(forwarder.VerifOpts{Lenient: true})
		if err != nil {
			return nil, err
		}
		g.HandleReport(nopHandler{})
		e := &c03Env{g: g, k: k}
		g.VerifPerio().AddPeriodReportTimer(sentinelSEID, sentinelURR, sentinelPeriod)
		out := make([]c03Out, len(cases))
		for i, c := range cases {
			out[i] = e.one(c)
		}
		g.Close()
		k.CloseConns()
		return out, nil
	}
}
