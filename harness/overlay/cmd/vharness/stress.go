//go:build verif

package main

// Mode "stress" (C17): concurrent SMFs, report producers, real millisecond transaction timers and a Stop at a
// random point, meant to run under the race detector (vharness built with -race).  Observations: producer
// panics (send on closed channel), fatal-exit hook, wait-group completion after Stop, and - in the phase before
// Stop - that every notification handed to NotifySessReport was processed exactly once.

import (
	"encoding/json"
	"fmt"
	"math/rand"
	"net"
	"sync"
	"sync/atomic"
	"time"

	"github.com/wmnsk/go-pfcp/ie"
	"github.com/wmnsk/go-pfcp/message"

	"github.com/free5gc/go-upf/internal/forwarder"
	"github.com/free5gc/go-upf/internal/forwarder/perio"
	"github.com/free5gc/go-upf/internal/pfcp"
	"github.com/free5gc/go-upf/internal/report"
	"github.com/free5gc/go-upf/pkg/factory"
)

// perioDP is the model data plane plus the REAL periodic-report server, wired the way Gtp5g wires it: Create URR with
// the PERIO trigger registers (lSeid, urrid) under its measurement period, Remove URR deregisters; a tick queries the
// registered pairs and hands the reports to the PFCP server.  The Measurement Period IE's number is taken as
// MILLISECONDS here so that real tickers fire during a stress run.
type perioDP struct {
	*modelDP
	ps      *perio.Server
	next    uint64
	queries int64
}

func (d *perioDP) CreateURR(s uint64, req *ie.IE) error {
	err := d.modelDP.CreateURR(s, req)
	if err != nil {
		return err
	}
	id, _ := req.URRID()
	var perioTrig bool
	var period time.Duration
	for _, x := range req.ChildIEs {
		switch x.Type {
		case ie.ReportingTriggers:
			if v, e := x.ReportingTriggers(); e == nil && len(v) > 0 && v[0]&1 != 0 {
				perioTrig = true
			}
		case ie.MeasurementPeriod:
			if v, e := x.MeasurementPeriod(); e == nil {
				period = time.Duration(v/time.Second) * time.Millisecond
			}
		}
	}
	if perioTrig && period > 0 {
		d.ps.AddPeriodReportTimer(s, id, period)
	}
	return nil
}

func (d *perioDP) RemoveURR(s uint64, req *ie.IE) ([]report.USAReport, error) {
	if id, err := req.URRID(); err == nil {
		d.ps.DelPeriodReportTimer(s, id)
	}
	return d.modelDP.RemoveURR(s, req)
}

func (d *perioDP) Close() { d.ps.Close() }

// queryURR as handed to perio.Server.Handle: one report per queried pair, each with a unique value (bit 62 set)
func (d *perioDP) queryURR(m map[uint64][]uint32) (map[uint64][]report.USAReport, error) {
	atomic.AddInt64(&d.queries, 1)
	time.Sleep(time.Duration(atomic.AddUint64(&d.next, 1)%3) * 300 * time.Microsecond)
	out := map[uint64][]report.USAReport{}
	for seid, ids := range m {
		for _, id := range ids {
			v := 1<<62 | atomic.AddUint64(&d.next, 1)
			out[seid] = append(out[seid], toUSAReport(jRpt{URR: id, Trig: 1, Cnt: []uint64{v, 0, 0, 0, 0, 0}, Start: 1, End: 2}))
		}
	}
	return out, nil
}

type stressCase struct {
	Seed       int64 `json:"seed"`
	SMFs       int   `json:"smfs"`
	Producers  int   `json:"producers"`
	RunMs      int   `json:"run_ms"`
	StopInMs   int   `json:"stop_in_ms"` // Stop is issued this long after the load phase started (while load continues)
	RetransMs  int   `json:"retrans_ms"`
	MaxRetrans uint8 `json:"maxretrans"`
	Perio      bool  `json:"perio"` // include the real periodic-report server (ms tickers, registration churn, Close after Stop)
}

type stressOut struct {
	ProducerPanics   int      `json:"producer_panics"`
	PanicMsgs        []string `json:"panic_msgs"`
	Fatal            string   `json:"fatal"`
	WgDone           bool     `json:"wg_done"`
	Sent             int      `json:"sent"`
	Delivered        int      `json:"delivered"`
	Missing          int      `json:"missing"`
	Duplicated       int      `json:"duplicated"`
	ProducersBlocked int      `json:"producers_blocked"`
	Requests         int      `json:"requests"`
	PerioQueries     int      `json:"perio_queries"`
	ShutdownMs       int      `json:"shutdown_ms"` // how long the goroutines took to end after the shutdown sequence
	Blocked          []string `json:"blocked"`     // call sites of goroutines still blocked in channel operations when the wait group did not finish
}

func stressOne(f *fixture, c stressCase) stressOut {
	var out stressOut
	fatalMsg.Store("")
	rnd := rand.New(rand.NewSource(c.Seed))
	var wg sync.WaitGroup
	mdp := newModelDP()
	var dp forwarder.Driver = mdp
	var pdp *perioDP
	if c.Perio {
		ps, err := perio.OpenServer(&wg)
		if err != nil {
			out.Fatal = "harness: " + err.Error()
			return out
		}
		pdp = &perioDP{modelDP: mdp, ps: ps}
		dp = pdp
	}
	cfg := &factory.Config{Pfcp: &factory.Pfcp{Addr: f.prefix + "1", NodeID: f.prefix + "1",
		RetransTimeout: time.Duration(c.RetransMs) * time.Millisecond, MaxRetrans: c.MaxRetrans}}
	srv := pfcp.NewPfcpServer(cfg, dp)
	if pdp != nil {
		pdp.ps.Handle(srv, pdp.queryURR)
	}
	// shutdown as pkg/app does it: Stop the PFCP server, then Close the driver straight away
	shutdown := func() {
		srv.Stop()
		if pdp != nil {
			pdp.Close()
		}
	}
	srv.Start(&wg)
	up := false
	for i := 0; i < 200 && !up; i++ {
		up = f.barrierRT(20 * time.Millisecond)
	}
	if !up {
		out.Fatal = "server did not start"
		return out
	}
	f.drain()

	// phase 0: one association + one session with URR 1 per SMF (sequentially, so SEIDs are known)
	nsmf := c.SMFs
	if nsmf > nPeers {
		nsmf = nPeers
	}
	send := func(k int, m message.Message) {
		b := make([]byte, m.MarshalLen())
		_ = m.MarshalTo(b)
		_, _ = f.peers[k].WriteTo(b, f.upf)
	}
	for k := 0; k < nsmf; k++ {
		send(k, message.NewAssociationSetupRequest(1, ie.NewNodeID(peerIP(f.prefix, k), "", ""), ie.NewRecoveryTimeStamp(time.Unix(1000, 0))))
		f.barrierRT(time.Second)
		send(k, message.NewSessionEstablishmentRequest(0, 0, 0, 2, 0, ie.NewNodeID(peerIP(f.prefix, k), "", ""),
			ie.NewFSEID(uint64(100+k), net.ParseIP(peerIP(f.prefix, k)), nil),
			ie.NewCreateURR(ie.NewURRID(1), ie.New(ie.MeasurementMethod, []byte{2})),
			// a periodic URR that lives until the end (period = 1+k "seconds", taken as milliseconds by perioDP)
			ie.NewCreateURR(ie.NewURRID(2), ie.New(ie.MeasurementMethod, []byte{2}), ie.NewReportingTriggers(0x01, 0x00),
				ie.NewMeasurementPeriod(time.Duration(1+k)*time.Second)),
			ie.NewCreateFAR(ie.NewFARID(1), ie.NewApplyAction(2))))
		f.barrierRT(time.Second)
	}
	f.drain()

	var stop int32
	var smfWg, prodWg sync.WaitGroup
	var mu sync.Mutex
	seenVal := map[uint64]map[uint32]bool{} // report value -> set of request sequence numbers carrying it
	var requests int32

	// SMF side: answer Session Report Requests (most of them), send own traffic
	for k := 0; k < nsmf; k++ {
		smfWg.Add(1)
		go func(k int, seed int64) {
			defer smfWg.Done()
			r := rand.New(rand.NewSource(seed))
			buf := make([]byte, 65536)
			seq := uint32(10)
			conn := f.peers[k]
			for atomic.LoadInt32(&stop) == 0 {
				_ = conn.SetReadDeadline(time.Now().Add(time.Millisecond))
				n, _, err := conn.ReadFrom(buf)
				if err == nil {
					if m, e := message.Parse(buf[:n]); e == nil {
						if req, ok := m.(*message.SessionReportRequest); ok {
							atomic.AddInt32(&requests, 1)
							for _, u := range req.UsageReport {
								d := decodeUR(u)
								if d.Vol != nil {
									mu.Lock()
									if seenVal[d.Vol.Cnt[0]] == nil {
										seenVal[d.Vol.Cnt[0]] = map[uint32]bool{}
									}
									seenVal[d.Vol.Cnt[0]][req.Sequence()] = true
									mu.Unlock()
								}
							}
							if r.Intn(10) < 8 { // 20% unanswered: exercises retransmission and abandonment
								rsp := message.NewSessionReportResponse(0, 0, req.SEID(), req.Sequence(), 0, ie.NewCause(ie.CauseRequestAccepted))
								b := make([]byte, rsp.MarshalLen())
								_ = rsp.MarshalTo(b)
								_, _ = conn.WriteTo(b, f.upf)
								if r.Intn(10) == 0 { // duplicate response
									_, _ = conn.WriteTo(b, f.upf)
								}
							}
						}
					}
				}
				switch r.Intn(6) {
				case 2:
					if c.Perio { // registration churn: periodic URRs 5..7 come and go
						seq++
						id := uint32(5 + r.Intn(3))
						if r.Intn(2) == 0 {
							send(k, message.NewSessionModificationRequest(0, 0, uint64(1+k), seq, 0,
								ie.NewCreateURR(ie.NewURRID(id), ie.New(ie.MeasurementMethod, []byte{2}), ie.NewReportingTriggers(0x01, 0x00),
									ie.NewMeasurementPeriod(time.Duration(1+r.Intn(3))*time.Second))))
						} else {
							send(k, message.NewSessionModificationRequest(0, 0, uint64(1+k), seq, 0, ie.NewRemoveURR(ie.NewURRID(id))))
						}
					}
				case 0:
					seq++
					send(k, message.NewHeartbeatRequest(seq, ie.NewRecoveryTimeStamp(time.Unix(1000, 0)), nil))
				case 1:
					seq++
					m := message.NewSessionModificationRequest(0, 0, uint64(1+r.Intn(nsmf)), seq, 0,
						ie.NewCreateFAR(ie.NewFARID(uint32(2+r.Intn(3))), ie.NewApplyAction(2)),
						ie.NewRemoveFAR(ie.NewFARID(uint32(2+r.Intn(3)))))
					send(k, m)
					if r.Intn(3) == 0 {
						send(k, m) // duplicate
					}
				}
			}
		}(k, rnd.Int63())
	}

	// producers: each report carries a unique value in TotalVolume
	var sent int64
	var blocked int32
	var panics int32
	var pmu sync.Mutex
	for p := 0; p < c.Producers; p++ {
		prodWg.Add(1)
		go func(p int, seed int64) {
			defer prodWg.Done()
			r := rand.New(rand.NewSource(seed))
			i := 0
			for atomic.LoadInt32(&stop) < 2 {
				i++
				val := uint64(p)<<32 | uint64(i)
				sr := report.SessReport{SEID: uint64(1 + r.Intn(nsmf)), Reports: []report.Report{
					toUSAReport(jRpt{URR: 1, Trig: 2, Cnt: []uint64{val, 0, 0, 0, 0, 0}, Start: 1, End: 2})}}
				func() {
					atomic.AddInt32(&blocked, 1)
					defer atomic.AddInt32(&blocked, -1)
					defer func() {
						if x := recover(); x != nil {
							atomic.AddInt32(&panics, 1)
							pmu.Lock()
							if len(out.PanicMsgs) < 3 {
								out.PanicMsgs = append(out.PanicMsgs, fmt.Sprint(x))
							}
							pmu.Unlock()
						}
					}()
					srv.NotifySessReport(sr)
					if atomic.LoadInt32(&stop) == 0 {
						atomic.AddInt64(&sent, 1)
						mu.Lock()
						if seenVal[val] == nil {
							seenVal[val] = map[uint32]bool{}
						}
						mu.Unlock()
					}
				}()
				time.Sleep(time.Duration(r.Intn(300)) * time.Microsecond)
			}
		}(p, rnd.Int63())
	}

	if c.StopInMs > 0 {
		// Stop while everything is in flight
		time.Sleep(time.Duration(c.StopInMs) * time.Millisecond)
		shutdown()
		time.Sleep(time.Duration(c.RunMs) * time.Millisecond)
		atomic.StoreInt32(&stop, 2)
		done := make(chan struct{})
		go func() { prodWg.Wait(); close(done) }()
		select {
		case <-done:
		case <-time.After(2 * time.Second):
			out.ProducersBlocked = int(atomic.LoadInt32(&blocked))
		}
		smfWg.Wait()
	} else {
		// steady state, then quiesce and check exactly-once delivery, then Stop
		time.Sleep(time.Duration(c.RunMs) * time.Millisecond)
		atomic.StoreInt32(&stop, 1) // SMFs stop sending, producers stop counting
		atomic.StoreInt32(&stop, 2)
		prodWg.Wait()
		smfWg.Wait()
		// drain: let the loop serve what is queued, collect the remaining requests
		deadline := time.Now().Add(2 * time.Second)
		buf := make([]byte, 65536)
		for time.Now().Before(deadline) {
			f.barrierRT(time.Second)
			got := false
			for k := 0; k < nsmf; k++ {
				for {
					_ = f.peers[k].SetReadDeadline(time.Now().Add(2 * time.Millisecond))
					n, _, err := f.peers[k].ReadFrom(buf)
					if err != nil {
						break
					}
					got = true
					if m, e := message.Parse(buf[:n]); e == nil {
						if req, ok := m.(*message.SessionReportRequest); ok {
							for _, u := range req.UsageReport {
								d := decodeUR(u)
								if d.Vol != nil {
									mu.Lock()
									if seenVal[d.Vol.Cnt[0]] == nil {
										seenVal[d.Vol.Cnt[0]] = map[uint32]bool{}
									}
									seenVal[d.Vol.Cnt[0]][req.Sequence()] = true
									mu.Unlock()
								}
							}
						}
					}
				}
			}
			_, n, _ := srv.VerifChanLens()
			if !got && n == 0 {
				break
			}
		}
		mu.Lock()
		for _, seqs := range seenVal {
			switch {
			case len(seqs) == 0:
				out.Missing++
			case len(seqs) == 1:
				out.Delivered++
			default:
				out.Duplicated++
			}
		}
		mu.Unlock()
		shutdown()
	}
	done := make(chan struct{})
	go func() { wg.Wait(); close(done) }()
	// The goroutines must end.  With millisecond tickers and a consumer slowed down by the race detector the periodic
	// server can be behind by thousands of queued ticks when Close is posted (ticks are not coalesced), and it serves them
	// all before it reaches the Close event: that is slow, not stuck.  So the wait goes on for as long as the periodic
	// server keeps serving queued ticks (its query counter advances), and gives up - "did not terminate" - after 5 s
	// without any progress, or after 120 s in any case.
	progress := func() int64 {
		if pdp != nil {
			return atomic.LoadInt64(&pdp.queries)
		}
		return 0
	}
	last, lastAt, start := progress(), time.Now(), time.Now()
wait:
	for {
		select {
		case <-done:
			out.WgDone = true
			break wait
		case <-time.After(200 * time.Millisecond):
			if p := progress(); p != last {
				last, lastAt = p, time.Now()
			}
			if time.Since(lastAt) > 5*time.Second || time.Since(start) > 120*time.Second {
				out.Blocked = blockedSites()
				break wait
			}
		}
	}
	out.ShutdownMs = int(time.Since(start) / time.Millisecond)
	out.Sent = int(atomic.LoadInt64(&sent))
	out.ProducerPanics = int(atomic.LoadInt32(&panics))
	out.Requests = int(atomic.LoadInt32(&requests))
	if pdp != nil {
		out.PerioQueries = int(atomic.LoadInt64(&pdp.queries))
	}
	if fm, _ := fatalMsg.Load().(string); fm != "" {
		out.Fatal = fm
	}
	f.drain()
	return out
}

func init() {
	modes["stress"] = func(in json.RawMessage) (interface{}, error) {
		var cases []stressCase
		if err := json.Unmarshal(in, &cases); err != nil {
			return nil, err
		}
		setupLogger()
		f, err := newFixture()
		if err != nil {
			return nil, err
		}
		defer f.close()
		var outs []stressOut
		for _, c := range cases {
			outs = append(outs, stressOne(f, c))
		}
		return outs, nil
	}
}
