//go:build verif

package main

import "github.com/free5gc/go-gtp5gnl"

// the per-request limit queryMultiURR uses (read from the pinned library on every run)
func perioBatchLimit() int { return gtp5gnl.MaxNetlinkUsageReportNum() }
