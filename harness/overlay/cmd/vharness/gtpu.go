//go:build verif

package main

import (
	"encoding/hex"
	"encoding/json"
	"fmt"

	"github.com/free5gc/go-upf/internal/gtpv1"
)

type gtpuCase struct {
	Flags   uint8   `json:"flags"`
	TEID    uint32  `json:"teid"`
	Seq     uint16  `json:"seq"`
	NPDU    uint8   `json:"npdu"`
	Exts    [][]int `json:"exts"` // list of [pdutype, qfi]
	Payload string  `json:"payload"`
}

func gtpuOne(c gtpuCase) (res string) {
	defer func() {
		if p := recover(); p != nil {
			res = fmt.Sprintf("panic:%v", p)
		}
	}()
	pl, err := hex.DecodeString(c.Payload)
	if err != nil {
		return "badcase"
	}
	m := gtpv1.Message{
		Flags: c.Flags, Type: gtpv1.MsgTypeTPDU, TEID: c.TEID,
		SequenceNumber: c.Seq, NPDUNumber: c.NPDU, Payload: pl,
	}
	for _, e := range c.Exts {
		m.Exts = append(m.Exts, gtpv1.PDUSessionContainer{PDUType: uint8(e[0]), QoSFlowID: uint8(e[1])})
	}
	// exactly what Gtp5g.WritePacket does with the message
	n := m.Len()
	b := make([]byte, n)
	if _, err := m.Encode(b); err != nil {
		return "error:" + err.Error()
	}
	return hex.EncodeToString(b)
}

func init() {
	modes["gtpu"] = func(in json.RawMessage) (interface{}, error) {
		var cases []gtpuCase
		if err := json.Unmarshal(in, &cases); err != nil {
			return nil, err
		}
		out := make([]string, len(cases))
		for i, c := range cases {
			out[i] = gtpuOne(c)
		}
		return out, nil
	}
}
