//go:build verif

package main

// Mode "timers" (C06, C09): the real PfcpServer with REAL transaction timers (retransmission time-out of 100-250 ms).
// A case is a schedule of steps at absolute times; observations are time-stamped: datagrams received by the
// simulated SMFs, driver calls, and state dumps taken (behind a barrier) where the schedule asks for one.
// The other PFCP modes inject time-outs as events and never run the AfterFunc callbacks; this mode does.

import (
	"encoding/json"
	"sync"
	"time"

	"github.com/free5gc/go-upf/internal/pfcp"
	"github.com/free5gc/go-upf/internal/report"
	"github.com/free5gc/go-upf/pkg/factory"
)

type tmStep struct {
	AtMs   int     `json:"at_ms"`
	Kind   string  `json:"kind"` // event | dump
	Event  *jEvent `json:"event,omitempty"`
	HoldMs int     `json:"hold_ms,omitempty"` // every driver call made from now on takes this long (0 = back to none)
}

type tmCase struct {
	RetransMs  int      `json:"retrans_ms"`
	MaxRetrans uint8    `json:"maxretrans"`
	TxSeq0     uint32   `json:"txseq0"`
	Steps      []tmStep `json:"steps"`
	EndMs      int      `json:"end_ms"`
}

type tmDatagram struct {
	TMs  int64 `json:"t_ms"`
	Send oSend `json:"send"`
}

type tmDump struct {
	Step int             `json:"step"`
	TMs  int64           `json:"t_ms"`
	Dump *pfcp.VerifDump `json:"dump"`
}

type tmDrv struct {
	TMs int64 `json:"t_ms"`
	oDrv
}

type tmOut struct {
	Datagrams []tmDatagram `json:"datagrams"`
	Drv       []tmDrv      `json:"drv"`
	Dumps     []tmDump     `json:"dumps"`
	StepTimes []int64      `json:"step_times"` // when each step was actually carried out
	Fault     string       `json:"fault"`
	Prefix    string       `json:"prefix"`
}

func timersOne(f *fixture, c tmCase) tmOut {
	out := tmOut{Prefix: f.prefix}
	fatalMsg.Store("")
	dp := newModelDP()
	cfg := &factory.Config{Pfcp: &factory.Pfcp{Addr: f.prefix + "1", NodeID: f.prefix + "1",
		RetransTimeout: time.Duration(c.RetransMs) * time.Millisecond, MaxRetrans: c.MaxRetrans}}
	srv := pfcp.NewPfcpServer(cfg, dp)
	srv.VerifSetTxSeq(c.TxSeq0)
	var wg sync.WaitGroup
	srv.Start(&wg)
	defer func() {
		srv.Stop()
		done := make(chan struct{})
		go func() { wg.Wait(); close(done) }()
		select {
		case <-done:
		case <-time.After(3 * time.Second):
		}
	}()
	up := false
	for i := 0; i < 200 && !up; i++ {
		up = f.barrierRT(20 * time.Millisecond)
	}
	if !up {
		out.Fault = "server did not start"
		return out
	}
	f.drain()
	start := time.Now()
	since := func() int64 { return time.Since(start).Milliseconds() }
	dp.setClock(since)
	// one collector per simulated SMF
	var mu sync.Mutex
	stop := make(chan struct{})
	var cwg sync.WaitGroup
	for k := range f.peers {
		cwg.Add(1)
		go func(k int) {
			defer cwg.Done()
			buf := make([]byte, 65536)
			for {
				select {
				case <-stop:
					return
				default:
				}
				_ = f.peers[k].SetReadDeadline(time.Now().Add(5 * time.Millisecond))
				n, _, err := f.peers[k].ReadFrom(buf)
				if err != nil {
					continue
				}
				t := since()
				s := decodeDatagram(k, append([]byte{}, buf[:n]...))
				mu.Lock()
				out.Datagrams = append(out.Datagrams, tmDatagram{TMs: t, Send: s})
				mu.Unlock()
			}
		}(k)
	}
	for i, st := range c.Steps {
		if d := time.Duration(st.AtMs)*time.Millisecond - time.Since(start); d > 0 {
			time.Sleep(d)
		}
		out.StepTimes = append(out.StepTimes, since())
		dp.setHold(time.Duration(st.HoldMs) * time.Millisecond)
		switch st.Kind {
		case "event":
			ev := st.Event
			dp.script(ev)
			switch ev.T {
			case "recv":
				if b, err := buildMsg(f.prefix, ev); err == nil {
					_, _ = f.peers[ev.Peer].WriteTo(b, f.upf)
				} else {
					out.Fault = "harness: " + err.Error()
				}
			case "report":
				sr := report.SessReport{SEID: ev.SEID}
				for _, it := range ev.Items {
					if it.Dld != nil {
						sr.Reports = append(sr.Reports, report.DLDReport{PDRID: it.Dld.PDR, Action: it.Dld.Action, BufPkt: []byte{1, 2}})
					} else if it.Usa != nil {
						sr.Reports = append(sr.Reports, toUSAReport(*it.Usa))
					}
				}
				srv.NotifySessReport(sr)
			}
		case "dump":
			if f.barrierRT(2 * time.Second) {
				d := srv.VerifDumpState()
				out.Dumps = append(out.Dumps, tmDump{Step: i, TMs: since(), Dump: &d})
			} else {
				out.Fault = "hang"
			}
		}
		if fm, _ := fatalMsg.Load().(string); fm != "" {
			out.Fault = "fatal:" + fm
			break
		}
	}
	if d := time.Duration(c.EndMs)*time.Millisecond - time.Since(start); d > 0 && out.Fault == "" {
		time.Sleep(d)
	}
	close(stop)
	cwg.Wait()
	if fm, _ := fatalMsg.Load().(string); fm != "" && out.Fault == "" {
		out.Fault = "fatal:" + fm
	}
	out.Drv = dp.takeTimed()
	return out
}

func init() {
	modes["timers"] = func(in json.RawMessage) (interface{}, error) {
		var cases []tmCase
		if err := json.Unmarshal(in, &cases); err != nil {
			return nil, err
		}
		setupLogger()
		f, err := newFixture()
		if err != nil {
			return nil, err
		}
		defer f.close()
		var outs []tmOut
		for _, c := range cases {
			outs = append(outs, timersOne(f, c))
		}
		return outs, nil
	}
}
