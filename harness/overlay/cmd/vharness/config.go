//go:build verif

package main

import (
	"encoding/json"
	"fmt"
	"io"
	"net"
	"os"
	"path/filepath"
	"strings"
	"sync"
	"time"

	"github.com/asaskevich/govalidator"
	"github.com/sirupsen/logrus"

	"github.com/free5gc/go-upf/internal/forwarder"
	"github.com/free5gc/go-upf/internal/logger"
	"github.com/free5gc/go-upf/pkg/factory"
)

// mode "config" (C20): every YAML variant is written to a file under the run's work directory and given to the
// REAL factory.ReadConfig.  Reported per variant: the stage reached, whether a nil *Config came back, the accepted
// configuration, what the real InitConfigFactory (yaml.Unmarshal) alone delivers, the inputs NewDriver's
// pre-checks look at, and - only when those inputs cannot reach OpenGtp5g (no Gtpu / other forwarder / empty
// ifList) - the verdict of the REAL forwarder.NewDriver.  OpenGtp5g itself needs the kernel and is never called.
// The oracles of the Coq model are answered here by the real library functions on the same strings.

type cfgIn struct {
	Workdir string      `json:"workdir"`
	Docs    []*string   `json:"docs"`    // YAML text; null = no file content at all (empty file)
	Strings []string    `json:"strings"` // every scalar text that occurs: oracle questions
	Direct  []cfgDirect `json:"direct"`  // configurations handed to NewDriver directly (reject paths only)
}

type cfgDirect struct {
	GtpuNil   bool     `json:"gtpu_nil"`
	Forwarder string   `json:"forwarder"`
	Addrs     []string `json:"addrs"`
}

type cfgIf struct {
	Addr   string `json:"addr"`
	Type   string `json:"type"`
	Name   string `json:"name"`
	IfName string `json:"ifname"`
	MTU    uint32 `json:"mtu"`
}

type cfgDnn struct {
	Dnn       string `json:"dnn"`
	Cidr      string `json:"cidr"`
	NatIfName string `json:"natifname"`
}

type cfgDump struct {
	Version     string `json:"version"`
	Description string `json:"description"`
	Pfcp        *struct {
		Addr           string `json:"addr"`
		NodeID         string `json:"nodeid"`
		RetransTimeout int64  `json:"rt"`
		MaxRetrans     uint8  `json:"maxretrans"`
	} `json:"pfcp"`
	Gtpu *struct {
		Forwarder string  `json:"forwarder"`
		IfList    []cfgIf `json:"iflist"`
	} `json:"gtpu"`
	DnnList []cfgDnn `json:"dnnlist"`
	Logger  *struct {
		Enable       bool   `json:"enable"`
		Level        string `json:"level"`
		ReportCaller bool   `json:"reportcaller"`
	} `json:"logger"`
}

func dumpCfg(c *factory.Config) *cfgDump {
	if c == nil {
		return nil
	}
	d := &cfgDump{Version: c.Version, Description: c.Description, DnnList: []cfgDnn{}}
	if c.Pfcp != nil {
		d.Pfcp = &struct {
			Addr           string `json:"addr"`
			NodeID         string `json:"nodeid"`
			RetransTimeout int64  `json:"rt"`
			MaxRetrans     uint8  `json:"maxretrans"`
		}{c.Pfcp.Addr, c.Pfcp.NodeID, int64(c.Pfcp.RetransTimeout), c.Pfcp.MaxRetrans}
	}
	if c.Gtpu != nil {
		d.Gtpu = &struct {
			Forwarder string  `json:"forwarder"`
			IfList    []cfgIf `json:"iflist"`
		}{c.Gtpu.Forwarder, []cfgIf{}}
		for _, i := range c.Gtpu.IfList {
			d.Gtpu.IfList = append(d.Gtpu.IfList, cfgIf{i.Addr, i.Type, i.Name, i.IfName, i.MTU})
		}
	}
	for _, n := range c.DnnList {
		d.DnnList = append(d.DnnList, cfgDnn{n.Dnn, n.Cidr, n.NatIfName})
	}
	if c.Logger != nil {
		d.Logger = &struct {
			Enable       bool   `json:"enable"`
			Level        string `json:"level"`
			ReportCaller bool   `json:"reportcaller"`
		}{c.Logger.Enable, c.Logger.Level, c.Logger.ReportCaller}
	}
	return d
}

type cfgOut struct {
	Stage     string   `json:"stage"` // yaml | valid | resolve | ok | panic
	Err       string   `json:"err"`
	CfgNil    bool     `json:"cfg_nil"`
	Cfg       *cfgDump `json:"cfg"`
	Parsed    *cfgDump `json:"parsed"`     // InitConfigFactory alone (nil if it failed)
	ParsedErr string   `json:"parsed_err"` // its error
	// what NewDriver's pre-checks look at
	GtpuNil   bool   `json:"gtpu_nil"`
	Forwarder string `json:"forwarder"`
	NIf       int    `json:"n_if"`
	FirstAddr string `json:"first_addr"`
	FirstMTU  uint32 `json:"first_mtu"`
	// the real NewDriver, only when it cannot get as far as OpenGtp5g: "" = not executed
	Driver string `json:"driver"`
}

// driverRejectOnly calls the REAL NewDriver when its inputs can only lead to one of its early errors.
func driverRejectOnly(cfg *factory.Config) (res string) {
	if !(cfg.Gtpu == nil || cfg.Gtpu.Forwarder != "gtp5g" || len(cfg.Gtpu.IfList) == 0) {
		return "" // would call OpenGtp5g (netlink): not executed
	}
	defer func() {
		if p := recover(); p != nil {
			res = fmt.Sprintf("panic:%v", p)
		}
	}()
	var wg sync.WaitGroup
	drv, err := forwarder.NewDriver(&wg, cfg)
	if err != nil {
		return "error:" + err.Error()
	}
	if drv != nil {
		drv.Close()
	}
	return "opened"
}

func cfgOne(path string, doc *string) (out cfgOut) {
	defer func() {
		if p := recover(); p != nil {
			out.Stage = "panic"
			out.Err = fmt.Sprintf("panic:%v", p)
		}
	}()
	content := ""
	if doc != nil {
		content = *doc
	}
	if err := os.WriteFile(path, []byte(content), 0o644); err != nil {
		panic(err)
	}
	// yaml.Unmarshal alone, through the real (exported) InitConfigFactory
	pc := &factory.Config{}
	if err := factory.InitConfigFactory(path, pc); err != nil {
		out.ParsedErr = err.Error()
	} else {
		out.Parsed = dumpCfg(pc)
	}
	cfg, err := factory.ReadConfig(path)
	out.CfgNil = cfg == nil
	if err != nil {
		out.Err = err.Error()
		if len(out.Err) > 300 {
			out.Err = out.Err[:300]
		}
		switch {
		case out.ParsedErr != "":
			out.Stage = "yaml"
		case strings.Contains(err.Error(), "can't be resolved"):
			out.Stage = "resolve"
		default:
			out.Stage = "valid"
		}
		return out
	}
	out.Stage = "ok"
	if cfg == nil {
		return out
	}
	out.Cfg = dumpCfg(cfg)
	out.GtpuNil = cfg.Gtpu == nil
	if cfg.Gtpu != nil {
		out.Forwarder = cfg.Gtpu.Forwarder
		out.NIf = len(cfg.Gtpu.IfList)
		if out.NIf > 0 {
			out.FirstAddr = cfg.Gtpu.IfList[0].Addr
			out.FirstMTU = cfg.Gtpu.IfList[0].MTU
		}
	}
	out.Driver = driverRejectOnly(cfg)
	return out
}

type cfgOracles struct {
	Host     []string         `json:"host"`     // strings for which govalidator.IsHost is true
	Cidr     []string         `json:"cidr"`     // ... govalidator.IsCIDR
	Resolve  []string         `json:"resolve"`  // ... net.ResolveIPAddr("ip4", s) succeeds
	Duration map[string]int64 `json:"duration"` // ... time.ParseDuration succeeds -> nanoseconds
}

func init() {
	modes["config"] = func(in json.RawMessage) (interface{}, error) {
		var inp cfgIn
		if err := json.Unmarshal(in, &inp); err != nil {
			return nil, err
		}
		logger.Log.SetOutput(io.Discard)
		logger.Log.SetLevel(logrus.PanicLevel)
		dir := filepath.Join(inp.Workdir, "cfgfiles")
		if err := os.MkdirAll(dir, 0o755); err != nil {
			return nil, err
		}
		defer os.RemoveAll(dir)
		res := struct {
			Docs    []cfgOut   `json:"docs"`
			Oracles cfgOracles `json:"oracles"`
			Direct  []string   `json:"direct"`
		}{Docs: make([]cfgOut, len(inp.Docs)), Direct: make([]string, len(inp.Direct))}
		path := filepath.Join(dir, "upfcfg.yaml")
		for i, d := range inp.Docs {
			res.Docs[i] = cfgOne(path, d)
		}
		res.Oracles = cfgOracles{Host: []string{}, Cidr: []string{}, Resolve: []string{}, Duration: map[string]int64{}}
		for _, s := range inp.Strings {
			if govalidator.IsHost(s) {
				res.Oracles.Host = append(res.Oracles.Host, s)
			}
			if govalidator.IsCIDR(s) {
				res.Oracles.Cidr = append(res.Oracles.Cidr, s)
			}
			if _, err := net.ResolveIPAddr("ip4", s); err == nil {
				res.Oracles.Resolve = append(res.Oracles.Resolve, s)
			}
			if d, err := time.ParseDuration(s); err == nil {
				res.Oracles.Duration[s] = int64(d)
			}
		}
		for i, d := range inp.Direct {
			cfg := &factory.Config{}
			if !d.GtpuNil {
				cfg.Gtpu = &factory.Gtpu{Forwarder: d.Forwarder}
				for _, a := range d.Addrs {
					cfg.Gtpu.IfList = append(cfg.Gtpu.IfList, factory.IfInfo{Addr: a, Type: "N3"})
				}
			}
			res.Direct[i] = driverRejectOnly(cfg)
		}
		return res, nil
	}
}
