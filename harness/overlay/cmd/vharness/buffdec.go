//go:build verif

package main

// Mode "buffdec" (C13): the real buffnetlink.decodbuffer on octet strings.  Every input is given a slice whose
// capacity equals its length (so that a read past the end faults instead of seeing stale buffer contents), runs under
// recover, and - because an attribute of length 0 makes the walk spin for ever - in a goroutine with a deadline; a
// spinning goroutine cannot be stopped, so such inputs are run last and the process exits right afterwards.

import (
	"encoding/hex"
	"encoding/json"
	"fmt"
	"time"

	"github.com/free5gc/go-upf/internal/forwarder/buffnetlink"
)

type buffdecOut struct {
	Res    string `json:"res"` // ok | err | panic | loop
	SEID   uint64 `json:"seid"`
	PDR    uint16 `json:"pdr"`
	Action uint16 `json:"action"`
	HasPkt bool   `json:"has_pkt"`
	Pkt    string `json:"pkt"`
	Msg    string `json:"msg,omitempty"`
}

func buffdecOne(h string) buffdecOut {
	raw, _ := hex.DecodeString(h)
	b := make([]byte, len(raw))
	copy(b, raw)
	b = b[:len(b):len(b)]
	done := make(chan buffdecOut, 1)
	go func() {
		var o buffdecOut
		defer func() {
			if p := recover(); p != nil {
				o = buffdecOut{Res: "panic", Msg: fmt.Sprint(p)}
			}
			done <- o
		}()
		seid, pdr, action, pkt, err := buffnetlink.VerifDecodBuffer(b)
		if err != nil {
			o = buffdecOut{Res: "err"}
			return
		}
		o = buffdecOut{Res: "ok", SEID: seid, PDR: pdr, Action: action, HasPkt: pkt != nil, Pkt: hex.EncodeToString(pkt)}
	}()
	select {
	case o := <-done:
		return o
	case <-time.After(300 * time.Millisecond):
		return buffdecOut{Res: "loop"}
	}
}

func init() {
	modes["buffdec"] = func(in json.RawMessage) (interface{}, error) {
		var cases []string
		if err := json.Unmarshal(in, &cases); err != nil {
			return nil, err
		}
		out := make([]buffdecOut, len(cases))
		for i, c := range cases {
			out[i] = buffdecOne(c)
		}
		return out, nil
	}
}
