//go:build verif

package main

// Mode "perio_pingpong" (C18): one event at a time is posted to the real periodic-report server and NOTHING else until
// it has been served - a lost wake-up of the server (an event queued while it sleeps) shows as a round that never ends.

import (
	"encoding/json"
	"sync"
	"sync/atomic"
	"time"

	"github.com/free5gc/go-upf/internal/forwarder/perio"
	"github.com/free5gc/go-upf/internal/report"
)

type pingIn struct {
	Rounds    int `json:"rounds"`
	TimeoutMs int `json:"timeout_ms"`
}

type pingOut struct {
	Rounds    int    `json:"rounds"`   // rounds completed
	StuckAt   int    `json:"stuck_at"` // -1, or the round whose event was not served within the time-out
	Queued    int    `json:"queued"`   // events waiting in the queue at that moment
	Error     string `json:"error"`
	ElapsedMs int64  `json:"elapsed_ms"`
}

type pingHandler struct{}

func (pingHandler) NotifySessReport(report.SessReport)      {}
func (pingHandler) PopBufPkt(uint64, uint16) ([]byte, bool) { return nil, false }

func init() {
	modes["perio_pingpong"] = func(in json.RawMessage) (interface{}, error) {
		var c pingIn
		if err := json.Unmarshal(in, &c); err != nil {
			return nil, err
		}
		setupLogger()
		out := pingOut{StuckAt: -1}
		var wg sync.WaitGroup
		ps, err := perio.OpenServer(&wg)
		if err != nil {
			out.Error = err.Error()
			return out, nil
		}
		var served int64
		ps.Handle(pingHandler{}, func(m map[uint64][]uint32) (map[uint64][]report.USAReport, error) {
			atomic.AddInt64(&served, 1)
			return nil, nil
		})
		period := 1000 * time.Hour
		ps.AddPeriodReportTimer(1, 1, period)
		if !ps.VerifBarrier(2 * time.Second) {
			out.Error = "server did not take its first event"
			return out, nil
		}
		t0 := time.Now()
		for r := 1; r <= c.Rounds; r++ {
			ps.VerifTick(period) // exactly one event; nothing else is posted until it has been served
			deadline := time.Now().Add(time.Duration(c.TimeoutMs) * time.Millisecond)
			for atomic.LoadInt64(&served) < int64(r) {
				if time.Now().After(deadline) {
					out.StuckAt, out.Queued = r, ps.VerifQueued()
					out.ElapsedMs = time.Since(t0).Milliseconds()
					return out, nil // the server is left asleep; the process ends with the mode
				}
				// no Gosched-free spin: let the server run
				time.Sleep(0)
			}
			out.Rounds = r
		}
		out.ElapsedMs = time.Since(t0).Milliseconds()
		ps.Close()
		return out, nil
	}
}
