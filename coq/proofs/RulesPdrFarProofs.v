(* Proofs for C02: decoder-of-encoder for Create/Update PDR and Create/Update FAR, permutation
   invariance, swap characterisation, per-field exactness.  Statements are re-exported by props/C02.v. *)
From Coq Require Import List NArith Bool Lia Permutation PeanoNat.
From Coq Require String.
From GoUpf Require Import Bytes Nlattr PfcpIe RulesGen ConstsGen FlagsGen RulesSpec RulesPdrFar.
Import ListNotations.
Local Open Scope N_scope.

(* ------------------------------------------------------------------ the hand-written model is pinned to the
   clause shapes T-gen reads from gtp5g.go on every run: a re-typed attribute, a changed width, a changed
   error path or a new clause makes one of these fail *)
Module Shapes.
Import String.
Local Open Scope string_scope.
Example shape_newPdi_as_modelled : shape_newPdi =
  [("SourceInterface", ["PDI_SRC_INTF"], ["AttrU8(v)"], ["break"], [], false);
   ("FTEID", ["PDI_F_TEID"; "F_TEID_I_TEID"; "F_TEID_GTPU_ADDR_IPV4"], ["AttrU32(v.TEID)"; "AttrBytes(v.IPv4Address)"], ["break"], [], false);
   ("NetworkInstance", [], [], [], [], false);
   ("UEIPAddress", ["PDI_UE_ADDR_IPV4"], ["AttrBytes(v.IPv4Address)"], ["break"], [], false);
   ("SDFFilter", [], [], [], [], false);
   ("ApplicationID", [], [], [], [], false)].
Proof. reflexivity. Qed.

Definition pdr_shape :=
  [("PDRID", [], [], ["break"], [], false);
   ("Precedence", ["PDR_PRECEDENCE"], ["AttrU32(v)"], ["break"], [], false);
   ("PDI", ["PDR_PDI"], [], ["break"], ["newPdi"], true);
   ("OuterHeaderRemoval", ["PDR_OUTER_HEADER_REMOVAL"], ["AttrU8(v)"], ["break"], [], false);
   ("FARID", ["PDR_FAR_ID"], ["AttrU32(v)"], ["break"], [], false);
   ("QERID", ["PDR_QER_ID"], ["AttrU32(v)"], ["break"], [], false);
   ("URRID", ["PDR_URR_ID"], ["AttrU32(v)"], ["break"], [], false)].
Example shape_CreatePDR_as_modelled : shape_CreatePDR = pdr_shape.
Proof. reflexivity. Qed.
Example shape_UpdatePDR_as_modelled : shape_UpdatePDR = pdr_shape.
Proof. reflexivity. Qed.

Example shape_newForwardingParameter_as_modelled : shape_newForwardingParameter =
  [("DestinationInterface", [], [], [], [], false);
   ("NetworkInstance", [], [], [], [], false);
   ("OuterHeaderCreation",
    ["OUTER_HEADER_CREATION_DESCRIPTION"; "OUTER_HEADER_CREATION_O_TEID"; "OUTER_HEADER_CREATION_PORT"; "OUTER_HEADER_CREATION_PORT";
     "OUTER_HEADER_CREATION_PEER_ADDR_IPV4"; "FORWARDING_PARAMETER_OUTER_HEADER_CREATION"],
    ["AttrU16(v.OuterHeaderCreationDescription)"; "AttrU32(v.TEID)"; "AttrU16(factory.UpfGtpDefaultPort)"; "AttrU16(v.PortNumber)";
     "AttrBytes(v.IPv4Address)"], ["break"], [], false);
   ("ForwardingPolicy", ["FORWARDING_PARAMETER_FORWARDING_POLICY"], ["AttrString(v)"], ["break"], [], false);
   ("PFCPSMReqFlags", ["FORWARDING_PARAMETER_PFCPSM_REQ_FLAGS"], ["AttrU8(v)"], ["break"], [], false)].
Proof. reflexivity. Qed.

Example shape_CreateFAR_as_modelled : shape_CreateFAR =
  [("FARID", [], [], ["return"], [], false);
   ("ApplyAction", ["FAR_APPLY_ACTION"], ["AttrU16(act.Flags)"], ["return"; "return"], [], false);
   ("ForwardingParameters", ["FAR_FORWARDING_PARAMETER"], [], ["return"; "break"], ["newForwardingParameter"], true);
   ("BARID", ["FAR_BAR_ID"], ["AttrU8(v)"], ["break"], [], false)].
Proof. reflexivity. Qed.
Example shape_UpdateFAR_as_modelled : shape_UpdateFAR =
  [("FARID", [], [], ["return"], [], false);
   ("ApplyAction", ["FAR_APPLY_ACTION"], ["AttrU16(act.Flags)"], ["return"; "return"], [], false);
   ("UpdateForwardingParameters", ["FAR_FORWARDING_PARAMETER"], [], ["return"; "break"], ["newForwardingParameter"], true);
   ("BARID", ["FAR_BAR_ID"], ["AttrU8(v)"], ["break"], [], false)].
Proof. reflexivity. Qed.

Example shape_newFlowDesc_as_modelled : shape_newFlowDesc =
  (["gtp5gnl.FLOW_DESCRIPTION_ACTION"; "gtp5gnl.FLOW_DESCRIPTION_DIRECTION"; "gtp5gnl.FLOW_DESCRIPTION_DIRECTION";
    "gtp5gnl.FLOW_DESCRIPTION_PROTOCOL"; "gtp5gnl.FLOW_DESCRIPTION_SRC_IPV4"; "gtp5gnl.FLOW_DESCRIPTION_SRC_MASK";
    "gtp5gnl.FLOW_DESCRIPTION_DEST_IPV4"; "gtp5gnl.FLOW_DESCRIPTION_DEST_MASK"; "gtp5gnl.FLOW_DESCRIPTION_SRC_PORT";
    "gtp5gnl.FLOW_DESCRIPTION_DEST_PORT"],
   ["AttrU8(gtp5gnl.SDF_FILTER_PERMIT)"; "AttrU8(gtp5gnl.SDF_FILTER_IN)"; "AttrU8(gtp5gnl.SDF_FILTER_OUT)"; "AttrU8(fd.Proto)";
    "AttrBytes(fd.Src.IP)"; "AttrBytes(fd.Src.Mask)"; "AttrBytes(fd.Dst.IP)"; "AttrBytes(fd.Dst.Mask)";
    "AttrBytes(convertSlice(fd.SrcPorts))"; "AttrBytes(convertSlice(fd.DstPorts))"],
   ["err!=nil"; "swapSrcDst"; "fd.Src,fd.Dst=fd.Dst,fd.Src"; "fd.SrcPorts,fd.DstPorts=fd.DstPorts,fd.SrcPorts"]).
Proof. reflexivity. Qed.

Example shape_newSdfFilter_as_modelled : shape_newSdfFilter =
  (["gtp5gnl.SDF_FILTER_FLOW_DESCRIPTION"; "gtp5gnl.SDF_FILTER_TOS_TRAFFIC_CLASS"; "gtp5gnl.SDF_FILTER_SECURITY_PARAMETER_INDEX";
    "gtp5gnl.SDF_FILTER_FLOW_LABEL"; "gtp5gnl.SDF_FILTER_SDF_FILTER_ID"],
   ["AttrU16(x)"; "AttrU32(x)"; "AttrU32(x)"; "AttrU32(v.SDFFilterID)"],
   ["err!=nil"; "v.HasFD()"; "swapSrcDst:=(srcIf==ie.SrcInterfaceAccess)"; "err!=nil"; "v.HasTTC()"; "x:=uint16(29)"; "v.HasSPI()";
    "x:=uint32(30)"; "v.HasFL()"; "x:=uint32(31)"; "v.HasBID()"]).
Proof. reflexivity. Qed.
End Shapes.

(* the GTP-U port the driver forces is the registered one the specification names *)
Example gtpu_port_is_2152 : UpfGtpDefaultPort = 2152.
Proof. reflexivity. Qed.
Example sock_path_is_slash : nl_PdrAddrForNetlink = [47].
Proof. reflexivity. Qed.

(* ------------------------------------------------------------------ generic helpers *)
Lemma ofold_app {S} (step : S -> attr -> option S) l1 l2 s :
  ofold step (l1 ++ l2) s = bind (ofold step l1 s) (ofold step l2).
Proof.
  unfold ofold. rewrite fold_left_app.
  destruct (fold_left _ l1 (Some s)) as [s'|]; cbn [bind]; [reflexivity|].
  induction l2; cbn; auto.
Qed.

Lemma ofold_nil {S} (step : S -> attr -> option S) s : ofold step [] s = Some s.
Proof. reflexivity. Qed.

Lemma ofold_cons {S} (step : S -> attr -> option S) a l s :
  ofold step (a :: l) s = bind (step s a) (ofold step l).
Proof.
  change (a :: l) with ([a] ++ l). rewrite ofold_app. reflexivity.
Qed.

Lemma ofold_fold {S} (step : S -> attr -> option S) l s :
  fold_left (fun acc a => match acc with Some s' => step s' a | None => None end) l (Some s) = ofold step l s.
Proof. reflexivity. Qed.

Lemma ofold_single {S} (step : S -> attr -> option S) a s : ofold step [a] s = step s a.
Proof. reflexivity. Qed.

(* last selected value, or the default *)
Definition lastor {X} (d : option X) (l : list X) : option X := fold_left (fun _ x => Some x) l d.

Lemma lastor_app {X} (d : option X) l1 l2 : lastor d (l1 ++ l2) = lastor (lastor d l1) l2.
Proof. unfold lastor. apply fold_left_app. Qed.

Lemma lastor_le1 {X} (l : list X) : le1 l = true -> lastor None l = hd_error l.
Proof.
  destruct l as [|x [|y l]]; cbn; try reflexivity. discriminate.
Qed.

Lemma sel_app {X} (f : ie -> option X) l1 l2 : sel f (l1 ++ l2) = (sel f l1 ++ sel f l2)%list.
Proof. unfold sel. apply flat_map_app. Qed.

Lemma sel_cons {X} (f : ie -> option X) a l : sel f (a :: l) = (o2l (f a) ++ sel f l)%list.
Proof. reflexivity. Qed.

Lemma sel_perm {X} (f : ie -> option X) l l' : Permutation l l' -> Permutation (sel f l) (sel f l').
Proof. intros H. unfold sel. apply Permutation_flat_map. exact H. Qed.

Lemma perm_le1_eq {X} (l l' : list X) : Permutation l l' -> le1 l = true -> l = l'.
Proof.
  intros P H. destruct l as [|x [|y l]]; cbn in H; try discriminate.
  - apply Permutation_nil in P. auto.
  - apply Permutation_length_1_inv in P. auto.
Qed.

Lemma the_perm {X} (f : ie -> option X) l l' :
  Permutation l l' -> le1 (sel f l) = true -> the f l = the f l'.
Proof.
  intros P H. unfold the. rewrite (perm_le1_eq _ _ (sel_perm f _ _ P) H). reflexivity.
Qed.

Lemma le1_perm {X} (l l' : list X) : Permutation l l' -> le1 l = le1 l'.
Proof. intros P. unfold le1. rewrite (Permutation_length P). reflexivity. Qed.
Lemma eq1_perm {X} (l l' : list X) : Permutation l l' -> eq1 l = eq1 l'.
Proof. intros P. unfold eq1. rewrite (Permutation_length P). reflexivity. Qed.

Lemma forallb_perm {X} (p : X -> bool) l l' : Permutation l l' -> forallb p l = forallb p l'.
Proof.
  induction 1; cbn; auto.
  - rewrite IHPermutation. reflexivity.
  - destruct (p x), (p y); reflexivity.
  - congruence.
Qed.

Lemma eq1_le1 {X} (l : list X) : eq1 l = true -> le1 l = true.
Proof. destruct l as [|x [|y l]]; cbn; auto. Qed.

(* ------------------------------------------------------------------ leaf readers on model values *)
Lemma rd_u8 v : v < 256 -> rd_uint 1 (V8 v) = Some v.
Proof.
  intros H. unfold rd_uint. cbn [is_nest payload length Nat.eqb le_val].
  rewrite N.mod_small by exact H. f_equal. lia.
Qed.

Lemma rd_le n v : v < 2 ^ (8 * N.of_nat n) ->
  (if Nat.eqb (length (le_bytes n v)) n then Some (le_val (le_bytes n v)) else None) = Some v.
Proof.
  intros H. rewrite le_bytes_length, Nat.eqb_refl, le_val_le_bytes, N.mod_small by exact H. reflexivity.
Qed.

Lemma rd_u16 v : v < 65536 -> rd_uint 2 (V16 v) = Some v.
Proof. intros H. unfold rd_uint. cbn [is_nest payload]. apply (rd_le 2). exact H. Qed.
Lemma rd_u32 v : v < 4294967296 -> rd_uint 4 (V32 v) = Some v.
Proof. intros H. unfold rd_uint. cbn [is_nest payload]. apply (rd_le 4). exact H. Qed.
Lemma rd_u64 v : v < 18446744073709551616 -> rd_uint 8 (V64 v) = Some v.
Proof. intros H. unfold rd_uint. cbn [is_nest payload]. apply (rd_le 8). exact H. Qed.

Lemma is_ip4_len l : is_ip4 l = true -> length l = 4%nat.
Proof. unfold is_ip4. intros H. apply andb_prop in H. destruct H as [H _]. apply Nat.eqb_eq. exact H. Qed.

Lemma rd_ip4 l : is_ip4 l = true -> rd_bytes 4 (VBytes l) = Some l.
Proof.
  intros H. unfold rd_bytes. cbn [is_nest payload]. rewrite (is_ip4_len _ H). reflexivity.
Qed.

Lemma is_fd_addr_len l : is_fd_addr l = true -> (4 <= length l)%nat.
Proof.
  unfold is_fd_addr. intros H. apply orb_prop in H. destruct H as [H|H].
  - rewrite (is_ip4_len _ H). lia.
  - apply andb_prop in H. destruct H as [H _]. apply Nat.eqb_eq in H. lia.
Qed.

Lemma rd_fd_addr l : is_fd_addr l = true -> rd_prefix4 (VBytes l) = Some (firstn 4 l).
Proof.
  intros H. unfold rd_prefix4. cbn [is_nest payload].
  pose proof (is_fd_addr_len _ H) as L. apply Nat.leb_le in L. rewrite L. reflexivity.
Qed.

Lemma cstr_nonul s : forallb (fun x => (0 <? x) && (x <? 256)) s = true -> cstr (s ++ [0]) = Some s.
Proof.
  induction s as [|b s IH]; cbn [forallb app cstr]; intros H.
  - reflexivity.
  - apply andb_prop in H. destruct H as [Hb Hs]. apply andb_prop in Hb. destruct Hb as [Hb _].
    apply N.ltb_lt in Hb. destruct (N.eqb_spec b 0) as [E|_]; [lia|].
    rewrite (IH Hs). reflexivity.
Qed.

Lemma rd_str_nonul s : forallb (fun x => (0 <? x) && (x <? 256)) s = true -> rd_str (VStr s) = Some s.
Proof. intros H. unfold rd_str. cbn [is_nest payload]. apply cstr_nonul. exact H. Qed.

Lemma rd_str_slash : rd_str (VStr [47]) = Some [47].
Proof. reflexivity. Qed.

(* ------------------------------------------------------------------ convertSlice read back *)
Lemma lor_shiftl16 a b : b < 65536 -> N.lor (N.shiftl a 16) b = a * 65536 + b.
Proof.
  intros Hb.
  assert (L : N.land (N.shiftl a 16) b = 0).
  { apply N.bits_inj. intro n. rewrite N.land_spec, N.bits_0.
    destruct (N.ltb_spec n 16) as [Hn|Hn].
    - rewrite N.shiftl_spec_low by exact Hn. reflexivity.
    - replace b with (b mod 2 ^ 16) by (apply N.mod_small; exact Hb).
      rewrite N.mod_pow2_bits_high by exact Hn. apply andb_false_r. }
  rewrite <- N.lxor_lor by exact L. rewrite <- N.add_nocarry_lxor by exact L.
  rewrite N.shiftl_mul_pow2. reflexivity.
Qed.

Lemma port_word a b : a < 65536 -> b < 65536 ->
  let v := le_val (le_bytes 4 (N.lor (N.shiftl a 16) b)) in v / 65536 = a /\ v mod 65536 = b.
Proof.
  intros Ha Hb. cbv zeta. rewrite le_val_le_bytes, lor_shiftl16 by exact Hb.
  replace (2 ^ (8 * N.of_nat 4)) with 4294967296 by reflexivity.
  rewrite N.mod_small by lia. split.
  - rewrite N.add_comm, N.div_add by lia. rewrite N.div_small by exact Hb. reflexivity.
  - rewrite N.add_comm, N.mod_add by lia. apply N.mod_small. exact Hb.
Qed.

Lemma ports_of_convert ports fuel :
  forallb is_port_entry ports = true -> (length ports <= fuel)%nat ->
  ports_of fuel (convert_slice ports) = Some (map port_range ports).
Proof.
  revert fuel. induction ports as [|p ports IH]; intros fuel H L.
  - destruct fuel; reflexivity.
  - cbn [forallb] in H. apply andb_prop in H. destruct H as [Hp Hs].
    destruct fuel as [|k]; [cbn in L; lia|]. cbn [length] in L.
    assert (E : exists a b, a < 65536 /\ b < 65536 /\ port_range p = (a, b) /\
                convert_slice (p :: ports) = (le_bytes 4 (N.lor (N.shiftl a 16) b) ++ convert_slice ports)%list).
    { destruct p as [|a [|b [|c p]]]; cbn [is_port_entry] in Hp; try discriminate.
      - exists a, a. apply N.ltb_lt in Hp. repeat split; auto.
      - apply andb_prop in Hp. destruct Hp as [Ha Hb]. apply N.ltb_lt in Ha, Hb.
        exists a, b. repeat split; auto. }
    destruct E as (a & b & Ha & Hb & Er & Ec). rewrite Ec. cbn [map]. rewrite Er.
    pose proof (port_word a b Ha Hb) as W. cbv zeta in W.
    remember (N.lor (N.shiftl a 16) b) as w.
    cbn [le_bytes app ports_of].
    change [w mod 256; w / 256 mod 256; w / 256 / 256 mod 256; w / 256 / 256 / 256 mod 256] with (le_bytes 4 w).
    destruct W as [W1 W2]. rewrite W1, W2. rewrite IH by (auto; lia). reflexivity.
Qed.

Lemma convert_slice_length ports : length (convert_slice ports) = (4 * length ports)%nat.
Proof.
  induction ports as [|p ports IH]; [reflexivity|].
  change (convert_slice (p :: ports)) with
    ((match p with [a] => le_bytes 4 (N.lor (N.shiftl a 16) a) | [a; b] => le_bytes 4 (N.lor (N.shiftl a 16) b)
      | _ => [0; 0; 0; 0] end) ++ convert_slice ports)%list.
  rewrite app_length, IH. cbn [length].
  destruct p as [|a [|b [|c p]]]; cbn [length le_bytes]; lia.
Qed.

Lemma rd_ports_convert ports : forallb is_port_entry ports = true ->
  rd_ports (VBytes (convert_slice ports)) = Some (map port_range ports).
Proof.
  intros H. unfold rd_ports. cbn [is_nest payload]. apply ports_of_convert; [exact H|].
  rewrite convert_slice_length. lia.
Qed.

(* ------------------------------------------------------------------ decoding what the model emits *)
Lemma wf_pfd_inv p : wf_pfd p = true ->
  pf_action p = 1 /\ (pf_dir p = 1 \/ pf_dir p = 2) /\ pf_proto p < 256 /\
  is_fd_addr (pf_src_ip p) = true /\ is_fd_addr (pf_src_mask p) = true /\
  is_fd_addr (pf_dst_ip p) = true /\ is_fd_addr (pf_dst_mask p) = true /\
  forallb is_port_entry (pf_sports p) = true /\ forallb is_port_entry (pf_dports p) = true.
Proof.
  unfold wf_pfd. intros H. rewrite !andb_true_iff in H.
  destruct H as [[[[[[[[Ha Hd] Hp] H1] H2] H3] H4] H5] H6].
  apply N.eqb_eq in Ha. apply N.ltb_lt in Hp. apply orb_prop in Hd. rewrite !N.eqb_eq in Hd. tauto.
Qed.

(* the leaf readers are used through the rd_* lemmas only *)
Local Opaque rd_uint rd_bytes rd_prefix4 rd_str rd_ports.

Ltac rd_step :=
  first [ rewrite rd_u8 by (assumption || reflexivity)
        | rewrite rd_u16 by (assumption || reflexivity)
        | rewrite rd_u32 by (assumption || reflexivity)
        | rewrite rd_u64 by (assumption || reflexivity)
        | rewrite rd_ip4 by assumption
        | rewrite rd_fd_addr by assumption
        | rewrite rd_ports_convert by assumption
        | rewrite rd_str_nonul by assumption
        | rewrite rd_str_slash ].
Ltac rd_all := cbn -[firstn]; repeat (rd_step; cbn -[firstn]).

Lemma dec_fd_new p swap : wf_pfd p = true ->
  exists l, new_flow_desc (Some p) swap = Some l /\ dec_fd l = Some (spec_fd swap p).
Proof.
  intros W. apply wf_pfd_inv in W. destruct W as (Ha & Hd & Hp & H1 & H2 & H3 & H4 & H5 & H6).
  unfold new_flow_desc, spec_fd.
  destruct swap; cbn [swap_pfd pf_action pf_dir pf_proto pf_src_ip pf_src_mask pf_dst_ip pf_dst_mask pf_sports pf_dports];
    rewrite Ha; cbn [N.eqb Pos.eqb negb];
    destruct Hd as [Hd|Hd]; rewrite Hd; cbn [N.eqb Pos.eqb];
    eexists; (split; [reflexivity|]); unfold dec_fd; rd_all; reflexivity.
Qed.

Lemma dec_sdf_new x s : wf_sdf x = true ->
  exists v, new_sdf_filter x s = Some v /\ bind (Some v) dec_sdf = spec_sdf (s =? SrcInterfaceAccess) x.
Proof.
  destruct x; cbn [wf_sdf]; try discriminate. intros W. rewrite !andb_true_iff in W.
  destruct W as [[[[Ht Hs] Hf] Hb] Hfd]. apply negb_true_iff in Ht, Hs, Hf. subst has_ttc has_spi has_fl.
  apply N.ltb_lt in Hb. unfold new_sdf_filter, spec_sdf.
  destruct has_fd.
  - destruct fd as [p|]; [|discriminate].
    destruct (dec_fd_new p (s =? SrcInterfaceAccess) Hfd) as (l & El & Dl). rewrite El.
    eexists. split; [reflexivity|]. cbn [bind]. unfold dec_sdf. cbn [app].
    rewrite ofold_cons. cbn [dec_sdf_step]. cbn [N.eqb Pos.eqb nl_SDF_FILTER_FLOW_DESCRIPTION rd_nest bind].
    rewrite Dl. cbn [bind]. destruct has_bid; rd_all; reflexivity.
  - eexists. split; [reflexivity|]. cbn [bind]. unfold dec_sdf. destruct has_bid; rd_all; reflexivity.
Qed.

(* ------------------------------------------------------------------ newPdi as two flat_maps *)
Definition pdi_out1 (x : ie) : list attr :=
  match x with
  | ISrcIf v => [A nl_PDI_SRC_INTF (V8 v)]
  | IFteid teid v4 => [A nl_PDI_F_TEID (VNest [A nl_F_TEID_I_TEID (V32 teid); A nl_F_TEID_GTPU_ADDR_IPV4 (VBytes v4)])]
  | IUeIp v4 => [A nl_PDI_UE_ADDR_IPV4 (VBytes v4)]
  | _ => []
  end.
Definition is_sdfish (x : ie) : bool :=
  match x with ISdf _ _ _ _ _ _ _ _ => true | IBad t => t =? T_SDFFilter | _ => false end.
Definition lastn (d : N) (l : list N) : N := fold_left (fun _ x => x) l d.
Definition sdf_out (s : N) (x : ie) : list attr :=
  match new_sdf_filter x s with Some v => [A nl_PDI_SDF_FILTER (VNest v)] | None => [] end.

Lemma pdi_scan_fold c : forall attrs s sdfs,
  fold_left pdi_scan c (attrs, s, sdfs) =
  (attrs ++ flat_map pdi_out1 c, lastn s (sel g_srcif c), sdfs ++ filter is_sdfish c)%list.
Proof.
  induction c as [|x c IH]; intros attrs s sdfs.
  - cbn. rewrite !app_nil_r. reflexivity.
  - cbn [fold_left]. 
    destruct x; cbn [pdi_scan]; try (rewrite IH; cbn [flat_map pdi_out1 filter is_sdfish sel o2l g_srcif app lastn fold_left];
      rewrite <- ?app_assoc; reflexivity).
    cbn [filter is_sdfish flat_map pdi_out1 sel o2l g_srcif app].
    destruct (ty =? T_SDFFilter); rewrite IH; cbn [app]; rewrite <- ?app_assoc; reflexivity.
Qed.

Lemma sdf_loop sdfs s : forall attrs,
  fold_left (fun acc x => match new_sdf_filter x s with
                          | Some v => acc ++ [A nl_PDI_SDF_FILTER (VNest v)]
                          | None => acc end) sdfs attrs
  = (attrs ++ flat_map (sdf_out s) sdfs)%list.
Proof.
  induction sdfs as [|x sdfs IH]; intros attrs; cbn [fold_left flat_map].
  - rewrite app_nil_r. reflexivity.
  - rewrite IH. unfold sdf_out at 2. destruct (new_sdf_filter x s); cbn [app]; rewrite <- ?app_assoc; reflexivity.
Qed.

Lemma new_pdi_eq c :
  new_pdi c = (flat_map pdi_out1 c ++ flat_map (sdf_out (lastn 0 (sel g_srcif c))) (filter is_sdfish c))%list.
Proof.
  unfold new_pdi. rewrite pdi_scan_fold. cbn [app]. apply sdf_loop.
Qed.

Lemma nobad_sdfish c : sel g_bad c = [] -> filter is_sdfish c = sel g_sdf c.
Proof.
  induction c as [|x c IH]; [reflexivity|]. rewrite !sel_cons. intros H.
  destruct x; cbn [g_bad o2l app] in H; try discriminate;
    cbn [filter is_sdfish g_sdf o2l app]; rewrite IH by exact H; reflexivity.
Qed.

(* ------------------------------------------------------------------ decoding the PDI *)
Lemma dec_pdi_part1 c : forall d,
  all_lt 256 (sel g_srcif c) = true ->
  forallb (fun ta => (fst ta <? 4294967296) && is_ip4 (snd ta)) (sel g_fteid c) = true ->
  forallb is_ip4 (sel g_ueip c) = true ->
  ofold dec_pdi_step (flat_map pdi_out1 c) d =
  Some {| i_srcif := lastor (i_srcif d) (sel g_srcif c); i_ueaddr := lastor (i_ueaddr d) (sel g_ueip c);
          i_fteid := lastor (i_fteid d) (sel g_fteid c); i_sdfs := i_sdfs d |}.
Proof.
  induction c as [|x c IH]; intros d H1 H2 H3.
  - destruct d; reflexivity.
  - cbn [flat_map]. rewrite ofold_app. rewrite !sel_cons in *.
    destruct x; cbn [pdi_out1 g_srcif g_fteid g_ueip o2l app] in *;
      try (rewrite ofold_nil; cbn [bind]; apply IH; assumption).
    + (* ISrcIf *) unfold all_lt in H1. cbn [forallb] in H1. apply andb_prop in H1. destruct H1 as [Hv H1]. apply N.ltb_lt in Hv.
      rewrite ofold_single. rd_all. rewrite IH by assumption. reflexivity.
    + (* IFteid *) cbn [forallb fst snd] in H2. rewrite !andb_true_iff in H2. destruct H2 as [[Ht Hip] H2]. apply N.ltb_lt in Ht.
      rewrite ofold_single. cbn -[firstn]. unfold dec_fteid. rd_all. rewrite IH by assumption. reflexivity.
    + (* IUeIp *) cbn [forallb] in H3. apply andb_prop in H3. destruct H3 as [Hip H3].
      rewrite ofold_single. rd_all. rewrite IH by assumption. reflexivity.
Qed.

Lemma dec_pdi_part2 s sdfs : forall d,
  forallb wf_sdf sdfs = true ->
  ofold dec_pdi_step (flat_map (sdf_out s) sdfs) d =
  Some {| i_srcif := i_srcif d; i_ueaddr := i_ueaddr d; i_fteid := i_fteid d;
          i_sdfs := i_sdfs d ++ flat_map (fun x => o2l (spec_sdf (s =? SrcInterfaceAccess) x)) sdfs |}.
Proof.
  induction sdfs as [|x sdfs IH]; intros d H.
  - cbn. rewrite app_nil_r. destruct d; reflexivity.
  - cbn [forallb] in H. apply andb_prop in H. destruct H as [Hx H].
    cbn [flat_map]. rewrite ofold_app.
    destruct (dec_sdf_new x s Hx) as (v & Ev & Dv). unfold sdf_out at 1. rewrite Ev.
    rewrite ofold_single. cbn [dec_pdi_step]. cbn [N.eqb Pos.eqb nl_PDI_SDF_FILTER nl_PDI_UE_ADDR_IPV4 nl_PDI_F_TEID rd_nest].
    cbn [bind] in Dv. cbn [bind]. rewrite Dv.
    destruct (spec_sdf (s =? SrcInterfaceAccess) x) as [sd|] eqn:Es.
    + cbn [bind]. rewrite IH by exact H. cbn [i_srcif i_ueaddr i_fteid i_sdfs o2l]. rewrite <- app_assoc. reflexivity.
    + exfalso. destruct x; cbn [wf_sdf] in Hx; try discriminate. unfold spec_sdf in Es.
      rewrite !andb_true_iff in Hx. destruct Hx as [_ Hfd].
      destruct has_fd; [destruct fd; [discriminate Es|discriminate Hfd]|discriminate Es].
Qed.

Lemma wf_pdi_inv c : wf_pdi c = true ->
  eq1 (sel g_srcif c) = true /\ le1 (sel g_fteid c) = true /\ le1 (sel g_ueip c) = true /\
  all_lt 256 (sel g_srcif c) = true /\
  forallb (fun ta => (fst ta <? 4294967296) && is_ip4 (snd ta)) (sel g_fteid c) = true /\
  forallb is_ip4 (sel g_ueip c) = true /\ forallb wf_sdf (sel g_sdf c) = true /\ sel g_bad c = [].
Proof.
  unfold wf_pdi. intros H. rewrite !andb_true_iff in H.
  destruct H as [[[[[[[H1 H2] H3] H4] H5] H6] H7] H8].
  destruct (sel g_bad c); [|discriminate]. tauto.
Qed.

Lemma pdi_out1_nonempty c : sel g_srcif c <> [] -> flat_map pdi_out1 c <> [].
Proof.
  induction c as [|x c IH]; [intros H _; apply H; reflexivity|].
  rewrite sel_cons. cbn [flat_map].
  destruct x; cbn [g_srcif o2l app pdi_out1]; try exact IH; discriminate.
Qed.

Lemma dec_pdi_new c : wf_pdi c = true ->
  new_pdi c <> [] /\ dec_pdi (new_pdi c) = Some (spec_pdi c).
Proof.
  intros W. apply wf_pdi_inv in W. destruct W as (S1 & F1 & U1 & S2 & F2 & U2 & SD & NB).
  rewrite new_pdi_eq, (nobad_sdfish c NB). split.
  - intros C. apply app_eq_nil in C. destruct C as [C _]. revert C. apply pdi_out1_nonempty.
    destruct (sel g_srcif c); [discriminate S1|discriminate].
  - unfold dec_pdi. rewrite ofold_app, dec_pdi_part1 by assumption. cbn [bind].
    rewrite dec_pdi_part2 by exact SD. cbn [pdi0 i_srcif i_ueaddr i_fteid i_sdfs app].
    unfold spec_pdi, the, uplink, the.
    rewrite (lastor_le1 _ (eq1_le1 _ S1)), (lastor_le1 _ F1), (lastor_le1 _ U1).
    destruct (sel g_srcif c) as [|v [|w l]]; try discriminate S1. reflexivity.
Qed.

(* ------------------------------------------------------------------ CreatePDR / UpdatePDR *)
Definition pdr_out (i : ie) : list attr :=
  match i with
  | IPrecedence v => [A nl_PDR_PRECEDENCE (V32 v)]
  | IPdi c => match new_pdi c with [] => [] | v => [A nl_PDR_PDI (VNest v)] end
  | IOhr v => [A nl_PDR_OUTER_HEADER_REMOVAL (V8 v)]
  | IFarId v => [A nl_PDR_FAR_ID (V32 v)]
  | IQerId v => [A nl_PDR_QER_ID (V32 v)]
  | IUrrId v => [A nl_PDR_URR_ID (V32 v)]
  | _ => []
  end.

Lemma pdr_fold ies : forall id attrs,
  fold_left pdr_clause ies (id, attrs) = (lastn id (sel g_pdrid ies), (attrs ++ flat_map pdr_out ies)%list).
Proof.
  induction ies as [|x ies IH]; intros id attrs.
  - cbn. rewrite app_nil_r. reflexivity.
  - cbn [fold_left]. rewrite sel_cons.
    destruct x; cbn [pdr_clause]; try (rewrite IH; cbn [g_pdrid o2l app flat_map pdr_out lastn fold_left];
      rewrite <- ?app_assoc; reflexivity).
    cbn [g_pdrid o2l app flat_map pdr_out].
    destruct (new_pdi c); rewrite IH; cbn [app]; rewrite <- ?app_assoc; reflexivity.
Qed.

Lemma dec_pdr_part ies : forall d,
  all_lt 4294967296 (sel g_prec ies) = true -> all_lt 256 (sel g_ohr ies) = true ->
  all_lt 4294967296 (sel g_farid ies) = true -> all_lt 4294967296 (sel g_qerid ies) = true ->
  all_lt 4294967296 (sel g_urrid ies) = true -> forallb wf_pdi (sel g_pdi ies) = true ->
  ofold dec_pdr_step (flat_map pdr_out ies) d =
  Some {| p_link := p_link d; p_id := p_id d; p_seid := p_seid d;
          p_prec := lastor (p_prec d) (sel g_prec ies);
          p_pdi := lastor (p_pdi d) (map spec_pdi (sel g_pdi ies));
          p_ohr := lastor (p_ohr d) (sel g_ohr ies);
          p_farid := lastor (p_farid d) (sel g_farid ies);
          p_qerids := p_qerids d ++ sel g_qerid ies;
          p_urrids := p_urrids d ++ sel g_urrid ies;
          p_sock := p_sock d |}.
Proof.
  unfold all_lt.
  induction ies as [|x ies IH]; intros d H1 H2 H3 H4 H5 H6.
  - cbn. rewrite !app_nil_r. destruct d; reflexivity.
  - cbn [flat_map]. rewrite ofold_app. rewrite !sel_cons in *.
    destruct x; cbn [pdr_out g_prec g_ohr g_farid g_qerid g_urrid g_pdi o2l app map] in *;
      try (rewrite ofold_nil; cbn [bind]; apply IH; assumption).
    + (* IPrecedence *) cbn [forallb] in H1. apply andb_prop in H1. destruct H1 as [Hv H1]. apply N.ltb_lt in Hv.
      rewrite ofold_single. rd_all. rewrite IH by assumption. reflexivity.
    + (* IPdi *) cbn [forallb] in H6. apply andb_prop in H6. destruct H6 as [Hc H6].
      destruct (dec_pdi_new c Hc) as [Hne Hd]. destruct (new_pdi c) as [|a0 l0] eqn:En; [congruence|].
      rewrite ofold_single. cbn [dec_pdr_step]. cbn [N.eqb Pos.eqb nl_PDR_PDI nl_LINK nl_PDR_ID nl_PDR_SEID nl_PDR_PRECEDENCE rd_nest].
      cbn [bind]. rewrite Hd. cbn [bind]. rewrite IH by assumption. reflexivity.
    + (* IOhr *) cbn [forallb] in H2. apply andb_prop in H2. destruct H2 as [Hv H2]. apply N.ltb_lt in Hv.
      rewrite ofold_single. rd_all. rewrite IH by assumption. reflexivity.
    + (* IFarId *) cbn [forallb] in H3. apply andb_prop in H3. destruct H3 as [Hv H3]. apply N.ltb_lt in Hv.
      rewrite ofold_single. rd_all. rewrite IH by assumption. reflexivity.
    + (* IQerId *) cbn [forallb] in H4. apply andb_prop in H4. destruct H4 as [Hv H4]. apply N.ltb_lt in Hv.
      rewrite ofold_single. rd_all. rewrite IH by assumption. cbn [p_qerids]. rewrite <- app_assoc. reflexivity.
    + (* IUrrId *) cbn [forallb] in H5. apply andb_prop in H5. destruct H5 as [Hv H5]. apply N.ltb_lt in Hv.
      rewrite ofold_single. rd_all. rewrite IH by assumption. cbn [p_urrids]. rewrite <- app_assoc. reflexivity.
Qed.

Lemma wf_pdr_inv ies : wf_pdr ies = true ->
  eq1 (sel g_pdrid ies) = true /\ le1 (sel g_prec ies) = true /\ le1 (sel g_pdi ies) = true /\
  le1 (sel g_ohr ies) = true /\ le1 (sel g_farid ies) = true /\
  all_lt 65536 (sel g_pdrid ies) = true /\ all_lt 4294967296 (sel g_prec ies) = true /\
  all_lt 256 (sel g_ohr ies) = true /\ all_lt 4294967296 (sel g_farid ies) = true /\
  all_lt 4294967296 (sel g_qerid ies) = true /\ all_lt 4294967296 (sel g_urrid ies) = true /\
  forallb wf_pdi (sel g_pdi ies) = true /\ sel g_bad ies = [].
Proof.
  unfold wf_pdr. intros H. rewrite !andb_true_iff in H.
  destruct H as [[[[[[[[[[[[H1 H2] H3] H4] H5] H6] H7] H8] H9] H10] H11] H12] H13].
  destruct (sel g_bad ies); [|discriminate]. tauto.
Qed.

Lemma lastor_map_le1 {X Y} (f : X -> Y) (l : list X) :
  le1 l = true -> lastor None (map f l) = option_map f (hd_error l).
Proof. destruct l as [|x [|y l]]; cbn; try reflexivity. discriminate. Qed.

(* decoding the attribute list of a PDR request; tail = [] (update) or the socket path (create) *)
Lemma dec_pdr_request link seid ies (create : bool) :
  link < 4294967296 -> seid < 18446744073709551616 -> wf_pdr ies = true ->
  ref_decode_pdr (pdr_envelope link seid (lastn 0 (sel g_pdrid ies))
       (flat_map pdr_out ies ++ (if create then [A nl_PDR_UNIX_SOCKET_PATH (VStr nl_PdrAddrForNetlink)] else [])))
  = Some (spec_pdr create link seid ies).
Proof.
  intros Hl Hs W. apply wf_pdr_inv in W.
  destruct W as (I1 & P1 & D1 & O1 & F1 & I2 & P2 & O2 & F2 & Q2 & U2 & DW & NB).
  assert (Hid : exists v, sel g_pdrid ies = [v] /\ v < 65536).
  { destruct (sel g_pdrid ies) as [|v [|w l]]; try discriminate I1. exists v. split; [reflexivity|].
    unfold all_lt in I2. cbn [forallb] in I2. apply andb_prop in I2. destruct I2 as [I2 _]. apply N.ltb_lt. exact I2. }
  destruct Hid as (v & Ev & Hv).
  unfold ref_decode_pdr, pdr_envelope. rewrite Ev. cbn [lastn fold_left].
  rd_all. rewrite ofold_fold, ofold_app.
  rewrite dec_pdr_part by assumption. cbn [bind p_link p_id p_seid p_prec p_pdi p_ohr p_farid p_qerids p_urrids p_sock app].
  unfold spec_pdr, the. rewrite Ev.
  rewrite (lastor_le1 _ P1), (lastor_le1 _ O1), (lastor_le1 _ F1), (lastor_map_le1 spec_pdi _ D1).
  destruct create.
  - rewrite ofold_single. replace nl_PdrAddrForNetlink with [47] by reflexivity. rd_all. reflexivity.
  - reflexivity.
Qed.

Theorem create_pdr_roundtrip link seid ies :
  link < 4294967296 -> seid < 18446744073709551616 -> wf_pdr ies = true ->
  exists id attrs,
    create_pdr link seid ies = Ok (nl_CMD_ADD_PDR, create_flags, (seid, id), attrs) /\
    ref_decode_pdr_req nl_CMD_ADD_PDR create_flags attrs = Some (true, spec_pdr true link seid ies).
Proof.
  intros Hl Hs W. unfold create_pdr. rewrite pdr_fold. cbn [app].
  eexists. eexists. split; [reflexivity|].
  unfold ref_decode_pdr_req. rewrite N.eqb_refl. replace (op_of_flags create_flags) with (Some true) by reflexivity.
  cbn [bind]. rewrite (dec_pdr_request link seid ies true Hl Hs W). reflexivity.
Qed.

Theorem update_pdr_roundtrip link seid ies :
  link < 4294967296 -> seid < 18446744073709551616 -> wf_pdr ies = true ->
  exists id attrs,
    update_pdr link seid ies = Ok (nl_CMD_ADD_PDR, update_flags, (seid, id), attrs) /\
    ref_decode_pdr_req nl_CMD_ADD_PDR update_flags attrs = Some (false, spec_pdr false link seid ies).
Proof.
  intros Hl Hs W. unfold update_pdr. rewrite pdr_fold. cbn [app].
  eexists. eexists. split; [reflexivity|].
  unfold ref_decode_pdr_req. rewrite N.eqb_refl. replace (op_of_flags update_flags) with (Some false) by reflexivity.
  cbn [bind]. pose proof (dec_pdr_request link seid ies false Hl Hs W) as D. cbn [app] in D. rewrite app_nil_r in D.
  rewrite D. reflexivity.
Qed.

(* ------------------------------------------------------------------ newForwardingParameter *)
Definition fp_out (x : ie) : list attr :=
  match x with
  | IOhc desc has_teid has_v4 teid v4 port =>
      [A nl_FORWARDING_PARAMETER_OUTER_HEADER_CREATION (VNest (
        [A nl_OUTER_HEADER_CREATION_DESCRIPTION (V16 desc)]
        ++ (if has_teid then [A nl_OUTER_HEADER_CREATION_O_TEID (V32 teid); A nl_OUTER_HEADER_CREATION_PORT (V16 UpfGtpDefaultPort)]
            else [A nl_OUTER_HEADER_CREATION_PORT (V16 port)])
        ++ (if has_v4 then [A nl_OUTER_HEADER_CREATION_PEER_ADDR_IPV4 (VBytes v4)] else [])))]
  | IFwdPolicy id => [A nl_FORWARDING_PARAMETER_FORWARDING_POLICY (VStr id)]
  | ISmReqFlags v => [A nl_FORWARDING_PARAMETER_PFCPSM_REQ_FLAGS (V8 v)]
  | _ => []
  end.

Lemma fwd_fold c : forall attrs, fold_left fwd_param_clause c attrs = (attrs ++ flat_map fp_out c)%list.
Proof.
  induction c as [|x c IH]; intros attrs; cbn [fold_left flat_map].
  - rewrite app_nil_r. reflexivity.
  - rewrite IH. destruct x; cbn [fwd_param_clause fp_out app]; rewrite <- ?app_assoc, ?app_nil_r; reflexivity.
Qed.

Lemma new_fwd_param_eq c : new_fwd_param c = flat_map fp_out c.
Proof. unfold new_fwd_param. rewrite fwd_fold. reflexivity. Qed.

Lemma fp_out_empty c : flat_map fp_out c = [] -> sel g_ohc c = [] /\ sel g_fpol c = [] /\ sel g_smreq c = [].
Proof.
  induction c as [|x c IH]; [auto|]. cbn [flat_map]. rewrite !sel_cons. intros H.
  apply app_eq_nil in H. destruct H as [Hx H]. specialize (IH H).
  destruct x; cbn [fp_out] in Hx; try discriminate; cbn [g_ohc g_fpol g_smreq o2l app]; exact IH.
Qed.

Lemma fp_out_nonempty c : flat_map fp_out c <> [] ->
  ~ (sel g_ohc c = [] /\ sel g_fpol c = [] /\ sel g_smreq c = []).
Proof.
  induction c as [|x c IH]; [intros H; exfalso; apply H; reflexivity|].
  cbn [flat_map]. rewrite !sel_cons. intros H [H1 [H2 H3]].
  destruct x; cbn [fp_out g_ohc g_fpol g_smreq o2l app] in *; try discriminate; apply IH; auto.
Qed.

Lemma dec_ohc_new x : wf_ohc x = true ->
  exists l, fp_out x = [A nl_FORWARDING_PARAMETER_OUTER_HEADER_CREATION (VNest l)] /\ bind (Some l) dec_ohc = spec_ohc x.
Proof.
  destruct x; cbn [wf_ohc]; try discriminate. intros W. rewrite !andb_true_iff in W.
  destruct W as [[[[Hd Ht] Hp] H4] Hpt]. apply N.ltb_lt in Hd, Ht, Hp.
  eexists. split; [reflexivity|]. cbn [bind]. unfold dec_ohc, spec_ohc.
  destruct has_teid, has_v4; cbn [app]; rd_all; reflexivity.
Qed.

Lemma dec_fp_part c : forall d,
  forallb wf_ohc (sel g_ohc c) = true ->
  forallb (fun s => forallb (fun x => (0 <? x) && (x <? 256)) s) (sel g_fpol c) = true ->
  all_lt 256 (sel g_smreq c) = true ->
  ofold dec_fp_step (flat_map fp_out c) d =
  Some {| fp_ohc := lastor (fp_ohc d) (flat_map (fun x => o2l (spec_ohc x)) (sel g_ohc c));
          fp_policy := lastor (fp_policy d) (sel g_fpol c);
          fp_smreq := lastor (fp_smreq d) (sel g_smreq c) |}.
Proof.
  unfold all_lt.
  induction c as [|x c IH]; intros d H1 H2 H3.
  - destruct d; reflexivity.
  - cbn [flat_map]. rewrite ofold_app. rewrite !sel_cons in *.
    destruct x; try (cbn [fp_out g_ohc g_fpol g_smreq o2l app] in *; rewrite ofold_nil; cbn [bind]; apply IH; assumption).
    + (* IOhc *) cbn [g_ohc g_fpol g_smreq o2l app] in *. cbn [forallb] in H1. apply andb_prop in H1. destruct H1 as [Hx H1].
      destruct (dec_ohc_new _ Hx) as (l & El & Dl). rewrite El. rewrite ofold_single.
      cbn [dec_fp_step]. cbn [N.eqb Pos.eqb nl_FORWARDING_PARAMETER_OUTER_HEADER_CREATION rd_nest]. cbn [bind] in *. rewrite Dl.
      cbn [spec_ohc flat_map o2l app bind]. rewrite IH by assumption. reflexivity.
    + (* IFwdPolicy *) cbn [fp_out g_ohc g_fpol g_smreq o2l app] in *. cbn [forallb] in H2. apply andb_prop in H2. destruct H2 as [Hx H2].
      rewrite ofold_single. rd_all. rewrite IH by assumption. reflexivity.
    + (* ISmReqFlags *) cbn [fp_out g_ohc g_fpol g_smreq o2l app] in *. cbn [forallb] in H3. apply andb_prop in H3. destruct H3 as [Hx H3].
      apply N.ltb_lt in Hx. rewrite ofold_single. rd_all. rewrite IH by assumption. reflexivity.
Qed.

Lemma wf_fp_inv c : wf_fp c = true ->
  le1 (sel g_ohc c) = true /\ le1 (sel g_fpol c) = true /\ le1 (sel g_smreq c) = true /\
  forallb wf_ohc (sel g_ohc c) = true /\
  forallb (fun s => forallb (fun x => (0 <? x) && (x <? 256)) s) (sel g_fpol c) = true /\
  all_lt 256 (sel g_smreq c) = true /\ sel g_bad c = [].
Proof.
  unfold wf_fp. intros H. rewrite !andb_true_iff in H.
  destruct H as [[[[[[H1 H2] H3] H4] H5] H6] H7]. destruct (sel g_bad c); [|discriminate]. tauto.
Qed.

(* what a forwarding-parameters IE contributes to the FAR request, and what it decodes to *)
Lemma dec_fp_new c : wf_fp c = true ->
  match new_fwd_param c with
  | [] => spec_fp c = None
  | v => bind (Some v) dec_fp = spec_fp c /\ spec_fp c <> None
  end.
Proof.
  intros W. apply wf_fp_inv in W. destruct W as (O1 & P1 & S1 & O2 & P2 & S2 & NB).
  rewrite new_fwd_param_eq.
  destruct (flat_map fp_out c) as [|a l] eqn:E.
  - apply fp_out_empty in E. destruct E as (E1 & E2 & E3). unfold spec_fp, the. rewrite E1, E2, E3. reflexivity.
  - assert (NE : flat_map fp_out c <> []) by (rewrite E; discriminate).
    apply fp_out_nonempty in NE. rewrite <- E. cbn [bind]. unfold dec_fp.
    rewrite dec_fp_part by assumption. cbn [fp0 fp_ohc fp_policy fp_smreq].
    rewrite (lastor_le1 _ P1), (lastor_le1 _ S1).
    unfold spec_fp, the.
    destruct (sel g_ohc c) as [|o [|o' lo]]; try discriminate O1;
      destruct (sel g_fpol c) as [|p lp]; destruct (sel g_smreq c) as [|s ls];
      cbn [flat_map o2l app hd_error lastor fold_left bind]; try (split; [reflexivity|discriminate]).
    + exfalso. apply NE. auto.
    + cbn [forallb] in O2. apply andb_prop in O2. destruct O2 as [Ho _].
      destruct o; try discriminate Ho. cbn [spec_ohc o2l app fold_left]. split; [reflexivity|discriminate].
    + cbn [forallb] in O2. apply andb_prop in O2. destruct O2 as [Ho _].
      destruct o; try discriminate Ho. cbn [spec_ohc o2l app fold_left]. split; [reflexivity|discriminate].
    + cbn [forallb] in O2. apply andb_prop in O2. destruct O2 as [Ho _].
      destruct o; try discriminate Ho. cbn [spec_ohc o2l app fold_left]. split; [reflexivity|discriminate].
    + cbn [forallb] in O2. apply andb_prop in O2. destruct O2 as [Ho _].
      destruct o; try discriminate Ho. cbn [spec_ohc o2l app fold_left]. split; [reflexivity|discriminate].
Qed.

(* ------------------------------------------------------------------ CreateFAR / UpdateFAR *)
Lemma aa_unmarshal_spec b : (1 <= length b)%nat -> (length b <= 2)%nat -> all_lt 256 b = true ->
  aa_unmarshal b = Some (spec_action b) /\ spec_action b < 65536.
Proof.
  intros L1 L2 Hb. destruct b as [|b0 [|b1 [|b2 b]]]; cbn [length] in *; try lia.
  - unfold all_lt in Hb. cbn [forallb] in Hb. rewrite andb_true_r in Hb. apply N.ltb_lt in Hb.
    split; [|cbn [spec_action]; lia].
    replace (aa_unmarshal [b0]) with (Some (le_val [b0; 0])) by reflexivity. cbn [le_val spec_action]. f_equal. lia.
  - unfold all_lt in Hb. cbn [forallb] in Hb. rewrite andb_true_r in Hb. apply andb_prop in Hb. destruct Hb as [H0 H1].
    apply N.ltb_lt in H0, H1.
    split; [|cbn [spec_action]; lia].
    replace (aa_unmarshal [b0; b1]) with (Some (le_val [b0; b1])) by reflexivity. cbn [le_val spec_action]. f_equal. lia.
Qed.

Definition far_out (upd : bool) (i : ie) : list attr :=
  let fp c := match new_fwd_param c with [] => [] | v => [A nl_FAR_FORWARDING_PARAMETER (VNest v)] end in
  match i with
  | IApplyAction b => match aa_unmarshal b with Some fl => [A nl_FAR_APPLY_ACTION (V16 fl)] | None => [] end
  | IFwdParams c => if upd then [] else fp c
  | IUpdFwdParams c => if upd then fp c else []
  | IBarId v => [A nl_FAR_BAR_ID (V8 v)]
  | _ => []
  end.

Lemma far_fold upd ies : forall id attrs,
  forallb (fun b => match aa_unmarshal b with Some _ => true | None => false end) (sel g_aa ies) = true ->
  sel g_bad ies = [] ->
  fold_left (far_clause upd) ies (Ok (id, attrs)) =
  Ok (lastn id (sel g_farid ies), (attrs ++ flat_map (far_out upd) ies)%list).
Proof.
  induction ies as [|x ies IH]; intros id attrs HA HB.
  - cbn. rewrite app_nil_r. reflexivity.
  - cbn [fold_left]. rewrite !sel_cons in *.
    destruct x; cbn [g_bad g_aa g_farid o2l app] in *; try discriminate HB;
      try (cbn [far_clause]; rewrite IH by assumption; cbn [flat_map far_out app lastn fold_left];
           rewrite <- ?app_assoc, ?app_nil_r; reflexivity).
    + (* IApplyAction *) cbn [forallb] in HA. apply andb_prop in HA. destruct HA as [Hb HA].
      cbn [far_clause flat_map far_out]. destruct (aa_unmarshal b); [|discriminate Hb].
      rewrite IH by assumption. rewrite <- app_assoc. reflexivity.
    + (* IFwdParams *) cbn [far_clause flat_map far_out]. destruct upd.
      * rewrite IH by assumption. reflexivity.
      * destruct (new_fwd_param c); rewrite IH by assumption; cbn [app]; rewrite <- ?app_assoc; reflexivity.
    + (* IUpdFwdParams *) cbn [far_clause flat_map far_out]. destruct upd.
      * destruct (new_fwd_param c); rewrite IH by assumption; cbn [app]; rewrite <- ?app_assoc; reflexivity.
      * rewrite IH by assumption. reflexivity.
Qed.

Lemma dec_far_part upd ies : forall d,
  forallb (fun b => (Nat.leb 1 (length b)) && (Nat.leb (length b) 2) && all_lt 256 b) (sel g_aa ies) = true ->
  all_lt 256 (sel g_barid ies) = true -> forallb wf_fp (sel (g_fp upd) ies) = true ->
  ofold dec_far_step (flat_map (far_out upd) ies) d =
  Some {| r_link := r_link d; r_id := r_id d; r_seid := r_seid d;
          r_action := lastor (r_action d) (map spec_action (sel g_aa ies));
          r_param := lastor (r_param d) (flat_map (fun c => o2l (spec_fp c)) (sel (g_fp upd) ies));
          r_barid := lastor (r_barid d) (sel g_barid ies) |}.
Proof.
  unfold all_lt at 2.
  induction ies as [|x ies IH]; intros d H1 H2 H3.
  - destruct d; reflexivity.
  - cbn [flat_map]. rewrite ofold_app. rewrite !sel_cons in *.
    assert (FP : forall c, wf_fp c = true ->
       bind (ofold dec_far_step (match new_fwd_param c with [] => [] | v => [A nl_FAR_FORWARDING_PARAMETER (VNest v)] end) d)
            (ofold dec_far_step (flat_map (far_out upd) ies)) =
       ofold dec_far_step (flat_map (far_out upd) ies)
         {| r_link := r_link d; r_id := r_id d; r_seid := r_seid d; r_action := r_action d;
            r_param := lastor (r_param d) (o2l (spec_fp c)); r_barid := r_barid d |}).
    { intros c Hc. pose proof (dec_fp_new c Hc) as D. destruct (new_fwd_param c) as [|a0 l0].
      - rewrite D. rewrite ofold_nil. cbn [bind o2l lastor fold_left]. destruct d; reflexivity.
      - destruct D as [D NE]. rewrite ofold_single. cbn [dec_far_step].
        cbn [N.eqb Pos.eqb nl_FAR_FORWARDING_PARAMETER nl_LINK nl_FAR_ID nl_FAR_SEID nl_FAR_APPLY_ACTION rd_nest].
        cbn [bind] in *. rewrite D. destruct (spec_fp c) as [sp|]; [|congruence]. reflexivity. }
    destruct x; cbn [far_out g_aa g_barid g_fp o2l app map flat_map] in *;
      try (rewrite ofold_nil; cbn [bind]; apply IH; assumption).
    + (* IApplyAction *) cbn [forallb] in H1. rewrite !andb_true_iff in H1. destruct H1 as [[[La Lb] Hb] H1].
      apply Nat.leb_le in La, Lb. destruct (aa_unmarshal_spec b La Lb Hb) as [Ea Ha]. rewrite Ea.
      rewrite ofold_single. rd_all. rewrite IH by assumption. reflexivity.
    + (* IFwdParams *) destruct upd; cbn [o2l app flat_map] in *.
      * rewrite ofold_nil. cbn [bind]. apply IH; assumption.
      * cbn [forallb] in H3. apply andb_prop in H3. destruct H3 as [Hc H3].
        rewrite (FP c Hc). rewrite IH by assumption. cbn [r_link r_id r_seid r_action r_param r_barid].
        rewrite <- lastor_app. reflexivity.
    + (* IUpdFwdParams *) destruct upd; cbn [o2l app flat_map] in *.
      * cbn [forallb] in H3. apply andb_prop in H3. destruct H3 as [Hc H3].
        rewrite (FP c Hc). rewrite IH by assumption. cbn [r_link r_id r_seid r_action r_param r_barid].
        rewrite <- lastor_app. reflexivity.
      * rewrite ofold_nil. cbn [bind]. apply IH; assumption.
    + (* IBarId *) cbn [forallb] in H2. apply andb_prop in H2. destruct H2 as [Hv H2]. apply N.ltb_lt in Hv.
      rewrite ofold_single. rd_all. rewrite IH by assumption. reflexivity.
Qed.

Lemma wf_far_inv upd ies : wf_far upd ies = true ->
  eq1 (sel g_farid ies) = true /\ le1 (sel g_aa ies) = true /\ le1 (sel (g_fp upd) ies) = true /\
  le1 (sel g_barid ies) = true /\ all_lt 4294967296 (sel g_farid ies) = true /\ all_lt 256 (sel g_barid ies) = true /\
  forallb (fun b => (Nat.leb 1 (length b)) && (Nat.leb (length b) 2) && all_lt 256 b) (sel g_aa ies) = true /\
  forallb wf_fp (sel (g_fp upd) ies) = true /\ sel g_bad ies = [].
Proof.
  unfold wf_far. intros H. rewrite !andb_true_iff in H.
  destruct H as [[[[[[[[H1 H2] H3] H4] H5] H6] H7] H8] H9]. destruct (sel g_bad ies); [|discriminate]. tauto.
Qed.

Lemma far_aa_ok l :
  forallb (fun b => (Nat.leb 1 (length b)) && (Nat.leb (length b) 2) && all_lt 256 b) l = true ->
  forallb (fun b => match aa_unmarshal b with Some _ => true | None => false end) l = true.
Proof.
  induction l as [|b l IH]; [reflexivity|]. cbn [forallb]. intros H. apply andb_prop in H. destruct H as [Hb H].
  rewrite !andb_true_iff in Hb. destruct Hb as [[La Lb] Hb]. apply Nat.leb_le in La, Lb.
  destruct (aa_unmarshal_spec b La Lb Hb) as [E _]. rewrite E. cbn [andb]. apply IH. exact H.
Qed.

Lemma dec_far_request upd link seid ies :
  link < 4294967296 -> seid < 18446744073709551616 -> wf_far upd ies = true ->
  ref_decode_far (far_envelope link seid (lastn 0 (sel g_farid ies)) (flat_map (far_out upd) ies))
  = Some (spec_far upd link seid ies).
Proof.
  intros Hl Hs W. apply wf_far_inv in W. destruct W as (I1 & A1 & P1 & B1 & I2 & B2 & A2 & P2 & NB).
  assert (Hid : exists v, sel g_farid ies = [v] /\ v < 4294967296).
  { destruct (sel g_farid ies) as [|v [|w l]]; try discriminate I1. exists v. split; [reflexivity|].
    unfold all_lt in I2. cbn [forallb] in I2. apply andb_prop in I2. destruct I2 as [I2 _]. apply N.ltb_lt. exact I2. }
  destruct Hid as (v & Ev & Hv).
  unfold ref_decode_far, far_envelope. rewrite Ev. cbn [lastn fold_left].
  rd_all. rewrite ofold_fold.
  rewrite dec_far_part by assumption. cbn [r_link r_id r_seid r_action r_param r_barid].
  unfold spec_far, the. rewrite Ev.
  rewrite (lastor_map_le1 spec_action _ A1), (lastor_le1 _ B1).
  destruct (sel (g_fp upd) ies) as [|c [|c' l]]; try discriminate P1; cbn [flat_map o2l app hd_error bind].
  - reflexivity.
  - destruct (spec_fp c); reflexivity.
Qed.

Theorem create_far_roundtrip link seid ies :
  link < 4294967296 -> seid < 18446744073709551616 -> wf_far false ies = true ->
  exists id attrs,
    create_far link seid ies = Ok (nl_CMD_ADD_FAR, create_flags, (seid, id), attrs) /\
    ref_decode_far_req nl_CMD_ADD_FAR create_flags attrs = Some (true, spec_far false link seid ies).
Proof.
  intros Hl Hs W. pose proof (wf_far_inv _ _ W) as (I1 & A1 & P1 & B1 & I2 & B2 & A2 & P2 & NB).
  unfold create_far. rewrite far_fold by (auto using far_aa_ok). cbn [app].
  eexists. eexists. split; [reflexivity|].
  unfold ref_decode_far_req. rewrite N.eqb_refl. replace (op_of_flags create_flags) with (Some true) by reflexivity.
  cbn [bind]. rewrite (dec_far_request false link seid ies Hl Hs W). reflexivity.
Qed.

Theorem update_far_roundtrip link seid ies :
  link < 4294967296 -> seid < 18446744073709551616 -> wf_far true ies = true ->
  exists id attrs,
    update_far link seid ies = Ok (nl_CMD_ADD_FAR, update_flags, (seid, id), attrs) /\
    ref_decode_far_req nl_CMD_ADD_FAR update_flags attrs = Some (false, spec_far true link seid ies).
Proof.
  intros Hl Hs W. pose proof (wf_far_inv _ _ W) as (I1 & A1 & P1 & B1 & I2 & B2 & A2 & P2 & NB).
  unfold update_far. rewrite far_fold by (auto using far_aa_ok). cbn [app].
  eexists. eexists. split; [reflexivity|].
  unfold ref_decode_far_req. rewrite N.eqb_refl. replace (op_of_flags update_flags) with (Some false) by reflexivity.
  cbn [bind]. rewrite (dec_far_request true link seid ies Hl Hs W). reflexivity.
Qed.

(* ------------------------------------------------------------------ order-freeness *)
Lemma isnil_perm {X} (l l' : list X) : Permutation l l' ->
  match l with [] => true | _ => false end = match l' with [] => true | _ => false end.
Proof.
  intros P. destruct l as [|x l].
  - apply Permutation_nil in P. subst. reflexivity.
  - destruct l' as [|y l']; [|reflexivity]. apply Permutation_sym, Permutation_nil in P. discriminate.
Qed.

Ltac perm_rw P :=
  repeat match goal with
  | |- context [eq1 (sel ?f ?l)] => rewrite (eq1_perm _ _ (sel_perm f _ _ P))
  | |- context [le1 (sel ?f ?l)] => rewrite (le1_perm _ _ (sel_perm f _ _ P))
  end.

Lemma wf_pdi_perm c c' : Permutation c c' -> wf_pdi c = wf_pdi c'.
Proof.
  intros P. unfold wf_pdi, all_lt.
  rewrite (eq1_perm _ _ (sel_perm g_srcif _ _ P)), (le1_perm _ _ (sel_perm g_fteid _ _ P)),
    (le1_perm _ _ (sel_perm g_ueip _ _ P)), (forallb_perm _ _ _ (sel_perm g_srcif _ _ P)),
    (forallb_perm _ _ _ (sel_perm g_fteid _ _ P)), (forallb_perm _ _ _ (sel_perm g_ueip _ _ P)),
    (forallb_perm _ _ _ (sel_perm g_sdf _ _ P)), (isnil_perm _ _ (sel_perm g_bad _ _ P)).
  reflexivity.
Qed.

Lemma wf_pdr_perm l l' : Permutation l l' -> wf_pdr l = wf_pdr l'.
Proof.
  intros P. unfold wf_pdr, all_lt.
  rewrite (eq1_perm _ _ (sel_perm g_pdrid _ _ P)), (le1_perm _ _ (sel_perm g_prec _ _ P)),
    (le1_perm _ _ (sel_perm g_pdi _ _ P)), (le1_perm _ _ (sel_perm g_ohr _ _ P)), (le1_perm _ _ (sel_perm g_farid _ _ P)),
    (forallb_perm _ _ _ (sel_perm g_pdrid _ _ P)), (forallb_perm _ _ _ (sel_perm g_prec _ _ P)),
    (forallb_perm _ _ _ (sel_perm g_ohr _ _ P)), (forallb_perm _ _ _ (sel_perm g_farid _ _ P)),
    (forallb_perm _ _ _ (sel_perm g_qerid _ _ P)), (forallb_perm _ _ _ (sel_perm g_urrid _ _ P)),
    (forallb_perm _ _ _ (sel_perm g_pdi _ _ P)), (isnil_perm _ _ (sel_perm g_bad _ _ P)).
  reflexivity.
Qed.

Lemma wf_fp_perm c c' : Permutation c c' -> wf_fp c = wf_fp c'.
Proof.
  intros P. unfold wf_fp, all_lt.
  rewrite (le1_perm _ _ (sel_perm g_ohc _ _ P)), (le1_perm _ _ (sel_perm g_fpol _ _ P)), (le1_perm _ _ (sel_perm g_smreq _ _ P)),
    (forallb_perm _ _ _ (sel_perm g_ohc _ _ P)), (forallb_perm _ _ _ (sel_perm g_fpol _ _ P)),
    (forallb_perm _ _ _ (sel_perm g_smreq _ _ P)), (isnil_perm _ _ (sel_perm g_bad _ _ P)).
  reflexivity.
Qed.

Lemma wf_far_perm upd l l' : Permutation l l' -> wf_far upd l = wf_far upd l'.
Proof.
  intros P. unfold wf_far, all_lt.
  rewrite (eq1_perm _ _ (sel_perm g_farid _ _ P)), (le1_perm _ _ (sel_perm g_aa _ _ P)),
    (le1_perm _ _ (sel_perm (g_fp upd) _ _ P)), (le1_perm _ _ (sel_perm g_barid _ _ P)),
    (forallb_perm _ _ _ (sel_perm g_farid _ _ P)), (forallb_perm _ _ _ (sel_perm g_barid _ _ P)),
    (forallb_perm _ _ _ (sel_perm g_aa _ _ P)), (forallb_perm _ _ _ (sel_perm (g_fp upd) _ _ P)),
    (isnil_perm _ _ (sel_perm g_bad _ _ P)).
  reflexivity.
Qed.

(* equality up to the order of the multi-valued fields *)
Definition dpdi_equiv (a b : dpdi) : Prop :=
  i_srcif a = i_srcif b /\ i_ueaddr a = i_ueaddr b /\ i_fteid a = i_fteid b /\ Permutation (i_sdfs a) (i_sdfs b).
Definition opt_rel {X} (R : X -> X -> Prop) (a b : option X) : Prop :=
  match a, b with Some x, Some y => R x y | None, None => True | _, _ => False end.
Definition dpdr_equiv (a b : dpdr) : Prop :=
  p_link a = p_link b /\ p_id a = p_id b /\ p_seid a = p_seid b /\ p_prec a = p_prec b /\
  opt_rel dpdi_equiv (p_pdi a) (p_pdi b) /\ p_ohr a = p_ohr b /\ p_farid a = p_farid b /\
  Permutation (p_qerids a) (p_qerids b) /\ Permutation (p_urrids a) (p_urrids b) /\ p_sock a = p_sock b.

Lemma dpdi_equiv_refl a : dpdi_equiv a a.
Proof. unfold dpdi_equiv. auto using Permutation_refl. Qed.

Lemma spec_pdi_perm c c' : Permutation c c' -> wf_pdi c = true -> dpdi_equiv (spec_pdi c) (spec_pdi c').
Proof.
  intros P W. apply wf_pdi_inv in W. destruct W as (S1 & F1 & U1 & _).
  unfold dpdi_equiv, spec_pdi, uplink. cbn [i_srcif i_ueaddr i_fteid i_sdfs].
  rewrite <- (the_perm g_srcif c c' P (eq1_le1 _ S1)), <- (the_perm g_fteid c c' P F1), <- (the_perm g_ueip c c' P U1).
  repeat split; try reflexivity. apply Permutation_flat_map. apply sel_perm. exact P.
Qed.

Theorem spec_pdr_perm create link seid ies ies' :
  Permutation ies ies' -> wf_pdr ies = true ->
  wf_pdr ies' = true /\ dpdr_equiv (spec_pdr create link seid ies) (spec_pdr create link seid ies').
Proof.
  intros P W. split; [rewrite <- (wf_pdr_perm _ _ P); exact W|].
  apply wf_pdr_inv in W. destruct W as (I1 & P1 & D1 & O1 & F1 & _).
  unfold dpdr_equiv, spec_pdr. cbn [p_link p_id p_seid p_prec p_pdi p_ohr p_farid p_qerids p_urrids p_sock].
  rewrite <- (the_perm g_pdrid _ _ P (eq1_le1 _ I1)), <- (the_perm g_prec _ _ P P1), <- (the_perm g_pdi _ _ P D1),
    <- (the_perm g_ohr _ _ P O1), <- (the_perm g_farid _ _ P F1).
  repeat split; try reflexivity; try (apply sel_perm; exact P).
  destruct (the g_pdi ies); cbn [option_map opt_rel]; [apply dpdi_equiv_refl|exact I].
Qed.

(* second nesting level: the children of the PDI in any order *)
Theorem spec_pdr_inner_perm create link seid l1 l2 c c' :
  Permutation c c' -> wf_pdr (l1 ++ IPdi c :: l2) = true ->
  wf_pdr (l1 ++ IPdi c' :: l2) = true /\
  dpdr_equiv (spec_pdr create link seid (l1 ++ IPdi c :: l2)) (spec_pdr create link seid (l1 ++ IPdi c' :: l2)).
Proof.
  intros P W.
  assert (S : forall X (f : ie -> option X), (forall k, f (IPdi k) = None) ->
              sel f (l1 ++ IPdi c :: l2) = sel f (l1 ++ IPdi c' :: l2)).
  { intros X f Hf. rewrite !sel_app, !sel_cons, !Hf. reflexivity. }
  assert (SP : forall k, sel g_pdi (l1 ++ IPdi k :: l2) = (sel g_pdi l1 ++ k :: sel g_pdi l2)%list).
  { intros k. rewrite sel_app, sel_cons. reflexivity. }
  pose proof (wf_pdr_inv _ W) as (I1 & P1 & D1 & O1 & F1 & I2 & P2 & O2 & F2 & Q2 & U2 & DW & NB).
  rewrite SP in D1, DW.
  assert (Wc : wf_pdi c = true).
  { rewrite forallb_app in DW. apply andb_prop in DW. destruct DW as [_ DW]. cbn [forallb] in DW.
    apply andb_prop in DW. tauto. }
  split.
  - unfold wf_pdr in *. rewrite <- !(S _ g_pdrid), <- !(S _ g_prec), <- !(S _ g_ohr), <- !(S _ g_farid), <- !(S _ g_qerid),
      <- !(S _ g_urrid), <- !(S _ g_bad) by reflexivity.
    rewrite SP in *. unfold le1 in *. rewrite app_length in *. cbn [length] in *.
    rewrite forallb_app in *. cbn [forallb] in *. rewrite <- (wf_pdi_perm _ _ P). exact W.
  - unfold dpdr_equiv, spec_pdr, the. cbn [p_link p_id p_seid p_prec p_pdi p_ohr p_farid p_qerids p_urrids p_sock].
    rewrite <- !(S _ g_pdrid), <- !(S _ g_prec), <- !(S _ g_ohr), <- !(S _ g_farid), <- !(S _ g_qerid), <- !(S _ g_urrid) by reflexivity.
    rewrite !SP.
    repeat split; try reflexivity.
    destruct (sel g_pdi l1) as [|k lk]; cbn [app hd_error option_map opt_rel].
    + apply spec_pdi_perm; assumption.
    + apply dpdi_equiv_refl.
Qed.

Lemma spec_fp_perm c c' : Permutation c c' -> wf_fp c = true -> spec_fp c = spec_fp c'.
Proof.
  intros P W. apply wf_fp_inv in W. destruct W as (O1 & P1 & S1 & _).
  unfold spec_fp. rewrite <- (the_perm g_ohc _ _ P O1), <- (the_perm g_fpol _ _ P P1), <- (the_perm g_smreq _ _ P S1).
  reflexivity.
Qed.

Theorem spec_far_perm upd link seid ies ies' :
  Permutation ies ies' -> wf_far upd ies = true ->
  wf_far upd ies' = true /\ spec_far upd link seid ies = spec_far upd link seid ies'.
Proof.
  intros P W. split; [rewrite <- (wf_far_perm _ _ _ P); exact W|].
  apply wf_far_inv in W. destruct W as (I1 & A1 & P1 & B1 & _).
  unfold spec_far.
  rewrite <- (the_perm g_farid _ _ P (eq1_le1 _ I1)), <- (the_perm g_aa _ _ P A1), <- (the_perm (g_fp upd) _ _ P P1),
    <- (the_perm g_barid _ _ P B1).
  reflexivity.
Qed.

Theorem spec_far_inner_perm upd link seid l1 l2 (mk : list ie -> ie) c c' :
  (mk = IFwdParams /\ upd = false) \/ (mk = IUpdFwdParams /\ upd = true) ->
  Permutation c c' -> wf_far upd (l1 ++ mk c :: l2) = true ->
  wf_far upd (l1 ++ mk c' :: l2) = true /\
  spec_far upd link seid (l1 ++ mk c :: l2) = spec_far upd link seid (l1 ++ mk c' :: l2).
Proof.
  intros Hmk P W.
  assert (G : forall k, g_fp upd (mk k) = Some k) by (destruct Hmk as [[-> ->]|[-> ->]]; reflexivity).
  assert (S : forall X (f : ie -> option X), (forall k, f (mk k) = None) ->
              sel f (l1 ++ mk c :: l2) = sel f (l1 ++ mk c' :: l2)).
  { intros X f Hf. rewrite !sel_app, !sel_cons, !Hf. reflexivity. }
  assert (SP : forall k, sel (g_fp upd) (l1 ++ mk k :: l2) = (sel (g_fp upd) l1 ++ k :: sel (g_fp upd) l2)%list).
  { intros k. rewrite sel_app, sel_cons, G. reflexivity. }
  assert (N1 : forall k, g_farid (mk k) = None) by (destruct Hmk as [[-> ->]|[-> ->]]; reflexivity).
  assert (N2 : forall k, g_aa (mk k) = None) by (destruct Hmk as [[-> ->]|[-> ->]]; reflexivity).
  assert (N3 : forall k, g_barid (mk k) = None) by (destruct Hmk as [[-> ->]|[-> ->]]; reflexivity).
  assert (N4 : forall k, g_bad (mk k) = None) by (destruct Hmk as [[-> ->]|[-> ->]]; reflexivity).
  pose proof (wf_far_inv _ _ W) as (I1 & A1 & P1 & B1 & I2 & B2 & A2 & P2 & NB).
  rewrite SP in P1, P2.
  assert (Wc : wf_fp c = true).
  { rewrite forallb_app in P2. apply andb_prop in P2. destruct P2 as [_ P2]. cbn [forallb] in P2.
    apply andb_prop in P2. tauto. }
  split.
  - unfold wf_far in *. rewrite <- !(S _ g_farid N1), <- !(S _ g_aa N2), <- !(S _ g_barid N3), <- !(S _ g_bad N4).
    rewrite SP in *. unfold le1 in *. rewrite app_length in *. cbn [length] in *.
    rewrite forallb_app in *. cbn [forallb] in *. rewrite <- (wf_fp_perm _ _ P). exact W.
  - unfold spec_far, the. rewrite <- !(S _ g_farid N1), <- !(S _ g_aa N2), <- !(S _ g_barid N3). rewrite !SP.
    destruct (sel (g_fp upd) l1) as [|k lk]; cbn [app hd_error bind]; [|reflexivity].
    rewrite (spec_fp_perm _ _ P Wc). reflexivity.
Qed.

(* ------------------------------------------------------------------ decoded view of a model result *)
Definition decoded_pdr (r : result request) : option dpdr :=
  match r with
  | Ok (cmd, fl, _, attrs) => option_map snd (ref_decode_pdr_req cmd fl attrs)
  | Err => None
  end.
Definition decoded_far (r : result request) : option dfar :=
  match r with
  | Ok (cmd, fl, _, attrs) => option_map snd (ref_decode_far_req cmd fl attrs)
  | Err => None
  end.

Lemma decoded_create_pdr link seid ies : link < 4294967296 -> seid < 18446744073709551616 -> wf_pdr ies = true ->
  decoded_pdr (create_pdr link seid ies) = Some (spec_pdr true link seid ies).
Proof.
  intros Hl Hs W. destruct (create_pdr_roundtrip link seid ies Hl Hs W) as (id & attrs & E & D).
  rewrite E. cbn [decoded_pdr]. rewrite D. reflexivity.
Qed.
Lemma decoded_update_pdr link seid ies : link < 4294967296 -> seid < 18446744073709551616 -> wf_pdr ies = true ->
  decoded_pdr (update_pdr link seid ies) = Some (spec_pdr false link seid ies).
Proof.
  intros Hl Hs W. destruct (update_pdr_roundtrip link seid ies Hl Hs W) as (id & attrs & E & D).
  rewrite E. cbn [decoded_pdr]. rewrite D. reflexivity.
Qed.
Lemma decoded_create_far link seid ies : link < 4294967296 -> seid < 18446744073709551616 -> wf_far false ies = true ->
  decoded_far (create_far link seid ies) = Some (spec_far false link seid ies).
Proof.
  intros Hl Hs W. destruct (create_far_roundtrip link seid ies Hl Hs W) as (id & attrs & E & D).
  rewrite E. cbn [decoded_far]. rewrite D. reflexivity.
Qed.
Lemma decoded_update_far link seid ies : link < 4294967296 -> seid < 18446744073709551616 -> wf_far true ies = true ->
  decoded_far (update_far link seid ies) = Some (spec_far true link seid ies).
Proof.
  intros Hl Hs W. destruct (update_far_roundtrip link seid ies Hl Hs W) as (id & attrs & E & D).
  rewrite E. cbn [decoded_far]. rewrite D. reflexivity.
Qed.

Definition pdr_op (create : bool) := if create then create_pdr else update_pdr.
Definition far_op (upd : bool) := if upd then update_far else create_far.

Lemma decoded_pdr_op create link seid ies : link < 4294967296 -> seid < 18446744073709551616 -> wf_pdr ies = true ->
  decoded_pdr (pdr_op create link seid ies) = Some (spec_pdr create link seid ies).
Proof. destruct create; [apply decoded_create_pdr|apply decoded_update_pdr]. Qed.
Lemma decoded_far_op upd link seid ies : link < 4294967296 -> seid < 18446744073709551616 -> wf_far upd ies = true ->
  decoded_far (far_op upd link seid ies) = Some (spec_far upd link seid ies).
Proof. destruct upd; [apply decoded_update_far|apply decoded_create_far]. Qed.

(* what reaches the data plane does not depend on the order of the child IEs *)
Theorem pdr_order_free create link seid ies ies' :
  link < 4294967296 -> seid < 18446744073709551616 -> wf_pdr ies = true -> Permutation ies ies' ->
  exists d d', decoded_pdr (pdr_op create link seid ies) = Some d /\
               decoded_pdr (pdr_op create link seid ies') = Some d' /\ dpdr_equiv d d'.
Proof.
  intros Hl Hs W P. destruct (spec_pdr_perm create link seid _ _ P W) as [W' E].
  exists (spec_pdr create link seid ies), (spec_pdr create link seid ies').
  rewrite !decoded_pdr_op by assumption. auto.
Qed.

Theorem pdr_pdi_order_free create link seid l1 l2 c c' :
  link < 4294967296 -> seid < 18446744073709551616 -> wf_pdr (l1 ++ IPdi c :: l2) = true -> Permutation c c' ->
  exists d d', decoded_pdr (pdr_op create link seid (l1 ++ IPdi c :: l2)) = Some d /\
               decoded_pdr (pdr_op create link seid (l1 ++ IPdi c' :: l2)) = Some d' /\ dpdr_equiv d d'.
Proof.
  intros Hl Hs W P. destruct (spec_pdr_inner_perm create link seid _ _ _ _ P W) as [W' E].
  eexists. eexists. rewrite !decoded_pdr_op by assumption. auto.
Qed.

Theorem far_order_free upd link seid ies ies' :
  link < 4294967296 -> seid < 18446744073709551616 -> wf_far upd ies = true -> Permutation ies ies' ->
  exists d, decoded_far (far_op upd link seid ies) = Some d /\ decoded_far (far_op upd link seid ies') = Some d.
Proof.
  intros Hl Hs W P. destruct (spec_far_perm upd link seid _ _ P W) as [W' E].
  exists (spec_far upd link seid ies). rewrite !decoded_far_op by assumption. rewrite E. auto.
Qed.

Theorem far_fp_order_free upd link seid l1 l2 (mk : list ie -> ie) c c' :
  (mk = IFwdParams /\ upd = false) \/ (mk = IUpdFwdParams /\ upd = true) ->
  link < 4294967296 -> seid < 18446744073709551616 -> wf_far upd (l1 ++ mk c :: l2) = true -> Permutation c c' ->
  exists d, decoded_far (far_op upd link seid (l1 ++ mk c :: l2)) = Some d /\
            decoded_far (far_op upd link seid (l1 ++ mk c' :: l2)) = Some d.
Proof.
  intros Hmk Hl Hs W P. destruct (spec_far_inner_perm upd link seid _ _ mk _ _ Hmk P W) as [W' E].
  eexists. rewrite !decoded_far_op by assumption. rewrite E. auto.
Qed.

(* ------------------------------------------------------------------ swap iff uplink, wherever Source Interface stands *)
Theorem sdf_swap_any_position c1 c2 v d :
  wf_pdi (c1 ++ ISrcIf v :: c2) = true ->
  dec_pdi (new_pdi (c1 ++ ISrcIf v :: c2)) = Some d ->
  i_srcif d = Some v /\
  i_sdfs d = flat_map (fun x => o2l (spec_sdf (v =? SrcInterfaceAccess) x)) (sel g_sdf (c1 ++ c2)).
Proof.
  intros W D. destruct (dec_pdi_new _ W) as [_ E]. rewrite E in D. injection D as <-.
  apply wf_pdi_inv in W. destruct W as (S1 & _).
  assert (Es : sel g_srcif (c1 ++ ISrcIf v :: c2) = [v]).
  { rewrite sel_app, sel_cons in *. cbn [g_srcif o2l app] in *.
    destruct (sel g_srcif c1) as [|a l1]; cbn [app] in *.
    - destruct (sel g_srcif c2); [reflexivity|discriminate S1].
    - unfold eq1 in S1. cbn [length] in S1. rewrite app_length in S1. cbn [length] in S1.
      apply Nat.eqb_eq in S1. lia. }
  unfold spec_pdi, uplink, the. rewrite Es. cbn [hd_error i_srcif i_sdfs]. split; [reflexivity|].
  rewrite !sel_app, sel_cons. reflexivity.
Qed.

(* what "swapped" means on the decoded filter *)
Lemma spec_fd_swapped p :
  f_src_ip (spec_fd true p) = firstn 4 (pf_dst_ip p) /\ f_dst_ip (spec_fd true p) = firstn 4 (pf_src_ip p) /\
  f_src_mask (spec_fd true p) = firstn 4 (pf_dst_mask p) /\ f_dst_mask (spec_fd true p) = firstn 4 (pf_src_mask p) /\
  f_sports (spec_fd true p) = map port_range (pf_dports p) /\ f_dports (spec_fd true p) = map port_range (pf_sports p) /\
  f_src_ip (spec_fd false p) = firstn 4 (pf_src_ip p) /\ f_dst_ip (spec_fd false p) = firstn 4 (pf_dst_ip p) /\
  f_src_mask (spec_fd false p) = firstn 4 (pf_src_mask p) /\ f_dst_mask (spec_fd false p) = firstn 4 (pf_dst_mask p) /\
  f_sports (spec_fd false p) = map port_range (pf_sports p) /\ f_dports (spec_fd false p) = map port_range (pf_dports p).
Proof. repeat split. Qed.

(* ------------------------------------------------------------------ per-field exactness (no truncation, no re-attachment) *)
Lemma the_in {X} (f : ie -> option X) l x v : le1 (sel f l) = true -> In x l -> f x = Some v -> the f l = Some v.
Proof.
  intros L I E. apply in_split in I. destruct I as (l1 & l2 & ->).
  rewrite sel_app, sel_cons, E in L. unfold the. rewrite sel_app, sel_cons, E. cbn [o2l app] in *.
  destruct (sel f l1) as [|a l1']; [reflexivity|].
  unfold le1 in L. cbn [length app] in L. rewrite app_length in L. cbn [length] in L. apply Nat.leb_le in L. lia.
Qed.

Lemma sel_in {X} (f : ie -> option X) l x v : In x l -> f x = Some v -> In v (sel f l).
Proof.
  intros I E. unfold sel. apply in_flat_map. exists x. split; [exact I|]. rewrite E. left. reflexivity.
Qed.

Theorem pdr_fields_exact create link seid ies d :
  link < 4294967296 -> seid < 18446744073709551616 -> wf_pdr ies = true ->
  decoded_pdr (pdr_op create link seid ies) = Some d ->
  p_link d = Some link /\ p_seid d = Some seid /\
  (forall v, In (IPdrId v) ies -> p_id d = Some v) /\
  (forall v, In (IPrecedence v) ies -> p_prec d = Some v) /\
  (forall v, In (IOhr v) ies -> p_ohr d = Some v) /\
  (forall v, In (IFarId v) ies -> p_farid d = Some v) /\
  (forall v, In (IQerId v) ies -> In v (p_qerids d)) /\
  (forall v, In (IUrrId v) ies -> In v (p_urrids d)) /\
  length (p_qerids d) = length (sel g_qerid ies) /\ length (p_urrids d) = length (sel g_urrid ies) /\
  (forall c, In (IPdi c) ies -> exists pd, p_pdi d = Some pd /\
     (forall v, In (ISrcIf v) c -> i_srcif pd = Some v) /\
     (forall t a, In (IFteid t a) c -> i_fteid pd = Some (t, a)) /\
     (forall a, In (IUeIp a) c -> i_ueaddr pd = Some a) /\
     length (i_sdfs pd) = length (sel g_sdf c)).
Proof.
  intros Hl Hs W D. rewrite decoded_pdr_op in D by assumption. injection D as <-.
  pose proof (wf_pdr_inv _ W) as (I1 & P1 & D1 & O1 & F1 & I2 & P2 & O2 & F2 & Q2 & U2 & DW & NB).
  unfold spec_pdr. cbn [p_link p_id p_seid p_prec p_pdi p_ohr p_farid p_qerids p_urrids p_sock].
  repeat split; intros.
  - eapply the_in; [apply eq1_le1; exact I1|eassumption|reflexivity].
  - eapply the_in; [exact P1|eassumption|reflexivity].
  - eapply the_in; [exact O1|eassumption|reflexivity].
  - eapply the_in; [exact F1|eassumption|reflexivity].
  - eapply sel_in; [eassumption|reflexivity].
  - eapply sel_in; [eassumption|reflexivity].
  - assert (E : the g_pdi ies = Some c) by (eapply the_in; [exact D1|eassumption|reflexivity]).
    rewrite E. cbn [option_map]. eexists. split; [reflexivity|].
    assert (Wc : wf_pdi c = true).
    { rewrite forallb_forall in DW. apply DW. eapply sel_in; [eassumption|reflexivity]. }
    pose proof (wf_pdi_inv _ Wc) as (S1 & T1 & U1 & _ & _ & _ & SD & _).
    unfold spec_pdi. cbn [i_srcif i_ueaddr i_fteid i_sdfs]. repeat split; intros.
    + eapply the_in; [apply eq1_le1; exact S1|eassumption|reflexivity].
    + eapply the_in; [exact T1|eassumption|reflexivity].
    + eapply the_in; [exact U1|eassumption|reflexivity].
    + clear - SD. induction (sel g_sdf c) as [|x l IH]; [reflexivity|].
      cbn [forallb] in SD. apply andb_prop in SD. destruct SD as [Hx SD]. cbn [flat_map length].
      rewrite app_length, IH by exact SD.
      destruct x; cbn [wf_sdf] in Hx; try discriminate. unfold spec_sdf.
      rewrite !andb_true_iff in Hx. destruct Hx as [_ Hfd].
      destruct has_fd; [destruct fd; [reflexivity|discriminate Hfd]|reflexivity].
Qed.

Theorem far_fields_exact upd link seid ies d :
  link < 4294967296 -> seid < 18446744073709551616 -> wf_far upd ies = true ->
  decoded_far (far_op upd link seid ies) = Some d ->
  r_link d = Some link /\ r_seid d = Some seid /\
  (forall v, In (IFarId v) ies -> r_id d = Some v) /\
  (forall b0, In (IApplyAction [b0]) ies -> r_action d = Some b0) /\
  (forall b0 b1, In (IApplyAction [b0; b1]) ies -> r_action d = Some (b0 + 256 * b1)) /\
  (forall v, In (IBarId v) ies -> r_barid d = Some v) /\
  (forall x c, In x ies -> g_fp upd x = Some c ->
     (forall desc ht hv teid v4 port, In (IOhc desc ht hv teid v4 port) c ->
        exists p h, r_param d = Some p /\ fp_ohc p = Some h /\ h_desc h = Some desc /\
                    h_teid h = (if ht then Some teid else None) /\ h_peer h = (if hv then Some v4 else None) /\
                    h_port h = Some (if ht then 2152 else port)) /\
     (forall s, In (IFwdPolicy s) c -> exists p, r_param d = Some p /\ fp_policy p = Some s)).
Proof.
  intros Hl Hs W D. rewrite decoded_far_op in D by assumption. injection D as <-.
  pose proof (wf_far_inv _ _ W) as (I1 & A1 & P1 & B1 & I2 & B2 & A2 & P2 & NB).
  unfold spec_far. cbn [r_link r_id r_seid r_action r_param r_barid].
  repeat split; intros.
  - eapply the_in; [apply eq1_le1; exact I1|eassumption|reflexivity].
  - erewrite the_in; [|exact A1|eassumption|reflexivity]. reflexivity.
  - erewrite the_in; [|exact A1|eassumption|reflexivity]. reflexivity.
  - eapply the_in; [exact B1|eassumption|reflexivity].
  - erewrite (the_in (g_fp upd)); [|exact P1|eassumption|eassumption]. cbn [bind].
    assert (Wc : wf_fp c = true) by (rewrite forallb_forall in P2; apply P2; eapply sel_in; eassumption).
    pose proof (wf_fp_inv _ Wc) as (O1 & Q1 & S1 & _).
    unfold spec_fp. erewrite (the_in g_ohc); [|exact O1|eassumption|reflexivity].
    eexists. eexists. split; [reflexivity|]. cbn [fp_ohc bind spec_ohc]. split; [reflexivity|].
    cbn [h_desc h_teid h_peer h_port]. auto.
  - erewrite (the_in (g_fp upd)); [|exact P1|eassumption|eassumption]. cbn [bind].
    assert (Wc : wf_fp c = true) by (rewrite forallb_forall in P2; apply P2; eapply sel_in; eassumption).
    pose proof (wf_fp_inv _ Wc) as (O1 & Q1 & S1 & _).
    unfold spec_fp. erewrite (the_in g_fpol); [|exact Q1|eassumption|reflexivity].
    destruct (the g_ohc c); eexists; (split; [reflexivity|reflexivity]).
Qed.

(* ------------------------------------------------------------------ finding: policy identifier with a NUL octet *)
Definition nul_witness : list ie := [IFarId 1; IFwdParams [IFwdPolicy [97; 0; 98]]].

Theorem far_policy_nul_refuted :
  exists link seid ies,
    link < 4294967296 /\ seid < 18446744073709551616 /\ wf_far_full false ies = true /\
    decoded_far (create_far link seid ies) <> Some (spec_far false link seid ies).
Proof.
  exists 7, 1, nul_witness. repeat split; try reflexivity.
  vm_compute. discriminate.
Qed.

(* what the data plane is given instead: the identifier up to the NUL *)
Example nul_witness_decoded :
  option_map (fun d => option_map fp_policy (r_param d)) (decoded_far (create_far 7 1 nul_witness)) = Some (Some (Some [97])).
Proof. vm_compute. reflexivity. Qed.

Lemma wf_far_full_of_wf upd ies : wf_far upd ies = true -> wf_far_full upd ies = true.
Proof.
  unfold wf_far, wf_far_full. intros H. rewrite !andb_true_iff in *.
  destruct H as [[[[[[[[H1 H2] H3] H4] H5] H6] H7] H8] H9]. repeat split; auto.
  clear - H8. induction (sel (g_fp upd) ies) as [|c l IH]; [reflexivity|].
  cbn [forallb] in *. apply andb_prop in H8. destruct H8 as [Hc H8]. rewrite (IH H8), andb_true_r.
  unfold wf_fp in Hc. unfold wf_fp_full. rewrite !andb_true_iff in *.
  destruct Hc as [[[[[[A1 A2] A3] A4] A5] A6] A7]. repeat split; auto.
  clear - A5. induction (sel g_fpol c) as [|s l IH]; [reflexivity|].
  cbn [forallb] in *. apply andb_prop in A5. destruct A5 as [Hs A5]. rewrite (IH A5), andb_true_r.
  unfold all_lt. clear - Hs. induction s as [|x s IH]; [reflexivity|].
  cbn [forallb] in *. apply andb_prop in Hs. destruct Hs as [Hx Hs]. apply andb_prop in Hx. destruct Hx as [_ Hx].
  rewrite Hx, (IH Hs). reflexivity.
Qed.

(* ------------------------------------------------------------------ the boolean monitor accepts what the model emits *)
Lemma list_N_eqb_refl l : list_N_eqb l l = true.
Proof. induction l as [|x l IH]; cbn; [reflexivity|]. rewrite N.eqb_refl, IH. reflexivity. Qed.
Lemma list_eqb_refl {X} (e : X -> X -> bool) l : (forall x, e x x = true) -> list_eqb e l l = true.
Proof. intros He. induction l as [|x l IH]; cbn; [reflexivity|]. rewrite He, IH. reflexivity. Qed.
Lemma opt_eqb_refl {X} (e : X -> X -> bool) o : (forall x, e x x = true) -> opt_eqb e o o = true.
Proof. intros He. destruct o; cbn; auto. Qed.
Lemma pair_eqb_refl {X Y} (e1 : X -> X -> bool) (e2 : Y -> Y -> bool) p :
  (forall x, e1 x x = true) -> (forall y, e2 y y = true) -> pair_eqb e1 e2 p p = true.
Proof. intros H1 H2. unfold pair_eqb. rewrite H1, H2. reflexivity. Qed.

Lemma dfd_eqb_refl d : dfd_eqb d d = true.
Proof.
  unfold dfd_eqb. rewrite !N.eqb_refl, !list_N_eqb_refl.
  rewrite !list_eqb_refl by (intros; apply pair_eqb_refl; apply N.eqb_refl). reflexivity.
Qed.
Lemma dsdf_eqb_refl d : dsdf_eqb d d = true.
Proof.
  unfold dsdf_eqb. rewrite (opt_eqb_refl dfd_eqb _ dfd_eqb_refl), !(opt_eqb_refl N.eqb _ N.eqb_refl). reflexivity.
Qed.
Lemma dpdi_eqb_refl d : dpdi_eqb d d = true.
Proof.
  unfold dpdi_eqb. rewrite (opt_eqb_refl N.eqb _ N.eqb_refl), (opt_eqb_refl list_N_eqb _ list_N_eqb_refl).
  rewrite opt_eqb_refl by (intros; apply pair_eqb_refl; [apply N.eqb_refl|apply list_N_eqb_refl]).
  rewrite (list_eqb_refl dsdf_eqb _ dsdf_eqb_refl). reflexivity.
Qed.
Lemma dpdr_eqb_refl d : dpdr_eqb d d = true.
Proof.
  unfold dpdr_eqb. rewrite !(opt_eqb_refl N.eqb _ N.eqb_refl), (opt_eqb_refl dpdi_eqb _ dpdi_eqb_refl),
    !list_N_eqb_refl, (opt_eqb_refl list_N_eqb _ list_N_eqb_refl). reflexivity.
Qed.
Lemma dohc_eqb_refl d : dohc_eqb d d = true.
Proof. unfold dohc_eqb. rewrite !(opt_eqb_refl N.eqb _ N.eqb_refl), (opt_eqb_refl list_N_eqb _ list_N_eqb_refl). reflexivity. Qed.
Lemma dfp_eqb_refl d : dfp_eqb d d = true.
Proof.
  unfold dfp_eqb. rewrite (opt_eqb_refl dohc_eqb _ dohc_eqb_refl), (opt_eqb_refl list_N_eqb _ list_N_eqb_refl),
    (opt_eqb_refl N.eqb _ N.eqb_refl). reflexivity.
Qed.
Lemma dfar_eqb_refl d : dfar_eqb d d = true.
Proof. unfold dfar_eqb. rewrite !(opt_eqb_refl N.eqb _ N.eqb_refl), (opt_eqb_refl dfp_eqb _ dfp_eqb_refl). reflexivity. Qed.

Theorem monitor_accepts_pdr create link seid ies :
  link < 4294967296 -> seid < 18446744073709551616 -> wf_pdr ies = true ->
  match pdr_op create link seid ies with
  | Ok (cmd, fl, _, attrs) => pdr_req_ok create link seid ies cmd fl attrs = true
  | Err => False
  end.
Proof.
  intros Hl Hs W. unfold pdr_op. destruct create.
  - destruct (create_pdr_roundtrip link seid ies Hl Hs W) as (id & attrs & E & D). rewrite E.
    unfold pdr_req_ok. rewrite D. cbn [Bool.eqb]. apply dpdr_eqb_refl.
  - destruct (update_pdr_roundtrip link seid ies Hl Hs W) as (id & attrs & E & D). rewrite E.
    unfold pdr_req_ok. rewrite D. cbn [Bool.eqb]. apply dpdr_eqb_refl.
Qed.

Theorem monitor_accepts_far upd link seid ies :
  link < 4294967296 -> seid < 18446744073709551616 -> wf_far upd ies = true ->
  match far_op upd link seid ies with
  | Ok (cmd, fl, _, attrs) => far_req_ok upd link seid ies cmd fl attrs = true
  | Err => False
  end.
Proof.
  intros Hl Hs W. unfold far_op. destruct upd.
  - destruct (update_far_roundtrip link seid ies Hl Hs W) as (id & attrs & E & D). rewrite E.
    unfold far_req_ok. rewrite D. cbn [Bool.eqb negb]. apply dfar_eqb_refl.
  - destruct (create_far_roundtrip link seid ies Hl Hs W) as (id & attrs & E & D). rewrite E.
    unfold far_req_ok. rewrite D. cbn [Bool.eqb negb]. apply dfar_eqb_refl.
Qed.
