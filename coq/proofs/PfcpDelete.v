(* RemoteNode.DeleteSess / LocalNode.DeleteSess: preserves the world invariant, releases the slot,
   withdraws the session's rules, touches nothing else. *)
From Coq Require Import String List NArith ZArith Bool Lia.
From GoUpf Require Import Bytes FlagsGen ConstsGen HandlerGen Pfcp PfcpBase PfcpSess PfcpClose PfcpTable.
Import ListNotations.
Local Open Scope N_scope.

Lemma NoDup_snoc {A} (l : list A) a : NoDup l -> ~ In a l -> NoDup (l ++ [a]).
Proof.
  induction l as [|b l IH]; cbn; intros Hd Hn.
  - constructor; [intros []|constructor].
  - inversion Hd; subst. constructor.
    + rewrite in_app_iff. cbn. intros [Hx|[Hx|[]]]; [auto|]. subst. apply Hn. left. reflexivity.
    + apply IH; [assumption|]. intros Hx. apply Hn. right. assumption.
Qed.

Lemma close_category_some e name c : kind_of_close name <> None -> close_category e name c <> None.
Proof.
  unfold kind_of_close, close_category.
  repeat match goal with
  | |- context [if String.eqb name ?s then _ else _] => destruct (String.eqb name s); [discriminate|]
  end.
  intros H. exfalso. apply H. reflexivity.
Qed.

Lemma close_categories_some e names c :
  (forall n, In n names -> kind_of_close n <> None) -> close_categories e names c <> None.
Proof.
  revert c. induction names as [|n names IH]; intros c Hn; cbn [close_categories]; [discriminate|].
  destruct (close_category e n c) as [[c1 r1]|] eqn:E1.
  - destruct (close_categories e names c1) as [[c2 r2]|] eqn:E2; [discriminate|].
    exfalso. apply (IH c1); [|exact E2]. intros m Hm. apply Hn. right. exact Hm.
  - exfalso. apply (close_category_some e n c); [|exact E1]. apply Hn. left. reflexivity.
Qed.

Lemma close_order_valid : forall n, In n close_order -> kind_of_close n <> None.
Proof.
  assert (H : forallb (fun n => match kind_of_close n with Some _ => true | None => false end) close_order = true)
    by (vm_compute; reflexivity).
  rewrite forallb_forall in H. intros n Hn. specialize (H n Hn). destruct (kind_of_close n); [discriminate|discriminate].
Qed.

Lemma sess_close_some e c : exists c' rs, sess_close e c = Some (c', rs).
Proof.
  unfold sess_close. destruct (close_categories e close_order c) as [[c1 rs]|] eqn:E.
  - eexists. eexists. reflexivity.
  - exfalso. apply (close_categories_some e close_order c close_order_valid). exact E.
Qed.

Record delete_post (w : world) (ref : nat) (lid : N) (w' : world) (r : option (list out * sess * list rpt)) : Prop :=
  mkDeletePost {
  dl_inv : WInv w';
  dl_rnodes : w_rnodes w' = w_rnodes w;
  dl_rx : w_rx w' = w_rx w;
  dl_tx : w_tx w' = w_tx w;
  dl_txseq : w_txseq w' = w_txseq w;
  dl_maxr : w_maxretrans w' = w_maxretrans w;
  dl_hlen : length (w_heap w') = length (w_heap w);
  dl_heap_id : forall r0 m, nth_error (w_heap w') r0 = Some m ->
               exists m0, nth_error (w_heap w) r0 = Some m0 /\ n_id m = n_id m0 /\ n_addr m = n_addr m0;
  dl_nsess : forall n, nth_error (w_heap w) ref = Some n ->
             exists n', nth_error (w_heap w') ref = Some n' /\
                        forall x, In x (n_sess n') <-> In x (n_sess n) /\ x <> lid;
  dl_heap_other : forall r0, r0 <> ref -> nth_error (w_heap w') r0 = nth_error (w_heap w) r0;
  dl_others : forall lid' s', lid' <> lid -> (live w' lid' s' <-> live w lid' s');
  dl_dp_other : forall r0, fst (fst r0) <> lid -> (In r0 (w_dp w') <-> In r0 (w_dp w));
  dl_none : r = None -> w' = w;
  dl_some : forall o s1 rs, r = Some (o, s1, rs) ->
            (exists s0, live w lid s0 /\ s_node s0 = ref /\ s_rid s1 = s_rid s0 /\ s_lid s1 = lid) /\
            (forall s', ~ live w' lid s') /\ In lid (w_free w') /\
            (forall k id, ~ In (lid, k, id) (w_dp w')) /\ Forall (own_drv lid) o /\
            (forall n, nth_error (w_heap w') ref = Some n -> ~ In lid (n_sess n)) }.

Lemma delete_sess_spec e w ref lid :
  WInv w -> exists w' r, delete_sess e w ref lid = Ok (w', r) /\ delete_post w ref lid w' r /\
  (forall n, nth_error (w_heap w) ref = Some n -> In lid (n_sess n) -> r <> None).
Proof.
  intros HI. unfold delete_sess.
  destruct (nth_error (w_heap w) ref) as [n|] eqn:En.
  2:{ exists w, None. split; [reflexivity|]. split; [|intros n H; discriminate].
      constructor; auto; try tauto; try discriminate.
      - intros r0 m H. exists m. auto.
      - intros n H. congruence. }
  destruct (memN lid (n_sess n)) eqn:Em; cbn [negb].
  2:{ exists w, None. split; [reflexivity|]. split.
      - constructor; auto; try tauto; try discriminate.
        + intros r0 m H. exists m. auto.
        + intros n0 H. exists n0. split; [assumption|]. intros x. split; [|tauto]. intros Hx. split; [assumption|].
          intros ->. apply memN_false in Em. rewrite En in H. injection H as <-. contradiction.
      - intros n0 H Hin. inversion H; subst. apply memN_false in Em. contradiction. }
  apply memN_In in Em.
  destruct (wi_owner w HI _ _ _ En Em) as [s0 [HL0 Hnode0]].
  pose proof HL0 as [Hp Hnth].
  assert (Hlid0 : s_lid s0 = lid) by (eapply live_lid; eauto).
  assert (Hlt : (N.to_nat (lid - 1) < length (w_slots w))%nat) by (apply nth_error_Some; congruence).
  destruct (N.eqb_spec lid 0) as [->|Hnz]; [lia|].
  cbn [set_heap w_slots].
  destruct (N.ltb_spec (N.of_nat (length (w_slots w))) lid) as [Hbad|_]; [lia|].
  unfold slot_get. rewrite Hnth.
  cbn [set_heap w_dp].
  destruct (sess_close_some e (mkCtx s0 (w_dp w) [])) as [c [rs Hclose]]. rewrite Hclose.
  rewrite slot_set_in_range by assumption.
  pose proof (sess_close_good _ _ _ Hclose) as [[Fl Fr Fn Fo [o' [Eo Fo']]] HSOK]. cbn [fst c_s c_dp c_out] in *.
  pose proof (live_SOK _ _ _ HI HL0) as HS0.
  pose proof (close_withdraws _ _ _ _ Hclose HS0) as Hgone. cbn [c_s] in Hgone. rewrite Hlid0 in *. clear Hlid0.
  set (heap' := node_upd ref (fun n0 => mkNode (n_id n0) (n_addr n0) (delN lid (n_sess n0))) (w_heap w)).
  set (slots' := set_nth (N.to_nat (lid - 1)) None (w_slots w)).
  assert (Hlive : forall lid' s', lid' <> lid ->
            (1 <= lid' /\ nth_error slots' (N.to_nat (lid' - 1)) = Some (Some s')) <-> live w lid' s').
  { intros lid' s' Hne. unfold live, slots'. split; intros [H1 H2]; (split; [assumption|]).
    - rewrite nth_error_set_nth_other in H2 by lia. assumption.
    - rewrite nth_error_set_nth_other by lia. assumption. }
  assert (Hdead : forall s', ~ (1 <= lid /\ nth_error slots' (N.to_nat (lid - 1)) = Some (Some s'))).
  { intros s' [_ H]. unfold slots' in H. rewrite nth_error_set_nth_same in H by assumption. discriminate. }
  eexists. eexists. split; [reflexivity|]. split.
  2:{ intros; discriminate. }
  constructor; cbn [set_dp set_slots_free set_heap w_free w_slots w_dp w_heap w_rnodes w_rx w_tx w_txseq w_maxretrans];
    try reflexivity.
  - (* WInv *)
    constructor; cbn [set_dp set_slots_free set_heap w_free w_slots w_dp w_heap w_rnodes].
    + assert (Hnf : ~ In lid (w_free w)) by (intros Hf; apply (wi_free w HI) in Hf; destruct Hf as [_ Hf]; congruence).
      apply NoDup_snoc; [apply (wi_free_nodup w HI) | exact Hnf].
    + intros id. rewrite in_app_iff. fold slots'. unfold slots'. rewrite nth_set_nth.
      destruct (Nat.eqb_spec (N.to_nat (lid - 1)) (N.to_nat (id - 1))) as [E|E].
      * split.
        -- intros [Hf|[<-|[]]].
           ++ apply (wi_free w HI) in Hf. destruct Hf as [Hp' Hf]. assert (id = lid) by lia. subst. congruence.
           ++ split; [assumption|]. destruct (Nat.ltb_spec (N.to_nat (lid - 1)) (length (w_slots w))); [reflexivity|lia].
        -- intros [Hp' _]. right. left. lia.
      * rewrite (wi_free w HI id). split.
        -- intros [H|[<-|[]]]; [assumption|]. exfalso. apply E. reflexivity.
        -- intros H. left. assumption.
    + intros i s' H. fold slots' in H. unfold slots' in H. rewrite nth_set_nth in H.
      destruct (Nat.eqb_spec (N.to_nat (lid - 1)) i) as [E|E].
      * destruct (N.to_nat (lid - 1) <? length (w_slots w))%nat; discriminate.
      * apply (wi_lid w HI). assumption.
    + intros seid k id Hi. destruct (N.eq_dec seid lid) as [->|Hne].
      * exfalso. eapply Hgone; eauto.
      * apply Fo in Hi; [|cbn; assumption].
        destruct (wi_dp w HI _ _ _ Hi) as [s' [HL' Hin]]. exists s'. split; [|assumption]. apply Hlive; assumption.
    + intros lid' s' HL' u inf Hu Hrm Hi.
      destruct (N.eq_dec lid' lid) as [->|Hne]; [exfalso; eapply Hdead; eauto|].
      apply Hlive in HL'; [|assumption].
      assert (E : s_lid s' = lid') by (eapply live_lid; eauto).
      apply Fo in Hi; [|cbn; congruence]. eapply (wi_removed w HI); eauto.
    + intros lid' s' HL'.
      destruct (N.eq_dec lid' lid) as [->|Hne]; [exfalso; eapply Hdead; eauto|].
      apply Hlive in HL'; [|assumption].
      destruct (wi_node w HI _ _ HL') as [m [Hm Hin]]. fold heap'. unfold heap'. rewrite node_upd_nth, Hm.
      destruct (Nat.eqb ref (s_node s')); eexists; (split; [reflexivity|]); cbn [n_sess]; [apply delN_In; split|]; assumption.
    + intros r m lid' Hm Hin. fold heap' in Hm. unfold heap' in Hm. rewrite node_upd_nth in Hm.
      destruct (nth_error (w_heap w) r) as [m0|] eqn:Em0; [|discriminate].
      destruct (Nat.eqb_spec ref r) as [->|Hner].
      * injection Hm as <-. cbn [n_sess] in Hin. apply delN_In in Hin. destruct Hin as [Hne Hin].
        destruct (wi_owner w HI _ _ _ Em0 Hin) as [s' [HL' E]]. exists s'. split; [|assumption]. apply Hlive; assumption.
      * injection Hm as <-. destruct (wi_owner w HI _ _ _ Em0 Hin) as [s' [HL' E]].
        assert (lid' <> lid).
        { intros ->. rewrite (live_fun _ _ _ _ HL' HL0) in E. congruence. }
        exists s'. split; [|assumption]. apply Hlive; assumption.
    + intros id r Hin. fold heap'. unfold heap'. rewrite node_upd_length. apply (wi_rnodes w HI _ _ Hin).
  - apply node_upd_length.
  - intros r0 m H. fold heap' in H. unfold heap' in H. rewrite node_upd_nth in H.
    destruct (nth_error (w_heap w) r0) as [m0|]; [|discriminate]. exists m0. split; [reflexivity|].
    destruct (Nat.eqb ref r0); injection H as <-; auto.
  - intros n0 Hn0. rewrite En in Hn0. injection Hn0 as <-. fold heap'. unfold heap'. rewrite node_upd_nth, En, Nat.eqb_refl.
    eexists. split; [reflexivity|]. intros x. cbn [n_sess]. rewrite delN_In. tauto.
  - intros r0 Hr0. fold heap'. unfold heap'. rewrite node_upd_nth.
    destruct (nth_error (w_heap w) r0); [|reflexivity]. destruct (Nat.eqb_spec ref r0); [congruence|reflexivity].
  - intros lid' s' Hne. apply Hlive. assumption.
  - intros r0 Hr0. apply Fo. assumption.
  - discriminate.
  - intros o s1 rs0 H. injection H as <- <- <-. split; [|split; [|split; [|split; [|split]]]].
    + exists s0. repeat split; auto; congruence.
    + exact Hdead.
    + apply in_app_iff. right. left. reflexivity.
    + exact Hgone.
    + rewrite Eo. cbn. exact Fo'.
    + intros n0 Hn0. fold heap' in Hn0. unfold heap' in Hn0. rewrite node_upd_nth, En, Nat.eqb_refl in Hn0.
      injection Hn0 as <-. cbn [n_sess]. rewrite delN_In. intros [Hx _]. apply Hx. reflexivity.
Qed.
