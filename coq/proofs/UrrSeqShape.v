(* T-gen tie for C11: the code that reads and advances a URR's UR-SEQN counter (Sess.URRSeq) and every other write
   to a SEQN field still have the shape model/Pfcp.v was written for: emit hands out the stored counter and stores
   counter + 1 modulo 2^32 (uint32 increment); the only other write is the inheritance in CreateURR (create_urr). *)
From Coq Require Import List String.
From GoUpf Require Import UrrSeqGen.
Import ListNotations.
Local Open Scope string_scope.

Definition urrseq_model_shape : list string * string * list string :=
  (["v2, v3 := recv.URRIDs[v1]"; "if !v3 { return 0 }"; "v4 := v2.SEQN"; "v2.SEQN++"; "return v4"],   (* locals printed canonically *)
   "uint32",
   ["CreateURR: v.SEQN = v.SEQN"]).

Lemma urrseq_shape_ok : (urrseq_body, urr_seqn_type, urr_seqn_other_writes) = urrseq_model_shape.
Proof. reflexivity. Qed.
