From Coq Require Import String List Arith NArith Bool Lia Permutation.
From GoUpf Require Import ConstsGen ConcGen Conc.
Import ListNotations.

(* ---- obligations recomputed from the generated tables on every run ---- *)
Lemma confined_true : confined = true. Proof. vm_compute. reflexivity. Qed.
Lemma offloop_chanops_ok_true : offloop_chanops_ok = true. Proof. vm_compute. reflexivity. Qed.
Lemma closes_ok_true : closes_ok = true. Proof. vm_compute. reflexivity. Qed.
Lemma gos_ok_true : gos_ok = true. Proof. vm_compute. reflexivity. Qed.

Lemma thread_eqb_eq a b : thread_eqb a b = true <-> a = b.
Proof.
  destruct a, b; cbn; split; intros H; try congruence; try discriminate;
    try (apply Nat.eqb_eq in H; congruence); try (inversion H; apply Nat.eqb_refl).
Qed.

(* ownership => data-race freedom: if every access to a state cell is made by the event-loop thread, no two
   conflicting accesses to a state cell exist at all *)
Theorem ownership_drf (trace : list access) :
  (forall a, In a trace -> state_cell (a_cell a) = true -> a_thread a = TLoop) ->
  forall a b, In a trace -> In b trace -> state_cell (a_cell a) = true -> conflicting a b = false.
Proof.
  intros Hown a b Ha Hb Hs. unfold conflicting.
  destruct (String.eqb_spec (a_cell a) (a_cell b)) as [E|E]; [|reflexivity].
  assert (Ta : a_thread a = TLoop) by auto.
  assert (Tb : a_thread b = TLoop) by (apply Hown; [assumption | rewrite <- E; assumption]).
  rewrite Ta, Tb. reflexivity.
Qed.

(* every cell an off-loop entry point can reach is NOT a state cell (from the generated table) *)
Theorem offloop_never_touches_state entry fields f :
  In (entry, fields) offloop_access -> In f fields -> state_cell f = false.
Proof.
  intros He Hf. pose proof confined_true as H. unfold confined in H.
  rewrite forallb_forall in H. specialize (H _ He). cbn [snd] in H.
  rewrite forallb_forall in H. specialize (H _ Hf). unfold state_cell. rewrite H. reflexivity.
Qed.

(* ---- the channel model ---- *)
Local Open Scope N_scope.

Definition CInv (c : cstate) : Prop :=
  (rcv_closed c = true -> receiver_exited c = true) /\
  (main_exited c = true -> done_closed c = true) /\
  (rcv_closed c = true -> main_exited c = true) /\
  Permutation (processed c ++ q_sr c ++ q_to c ++ payloads (q_rcv c)) (accepted c) /\
  (receiver_exited c = false -> ~ In StopMarker (q_rcv c)) /\
  (main_exited c = false -> rcv_closed c = false).

Lemma CInv_init : CInv c_init.
Proof. unfold CInv, c_init; cbn. repeat split; try discriminate; auto. Qed.

Lemma payloads_app a b : payloads (a ++ b) = payloads a ++ payloads b.
Proof. unfold payloads. apply flat_map_app. Qed.

Lemma perm_ins {A} (X Y : list A) x acc :
  Permutation (X ++ Y) acc -> Permutation (X ++ x :: Y) (acc ++ [x]).
Proof.
  intros H. transitivity (x :: X ++ Y).
  - apply Permutation_sym. apply Permutation_middle.
  - transitivity (x :: acc); [constructor; exact H | apply Permutation_cons_append].
Qed.

Lemma perm_move {A} (X Y Z : list A) x acc :
  Permutation (X ++ Y ++ x :: Z) acc -> Permutation (X ++ x :: Y ++ Z) acc.
Proof.
  intros H. transitivity (X ++ Y ++ x :: Z); [|exact H].
  apply Permutation_app_head. apply Permutation_middle.
Qed.

Theorem cstep_inv c a c' : CInv c -> cstep c a = Next c' -> CInv c'.
Proof.
  intros [I1 [I2 [I3 [I4 [I5 I6]]]]] H. unfold cstep in H.
  destruct a.
  - (* AReport *)
    destruct (cap_ok (N.of_nat (length (q_sr c))) REPORT_CHANNEL_LEN); [|discriminate].
    inversion H; subst; clear H. unfold CInv; cbn [q_rcv q_sr q_to rcv_closed done_closed receiver_exited main_exited processed accepted]. repeat split; auto.
    replace (processed c ++ (q_sr c ++ [id]) ++ q_to c ++ payloads (q_rcv c))
      with ((processed c ++ q_sr c) ++ id :: (q_to c ++ payloads (q_rcv c)))
      by (rewrite <- !app_assoc; reflexivity).
    apply perm_ins. rewrite <- app_assoc. exact I4.
  - destruct (cap_ok (N.of_nat (length (q_to c))) TRANS_TIMEOUT_CHANNEL_LEN); [|discriminate].
    inversion H; subst; clear H. unfold CInv; cbn [q_rcv q_sr q_to rcv_closed done_closed receiver_exited main_exited processed accepted]. repeat split; auto.
    replace (processed c ++ q_sr c ++ (q_to c ++ [id]) ++ payloads (q_rcv c))
      with ((processed c ++ q_sr c ++ q_to c) ++ id :: payloads (q_rcv c))
      by (rewrite <- !app_assoc; reflexivity).
    apply perm_ins. rewrite <- !app_assoc. exact I4.
  - destruct (done_closed c) eqn:Ed; [|discriminate]. inversion H; subst. unfold CInv. repeat split; auto.
  - destruct (receiver_exited c) eqn:Er; [discriminate|].
    destruct (rcv_closed c) eqn:Ec; [discriminate|].
    destruct (cap_ok (N.of_nat (length (q_rcv c))) RECEIVE_CHANNEL_LEN); [|discriminate].
    inversion H; subst; clear H. unfold CInv; cbn [q_rcv q_sr q_to rcv_closed done_closed receiver_exited main_exited processed accepted]. rewrite ?Er, ?Ec. repeat split; auto; try discriminate.
    + rewrite payloads_app. cbn [payloads flat_map app].
      replace (processed c ++ q_sr c ++ q_to c ++ payloads (q_rcv c) ++ [id])
        with ((processed c ++ q_sr c ++ q_to c ++ payloads (q_rcv c)) ++ id :: [])
        by (rewrite <- !app_assoc; reflexivity).
      apply perm_ins. rewrite app_nil_r. exact I4.
    + intros _ Hin. apply in_app_iff in Hin. destruct Hin as [Hin|[Hin|[]]]; [|discriminate]. apply I5; auto.
  - destruct (receiver_exited c) eqn:Er; [discriminate|].
    destruct (rcv_closed c) eqn:Ec; [discriminate|].
    destruct (cap_ok (N.of_nat (length (q_rcv c))) RECEIVE_CHANNEL_LEN); [|discriminate].
    inversion H; subst; clear H. unfold CInv; cbn [q_rcv q_sr q_to rcv_closed done_closed receiver_exited main_exited processed accepted]. rewrite ?Ec. repeat split; auto; try discriminate.
    rewrite payloads_app. cbn [payloads flat_map app]. rewrite app_nil_r. exact I4.
  - destruct (main_exited c) eqn:Em; [discriminate|]. destruct (q_sr c) as [|id r] eqn:Eq; [discriminate|].
    inversion H; subst; clear H. unfold CInv; cbn [q_rcv q_sr q_to rcv_closed done_closed receiver_exited main_exited processed accepted]. rewrite ?Em. repeat split; auto; try discriminate.
    rewrite <- app_assoc. cbn [app]. exact I4.
  - destruct (main_exited c) eqn:Em; [discriminate|]. destruct (q_to c) as [|id r] eqn:Eq; [discriminate|].
    inversion H; subst; clear H. unfold CInv; cbn [q_rcv q_sr q_to rcv_closed done_closed receiver_exited main_exited processed accepted]. rewrite ?Em. repeat split; auto; try discriminate.
    rewrite <- app_assoc. cbn [app]. apply perm_move. cbn [app] in I4. exact I4.
  - destruct (main_exited c) eqn:Em; [discriminate|]. destruct (q_rcv c) as [|[id|] r] eqn:Eq; [discriminate| |].
    + inversion H; subst; clear H. unfold CInv; cbn [q_rcv q_sr q_to rcv_closed done_closed receiver_exited main_exited processed accepted]. rewrite ?Em. repeat split; auto; try discriminate.
      * rewrite <- app_assoc. cbn [app].
        replace (q_sr c ++ q_to c ++ payloads r) with ((q_sr c ++ q_to c) ++ payloads r) by (rewrite <- app_assoc; reflexivity).
        apply perm_move. rewrite <- app_assoc. cbn [payloads flat_map app] in I4. exact I4.
      * intros Hr Hin. apply I5; [assumption|]. right. assumption.
    + inversion H; subst; clear H. unfold CInv; cbn [q_rcv q_sr q_to rcv_closed done_closed receiver_exited main_exited processed accepted]. repeat split; auto; try discriminate.
      * intros _. destruct (receiver_exited c) eqn:Er; [reflexivity|]. exfalso. apply I5; [reflexivity|]. left. reflexivity.
      * intros Hr Hin. apply I5; [assumption|]. right. assumption.
Qed.

(* no execution of the model sends on a closed channel *)
Theorem cstep_no_send_on_closed c a : CInv c -> cstep c a <> SendOnClosed.
Proof.
  intros [I1 _]. unfold cstep. destruct a;
    repeat match goal with |- context [if ?b then _ else _] => destruct b eqn:? end;
    try discriminate;
    try (destruct (q_sr c); discriminate); try (destruct (q_to c); discriminate);
    try (destruct (q_rcv c) as [|[|] ?]; discriminate).
  - specialize (I1 eq_refl). discriminate.
  - specialize (I1 eq_refl). discriminate.
Qed.

Theorem crun_safe l : forall c, CInv c -> exists c', crun c l = Next c' /\ CInv c'.
Proof.
  induction l as [|a l IH]; intros c HI; cbn [crun]; [eauto|].
  destruct (cstep c a) as [c1| |] eqn:E.
  - apply IH. eapply cstep_inv; eauto.
  - apply IH. assumption.
  - exfalso. eapply cstep_no_send_on_closed; eauto.
Qed.

(* exactly once: what the loop has processed plus what is still queued is a permutation of what was handed over;
   in a quiescent state everything handed over has been processed exactly once *)
Theorem exactly_once l c :
  crun c_init l = Next c ->
  Permutation (processed c ++ q_sr c ++ q_to c ++ payloads (q_rcv c)) (accepted c).
Proof.
  intros H. destruct (crun_safe l c_init CInv_init) as [c' [E [_ [_ [_ [P _]]]]]]. congruence.
Qed.

Corollary quiescent_exactly_once l c :
  crun c_init l = Next c -> q_sr c = [] -> q_to c = [] -> payloads (q_rcv c) = [] ->
  Permutation (processed c) (accepted c).
Proof.
  intros H E1 E2 E3. pose proof (exactly_once l c H) as P. rewrite E1, E2, E3, !app_nil_r in P. exact P.
Qed.

(* after the loop has stopped, a producer can always return (the done branch of its select is enabled) *)
Theorem stopped_releases_producers l c :
  crun c_init l = Next c -> main_exited c = true -> cstep c AGiveUp = Next c.
Proof.
  intros H Hm. destruct (crun_safe l c_init CInv_init) as [c' [E [_ [I2 _]]]].
  assert (c' = c) by congruence. subst. unfold cstep. rewrite (I2 Hm). reflexivity.
Qed.
