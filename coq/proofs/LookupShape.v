(* T-gen tie for C04 / C05 / C09 (gen/LookupGen.v; local names printed canonically):
   - LocalNode.RemoteSess recognises the session a SEID-0 report response is about by the peer's SEID AND the complete
     address string of its association (host and port), as the model's remote lookup compares peers;
   - PfcpServer.sendReqTo: the transaction takes the counter, the counter advances mod 2^24, the transaction is
     registered, and only then is the request written (send_req in model/Pfcp.v): a failed write cannot leave the
     counter behind. *)
From Coq Require Import List String.
From GoUpf Require Import LookupGen.
Import ListNotations.
Local Open Scope string_scope.

Definition lookup_model_shape : list string * list string :=
  (["v3.RemoteID == v1 && v3.rnode.addr.String() == v2.String()"],
   ["if !isRequest(v1) { return errors.Errorf(""sendReqTo: invalid req type(%d)"", v1.MessageType()) }";
    "v3 := NewTxTransaction(recv, v2, recv.txSeq)";
    "recv.txSeq = (recv.txSeq + 1) & 0xffffff";
    "recv.txTrans[v3.id] = v3";
    "return v3.send(v1)"]).

Lemma lookup_shape_ok : (remote_sess_conds, sendreq_body) = lookup_model_shape.
Proof. reflexivity. Qed.
