(* Proofs for C03: decoder-of-encoder for Create/Update QER, URR, BAR; bit-rate split; order-freeness; periodic
   registration; refutation (registration after Update URR).  Statements re-exported by props/C03.v. *)
From Coq Require Import List NArith Bool Lia Permutation PeanoNat.
From Coq Require String.
From GoUpf Require Import Bytes Nlattr PfcpIe3 RulesGen ConstsGen FlagsGen RulesSpec RulesSpec3 RulesPdrFar RulesQerUrrBar
  RulesPdrFarProofs.
Import ListNotations.
Local Open Scope N_scope.

Module Shapes3.
Import String.
Local Open Scope string_scope.
Definition qer_shape : list (string * list string * list string * list string * list string * bool) :=
  [("QERID", [], [], ["break"], [], false);
   ("QERCorrelationID", ["QER_CORR_ID"], ["AttrU32(v)"], ["break"], [], false);
   ("GateStatus", ["QER_GATE"], ["AttrU8(v)"], ["break"], [], false);
   ("MBR", ["QER_MBR"; "QER_MBR_UL_HIGH32"; "QER_MBR_UL_LOW8"; "QER_MBR_DL_HIGH32"; "QER_MBR_DL_LOW8"],
    ["AttrU32(ul>>8)"; "AttrU8(ul)"; "AttrU32(dl>>8)"; "AttrU8(dl)"], ["break"; "break"], [], false);
   ("GBR", ["QER_GBR"; "QER_GBR_UL_HIGH32"; "QER_GBR_UL_LOW8"; "QER_GBR_DL_HIGH32"; "QER_GBR_DL_LOW8"],
    ["AttrU32(ul>>8)"; "AttrU8(ul)"; "AttrU32(dl>>8)"; "AttrU8(dl)"], ["break"; "break"], [], false);
   ("QFI", ["QER_QFI"], ["AttrU8(v)"], ["break"], [], false);
   ("RQI", ["QER_RQI"], ["AttrU8(v)"], ["break"], [], false);
   ("PagingPolicyIndicator", ["QER_PPI"], ["AttrU8(v)"], ["break"], [], false)].
Example shape_CreateQER_as_modelled : shape_CreateQER = qer_shape.
Proof. reflexivity. Qed.
Example shape_UpdateQER_as_modelled : shape_UpdateQER = qer_shape.
Proof. reflexivity. Qed.
Example shape_CreateURR_as_modelled : shape_CreateURR =
  [("URRID", [], [], ["return"], [], false);
   ("MeasurementMethod", ["URR_MEASUREMENT_METHOD"], ["AttrU8(measureMethod)"], ["return"], [], false);
   ("ReportingTriggers", ["URR_REPORTING_TRIGGER"], ["AttrU32(rptTrig.Flags)"], ["return"; "return"], [], false);
   ("MeasurementPeriod", ["URR_MEASUREMENT_PERIOD"], ["AttrU32(measurePeriod)"], ["return"], [], false);
   ("MeasurementInformation", ["URR_MEASUREMENT_INFO"], ["AttrU64(v)"], ["return"], [], false);
   ("VolumeThreshold", ["URR_VOLUME_THRESHOLD"], [], ["break"], ["newVolumeThreshold"], false);
   ("VolumeQuota", ["URR_VOLUME_QUOTA"], [], ["break"], ["newVolumeQuota"], false)].
Proof. reflexivity. Qed.
Example shape_UpdateURR_as_modelled : shape_UpdateURR =
  [("URRID", [], [], ["return"], [], false);
   ("MeasurementMethod", ["URR_MEASUREMENT_METHOD"], ["AttrU8(v)"], ["return"], [], false);
   ("ReportingTriggers", ["URR_REPORTING_TRIGGER"], ["AttrU32(rptTrig.Flags)"], ["return"; "return"], [], false);
   ("MeasurementPeriod", ["URR_MEASUREMENT_PERIOD"], ["AttrU32(v)"], ["return"], [], false);
   ("MeasurementInformation", ["URR_MEASUREMENT_INFO"], ["AttrU64(v)"], ["return"], [], false);
   ("VolumeThreshold", ["URR_VOLUME_THRESHOLD"], [], ["break"], ["newVolumeThreshold"], false);
   ("VolumeQuota", ["URR_VOLUME_QUOTA"], [], ["break"], ["newVolumeQuota"], false)].
Proof. reflexivity. Qed.
Definition bar_shape : list (string * list string * list string * list string * list string * bool) :=
  [("BARID", [], [], ["return"], [], false);
   ("DownlinkDataNotificationDelay", ["BAR_DOWNLINK_DATA_NOTIFICATION_DELAY"], ["AttrU8(v/(50*time.Millisecond))"], ["return"], [], false);
   ("SuggestedBufferingPacketsCount", ["BAR_BUFFERING_PACKETS_COUNT"], ["AttrU16(v)"], ["return"], [], false)].
Example shape_CreateBAR_as_modelled : shape_CreateBAR = bar_shape.
Proof. reflexivity. Qed.
Example shape_UpdateBAR_as_modelled : shape_UpdateBAR = bar_shape.
Proof. reflexivity. Qed.
End Shapes3.

Example perio_mask_is_bit0 : RPT_TRIG_PERIO = 1.
Proof. reflexivity. Qed.

(* ------------------------------------------------------------------ selq helpers (as for sel) *)
Lemma selq_app {X} (f : qie -> option X) l1 l2 : selq f (l1 ++ l2) = (selq f l1 ++ selq f l2)%list.
Proof. unfold selq. apply flat_map_app. Qed.
Lemma selq_cons {X} (f : qie -> option X) a l : selq f (a :: l) = (o2l (f a) ++ selq f l)%list.
Proof. reflexivity. Qed.
Lemma selq_perm {X} (f : qie -> option X) l l' : Permutation l l' -> Permutation (selq f l) (selq f l').
Proof. intros H. unfold selq. apply Permutation_flat_map. exact H. Qed.
Lemma theq_perm {X} (f : qie -> option X) l l' :
  Permutation l l' -> le1 (selq f l) = true -> theq f l = theq f l'.
Proof. intros P H. unfold theq. rewrite (perm_le1_eq _ _ (selq_perm f _ _ P) H). reflexivity. Qed.

(* ------------------------------------------------------------------ more leaf readers *)
Lemma rd_u8_mod v : rd_uint 1 (V8 v) = Some (v mod 256).
Proof. unfold rd_uint. cbn [is_nest payload length Nat.eqb le_val]. f_equal. lia. Qed.
Lemma rd_u32_mod v : rd_uint 4 (V32 v) = Some (v mod 4294967296).
Proof.
  unfold rd_uint. cbn [is_nest payload]. rewrite le_bytes_length. cbn [Nat.eqb]. rewrite le_val_le_bytes. reflexivity.
Qed.
Lemma rd_first_octet_u64 v : v < 256 -> rd_first_octet (V64 v) = Some v.
Proof.
  intros H. unfold rd_first_octet. cbn [is_nest payload le_bytes].
  rewrite (N.div_small v 256) by exact H. rewrite (N.mod_small v 256) by exact H.
  cbn. reflexivity.
Qed.

Lemma split40 v : v < 1099511627776 ->
  N.shiftr v 8 < 4294967296 /\ N.shiftr v 8 * 256 + v mod 256 = v.
Proof.
  intros H. rewrite N.shiftr_div_pow2. change (2 ^ 8) with 256. split.
  - apply N.div_lt_upper_bound; lia.
  - rewrite N.mul_comm. symmetry. apply N.div_mod. lia.
Qed.

Local Opaque rd_uint rd_bytes rd_prefix4 rd_str rd_ports rd_first_octet.

Ltac rd_step3 :=
  first [ rewrite rd_u8 by (assumption || reflexivity)
        | rewrite rd_u16 by (assumption || reflexivity)
        | rewrite rd_u32 by (assumption || reflexivity)
        | rewrite rd_u64 by (assumption || reflexivity)
        | rewrite rd_first_octet_u64 by assumption
        | rewrite rd_u8_mod
        | rewrite rd_u32_mod ].
Ltac rd_all3 := cbn -[N.shiftr N.modulo N.div N.mul N.add]; repeat (rd_step3; cbn -[N.shiftr N.modulo N.div N.mul N.add]).

(* the 40-bit rate comes back whole: high32 * 256 + low8 = value, uplink and downlink in their own attributes *)
Lemma dec_rate_1234 ul dl : ul < 1099511627776 -> dl < 1099511627776 ->
  dec_rate 1 2 3 4 (rate_attrs 1 2 3 4 ul dl) = Some (ul, dl).
Proof.
  intros Hu Hd. destruct (split40 ul Hu) as [U1 U2]. destruct (split40 dl Hd) as [D1 D2].
  unfold dec_rate, rate_attrs. rd_all3. rewrite U2, D2. reflexivity.
Qed.

(* ------------------------------------------------------------------ QER *)
Definition qer_out (i : qie) : list attr :=
  match i with
  | QCorrId v => [A nl_QER_CORR_ID (V32 v)]
  | QGate v => [A nl_QER_GATE (V8 v)]
  | QMbr ul dl => [A nl_QER_MBR (VNest (rate_attrs nl_QER_MBR_UL_HIGH32 nl_QER_MBR_UL_LOW8 nl_QER_MBR_DL_HIGH32 nl_QER_MBR_DL_LOW8 ul dl))]
  | QGbr ul dl => [A nl_QER_GBR (VNest (rate_attrs nl_QER_GBR_UL_HIGH32 nl_QER_GBR_UL_LOW8 nl_QER_GBR_DL_HIGH32 nl_QER_GBR_DL_LOW8 ul dl))]
  | QQfi v => [A nl_QER_QFI (V8 v)]
  | QRqi v => [A nl_QER_RQI (V8 v)]
  | QPpi v => [A nl_QER_PPI (V8 v)]
  | _ => []
  end.

Lemma qer_fold ies : forall id attrs,
  fold_left qer_clause ies (id, attrs) = (lastn id (selq h_qerid ies), (attrs ++ flat_map qer_out ies)%list).
Proof.
  induction ies as [|x ies IH]; intros id attrs.
  - cbn. rewrite app_nil_r. reflexivity.
  - cbn [fold_left]. rewrite selq_cons.
    destruct x; cbn [qer_clause]; rewrite IH; cbn [h_qerid o2l app flat_map qer_out lastn fold_left];
      rewrite <- ?app_assoc; reflexivity.
Qed.

Lemma dec_qer_part ies : forall d,
  all_lt 4294967296 (selq h_corr ies) = true -> all_lt 256 (selq h_gate ies) = true ->
  forallb (fun p => (fst p <? 1099511627776) && (snd p <? 1099511627776)) (selq h_mbr ies) = true ->
  forallb (fun p => (fst p <? 1099511627776) && (snd p <? 1099511627776)) (selq h_gbr ies) = true ->
  all_lt 256 (selq h_qfi ies) = true -> all_lt 256 (selq h_rqi ies) = true -> all_lt 256 (selq h_ppi ies) = true ->
  ofold dec_qer_step (flat_map qer_out ies) d =
  Some {| q_link := q_link d; q_id := q_id d; q_seid := q_seid d;
          q_gate := lastor (q_gate d) (selq h_gate ies); q_mbr := lastor (q_mbr d) (selq h_mbr ies);
          q_gbr := lastor (q_gbr d) (selq h_gbr ies); q_corr := lastor (q_corr d) (selq h_corr ies);
          q_rqi := lastor (q_rqi d) (selq h_rqi ies); q_qfi := lastor (q_qfi d) (selq h_qfi ies);
          q_ppi := lastor (q_ppi d) (selq h_ppi ies) |}.
Proof.
  unfold all_lt.
  induction ies as [|x ies IH]; intros d H1 H2 H3 H4 H5 H6 H7.
  - destruct d; reflexivity.
  - cbn [flat_map]. rewrite ofold_app. rewrite !selq_cons in *.
    destruct x; cbn [qer_out h_corr h_gate h_mbr h_gbr h_qfi h_rqi h_ppi o2l app] in *;
      try (rewrite ofold_nil; cbn [bind]; apply IH; assumption).
    + cbn [forallb] in H1. apply andb_prop in H1. destruct H1 as [Hv H1]. apply N.ltb_lt in Hv.
      rewrite ofold_single. rd_all3. rewrite IH by assumption. reflexivity.
    + cbn [forallb] in H2. apply andb_prop in H2. destruct H2 as [Hv H2]. apply N.ltb_lt in Hv.
      rewrite ofold_single. rd_all3. rewrite IH by assumption. reflexivity.
    + cbn [forallb fst snd] in H3. rewrite !andb_true_iff in H3. destruct H3 as [[Hu Hd] H3]. apply N.ltb_lt in Hu, Hd.
      rewrite ofold_single. cbn [dec_qer_step]. cbn [N.eqb Pos.eqb nl_LINK nl_QER_ID nl_QER_SEID nl_QER_GATE nl_QER_MBR rd_nest bind].
      replace (dec_rate nl_QER_MBR_UL_HIGH32 nl_QER_MBR_UL_LOW8 nl_QER_MBR_DL_HIGH32 nl_QER_MBR_DL_LOW8
                 (rate_attrs nl_QER_MBR_UL_HIGH32 nl_QER_MBR_UL_LOW8 nl_QER_MBR_DL_HIGH32 nl_QER_MBR_DL_LOW8 ul dl))
        with (Some (ul, dl)) by (symmetry; apply dec_rate_1234; assumption).
      cbn [bind]. rewrite IH by assumption. reflexivity.
    + cbn [forallb fst snd] in H4. rewrite !andb_true_iff in H4. destruct H4 as [[Hu Hd] H4]. apply N.ltb_lt in Hu, Hd.
      rewrite ofold_single. cbn [dec_qer_step].
      cbn [N.eqb Pos.eqb nl_LINK nl_QER_ID nl_QER_SEID nl_QER_GATE nl_QER_MBR nl_QER_GBR rd_nest bind].
      replace (dec_rate nl_QER_GBR_UL_HIGH32 nl_QER_GBR_UL_LOW8 nl_QER_GBR_DL_HIGH32 nl_QER_GBR_DL_LOW8
                 (rate_attrs nl_QER_GBR_UL_HIGH32 nl_QER_GBR_UL_LOW8 nl_QER_GBR_DL_HIGH32 nl_QER_GBR_DL_LOW8 ul dl))
        with (Some (ul, dl)) by (symmetry; apply dec_rate_1234; assumption).
      cbn [bind]. rewrite IH by assumption. reflexivity.
    + cbn [forallb] in H5. apply andb_prop in H5. destruct H5 as [Hv H5]. apply N.ltb_lt in Hv.
      rewrite ofold_single. rd_all3. rewrite IH by assumption. reflexivity.
    + cbn [forallb] in H6. apply andb_prop in H6. destruct H6 as [Hv H6]. apply N.ltb_lt in Hv.
      rewrite ofold_single. rd_all3. rewrite IH by assumption. reflexivity.
    + cbn [forallb] in H7. apply andb_prop in H7. destruct H7 as [Hv H7]. apply N.ltb_lt in Hv.
      rewrite ofold_single. rd_all3. rewrite IH by assumption. reflexivity.
Qed.

Lemma wf_qer_inv ies : wf_qer ies = true ->
  eq1 (selq h_qerid ies) = true /\ le1 (selq h_corr ies) = true /\ le1 (selq h_gate ies) = true /\
  le1 (selq h_mbr ies) = true /\ le1 (selq h_gbr ies) = true /\ le1 (selq h_qfi ies) = true /\
  le1 (selq h_rqi ies) = true /\ le1 (selq h_ppi ies) = true /\
  all_lt 4294967296 (selq h_qerid ies) = true /\ all_lt 4294967296 (selq h_corr ies) = true /\
  all_lt 256 (selq h_gate ies) = true /\
  forallb (fun p => (fst p <? 1099511627776) && (snd p <? 1099511627776)) (selq h_mbr ies) = true /\
  forallb (fun p => (fst p <? 1099511627776) && (snd p <? 1099511627776)) (selq h_gbr ies) = true /\
  all_lt 256 (selq h_qfi ies) = true /\ all_lt 256 (selq h_rqi ies) = true /\ all_lt 256 (selq h_ppi ies) = true /\
  selq h_bad ies = [].
Proof.
  unfold wf_qer. intros H. rewrite !andb_true_iff in H.
  destruct H as [[[[[[[[[[[[[[[[H1 H2] H3] H4] H5] H6] H7] H8] H9] H10] H11] H12] H13] H14] H15] H16] H17].
  destruct (selq h_bad ies); [|discriminate]. repeat split; assumption.
Qed.

Lemma single_id (l : list N) (b : N) : eq1 l = true -> all_lt b l = true -> exists v, l = [v] /\ v < b.
Proof.
  intros E A. destruct l as [|v [|w l]]; try discriminate E. exists v. split; [reflexivity|].
  unfold all_lt in A. cbn [forallb] in A. apply andb_prop in A. destruct A as [A _]. apply N.ltb_lt. exact A.
Qed.

Lemma dec_qer_request link seid ies :
  link < 4294967296 -> seid < 18446744073709551616 -> wf_qer ies = true ->
  ref_decode_qer (qer_envelope link seid (lastn 0 (selq h_qerid ies)) (flat_map qer_out ies)) = Some (spec_qer link seid ies).
Proof.
  intros Hl Hs W. apply wf_qer_inv in W.
  destruct W as (I1 & C1 & G1 & M1 & B1 & F1 & R1 & P1 & I2 & C2 & G2 & M2 & B2 & F2 & R2 & P2 & NB).
  destruct (single_id _ _ I1 I2) as (v & Ev & Hv).
  unfold ref_decode_qer, qer_envelope. rewrite Ev. cbn [lastn fold_left].
  rd_all3. rewrite ofold_fold. rewrite dec_qer_part by assumption.
  cbn [q_link q_id q_seid q_gate q_mbr q_gbr q_corr q_rqi q_qfi q_ppi].
  unfold spec_qer, theq. rewrite Ev.
  rewrite (lastor_le1 _ C1), (lastor_le1 _ G1), (lastor_le1 _ M1), (lastor_le1 _ B1), (lastor_le1 _ F1), (lastor_le1 _ R1),
    (lastor_le1 _ P1).
  reflexivity.
Qed.

Definition qer_op (create : bool) := if create then create_qer else update_qer.
Definition op_flags (create : bool) := if create then create_flags else update_flags.

Theorem qer_roundtrip create link seid ies :
  link < 4294967296 -> seid < 18446744073709551616 -> wf_qer ies = true ->
  exists id attrs,
    qer_op create link seid ies = Ok (nl_CMD_ADD_QER, op_flags create, (seid, id), attrs) /\
    ref_decode_req nl_CMD_ADD_QER ref_decode_qer nl_CMD_ADD_QER (op_flags create) attrs = Some (create, spec_qer link seid ies).
Proof.
  intros Hl Hs W. unfold qer_op, op_flags, create_qer, update_qer.
  destruct create; rewrite qer_fold; cbn [app]; eexists; eexists; (split; [reflexivity|]);
    unfold ref_decode_req; rewrite N.eqb_refl.
  - replace (op_of_flags create_flags) with (Some true) by reflexivity. cbn [bind].
    rewrite (dec_qer_request link seid ies Hl Hs W). reflexivity.
  - replace (op_of_flags update_flags) with (Some false) by reflexivity. cbn [bind].
    rewrite (dec_qer_request link seid ies Hl Hs W). reflexivity.
Qed.

(* ------------------------------------------------------------------ URR *)
Definition urr_out (i : qie) : list attr :=
  match i with
  | QMethod v => [A nl_URR_MEASUREMENT_METHOD (V8 v)]
  | QTriggers b => match rt_unmarshal b with Some fl => [A nl_URR_REPORTING_TRIGGER (V32 fl)] | None => [] end
  | QPeriod ns => [A nl_URR_MEASUREMENT_PERIOD (V32 ns)]
  | QInfo v => [A nl_URR_MEASUREMENT_INFO (V64 v)]
  | QVolThr fl tot ul dl =>
      [A nl_URR_VOLUME_THRESHOLD (VNest (vol_attrs nl_URR_VOLUME_THRESHOLD_FLAG nl_URR_VOLUME_THRESHOLD_TOVOL
                                                    nl_URR_VOLUME_THRESHOLD_UVOL nl_URR_VOLUME_THRESHOLD_DVOL fl tot ul dl))]
  | QVolQuota fl tot ul dl =>
      [A nl_URR_VOLUME_QUOTA (VNest (vol_attrs nl_URR_VOLUME_QUOTA_FLAG nl_URR_VOLUME_QUOTA_TOVOL
                                                nl_URR_VOLUME_QUOTA_UVOL nl_URR_VOLUME_QUOTA_DVOL fl tot ul dl))]
  | _ => []
  end.
Definition trig_ok (b : list N) : bool := match rt_unmarshal b with Some _ => true | None => false end.
Definition trigs (ies : list qie) : list N := flat_map (fun b => o2l (rt_unmarshal b)) (selq h_trig ies).

Lemma trigs_cons x ies : trigs (x :: ies) = (flat_map (fun b => o2l (rt_unmarshal b)) (o2l (h_trig x)) ++ trigs ies)%list.
Proof. unfold trigs. rewrite selq_cons, flat_map_app. reflexivity. Qed.

Lemma urr_create_fold ies : forall s,
  forallb trig_ok (selq h_trig ies) = true -> forallb (fun ns => negb (ns =? 0)) (selq h_period ies) = true ->
  selq h_bad ies = [] ->
  fold_left urr_create_clause ies (Ok s) =
  Ok {| us_id := lastn (us_id s) (selq h_urrid ies); us_trig := lastn (us_trig s) (trigs ies);
        us_period := lastn (us_period s) (selq h_period ies); us_attrs := us_attrs s ++ flat_map urr_out ies |}.
Proof.
  induction ies as [|x ies IH]; intros s HT HP HB.
  - cbn. rewrite app_nil_r. destruct s; reflexivity.
  - cbn [fold_left]. rewrite trigs_cons. rewrite !selq_cons in *.
    destruct x; cbn [h_bad h_trig h_period h_urrid o2l app flat_map] in *; try discriminate HB;
      try (cbn [urr_create_clause]; unfold us_add; rewrite IH by assumption;
           cbn [us_id us_trig us_period us_attrs urr_out app lastn fold_left]; rewrite <- ?app_assoc, ?app_nil_r; cbn [app];
           reflexivity).
    + (* QTriggers *) cbn [forallb] in HT. apply andb_prop in HT. destruct HT as [Hb HT]. unfold trig_ok in Hb.
      cbn [urr_create_clause urr_out]. destruct (rt_unmarshal b) as [fl|]; [|discriminate Hb].
      rewrite IH by assumption. cbn [us_id us_trig us_period us_attrs o2l app lastn fold_left]. rewrite <- app_assoc. reflexivity.
    + (* QPeriod *) cbn [forallb] in HP. apply andb_prop in HP. destruct HP as [Hn HP]. apply negb_true_iff in Hn.
      cbn [urr_create_clause urr_out]. rewrite Hn. rewrite IH by assumption.
      cbn [us_id us_trig us_period us_attrs app lastn fold_left]. rewrite <- app_assoc. reflexivity.
Qed.

Lemma urr_update_fold ies : forall id attrs,
  forallb trig_ok (selq h_trig ies) = true -> selq h_bad ies = [] ->
  fold_left urr_update_clause ies (Ok (id, attrs)) = Ok (lastn id (selq h_urrid ies), (attrs ++ flat_map urr_out ies)%list).
Proof.
  induction ies as [|x ies IH]; intros id attrs HT HB.
  - cbn. rewrite app_nil_r. reflexivity.
  - cbn [fold_left]. rewrite !selq_cons in *.
    destruct x; cbn [h_bad h_trig h_urrid o2l app flat_map] in *; try discriminate HB;
      try (cbn [urr_update_clause]; rewrite IH by assumption; cbn [urr_out app lastn fold_left];
           rewrite <- ?app_assoc, ?app_nil_r; cbn [app]; reflexivity).
    cbn [forallb] in HT. apply andb_prop in HT. destruct HT as [Hb HT]. unfold trig_ok in Hb.
    cbn [urr_update_clause urr_out]. destruct (rt_unmarshal b) as [fl|]; [|discriminate Hb].
    rewrite IH by assumption. rewrite <- app_assoc. reflexivity.
Qed.

Lemma rt_unmarshal_spec b : (2 <= length b)%nat -> (length b <= 3)%nat -> all_lt 256 b = true ->
  rt_unmarshal b = Some (spec_trigger b) /\ spec_trigger b < 4294967296.
Proof.
  intros L1 L2 Hb. destruct b as [|b0 [|b1 [|b2 [|b3 b]]]]; cbn [length] in *; try lia.
  - unfold all_lt in Hb. cbn [forallb] in Hb. rewrite !andb_true_iff in Hb. destruct Hb as [H0 [H1 _]]. apply N.ltb_lt in H0, H1.
    split; [|cbn [spec_trigger]; lia].
    replace (rt_unmarshal [b0; b1]) with (Some (le_val [b0; b1; 0; 0])) by reflexivity. cbn [le_val spec_trigger]. f_equal. lia.
  - unfold all_lt in Hb. cbn [forallb] in Hb. rewrite !andb_true_iff in Hb. destruct Hb as [H0 [H1 [H2 _]]]. apply N.ltb_lt in H0, H1, H2.
    split; [|cbn [spec_trigger]; lia].
    replace (rt_unmarshal [b0; b1; b2]) with (Some (le_val [b0; b1; b2; 0])) by reflexivity. cbn [le_val spec_trigger]. f_equal. lia.
Qed.

Lemma wf_vol_inv x : wf_vol x = true ->
  let '(fl, tot, ul, dl) := x in fl < 256 /\ tot < 18446744073709551616 /\ ul < 18446744073709551616 /\ dl < 18446744073709551616.
Proof.
  destruct x as [[[fl tot] ul] dl]. unfold wf_vol. intros H. rewrite !andb_true_iff in H.
  destruct H as [[[H1 H2] H3] H4]. apply N.ltb_lt in H1, H2, H3, H4. auto.
Qed.

Lemma dec_vol_1234 fl tot ul dl : wf_vol (fl, tot, ul, dl) = true ->
  dec_vol 1 2 3 4 (vol_attrs 1 2 3 4 fl tot ul dl) = Some (spec_vol (fl, tot, ul, dl)).
Proof.
  intros W. apply wf_vol_inv in W. destruct W as (Hf & Ht & Hu & Hd).
  unfold dec_vol, vol_attrs, spec_vol.
  destruct (N.testbit fl 0), (N.testbit fl 1), (N.testbit fl 2); cbn [app]; rd_all3; reflexivity.
Qed.

Definition trig_wf (b : list N) : bool := Nat.leb 2 (length b) && Nat.leb (length b) 3 && all_lt 256 b.

Lemma trig_wf_ok l : forallb trig_wf l = true -> forallb trig_ok l = true.
Proof.
  induction l as [|b l IH]; [reflexivity|]. cbn [forallb]. intros H. apply andb_prop in H. destruct H as [Hb H].
  unfold trig_wf in Hb. rewrite !andb_true_iff in Hb. destruct Hb as [[La Lb] Hb]. apply Nat.leb_le in La, Lb.
  destruct (rt_unmarshal_spec b La Lb Hb) as [E _]. unfold trig_ok at 1. rewrite E. cbn [andb]. apply IH. exact H.
Qed.

Lemma dec_urr_part ies : forall d,
  all_lt 256 (selq h_method ies) = true -> all_lt 256 (selq h_info ies) = true ->
  forallb trig_wf (selq h_trig ies) = true ->
  forallb wf_vol (selq h_volthr ies) = true -> forallb wf_vol (selq h_volquota ies) = true ->
  ofold dec_urr_step (flat_map urr_out ies) d =
  Some {| u_link := u_link d; u_id := u_id d; u_seid := u_seid d;
          u_method := lastor (u_method d) (selq h_method ies);
          u_trigger := lastor (u_trigger d) (map spec_trigger (selq h_trig ies));
          u_info := lastor (u_info d) (selq h_info ies);
          u_volthr := lastor (u_volthr d) (map spec_vol (selq h_volthr ies));
          u_volquota := lastor (u_volquota d) (map spec_vol (selq h_volquota ies)) |}.
Proof.
  unfold all_lt.
  induction ies as [|x ies IH]; intros d H1 H2 H3 H4 H5.
  - destruct d; reflexivity.
  - cbn [flat_map]. rewrite ofold_app. rewrite !selq_cons in *.
    destruct x; cbn [urr_out h_method h_info h_trig h_volthr h_volquota o2l app map] in *;
      try (rewrite ofold_nil; cbn [bind]; apply IH; assumption).
    + (* QMethod *) cbn [forallb] in H1. apply andb_prop in H1. destruct H1 as [Hv H1]. apply N.ltb_lt in Hv.
      rewrite ofold_single. rd_all3. rewrite IH by assumption. reflexivity.
    + (* QTriggers *) cbn [forallb] in H3. apply andb_prop in H3. destruct H3 as [Hb H3].
      unfold trig_wf in Hb. rewrite !andb_true_iff in Hb. destruct Hb as [[La Lb] Hb]. apply Nat.leb_le in La, Lb.
      destruct (rt_unmarshal_spec b La Lb Hb) as [E Hlt]. rewrite E.
      rewrite ofold_single. rd_all3. rewrite IH by assumption. reflexivity.
    + (* QPeriod *) rewrite ofold_single. rd_all3. rewrite IH by assumption. destruct d; reflexivity.
    + (* QInfo *) cbn [forallb] in H2. apply andb_prop in H2. destruct H2 as [Hv H2]. apply N.ltb_lt in Hv.
      rewrite ofold_single. rd_all3. rewrite IH by assumption. reflexivity.
    + (* QVolThr *) cbn [forallb] in H4. apply andb_prop in H4. destruct H4 as [Hv H4].
      rewrite ofold_single. cbn [dec_urr_step].
      cbn [N.eqb Pos.eqb nl_LINK nl_URR_ID nl_URR_SEID nl_URR_MEASUREMENT_METHOD nl_URR_REPORTING_TRIGGER nl_URR_MEASUREMENT_PERIOD
           nl_URR_MEASUREMENT_INFO nl_URR_VOLUME_THRESHOLD rd_nest bind].
      replace (dec_vol nl_URR_VOLUME_THRESHOLD_FLAG nl_URR_VOLUME_THRESHOLD_TOVOL nl_URR_VOLUME_THRESHOLD_UVOL nl_URR_VOLUME_THRESHOLD_DVOL
                 (vol_attrs nl_URR_VOLUME_THRESHOLD_FLAG nl_URR_VOLUME_THRESHOLD_TOVOL nl_URR_VOLUME_THRESHOLD_UVOL
                            nl_URR_VOLUME_THRESHOLD_DVOL flags tot ul dl))
        with (Some (spec_vol (flags, tot, ul, dl))) by (symmetry; apply dec_vol_1234; assumption).
      cbn [bind]. rewrite IH by assumption. reflexivity.
    + (* QVolQuota *) cbn [forallb] in H5. apply andb_prop in H5. destruct H5 as [Hv H5].
      rewrite ofold_single. cbn [dec_urr_step].
      cbn [N.eqb Pos.eqb nl_LINK nl_URR_ID nl_URR_SEID nl_URR_MEASUREMENT_METHOD nl_URR_REPORTING_TRIGGER nl_URR_MEASUREMENT_PERIOD
           nl_URR_MEASUREMENT_INFO nl_URR_VOLUME_THRESHOLD nl_URR_VOLUME_QUOTA rd_nest bind].
      replace (dec_vol nl_URR_VOLUME_QUOTA_FLAG nl_URR_VOLUME_QUOTA_TOVOL nl_URR_VOLUME_QUOTA_UVOL nl_URR_VOLUME_QUOTA_DVOL
                 (vol_attrs nl_URR_VOLUME_QUOTA_FLAG nl_URR_VOLUME_QUOTA_TOVOL nl_URR_VOLUME_QUOTA_UVOL
                            nl_URR_VOLUME_QUOTA_DVOL flags tot ul dl))
        with (Some (spec_vol (flags, tot, ul, dl))) by (symmetry; apply dec_vol_1234; assumption).
      cbn [bind]. rewrite IH by assumption. reflexivity.
Qed.

Lemma wf_urr_inv create ies : wf_urr create ies = true ->
  eq1 (selq h_urrid ies) = true /\ le1 (selq h_method ies) = true /\ le1 (selq h_trig ies) = true /\
  le1 (selq h_period ies) = true /\ le1 (selq h_info ies) = true /\ le1 (selq h_volthr ies) = true /\
  le1 (selq h_volquota ies) = true /\ all_lt 4294967296 (selq h_urrid ies) = true /\
  all_lt 256 (selq h_method ies) = true /\ all_lt 256 (selq h_info ies) = true /\
  forallb trig_wf (selq h_trig ies) = true /\
  forallb (fun ns => (0 <? ns) && (ns <? 4294967296 * 1000000000)) (selq h_period ies) = true /\
  forallb wf_vol (selq h_volthr ies) = true /\ forallb wf_vol (selq h_volquota ies) = true /\
  (if create && perio_bit ies then eq1 (selq h_period ies) else true) = true /\ selq h_bad ies = [].
Proof.
  unfold wf_urr. intros H. rewrite !andb_true_iff in H.
  destruct H as [[[[[[[[[[[[[[[H1 H2] H3] H4] H5] H6] H7] H8] H9] H10] H11] H12] H13] H14] H15] H16].
  destruct (selq h_bad ies); [|discriminate]. repeat split; assumption.
Qed.

Lemma dec_urr_request create link seid ies :
  link < 4294967296 -> seid < 18446744073709551616 -> wf_urr create ies = true ->
  ref_decode_urr (urr_envelope link seid (lastn 0 (selq h_urrid ies)) (flat_map urr_out ies)) = Some (spec_urr link seid ies).
Proof.
  intros Hl Hs W. apply wf_urr_inv in W.
  destruct W as (I1 & M1 & T1 & P1 & F1 & V1 & Q1 & I2 & M2 & F2 & T2 & P2 & V2 & Q2 & PB & NB).
  destruct (single_id _ _ I1 I2) as (v & Ev & Hv).
  unfold ref_decode_urr, urr_envelope. rewrite Ev. cbn [lastn fold_left].
  rd_all3. rewrite ofold_fold. rewrite dec_urr_part by assumption.
  cbn [u_link u_id u_seid u_method u_trigger u_info u_volthr u_volquota].
  unfold spec_urr, theq. rewrite Ev.
  rewrite (lastor_le1 _ M1), (lastor_le1 _ F1), (lastor_map_le1 spec_trigger _ T1), (lastor_map_le1 spec_vol _ V1),
    (lastor_map_le1 spec_vol _ Q1).
  reflexivity.
Qed.

Lemma perio_test x : negb (N.land x RPT_TRIG_PERIO =? 0) = N.testbit x 0.
Proof. change RPT_TRIG_PERIO with (2 ^ 0). apply (flag_pow2_testbit 0 x). Qed.

(* Create URR: the request carries the IE's content, and the periodic server is told to query the URR with the IE's
   period exactly when PERIO is among the triggers *)
Theorem create_urr_roundtrip link seid ies :
  link < 4294967296 -> seid < 18446744073709551616 -> wf_urr true ies = true ->
  exists id attrs,
    create_urr link seid ies =
      Ok ((if perio_bit ies then [PAdd seid id (match theq h_period ies with Some p => p | None => 0 end)] else []),
          (nl_CMD_ADD_URR, create_flags, (seid, id), attrs)) /\
    theq h_urrid ies = Some id /\
    ref_decode_req nl_CMD_ADD_URR ref_decode_urr nl_CMD_ADD_URR create_flags attrs = Some (true, spec_urr link seid ies).
Proof.
  intros Hl Hs W. pose proof (wf_urr_inv _ _ W) as (I1 & M1 & T1 & P1 & F1 & V1 & Q1 & I2 & M2 & F2 & T2 & P2 & V2 & Q2 & PB & NB).
  unfold create_urr.
  assert (HP : forallb (fun ns => negb (ns =? 0)) (selq h_period ies) = true).
  { clear - P2. induction (selq h_period ies) as [|n l IH]; [reflexivity|]. cbn [forallb] in *.
    apply andb_prop in P2. destruct P2 as [Hn P2]. apply andb_prop in Hn. destruct Hn as [Hn _]. apply N.ltb_lt in Hn.
    rewrite (IH P2), andb_true_r. apply negb_true_iff. apply N.eqb_neq. lia. }
  rewrite urr_create_fold by (auto using trig_wf_ok). cbn [us_id us_trig us_period us_attrs urr0 app].
  destruct (single_id _ _ I1 I2) as (v & Ev & Hv).
  rewrite perio_test.
  assert (EB : N.testbit (lastn 0 (trigs ies)) 0 = perio_bit ies).
  { unfold perio_bit, theq, trigs. destruct (selq h_trig ies) as [|b [|b' l]]; try discriminate T1.
    - reflexivity.
    - cbn [forallb] in T2. apply andb_prop in T2. destruct T2 as [Hb _]. unfold trig_wf in Hb.
      rewrite !andb_true_iff in Hb. destruct Hb as [[La Lb] Hb]. apply Nat.leb_le in La, Lb.
      destruct (rt_unmarshal_spec b La Lb Hb) as [E _]. cbn [flat_map hd_error]. rewrite E. reflexivity. }
  rewrite EB.
  exists v. eexists. unfold theq at 2. rewrite Ev. cbn [hd_error lastn fold_left]. split; [|split; [reflexivity|]].
  - destruct (perio_bit ies) eqn:EP.
    + cbn [andb] in PB. unfold theq. destruct (selq h_period ies) as [|n [|n' l]]; try discriminate PB.
      cbn [lastn fold_left hd_error]. cbn [forallb] in HP. apply andb_prop in HP. destruct HP as [Hn _].
      apply negb_true_iff in Hn. rewrite Hn. reflexivity.
    + reflexivity.
  - unfold ref_decode_req. rewrite N.eqb_refl. replace (op_of_flags create_flags) with (Some true) by reflexivity. cbn [bind].
    pose proof (dec_urr_request true link seid ies Hl Hs W) as D. rewrite Ev in D. cbn [lastn fold_left] in D. rewrite D. reflexivity.
Qed.

Theorem update_urr_roundtrip link seid ies :
  link < 4294967296 -> seid < 18446744073709551616 -> wf_urr false ies = true ->
  exists id attrs,
    update_urr link seid ies = Ok ([], (nl_CMD_ADD_URR, update_flags, (seid, id), attrs)) /\
    ref_decode_req nl_CMD_ADD_URR ref_decode_urr nl_CMD_ADD_URR update_flags attrs = Some (false, spec_urr link seid ies).
Proof.
  intros Hl Hs W. pose proof (wf_urr_inv _ _ W) as (I1 & M1 & T1 & P1 & F1 & V1 & Q1 & I2 & M2 & F2 & T2 & P2 & V2 & Q2 & PB & NB).
  unfold update_urr. rewrite urr_update_fold by (auto using trig_wf_ok). cbn [app].
  eexists. eexists. split; [reflexivity|].
  unfold ref_decode_req. rewrite N.eqb_refl. replace (op_of_flags update_flags) with (Some false) by reflexivity. cbn [bind].
  rewrite (dec_urr_request false link seid ies Hl Hs W). reflexivity.
Qed.

(* ------------------------------------------------------------------ BAR *)
Definition bar_out (i : qie) : list attr :=
  match i with
  | QDelay ns => [A nl_BAR_DOWNLINK_DATA_NOTIFICATION_DELAY (V8 (ns / 50000000))]
  | QCount v => [A nl_BAR_BUFFERING_PACKETS_COUNT (V16 v)]
  | _ => []
  end.

Lemma bar_fold ies : forall id attrs, selq h_bad ies = [] ->
  fold_left bar_clause ies (Ok (id, attrs)) = Ok (lastn id (selq h_barid ies), (attrs ++ flat_map bar_out ies)%list).
Proof.
  induction ies as [|x ies IH]; intros id attrs HB.
  - cbn. rewrite app_nil_r. reflexivity.
  - cbn [fold_left]. rewrite !selq_cons in *.
    destruct x; cbn [h_bad h_barid o2l app flat_map] in *; try discriminate HB;
      cbn [bar_clause]; rewrite IH by assumption; cbn [bar_out app lastn fold_left]; rewrite <- ?app_assoc, ?app_nil_r; cbn [app];
      reflexivity.
Qed.

Lemma dec_bar_part ies : forall d, all_lt 256 (selq h_count ies) = true ->
  forallb (fun ns => (ns mod 50000000 =? 0) && (ns / 50000000 <? 256)) (selq h_delay ies) = true ->
  ofold dec_bar_step (flat_map bar_out ies) d =
  Some {| b_link := b_link d; b_id := b_id d; b_seid := b_seid d;
          b_delay := lastor (b_delay d) (map (fun ns => ns / 50000000) (selq h_delay ies));
          b_count := lastor (b_count d) (selq h_count ies) |}.
Proof.
  unfold all_lt.
  induction ies as [|x ies IH]; intros d H1 H2.
  - destruct d; reflexivity.
  - cbn [flat_map]. rewrite ofold_app. rewrite !selq_cons in *.
    destruct x; cbn [bar_out h_delay h_count o2l app map] in *;
      try (rewrite ofold_nil; cbn [bind]; apply IH; assumption).
    + cbn [forallb] in H2. apply andb_prop in H2. destruct H2 as [Hn H2]. apply andb_prop in Hn. destruct Hn as [_ Hn].
      apply N.ltb_lt in Hn. remember (ns / 50000000) as n eqn:En.
      rewrite ofold_single. rd_all3. rewrite IH by assumption. reflexivity.
    + cbn [forallb] in H1. apply andb_prop in H1. destruct H1 as [Hv H1]. apply N.ltb_lt in Hv.
      assert (Hv' : v < 65536) by lia.
      rewrite ofold_single. rd_all3. rewrite IH by assumption. reflexivity.
Qed.

Lemma wf_bar_inv ies : wf_bar ies = true ->
  eq1 (selq h_barid ies) = true /\ le1 (selq h_delay ies) = true /\ le1 (selq h_count ies) = true /\
  all_lt 256 (selq h_barid ies) = true /\ all_lt 256 (selq h_count ies) = true /\
  forallb (fun ns => (ns mod 50000000 =? 0) && (ns / 50000000 <? 256)) (selq h_delay ies) = true /\ selq h_bad ies = [].
Proof.
  unfold wf_bar. intros H. rewrite !andb_true_iff in H.
  destruct H as [[[[[[H1 H2] H3] H4] H5] H6] H7]. destruct (selq h_bad ies); [|discriminate]. repeat split; assumption.
Qed.

Definition bar_op (create : bool) := if create then create_bar else update_bar.

Lemma dec_bar_request link seid ies :
  link < 4294967296 -> seid < 18446744073709551616 -> wf_bar ies = true ->
  ref_decode_bar (bar_envelope link seid (lastn 0 (selq h_barid ies)) (flat_map bar_out ies)) = Some (spec_bar link seid ies).
Proof.
  intros Hl Hs W. apply wf_bar_inv in W. destruct W as (I1 & D1 & C1 & I2 & C2 & D2 & NB).
  destruct (single_id _ _ I1 I2) as (v & Ev & Hv).
  unfold ref_decode_bar, bar_envelope. rewrite Ev. cbn [lastn fold_left].
  rd_all3. rewrite ofold_fold. rewrite dec_bar_part by assumption.
  cbn [b_link b_id b_seid b_delay b_count]. unfold spec_bar, theq. rewrite Ev.
  rewrite (lastor_le1 _ C1), (lastor_map_le1 _ _ D1). reflexivity.
Qed.

Theorem bar_roundtrip create link seid ies :
  link < 4294967296 -> seid < 18446744073709551616 -> wf_bar ies = true ->
  exists id attrs,
    bar_op create link seid ies = Ok (nl_CMD_ADD_BAR, op_flags create, (seid, id), attrs) /\
    ref_decode_req nl_CMD_ADD_BAR ref_decode_bar nl_CMD_ADD_BAR (op_flags create) attrs = Some (create, spec_bar link seid ies).
Proof.
  intros Hl Hs W. pose proof (wf_bar_inv _ W) as (I1 & D1 & C1 & I2 & C2 & D2 & NB).
  unfold bar_op, op_flags, create_bar, update_bar.
  destruct create; rewrite bar_fold by assumption; cbn [app]; eexists; eexists; (split; [reflexivity|]);
    unfold ref_decode_req; rewrite N.eqb_refl.
  - replace (op_of_flags create_flags) with (Some true) by reflexivity. cbn [bind].
    rewrite (dec_bar_request link seid ies Hl Hs W). reflexivity.
  - replace (op_of_flags update_flags) with (Some false) by reflexivity. cbn [bind].
    rewrite (dec_bar_request link seid ies Hl Hs W). reflexivity.
Qed.

Definition decoded3 {D} (cmd0 : N) (dec : list attr -> option D) (r : result request) : option D :=
  match r with
  | Ok (cmd, fl, _, attrs) => option_map snd (ref_decode_req cmd0 dec cmd fl attrs)
  | Err => None
  end.

(* the behaviour before the repair (go-upf 08f4372): the Duration itself was cast to uint8, so the attribute carried the low
   octet of n * 50 000 000: 0 when n is even, 128 when n is odd.  Kept as a record of what the check found. *)
Definition bar_delay_legacy_attr (ns : N) : attr := A nl_BAR_DOWNLINK_DATA_NOTIFICATION_DELAY (V8 ns).
Example bar_delay_legacy_refuted :
  option_map b_delay (ofold dec_bar_step [bar_delay_legacy_attr (3 * 50000000)] bar0) = Some (Some 128) /\
  option_map b_delay (ofold dec_bar_step (bar_out (QDelay (3 * 50000000))) bar0) = Some (Some 3).
Proof. split; vm_compute; reflexivity. Qed.
Lemma bar_delay_low_octet n : (n * 50000000) mod 256 = if N.even n then 0 else 128.
Proof.
  replace (n * 50000000) with (n * 128 + (n * 195312) * 256) by lia.
  rewrite N.mod_add by lia.
  destruct (N.even n) eqn:E.
  - apply N.even_spec in E. destruct E as [k ->]. replace (2 * k * 128) with (k * 256) by lia. apply N.mod_mul. lia.
  - assert (O : N.odd n = true) by (rewrite <- N.negb_even, E; reflexivity).
    apply N.odd_spec in O. destruct O as [k ->]. replace ((2 * k + 1) * 128) with (128 + k * 256) by lia.
    rewrite N.mod_add by lia. reflexivity.
Qed.

(* ------------------------------------------------------------------ periodic registration *)
Definition reg_after (calls : list pcall) : preg := fold_left perio_apply calls [].

(* Create URR alone: a tick of period p queries the URR iff PERIO is among its triggers and p is its period *)
Theorem perio_create_partial link seid ies p :
  link < 4294967296 -> seid < 18446744073709551616 -> wf_urr true ies = true ->
  exists calls req, create_urr link seid ies = Ok (calls, req) /\
    query_set p (reg_after calls) = spec_query_set seid p (spec_reg_step [] (UCreate ies)).
Proof.
  intros Hl Hs W. destruct (create_urr_roundtrip link seid ies Hl Hs W) as (id & attrs & E & Eid & _).
  rewrite E. eexists. eexists. split; [reflexivity|].
  unfold spec_reg_step. rewrite Eid. unfold sreg_set, sreg_del. cbn [filter spec_query_set flat_map app].
  rewrite app_nil_r.
  destruct (perio_bit ies); cbn [reg_after fold_left perio_apply existsb query_set flat_map app andb].
  - rewrite app_nil_r. reflexivity.
  - reflexivity.
Qed.

(* Create then Remove: nothing stays registered for this URR *)
Theorem perio_create_remove link seid ies p :
  link < 4294967296 -> seid < 18446744073709551616 -> wf_urr true ies = true ->
  exists calls req id, create_urr link seid ies = Ok (calls, req) /\ theq h_urrid ies = Some id /\
    query_set p (reg_after (calls ++ fst (remove_urr link seid id))) = [] /\
    spec_query_set seid p (spec_reg_step (spec_reg_step [] (UCreate ies)) (URemove id)) = [].
Proof.
  intros Hl Hs W. destruct (create_urr_roundtrip link seid ies Hl Hs W) as (id & attrs & E & Eid & _).
  rewrite E. eexists. eexists. exists id. split; [reflexivity|]. split; [exact Eid|].
  unfold spec_reg_step. rewrite Eid. unfold sreg_set, sreg_del. cbn [filter fst negb]. rewrite N.eqb_refl. cbn [negb filter].
  split; [|reflexivity].
  destruct (perio_bit ies); cbn [remove_urr fst app reg_after fold_left perio_apply existsb del_first].
  - rewrite !N.eqb_refl. reflexivity.
  - reflexivity.
Qed.

(* the model's registration table after a history of URR operations of one session *)
Definition model_reg_step (link seid : N) (r : preg) (o : uop) : preg :=
  match o with
  | UCreate ies => match create_urr link seid ies with Ok (calls, _) => fold_left perio_apply calls r | Err => r end
  | UUpdate ies => match update_urr link seid ies with Ok (calls, _) => fold_left perio_apply calls r | Err => r end
  | URemove u => fold_left perio_apply (fst (remove_urr link seid u)) r
  end.
Definition hist_wf (h : list uop) : bool :=
  forallb (fun o => match o with UCreate ies => wf_urr true ies | UUpdate ies => wf_urr false ies | URemove _ => true end) h.

(* finding: the full property over Create AND Update is false.
   Create URR {id 8, triggers 02 00 (volume threshold)}; Update URR {id 8, triggers 01 00 (PERIO), period 60 s}:
   the specification asks a 60 s tick to query URR 8, the driver never registered it. *)
Definition perio_witness : list uop :=
  [UCreate [QUrrId 8; QMethod 2; QTriggers [2; 0]];
   UUpdate [QUrrId 8; QTriggers [1; 0]; QPeriod 60000000000]].
Theorem perio_update_refuted :
  exists link seid h p,
    link < 4294967296 /\ seid < 18446744073709551616 /\ hist_wf h = true /\
    same_set (query_set p (fold_left (model_reg_step link seid) h []))
             (spec_query_set seid p (fold_left spec_reg_step h [])) = false.
Proof.
  exists 7, 5, perio_witness, 60000000000. repeat split; try reflexivity.
Qed.
(* and the other direction: PERIO cleared by an Update URR, still queried *)
Definition perio_witness2 : list uop :=
  [UCreate [QUrrId 8; QTriggers [1; 0]; QPeriod 60000000000]; UUpdate [QUrrId 8; QTriggers [2; 0]]].
Example perio_update_refuted2 :
  hist_wf perio_witness2 = true /\
  query_set 60000000000 (fold_left (model_reg_step 7 5) perio_witness2 []) = [(5, 8)] /\
  spec_query_set 5 60000000000 (fold_left spec_reg_step perio_witness2 []) = [].
Proof. repeat split; vm_compute; reflexivity. Qed.

(* ------------------------------------------------------------------ order-freeness *)
Lemma wf_qer_perm l l' : Permutation l l' -> wf_qer l = wf_qer l'.
Proof.
  intros P. unfold wf_qer, all_lt.
  rewrite (eq1_perm _ _ (selq_perm h_qerid _ _ P)), (le1_perm _ _ (selq_perm h_corr _ _ P)), (le1_perm _ _ (selq_perm h_gate _ _ P)),
    (le1_perm _ _ (selq_perm h_mbr _ _ P)), (le1_perm _ _ (selq_perm h_gbr _ _ P)), (le1_perm _ _ (selq_perm h_qfi _ _ P)),
    (le1_perm _ _ (selq_perm h_rqi _ _ P)), (le1_perm _ _ (selq_perm h_ppi _ _ P)),
    (forallb_perm _ _ _ (selq_perm h_qerid _ _ P)), (forallb_perm _ _ _ (selq_perm h_corr _ _ P)),
    (forallb_perm _ _ _ (selq_perm h_gate _ _ P)), (forallb_perm _ _ _ (selq_perm h_mbr _ _ P)),
    (forallb_perm _ _ _ (selq_perm h_gbr _ _ P)), (forallb_perm _ _ _ (selq_perm h_qfi _ _ P)),
    (forallb_perm _ _ _ (selq_perm h_rqi _ _ P)), (forallb_perm _ _ _ (selq_perm h_ppi _ _ P)),
    (isnil_perm _ _ (selq_perm h_bad _ _ P)).
  reflexivity.
Qed.

Theorem spec_qer_perm link seid l l' : Permutation l l' -> wf_qer l = true ->
  wf_qer l' = true /\ spec_qer link seid l = spec_qer link seid l'.
Proof.
  intros P W. split; [rewrite <- (wf_qer_perm _ _ P); exact W|].
  apply wf_qer_inv in W. destruct W as (I1 & C1 & G1 & M1 & B1 & F1 & R1 & P1 & _).
  unfold spec_qer.
  rewrite <- (theq_perm h_qerid _ _ P (eq1_le1 _ I1)), <- (theq_perm h_gate _ _ P G1), <- (theq_perm h_mbr _ _ P M1),
    <- (theq_perm h_gbr _ _ P B1), <- (theq_perm h_corr _ _ P C1), <- (theq_perm h_rqi _ _ P R1), <- (theq_perm h_qfi _ _ P F1),
    <- (theq_perm h_ppi _ _ P P1).
  reflexivity.
Qed.

Lemma perio_bit_perm l l' : Permutation l l' -> le1 (selq h_trig l) = true -> perio_bit l = perio_bit l'.
Proof. intros P H. unfold perio_bit. rewrite <- (theq_perm h_trig _ _ P H). reflexivity. Qed.

Lemma wf_urr_perm create l l' : Permutation l l' -> wf_urr create l = true -> wf_urr create l' = true.
Proof.
  intros P W. pose proof (wf_urr_inv _ _ W) as (I1 & M1 & T1 & _).
  unfold wf_urr, all_lt in *.
  rewrite <- (eq1_perm _ _ (selq_perm h_urrid _ _ P)), <- (le1_perm _ _ (selq_perm h_method _ _ P)),
    <- (le1_perm _ _ (selq_perm h_trig _ _ P)), <- (le1_perm _ _ (selq_perm h_period _ _ P)),
    <- (le1_perm _ _ (selq_perm h_info _ _ P)), <- (le1_perm _ _ (selq_perm h_volthr _ _ P)),
    <- (le1_perm _ _ (selq_perm h_volquota _ _ P)), <- (forallb_perm _ _ _ (selq_perm h_urrid _ _ P)),
    <- (forallb_perm _ _ _ (selq_perm h_method _ _ P)), <- (forallb_perm _ _ _ (selq_perm h_info _ _ P)),
    <- (forallb_perm _ _ _ (selq_perm h_trig _ _ P)), <- (forallb_perm _ _ _ (selq_perm h_period _ _ P)),
    <- (forallb_perm _ _ _ (selq_perm h_volthr _ _ P)), <- (forallb_perm _ _ _ (selq_perm h_volquota _ _ P)),
    <- (isnil_perm _ _ (selq_perm h_bad _ _ P)), <- (perio_bit_perm _ _ P T1), <- (eq1_perm _ _ (selq_perm h_period _ _ P)).
  exact W.
Qed.

Theorem spec_urr_perm create link seid l l' : Permutation l l' -> wf_urr create l = true ->
  wf_urr create l' = true /\ spec_urr link seid l = spec_urr link seid l' /\ perio_bit l = perio_bit l' /\
  theq h_period l = theq h_period l'.
Proof.
  intros P W. split; [exact (wf_urr_perm _ _ _ P W)|].
  apply wf_urr_inv in W. destruct W as (I1 & M1 & T1 & P1 & F1 & V1 & Q1 & _).
  unfold spec_urr.
  rewrite <- (theq_perm h_urrid _ _ P (eq1_le1 _ I1)), <- (theq_perm h_method _ _ P M1), <- (theq_perm h_trig _ _ P T1),
    <- (theq_perm h_info _ _ P F1), <- (theq_perm h_volthr _ _ P V1), <- (theq_perm h_volquota _ _ P Q1),
    <- (theq_perm h_period _ _ P P1), <- (perio_bit_perm _ _ P T1).
  auto.
Qed.

Lemma wf_bar_perm l l' : Permutation l l' -> wf_bar l = wf_bar l'.
Proof.
  intros P. unfold wf_bar, all_lt.
  rewrite (eq1_perm _ _ (selq_perm h_barid _ _ P)), (le1_perm _ _ (selq_perm h_delay _ _ P)), (le1_perm _ _ (selq_perm h_count _ _ P)),
    (forallb_perm _ _ _ (selq_perm h_barid _ _ P)), (forallb_perm _ _ _ (selq_perm h_count _ _ P)),
    (forallb_perm _ _ _ (selq_perm h_delay _ _ P)), (isnil_perm _ _ (selq_perm h_bad _ _ P)).
  reflexivity.
Qed.

Theorem spec_bar_perm link seid l l' : Permutation l l' -> wf_bar l = true ->
  wf_bar l' = true /\ spec_bar link seid l = spec_bar link seid l'.
Proof.
  intros P W. split; [rewrite <- (wf_bar_perm _ _ P); exact W|].
  apply wf_bar_inv in W. destruct W as (I1 & D1 & C1 & _).
  unfold spec_bar.
  rewrite <- (theq_perm h_barid _ _ P (eq1_le1 _ I1)), <- (theq_perm h_delay _ _ P D1), <- (theq_perm h_count _ _ P C1).
  reflexivity.
Qed.

(* what reaches the data plane does not depend on the order of the child IEs *)
Theorem qer_order_free create link seid ies ies' :
  link < 4294967296 -> seid < 18446744073709551616 -> wf_qer ies = true -> Permutation ies ies' ->
  exists d, decoded3 nl_CMD_ADD_QER ref_decode_qer (qer_op create link seid ies) = Some d /\
            decoded3 nl_CMD_ADD_QER ref_decode_qer (qer_op create link seid ies') = Some d.
Proof.
  intros Hl Hs W P. destruct (spec_qer_perm link seid _ _ P W) as [W' E].
  destruct (qer_roundtrip create link seid ies Hl Hs W) as (i1 & a1 & E1 & D1).
  destruct (qer_roundtrip create link seid ies' Hl Hs W') as (i2 & a2 & E2 & D2).
  exists (spec_qer link seid ies). rewrite E1, E2. cbn [decoded3]. rewrite D1, D2, E. auto.
Qed.

Theorem urr_order_free link seid ies ies' :
  link < 4294967296 -> seid < 18446744073709551616 -> wf_urr true ies = true -> Permutation ies ies' ->
  exists calls d r r', create_urr link seid ies = Ok (calls, r) /\ create_urr link seid ies' = Ok (calls, r') /\
     decoded3 nl_CMD_ADD_URR ref_decode_urr (Ok r) = Some d /\ decoded3 nl_CMD_ADD_URR ref_decode_urr (Ok r') = Some d.
Proof.
  intros Hl Hs W P. destruct (spec_urr_perm true link seid _ _ P W) as (W' & E & EB & EP).
  destruct (create_urr_roundtrip link seid ies Hl Hs W) as (i1 & a1 & E1 & Ei1 & D1).
  destruct (create_urr_roundtrip link seid ies' Hl Hs W') as (i2 & a2 & E2 & Ei2 & D2).
  pose proof (wf_urr_inv _ _ W) as (I1 & _).
  assert (i1 = i2) by (rewrite (theq_perm h_urrid _ _ P (eq1_le1 _ I1)) in Ei1; congruence). subst i2.
  rewrite <- EB, <- EP in E2.
  eexists. exists (spec_urr link seid ies). eexists. eexists. split; [exact E1|]. split; [exact E2|].
  cbn [decoded3]. rewrite D1, D2, E. auto.
Qed.

Theorem update_urr_order_free link seid ies ies' :
  link < 4294967296 -> seid < 18446744073709551616 -> wf_urr false ies = true -> Permutation ies ies' ->
  exists d r r', update_urr link seid ies = Ok ([], r) /\ update_urr link seid ies' = Ok ([], r') /\
     decoded3 nl_CMD_ADD_URR ref_decode_urr (Ok r) = Some d /\ decoded3 nl_CMD_ADD_URR ref_decode_urr (Ok r') = Some d.
Proof.
  intros Hl Hs W P. destruct (spec_urr_perm false link seid _ _ P W) as (W' & E & _).
  destruct (update_urr_roundtrip link seid ies Hl Hs W) as (i1 & a1 & E1 & D1).
  destruct (update_urr_roundtrip link seid ies' Hl Hs W') as (i2 & a2 & E2 & D2).
  exists (spec_urr link seid ies). eexists. eexists. split; [exact E1|]. split; [exact E2|].
  cbn [decoded3]. rewrite D1, D2, E. auto.
Qed.

Theorem bar_order_free create link seid ies ies' :
  link < 4294967296 -> seid < 18446744073709551616 -> wf_bar ies = true -> Permutation ies ies' ->
  exists d, decoded3 nl_CMD_ADD_BAR ref_decode_bar (bar_op create link seid ies) = Some d /\
            decoded3 nl_CMD_ADD_BAR ref_decode_bar (bar_op create link seid ies') = Some d.
Proof.
  intros Hl Hs W P. destruct (spec_bar_perm link seid _ _ P W) as [W' E].
  destruct (bar_roundtrip create link seid ies Hl Hs W) as (i1 & a1 & E1 & D1).
  destruct (bar_roundtrip create link seid ies' Hl Hs W') as (i2 & a2 & E2 & D2).
  exists (spec_bar link seid ies). rewrite E1, E2. cbn [decoded3]. rewrite D1, D2, E. auto.
Qed.

(* ------------------------------------------------------------------ the bit-rate split, stated on its own *)
Theorem rate_split_exact v : v < 1099511627776 ->
  (N.shiftr v 8) mod 4294967296 * 256 + v mod 256 = v.
Proof.
  intros H. destruct (split40 v H) as [H1 H2]. rewrite (N.mod_small _ _ H1). exact H2.
Qed.

(* ------------------------------------------------------------------ the boolean monitors accept what the model emits *)
Lemma dqer_eqb_refl d : dqer_eqb d d = true.
Proof.
  unfold dqer_eqb. rewrite !(opt_eqb_refl N.eqb _ N.eqb_refl).
  rewrite !opt_eqb_refl by (intros; apply pair_eqb_refl; apply N.eqb_refl). reflexivity.
Qed.
Lemma dvol_eqb_refl d : dvol_eqb d d = true.
Proof. unfold dvol_eqb. rewrite !(opt_eqb_refl N.eqb _ N.eqb_refl). reflexivity. Qed.
Lemma durr_eqb_refl d : durr_eqb d d = true.
Proof. unfold durr_eqb. rewrite !(opt_eqb_refl N.eqb _ N.eqb_refl), !(opt_eqb_refl dvol_eqb _ dvol_eqb_refl). reflexivity. Qed.
Lemma dbar_eqb_refl d : dbar_eqb d d = true.
Proof. unfold dbar_eqb. rewrite !(opt_eqb_refl N.eqb _ N.eqb_refl). reflexivity. Qed.

Theorem monitor_accepts_qer create link seid ies :
  link < 4294967296 -> seid < 18446744073709551616 -> wf_qer ies = true ->
  match qer_op create link seid ies with
  | Ok (cmd, fl, _, attrs) => qer_req_ok create link seid ies cmd fl attrs = true
  | Err => False
  end.
Proof.
  intros Hl Hs W. destruct (qer_roundtrip create link seid ies Hl Hs W) as (id & attrs & E & D). rewrite E.
  unfold qer_req_ok. rewrite D. rewrite Bool.eqb_reflx. apply dqer_eqb_refl.
Qed.

Theorem monitor_accepts_urr link seid ies :
  link < 4294967296 -> seid < 18446744073709551616 ->
  (wf_urr true ies = true ->
   match create_urr link seid ies with
   | Ok (_, (cmd, fl, _, attrs)) => urr_req_ok true link seid ies cmd fl attrs = true | Err => False end) /\
  (wf_urr false ies = true ->
   match update_urr link seid ies with
   | Ok (_, (cmd, fl, _, attrs)) => urr_req_ok false link seid ies cmd fl attrs = true | Err => False end).
Proof.
  intros Hl Hs. split; intros W.
  - destruct (create_urr_roundtrip link seid ies Hl Hs W) as (id & attrs & E & _ & D). rewrite E.
    unfold urr_req_ok. rewrite D. cbn [Bool.eqb]. apply durr_eqb_refl.
  - destruct (update_urr_roundtrip link seid ies Hl Hs W) as (id & attrs & E & D). rewrite E.
    unfold urr_req_ok. rewrite D. cbn [Bool.eqb]. apply durr_eqb_refl.
Qed.

Theorem monitor_accepts_bar create link seid ies :
  link < 4294967296 -> seid < 18446744073709551616 -> wf_bar ies = true ->
  match bar_op create link seid ies with
  | Ok (cmd, fl, _, attrs) => bar_req_ok create link seid ies cmd fl attrs = true
  | Err => False
  end.
Proof.
  intros Hl Hs W. destruct (bar_roundtrip create link seid ies Hl Hs W) as (id & attrs & E & D). rewrite E.
  unfold bar_req_ok. rewrite D. rewrite Bool.eqb_reflx. apply dbar_eqb_refl.
Qed.
