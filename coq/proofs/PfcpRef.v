(* C12: the URR reference counts (refPdrNum) equal the number of PDRs naming the URR, through every per-session
   operation; detaching a URR from its last PDR / removing it returns its usage once, marked TERMR. *)
From Coq Require Import String List NArith ZArith Bool Lia.
From GoUpf Require Import Bytes FlagsGen ConstsGen HandlerGen Pfcp PfcpBase PfcpSess PfcpClose PfcpCat PfcpUsage.
Import ListNotations.
Local Open Scope N_scope.

(* ---------------------------------------------------------------- the invariant *)

Definition RefOK (s : sess) : Prop :=
  NoDup (map fst (s_pdrs s)) /\ NoDup (map fst (s_urrs s)) /\
  forall u inf, alookup u (s_urrs s) = Some inf -> ui_ref inf = pdr_refs s u.

(* what the operations need in addition: the stored related-URR sets are sets, and the uint16 counter has room *)
Definition RefInv (s : sess) : Prop :=
  RefOK s /\ (forall p us, alookup p (s_pdrs s) = Some us -> NoDup us) /\ N.of_nat (length (s_pdrs s)) < 65536.

Definition with_ref (inf : urrinfo) (r : N) : urrinfo :=
  mkUrr (ui_removed inf) (ui_seqn inf) (ui_durat inf) (ui_volum inf) (ui_event inf) (ui_mnop inf) r.

Lemma with_ref_same inf : with_ref inf (ui_ref inf) = inf.
Proof. destruct inf; reflexivity. Qed.

(* ---------------------------------------------------------------- counting PDRs that name a URR *)

Definition b2n (b : bool) : nat := if b then 1%nat else 0%nat.

Definition cnt (pdrs : list (N * list N)) (u : N) : nat := length (filter (fun p => memN u (snd p)) pdrs).

Lemma pdr_refs_cnt s u : pdr_refs s u = N.of_nat (cnt (s_pdrs s) u).
Proof. reflexivity. Qed.

Lemma cnt_cons a b pdrs u : cnt ((a, b) :: pdrs) u = (b2n (memN u b) + cnt pdrs u)%nat.
Proof. unfold cnt. cbn [filter snd]. destruct (memN u b); reflexivity. Qed.

Lemma cnt_le pdrs u : (cnt pdrs u <= length pdrs)%nat.
Proof.
  induction pdrs as [|[a b] l IH]; [cbn; lia|]. rewrite cnt_cons. cbn [length]. destruct (memN u b); cbn [b2n]; lia.
Qed.

Lemma cnt_lt pdrs p old u : In (p, old) pdrs -> memN u old = false -> (cnt pdrs u < length pdrs)%nat.
Proof.
  induction pdrs as [|[a b] l IH]; intros Hin Hm; [destruct Hin|]. rewrite cnt_cons. cbn [length].
  destruct Hin as [E|Hin].
  - inversion E; subst. rewrite Hm. cbn [b2n]. pose proof (cnt_le l u). lia.
  - specialize (IH Hin Hm). destruct (memN u b); cbn [b2n]; lia.
Qed.

Lemma cnt_pos pdrs p old u : In (p, old) pdrs -> memN u old = true -> (0 < cnt pdrs u)%nat.
Proof.
  induction pdrs as [|[a b] l IH]; intros Hin Hm; [destruct Hin|]. rewrite cnt_cons.
  destruct Hin as [E|Hin].
  - inversion E; subst. rewrite Hm. cbn [b2n]. lia.
  - specialize (IH Hin Hm). lia.
Qed.

Lemma cnt_aset_new p us pdrs u :
  alookup p pdrs = None -> cnt (aset p us pdrs) u = (cnt pdrs u + b2n (memN u us))%nat.
Proof.
  induction pdrs as [|[a b] l IH]; cbn [alookup aset]; intros H.
  - rewrite cnt_cons. unfold cnt. cbn. lia.
  - destruct (N.eqb p a); [discriminate|]. rewrite !cnt_cons, IH by exact H. lia.
Qed.

Lemma cnt_aset_old p us old pdrs u :
  alookup p pdrs = Some old -> (cnt (aset p us pdrs) u + b2n (memN u old) = cnt pdrs u + b2n (memN u us))%nat.
Proof.
  induction pdrs as [|[a b] l IH]; cbn [alookup aset]; intros H; [discriminate|].
  destruct (N.eqb p a).
  - inversion H; subst. rewrite !cnt_cons. lia.
  - rewrite !cnt_cons. specialize (IH H). lia.
Qed.

Lemma adel_notin {V} p (l : list (N * V)) : ~ In p (map fst l) -> adel p l = l.
Proof.
  unfold adel. induction l as [|[a b] l IH]; cbn [map fst filter In]; intros H; [reflexivity|].
  destruct (N.eqb_spec p a) as [->|Hne]; [exfalso; apply H; left; reflexivity|]. cbn [negb].
  rewrite IH; [reflexivity|]. intros Hi. apply H. right. exact Hi.
Qed.

Lemma cnt_adel p old pdrs u :
  NoDup (map fst pdrs) -> alookup p pdrs = Some old -> (cnt (adel p pdrs) u + b2n (memN u old) = cnt pdrs u)%nat.
Proof.
  induction pdrs as [|[a b] l IH]; cbn [alookup map fst]; intros Hd H; [discriminate|].
  inversion Hd as [|? ? Hna Hdl]; subst.
  unfold adel. cbn [filter fst]. fold (adel p l).
  destruct (N.eqb_spec p a) as [->|Hne]; cbn [negb].
  - inversion H; subst. rewrite adel_notin by exact Hna. rewrite cnt_cons. lia.
  - rewrite !cnt_cons. specialize (IH Hdl H). lia.
Qed.

Lemma length_aset_new {V} p (v : V) l : alookup p l = None -> length (aset p v l) = S (length l).
Proof.
  induction l as [|[a b] l IH]; cbn [alookup aset length]; intros H; [reflexivity|].
  destruct (N.eqb p a); [discriminate|]. cbn [length]. rewrite IH by exact H. reflexivity.
Qed.

Lemma length_aset_old {V} p (v v0 : V) l : alookup p l = Some v0 -> length (aset p v l) = length l.
Proof.
  induction l as [|[a b] l IH]; cbn [alookup aset length]; intros H; [discriminate|].
  destruct (N.eqb p a); [reflexivity|]. cbn [length]. rewrite IH by exact H. reflexivity.
Qed.

Lemma length_adel {V} p (l : list (N * V)) : (length (adel p l) <= length l)%nat.
Proof.
  unfold adel. induction l as [|x l IH]; cbn [filter length]; [lia|].
  destruct (negb (N.eqb p (fst x))); cbn [length]; lia.
Qed.

Lemma memN_filter u f l : memN u (filter f l) = memN u l && f u.
Proof.
  unfold memN. induction l as [|x l IH]; cbn [filter existsb]; [reflexivity|].
  destruct (N.eqb_spec u x) as [->|Hne].
  - destruct (f x) eqn:E; cbn [existsb orb andb]; [rewrite N.eqb_refl; reflexivity|].
    rewrite IH, !andb_false_r. reflexivity.
  - cbn [orb]. destruct (f x); cbn [existsb]; [|exact IH].
    destruct (N.eqb_spec u x); [contradiction|]. cbn [orb]. exact IH.
Qed.

Lemma dedup_NoDup l : NoDup (dedup l).
Proof.
  unfold dedup. assert (G : forall acc, NoDup acc -> NoDup (fold_left (fun acc x => addN x acc) l acc)).
  { induction l as [|a l IH]; intros acc Ha; cbn [fold_left]; [exact Ha|]. apply IH. apply addN_NoDup. exact Ha. }
  apply G. constructor.
Qed.

(* ---------------------------------------------------------------- the counters after a batch of increments / dissociations *)

Lemma incr_refs_lookup us : NoDup us -> forall l u,
  alookup u (fold_left (fun l u => incr_ref u l) us l) =
  match alookup u l with
  | None => None
  | Some inf => Some (if memN u us then with_ref inf ((ui_ref inf + 1) mod 65536) else inf)
  end.
Proof.
  induction 1 as [|a us Ha Hd IH]; intros l u; cbn [fold_left].
  - destruct (alookup u l); reflexivity.
  - rewrite IH. apply memN_false in Ha. unfold memN at 2. cbn [existsb]. fold (memN u us).
    unfold incr_ref. destruct (N.eqb_spec u a) as [->|Hne]; cbn [orb].
    + rewrite Ha. destruct (alookup a l) as [inf|] eqn:E; [|rewrite E; reflexivity].
      rewrite alookup_aset_same. reflexivity.
    + destruct (alookup a l) as [infa|]; [|reflexivity]. rewrite alookup_aset_other by exact Hne. reflexivity.
Qed.

Lemma incr_refs_NoDup us l : NoDup (map fst l) -> NoDup (map fst (fold_left (fun l u => incr_ref u l) us l)).
Proof.
  revert l. induction us as [|a us IH]; intros l H; cbn [fold_left]; [exact H|]. apply IH.
  unfold incr_ref. destruct (alookup a l); [apply aset_NoDup|]; exact H.
Qed.

(* the bookkeeping effect of diassociateURR *)
Definition dis_l (u : N) (l : list (N * urrinfo)) : list (N * urrinfo) :=
  match alookup u l with
  | Some inf => if 0 <? ui_ref inf then aset u (with_ref inf (ui_ref inf - 1)) l else l
  | None => l
  end.

Lemma set_urrs_id s : set_urrs (s_urrs s) s = s.
Proof. destruct s; reflexivity. Qed.

Lemma diassociate_s e u c : c_s (fst (diassociate e u c)) = set_urrs (dis_l u (s_urrs (c_s c))) (c_s c).
Proof.
  unfold diassociate, dis_l. destruct (alookup u (s_urrs (c_s c))) as [inf|]; [|cbn [fst]; rewrite set_urrs_id; reflexivity].
  destruct (0 <? ui_ref inf); [|cbn [fst]; rewrite set_urrs_id; reflexivity].
  match goal with |- context [if ?b then _ else _] => destruct b end.
  - match goal with |- context [drv e ?cx DQuery KURR u] =>
      pose proof (drv_s e cx DQuery KURR u) as Hs; destruct (drv e cx DQuery KURR u) as [c2 ok] end.
    cbn [fst] in *. rewrite Hs. reflexivity.
  - reflexivity.
Qed.

Lemma diassociate_all_s e us : forall c,
  c_s (fst (diassociate_all e us c)) = set_urrs (fold_left (fun l u => dis_l u l) us (s_urrs (c_s c))) (c_s c).
Proof.
  induction us as [|u us IH]; intros c; cbn [diassociate_all fold_left]; [cbn [fst]; rewrite set_urrs_id; reflexivity|].
  pose proof (diassociate_s e u c) as H1. destruct (diassociate e u c) as [c1 r1]. cbn [fst] in H1.
  pose proof (IH c1) as H2. destruct (diassociate_all e us c1) as [c2 r2]. cbn [fst] in *.
  rewrite H2, H1. reflexivity.
Qed.

Lemma dis_l_lookup a l u :
  alookup u (dis_l a l) =
  match alookup u l with
  | None => None
  | Some inf => Some (if N.eqb u a && (0 <? ui_ref inf) then with_ref inf (ui_ref inf - 1) else inf)
  end.
Proof.
  unfold dis_l. destruct (N.eqb_spec u a) as [->|Hne]; cbn [andb].
  - destruct (alookup a l) as [inf|] eqn:E; [|rewrite E; reflexivity].
    destruct (0 <? ui_ref inf); [rewrite alookup_aset_same | rewrite E]; reflexivity.
  - destruct (alookup a l) as [infa|]; [|destruct (alookup u l); reflexivity].
    destruct (0 <? ui_ref infa); [rewrite alookup_aset_other by exact Hne|]; destruct (alookup u l); reflexivity.
Qed.

Lemma dis_all_lookup us : NoDup us -> forall l u,
  alookup u (fold_left (fun l u => dis_l u l) us l) =
  match alookup u l with
  | None => None
  | Some inf => Some (if memN u us && (0 <? ui_ref inf) then with_ref inf (ui_ref inf - 1) else inf)
  end.
Proof.
  induction 1 as [|a us Ha Hd IH]; intros l u; cbn [fold_left].
  - destruct (alookup u l); reflexivity.
  - rewrite IH, dis_l_lookup. apply memN_false in Ha. unfold memN at 2. cbn [existsb]. fold (memN u us).
    destruct (alookup u l) as [inf|]; [|reflexivity].
    destruct (N.eqb_spec u a) as [->|Hne]; cbn [andb orb]; [|reflexivity].
    rewrite Ha. cbn [andb]. reflexivity.
Qed.

Lemma dis_all_NoDup us l : NoDup (map fst l) -> NoDup (map fst (fold_left (fun l u => dis_l u l) us l)).
Proof.
  revert l. induction us as [|a us IH]; intros l H; cbn [fold_left]; [exact H|]. apply IH.
  unfold dis_l. destruct (alookup a l) as [inf|]; [|exact H]. destruct (0 <? ui_ref inf); [apply aset_NoDup|]; exact H.
Qed.

(* ---------------------------------------------------------------- session-level preservation lemmas *)

Lemma RefInv_same s s' : s_pdrs s' = s_pdrs s -> s_urrs s' = s_urrs s -> RefInv s -> RefInv s'.
Proof. unfold RefInv, RefOK, pdr_refs. intros E1 E2. rewrite E1, E2. auto. Qed.

(* replacing the URR bookkeeping by one with the same reference counts (entries may disappear) *)
Lemma RefInv_urrs s l :
  RefInv s -> NoDup (map fst l) ->
  (forall u inf', alookup u l = Some inf' -> exists inf, alookup u (s_urrs s) = Some inf /\ ui_ref inf' = ui_ref inf) ->
  RefInv (set_urrs l s).
Proof.
  intros [[Hp [Hu Hr]] [Hrel Hlen]] Hl Hsub. split; [|split; [exact Hrel | exact Hlen]].
  split; [exact Hp|]. split; [exact Hl|]. cbn [set_urrs s_urrs]. intros u inf' H.
  destruct (Hsub _ _ H) as [inf [H0 E]]. rewrite E. apply (Hr _ _ H0).
Qed.

Lemma RefInv_aset_urr s i inf inf' :
  RefInv s -> alookup i (s_urrs s) = Some inf -> ui_ref inf' = ui_ref inf -> RefInv (set_urrs (aset i inf' (s_urrs s)) s).
Proof.
  intros HI Hi E. apply RefInv_urrs; [exact HI | apply aset_NoDup; apply HI|].
  intros u x H. destruct (N.eq_dec u i) as [->|Hne].
  - rewrite alookup_aset_same in H. inversion H; subst. exists inf. auto.
  - rewrite alookup_aset_other in H by exact Hne. exists x. auto.
Qed.

Lemma RefInv_create_urr s i inf :
  RefInv s -> ui_ref inf = pdr_refs s i mod 65536 -> RefInv (set_urrs (aset i inf (s_urrs s)) s).
Proof.
  intros [[Hp [Hu Hr]] [Hrel Hlen]] E. split; [|split; [exact Hrel | exact Hlen]].
  split; [exact Hp|]. split; [apply aset_NoDup; exact Hu|]. cbn [set_urrs s_urrs]. intros u x H.
  change (pdr_refs (set_urrs (aset i inf (s_urrs s)) s) u) with (pdr_refs s u).
  destruct (N.eq_dec u i) as [->|Hne].
  - rewrite alookup_aset_same in H. inversion H; subst. rewrite E. apply N.mod_small.
    rewrite pdr_refs_cnt. pose proof (cnt_le (s_pdrs s) i). lia.
  - rewrite alookup_aset_other in H by exact Hne. apply (Hr _ _ H).
Qed.

Definition incr_refs (us : list N) (l : list (N * urrinfo)) : list (N * urrinfo) := fold_left (fun l u => incr_ref u l) us l.
Definition dis_all (us : list N) (l : list (N * urrinfo)) : list (N * urrinfo) := fold_left (fun l u => dis_l u l) us l.

Lemma RefInv_create_pdr s p us :
  RefInv s -> NoDup us -> alookup p (s_pdrs s) = None -> N.of_nat (length (s_pdrs s)) + 1 < 65536 ->
  RefInv (set_pdrs (aset p us (s_pdrs s)) (set_urrs (incr_refs us (s_urrs s)) s)).
Proof.
  intros [[Hp [Hu Hr]] [Hrel Hlen]] Hus Hnew Hroom.
  unfold RefInv, RefOK, pdr_refs. cbn [set_pdrs set_urrs s_pdrs s_urrs].
  split; [split; [apply aset_NoDup; exact Hp | split; [apply incr_refs_NoDup; exact Hu|]]|split].
  - intros u inf' H. unfold incr_refs in H. rewrite (incr_refs_lookup us Hus) in H.
    destruct (alookup u (s_urrs s)) as [inf|] eqn:E; [|discriminate]. inversion H; clear H.
    pose proof (Hr _ _ E) as Href. rewrite pdr_refs_cnt in Href.
    fold (cnt (aset p us (s_pdrs s)) u). rewrite cnt_aset_new by exact Hnew.
    pose proof (cnt_le (s_pdrs s) u) as Hle.
    destruct (memN u us); cbn [b2n with_ref ui_ref].
    + rewrite N.mod_small by lia. lia.
    + rewrite Href. f_equal. lia.
  - intros p' us' H. destruct (N.eq_dec p' p) as [->|Hne].
    + rewrite alookup_aset_same in H. inversion H; subst. exact Hus.
    + rewrite alookup_aset_other in H by exact Hne. eapply Hrel; eauto.
  - rewrite length_aset_new by exact Hnew. lia.
Qed.

Lemma RefInv_update_pdr s p old new :
  RefInv s -> alookup p (s_pdrs s) = Some old -> NoDup new ->
  RefInv (set_pdrs (aset p new (s_pdrs s))
            (set_urrs (dis_all (filter (fun u => negb (memN u new)) old)
                               (incr_refs (filter (fun u => negb (memN u old)) new) (s_urrs s))) s)).
Proof.
  intros [[Hp [Hu Hr]] [Hrel Hlen]] Hold Hnew.
  pose proof (Hrel _ _ Hold) as Hdold.
  unfold RefInv, RefOK, pdr_refs. cbn [set_pdrs set_urrs s_pdrs s_urrs].
  split; [split; [apply aset_NoDup; exact Hp | split; [apply dis_all_NoDup; apply incr_refs_NoDup; exact Hu|]]|split].
  - intros u inf' H. unfold dis_all, incr_refs in H.
    rewrite (dis_all_lookup _ (NoDup_filter _ Hdold)), (incr_refs_lookup _ (NoDup_filter _ Hnew)) in H.
    destruct (alookup u (s_urrs s)) as [inf|] eqn:E; [|discriminate]. inversion H; clear H.
    pose proof (Hr _ _ E) as Href. rewrite pdr_refs_cnt in Href.
    fold (cnt (aset p new (s_pdrs s)) u).
    pose proof (cnt_aset_old p new old (s_pdrs s) u Hold) as Hc.
    pose proof (alookup_In _ _ _ Hold) as Hin.
    rewrite !memN_filter.
    destruct (memN u new) eqn:En, (memN u old) eqn:Eo; cbn [andb negb b2n] in *.
    + rewrite Href. f_equal. lia.
    + pose proof (cnt_lt _ _ _ u Hin Eo) as Hlt. cbn [with_ref ui_ref]. rewrite N.mod_small by lia. lia.
    + pose proof (cnt_pos _ _ _ u Hin Eo) as Hpos.
      destruct (N.ltb_spec 0 (ui_ref inf)) as [_|Hbad]; [|lia]. cbn [with_ref ui_ref]. lia.
    + rewrite Href. f_equal. lia.
  - intros p' us' H. destruct (N.eq_dec p' p) as [->|Hne].
    + rewrite alookup_aset_same in H. inversion H; subst. exact Hnew.
    + rewrite alookup_aset_other in H by exact Hne. eapply Hrel; eauto.
  - rewrite (length_aset_old _ _ _ _ Hold). exact Hlen.
Qed.

Lemma RefInv_remove_pdr s p rel :
  RefInv s -> alookup p (s_pdrs s) = Some rel ->
  RefInv (set_pdrs (adel p (s_pdrs s)) (set_urrs (dis_all rel (s_urrs s)) s)).
Proof.
  intros [[Hp [Hu Hr]] [Hrel Hlen]] Hold.
  pose proof (Hrel _ _ Hold) as Hdrel.
  unfold RefInv, RefOK, pdr_refs. cbn [set_pdrs set_urrs s_pdrs s_urrs].
  split; [split; [apply adel_NoDup; exact Hp | split; [apply dis_all_NoDup; exact Hu|]]|split].
  - intros u inf' H. unfold dis_all in H. rewrite (dis_all_lookup _ Hdrel) in H.
    destruct (alookup u (s_urrs s)) as [inf|] eqn:E; [|discriminate]. inversion H; clear H.
    pose proof (Hr _ _ E) as Href. rewrite pdr_refs_cnt in Href.
    fold (cnt (adel p (s_pdrs s)) u).
    pose proof (cnt_adel p rel (s_pdrs s) u Hp Hold) as Hc.
    pose proof (alookup_In _ _ _ Hold) as Hin.
    destruct (memN u rel) eqn:Er; cbn [andb b2n] in *.
    + pose proof (cnt_pos _ _ _ u Hin Er) as Hpos.
      destruct (N.ltb_spec 0 (ui_ref inf)) as [_|Hbad]; [|lia]. cbn [with_ref ui_ref]. lia.
    + rewrite Href. f_equal. lia.
  - intros p' us' H. destruct (N.eq_dec p' p) as [->|Hne].
    + rewrite alookup_adel_same in H. discriminate.
    + rewrite alookup_adel_other in H by exact Hne. eapply Hrel; eauto.
  - pose proof (length_adel p (s_pdrs s)). lia.
Qed.

(* ---------------------------------------------------------------- the sessions the PDR operations produce *)

Lemma create_pdr_s e o c :
  alookup (pdr_id o) (s_pdrs (c_s c)) = None ->
  c_s (create_pdr e o c) =
  set_pdrs (aset (pdr_id o) (dedup (po_urrs o)) (s_pdrs (c_s c)))
           (set_urrs (incr_refs (dedup (po_urrs o)) (s_urrs (c_s c))) (c_s c)).
Proof. intros H. unfold create_pdr. rewrite H. unfold create_pdr_new. rewrite drv_s. reflexivity. Qed.

Lemma decr_ref_dis_l u l : decr_ref u l = dis_l u l.
Proof. unfold decr_ref, dis_l, with_ref. destruct (alookup u l); reflexivity. Qed.

Lemma decr_refs_dis_all us : forall l, fold_left (fun l u => decr_ref u l) us l = dis_all us l.
Proof. unfold dis_all. induction us as [|u us IH]; intros l; cbn [fold_left]; [reflexivity|]. rewrite decr_ref_dis_l. apply IH. Qed.

(* the session a Create PDR for a HELD id leaves: the associations replaced (data plane accepted), or nothing changed *)
Lemma create_pdr_held_s e o c old :
  alookup (pdr_id o) (s_pdrs (c_s c)) = Some old ->
  c_s (create_pdr e o c) =
    set_pdrs (aset (pdr_id o) (dedup (po_urrs o)) (s_pdrs (c_s c)))
      (set_urrs (dis_all (filter (fun u => negb (memN u (dedup (po_urrs o)))) old)
                   (incr_refs (filter (fun u => negb (memN u old)) (dedup (po_urrs o))) (s_urrs (c_s c)))) (c_s c))
  \/ c_s (create_pdr e o c) = c_s c.
Proof.
  intros H. unfold create_pdr. rewrite H. unfold create_pdr_held.
  match goal with |- context [drv e ?cx DCreate KPDR (pdr_id o)] => pose proof (drv_s e cx DCreate KPDR (pdr_id o)) as Hs;
    destruct (drv e cx DCreate KPDR (pdr_id o)) as [c3 ok] end. cbn [fst] in Hs.
  destruct ok.
  - left. rewrite Hs. cbn [upd_s c_s]. rewrite decr_refs_dis_all. reflexivity.
  - right. cbn [upd_s c_s]. rewrite Hs. cbn [upd_s c_s]. destruct (c_s c); reflexivity.
Qed.

Lemma update_pdr_s e o c :
  c_s (fst (update_pdr e o c)) = c_s c \/
  exists old, alookup (pdr_id o) (s_pdrs (c_s c)) = Some old /\
    c_s (fst (update_pdr e o c)) =
    set_pdrs (aset (pdr_id o) (dedup (po_urrs o)) (s_pdrs (c_s c)))
      (set_urrs (dis_all (filter (fun u => negb (memN u (dedup (po_urrs o)))) old)
                         (incr_refs (filter (fun u => negb (memN u old)) (dedup (po_urrs o))) (s_urrs (c_s c)))) (c_s c)).
Proof.
  unfold update_pdr. destruct (alookup (pdr_id o) (s_pdrs (c_s c))) as [old|] eqn:El; [|left; reflexivity].
  pose proof (drv_s e c DUpdate KPDR (pdr_id o)) as Hs.
  destruct (drv e c DUpdate KPDR (pdr_id o)) as [c1 ok]. cbn [fst] in Hs.
  destruct (negb ok); [left; exact Hs|]. destruct (negb (po_has_urr_ie o)); [left; exact Hs|].
  right. exists old. split; [reflexivity|].
  match goal with |- context [diassociate_all e ?d ?cx] =>
    pose proof (diassociate_all_s e d cx) as H3; destruct (diassociate_all e d cx) as [c3 rs] end.
  cbn [fst] in *. cbn [upd_s c_s]. rewrite H3. cbn [upd_s c_s]. rewrite Hs. reflexivity.
Qed.

Lemma remove_pdr_s e id c :
  c_s (fst (remove_pdr e id c)) = c_s c \/
  exists i rel, id = Some i /\ alookup i (s_pdrs (c_s c)) = Some rel /\
    c_s (fst (remove_pdr e id c)) = set_pdrs (adel i (s_pdrs (c_s c))) (set_urrs (dis_all rel (s_urrs (c_s c))) (c_s c)).
Proof.
  unfold remove_pdr. destruct id as [i|]; [|left; reflexivity].
  destruct (alookup i (s_pdrs (c_s c))) as [rel|] eqn:El; [|left; reflexivity].
  pose proof (drv_s e c DRemove KPDR i) as Hs.
  destruct (drv e c DRemove KPDR i) as [c1 ok]. cbn [fst] in Hs.
  destruct (negb ok); [left; exact Hs|].
  right. exists i, rel. split; [reflexivity|]. split; [exact El|].
  pose proof (diassociate_all_s e rel c1) as H2. destruct (diassociate_all e rel c1) as [c2 rs].
  cbn [fst] in *. cbn [upd_s c_s]. rewrite H2. cbn [upd_s c_s]. rewrite Hs. reflexivity.
Qed.

(* ---------------------------------------------------------------- C12 (a): every per-session operation *)

(* the relation every operation except Create PDR satisfies: the invariant is kept, no PDR id appears *)
Definition rkeep (c c' : sctx) : Prop :=
  (RefInv (c_s c) -> RefInv (c_s c')) /\
  (forall p, In p (map fst (s_pdrs (c_s c'))) -> In p (map fst (s_pdrs (c_s c)))) /\
  (length (s_pdrs (c_s c')) <= length (s_pdrs (c_s c)))%nat.

Lemma rkeep_refl c : rkeep c c.
Proof. split; [auto|]. split; [auto | lia]. Qed.

Lemma rkeep_trans a b c : rkeep a b -> rkeep b c -> rkeep a c.
Proof. intros [A1 [A2 A3]] [B1 [B2 B3]]. split; [auto|]. split; [auto | lia]. Qed.

Lemma rkeep_same_pdrs c c' :
  s_pdrs (c_s c') = s_pdrs (c_s c) -> (RefInv (c_s c) -> RefInv (c_s c')) -> rkeep c c'.
Proof. intros E H. split; [exact H|]. rewrite E. split; [auto | lia]. Qed.

Lemma rkeep_same c c' : c_s c' = c_s c -> rkeep c c'.
Proof. intros E. apply rkeep_same_pdrs; rewrite E; auto. Qed.

Lemma create_simple_rkeep e k id c : rkeep c (create_simple e k id c).
Proof.
  unfold create_simple. destruct id as [i|]; [|apply rkeep_refl].
  apply rkeep_same_pdrs; rewrite drv_s; cbn [upd_s c_s]; [destruct k; reflexivity|].
  apply RefInv_same; destruct k; reflexivity.
Qed.

Lemma update_simple_rkeep e k id c : rkeep c (update_simple e k id c).
Proof.
  unfold update_simple. destruct id as [i|]; [|apply rkeep_refl].
  destruct (memN i (recorded (c_s c) k)); [|apply rkeep_refl]. apply rkeep_same. apply drv_s.
Qed.

Lemma remove_simple_rkeep e k id c : rkeep c (remove_simple e k id c).
Proof.
  unfold remove_simple. destruct id as [i|]; [|apply rkeep_refl].
  destruct (memN i (recorded (c_s c) k)); [|apply rkeep_refl].
  pose proof (drv_s e c DRemove k i) as Hs. destruct (drv e c DRemove k i) as [c1 ok]. cbn [fst] in Hs.
  destruct ok; [|apply rkeep_same; exact Hs].
  apply rkeep_same_pdrs; cbn [upd_s c_s]; rewrite Hs; [destruct k; reflexivity|].
  apply RefInv_same; destruct k; reflexivity.
Qed.

Lemma create_urr_rkeep e o c : rkeep c (create_urr e o c).
Proof.
  unfold create_urr. destruct (uo_id o) as [i|]; [|apply rkeep_refl].
  match goal with |- context [drv e ?cx DCreate KURR i] => set (c1 := cx) end.
  pose proof (drv_s e c1 DCreate KURR i) as Hs. destruct (drv e c1 DCreate KURR i) as [c2 ok]. cbn [fst] in Hs.
  assert (R1 : RefInv (c_s c) -> RefInv (c_s c1)).
  { intros HI. cbn [c1 upd_s c_s]. apply RefInv_create_urr; [exact HI | reflexivity]. }
  destruct ok.
  - apply rkeep_same_pdrs; rewrite Hs; [reflexivity | exact R1].
  - destruct (held_urr (c_s c) i) as [u|] eqn:Hh.
    + apply rkeep_same_pdrs; cbn [upd_s c_s]; rewrite Hs; [reflexivity|].
      intros HI. apply RefInv_create_urr; [apply R1; exact HI|].
      destruct (held_urr_spec _ _ _ Hh) as [Hl _].
      change (pdr_refs (c_s c1) i) with (pdr_refs (c_s c) i).
      destruct HI as [[_ [_ Hr]] [_ Hlen]]. rewrite (Hr _ _ Hl). symmetry. apply N.mod_small.
      rewrite pdr_refs_cnt. pose proof (cnt_le (s_pdrs (c_s c)) i). lia.
    + apply rkeep_same_pdrs; rewrite Hs; [reflexivity | exact R1].
Qed.

Lemma update_urr_rkeep e o c : rkeep c (fst (update_urr e o c)).
Proof.
  unfold update_urr. destruct (uo_id o) as [i|]; [|apply rkeep_refl].
  destruct (alookup i (s_urrs (c_s c))) as [inf|] eqn:El; [|apply rkeep_refl].
  match goal with |- context [drv e ?cx DUpdate KURR i] =>
    pose proof (drv_s e cx DUpdate KURR i) as Hs; destruct (drv e cx DUpdate KURR i) as [c2 ok] end.
  cbn [fst] in *. apply rkeep_same_pdrs; rewrite Hs; cbn [upd_s c_s]; [reflexivity|].
  intros HI. apply (RefInv_aset_urr _ _ inf); [exact HI | exact El|]. destruct (uo_info o), (uo_method o); reflexivity.
Qed.

Lemma forget_urr_rkeep ok i rs c : rkeep c (forget_urr ok i rs c).
Proof.
  destruct (forget_urr_s ok i rs c) as [E|E]; [apply rkeep_same; exact E|].
  apply rkeep_same_pdrs; rewrite E; [reflexivity|].
  intros HI. apply RefInv_urrs; [exact HI | apply adel_NoDup; apply HI|].
  intros u x H. destruct (N.eq_dec u i) as [->|Hne]; [rewrite alookup_adel_same in H; discriminate|].
  rewrite alookup_adel_other in H by exact Hne. exists x. auto.
Qed.

Lemma remove_urr_rkeep e id c : rkeep c (fst (remove_urr e id c)).
Proof.
  unfold remove_urr. destruct id as [i|]; [|apply rkeep_refl].
  destruct (alookup i (s_urrs (c_s c))) as [inf|] eqn:El; [|apply rkeep_refl].
  match goal with |- context [drv e ?cx DRemove KURR i] =>
    pose proof (drv_s e cx DRemove KURR i) as Hs; destruct (drv e cx DRemove KURR i) as [c2 ok] end.
  cbn [fst] in *. eapply rkeep_trans; [|apply forget_urr_rkeep].
  apply rkeep_same_pdrs; rewrite Hs; cbn [upd_s c_s]; [reflexivity|].
  intros HI. apply (RefInv_aset_urr _ _ inf); [exact HI | exact El | reflexivity].
Qed.

Lemma query_urr_rkeep e id c : rkeep c (fst (query_urr e id c)).
Proof.
  unfold query_urr. destruct id as [i|]; [|apply rkeep_refl].
  destruct (alookup i (s_urrs (c_s c))) as [inf|]; [|apply rkeep_refl].
  pose proof (drv_s e c DQuery KURR i) as Hs. destruct (drv e c DQuery KURR i) as [c1 ok]. cbn [fst] in *.
  apply rkeep_same. exact Hs.
Qed.

Lemma update_pdr_rkeep e o c : rkeep c (fst (update_pdr e o c)).
Proof.
  destruct (update_pdr_s e o c) as [E|[old [Hold E]]]; [apply rkeep_same; exact E|].
  unfold rkeep. rewrite E. split; [|split]; cbn [set_pdrs set_urrs s_pdrs].
  - intros HI. apply RefInv_update_pdr; [exact HI | exact Hold | apply dedup_NoDup].
  - intros p Hp. apply keys_aset in Hp. destruct Hp as [->|Hp]; [eapply alookup_key; eauto | exact Hp].
  - rewrite (length_aset_old _ _ _ _ Hold). lia.
Qed.

Lemma remove_pdr_rkeep e id c : rkeep c (fst (remove_pdr e id c)).
Proof.
  destruct (remove_pdr_s e id c) as [E|[i [rel [_ [Hold E]]]]]; [apply rkeep_same; exact E|].
  unfold rkeep. rewrite E. split; [|split]; cbn [set_pdrs set_urrs s_pdrs].
  - intros HI. apply RefInv_remove_pdr; [exact HI | exact Hold].
  - intros p Hp. apply keys_adel in Hp. apply Hp.
  - apply length_adel.
Qed.

(* Create PDR: the id must be new, and there must be room below 65536 PDRs *)
Definition pdr_fresh (o : pdr_op) (s : sess) : Prop :=
  alookup (pdr_id o) (s_pdrs s) = None /\ N.of_nat (length (s_pdrs s)) + 1 < 65536.

Theorem create_pdr_RefInv e o c : RefInv (c_s c) -> pdr_fresh o (c_s c) -> RefInv (c_s (create_pdr e o c)).
Proof.
  intros HI [Hnew Hroom]. rewrite (create_pdr_s _ _ _ Hnew). apply RefInv_create_pdr; [exact HI | apply dedup_NoDup | exact Hnew | exact Hroom].
Qed.

(* ... and for an id the session still holds - no freshness needed any more (fix "Create PDR for a held id replaces its
   associations"): the counts stay exact whether the data plane accepts or rejects the duplicate *)
Theorem create_pdr_held_RefInv e o c old :
  RefInv (c_s c) -> alookup (pdr_id o) (s_pdrs (c_s c)) = Some old -> RefInv (c_s (create_pdr e o c)).
Proof.
  intros HI Hold. destruct (create_pdr_held_s e o c old Hold) as [E|E]; rewrite E; [|exact HI].
  apply RefInv_update_pdr; [exact HI | exact Hold | apply dedup_NoDup].
Qed.

Theorem create_pdr_RefInv_any e o c :
  RefInv (c_s c) -> N.of_nat (length (s_pdrs (c_s c))) + 1 < 65536 -> RefInv (c_s (create_pdr e o c)).
Proof.
  intros HI Hroom. destruct (alookup (pdr_id o) (s_pdrs (c_s c))) as [old|] eqn:E.
  - eapply create_pdr_held_RefInv; eauto.
  - apply create_pdr_RefInv; [exact HI | split; assumption].
Qed.

(* static well-formedness of the Create PDR list of a request against the session it is applied to *)
Definition cpdr_wf (o : ops) (s : sess) : Prop :=
  NoDup (map pdr_id (cPDR o)) /\
  (forall x, In x (cPDR o) -> alookup (pdr_id x) (s_pdrs s) = None) /\
  N.of_nat (length (s_pdrs s) + length (cPDR o)) < 65536.

Lemma fold_create_pdr_RefInv e l : forall c,
  NoDup (map pdr_id l) -> (forall x, In x l -> alookup (pdr_id x) (s_pdrs (c_s c)) = None) ->
  N.of_nat (length (s_pdrs (c_s c)) + length l) < 65536 ->
  RefInv (c_s c) -> RefInv (c_s (fold_ctx (create_pdr e) l c)).
Proof.
  induction l as [|a l IH]; intros c Hd Hnew Hroom HI; [exact HI|].
  rewrite fold_ctx_cons. cbn [map length] in *. inversion Hd as [|? ? Hna Hdl]; subst.
  assert (Ha : alookup (pdr_id a) (s_pdrs (c_s c)) = None) by (apply Hnew; left; reflexivity).
  apply IH; [exact Hdl| | |].
  - intros x Hx. rewrite (create_pdr_s _ _ _ Ha). cbn [set_pdrs s_pdrs]. rewrite alookup_aset_other.
    + apply Hnew. right. exact Hx.
    + intros E. apply Hna. rewrite <- E. apply in_map. exact Hx.
  - rewrite (create_pdr_s _ _ _ Ha). cbn [set_pdrs s_pdrs]. rewrite length_aset_new by exact Ha. lia.
  - apply create_pdr_RefInv; [exact HI|]. split; [exact Ha | lia].
Qed.

Fixpoint occurs (x : string) (l : list string) : nat :=
  match l with [] => 0%nat | y :: r => ((if String.eqb y x then 1 else 0) + occurs x r)%nat end.

Definition CPDR : string := "CreatePDR:CreatePDR".

Lemma run_categories_RefInv_gen e o : forall names c r,
  run_categories e o names c = Some r -> RefInv (c_s c) -> (occurs CPDR names <= 1)%nat ->
  (occurs CPDR names = 1%nat -> cpdr_wf o (c_s c)) -> RefInv (c_s (fst r)).
Proof.
  induction names as [|n names IH]; intros c r; cbn [run_categories].
  - intros H HI _ _. inversion H. exact HI.
  - destruct (run_category e o n c) as [[c1 r1]|] eqn:E1; [|discriminate].
    destruct (run_categories e o names c1) as [[c2 r2]|] eqn:E2; [|discriminate].
    intros H HI Hocc Hwf. inversion H; subst. cbn [fst]. cbn [occurs] in Hocc, Hwf.
    destruct (String.eqb n CPDR) eqn:En.
    + apply String.eqb_eq in En. subst n. unfold CPDR in E1. rewrite run_category_cpdr in E1. inversion E1; subst.
      destruct (Hwf ltac:(lia)) as [W1 [W2 W3]].
      apply (IH _ _ E2); [apply fold_create_pdr_RefInv; assumption | lia | intros; lia].
    + unfold CPDR in En. rewrite (run_category_without_cpdr _ _ _ _ En) in E1.
      assert (K : rkeep c c1).
      { refine (run_category_rel rkeep rkeep_refl rkeep_trans e (without_cpdr o) _ _ _ _ _ _ _ _ _ _ n c (c1, r1) E1); intros.
        - apply create_simple_rkeep.
        - apply update_simple_rkeep.
        - apply remove_simple_rkeep.
        - apply create_urr_rkeep.
        - apply update_urr_rkeep.
        - apply remove_urr_rkeep.
        - apply query_urr_rkeep.
        - match goal with Hx : In _ (cPDR (without_cpdr o)) |- _ => destruct Hx end.
        - apply update_pdr_rkeep.
        - apply remove_pdr_rkeep. }
      destruct K as [K1 [K2 K3]]. cbn [fst] in *.
      apply (IH _ _ E2); [auto | lia|].
      intros Ho. destruct (Hwf ltac:(lia)) as [W1 [W2 W3]]. split; [exact W1|]. split.
      * intros x Hx. apply alookup_None. intros Hk. apply K2 in Hk. specialize (W2 x Hx). apply alookup_None in W2. auto.
      * lia.
Qed.

(* C12 (a) for a whole request: ANY category order in which the Create PDR loop runs at most once *)
Theorem run_categories_RefInv e o names c r :
  run_categories e o names c = Some r -> RefInv (c_s c) -> (occurs CPDR names <= 1)%nat -> cpdr_wf o (c_s c) ->
  RefInv (c_s (fst r)).
Proof. intros H HI Ho Hw. eapply run_categories_RefInv_gen; eauto. Qed.

(* ---- without any freshness hypothesis (the Create PDR ids of a request may name PDRs the session holds, and may repeat):
   only room below 65536 PDRs is needed *)
Definition cpdr_room (o : ops) (s : sess) : Prop := N.of_nat (length (s_pdrs s) + length (cPDR o)) < 65536.

Lemma create_pdr_len e o c : (length (s_pdrs (c_s (create_pdr e o c))) <= S (length (s_pdrs (c_s c))))%nat.
Proof.
  destruct (alookup (pdr_id o) (s_pdrs (c_s c))) as [old|] eqn:E.
  - destruct (create_pdr_held_s e o c old E) as [H|H]; rewrite H; [|lia].
    cbn [set_pdrs s_pdrs]. rewrite (length_aset_old _ _ _ _ E). lia.
  - rewrite (create_pdr_s _ _ _ E). cbn [set_pdrs s_pdrs]. rewrite length_aset_new by exact E. lia.
Qed.

Lemma fold_create_pdr_RefInv_room e l : forall c,
  N.of_nat (length (s_pdrs (c_s c)) + length l) < 65536 ->
  RefInv (c_s c) -> RefInv (c_s (fold_ctx (create_pdr e) l c)).
Proof.
  induction l as [|a l IH]; intros c Hroom HI; [exact HI|].
  rewrite fold_ctx_cons. cbn [length] in Hroom. apply IH.
  - pose proof (create_pdr_len e a c). lia.
  - apply create_pdr_RefInv_any; [exact HI | lia].
Qed.

Lemma run_categories_RefInv_room_gen e o : forall names c r,
  run_categories e o names c = Some r -> RefInv (c_s c) -> (occurs CPDR names <= 1)%nat ->
  (occurs CPDR names = 1%nat -> cpdr_room o (c_s c)) -> RefInv (c_s (fst r)).
Proof.
  induction names as [|n names IH]; intros c r; cbn [run_categories].
  - intros H HI _ _. inversion H. exact HI.
  - destruct (run_category e o n c) as [[c1 r1]|] eqn:E1; [|discriminate].
    destruct (run_categories e o names c1) as [[c2 r2]|] eqn:E2; [|discriminate].
    intros H HI Hocc Hwf. inversion H; subst. cbn [fst]. cbn [occurs] in Hocc, Hwf.
    destruct (String.eqb n CPDR) eqn:En.
    + apply String.eqb_eq in En. subst n. unfold CPDR in E1. rewrite run_category_cpdr in E1. inversion E1; subst.
      pose proof (Hwf ltac:(lia)) as W.
      apply (IH _ _ E2); [apply fold_create_pdr_RefInv_room; assumption | lia | intros; lia].
    + unfold CPDR in En. rewrite (run_category_without_cpdr _ _ _ _ En) in E1.
      assert (K : rkeep c c1).
      { refine (run_category_rel rkeep rkeep_refl rkeep_trans e (without_cpdr o) _ _ _ _ _ _ _ _ _ _ n c (c1, r1) E1); intros.
        - apply create_simple_rkeep.
        - apply update_simple_rkeep.
        - apply remove_simple_rkeep.
        - apply create_urr_rkeep.
        - apply update_urr_rkeep.
        - apply remove_urr_rkeep.
        - apply query_urr_rkeep.
        - match goal with Hx : In _ (cPDR (without_cpdr o)) |- _ => destruct Hx end.
        - apply update_pdr_rkeep.
        - apply remove_pdr_rkeep. }
      destruct K as [K1 [K2 K3]]. cbn [fst] in *.
      apply (IH _ _ E2); [auto | lia|].
      intros Ho. pose proof (Hwf ltac:(lia)) as W. unfold cpdr_room in *. lia.
Qed.

(* C12 (a) for a whole request, at full strength: ANY category order in which the Create PDR loop runs at most once, ANY
   Create PDR ids *)
Theorem run_categories_RefInv_room e o names c r :
  run_categories e o names c = Some r -> RefInv (c_s c) -> (occurs CPDR names <= 1)%nat -> cpdr_room o (c_s c) ->
  RefInv (c_s (fst r)).
Proof. intros H HI Ho Hw. eapply run_categories_RefInv_room_gen; eauto. Qed.

Lemma mod_order_once : (occurs CPDR mod_order <= 1)%nat. Proof. vm_compute. apply le_n. Qed.
Lemma est_order_once : (occurs CPDR est_order <= 1)%nat. Proof. vm_compute. apply le_n. Qed.

(* the session a request starts from satisfies the invariant *)
Lemma RefInv_empty lid rid node : RefInv (empty_sess lid rid node).
Proof.
  unfold RefInv, RefOK. cbn. repeat split; try constructor; try discriminate; try lia.
Qed.

(* Sess.Close keeps it (it only removes) *)
Theorem sess_close_RefInv e c c' rs : sess_close e c = Some (c', rs) -> RefInv (c_s c) -> RefInv (c_s c').
Proof.
  unfold sess_close. destruct (close_categories e close_order c) as [[c1 r1]|] eqn:E; [|discriminate].
  assert (K : rkeep c c1).
  { refine (close_categories_rel rkeep rkeep_refl rkeep_trans e _ _ _ close_order c (c1, r1) E); intros;
      [apply remove_simple_rkeep | apply remove_urr_rkeep | apply remove_pdr_rkeep]. }
  intros H HI. inversion H; subst. cbn [upd_s c_s]. apply (RefInv_same c1.(c_s)); [reflexivity | reflexivity|].
  apply K. exact HI.
Qed.

(* emission keeps it: it only advances UR-SEQN or deletes the entry of a removed URR *)
Lemma emit_ref_sub extra d rs : forall urrs, NoDup (map fst urrs) ->
  NoDup (map fst (fst (emit extra d urrs rs))) /\
  forall u inf', alookup u (fst (emit extra d urrs rs)) = Some inf' ->
    exists inf, alookup u urrs = Some inf /\ ui_ref inf' = ui_ref inf.
Proof.
  induction rs as [|r rest IH]; intros urrs Hd.
  - cbn [emit fst]. split; [exact Hd|]. intros u inf' H. exists inf'. auto.
  - destruct (alookup (r_urr r) urrs) as [inf|] eqn:E.
    + rewrite (emit_cons_some _ _ _ _ _ _ E). cbn [fst].
      assert (Hd1 : NoDup (map fst (emit_next d inf (r_urr r) urrs))).
      { unfold emit_next. destruct (d && ui_removed inf); [apply adel_NoDup | apply aset_NoDup]; exact Hd. }
      destruct (IH _ Hd1) as [A B]. split; [exact A|]. intros u inf' H.
      destruct (B _ _ H) as [inf1 [H1 E1]]. unfold emit_next in H1. destruct (d && ui_removed inf).
      * destruct (N.eq_dec u (r_urr r)) as [->|Hne]; [rewrite alookup_adel_same in H1; discriminate|].
        rewrite alookup_adel_other in H1 by exact Hne. exists inf1. auto.
      * destruct (N.eq_dec u (r_urr r)) as [->|Hne].
        -- rewrite alookup_aset_same in H1. inversion H1; subst. exists inf. split; [exact E | exact E1].
        -- rewrite alookup_aset_other in H1 by exact Hne. exists inf1. auto.
    + rewrite (emit_cons_none _ _ _ _ _ E). apply IH. exact Hd.
Qed.

Theorem emit_RefInv extra d s rs : RefInv s -> RefInv (set_urrs (fst (emit extra d (s_urrs s) rs)) s).
Proof.
  intros HI. assert (Hd : NoDup (map fst (s_urrs s))) by apply HI.
  destruct (emit_ref_sub extra d rs (s_urrs s) Hd) as [A B]. apply RefInv_urrs; assumption.
Qed.

(* ---------------------------------------------------------------- C12 (b): dissociation *)

(* the outcome of a DQuery / DUpdate call as the model data plane computes it *)
Definition query_ok (e : env) (c : sctx) (k : kind) (id : N) : bool :=
  negb (fails e DQuery k id) && dp_has (c_dp c) (s_lid (c_s c), k, id).

Lemma drv_query e c k id :
  drv e c DQuery k id = (mkCtx (c_s c) (c_dp c) (c_out c ++ [ODrv DQuery k (s_lid (c_s c)) id (query_ok e c k id)]),
                         query_ok e c k id).
Proof. unfold drv, dp_call, query_ok. destruct (fails e DQuery k id); reflexivity. Qed.

(* last PDR gone (1 -> 0): exactly one QueryURR driver call; its reports come back with TERMR or-ed in *)
Theorem diassociate_last e u c inf :
  alookup u (s_urrs (c_s c)) = Some inf -> ui_ref inf = 1 ->
  diassociate e u c =
    (mkCtx (set_urrs (aset u (with_ref inf 0) (s_urrs (c_s c))) (c_s c)) (c_dp c)
           (c_out c ++ [ODrv DQuery KURR (s_lid (c_s c)) u (query_ok e c KURR u)]),
     if query_ok e c KURR u then map (or_trig USAR_TRIG_TERMR) (usage e DQuery u) else []).
Proof.
  intros Hu Hr. unfold diassociate. rewrite Hu, Hr. cbn [N.ltb N.compare N.sub N.eqb ui_ref Pos.compare Pos.compare_cont].
  replace (1 - 1) with 0 by reflexivity. cbn [N.eqb]. rewrite drv_query. reflexivity.
Qed.

(* still referenced (n -> n-1 > 0): no driver call, no report *)
Theorem diassociate_shared e u c inf :
  alookup u (s_urrs (c_s c)) = Some inf -> 1 < ui_ref inf ->
  diassociate e u c = (upd_s c (fun s => set_urrs (aset u (with_ref inf (ui_ref inf - 1)) (s_urrs s)) s), []).
Proof.
  intros Hu Hr. unfold diassociate. rewrite Hu.
  destruct (N.ltb_spec 0 (ui_ref inf)) as [_|Hbad]; [|lia]. cbn [ui_ref].
  destruct (N.eqb_spec (ui_ref inf - 1) 0) as [Hz|_]; [lia|]. reflexivity.
Qed.

Theorem diassociate_idle e u c :
  (alookup u (s_urrs (c_s c)) = None \/ exists inf, alookup u (s_urrs (c_s c)) = Some inf /\ ui_ref inf = 0) ->
  diassociate e u c = (c, []).
Proof.
  intros [Hu|[inf [Hu Hr]]]; unfold diassociate; rewrite Hu; [reflexivity|]. rewrite Hr. reflexivity.
Qed.

(* with the invariant, the stored count IS the number of PDRs naming u *)
Corollary diassociate_last_RefOK e u c inf :
  RefOK (c_s c) -> alookup u (s_urrs (c_s c)) = Some inf -> pdr_refs (c_s c) u = 1 ->
  snd (diassociate e u c) = (if query_ok e c KURR u then map (or_trig USAR_TRIG_TERMR) (usage e DQuery u) else []) /\
  c_out (fst (diassociate e u c)) = c_out c ++ [ODrv DQuery KURR (s_lid (c_s c)) u (query_ok e c KURR u)].
Proof.
  intros [_ [_ Hr]] Hu Hp. rewrite (diassociate_last e u c inf Hu); [split; reflexivity|]. rewrite (Hr _ _ Hu). exact Hp.
Qed.

Corollary diassociate_shared_RefOK e u c inf :
  RefOK (c_s c) -> alookup u (s_urrs (c_s c)) = Some inf -> 1 < pdr_refs (c_s c) u ->
  snd (diassociate e u c) = [] /\ c_out (fst (diassociate e u c)) = c_out c.
Proof.
  intros [_ [_ Hr]] Hu Hp. rewrite (diassociate_shared e u c inf Hu); [split; reflexivity|]. rewrite (Hr _ _ Hu). exact Hp.
Qed.

(* ---------------------------------------------------------------- C12 (c): Remove URR / Query URR *)

Definition remove_ok (c : sctx) (k : kind) (id : N) : bool := dp_has (c_dp c) (s_lid (c_s c), k, id).

(* whether the entry of a removed URR is still needed: a returned report names it, or the removal failed *)
Definition remove_keeps (e : env) (c : sctx) (i : N) : bool :=
  negb (remove_ok c KURR i) || names_urr i (map (or_trig USAR_TRIG_TERMR) (usage e DRemove i)).

Theorem remove_urr_termr e i c inf :
  alookup i (s_urrs (c_s c)) = Some inf ->
  snd (remove_urr e (Some i) c) =
    (if remove_ok c KURR i then map (or_trig USAR_TRIG_TERMR) (usage e DRemove i) else []) /\
  c_out (fst (remove_urr e (Some i) c)) = c_out c ++ [ODrv DRemove KURR (s_lid (c_s c)) i (remove_ok c KURR i)] /\
  (if remove_keeps e c i
   then exists inf', alookup i (s_urrs (c_s (fst (remove_urr e (Some i) c)))) = Some inf' /\ ui_removed inf' = true /\
                     ui_seqn inf' = ui_seqn inf /\ ui_ref inf' = ui_ref inf
   else alookup i (s_urrs (c_s (fst (remove_urr e (Some i) c)))) = None).
Proof.
  intros Hu. unfold remove_urr, remove_keeps. rewrite Hu. unfold drv, dp_call, remove_ok. cbn [upd_s c_s c_dp set_urrs s_lid].
  destruct (dp_has (c_dp c) (s_lid (c_s c), KURR, i)); cbn [fst snd c_out c_s s_urrs negb orb];
    (split; [reflexivity|]; split; [rewrite forget_urr_out; reflexivity|]); unfold forget_urr; cbn [andb negb].
  - destruct (names_urr i (map (or_trig USAR_TRIG_TERMR) (usage e DRemove i))); cbn [negb upd_s c_s set_urrs s_urrs].
    + eexists; split; [apply alookup_aset_same|]; repeat split.
    + apply alookup_adel_same.
  - eexists; split; [apply alookup_aset_same|]; repeat split.
Qed.

Lemma removed_urr_unknown e i c inf :
  alookup i (s_urrs (c_s c)) = Some inf -> remove_keeps e c i = false ->
  alookup i (s_urrs (c_s (fst (remove_urr e (Some i) c)))) = None.
Proof.
  intros H K. pose proof (remove_urr_termr e i c inf H) as [_ [_ T]]. rewrite K in T. exact T.
Qed.

(* in every case: an entry of that id which is still there is marked removed *)
Lemma remove_urr_marked e i c x :
  alookup i (s_urrs (c_s (fst (remove_urr e (Some i) c)))) = Some x -> ui_removed x = true.
Proof.
  destruct (alookup i (s_urrs (c_s c))) as [inf|] eqn:E0.
  - destruct (remove_urr_termr e i c inf E0) as [_ [_ T]]. intros Hx.
    destruct (remove_keeps e c i); [|congruence].
    destruct T as [inf' [H1 [H2 _]]]. rewrite H1 in Hx. inversion Hx; subst. exact H2.
  - unfold remove_urr. rewrite E0. cbn [fst]. congruence.
Qed.

Theorem query_urr_immer e i c inf :
  alookup i (s_urrs (c_s c)) = Some inf ->
  query_urr e (Some i) c =
    (mkCtx (c_s c) (c_dp c) (c_out c ++ [ODrv DQuery KURR (s_lid (c_s c)) i (query_ok e c KURR i)]),
     if query_ok e c KURR i then map (or_trig USAR_TRIG_IMMER) (usage e DQuery i) else []).
Proof. intros Hu. unfold query_urr. rewrite Hu, drv_query. reflexivity. Qed.

(* every IE of a Session Deletion Response carries TERMR *)
Theorem emit_termr_all d urrs rs ie :
  In ie (snd (emit USAR_TRIG_TERMR d urrs rs)) -> flag_of USAR_TRIG_TERMR (ur_trig ie) = true.
Proof.
  intros H. destruct (emit_ies_in _ _ _ _ _ H) as [r [_ [inf [_ E]]]]. rewrite E. apply termr_in_ie.
Qed.

(* ---------------------------------------------------------------- finding: Create PDR for an id the session already has *)

(* Create PDR 1 {URR 7}; a second Create PDR 1 {URR 7} (the driver rejects it, but refPdrNum was already
   incremented and the PDR entry overwritten); Remove PDR 1: the URR has lost its last PDR, yet no usage report
   is returned and its reference count stays 1 with no PDR left. *)
Definition dup_pdr_history : list event :=
  [EvRecv 0 1 (MAssocSetup (IeVal 0) []) (mkEnv [] []);
   EvRecv 0 2 (MEst (IeVal 0) (IeVal 10)
     (mkOps [] [] [mkUrrOp (Some 7) (Some 2) None] [] [mkPdrOp (Some 1) [7] true false] [] [] [] [] [] [] [] [] [] [] []))
     (mkEnv [] []);
   EvRecv 0 3 (MMod 1 IeAbsent (mkOps [] [] [] [] [mkPdrOp (Some 1) [7] true false] [] [] [] [] [] [] [] [] [] [] []))
     (mkEnv [] []);
   EvRecv 0 4 (MMod 1 IeAbsent (mkOps [] [] [] [] [] [] [] [] [] [Some 1] [] [] [] [] [] []))
     (mkEnv [] [(DQuery, 7, [mkRpt 7 1 0 [10; 10; 10; 1; 1; 1] 5 100 200])])].

(* the history of the former finding create-pdr-existing-id (fixed): the duplicate Create PDR 1 {7} is rejected by the
   data plane and leaves the counts alone, so Remove PDR 1 finds URR 7's last reference and returns its final usage *)
Example create_pdr_existing_id_exact :
  match run (init 0 1) dup_pdr_history with
  | Ok (w, os) =>
      map (fun x => match x with ODrv a b c d ok => Some (a, b, c, d, ok) | _ => None end) (firstn 2 (nth 3 os []))
        = [Some (DRemove, KPDR, 1, 1, true); Some (DQuery, KURR, 1, 7, true)] /\
      map (option_map (fun s => (s_pdrs s, map (fun x => (fst x, ui_ref (snd x))) (s_urrs s)))) (w_slots w)
        = [Some ([], [(7, 0)])]
  | Fault _ => False
  end.
Proof. vm_compute. split; reflexivity. Qed.

(* ---------------------------------------------------------------- the per-operation family, stated plainly *)

Theorem RefInv_unfold s :
  RefInv s <->
  ((NoDup (map fst (s_pdrs s)) /\ NoDup (map fst (s_urrs s)) /\
    forall u inf, alookup u (s_urrs s) = Some inf -> ui_ref inf = pdr_refs s u) /\
   (forall p us, alookup p (s_pdrs s) = Some us -> NoDup us) /\ N.of_nat (length (s_pdrs s)) < 65536).
Proof. reflexivity. Qed.

Theorem update_pdr_RefInv e o c : RefInv (c_s c) -> RefInv (c_s (fst (update_pdr e o c))).
Proof. exact (proj1 (update_pdr_rkeep e o c)). Qed.
Theorem remove_pdr_RefInv e id c : RefInv (c_s c) -> RefInv (c_s (fst (remove_pdr e id c))).
Proof. exact (proj1 (remove_pdr_rkeep e id c)). Qed.
Theorem create_urr_RefInv e o c : RefInv (c_s c) -> RefInv (c_s (create_urr e o c)).
Proof. exact (proj1 (create_urr_rkeep e o c)). Qed.
Theorem update_urr_RefInv e o c : RefInv (c_s c) -> RefInv (c_s (fst (update_urr e o c))).
Proof. exact (proj1 (update_urr_rkeep e o c)). Qed.
Theorem remove_urr_RefInv e id c : RefInv (c_s c) -> RefInv (c_s (fst (remove_urr e id c))).
Proof. exact (proj1 (remove_urr_rkeep e id c)). Qed.
Theorem query_urr_RefInv e id c : RefInv (c_s c) -> RefInv (c_s (fst (query_urr e id c))).
Proof. exact (proj1 (query_urr_rkeep e id c)). Qed.
Theorem simple_RefInv e k id c :
  RefInv (c_s c) ->
  RefInv (c_s (create_simple e k id c)) /\ RefInv (c_s (update_simple e k id c)) /\ RefInv (c_s (remove_simple e k id c)).
Proof.
  intros H. split; [apply create_simple_rkeep; exact H|]. split; [apply update_simple_rkeep | apply remove_simple_rkeep]; exact H.
Qed.
Theorem orders_once : (occurs CPDR est_order <= 1)%nat /\ (occurs CPDR mod_order <= 1)%nat.
Proof. exact (conj est_order_once mod_order_once). Qed.
Theorem or_trig_flags r :
  flag_of USAR_TRIG_TERMR (r_trig (or_trig USAR_TRIG_TERMR r)) = true /\
  flag_of USAR_TRIG_IMMER (r_trig (or_trig USAR_TRIG_IMMER r)) = true.
Proof. exact (conj (or_trig_termr r) (or_trig_immer r)). Qed.

(* ---------------------------------------------------------------- Close marks every URR removed: one IE per URR in a Deletion Response *)

Definition rm_mono (c c' : sctx) : Prop :=
  forall u inf', alookup u (s_urrs (c_s c')) = Some inf' ->
    exists inf, alookup u (s_urrs (c_s c)) = Some inf /\ (ui_removed inf = true -> ui_removed inf' = true).

Lemma rm_mono_refl c : rm_mono c c.
Proof. intros u inf' H. exists inf'. auto. Qed.

Lemma rm_mono_trans a b c : rm_mono a b -> rm_mono b c -> rm_mono a c.
Proof.
  intros A B u inf2 H2. destruct (B _ _ H2) as [inf1 [H1 E1]]. destruct (A _ _ H1) as [inf0 [H0 E0]].
  exists inf0. split; [exact H0 | auto].
Qed.

Lemma rm_mono_same c c' : s_urrs (c_s c') = s_urrs (c_s c) -> rm_mono c c'.
Proof. intros E u inf' H. rewrite E in H. exists inf'. auto. Qed.

Lemma remove_simple_rm e k id c : rm_mono c (remove_simple e k id c).
Proof.
  unfold remove_simple. destruct id as [i|]; [|apply rm_mono_refl].
  destruct (memN i (recorded (c_s c) k)); [|apply rm_mono_refl].
  pose proof (drv_s e c DRemove k i) as Hs. destruct (drv e c DRemove k i) as [c1 ok]. cbn [fst] in Hs.
  apply rm_mono_same. destruct ok; cbn [upd_s c_s]; rewrite Hs; [destruct k|]; reflexivity.
Qed.

Lemma forget_urr_rm ok i rs c : rm_mono c (forget_urr ok i rs c).
Proof.
  destruct (forget_urr_s ok i rs c) as [E|E]; [apply rm_mono_same; rewrite E; reflexivity|].
  intros u inf' H. rewrite E in H. cbn [set_urrs s_urrs] in H.
  destruct (N.eq_dec u i) as [->|Hne]; [rewrite alookup_adel_same in H; discriminate|].
  rewrite alookup_adel_other in H by exact Hne. exists inf'. auto.
Qed.

Lemma remove_urr_rm e id c : rm_mono c (fst (remove_urr e id c)).
Proof.
  unfold remove_urr. destruct id as [i|]; [|apply rm_mono_refl].
  destruct (alookup i (s_urrs (c_s c))) as [inf|] eqn:El; [|apply rm_mono_refl].
  match goal with |- context [drv e ?cx DRemove KURR i] =>
    pose proof (drv_s e cx DRemove KURR i) as Hs; destruct (drv e cx DRemove KURR i) as [c2 ok] end.
  cbn [fst] in *. apply (rm_mono_trans c c2); [|apply forget_urr_rm].
  intros u inf' H. rewrite Hs in H. cbn [upd_s c_s set_urrs s_urrs] in H.
  destruct (N.eq_dec u i) as [->|Hne].
  - rewrite alookup_aset_same in H. inversion H; subst. exists inf. split; [exact El | reflexivity].
  - rewrite alookup_aset_other in H by exact Hne. exists inf'. auto.
Qed.

Lemma dis_all_removed us : forall l u inf', alookup u (dis_all us l) = Some inf' ->
  exists inf, alookup u l = Some inf /\ ui_removed inf' = ui_removed inf.
Proof.
  unfold dis_all. induction us as [|a us IH]; intros l u inf' H; cbn [fold_left] in H; [exists inf'; auto|].
  destruct (IH _ _ _ H) as [inf1 [H1 E1]]. rewrite dis_l_lookup in H1.
  destruct (alookup u l) as [inf|]; [|discriminate]. exists inf. split; [reflexivity|].
  inversion H1; subst. rewrite E1. destruct (N.eqb u a && (0 <? ui_ref inf)); reflexivity.
Qed.

Lemma remove_pdr_rm e id c : rm_mono c (fst (remove_pdr e id c)).
Proof.
  destruct (remove_pdr_s e id c) as [E|[i [rel [_ [_ E]]]]]; [apply rm_mono_same; rewrite E; reflexivity|].
  intros u inf' H. rewrite E in H. cbn [set_pdrs set_urrs s_urrs] in H.
  destruct (dis_all_removed _ _ _ _ H) as [inf [H0 E0]]. exists inf. split; [exact H0 | congruence].
Qed.

Lemma fold_remove_urr_marks e ids : forall c u inf',
  In u ids -> alookup u (s_urrs (c_s (fst (fold_rpt (remove_urr e) (map Some ids) c)))) = Some inf' ->
  ui_removed inf' = true.
Proof.
  induction ids as [|a ids IH]; intros c u inf' Hin H; [destruct Hin|].
  cbn [map fold_rpt] in H.
  pose proof (remove_urr_marked e a c) as T.
  destruct (remove_urr e (Some a) c) as [c1 r1] eqn:E1.
  assert (M : rm_mono c1 (fst (fold_rpt (remove_urr e) (map Some ids) c1))).
  { apply (fold_rpt_rel rm_mono rm_mono_refl rm_mono_trans). intros; apply remove_urr_rm. }
  pose proof (IH c1 u inf') as IH1.
  destruct (fold_rpt (remove_urr e) (map Some ids) c1) as [c2 r2]. cbn [fst] in *.
  destruct (N.eq_dec u a) as [->|Hne].
  - destruct (M _ _ H) as [inf1 [H1 E]]. apply E. apply (T inf1). exact H1.
  - destruct Hin as [Ha|Hin]; [congruence|]. apply IH1; assumption.
Qed.

Definition URRCAT : string := "URRIDs:RemoveURR".

Lemma close_categories_marks e : forall names c r,
  close_categories e names c = Some r -> In URRCAT names ->
  forall u inf', alookup u (s_urrs (c_s (fst r))) = Some inf' -> ui_removed inf' = true.
Proof.
  assert (Hrel : forall names c r, close_categories e names c = Some r -> rm_mono c (fst r)).
  { intros names c r E. refine (close_categories_rel rm_mono rm_mono_refl rm_mono_trans e _ _ _ names c r E); intros;
      [apply remove_simple_rm | apply remove_urr_rm | apply remove_pdr_rm]. }
  induction names as [|n names IH]; intros c r; cbn [close_categories]; [intros _ []|].
  destruct (close_category e n c) as [[c1 r1]|] eqn:E1; [|discriminate].
  destruct (close_categories e names c1) as [[c2 r2]|] eqn:E2; [|discriminate].
  intros H Hin u inf' Hu. inversion H; subst. cbn [fst] in Hu.
  destruct (String.eqb n URRCAT) eqn:En.
  - apply String.eqb_eq in En. subst n. unfold URRCAT in E1.
    assert (Ec : close_category e "URRIDs:RemoveURR" c =
                 Some (fold_rpt (remove_urr e) (map Some (map fst (s_urrs (c_s c)))) c)) by reflexivity.
    rewrite Ec in E1. clear Ec. injection E1 as E1.
    assert (Hc1 : c1 = fst (fold_rpt (remove_urr e) (map Some (map fst (s_urrs (c_s c)))) c)) by (rewrite E1; reflexivity).
    destruct (Hrel _ _ _ E2 _ _ Hu) as [inf1 [H1 E]]. cbn [fst] in H1. apply E.
    assert (M1 : rm_mono c c1).
    { rewrite Hc1. apply (fold_rpt_rel rm_mono rm_mono_refl rm_mono_trans). intros; apply remove_urr_rm. }
    destruct (M1 _ _ H1) as [inf0 [H0 _]]. apply alookup_key in H0.
    apply (fold_remove_urr_marks e (map fst (s_urrs (c_s c))) c u inf1 H0).
    rewrite <- Hc1. exact H1.
  - destruct Hin as [Heq|Hin]; [subst n; unfold URRCAT in En; discriminate|].
    apply (IH c1 (c2, r2) E2 Hin u inf' Hu).
Qed.

Lemma close_order_has_urr : In URRCAT close_order.
Proof.
  assert (H : existsb (String.eqb URRCAT) close_order = true) by (vm_compute; reflexivity).
  apply existsb_exists in H. destruct H as [x [Hx E]]. apply String.eqb_eq in E. subst. exact Hx.
Qed.

Theorem sess_close_marks_removed e c c' rs :
  sess_close e c = Some (c', rs) ->
  forall u inf', alookup u (s_urrs (c_s c')) = Some inf' -> ui_removed inf' = true.
Proof.
  unfold sess_close. destruct (close_categories e close_order c) as [[c1 r1]|] eqn:E; [|discriminate].
  intros H u inf' Hu. inversion H; subst. cbn [upd_s c_s set_q s_urrs] in Hu.
  exact (close_categories_marks e _ _ _ E close_order_has_urr u inf' Hu).
Qed.

(* Session Deletion Response: at most one usage-report IE per URR, each with TERMR *)
Theorem deletion_reports_once e c c' rs u :
  sess_close e c = Some (c', rs) ->
  (length (ies_for u (snd (emit USAR_TRIG_TERMR true (s_urrs (c_s c')) rs))) <= 1)%nat /\
  forall ie, In ie (snd (emit USAR_TRIG_TERMR true (s_urrs (c_s c')) rs)) -> flag_of USAR_TRIG_TERMR (ur_trig ie) = true.
Proof.
  intros H. split; [|intros ie; apply emit_termr_all].
  destruct (emit USAR_TRIG_TERMR true (s_urrs (c_s c')) rs) as [urrs' ies] eqn:Ee. cbn [snd].
  destruct (alookup u (s_urrs (c_s c'))) as [inf|] eqn:Eu.
  - apply (emit_once_per_removed _ _ _ _ _ _ _ Ee Eu). eapply sess_close_marks_removed; eauto.
  - rewrite (proj1 (emit_unknown_no_ie _ _ _ _ _ _ _ Ee Eu)). cbn. lia.
Qed.
