(* T-gen tie for C16: the constants that model/FlowDesc.v fixes by hand are the ones found in
   /repo's flowdesc.go and gtp5g.go (gen/FlowDescGen.v is regenerated on every run). *)
From Coq Require Import List NArith String.
From GoUpf Require Import FlowDescGen FlowTypes FlowDesc.
Import ListNotations.
Local Open Scope N_scope.
Local Open Scope string_scope.

Definition model_shape :=
  ( (* ParseUint bit sizes: protocol, ports *) [8], [16; 16; 16],
    (* keywords in the order ParseFlowDesc tests them; value stored for ip *)
    map txt ["permit"; "in"; "out"; "ip"; "from"; "to"], 255,
    map txt ["any"; "assigned"], [0; 128; 999999; 999999],
    (* strings.Split(s, ","), strings.SplitN(port, "-", 2) *)
    map txt [","; "-"], 2,
    (* newFlowDesc: attribute order (direction has two alternative literals) and value kinds *)
    ["FLOW_DESCRIPTION_ACTION"; "FLOW_DESCRIPTION_DIRECTION"; "FLOW_DESCRIPTION_DIRECTION";
     "FLOW_DESCRIPTION_PROTOCOL"; "FLOW_DESCRIPTION_SRC_IPV4"; "FLOW_DESCRIPTION_SRC_MASK";
     "FLOW_DESCRIPTION_DEST_IPV4"; "FLOW_DESCRIPTION_DEST_MASK"; "FLOW_DESCRIPTION_SRC_PORT";
     "FLOW_DESCRIPTION_DEST_PORT"],
    ["AttrU8 SDF_FILTER_PERMIT"; "AttrU8 SDF_FILTER_IN"; "AttrU8 SDF_FILTER_OUT"; "AttrU8";
     "AttrBytes"; "AttrBytes"; "AttrBytes"; "AttrBytes"; "AttrBytes"; "AttrBytes"],
    map txt ["permit"; "in"; "out"],
    (* convertSlice: shifts and word stride *)
    [16; 16], [4; 4] ).

Definition source_shape :=
  ( fd_proto_bits, fd_port_bits, map txt fd_keywords, fd_ip_proto, map txt fd_addr_keywords, fd_cidrmask_args,
    map txt fd_port_separators, fd_splitn, fd_attr_types, fd_attr_values, map txt fd_action_dir_keywords,
    fd_word_shifts, fd_word_strides ).

(* the keywords of the model are these literals *)
Lemma model_keywords :
  [kw_permit; kw_in; kw_out; kw_ip; kw_from; kw_to; kw_any; kw_assigned]
  = map txt ["permit"; "in"; "out"; "ip"; "from"; "to"; "any"; "assigned"].
Proof. reflexivity. Qed.

Lemma source_shape_ok : source_shape = model_shape.
Proof. vm_compute. reflexivity. Qed.
