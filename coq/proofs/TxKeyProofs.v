From Coq Require Import String Ascii List NArith Bool DecimalString DecimalN DecimalPos Decimal.
From GoUpf Require Import TxKey TxKeyGen.
Import ListNotations.
Local Open Scope string_scope.

Lemma nodash_digits d : nodash (NilEmpty.string_of_uint d) = true.
Proof. induction d; cbn; auto. Qed.

Lemma nodash_dec n : nodash (dec n) = true.
Proof.
  unfold dec, NilZero.string_of_uint. destruct (N.to_uint n) eqn:E; try reflexivity; rewrite <- E at 1;
  try (cbn; apply nodash_digits).
Qed.

Lemma to_uint_nonnil n : N.to_uint n <> Nil.
Proof.
  destruct n as [|p]; cbn; [discriminate|]. apply DecimalPos.Unsigned.to_uint_nonnil.
Qed.

Lemma dec_inj n n' : dec n = dec n' -> n = n'.
Proof.
  unfold dec. intros H. apply DecimalN.Unsigned.to_uint_inj.
  pose proof (NilZero.usu _ (to_uint_nonnil n)) as A. pose proof (NilZero.usu _ (to_uint_nonnil n')) as B.
  rewrite H in A. rewrite A in B. injection B as ->. reflexivity.
Qed.

Lemma dash_in x y : nodash (x ++ String "-" y) = false.
Proof. induction x as [|c r IH]; cbn [append nodash]; [reflexivity|]. rewrite IH. apply andb_false_r. Qed.

Lemma split_last_dash a : forall a' d d', nodash d = true -> nodash d' = true ->
  a ++ String "-" d = a' ++ String "-" d' -> a = a' /\ d = d'.
Proof.
  induction a as [|c r IH]; intros [|c' r'] d d' Hd Hd' H.
  - cbn [append] in H. injection H as ->. split; reflexivity.
  - cbn [append] in H. injection H as <- ->. rewrite dash_in in Hd. discriminate.
  - cbn [append] in H. injection H as -> <-. rewrite dash_in in Hd'. discriminate.
  - cbn [append] in H. injection H as -> H. destruct (IH _ _ _ Hd Hd' H) as [-> ->]. split; reflexivity.
Qed.

Theorem trid_inj a s a' s' : trid a s = trid a' s' -> a = a' /\ s = s'.
Proof.
  unfold trid. intros H. change (?x ++ "-" ++ ?y) with (x ++ String "-" y) in H. destruct (split_last_dash _ _ _ _ (nodash_dec s) (nodash_dec s') H) as [-> Hd].
  split; [reflexivity | apply dec_inj; exact Hd].
Qed.

Example trid_examples : trid "127.0.0.1:8805" 16777215 = "127.0.0.1:8805-16777215" /\ trid "[fe80::1%a-b]:8805" 0 = "[fe80::1%a-b]:8805-0".
Proof. split; reflexivity. Qed.

Lemma app_empty_r s : s ++ "" = s.
Proof. induction s as [|c r IH]; cbn [append]; [reflexivity | rewrite IH; reflexivity]. Qed.

(* the format every generated site must use renders exactly the model key *)
Lemma render_key a n : render "%s-%d" [AStr a; ANum n] = Some (trid a n).
Proof. unfold trid. cbn [render option_map]. rewrite app_empty_r. reflexivity. Qed.

Definition site_ok (s : string * string * list string) : bool :=
  String.eqb (snd (fst s)) "%s-%d" && Nat.eqb (List.length (snd s)) 2.

Lemma sites_render : forallb site_ok txkey_sites = true ->
  forall site f args, In (site, f, args) txkey_sites -> forall a n, render f [AStr a; ANum n] = Some (trid a n).
Proof.
  intros H site f args Hin a n. rewrite forallb_forall in H. specialize (H _ Hin).
  unfold site_ok in H. cbn [fst snd] in H. apply andb_prop in H as [H _]. apply String.eqb_eq in H. subst f.
  apply render_key.
Qed.

Lemma sites_ok : forallb site_ok txkey_sites = true.
Proof. vm_compute. reflexivity. Qed.

Theorem sites_injective : forall s1 f1 g1 s2 f2 g2 a1 n1 a2 n2 k,
  In (s1, f1, g1) txkey_sites -> In (s2, f2, g2) txkey_sites ->
  render f1 [AStr a1; ANum n1] = Some k -> render f2 [AStr a2; ANum n2] = Some k -> a1 = a2 /\ n1 = n2.
Proof.
  intros s1 f1 g1 s2 f2 g2 a1 n1 a2 n2 k H1 H2 R1 R2.
  rewrite (sites_render sites_ok _ _ _ H1) in R1. rewrite (sites_render sites_ok _ _ _ H2) in R2.
  injection R1 as <-. injection R2 as R2. symmetry in R2. apply trid_inj. exact R2.
Qed.
