From Coq Require Import List ZArith Bool String Lia.
From GoUpf Require Import TimerGen Timed.
Import ListNotations.
Local Open Scope Z_scope.

Lemma source_tparams_ok : source_tparams = tp_ok.
Proof. vm_compute. reflexivity. Qed.

(* ---------------------------------------------------------------- sender *)

Definition times (l : list act) : list Z := map act_time l.

Lemma tx_run_gone p T N ds : tx_run p T N TxGone ds = (TxGone, []).
Proof. induction ds as [|d r IH]; cbn [tx_run tx_fire]; [reflexivity|]. rewrite IH. reflexivity. Qed.

(* every action happens no earlier than the expiry it answers, consecutive ones at least T apart *)
Lemma tx_run_spaced T N : forall ds k due, 0 <= T -> Forall (fun d => 0 <= d) ds ->
  spaced T due (times (snd (tx_run tp_ok T N (TxWait k due) ds))).
Proof.
  induction ds as [|d r IH]; intros k due HT Hd; cbn [tx_run]; [exact I|].
  inversion Hd as [|? ? Hd0 Hr]; subst. cbn [tx_fire tp_ok tp_tx_rearm].
  destruct (Nat.ltb k N).
  - specialize (IH (S k) (due + d + T) HT Hr).
    destruct (tx_run tp_ok T N (TxWait (S k) (due + d + T)) r) as [s2 a2]. cbn [snd times map app act_time spaced] in *.
    split; [lia | exact IH].
  - rewrite tx_run_gone. cbn [snd times map app act_time spaced]. split; [lia | exact I].
Qed.

(* ... and no later than delta after it, when the loop is never busy for longer than delta *)
Lemma tx_run_punctual T N delta : forall ds k due, Forall (fun d => d <= delta) ds ->
  punctual T delta due (times (snd (tx_run tp_ok T N (TxWait k due) ds))).
Proof.
  induction ds as [|d r IH]; intros k due Hd; cbn [tx_run]; [exact I|].
  inversion Hd as [|? ? Hd0 Hr]; subst. cbn [tx_fire tp_ok tp_tx_rearm].
  destruct (Nat.ltb k N).
  - specialize (IH (S k) (due + d + T) Hr).
    destruct (tx_run tp_ok T N (TxWait (S k) (due + d + T)) r) as [s2 a2]. cbn [snd times map app act_time punctual] in *.
    split; [lia | exact IH].
  - rewrite tx_run_gone. cbn [snd times map app act_time punctual]. split; [lia | exact I].
Qed.

(* exactly N - k retransmissions, then the request is abandoned and its bookkeeping released; further (stale)
   expiries do nothing *)
Lemma tx_run_shape T N : forall ds k due, (k <= N)%nat -> (N - k < List.length ds)%nat ->
  fst (tx_run tp_ok T N (TxWait k due) ds) = TxGone /\
  map is_retrans (snd (tx_run tp_ok T N (TxWait k due) ds)) = repeat true (N - k) ++ [false].
Proof.
  induction ds as [|d r IH]; intros k due Hk Hl; cbn [List.length] in Hl; [lia|].
  cbn [tx_run tx_fire tp_ok tp_tx_rearm].
  destruct (Nat.ltb k N) eqn:E.
  - apply Nat.ltb_lt in E. destruct (IH (S k) (due + d + T)) as [H1 H2]; [lia | lia |].
    destruct (tx_run tp_ok T N (TxWait (S k) (due + d + T)) r) as [s2 a2]. cbn [fst snd] in *.
    split; [exact H1|]. cbn [app map is_retrans]. rewrite H2.
    replace (N - k)%nat with (S (N - S k)) by lia. reflexivity.
  - apply Nat.ltb_ge in E. rewrite tx_run_gone. cbn [fst snd app map is_retrans].
    replace (N - k)%nat with 0%nat by lia. split; reflexivity.
Qed.

(* never more than the budget, however many expiries are handled *)
Lemma tx_run_budget T N : forall ds k due, (k <= N)%nat ->
  (List.length (filter is_retrans (snd (tx_run tp_ok T N (TxWait k due) ds))) <= N - k)%nat.
Proof.
  induction ds as [|d r IH]; intros k due Hk; cbn [tx_run]; [cbn; lia|].
  cbn [tx_fire tp_ok tp_tx_rearm]. destruct (Nat.ltb k N) eqn:E.
  - apply Nat.ltb_lt in E. specialize (IH (S k) (due + d + T) ltac:(lia)).
    destruct (tx_run tp_ok T N (TxWait (S k) (due + d + T)) r) as [s2 a2]. cbn [snd app filter is_retrans List.length] in *. lia.
  - rewrite tx_run_gone. cbn. lia.
Qed.

(* a response retires the request: expiries handled afterwards do nothing *)
Lemma tx_after_response p T N s ds : tx_run p T N (tx_resp s) ds = (TxGone, []).
Proof. apply tx_run_gone. Qed.

(* without the re-arm on every path (a failed write that returns first) a request with N >= 1 is never retired *)
Lemma tx_no_rearm_stalls T N ds due :
  (1 <= N)%nat -> ds <> [] ->
  fst (tx_run (mkTP true true true false true true true true true true) T N (TxWait 0 due) ds) = TxStalled 1.
Proof.
  intros HN Hds. destruct ds as [|d r]; [congruence|]. cbn [tx_run tx_fire tp_tx_rearm].
  assert (E : Nat.ltb 0 N = true) by (apply Nat.ltb_lt; lia). rewrite E.
  assert (S : forall l, tx_run (mkTP true true true false true true true true true true) T N (TxStalled 1) l = (TxStalled 1, [])).
  { induction l as [|x l IH]; cbn [tx_run tx_fire]; [reflexivity|]. rewrite IH. reflexivity. }
  rewrite S. reflexivity.
Qed.

(* ---------------------------------------------------------------- receiver *)

(* the retention timer is armed once, at creation: responses and duplicates do not move it *)
Lemma rx_due_constant T N t0 : forall evs s,
  forallb not_fire evs = true ->
  (exists c, s = RxHeld (Some (t0 + rx_window T N)) c) ->
  exists c, rx_run tp_ok T N s evs = RxHeld (Some (t0 + rx_window T N)) c.
Proof.
  induction evs as [|e r IH]; intros s Hnf [c Hs]; cbn [rx_run]; [exists c; exact Hs|].
  cbn [forallb] in Hnf. apply andb_prop in Hnf. destruct Hnf as [He Hr]. subst s.
  apply IH; [exact Hr|]. destruct e; cbn [rx_step fst tp_ok tp_rx_arm_create]; [eexists; reflexivity | eexists; reflexivity | discriminate].
Qed.

(* whatever happened before - answered or not - the expiry releases the bookkeeping *)
Lemma rx_fire_releases T N t0 evs :
  forallb not_fire evs = true ->
  rx_run tp_ok T N (rx_create tp_ok T N t0) (evs ++ [RxFire]) = RxGone.
Proof.
  intros Hnf. assert (R : forall l s, rx_run tp_ok T N s (l ++ [RxFire]) = fst (rx_step tp_ok T N (rx_run tp_ok T N s l) RxFire)).
  { induction l as [|x l IH]; intros s; cbn [app rx_run]; [reflexivity | apply IH]. }
  rewrite R. destruct (rx_due_constant T N t0 evs (rx_create tp_ok T N t0) Hnf) as [c Hc].
  - exists false. reflexivity.
  - rewrite Hc. reflexivity.
Qed.

(* a duplicate inside the window is answered from the store iff a response was produced, and changes nothing *)
Lemma rx_dup_spec p T N due c t :
  rx_step p T N (RxHeld due c) (RxDup t) = (RxHeld due c, [if c then ReAnswer t else Ignore t]).
Proof. destruct due; reflexivity. Qed.

(* variant "armed when the response is sent": a request that is never answered is never released *)
Lemma rx_arm_on_respond_leaks T N t0 evs :
  forallb (fun e => match e with RxRespond _ => false | _ => true end) evs = true ->
  rx_run (mkTP true true true true false true true true true true) T N
         (rx_create (mkTP true true true true false true true true true true) T N t0) evs = RxHeld None false.
Proof.
  unfold rx_create. cbn [tp_rx_arm_create]. induction evs as [|e r IH]; intros H; cbn [rx_run]; [reflexivity|].
  cbn [forallb] in H. apply andb_prop in H. destruct H as [He Hr].
  destruct e; [discriminate | |]; cbn [rx_step fst]; apply IH; exact Hr.
Qed.

(* ---------------------------------------------------------------- dispatch *)

Lemma tx_expiry_leaves_rx {V} key (rxm : list (akey * V)) : tx_expiry_rx_table tp_ok key rxm = rxm.
Proof. reflexivity. Qed.

(* variant "the sender's timer posts an RX event": the receive transaction with the same key is deleted *)
Lemma tx_expiry_as_rx_deletes : 
  tx_expiry_rx_table (mkTP false true true true true true true true true true) "10.0.0.1:8805-7"%string
                     [("10.0.0.1:8805-7"%string, RxHeld (Some 100) true)] = [].
Proof. reflexivity. Qed.

(* ---------------------------------------------------------------- the same, for the parameters read from the source *)

Lemma src_tx_spaced T N t0 ds : 0 <= T -> Forall (fun d => 0 <= d) ds ->
  spaced T (t0 + T) (times (snd (tx_run source_tparams T N (tx_start source_tparams T t0) ds))).
Proof. rewrite source_tparams_ok. intros. apply tx_run_spaced; assumption. Qed.

Lemma src_tx_punctual T N delta t0 ds : Forall (fun d => d <= delta) ds ->
  punctual T delta (t0 + T) (times (snd (tx_run source_tparams T N (tx_start source_tparams T t0) ds))).
Proof. rewrite source_tparams_ok. intros. apply tx_run_punctual; assumption. Qed.

Lemma src_tx_shape T N t0 ds : (N < List.length ds)%nat ->
  fst (tx_run source_tparams T N (tx_start source_tparams T t0) ds) = TxGone /\
  map is_retrans (snd (tx_run source_tparams T N (tx_start source_tparams T t0) ds)) = repeat true N ++ [false].
Proof.
  rewrite source_tparams_ok. intros H. pose proof (tx_run_shape T N ds 0%nat (t0 + T) ltac:(lia) ltac:(lia)) as R.
  rewrite Nat.sub_0_r in R. exact R.
Qed.

Lemma src_tx_budget T N t0 ds :
  (List.length (filter is_retrans (snd (tx_run source_tparams T N (tx_start source_tparams T t0) ds))) <= N)%nat.
Proof.
  rewrite source_tparams_ok. pose proof (tx_run_budget T N ds 0%nat (t0 + T) ltac:(lia)) as R. rewrite Nat.sub_0_r in R. exact R.
Qed.

Lemma src_rx_due_constant T N t0 evs : forallb not_fire evs = true ->
  exists c, rx_run source_tparams T N (rx_create source_tparams T N t0) evs = RxHeld (Some (t0 + rx_window T N)) c.
Proof. rewrite source_tparams_ok. intros H. apply rx_due_constant; [exact H | exists false; reflexivity]. Qed.

Lemma src_rx_fire_releases T N t0 evs : forallb not_fire evs = true ->
  rx_run source_tparams T N (rx_create source_tparams T N t0) (evs ++ [RxFire]) = RxGone.
Proof. rewrite source_tparams_ok. apply rx_fire_releases. Qed.

Lemma src_tx_expiry_leaves_rx {V} key (rxm : list (akey * V)) : tx_expiry_rx_table source_tparams key rxm = rxm.
Proof. rewrite source_tparams_ok. reflexivity. Qed.

Lemma timed_example :
  tx_run source_tparams 200 2 (tx_start source_tparams 200 1000) [3; 0; 7; 1]
  = (TxGone, [Retrans 1203; Retrans 1403; Abandon 1610]).
Proof. vm_compute. reflexivity. Qed.

Lemma src_tx_schedule : forall (T : Z) (N : nat) (t0 : Z) (ds : list Z),
  (0 <= T)%Z -> Forall (fun d => (0 <= d)%Z) ds ->
  spaced T (t0 + T)%Z (times (snd (tx_run source_tparams T N (tx_start source_tparams T t0) ds))) /\
  forall delta, Forall (fun d => (d <= delta)%Z) ds ->
  punctual T delta (t0 + T)%Z (times (snd (tx_run source_tparams T N (tx_start source_tparams T t0) ds))).
Proof.
  intros T N t0 ds HT Hd. split; [exact (src_tx_spaced T N t0 ds HT Hd)|].
  intros delta Hu. exact (src_tx_punctual T N delta t0 ds Hu).
Qed.

Lemma src_tx_budget_release : forall (T : Z) (N : nat) (t0 : Z) (ds : list Z),
  (List.length (filter is_retrans (snd (tx_run source_tparams T N (tx_start source_tparams T t0) ds))) <= N)%nat /\
  ((N < List.length ds)%nat ->
   fst (tx_run source_tparams T N (tx_start source_tparams T t0) ds) = TxGone /\
   map is_retrans (snd (tx_run source_tparams T N (tx_start source_tparams T t0) ds)) = repeat true N ++ [false]).
Proof. intros T N t0 ds. split; [exact (src_tx_budget T N t0 ds) | exact (src_tx_shape T N t0 ds)]. Qed.

Lemma src_tx_expiry_leaves_rx_all : forall V key (rxm : list (akey * V)), tx_expiry_rx_table source_tparams key rxm = rxm.
Proof. intros V key rxm. exact (src_tx_expiry_leaves_rx key rxm). Qed.
