(* Proofs for C20: what acceptance by the start-up model implies, for ALL oracles. *)
From Coq Require Import List NArith ZArith Bool String Ascii Lia.
From GoUpf Require Import ConfigGen ConstsGen ConfigSpec Config.
Import ListNotations.
Local Open Scope string_scope.

(* ================================================================ T-gen ties *)

(* the hand-written decoders / embeddings of model/Config.v were written for exactly these fields, Go types and
   yaml names: this is the generated table's projection *)
Lemma expected_fields_ok :
  map (fun r : tag_row => match r with (s, f, ty, y, _) => (s, f, ty, y) end) config_tags = expected_fields.
Proof. reflexivity. Qed.

Lemma version_shapes :
  version_reject_lo = "LessThan:expMinVer" /\ version_reject_hi = "GreaterThanOrEqual:expMaxVer"
  /\ expectedMinGtp5gVersion = (0, 9, 5)%N /\ expectedMaxGtp5gVersion = (0, 10, 0)%N.
Proof. repeat split; reflexivity. Qed.

(* ================================================================ small facts *)

Lemma str_mem_In s l : str_mem s l = true <-> In s l.
Proof.
  induction l as [|h t IH]; cbn [str_mem In]; [split; [discriminate|intros []]|].
  rewrite orb_true_iff, IH, String.eqb_eq. split; intros [H|H]; auto.
Qed.

Section Proofs.
  Variable is_host : string -> bool.
  Variable is_cidr : string -> bool.
  Variable resolvable : string -> bool.
  Variable parse_duration : string -> option Z.

  Notation validate := (validate is_host is_cidr).
  Notation item_ok_str := (item_ok_str is_host is_cidr).

  Definition tcheck (tags : list tag_row) (k : nat) (items : list string) (fv : gval) : bool :=
    if is_empty fv then negb (str_mem "required" items)
    else match fv with
         | GStr x => forallb (item_ok_str x) items
         | GSlice l => forallb is_flag_item items && forallb (validate tags k) l
         | _ => forallb is_flag_item items
         end.
  Definition nested (tags : list tag_row) (k : nat) (fv : gval) : bool :=
    match fv with GPtr x => validate tags k x | GStruct _ _ => validate tags k fv | _ => true end.

  (* the interpreter, one row at a time *)
  Lemma validate_row tags k n fs f ty y items :
    validate tags (S k) (GStruct n fs) = true -> In (n, f, ty, y, items) tags ->
    exists fv, glookup f fs = Some fv /\ tcheck tags k items fv = true /\ nested tags k fv = true.
  Proof.
    intros H Hin. cbn [Config.validate] in H. rewrite forallb_forall in H. specialize (H _ Hin). cbv beta iota in H.
    rewrite String.eqb_refl in H. destruct (glookup f fs) as [fv|]; [|discriminate].
    exists fv. split; [reflexivity|]. apply andb_true_iff in H. exact H.
  Qed.

  Ltac in_tags := cbv [config_tags]; repeat (first [left; reflexivity | right]).

  (* a required string: non-empty and every item holds *)
  Lemma tcheck_req_str tags k items x : str_mem "required" items = true ->
    tcheck tags k items (GStr x) = true -> x <> "" /\ forallb (item_ok_str x) items = true.
  Proof.
    intros Hr H. unfold tcheck in H. cbn [is_empty] in H. destruct (String.eqb_spec x "") as [E|E].
    - rewrite Hr in H. discriminate.
    - split; assumption.
  Qed.

  Lemma tcheck_req_ptr tags k items fv : str_mem "required" items = true ->
    tcheck tags k items fv = true -> fv <> GNil.
  Proof. intros Hr H E. subst. unfold tcheck in H. cbn [is_empty] in H. rewrite Hr in H. discriminate. Qed.

  Lemma item_in x it opts :
    is_flag_item it = false -> String.eqb it "host" = false -> String.eqb it "cidr" = false ->
    parse_in it = Some opts -> item_ok_str x it = str_mem x opts.
  Proof. intros H1 H2 H3 H4. unfold Config.item_ok_str. rewrite H1, H2, H3, H4. reflexivity. Qed.
  Lemma item_host x : item_ok_str x "host" = is_host x.
  Proof. reflexivity. Qed.
  Lemma item_cidr x : item_ok_str x "cidr" = is_cidr x.
  Proof. reflexivity. Qed.

  (* a required string field satisfies every item of its tag *)
  Lemma req_item tags k items x it : tcheck tags k items (GStr x) = true ->
    str_mem "required" items = true -> In it items -> x <> "" /\ item_ok_str x it = true.
  Proof.
    intros T Hr Hin. apply tcheck_req_str in T; [|assumption]. destruct T as [Hn F]. split; [assumption|].
    rewrite forallb_forall in F. apply F. assumption.
  Qed.

  Ltac in_list := repeat (first [left; reflexivity | right]).
  Ltac in_item F x it opts :=
    rewrite (item_in x it opts) in F by (vm_compute; reflexivity).

  (* ---------------------------------------------------------------- per struct *)

  Lemma pfcp_sound k p : validate config_tags (S k) (gv_pfcp p) = true ->
    p_addr p <> "" /\ is_host (p_addr p) = true /\ p_nodeid p <> "" /\ is_host (p_nodeid p) = true
    /\ p_retrans_timeout p <> 0%Z.
  Proof.
    intros H.
    destruct (validate_row _ _ _ _ "Addr" _ _ _ H ltac:(in_tags)) as [v1 [L1 [T1 _]]].
    destruct (validate_row _ _ _ _ "NodeID" _ _ _ H ltac:(in_tags)) as [v2 [L2 [T2 _]]].
    destruct (validate_row _ _ _ _ "RetransTimeout" _ _ _ H ltac:(in_tags)) as [v3 [L3 [T3 _]]].
    cbn in L1, L2, L3. inversion L1; inversion L2; inversion L3; subst. clear L1 L2 L3.
    destruct (req_item _ _ _ _ "host" T1 eq_refl ltac:(in_list)) as [N1 F1].
    destruct (req_item _ _ _ _ "host" T2 eq_refl ltac:(in_list)) as [N2 F2].
    rewrite item_host in F1, F2.
    repeat split; try assumption.
    unfold tcheck in T3. cbn [is_empty] in T3. intros E. rewrite E in T3. cbn in T3. discriminate.
  Qed.

  Lemma ifinfo_sound k i : validate config_tags (S k) (gv_ifinfo i) = true ->
    is_host (i_addr i) = true /\ (i_type i = "N3" \/ i_type i = "N9").
  Proof.
    intros H.
    destruct (validate_row _ _ _ _ "Addr" _ _ _ H ltac:(in_tags)) as [v1 [L1 [T1 _]]].
    destruct (validate_row _ _ _ _ "Type" _ _ _ H ltac:(in_tags)) as [v2 [L2 [T2 _]]].
    cbn in L1, L2. inversion L1; inversion L2; subst. clear L1 L2.
    destruct (req_item _ _ _ _ "host" T1 eq_refl ltac:(in_list)) as [_ F1].
    destruct (req_item _ _ _ _ "in(N3|N9)" T2 eq_refl ltac:(in_list)) as [_ F2].
    rewrite item_host in F1. in_item F2 (i_type i) "in(N3|N9)" ["N3"; "N9"].
    split; [assumption|]. apply str_mem_In in F2. destruct F2 as [E|[E|[]]]; [left|right]; symmetry; assumption.
  Qed.

  Lemma dnn_sound k d : validate config_tags (S k) (gv_dnn d) = true ->
    d_dnn d <> "" /\ is_cidr (d_cidr d) = true.
  Proof.
    intros H.
    destruct (validate_row _ _ _ _ "Dnn" _ _ _ H ltac:(in_tags)) as [v1 [L1 [T1 _]]].
    destruct (validate_row _ _ _ _ "Cidr" _ _ _ H ltac:(in_tags)) as [v2 [L2 [T2 _]]].
    cbn in L1, L2. inversion L1; inversion L2; subst. clear L1 L2.
    destruct (req_item _ _ _ _ "required" T1 eq_refl ltac:(in_list)) as [N1 _].
    destruct (req_item _ _ _ _ "cidr" T2 eq_refl ltac:(in_list)) as [_ F2].
    rewrite item_cidr in F2. split; assumption.
  Qed.

  Definition log_levels : list string := ["trace"; "debug"; "info"; "warn"; "error"; "fatal"; "panic"].

  Lemma logger_sound k l : validate config_tags (S k) (gv_logger l) = true -> In (l_level l) log_levels.
  Proof.
    intros H.
    destruct (validate_row _ _ _ _ "Level" _ _ _ H ltac:(in_tags)) as [v1 [L1 [T1 _]]].
    cbn in L1. inversion L1; subst. clear L1.
    destruct (req_item _ _ _ _ "in(trace|debug|info|warn|error|fatal|panic)" T1 eq_refl ltac:(in_list)) as [_ F1].
    in_item F1 (l_level l) "in(trace|debug|info|warn|error|fatal|panic)" log_levels.
    apply str_mem_In. assumption.
  Qed.

  Lemma gtpu_sound k g : validate config_tags (S (S k)) (gv_gtpu g) = true ->
    g_forwarder g = "gtp5g" /\ Forall (fun i => is_host (i_addr i) = true /\ (i_type i = "N3" \/ i_type i = "N9")) (g_iflist g).
  Proof.
    intros H.
    destruct (validate_row _ _ _ _ "Forwarder" _ _ _ H ltac:(in_tags)) as [v1 [L1 [T1 _]]].
    destruct (validate_row _ _ _ _ "IfList" _ _ _ H ltac:(in_tags)) as [v2 [L2 [T2 _]]].
    cbn in L1, L2. inversion L1; inversion L2; subst. clear L1 L2.
    destruct (req_item _ _ _ _ "in(gtp5g)" T1 eq_refl ltac:(in_list)) as [_ F1].
    in_item F1 (g_forwarder g) "in(gtp5g)" ["gtp5g"].
    apply str_mem_In in F1. destruct F1 as [E|[]]. split; [symmetry; assumption|].
    unfold tcheck in T2. cbn [is_empty] in T2. destruct (g_iflist g) as [|i0 r] eqn:El; [constructor|].
    cbn [map] in T2. apply andb_true_iff in T2. destruct T2 as [_ T2].
    change (gv_ifinfo i0 :: map gv_ifinfo r) with (map gv_ifinfo (i0 :: r)) in T2.
    rewrite forallb_forall in T2. apply Forall_forall. intros i Hi.
    apply (ifinfo_sound k). apply T2. apply in_map. assumption.
  Qed.

  (* ---------------------------------------------------------------- the whole configuration *)

  Definition config_conditions (c : config) : Prop :=
    c_version c = "1.0.3"
    /\ (exists p, c_pfcp c = Some p /\ p_addr p <> "" /\ is_host (p_addr p) = true
                  /\ p_nodeid p <> "" /\ is_host (p_nodeid p) = true /\ p_retrans_timeout p <> 0%Z)
    /\ (exists g, c_gtpu c = Some g /\ g_forwarder g = "gtp5g"
                  /\ Forall (fun i => is_host (i_addr i) = true /\ (i_type i = "N3" \/ i_type i = "N9")) (g_iflist g))
    /\ c_dnnlist c <> [] /\ Forall (fun d => d_dnn d <> "" /\ is_cidr (d_cidr d) = true) (c_dnnlist c)
    /\ (exists l, c_logger c = Some l /\ In (l_level l) log_levels).

  Lemma accepts_sound c : accepts_tags is_host is_cidr config_tags c = true -> config_conditions c.
  Proof.
    unfold accepts_tags, fuel0. intros H.
    destruct (validate_row _ _ _ _ "Version" _ _ _ H ltac:(in_tags)) as [v1 [L1 [T1 _]]].
    destruct (validate_row _ _ _ _ "Pfcp" _ _ _ H ltac:(in_tags)) as [v2 [L2 [T2 N2]]].
    destruct (validate_row _ _ _ _ "Gtpu" _ _ _ H ltac:(in_tags)) as [v3 [L3 [T3 N3]]].
    destruct (validate_row _ _ _ _ "DnnList" _ _ _ H ltac:(in_tags)) as [v4 [L4 [T4 _]]].
    destruct (validate_row _ _ _ _ "Logger" _ _ _ H ltac:(in_tags)) as [v5 [L5 [T5 N5]]].
    cbn in L1, L2, L3, L4, L5. inversion L1; inversion L2; inversion L3; inversion L4; inversion L5; subst.
    clear L1 L2 L3 L4 L5. unfold config_conditions. split; [|split; [|split; [|split; [|split]]]].
    - destruct (req_item _ _ _ _ "in(1.0.3)" T1 eq_refl ltac:(in_list)) as [_ F1].
      in_item F1 (c_version c) "in(1.0.3)" ["1.0.3"].
      apply str_mem_In in F1. destruct F1 as [E|[]]. symmetry. assumption.
    - apply tcheck_req_ptr in T2; [|reflexivity]. destruct (c_pfcp c) as [p|]; [|exfalso; apply T2; reflexivity].
      exists p. split; [reflexivity|]. cbn [gv_opt nested] in N2. apply (pfcp_sound _ _ N2).
    - apply tcheck_req_ptr in T3; [|reflexivity]. destruct (c_gtpu c) as [g|]; [|exfalso; apply T3; reflexivity].
      exists g. split; [reflexivity|]. cbn [gv_opt nested] in N3. apply (gtpu_sound _ _ N3).
    - intros E. rewrite E in T4. cbn in T4. discriminate.
    - unfold tcheck in T4. cbn [is_empty] in T4. destruct (c_dnnlist c) as [|d0 r] eqn:El; [constructor|].
      cbn [map] in T4. apply andb_true_iff in T4. destruct T4 as [_ T4].
      change (gv_dnn d0 :: map gv_dnn r) with (map gv_dnn (d0 :: r)) in T4.
      rewrite forallb_forall in T4. apply Forall_forall. intros d Hd.
      apply (dnn_sound 4). apply T4. apply in_map. assumption.
    - apply tcheck_req_ptr in T5; [|reflexivity]. destruct (c_logger c) as [l|]; [|exfalso; apply T5; reflexivity].
      exists l. split; [reflexivity|]. cbn [gv_opt nested] in N5. apply (logger_sound _ _ N5).
  Qed.

  (* ---------------------------------------------------------------- start-up *)

  Notation startup := (startup is_host is_cidr resolvable parse_duration).
  Notation read_config := (read_config is_host is_cidr resolvable parse_duration).
  Notation decode := (decode parse_duration).

  Lemma read_config_ok tags doc c : read_config tags doc = RcOk c ->
    decode doc = Some c /\ accepts_tags is_host is_cidr tags c = true
    /\ exists p, c_pfcp c = Some p /\ resolvable (p_nodeid p) = true.
  Proof.
    unfold Config.read_config. destruct (decode doc) as [c0|]; [|discriminate].
    destruct (accepts_tags is_host is_cidr tags c0) eqn:A; [|discriminate].
    destruct (c_pfcp c0) as [p|] eqn:P; [|discriminate].
    destruct (resolvable (p_nodeid p)) eqn:R; [|discriminate].
    intros H. inversion H; subst. split; [reflexivity|]. split; [assumption|]. exists p. split; assumption.
  Qed.

  Lemma startup_started tags doc c a m : startup tags doc = Started c a m ->
    read_config tags doc = RcOk c /\ new_driver_pre c = DrvOpen a m.
  Proof.
    unfold Config.startup. destruct (read_config tags doc) as [| | |c0]; try discriminate.
    destruct (new_driver_pre c0) as [| | |a0 m0] eqn:D; try discriminate.
    intros H. inversion H; subst. split; [reflexivity|assumption].
  Qed.

  Lemma new_driver_open c a m : new_driver_pre c = DrvOpen a m ->
    exists g i r, c_gtpu c = Some g /\ g_forwarder g = "gtp5g" /\ g_iflist g = i :: r
                  /\ a = i_addr i ++ ":2152" /\ m = i_mtu i.
  Proof.
    unfold new_driver_pre. destruct (c_gtpu c) as [g|]; [|discriminate].
    destruct (String.eqb_spec (g_forwarder g) "gtp5g") as [E|E]; [|discriminate].
    destruct (g_iflist g) as [|i r] eqn:L; [discriminate|]. intros H. inversion H; subst.
    exists g, i, r. repeat split; assumption.
  Qed.

  (* C20_accept_sound *)
  Lemma accept_sound doc c a m : startup config_tags doc = Started c a m ->
    config_conditions c
    /\ (exists p, c_pfcp c = Some p /\ resolvable (p_nodeid p) = true)
    /\ (exists g i r, c_gtpu c = Some g /\ g_iflist g = i :: r /\ a = i_addr i ++ ":2152" /\ m = i_mtu i).
  Proof.
    intros H. apply startup_started in H. destruct H as [H1 H2]. apply read_config_ok in H1.
    destruct H1 as [_ [A R]]. split; [apply accepts_sound; assumption|]. split; [assumption|].
    apply new_driver_open in H2. destruct H2 as [g [i [r [G [_ [L [E1 E2]]]]]]]. exists g, i, r. repeat split; assumption.
  Qed.

  (* the boolean monitor of monitor/ConfigSpec.v (the property's condition list) accepts whatever the model starts *)
  Lemma started_cond_okb doc c a m : startup config_tags doc = Started c a m ->
    cond_okb is_host is_cidr resolvable c = true.
  Proof.
    intros H. apply accept_sound in H.
    destruct H as [[Hv [[p [Hp [_ [Hpa [_ [Hpn Hrt]]]]]] [[g [Hg [Hf Hifs]]] [Hdn [Hds [l [Hl Hlev]]]]]]]
                    [[p' [Hp' Hres]] [g' [i [r [Hg' [Hil _]]]]]]].
    rewrite Hp in Hp'. inversion Hp'; subst p'. rewrite Hg in Hg'. inversion Hg'; subst g'.
    unfold cond_okb. rewrite Hv, Hp, Hg, Hl. cbn [supported_version]. rewrite String.eqb_refl.
    rewrite Hpa, Hpn, Hres, Hf, Hil. cbn [andb].
    assert (Ez : negb (zeqb (p_retrans_timeout p) 0) = true).
    { unfold zeqb. destruct (Z.eqb_spec (p_retrans_timeout p) 0); [contradiction|reflexivity]. }
    rewrite Ez. cbn [andb]. rewrite String.eqb_refl. cbn [andb].
    assert (E1 : forallb (fun i0 => is_host (i_addr i0) && (String.eqb (i_type i0) "N3" || String.eqb (i_type i0) "N9")) (i :: r) = true).
    { rewrite <- Hil. apply forallb_forall. intros x Hx. rewrite Forall_forall in Hifs. destruct (Hifs x Hx) as [A1 A2].
      rewrite A1. destruct A2 as [A2|A2]; rewrite A2; [reflexivity|]. cbn [andb]. apply orb_true_r. }
    rewrite E1. cbn [andb].
    destruct (c_dnnlist c) as [|d0 ds] eqn:Ed; [exfalso; apply Hdn; reflexivity|].
    assert (E2 : forallb (fun d => negb (String.eqb (d_dnn d) "") && is_cidr (d_cidr d)) (d0 :: ds) = true).
    { apply forallb_forall. intros x Hx. rewrite Forall_forall in Hds. destruct (Hds x Hx) as [A1 A2].
      rewrite A2. destruct (String.eqb_spec (d_dnn x) ""); [contradiction|reflexivity]. }
    rewrite E2. cbn [andb]. apply str_mem_In. assumption.
  Qed.

  (* C20_values_unchanged: the running configuration is the decoded document, nothing else *)
  Lemma values_unchanged tags doc c a m : startup tags doc = Started c a m -> decode doc = Some c.
  Proof. intros H. apply startup_started in H. destruct H as [H _]. apply read_config_ok in H. apply H. Qed.

  (* every field of an accepted document that is present as a string scalar appears as written *)
  Lemma dec_string_as_written k text : k <> KNull -> dec_string (Some (YScalar k text)) = Some text.
  Proof. destruct k; intros H; try reflexivity. exfalso. apply H. reflexivity. Qed.

  (* rejected means: no configuration at all (the outcome carries none) *)
  Lemma rejected_or_started tags doc :
    (exists st, startup tags doc = Rejected st) \/ (exists c a m, startup tags doc = Started c a m).
  Proof. destruct (startup tags doc) as [st|c a m]; [left; exists st|right; exists c, a, m]; reflexivity. Qed.
End Proofs.

(* ================================================================ the version window *)

Local Open Scope N_scope.

Definition lex_ltP (a b : ver) : Prop :=
  match a, b with
  | (a1, a2, a3), (b1, b2, b3) => a1 < b1 \/ (a1 = b1 /\ (a2 < b2 \/ (a2 = b2 /\ a3 < b3)))
  end.
Definition lex_leP (a b : ver) : Prop := lex_ltP a b \/ a = b.

Lemma lex_lt_spec a b : lex_lt a b = true <-> lex_ltP a b.
Proof.
  destruct a as [[a1 a2] a3], b as [[b1 b2] b3]. unfold lex_lt, lex_ltP.
  rewrite !orb_true_iff, !andb_true_iff, !orb_true_iff, !andb_true_iff, !N.ltb_lt, !N.eqb_eq. tauto.
Qed.

Lemma lex_le_spec a b : lex_le a b = true <-> lex_leP a b.
Proof.
  unfold lex_le, lex_leP. rewrite orb_true_iff, lex_lt_spec.
  destruct a as [[a1 a2] a3], b as [[b1 b2] b3]. unfold lex_eq.
  rewrite !andb_true_iff, !N.eqb_eq. split; intros [H|H]; auto.
  - right. destruct H as [[E1 E2] E3]. subst. reflexivity.
  - right. inversion H. auto.
Qed.

Lemma version_ok_unfold v : version_ok v = negb (lex_lt v (0, 9, 5) || lex_le (0, 10, 0) v).
Proof. reflexivity. Qed.

Lemma version_window v :
  version_ok v = true <-> lex_leP (0, 9, 5) v /\ lex_ltP v (0, 10, 0).
Proof.
  rewrite version_ok_unfold, negb_true_iff, orb_false_iff.
  destruct v as [[x y] z].
  split.
  - intros [H1 H2]. split.
    + destruct (lex_le (0, 9, 5) (x, y, z)) eqn:E; [apply lex_le_spec; assumption|].
      exfalso. assert (lex_ltP (x, y, z) (0, 9, 5) \/ (0, 9, 5) = (x, y, z) \/ lex_ltP (0, 9, 5) (x, y, z)) as T.
      { unfold lex_ltP. destruct (N.lt_total x 0) as [|[|]]; [lia| |right; right; lia].
        destruct (N.lt_total y 9) as [|[|]]; [left; lia| |right; right; lia].
        destruct (N.lt_total z 5) as [|[|]]; [left; lia|right; left; subst; reflexivity|right; right; lia]. }
      destruct T as [T|[T|T]].
      * apply lex_lt_spec in T. rewrite T in H1. discriminate.
      * assert (lex_le (0, 9, 5) (x, y, z) = true) by (apply lex_le_spec; right; assumption). congruence.
      * assert (lex_le (0, 9, 5) (x, y, z) = true) by (apply lex_le_spec; left; assumption). congruence.
    + destruct (lex_lt (x, y, z) (0, 10, 0)) eqn:E; [apply lex_lt_spec; assumption|].
      exfalso. assert (lex_leP (0, 10, 0) (x, y, z)) as T.
      { assert (~ lex_ltP (x, y, z) (0, 10, 0)) as Nlt by (intros T; apply lex_lt_spec in T; congruence).
        unfold lex_leP, lex_ltP in *.
        destruct (N.lt_total x 0) as [|[|]]; [lia| |left; lia].
        destruct (N.lt_total y 10) as [|[|]]; [exfalso; apply Nlt; lia| |left; lia].
        destruct (N.eq_dec z 0); [right; subst; reflexivity|left; lia]. }
      apply lex_le_spec in T. congruence.
  - intros [H1 H2]. split.
    + destruct (lex_lt (x, y, z) (0, 9, 5)) eqn:E; [|reflexivity]. exfalso.
      apply lex_lt_spec in E. unfold lex_leP, lex_ltP in *. destruct H1 as [H1|H1]; [lia|inversion H1; subst; lia].
    + destruct (lex_le (0, 10, 0) (x, y, z)) eqn:E; [|reflexivity]. exfalso.
      apply lex_le_spec in E. unfold lex_leP, lex_ltP in *. destruct E as [E|E]; [lia|inversion E; subst; lia].
Qed.

(* spelled out: exactly the versions 0.9.z with z >= 5 *)
Lemma version_window_explicit x y z : version_ok (x, y, z) = true <-> x = 0 /\ y = 9 /\ 5 <= z.
Proof.
  rewrite version_window. unfold lex_leP, lex_ltP. split.
  - intros [[H1|H1] H2]; [lia|inversion H1; subst; lia].
  - intros [E1 [E2 H]]. subst. split; [|lia].
    destruct (N.eq_dec z 5); [right; subst; reflexivity|left; lia].
Qed.
