From Coq Require Import List NArith Bool.
From GoUpf Require Import Pdi.
Import ListNotations.
Local Open Scope N_scope.

Lemma fold_no_srcif : forall l a, no_srcif l ->
  fold_left (fun acc x => match x with PSrcIf v => v | _ => acc end) l a = a.
Proof.
  induction l as [|x l IH]; intros a H; cbn [fold_left]; [reflexivity|].
  assert (Hx := H x (or_introl eq_refl)).
  destruct x as [v|k|]; [contradiction| |]; apply IH; intros y Hy; apply H; right; exact Hy.
Qed.

Lemma final_srcif_one : forall pre post v, no_srcif post -> final_srcif (pre ++ PSrcIf v :: post) = v.
Proof.
  intros pre post v Hp. unfold final_srcif. rewrite fold_left_app. cbn [fold_left].
  apply fold_no_srcif. exact Hp.
Qed.

Lemma sdf_ids_app : forall a b, sdf_ids (a ++ b) = sdf_ids a ++ sdf_ids b.
Proof. intros a b. unfold sdf_ids. apply flat_map_app. Qed.

(* after-scan order: with exactly one Source Interface IE, wherever it stands among the IEs, every filter
   of the PDI is exchanged iff that interface is Access *)
Lemma after_scan_order_independent : forall pre post v, no_srcif pre -> no_srcif post ->
  pdi_sdf_swaps false (pre ++ PSrcIf v :: post) = map (fun k => (k, N.eqb v access)) (sdf_ids pre ++ sdf_ids post).
Proof.
  intros pre post v _ Hpost. unfold pdi_sdf_swaps, sdf_swaps_after.
  rewrite (final_srcif_one pre post v Hpost), sdf_ids_app. cbn [sdf_ids flat_map app]. reflexivity.
Qed.

(* in-scan order is wrong as soon as a filter precedes a non-Access Source Interface *)
Lemma in_scan_refuted : pdi_sdf_swaps true [PSdf 1; PSrcIf 1] = [(1, true)]
                        /\ pdi_sdf_swaps false [PSdf 1; PSrcIf 1] = [(1, false)].
Proof. split; reflexivity. Qed.
