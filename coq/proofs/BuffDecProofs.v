From Coq Require Import List NArith ZArith Bool Lia ZifyN ZifyNat ZifyBool.
From GoUpf Require Import Bytes RulesGen BuffDec.
Import ListNotations.
Local Open Scope N_scope.
Ltac Zify.zify_post_hook ::= Z.div_mod_to_equations.

Lemma firstn_app_exact {A} (a b : list A) n : length a = n -> firstn n (a ++ b) = a.
Proof. intros <-. rewrite firstn_app, Nat.sub_diag, firstn_all. cbn [firstn]. apply app_nil_r. Qed.

Lemma skipn_app_exact {A} (a b : list A) n : length a = n -> skipn n (a ++ b) = b.
Proof. intros <-. rewrite skipn_app, Nat.sub_diag, skipn_all. reflexivity. Qed.

Lemma align4_ge n : n <= align4 n. Proof. unfold align4. lia. Qed.
Lemma align4_add4 n : align4 (4 + n) = 4 + align4 n. Proof. unfold align4. lia. Qed.
Lemma align4_lt n : align4 n < n + 4. Proof. unfold align4. lia. Qed.

Lemma pad_length n : length (pad_to4 n) = N.to_nat (align4 (N.of_nat n) - N.of_nat n).
Proof. unfold pad_to4. apply repeat_length. Qed.

Lemma enc_raw_length ty p : len_of (enc_raw ty p) = 4 + align4 (len_of p).
Proof.
  unfold enc_raw, len_of. rewrite !app_length, !le_bytes_length, pad_length.
  pose proof (align4_ge (N.of_nat (length p))). lia.
Qed.

Lemma le_val_2 x : x < 65536 -> le_val (le_bytes 2 x) = x.
Proof. intros H. rewrite le_val_le_bytes. change (2 ^ (8 * N.of_nat 2)) with 65536. apply N.mod_small. exact H. Qed.

Lemma le_val_8 x : x < 18446744073709551616 -> le_val (le_bytes 8 x) = x.
Proof. intros H. rewrite le_val_le_bytes. change (2 ^ (8 * N.of_nat 8)) with 18446744073709551616. apply N.mod_small. exact H. Qed.

Lemma land_mask_small ty : ty < 16384 -> N.land ty type_mask = ty.
Proof.
  intros H. unfold type_mask. change 16383 with (N.ones 14). rewrite N.land_ones. apply N.mod_small. exact H.
Qed.

(* the walk over one well-formed attribute: header fields read back, payload without padding, rest untouched *)
Section Step.
  Variables (ty : N) (p rest : list N) (s : bstate).
  Hypothesis Hty : ty < 16384.
  Hypothesis Hlen : len_of p < 65532.

  Let b := enc_raw ty p ++ rest.

  Lemma step_len : le_val (firstn 2 b) = 4 + len_of p.
  Proof.
    unfold b, enc_raw. rewrite <- app_assoc. rewrite firstn_app_exact by apply le_bytes_length.
    apply le_val_2. lia.
  Qed.

  Lemma step_ty : N.land (le_val (firstn 2 (skipn 2 b))) type_mask = ty.
  Proof.
    unfold b, enc_raw. rewrite <- app_assoc. rewrite skipn_app_exact by apply le_bytes_length.
    rewrite <- app_assoc. rewrite firstn_app_exact by apply le_bytes_length.
    rewrite le_val_2 by lia. apply land_mask_small. exact Hty.
  Qed.

  Lemma step_body : skipn 4 b = p ++ pad_to4 (length p) ++ rest.
  Proof.
    unfold b, enc_raw. rewrite <- !app_assoc. rewrite (app_assoc (le_bytes 2 _) (le_bytes 2 ty)).
    rewrite skipn_app_exact; [reflexivity|]. rewrite app_length, !le_bytes_length. reflexivity.
  Qed.

  Lemma step_short : (len_of b <? 4) = false.
  Proof. unfold b, len_of. rewrite app_length. fold (len_of (enc_raw ty p)). pose proof (enc_raw_length ty p). unfold len_of in *. lia. Qed.

  Lemma step_fits : (len_of b <? align4 (4 + len_of p)) = false.
  Proof.
    unfold b, len_of. rewrite app_length. pose proof (enc_raw_length ty p) as E. unfold len_of in E.
    rewrite align4_add4. fold (len_of p). unfold len_of in *. lia.
  Qed.

  Lemma step_rest : skipn (N.to_nat (align4 (4 + len_of p))) b = rest.
  Proof.
    unfold b. apply skipn_app_exact. pose proof (enc_raw_length ty p) as E. unfold len_of in E.
    rewrite align4_add4. unfold len_of. lia.
  Qed.

  Lemma step_pkt : firstn (N.to_nat (4 + len_of p - 4)) (skipn 4 b) = p.
  Proof. rewrite step_body. apply firstn_app_exact. unfold len_of. lia. Qed.

  Lemma step_not_out : (len_of b <? 4 + len_of p) = false.
  Proof.
    unfold b, len_of. rewrite app_length. pose proof (enc_raw_length ty p) as E. pose proof (align4_ge (len_of p)).
    unfold len_of in *. lia.
  Qed.
End Step.

Lemma known_consts : nl_BUFFER_ID < 16384 /\ nl_BUFFER_ACTION < 16384 /\ nl_BUFFER_SEID < 16384 /\ nl_BUFFER_PACKET < 16384 /\
  NoDup [nl_BUFFER_ID; nl_BUFFER_ACTION; nl_BUFFER_SEID; nl_BUFFER_PACKET].
Proof. vm_compute. repeat split; try reflexivity. repeat constructor; cbn; intuition discriminate. Qed.

Lemma dec_step_attr a rest s : battr_ok a -> dec_step (enc_attr a ++ rest) s = inr (apply_attr s a, rest).
Proof.
  intros Hok. unfold dec_step.
  destruct a as [v|v|v|p|ty p]; cbn [enc_attr battr_ok apply_attr] in *.
  - (* id *)
    assert (HL : len_of (le_bytes 2 v) < 65532) by (unfold len_of; rewrite le_bytes_length; lia).
    assert (HT : nl_BUFFER_ID < 16384) by (vm_compute; reflexivity).
    rewrite step_short, step_len, step_ty, step_body by assumption.
    change (nl_BUFFER_ID =? nl_BUFFER_ID) with true. cbn match.
    assert (E : (len_of (le_bytes 2 v ++ pad_to4 (length (le_bytes 2 v)) ++ rest) <? N.of_nat 2) = false).
    { unfold len_of. rewrite app_length, le_bytes_length. lia. }
    rewrite E. rewrite firstn_app_exact by apply le_bytes_length. rewrite le_val_2 by exact Hok.
    rewrite step_fits, step_rest by assumption. reflexivity.
  - (* action *)
    assert (HL : len_of (le_bytes 2 v) < 65532) by (unfold len_of; rewrite le_bytes_length; lia).
    assert (HT : nl_BUFFER_ACTION < 16384) by (vm_compute; reflexivity).
    rewrite step_short, step_len, step_ty, step_body by assumption.
    change (nl_BUFFER_ACTION =? nl_BUFFER_ID) with false. change (nl_BUFFER_ACTION =? nl_BUFFER_ACTION) with true. cbn match.
    assert (E : (len_of (le_bytes 2 v ++ pad_to4 (length (le_bytes 2 v)) ++ rest) <? N.of_nat 2) = false).
    { unfold len_of. rewrite app_length, le_bytes_length. lia. }
    rewrite E. rewrite firstn_app_exact by apply le_bytes_length. rewrite le_val_2 by exact Hok.
    rewrite step_fits, step_rest by assumption. reflexivity.
  - (* seid *)
    assert (HL : len_of (le_bytes 8 v) < 65532) by (unfold len_of; rewrite le_bytes_length; lia).
    assert (HT : nl_BUFFER_SEID < 16384) by (vm_compute; reflexivity).
    rewrite step_short, step_len, step_ty, step_body by assumption.
    change (nl_BUFFER_SEID =? nl_BUFFER_ID) with false. change (nl_BUFFER_SEID =? nl_BUFFER_ACTION) with false.
    change (nl_BUFFER_SEID =? nl_BUFFER_SEID) with true. cbn match.
    assert (E : (len_of (le_bytes 8 v ++ pad_to4 (length (le_bytes 8 v)) ++ rest) <? N.of_nat 8) = false).
    { unfold len_of. rewrite app_length, le_bytes_length. lia. }
    rewrite E. rewrite firstn_app_exact by apply le_bytes_length. rewrite le_val_8 by exact Hok.
    rewrite step_fits, step_rest by assumption. reflexivity.
  - (* packet *)
    destruct Hok as [Hb HL].
    assert (HT : nl_BUFFER_PACKET < 16384) by (vm_compute; reflexivity).
    rewrite step_short, step_len, step_ty by assumption.
    change (nl_BUFFER_PACKET =? nl_BUFFER_ID) with false. change (nl_BUFFER_PACKET =? nl_BUFFER_ACTION) with false.
    change (nl_BUFFER_PACKET =? nl_BUFFER_SEID) with false. change (nl_BUFFER_PACKET =? nl_BUFFER_PACKET) with true. cbn match.
    assert (E4 : (4 + len_of p <? 4) = false) by lia. rewrite E4.
    rewrite step_not_out, step_pkt by assumption.
    rewrite step_fits, step_rest by assumption. reflexivity.
  - (* another attribute: skipped *)
    destruct Hok as [HT [Hk [Hb HL]]].
    rewrite step_short, step_len, step_ty by assumption.
    unfold known_type in Hk. apply orb_false_elim in Hk. destruct Hk as [Hk H4]. apply orb_false_elim in Hk. destruct Hk as [Hk H3].
    apply orb_false_elim in Hk. destruct Hk as [H1 H2]. rewrite H1, H2, H3, H4.
    rewrite step_fits, step_rest by assumption. reflexivity.
Qed.

Lemma enc_attr_nonempty a : enc_attr a <> [].
Proof.
  assert (H : forall ty p, enc_raw ty p <> []).
  { intros ty p E. apply (f_equal (@length N)) in E. unfold enc_raw in E. rewrite !app_length, le_bytes_length in E. cbn in E. lia. }
  destruct a; apply H.
Qed.

Lemma dec_loop_unfold f b s : b <> [] ->
  dec_loop (S f) b s = match dec_step b s with inl e => e | inr (s1, rest) => dec_loop f rest s1 end.
Proof. destruct b; [congruence | reflexivity]. Qed.

Lemma dec_loop_enc : forall l s fuel, Forall battr_ok l -> (length l <= fuel)%nat ->
  dec_loop fuel (enc_msg l) s = DOk (fold_left apply_attr l s).
Proof.
  induction l as [|a l IH]; intros s fuel Hok Hf.
  - destruct fuel; reflexivity.
  - inversion Hok as [|? ? Ha Hl]; subst. cbn [enc_msg flat_map fold_left]. fold (enc_msg l).
    destruct fuel as [|f]; [cbn in Hf; lia|].
    rewrite dec_loop_unfold.
    + rewrite (dec_step_attr a (enc_msg l) s Ha). apply IH; [exact Hl | cbn in Hf; lia].
    + intros E. apply app_eq_nil in E. destruct E as [E _]. apply enc_attr_nonempty in E. destruct E.
Qed.

Lemma enc_msg_length_ge l : (length l <= length (enc_msg l))%nat.
Proof.
  induction l as [|a l IH]; [cbn; lia|]. cbn [enc_msg flat_map length]. rewrite app_length. fold (enc_msg l).
  pose proof (enc_attr_nonempty a). destruct (enc_attr a); [congruence|]. cbn [length]. lia.
Qed.

(* the round trip: whatever the order of the attributes, with repetitions and unknown attributes in between, any
   payload length (padding of 0..3 octets), any 64-bit SEID *)
Theorem dec_buffer_enc l : Forall battr_ok l -> dec_buffer (enc_msg l) = DOk (fold_left apply_attr l b0).
Proof.
  intros H. unfold dec_buffer. apply dec_loop_enc; [exact H|]. pose proof (enc_msg_length_ge l). lia.
Qed.

(* the notification as the gtp5g module sends it *)
Corollary dec_buffer_kernel seid pdr action pkt :
  seid < 18446744073709551616 -> pdr < 65536 -> action < 65536 -> bytes_ok pkt -> len_of pkt < 65532 ->
  dec_buffer (enc_msg [BPkt pkt; BSeid seid; BId pdr; BAct action]) = DOk (mkB seid pdr action (Some pkt)).
Proof.
  intros. rewrite dec_buffer_enc; [reflexivity|]. repeat constructor; cbn; auto.
Qed.

(* the faults, by example: an attribute of length 0 never ends; a fixed-width field cut short and an unpadded tail
   fault; fewer than four octets are an error *)
Lemma dec_buffer_faults :
  dec_buffer [0; 0; 9; 0] = DLoop /\ dec_buffer [0; 0; 5; 0; 1; 0] = DLoop /\
  dec_buffer [5; 0; 5; 0; 7] = DPanic /\
  dec_buffer [5; 0; 4; 0; 170] = DPanic /\
  dec_buffer [8; 0; 4] = DErr /\
  dec_buffer [3; 0; 4; 0] = DPanic.
Proof. vm_compute. repeat split; reflexivity. Qed.

(* ---------------------------------------------------------------- T-gen tie *)
From Coq Require Import String.
From GoUpf Require Import BuffDecGen.
Local Open Scope string_scope.

(* locals printed canonically: v1 = the remaining octets, v2 = packet, v3 = SEID, v4 = PDR id, v5 = action, v6 = header,
   v7 = header size, v8 = error *)
Definition buffdec_model_shape :=
  ( "len(v1) > 0",
    ["v6, v7, v8 := nl.DecodeAttrHdr(v1)"; "if v8 != nil { return 0, 0, 0, nil, v8 }"; "switch v6.MaskedType()"],
    [(["BUFFER_ID"], ["v4 = native.Uint16(v1[v7:])"]); (["BUFFER_ACTION"], ["v5 = native.Uint16(v1[v7:])"]);
     (["BUFFER_SEID"], ["v3 = native.Uint64(v1[v7:])"]); (["BUFFER_PACKET"], ["v2 = v1[v7:int(v6.Len)]"])],
    ["v1 = v1[v6.Len.Align():]"],
    "return v3, v4, v5, v2, nil",
    ["recv.handler != nil && v10 != nil"] ).

Lemma buffdec_shape_ok :
  (buffdec_loop_cond, buffdec_before_switch, buffdec_cases, buffdec_after_switch, buffdec_return, buffdec_notify_guard) = buffdec_model_shape.
Proof. reflexivity. Qed.
