(* C13 (packet queues inside the PFCP layer), C10 (b) (routing of usage reports), and a generic
   "per-session invariant over all histories" theorem for the server step. *)
From Coq Require Import String List NArith ZArith Bool Lia.
From GoUpf Require Import Bytes FlagsGen ConstsGen HandlerGen Pfcp PfcpBase PfcpSess PfcpClose PfcpTable PfcpDelete
  PfcpStep PfcpProps PfcpFrame PfcpCat PfcpUsage PfcpRef.
Import ListNotations.
Local Open Scope N_scope.

(* ---------------------------------------------------------------- C13 (a): Sess.Push *)

Definition queue_of (pdrid : N) (s : sess) : list pkt :=
  match alookup pdrid (s_q s) with Some q => q | None => [] end.

(* FIFO with a cap: the packet is appended if there is room, otherwise the NEW packet is dropped and the queue
   keeps its older packets; other queues and all other fields of the session are untouched *)
Theorem push_fifo_cap pdrid p s :
  alookup pdrid (s_q (push pdrid p s)) =
    Some (if N.of_nat (length (queue_of pdrid s)) <? BUFFQ_LEN then queue_of pdrid s ++ [p] else queue_of pdrid s) /\
  (forall pdr', pdr' <> pdrid -> alookup pdr' (s_q (push pdrid p s)) = alookup pdr' (s_q s)) /\
  s_lid (push pdrid p s) = s_lid s /\ s_rid (push pdrid p s) = s_rid s /\ s_node (push pdrid p s) = s_node s /\
  s_pdrs (push pdrid p s) = s_pdrs s /\ s_fars (push pdrid p s) = s_fars s /\ s_qers (push pdrid p s) = s_qers s /\
  s_bars (push pdrid p s) = s_bars s /\ s_urrs (push pdrid p s) = s_urrs s.
Proof.
  unfold push, queue_of. destruct (N.of_nat (length match alookup pdrid (s_q s) with Some q => q | None => [] end) <? BUFFQ_LEN);
    cbn [set_q s_q s_lid s_rid s_node s_pdrs s_fars s_qers s_bars s_urrs];
    (split; [apply alookup_aset_same|]); (split; [intros pdr' Hne; apply alookup_aset_other; exact Hne|]); repeat split.
Qed.

Definition q_bounded (s : sess) : Prop :=
  forall pdr q, alookup pdr (s_q s) = Some q -> N.of_nat (length q) <= BUFFQ_LEN.

Theorem push_bounded pdrid p s : q_bounded s -> q_bounded (push pdrid p s).
Proof.
  intros Hb pdr q H. destruct (push_fifo_cap pdrid p s) as [A [B _]].
  destruct (N.eq_dec pdr pdrid) as [->|Hne].
  - rewrite A in H. inversion H; subst; clear H.
    assert (Hq : N.of_nat (length (queue_of pdrid s)) <= BUFFQ_LEN).
    { unfold queue_of. destruct (alookup pdrid (s_q s)) as [q0|] eqn:E; [eapply Hb; eauto | cbn; unfold BUFFQ_LEN; lia]. }
    destruct (N.ltb_spec (N.of_nat (length (queue_of pdrid s))) BUFFQ_LEN) as [Hlt|Hge]; [|exact Hq].
    rewrite app_length. cbn [length]. lia.
  - rewrite B in H by exact Hne. eapply Hb; eauto.
Qed.

(* ---------------------------------------------------------------- C13 (b): ServeReport, item by item *)

Definition is_nil {A} (l : list A) : bool := match l with [] => true | _ => false end.

(* a downlink-data item: pushed iff BUFF and the packet is non-empty; a Session Report Request (DLDR) iff NOCP,
   to [dst], with the peer's SEID in the header and the PDR id; without NOCP the remaining items are skipped *)
Theorem serve_items_dld w s dst pdrid action p rest usars :
  serve_items w s dst (RDld pdrid action p :: rest) usars =
    let s1 := if flag_of APPLY_ACT_BUFF action && negb (is_nil p) then push pdrid p s else s in
    if flag_of APPLY_ACT_NOCP action then
      let w1 := fst (send_req w dst (s_rid s) (PReportDLDR 0 (s_rid s) pdrid)) in
      let '(w2, s2, o2, u) := serve_items w1 s1 dst rest usars in
      (w2, s2, OSend dst (PReportDLDR (w_txseq w mod 16777216) (s_rid s) pdrid) false :: o2, u)
    else (w, s1, [], None).
Proof.
  cbn [serve_items]. unfold is_nil.
  set (s1 := if flag_of APPLY_ACT_BUFF action && negb match p with [] => true | _ :: _ => false end then push pdrid p s else s).
  assert (Hr : s_rid s1 = s_rid s).
  { unfold s1. destruct (_ && _); [apply push_ids | reflexivity]. }
  cbn zeta. destruct (flag_of APPLY_ACT_NOCP action); cbn [negb]; [|reflexivity].
  rewrite Hr. unfold send_req. cbn [fst pdu_with_seq].
  destruct (serve_items _ s1 dst rest usars) as [[[w2 s2] o2] u]. reflexivity.
Qed.

Theorem serve_items_usa w s dst r rest usars :
  serve_items w s dst (RUsa r :: rest) usars = serve_items w s dst rest (usars ++ [r]).
Proof. reflexivity. Qed.

Definition all_nocp (items : list report_item) : bool :=
  forallb (fun it => match it with RDld _ a _ => flag_of APPLY_ACT_NOCP a | RUsa _ => true end) items.
Definition usa_of (items : list report_item) : list rpt :=
  flat_map (fun it => match it with RUsa r => [r] | RDld _ _ _ => [] end) items.
Definition dld_of (items : list report_item) : list N :=
  flat_map (fun it => match it with RUsa _ => [] | RDld pdrid _ _ => [pdrid] end) items.

(* the usage reports handed to serveUSAReport: all usage items in order - unless a downlink item without NOCP
   ended the processing (Go: return), then none; every datagram produced here is a DLDR to dst with the peer's SEID *)
Lemma serve_items_result items : forall w s dst usars w1 s1 o1 u,
  serve_items w s dst items usars = (w1, s1, o1, u) ->
  u = (if all_nocp items then Some (usars ++ usa_of items) else None) /\
  (exists qs pdrs, o1 = map (fun x => OSend dst (PReportDLDR (fst x) (s_rid s) (snd x)) false) (combine qs pdrs) /\
                   length qs = length pdrs /\ (all_nocp items = true -> pdrs = dld_of items)) /\
  s_urrs s1 = s_urrs s /\ s_rid s1 = s_rid s /\ s_lid s1 = s_lid s /\ s_node s1 = s_node s /\
  (q_bounded s -> q_bounded s1).
Proof.
  induction items as [|it items IH]; intros w s dst usars w1 s1 o1 u.
  - cbn [serve_items]. intros H. inversion H; subst. cbn. rewrite app_nil_r.
    split; [reflexivity|]. split; [exists [], []; auto|]. auto.
  - destruct it as [pdrid action p|r].
    + rewrite serve_items_dld. cbn zeta.
      set (sx := if flag_of APPLY_ACT_BUFF action && negb (is_nil p) then push pdrid p s else s).
      assert (Hsx : s_urrs sx = s_urrs s /\ s_rid sx = s_rid s /\ s_lid sx = s_lid s /\ s_node sx = s_node s /\
                    (q_bounded s -> q_bounded sx)).
      { unfold sx. destruct (_ && _); [|auto].
        destruct (push_fifo_cap pdrid p s) as [_ [_ [A [B [C [_ [_ [_ [_ D]]]]]]]]].
        repeat split; auto. apply push_bounded. }
      destruct Hsx as [X1 [X2 [X3 [X4 X5]]]].
      cbn [all_nocp forallb]. fold (all_nocp items).
      destruct (flag_of APPLY_ACT_NOCP action); cbn [andb].
      * destruct (serve_items _ sx dst items usars) as [[[w2 s2] o2] u2] eqn:E2.
        intros H. inversion H; subst.
        destruct (IH _ _ _ _ _ _ _ _ E2) as [U [[qs [pdrs [O [L D]]]] [Y1 [Y2 [Y3 [Y4 Y5]]]]]].
        split; [exact U|]. split.
        { exists (w_txseq w mod 16777216 :: qs), (pdrid :: pdrs). cbn [combine map fst snd length].
          rewrite O, X2. split; [reflexivity|]. split; [congruence|]. intros Ha. cbn [dld_of flat_map app].
          fold (dld_of items). rewrite D by exact Ha. reflexivity. }
        repeat split; try congruence. auto.
      * intros H. inversion H; subst. split; [reflexivity|]. split; [exists [], []; cbn; repeat split; discriminate|].
        repeat split; auto.
    + rewrite serve_items_usa. intros H. destruct (IH _ _ _ _ _ _ _ _ H) as [U [O R]].
      cbn [all_nocp forallb andb usa_of dld_of flat_map app]. fold (all_nocp items) (usa_of items) (dld_of items).
      rewrite <- app_assoc in U. cbn [app] in U. auto.
Qed.

(* ---------------------------------------------------------------- C10 (b): where a usage report goes *)

Lemma serve_report_unknown w seid items : (forall s, ~ live w seid s) -> serve_report w seid items = Ok (w, []).
Proof. intros H. apply lookup_notfound in H. unfold serve_report. rewrite H. reflexivity. Qed.

(* ServeReport for a live session: the DLDR requests of the items, then - if usage reports were collected - exactly
   one Session Report Request (USAR) to the node id of the node object owning the session, header SEID = the
   peer's SEID, usage-report IEs = the emission over the session's URR bookkeeping *)
Theorem serve_report_general w seid s n items w1 s1 o1 u :
  WInv w -> live w seid s -> nth_error (w_heap w) (s_node s) = Some n ->
  serve_items w s (n_id n) items [] = (w1, s1, o1, u) ->
  exists w',
    serve_report w seid items =
      Ok (w', o1 ++ match u with
                    | Some (r :: rs) =>
                        [OSend (n_id n) (PReportUSAR (w_txseq w1 mod 16777216) (s_rid s)
                                           (snd (emit 0 false (s_urrs s) (r :: rs)))) false]
                    | _ => [] end) /\
    live w' seid (match u with
                  | Some (r :: rs) => set_urrs (fst (emit 0 false (s_urrs s) (r :: rs))) s1
                  | _ => s1 end) /\
    (forall lid' s', lid' <> seid -> (live w' lid' s' <-> live w lid' s')) /\
    w_dp w' = w_dp w /\ w_heap w' = w_heap w /\ w_rnodes w' = w_rnodes w.
Proof.
  intros HI HL Hn Es. unfold serve_report.
  pose proof HL as HL0. apply lookup_found in HL0. rewrite HL0, Hn, Es.
  destruct (serve_items_spec _ _ _ _ _ _ _ _ _ Es) as [C1 [A [B [C [D E]]]]].
  assert (HL1 : live w1 seid s) by (apply (live_core _ _ _ _ C1); exact HL).
  assert (Hlid : s_lid s = seid) by (eapply live_lid; eauto).
  assert (Hp : 1 <= seid) by (destruct HL; assumption).
  assert (Hoth : forall wx, same_core w wx -> forall sx dp, dp = w_dp wx ->
            (forall lid' s', lid' <> seid -> (live (upd_world wx seid sx dp) lid' s' <-> live w lid' s')) /\
            w_dp (upd_world wx seid sx dp) = w_dp w /\ w_heap (upd_world wx seid sx dp) = w_heap w /\
            w_rnodes (upd_world wx seid sx dp) = w_rnodes w).
  { intros wx Cx sx dp ->. destruct Cx as [E1 [E2 [E3 [E4 E5]]]]. split; [|cbn; auto].
    intros lid' s' Hne. rewrite live_upd_other by assumption. unfold live. rewrite E1. tauto. }
  assert (Hnone : forall wx, same_core w wx -> forall sx, s_lid sx = seid ->
            put_slot wx sx = Ok (upd_world wx seid sx (w_dp wx))).
  { intros wx Cx sx El. assert (HLx : live wx seid s) by (apply (live_core _ _ _ _ Cx); exact HL).
    rewrite <- (put_slot_upd wx seid s sx (w_dp wx) HLx El). destruct wx; reflexivity. }
  destruct u as [[|r rs]|].
  - rewrite (Hnone w1 C1 s1) by congruence. eexists. split; [rewrite app_nil_r; reflexivity|].
    split; [apply (live_upd_same w1 seid s _ _ HL1)|]. apply Hoth; auto.
  - rewrite D. destruct (emit 0 false (s_urrs s) (r :: rs)) as [urrs ies] eqn:Ee. cbn [fst snd set_urrs s_rid].
    unfold send_req. cbn [pdu_with_seq]. rewrite C.
    match goal with |- context [put_slot ?wx ?sx] =>
      assert (C2 : same_core w wx) by (eapply same_core_trans; [exact C1 | apply same_core_set_tx]);
      rewrite (Hnone wx C2 sx) by (cbn; congruence) end.
    eexists. split; [reflexivity|]. split.
    + match goal with |- live (upd_world ?wx _ _ _) _ _ =>
        apply (live_upd_same wx seid s); apply (live_core _ _ _ _ C2); exact HL end.
    + apply Hoth; auto.
  - rewrite (Hnone w1 C1 s1) by congruence. eexists. split; [rewrite app_nil_r; reflexivity|].
    split; [apply (live_upd_same w1 seid s _ _ HL1)|]. apply Hoth; auto.
Qed.

(* the plain case: a report made of usage items only *)
Lemma serve_items_usa_only w s dst usars : forall acc, serve_items w s dst (map RUsa usars) acc = (w, s, [], Some (acc ++ usars)).
Proof.
  induction usars as [|r rs IH]; intros acc; cbn [map serve_items]; [rewrite app_nil_r; reflexivity|].
  rewrite IH, <- app_assoc. reflexivity.
Qed.

Theorem serve_report_route w seid s n usars :
  WInv w -> live w seid s -> nth_error (w_heap w) (s_node s) = Some n -> usars <> [] ->
  exists w',
    serve_report w seid (map RUsa usars) =
      Ok (w', [OSend (n_id n) (PReportUSAR (w_txseq w mod 16777216) (s_rid s) (snd (emit 0 false (s_urrs s) usars))) false]) /\
    live w' seid (set_urrs (fst (emit 0 false (s_urrs s) usars)) s) /\
    (forall lid' s', lid' <> seid -> (live w' lid' s' <-> live w lid' s')).
Proof.
  intros HI HL Hn Hne.
  destruct (serve_report_general w seid s n (map RUsa usars) w s [] (Some usars) HI HL Hn (serve_items_usa_only w s (n_id n) usars []))
    as [w' [E [L [O _]]]].
  exists w'. destruct usars as [|r rs]; [congruence|]. cbn [app] in E. auto.
Qed.

(* ---------------------------------------------------------------- a per-session invariant over all histories *)

Section SessInv.
  Variable P : sess -> Prop.
  Hypothesis P_empty : forall lid rid node, P (empty_sess lid rid node).
  Hypothesis P_cats : forall e o names c r, run_categories e o names c = Some r -> P (c_s c) -> P (c_s (fst r)).
  Hypothesis P_emit : forall extra d s rs, P s -> P (set_urrs (fst (emit extra d (s_urrs s) rs)) s).
  Hypothesis P_push : forall pdrid p s, P s -> P (push pdrid p s).
  Hypothesis P_node : forall n s, P s -> P (set_node n s).      (* a takeover that moves the session to another node object *)

  Definition slotsP (sl : list (option sess)) : Prop := forall i s, nth_error sl i = Some (Some s) -> P s.
  Definition WP (w : world) : Prop := slotsP (w_slots w).

  Lemma slotsP_set_nth sl i x : slotsP sl -> (forall s, x = Some s -> P s) -> slotsP (set_nth i x sl).
  Proof.
    intros H Hx j s Hj. rewrite nth_set_nth in Hj. destruct (Nat.eqb i j).
    - destruct (i <? length sl)%nat; [|discriminate]. inversion Hj; subst. apply Hx. reflexivity.
    - eapply H; eauto.
  Qed.

  Lemma slotsP_snoc sl x : slotsP sl -> (forall s, x = Some s -> P s) -> slotsP (sl ++ [x]).
  Proof.
    intros H Hx j s Hj. destruct (Nat.lt_ge_cases j (length sl)) as [Hlt|Hge].
    - rewrite nth_error_app1 in Hj by exact Hlt. eapply H; eauto.
    - rewrite nth_error_app2 in Hj by exact Hge. destruct (j - length sl)%nat as [|k]; cbn in Hj.
      + inversion Hj; subst. apply Hx. reflexivity.
      + destruct k; discriminate.
  Qed.

  Lemma lookup_P w seid s : WP w -> lookup (w_slots w) seid = Ok (Found s) -> P s.
  Proof.
    intros HW H. destruct (lookup_spec (w_slots w) seid) as [[s' [H' [_ Hn]]]|[H' _]]; rewrite H' in H; [|discriminate].
    inversion H; subst. eapply HW; eauto.
  Qed.

  Lemma put_slot_P w s w' : WP w -> P s -> put_slot w s = Ok w' -> WP w'.
  Proof.
    intros HW Hs. unfold put_slot. destruct (slot_set (w_slots w) (N.to_nat (s_lid s - 1)) (Some s)) as [sl|f] eqn:E; [|discriminate].
    intros H. inversion H; subst. apply slot_set_Ok in E. destruct E as [_ ->]. unfold WP. cbn [set_slots_free w_slots].
    apply slotsP_set_nth; [exact HW|]. intros s0 E0. inversion E0; subst. exact Hs.
  Qed.

  Lemma new_sess_P w rid node w1 s : WP w -> new_sess w rid node = Ok (w1, s) -> WP w1 /\ P s.
  Proof.
    intros HW. unfold new_sess. destruct (rev (w_free w)) as [|last rest].
    - intros H. inversion H; subst. split; [|apply P_empty]. unfold WP. cbn [set_slots_free w_slots].
      apply slotsP_snoc; [exact HW|]. intros s0 E0. inversion E0; subst. apply P_empty.
    - destruct (slot_set (w_slots w) (N.to_nat (last - 1)) (Some (empty_sess last rid node))) as [sl|f] eqn:E; [|discriminate].
      intros H. inversion H; subst. split; [|apply P_empty]. apply slot_set_Ok in E. destruct E as [_ ->].
      unfold WP. cbn [set_slots_free w_slots]. apply slotsP_set_nth; [exact HW|]. intros s0 E0. inversion E0; subst. apply P_empty.
  Qed.

  Lemma delete_sess_P e w ref lid w' r : WP w -> delete_sess e w ref lid = Ok (w', r) -> WP w'.
  Proof.
    intros HW. unfold delete_sess.
    destruct (nth_error (w_heap w) ref) as [n|]; [|intros H; inversion H; subst; exact HW].
    destruct (negb (memN lid (n_sess n))); [intros H; inversion H; subst; exact HW|].
    destruct (lid =? 0); [intros H; inversion H; subst; exact HW|].
    cbn [set_heap w_slots w_dp w_free].
    destruct (N.of_nat (length (w_slots w)) <? lid); [intros H; inversion H; subst; exact HW|].
    destruct (slot_get (w_slots w) (N.to_nat (lid - 1))) as [[s|]|f]; [|intros H; inversion H; subst; exact HW|discriminate].
    destruct (sess_close e (mkCtx s (w_dp w) [])) as [[c rs]|]; [|intros H; inversion H; subst; exact HW].
    destruct (slot_set (w_slots w) (N.to_nat (lid - 1)) None) as [sl|f] eqn:E; [|discriminate].
    intros H. inversion H; subst. apply slot_set_Ok in E. destruct E as [_ ->].
    unfold WP. cbn [set_dp set_slots_free w_slots]. apply slotsP_set_nth; [exact HW|]. intros s0 E0. discriminate.
  Qed.

  Lemma reset_loop_P e ref ids : forall w acc w' o, WP w -> reset_loop e w ref ids acc = Ok (w', o) -> WP w'.
  Proof.
    induction ids as [|lid ids IH]; intros w acc w' o HW; cbn [reset_loop].
    - intros H. inversion H; subst. exact HW.
    - destruct (delete_sess e w ref lid) as [[w1 r]|f] eqn:Ed; [|discriminate].
      apply delete_sess_P in Ed; [|exact HW]. destruct r as [[[o1 s1] rs]|]; apply IH; exact Ed.
  Qed.

  Lemma node_reset_P e w ref order w' o : WP w -> node_reset e w ref order = Ok (w', o) -> WP w'.
  Proof.
    intros HW. unfold node_reset. destruct (nth_error (w_heap w) ref) as [n|]; [|intros H; inversion H; subst; exact HW].
    match goal with |- context [reset_loop e w ref ?l []] => destruct (reset_loop e w ref l []) as [[w1 o1]|f] eqn:El end; [|discriminate].
    intros H. inversion H; subst. apply reset_loop_P in El; [|exact HW]. exact El.
  Qed.

  Lemma send_rsp_slots w peer seq p : w_slots (fst (send_rsp w peer seq p)) = w_slots w.
  Proof. unfold send_rsp. destruct (klookup (peer, seq) (w_rx w)); reflexivity. Qed.

  Lemma handle_assoc_P w peer seq nid order e w' o : WP w -> handle_assoc w peer seq nid order e = Ok (w', o) -> WP w'.
  Proof.
    intros HW. unfold handle_assoc. destruct nid as [| |id]; try (intros H; inversion H; subst; exact HW).
    destruct (alookup id (w_rnodes w)) as [ref|].
    - destruct (node_reset e w ref order) as [[w1 o1]|f] eqn:En; [|discriminate].
      apply node_reset_P in En; [|exact HW].
      match goal with |- context [send_rsp ?wx peer seq ?px] =>
        pose proof (send_rsp_slots wx peer seq px) as Hs; destruct (send_rsp wx peer seq px) as [w3 o3] end.
      intros H. inversion H; subst. unfold WP. cbn [fst] in Hs. rewrite Hs. exact En.
    - match goal with |- context [send_rsp ?wx peer seq ?px] =>
        pose proof (send_rsp_slots wx peer seq px) as Hs; destruct (send_rsp wx peer seq px) as [w3 o3] end.
      intros H. inversion H; subst. unfold WP. cbn [fst] in Hs. rewrite Hs. exact HW.
  Qed.

  Lemma handle_est_P w peer seq nid fseid o e w' out : WP w -> handle_est w peer seq nid fseid o e = Ok (w', out) -> WP w'.
  Proof.
    intros HW. unfold handle_est. destruct nid as [| |id]; try (intros H; inversion H; subst; exact HW).
    destruct (alookup id (w_rnodes w)) as [ref|]; [|intros H; inversion H; subst; exact HW].
    destruct fseid as [| |rid]; try (intros H; inversion H; subst; exact HW).
    destruct (new_sess w rid ref) as [[w1 s]|f] eqn:En; [|discriminate].
    destruct (new_sess_P _ _ _ _ _ HW En) as [HW1 Hs].
    match goal with |- context [run_categories e o est_order ?cx] =>
      destruct (run_categories e o est_order cx) as [[c rs]|] eqn:Ec end; [|intros H; inversion H; subst; exact HW].
    apply P_cats in Ec; [|exact Hs]. cbn [fst] in Ec.
    match goal with |- context [put_slot ?wx (c_s c)] => destruct (put_slot wx (c_s c)) as [w3|f] eqn:Ep end; [|discriminate].
    apply put_slot_P in Ep; [|exact HW1|exact Ec].
    match goal with |- context [send_rsp ?wx peer seq ?px] =>
      pose proof (send_rsp_slots wx peer seq px) as Hsl; destruct (send_rsp wx peer seq px) as [w4 o4] end.
    intros H. inversion H; subst. unfold WP. cbn [fst] in Hsl. rewrite Hsl. exact Ep.
  Qed.

  Lemma handle_est_abort_P w nid fseid o e w' out : WP w -> handle_est_abort w nid fseid o e = Ok (w', out) -> WP w'.
  Proof.
    intros HW. unfold handle_est_abort. destruct nid as [| |id]; try (intros H; inversion H; subst; exact HW).
    destruct (alookup id (w_rnodes w)) as [ref|]; [|intros H; inversion H; subst; exact HW].
    destruct fseid as [| |rid]; try (intros H; inversion H; subst; exact HW).
    destruct (new_sess w rid ref) as [[w1 s]|f] eqn:En; [|discriminate].
    destruct (new_sess_P _ _ _ _ _ HW En) as [HW1 Hs].
    match goal with |- context [run_categories e o est_order ?cx] =>
      destruct (run_categories e o est_order cx) as [[c rs]|] eqn:Ec end; [|intros H; inversion H; subst; exact HW].
    apply P_cats in Ec; [|exact Hs]. cbn [fst] in Ec.
    match goal with |- context [put_slot ?wx (c_s c)] => destruct (put_slot wx (c_s c)) as [w3|f] eqn:Ep end; [|discriminate].
    apply put_slot_P in Ep; [|exact HW1|exact Ec].
    intros H. inversion H; subst. exact Ep.
  Qed.

  Lemma update_node_id_slots w ref newid : w_slots (update_node_id w ref newid) = w_slots w.
  Proof. unfold update_node_id. destruct (nth_error (w_heap w) ref); reflexivity. Qed.

  Lemma takeover_P w s id w1 s1 : WP w -> P s -> takeover w s id = (w1, s1) -> WP w1 /\ P s1.
  Proof.
    intros HW Hs. unfold takeover.
    assert (R : forall i, WP (update_node_id w (s_node s) i)) by (intros i; unfold WP; rewrite update_node_id_slots; exact HW).
    destruct (alookup id (w_rnodes w)) as [r|]; [destruct (Nat.eqb r (s_node s))|]; try (intros H; inversion H; subst; split; [apply R | exact Hs]).
    unfold move_sess. intros H. inversion H; subst. split; [|apply P_node; exact Hs].
    unfold WP. cbn [set_heap set_dp set_slots_free w_slots]. apply slotsP_set_nth; [exact HW|].
    intros s0 E0. inversion E0; subst. apply P_node. exact Hs.
  Qed.

  Lemma handle_mod_P w peer seq seid nid o e w' out : WP w -> handle_mod w peer seq seid nid o e = Ok (w', out) -> WP w'.
  Proof.
    intros HW. unfold handle_mod. destruct (lookup (w_slots w) seid) as [[s|]|f] eqn:El; [| |discriminate].
    - pose proof (lookup_P _ _ _ HW El) as Hs.
      destruct nid as [| |id]; [|intros H; inversion H; subst; exact HW|].
      + destruct (run_categories e o mod_order (mkCtx s (w_dp w) [])) as [[c rs]|] eqn:Ec; [|intros H; inversion H; subst; exact HW].
        apply P_cats in Ec; [|exact Hs]. cbn [fst] in Ec.
        pose proof (P_emit 0 true (c_s c) rs Ec) as He.
        destruct (emit 0 true (s_urrs (c_s c)) rs) as [urrs ies]. cbn [fst] in He.
        match goal with |- context [put_slot ?wx ?sx] => destruct (put_slot wx sx) as [w2|f] eqn:Ep end; [|discriminate].
        apply put_slot_P in Ep; [|exact HW|exact He].
        match goal with |- context [send_rsp ?wx peer seq ?px] =>
          pose proof (send_rsp_slots wx peer seq px) as Hsl; destruct (send_rsp wx peer seq px) as [w3 o3] end.
        intros H. inversion H; subst. unfold WP. cbn [fst] in Hsl. rewrite Hsl. exact Ep.
      + destruct (takeover w s id) as [w1 s1] eqn:Et. destruct (takeover_P _ _ _ _ _ HW Hs Et) as [HW1 Hs1].
        match goal with |- context [run_categories e o mod_order ?cx] =>
          destruct (run_categories e o mod_order cx) as [[c rs]|] eqn:Ec end; [|intros H; inversion H; subst; exact HW].
        apply P_cats in Ec; [|exact Hs1]. cbn [fst] in Ec.
        pose proof (P_emit 0 true (c_s c) rs Ec) as He.
        destruct (emit 0 true (s_urrs (c_s c)) rs) as [urrs ies]. cbn [fst] in He.
        match goal with |- context [put_slot ?wx ?sx] => destruct (put_slot wx sx) as [w2|f] eqn:Ep end; [|discriminate].
        apply put_slot_P in Ep; [|exact HW1|exact He].
        match goal with |- context [send_rsp ?wx peer seq ?px] =>
          pose proof (send_rsp_slots wx peer seq px) as Hsl; destruct (send_rsp wx peer seq px) as [w3 o3] end.
        intros H. inversion H; subst. unfold WP. cbn [fst] in Hsl. rewrite Hsl. exact Ep.
    - match goal with |- context [send_rsp ?wx peer seq ?px] =>
        pose proof (send_rsp_slots wx peer seq px) as Hsl; destruct (send_rsp wx peer seq px) as [w3 o3] end.
      intros H. inversion H; subst. unfold WP. cbn [fst] in Hsl. rewrite Hsl. exact HW.
  Qed.

  Lemma handle_mod_abort_P w seid nid o e w' out : WP w -> handle_mod_abort w seid nid o e = Ok (w', out) -> WP w'.
  Proof.
    intros HW. unfold handle_mod_abort. destruct (lookup (w_slots w) seid) as [[s|]|f] eqn:El; [| |discriminate].
    - pose proof (lookup_P _ _ _ HW El) as Hs.
      destruct nid as [| |id]; [|intros H; inversion H; subst; exact HW|].
      + destruct (run_categories e o mod_order (mkCtx s (w_dp w) [])) as [[c rs]|] eqn:Ec; [|intros H; inversion H; subst; exact HW].
        apply P_cats in Ec; [|exact Hs]. cbn [fst] in Ec.
        match goal with |- context [put_slot ?wx ?sx] => destruct (put_slot wx sx) as [w2|f] eqn:Ep end; [|discriminate].
        apply put_slot_P in Ep; [|exact HW|exact Ec].
        intros H. inversion H; subst. exact Ep.
      + destruct (takeover w s id) as [w1 s1] eqn:Et. destruct (takeover_P _ _ _ _ _ HW Hs Et) as [HW1 Hs1].
        match goal with |- context [run_categories e o mod_order ?cx] =>
          destruct (run_categories e o mod_order cx) as [[c rs]|] eqn:Ec end; [|intros H; inversion H; subst; exact HW].
        apply P_cats in Ec; [|exact Hs1]. cbn [fst] in Ec.
        match goal with |- context [put_slot ?wx ?sx] => destruct (put_slot wx sx) as [w2|f] eqn:Ep end; [|discriminate].
        apply put_slot_P in Ep; [|exact HW1|exact Ec].
        intros H. inversion H; subst. exact Ep.
    - intros H. inversion H; subst. exact HW.
  Qed.

  Lemma handle_del_P w peer seq seid e w' out : WP w -> handle_del w peer seq seid e = Ok (w', out) -> WP w'.
  Proof.
    intros HW. unfold handle_del. destruct (lookup (w_slots w) seid) as [[s|]|f]; [| |discriminate].
    - destruct (delete_sess e w (s_node s) seid) as [[w1 r]|f] eqn:Ed; [|discriminate].
      apply delete_sess_P in Ed; [|exact HW].
      destruct r as [[[o1 s1] rs]|].
      + destruct (emit USAR_TRIG_TERMR true (s_urrs s1) rs) as [u ies].
        match goal with |- context [send_rsp ?wx peer seq ?px] =>
          pose proof (send_rsp_slots wx peer seq px) as Hsl; destruct (send_rsp wx peer seq px) as [w3 o3] end.
        intros H. inversion H; subst. unfold WP. cbn [fst] in Hsl. rewrite Hsl. exact Ed.
      + match goal with |- context [send_rsp ?wx peer seq ?px] =>
          pose proof (send_rsp_slots wx peer seq px) as Hsl; destruct (send_rsp wx peer seq px) as [w3 o3] end.
        intros H. inversion H; subst. unfold WP. cbn [fst] in Hsl. rewrite Hsl. exact Ed.
    - match goal with |- context [send_rsp ?wx peer seq ?px] =>
        pose proof (send_rsp_slots wx peer seq px) as Hsl; destruct (send_rsp wx peer seq px) as [w3 o3] end.
      intros H. inversion H; subst. unfold WP. cbn [fst] in Hsl. rewrite Hsl. exact HW.
  Qed.

  Lemma recv_request_P w peer seq m e w' out : WP w -> recv_request w peer seq m e = Ok (w', out) -> WP w'.
  Proof.
    intros HW. unfold recv_request.
    destruct (klookup (peer, seq) (w_rx w)) as [[p|]|]; try (intros H; inversion H; subst; exact HW).
    assert (HW0 : WP (set_rx (kset (peer, seq) None (w_rx w)) w)) by exact HW.
    destruct m; try (intros H; inversion H; subst; exact HW0).
    - match goal with |- context [send_rsp ?wx peer seq ?px] =>
        pose proof (send_rsp_slots wx peer seq px) as Hsl; destruct (send_rsp wx peer seq px) as [w3 o3] end.
      intros H. inversion H; subst. unfold WP. cbn [fst] in Hsl. rewrite Hsl. exact HW.
    - apply handle_assoc_P. exact HW0.
    - apply handle_est_P. exact HW0.
    - apply handle_mod_P. exact HW0.
    - apply handle_del_P. exact HW0.
  Qed.

  Lemma recv_request_abort_P w peer seq m e w' out : WP w -> recv_request_abort w peer seq m e = Ok (w', out) -> WP w'.
  Proof.
    intros HW. unfold recv_request_abort.
    destruct (klookup (peer, seq) (w_rx w)) as [[p|]|]; try (intros H; inversion H; subst; exact HW).
    assert (HW0 : WP (set_rx (kset (peer, seq) None (w_rx w)) w)) by exact HW.
    destruct m; try (intros H; inversion H; subst; exact HW0).
    - apply handle_est_abort_P. exact HW0.
    - apply handle_mod_abort_P. exact HW0.
  Qed.

  Lemma recv_response_P w peer seq m e w' out : WP w -> recv_response w peer seq m e = Ok (w', out) -> WP w'.
  Proof.
    intros HW. unfold recv_response. destruct (klookup (peer, seq) (w_tx w)) as [t|]; [|intros H; inversion H; subst; exact HW].
    assert (HW1 : WP (set_tx (kdel (peer, seq) (w_tx w)) (w_txseq w) w)) by exact HW.
    destruct m; try (intros H; inversion H; subst; exact HW1).
    unfold handle_report_rsp. destruct (hdr =? 0).
    - match goal with |- context [remote_sess ?h ?sl ?a ?b] => destruct (remote_sess h sl a b) as [s|] end;
        [|intros H; inversion H; subst; exact HW1].
      match goal with |- context [delete_sess e ?wx ?a ?b] => destruct (delete_sess e wx a b) as [[w2 r]|f] eqn:Ed end; [|discriminate].
      apply delete_sess_P in Ed; [|exact HW1].
      destruct r as [[[o1 s1] rs]|]; intros H; inversion H; subst; exact Ed.
    - match goal with |- context [lookup ?sl hdr] => destruct (lookup sl hdr) end; [|discriminate].
      intros H. inversion H; subst. exact HW1.
  Qed.

  Lemma serve_items_P items : forall w s dst usars w1 s1 o1 u,
    serve_items w s dst items usars = (w1, s1, o1, u) -> P s -> P s1 /\ w_slots w1 = w_slots w.
  Proof.
    induction items as [|it items IH]; intros w s dst usars w1 s1 o1 u; cbn [serve_items].
    - intros H Hs. inversion H; subst. auto.
    - destruct it as [pdrid action p|r]; [|apply IH].
      match goal with |- context [serve_items _ ?sy dst items usars] => set (sx := sy) end.
      intros H Hs. assert (Hsx : P sx) by (unfold sx; destruct (_ && _); [apply P_push|]; exact Hs).
      destruct (negb (flag_of APPLY_ACT_NOCP action)); [inversion H; subst; auto|].
      unfold send_req in H.
      match type of H with context [serve_items ?wa sx dst items usars] =>
        destruct (serve_items wa sx dst items usars) as [[[w2 s2] o2] u2] eqn:E2 end.
      inversion H; subst. destruct (IH _ _ _ _ _ _ _ _ E2 Hsx) as [A B]. split; [exact A|]. rewrite B. reflexivity.
  Qed.

  Lemma serve_report_P w seid items w' out : WP w -> serve_report w seid items = Ok (w', out) -> WP w'.
  Proof.
    intros HW. unfold serve_report. destruct (lookup (w_slots w) seid) as [[s|]|f] eqn:El; [| |discriminate].
    - pose proof (lookup_P _ _ _ HW El) as Hs.
      destruct (nth_error (w_heap w) (s_node s)) as [n|]; [|discriminate].
      destruct (serve_items w s (n_id n) items []) as [[[w1 s1] o1] u] eqn:Es.
      destruct (serve_items_P _ _ _ _ _ _ _ _ _ Es Hs) as [Hs1 Hsl].
      assert (HW1 : WP w1) by (unfold WP; rewrite Hsl; exact HW).
      destruct u as [[|r rs]|].
      + destruct (put_slot w1 s1) as [w3|f] eqn:Ep; [|discriminate]. apply put_slot_P in Ep; [|exact HW1|exact Hs1].
        intros H. inversion H; subst. exact Ep.
      + pose proof (P_emit 0 false s1 (r :: rs) Hs1) as He.
        destruct (emit 0 false (s_urrs s1) (r :: rs)) as [urrs ies]. cbn [fst] in He.
        unfold send_req.
        match goal with |- context [put_slot ?wx ?sx] => destruct (put_slot wx sx) as [w3|f] eqn:Ep end; [|discriminate].
        apply put_slot_P in Ep; [|exact HW1|exact He]. intros H. inversion H; subst. exact Ep.
      + destruct (put_slot w1 s1) as [w3|f] eqn:Ep; [|discriminate]. apply put_slot_P in Ep; [|exact HW1|exact Hs1].
        intros H. inversion H; subst. exact Ep.
    - intros H. inversion H; subst. exact HW.
  Qed.

  Theorem step_sess_inv w ev w' o : WP w -> step w ev = Ok (w', o) -> WP w'.
  Proof.
    intros HW. destruct ev as [peer seq m e|peer seq m e|seid items e|peer seq|peer seq|seid items e|peer seq m e|peer seq]; cbn [step].
    - destruct (is_request m); [apply recv_request_P | apply recv_response_P]; exact HW.
    - destruct (is_request m); [apply recv_request_abort_P; exact HW|].
      destruct (klookup (peer, seq) (w_tx w)); intros H; inversion H; subst; exact HW.
    - apply serve_report_P. exact HW.
    - unfold timeout_tx. destruct (klookup (peer, seq) (w_tx w)) as [t|]; [|intros H; inversion H; subst; exact HW].
      destruct (tx_count t <? w_maxretrans w); intros H; inversion H; subst; exact HW.
    - intros H. inversion H; subst. exact HW.
    - destruct (serve_report w seid items) as [[w1 o1]|f] eqn:Es; cbn [write_fails]; [|discriminate].
      intros H. inversion H; subst. eapply serve_report_P; eauto.
    - destruct (is_request m).
      + destruct (recv_request w peer seq m e) as [[w1 o1]|f] eqn:Es; cbn [write_fails]; [|discriminate].
        intros H. inversion H; subst. eapply recv_request_P; eauto.
      + destruct (recv_response w peer seq m e) as [[w1 o1]|f] eqn:Es; cbn [write_fails]; [|discriminate].
        intros H. inversion H; subst. eapply recv_response_P; eauto.
    - cbn [write_fails]. destruct (timeout_tx w peer seq) as [w1 o1] eqn:Es. intros H. inversion H; subst.
      unfold timeout_tx in Es. destruct (klookup (peer, seq) (w_tx w)) as [t|]; [|inversion Es; subst; exact HW].
      destruct (tx_count t <? w_maxretrans w); inversion Es; subst; exact HW.
  Qed.

  Theorem reachable_sess_inv w : reachable w -> forall lid s, live w lid s -> P s.
  Proof.
    intros Hr. assert (HW : WP w).
    { induction Hr as [q m|w ev w' o Hr IH E]; [intros i s H; destruct i; discriminate|]. eapply step_sess_inv; eauto. }
    intros lid s [_ H]. eapply HW; eauto.
  Qed.
End SessInv.

(* ---------------------------------------------------------------- C13 (c), (d) *)

Theorem close_drops_queues e c c' rs : sess_close e c = Some (c', rs) -> s_q (c_s c') = [].
Proof. intros H. exact (proj1 (sess_close_kept e c c' rs H)). Qed.

Definition QOK (w : world) : Prop :=
  forall lid s, live w lid s -> forall pdr q, alookup pdr (s_q s) = Some q -> N.of_nat (length q) <= BUFFQ_LEN.

Lemma QOK_WP w : QOK w <-> WP q_bounded w.
Proof.
  split.
  - intros H i s Hi pdr q Hq. apply (H (N.of_nat i + 1) s) with (pdr := pdr); [|exact Hq].
    split; [lia|]. replace (N.to_nat (N.of_nat i + 1 - 1)) with i by lia. exact Hi.
  - intros H lid s [_ Hl]. eapply H; eauto.
Qed.

Lemma q_bounded_cats e o names c r : run_categories e o names c = Some r -> q_bounded (c_s c) -> q_bounded (c_s (fst r)).
Proof. intros H Hb. unfold q_bounded. rewrite (run_categories_q_kept _ _ _ _ _ H). exact Hb. Qed.

(* every step keeps every queue of every live session within BUFFQ_LEN (no WInv needed) *)
Theorem step_preserves_QOK w ev w' o : QOK w -> step w ev = Ok (w', o) -> QOK w'.
Proof.
  rewrite !QOK_WP. apply step_sess_inv.
  - intros lid rid node pdr q H. discriminate.
  - apply q_bounded_cats.
  - intros extra d s rs H. exact H.
  - intros pdrid p s. apply push_bounded.
  - intros n s H. exact H.
Qed.

Theorem reachable_QOK w : reachable w -> QOK w.
Proof.
  intros Hr lid s. revert lid s. apply (reachable_sess_inv q_bounded); try assumption.
  - intros lid rid node pdr q H. discriminate.
  - apply q_bounded_cats.
  - intros extra d s rs H. exact H.
  - intros pdrid p s. apply push_bounded.
  - intros n s H. exact H.
Qed.

(* the same machinery: UR-SEQN counters are uint32 values in every reachable state *)
Theorem seq_bounded_reachable w lid s u inf :
  reachable w -> live w lid s -> alookup u (s_urrs s) = Some inf -> ui_seqn inf < M32.
Proof.
  intros Hr HL. revert u inf. change (seq_bounded (s_urrs s)). revert lid s HL.
  apply (reachable_sess_inv (fun s => seq_bounded (s_urrs s))); try assumption.
  - intros lid rid node u inf H. discriminate.
  - intros e o names c r H. apply (skept_bounded (created_by o)). apply (run_categories_kept _ _ _ _ _ H).
  - intros extra d s rs H. cbn [set_urrs s_urrs]. apply emit_bounded. exact H.
  - intros pdrid p s H. destruct (push_fifo_cap pdrid p s) as [_ [_ [_ [_ [_ [_ [_ [_ [_ E]]]]]]]]]. rewrite E. exact H.
  - intros n s H. exact H.
Qed.

Theorem reachable_queue_bound w lid s pdr q :
  reachable w -> live w lid s -> alookup pdr (s_q s) = Some q -> N.of_nat (length q) <= BUFFQ_LEN.
Proof. intros Hr HL. exact (reachable_QOK w Hr lid s HL pdr q). Qed.

(* ---------------------------------------------------------------- the carriers: what is stored is what was counted *)

(* Session Modification (no Node ID): the response carries snd (emit 0 true ..) over the reports of the request's
   operations, and the session stored afterwards carries fst of the SAME emission - so the next message continues
   the UR-SEQN of every URR where this one stopped (emit_counter_after).  Destination = the requester. *)
Theorem handle_mod_emits w peer seq seid o e s c rs :
  WInv w -> live w seid s ->
  run_categories e o mod_order (mkCtx s (w_dp w) []) = Some (c, rs) ->
  exists w' o3,
    handle_mod w peer seq seid IeAbsent o e = Ok (w', c_out c ++ o3) /\
    live w' seid (set_urrs (fst (emit 0 true (s_urrs (c_s c)) rs)) (c_s c)) /\
    (o3 = [] \/ o3 = [OSend peer (PModRsp seq (s_rid s) CauseAccepted (snd (emit 0 true (s_urrs (c_s c)) rs))) false]).
Proof.
  intros HI HL Ec. unfold handle_mod. pose proof HL as HL0. apply lookup_found in HL0. rewrite HL0, Ec.
  pose proof (run_categories_good _ _ _ _ _ Ec) as [[Fl _ _ _ _] _]. cbn [fst c_s] in Fl.
  destruct (emit 0 true (s_urrs (c_s c)) rs) as [urrs ies]. cbn [fst snd].
  assert (Hlid : s_lid s = seid) by (eapply live_lid; eauto).
  rewrite (put_slot_upd w seid s (set_urrs urrs (c_s c)) (c_dp c) HL) by (cbn; congruence).
  match goal with |- context [send_rsp ?wx peer seq ?px] =>
    pose proof (send_rsp_core wx peer seq px) as C; pose proof (PfcpFrame.send_rsp_out wx peer seq px) as Ho;
    destruct (send_rsp wx peer seq px) as [w3 o3] end.
  cbn [fst snd] in *. exists w3, o3. split; [reflexivity|]. split; [|exact Ho].
  apply (live_core _ _ _ _ C). apply (live_upd_same w seid s _ _ HL).
Qed.

(* Session Deletion: the response carries the emission, with TERMR, over the reports of Sess.Close *)
Theorem handle_del_emits w peer seq seid e s w1 o1 s1 rs :
  live w seid s -> delete_sess e w (s_node s) seid = Ok (w1, Some (o1, s1, rs)) ->
  exists w' o3,
    handle_del w peer seq seid e = Ok (w', o1 ++ o3) /\
    (o3 = [] \/ o3 = [OSend peer (PDelRsp seq (s_rid s) CauseAccepted (snd (emit USAR_TRIG_TERMR true (s_urrs s1) rs))) false]).
Proof.
  intros HL Ed. unfold handle_del. apply lookup_found in HL. rewrite HL, Ed.
  destruct (emit USAR_TRIG_TERMR true (s_urrs s1) rs) as [u ies]. cbn [snd].
  match goal with |- context [send_rsp ?wx peer seq ?px] =>
    pose proof (PfcpFrame.send_rsp_out wx peer seq px) as Ho; destruct (send_rsp wx peer seq px) as [w3 o3] end.
  cbn [snd] in Ho. exists w3, o3. split; [reflexivity | exact Ho].
Qed.

(* ---------------------------------------------------------------- Create URR for an id the session already has *)

(* URR 7 reports with UR-SEQN 0; a second Create URR 7 is rejected by the driver (the rule exists); since fix
   "Create URR for a held id keeps its UR-SEQN" the bookkeeping is put back, and the next report of the SAME, still
   running, URR carries UR-SEQN 1 (before the fix it carried 0 again) *)
Definition recreate_urr_history : list event :=
  [EvRecv 0 1 (MAssocSetup (IeVal 0) []) (mkEnv [] []);
   EvRecv 0 2 (MEst (IeVal 0) (IeVal 10)
     (mkOps [] [] [mkUrrOp (Some 7) (Some 2) None] [] [mkPdrOp (Some 1) [7] true false] [] [] [] [] [] [] [] [] [] [] []))
     (mkEnv [] []);
   EvReport 1 [RUsa (mkRpt 7 1 0 [30; 30; 30; 1; 1; 1] 5 100 200)] (mkEnv [] []);
   EvRecv 0 3 (MMod 1 IeAbsent (mkOps [] [] [mkUrrOp (Some 7) (Some 2) None] [] [] [] [] [] [] [] [] [] [] [] [] []))
     (mkEnv [] []);
   EvReport 1 [RUsa (mkRpt 7 1 0 [40; 40; 40; 1; 1; 1] 5 200 300)] (mkEnv [] [])].

Definition usar_seqns (o : list out) : list (N * N) :=
  flat_map (fun x => match x with OSend _ (PReportUSAR _ _ ies) _ => map (fun ie => (ur_urr ie, ur_seqn ie)) ies | _ => [] end) o.

Example create_urr_existing_id_keeps_counter :
  match run (init 0 1) recreate_urr_history with
  | Ok (_, os) =>
      usar_seqns (nth 2 os []) = [(7, 0)] /\
      nth 3 os [] = [ODrv DCreate KURR 1 7 false; OSend 0 (PModRsp 3 10 CauseAccepted []) false] /\
      usar_seqns (nth 4 os []) = [(7, 1)]
  | Fault _ => False
  end.
Proof. vm_compute. repeat split; reflexivity. Qed.

(* ---------------------------------------------------------------- C12 (a) at the server: a well-formed Modification keeps the counts exact *)

Theorem handle_mod_RefInv w peer seq seid o e s :
  WInv w -> live w seid s -> RefInv s -> cpdr_wf o s ->
  exists w' out, handle_mod w peer seq seid IeAbsent o e = Ok (w', out) /\
    (w' = w \/ exists s', live w' seid s' /\ RefInv s').
Proof.
  intros HI HL HR Hwf.
  destruct (run_categories e o mod_order (mkCtx s (w_dp w) [])) as [[c rs]|] eqn:Ec.
  - destruct (handle_mod_emits w peer seq seid o e s c rs HI HL Ec) as [w' [o3 [E [L _]]]].
    exists w', (c_out c ++ o3). split; [exact E|]. right. eexists. split; [exact L|].
    apply emit_RefInv. apply (run_categories_RefInv e o mod_order (mkCtx s (w_dp w) []) (c, rs) Ec HR mod_order_once Hwf).
  - exists w, []. split; [|left; reflexivity]. unfold handle_mod. apply lookup_found in HL. rewrite HL, Ec. reflexivity.
Qed.

(* the same without any hypothesis on the Create PDR ids of the request (they may name PDRs the session holds, or repeat):
   room below 65536 PDRs is all that is needed *)
Theorem handle_mod_RefInv_room w peer seq seid o e s :
  WInv w -> live w seid s -> RefInv s -> cpdr_room o s ->
  exists w' out, handle_mod w peer seq seid IeAbsent o e = Ok (w', out) /\
    (w' = w \/ exists s', live w' seid s' /\ RefInv s').
Proof.
  intros HI HL HR Hwf.
  destruct (run_categories e o mod_order (mkCtx s (w_dp w) [])) as [[c rs]|] eqn:Ec.
  - destruct (handle_mod_emits w peer seq seid o e s c rs HI HL Ec) as [w' [o3 [E [L _]]]].
    exists w', (c_out c ++ o3). split; [exact E|]. right. eexists. split; [exact L|].
    apply emit_RefInv. apply (run_categories_RefInv_room e o mod_order (mkCtx s (w_dp w) []) (c, rs) Ec HR mod_order_once Hwf).
  - exists w, []. split; [|left; reflexivity]. unfold handle_mod. apply lookup_found in HL. rewrite HL, Ec. reflexivity.
Qed.
