(* C13 (packet queues inside the PFCP layer), C10 (b) (routing of usage reports), and a generic
   "per-session invariant over all histories" theorem for the server step. *)
From Coq Require Import String List NArith ZArith Bool Lia.
From GoUpf Require Import Bytes FlagsGen ConstsGen HandlerGen Pfcp PfcpBase PfcpSess PfcpClose PfcpTable PfcpDelete
  PfcpStep PfcpProps PfcpCat PfcpUsage.
Import ListNotations.
Local Open Scope N_scope.

(* ---------------------------------------------------------------- C13 (a): Sess.Push *)

Definition queue_of (pdrid : N) (s : sess) : list pkt :=
  match alookup pdrid (s_q s) with Some q => q | None => [] end.

(* FIFO with a cap: the packet is appended if there is room, otherwise the NEW packet is dropped and the queue
   keeps its older packets; other queues and all other fields of the session are untouched *)
Theorem push_fifo_cap pdrid p s :
  alookup pdrid (s_q (push pdrid p s)) =
    Some (if N.of_nat (length (queue_of pdrid s)) <? BUFFQ_LEN then queue_of pdrid s ++ [p] else queue_of pdrid s) /\
  (forall pdr', pdr' <> pdrid -> alookup pdr' (s_q (push pdrid p s)) = alookup pdr' (s_q s)) /\
  s_lid (push pdrid p s) = s_lid s /\ s_rid (push pdrid p s) = s_rid s /\ s_node (push pdrid p s) = s_node s /\
  s_pdrs (push pdrid p s) = s_pdrs s /\ s_fars (push pdrid p s) = s_fars s /\ s_qers (push pdrid p s) = s_qers s /\
  s_bars (push pdrid p s) = s_bars s /\ s_urrs (push pdrid p s) = s_urrs s.
Proof.
  unfold push, queue_of. destruct (N.of_nat (length match alookup pdrid (s_q s) with Some q => q | None => [] end) <? BUFFQ_LEN);
    cbn [set_q s_q s_lid s_rid s_node s_pdrs s_fars s_qers s_bars s_urrs];
    (split; [apply alookup_aset_same|]); (split; [intros pdr' Hne; apply alookup_aset_other; exact Hne|]); repeat split.
Qed.

Definition q_bounded (s : sess) : Prop :=
  forall pdr q, alookup pdr (s_q s) = Some q -> N.of_nat (length q) <= BUFFQ_LEN.

Theorem push_bounded pdrid p s : q_bounded s -> q_bounded (push pdrid p s).
Proof.
  intros Hb pdr q H. destruct (push_fifo_cap pdrid p s) as [A [B _]].
  destruct (N.eq_dec pdr pdrid) as [->|Hne].
  - rewrite A in H. inversion H; subst; clear H.
    assert (Hq : N.of_nat (length (queue_of pdrid s)) <= BUFFQ_LEN).
    { unfold queue_of. destruct (alookup pdrid (s_q s)) as [q0|] eqn:E; [eapply Hb; eauto | cbn; unfold BUFFQ_LEN; lia]. }
    destruct (N.ltb_spec (N.of_nat (length (queue_of pdrid s))) BUFFQ_LEN) as [Hlt|Hge]; [|exact Hq].
    rewrite app_length. cbn [length]. lia.
  - rewrite B in H by exact Hne. eapply Hb; eauto.
Qed.

(* ---------------------------------------------------------------- C13 (b): ServeReport, item by item *)

Definition is_nil {A} (l : list A) : bool := match l with [] => true | _ => false end.

(* a downlink-data item: pushed iff BUFF and the packet is non-empty; a Session Report Request (DLDR) iff NOCP,
   to [dst], with the peer's SEID in the header and the PDR id; without NOCP the remaining items are skipped *)
Theorem serve_items_dld w s dst pdrid action p rest usars :
  serve_items w s dst (RDld pdrid action p :: rest) usars =
    let s1 := if flag_of APPLY_ACT_BUFF action && negb (is_nil p) then push pdrid p s else s in
    if flag_of APPLY_ACT_NOCP action then
      let w1 := fst (send_req w dst (s_rid s) (PReportDLDR 0 (s_rid s) pdrid)) in
      let '(w2, s2, o2, u) := serve_items w1 s1 dst rest usars in
      (w2, s2, OSend dst (PReportDLDR (w_txseq w mod 16777216) (s_rid s) pdrid) false :: o2, u)
    else (w, s1, [], None).
Proof.
  cbn [serve_items]. unfold is_nil.
  set (s1 := if flag_of APPLY_ACT_BUFF action && negb match p with [] => true | _ :: _ => false end then push pdrid p s else s).
  assert (Hr : s_rid s1 = s_rid s).
  { unfold s1. destruct (_ && _); [apply push_ids | reflexivity]. }
  cbn zeta. destruct (flag_of APPLY_ACT_NOCP action); cbn [negb]; [|reflexivity].
  rewrite Hr. unfold send_req. cbn [fst pdu_with_seq].
  destruct (serve_items _ s1 dst rest usars) as [[[w2 s2] o2] u]. reflexivity.
Qed.

Theorem serve_items_usa w s dst r rest usars :
  serve_items w s dst (RUsa r :: rest) usars = serve_items w s dst rest (usars ++ [r]).
Proof. reflexivity. Qed.

Definition all_nocp (items : list report_item) : bool :=
  forallb (fun it => match it with RDld _ a _ => flag_of APPLY_ACT_NOCP a | RUsa _ => true end) items.
Definition usa_of (items : list report_item) : list rpt :=
  flat_map (fun it => match it with RUsa r => [r] | RDld _ _ _ => [] end) items.
Definition dld_of (items : list report_item) : list N :=
  flat_map (fun it => match it with RUsa _ => [] | RDld pdrid _ _ => [pdrid] end) items.

(* the usage reports handed to serveUSAReport: all usage items in order - unless a downlink item without NOCP
   ended the processing (Go: return), then none; every datagram produced here is a DLDR to dst with the peer's SEID *)
Lemma serve_items_result items : forall w s dst usars w1 s1 o1 u,
  serve_items w s dst items usars = (w1, s1, o1, u) ->
  u = (if all_nocp items then Some (usars ++ usa_of items) else None) /\
  (exists qs pdrs, o1 = map (fun x => OSend dst (PReportDLDR (fst x) (s_rid s) (snd x)) false) (combine qs pdrs) /\
                   length qs = length pdrs /\ (all_nocp items = true -> pdrs = dld_of items)) /\
  s_urrs s1 = s_urrs s /\ s_rid s1 = s_rid s /\ s_lid s1 = s_lid s /\ s_node s1 = s_node s /\
  (q_bounded s -> q_bounded s1).
Proof.
  induction items as [|it items IH]; intros w s dst usars w1 s1 o1 u.
  - cbn [serve_items]. intros H. inversion H; subst. cbn. rewrite app_nil_r.
    split; [reflexivity|]. split; [exists [], []; auto|]. auto.
  - destruct it as [pdrid action p|r].
    + rewrite serve_items_dld. cbn zeta.
      set (sx := if flag_of APPLY_ACT_BUFF action && negb (is_nil p) then push pdrid p s else s).
      assert (Hsx : s_urrs sx = s_urrs s /\ s_rid sx = s_rid s /\ s_lid sx = s_lid s /\ s_node sx = s_node s /\
                    (q_bounded s -> q_bounded sx)).
      { unfold sx. destruct (_ && _); [|auto].
        destruct (push_fifo_cap pdrid p s) as [_ [_ [A [B [C [_ [_ [_ [_ D]]]]]]]]].
        repeat split; auto. apply push_bounded. }
      destruct Hsx as [X1 [X2 [X3 [X4 X5]]]].
      cbn [all_nocp forallb]. fold (all_nocp items).
      destruct (flag_of APPLY_ACT_NOCP action); cbn [andb].
      * destruct (serve_items _ sx dst items usars) as [[[w2 s2] o2] u2] eqn:E2.
        intros H. inversion H; subst.
        destruct (IH _ _ _ _ _ _ _ _ E2) as [U [[qs [pdrs [O [L D]]]] [Y1 [Y2 [Y3 [Y4 Y5]]]]]].
        split; [exact U|]. split.
        { exists (w_txseq w mod 16777216 :: qs), (pdrid :: pdrs). cbn [combine map fst snd length].
          rewrite O, X2. split; [reflexivity|]. split; [congruence|]. intros Ha. cbn [dld_of flat_map app].
          fold (dld_of items). rewrite D by exact Ha. reflexivity. }
        repeat split; try congruence. auto.
      * intros H. inversion H; subst. split; [reflexivity|]. split; [exists [], []; cbn; repeat split; discriminate|].
        repeat split; auto.
    + rewrite serve_items_usa. intros H. destruct (IH _ _ _ _ _ _ _ _ H) as [U [O R]].
      cbn [all_nocp forallb andb usa_of dld_of flat_map app]. fold (all_nocp items) (usa_of items) (dld_of items).
      rewrite <- app_assoc in U. cbn [app] in U. auto.
Qed.

(* ---------------------------------------------------------------- C10 (b): where a usage report goes *)

Lemma serve_report_unknown w seid items : (forall s, ~ live w seid s) -> serve_report w seid items = Ok (w, []).
Proof. intros H. apply lookup_notfound in H. unfold serve_report. rewrite H. reflexivity. Qed.

(* ServeReport for a live session: the DLDR requests of the items, then - if usage reports were collected - exactly
   one Session Report Request (USAR) to the node id of the node object owning the session, header SEID = the
   peer's SEID, usage-report IEs = the emission over the session's URR bookkeeping *)
Theorem serve_report_general w seid s n items w1 s1 o1 u :
  WInv w -> live w seid s -> nth_error (w_heap w) (s_node s) = Some n ->
  serve_items w s (n_id n) items [] = (w1, s1, o1, u) ->
  exists w',
    serve_report w seid items =
      Ok (w', o1 ++ match u with
                    | Some (r :: rs) =>
                        [OSend (n_id n) (PReportUSAR (w_txseq w1 mod 16777216) (s_rid s)
                                           (snd (emit 0 false (s_urrs s) (r :: rs)))) false]
                    | _ => [] end) /\
    live w' seid (match u with
                  | Some (r :: rs) => set_urrs (fst (emit 0 false (s_urrs s) (r :: rs))) s1
                  | _ => s1 end) /\
    (forall lid' s', lid' <> seid -> (live w' lid' s' <-> live w lid' s')) /\
    w_dp w' = w_dp w /\ w_heap w' = w_heap w /\ w_rnodes w' = w_rnodes w.
Proof.
  intros HI HL Hn Es. unfold serve_report.
  pose proof HL as HL0. apply lookup_found in HL0. rewrite HL0, Hn, Es.
  destruct (serve_items_spec _ _ _ _ _ _ _ _ _ Es) as [C1 [A [B [C [D E]]]]].
  assert (HL1 : live w1 seid s) by (apply (live_core _ _ _ _ C1); exact HL).
  assert (Hlid : s_lid s = seid) by (eapply live_lid; eauto).
  assert (Hp : 1 <= seid) by (destruct HL; assumption).
  assert (Hoth : forall wx, same_core w wx -> forall sx dp, dp = w_dp wx ->
            (forall lid' s', lid' <> seid -> (live (upd_world wx seid sx dp) lid' s' <-> live w lid' s')) /\
            w_dp (upd_world wx seid sx dp) = w_dp w /\ w_heap (upd_world wx seid sx dp) = w_heap w /\
            w_rnodes (upd_world wx seid sx dp) = w_rnodes w).
  { intros wx Cx sx dp ->. destruct Cx as [E1 [E2 [E3 [E4 E5]]]]. split; [|cbn; auto].
    intros lid' s' Hne. rewrite live_upd_other by assumption. unfold live. rewrite E1. tauto. }
  assert (Hnone : forall wx, same_core w wx -> forall sx, s_lid sx = seid ->
            put_slot wx sx = Ok (upd_world wx seid sx (w_dp wx))).
  { intros wx Cx sx El. assert (HLx : live wx seid s) by (apply (live_core _ _ _ _ Cx); exact HL).
    rewrite <- (put_slot_upd wx seid s sx (w_dp wx) HLx El). destruct wx; reflexivity. }
  destruct u as [[|r rs]|].
  - rewrite (Hnone w1 C1 s1) by congruence. eexists. split; [rewrite app_nil_r; reflexivity|].
    split; [apply (live_upd_same w1 seid s _ _ HL1)|]. apply Hoth; auto.
  - rewrite D. destruct (emit 0 false (s_urrs s) (r :: rs)) as [urrs ies] eqn:Ee. cbn [fst snd set_urrs s_rid].
    unfold send_req. cbn [pdu_with_seq]. rewrite C.
    match goal with |- context [put_slot ?wx ?sx] =>
      assert (C2 : same_core w wx) by (eapply same_core_trans; [exact C1 | apply same_core_set_tx]);
      rewrite (Hnone wx C2 sx) by (cbn; congruence) end.
    eexists. split; [reflexivity|]. split.
    + match goal with |- live (upd_world ?wx _ _ _) _ _ =>
        apply (live_upd_same wx seid s); apply (live_core _ _ _ _ C2); exact HL end.
    + apply Hoth; auto.
  - rewrite (Hnone w1 C1 s1) by congruence. eexists. split; [rewrite app_nil_r; reflexivity|].
    split; [apply (live_upd_same w1 seid s _ _ HL1)|]. apply Hoth; auto.
Qed.

(* the plain case: a report made of usage items only *)
Lemma serve_items_usa_only w s dst usars : forall acc, serve_items w s dst (map RUsa usars) acc = (w, s, [], Some (acc ++ usars)).
Proof.
  induction usars as [|r rs IH]; intros acc; cbn [map serve_items]; [rewrite app_nil_r; reflexivity|].
  rewrite IH, <- app_assoc. reflexivity.
Qed.

Theorem serve_report_route w seid s n usars :
  WInv w -> live w seid s -> nth_error (w_heap w) (s_node s) = Some n -> usars <> [] ->
  exists w',
    serve_report w seid (map RUsa usars) =
      Ok (w', [OSend (n_id n) (PReportUSAR (w_txseq w mod 16777216) (s_rid s) (snd (emit 0 false (s_urrs s) usars))) false]) /\
    live w' seid (set_urrs (fst (emit 0 false (s_urrs s) usars)) s) /\
    (forall lid' s', lid' <> seid -> (live w' lid' s' <-> live w lid' s')).
Proof.
  intros HI HL Hn Hne.
  destruct (serve_report_general w seid s n (map RUsa usars) w s [] (Some usars) HI HL Hn (serve_items_usa_only w s (n_id n) usars []))
    as [w' [E [L [O _]]]].
  exists w'. destruct usars as [|r rs]; [congruence|]. cbn [app] in E. auto.
Qed.
