(* Sess.Close withdraws every rule of the session from the data plane (C01, withdrawal part):
   given only that the data plane's rules of the session are recorded (SOK), after Close no rule tagged
   with the session's SEID is left - whatever installations failed before. *)
From Coq Require Import String List NArith ZArith Bool Lia.
From GoUpf Require Import Bytes FlagsGen ConstsGen HandlerGen Pfcp PfcpBase PfcpSess.
Import ListNotations.
Local Open Scope N_scope.

Definition shrinks (c c' : sctx) : Prop := forall r, In r (c_dp c') -> In r (c_dp c).

Lemma shrinks_refl c : shrinks c c. Proof. intros r H; exact H. Qed.
Lemma shrinks_trans a b c : shrinks a b -> shrinks b c -> shrinks a c.
Proof. intros H1 H2 r H. auto. Qed.

Lemma drv_shrinks e c op k id c' ok : op <> DCreate -> drv e c op k id = (c', ok) -> shrinks c c'.
Proof.
  intros Hop H. apply drv_spec in H. destruct H as [_ [Hd _]].
  pose proof (dp_call_spec _ _ _ _ _ _ _ _ Hd) as [_ [_ [_ [_ [_ [B _]]]]]].
  intros r Hr. apply B; assumption.
Qed.

Lemma upd_s_shrinks c f : shrinks c (upd_s c f).
Proof. intros r H. exact H. Qed.

Lemma remove_simple_shrinks e k id c : shrinks c (remove_simple e k id c).
Proof.
  unfold remove_simple. destruct id as [i|]; [|apply shrinks_refl].
  destruct (memN i (recorded (c_s c) k)); [|apply shrinks_refl].
  destruct (drv e c DRemove k i) as [c1 ok] eqn:E.
  assert (S1 : shrinks c c1) by (eapply drv_shrinks; [|eauto]; discriminate).
  destruct ok; [|exact S1]. intros r H. apply S1. exact H.
Qed.

Lemma remove_urr_shrinks e id c : shrinks c (fst (remove_urr e id c)).
Proof.
  unfold remove_urr. destruct id as [i|]; [|apply shrinks_refl].
  destruct (alookup i (s_urrs (c_s c))); [|apply shrinks_refl].
  match goal with |- context [drv e ?cx DRemove KURR i] => destruct (drv e cx DRemove KURR i) as [c2 ok] eqn:E end.
  cbn [fst]. apply drv_shrinks in E; [|discriminate]. intros r H. rewrite forget_urr_dp in H. apply E in H. exact H.
Qed.

Lemma diassociate_shrinks e u c : shrinks c (fst (diassociate e u c)).
Proof.
  unfold diassociate. destruct (alookup u (s_urrs (c_s c))) as [inf|]; [|apply shrinks_refl].
  destruct (0 <? ui_ref inf); [|apply shrinks_refl].
  match goal with |- context [if ?b then _ else _] => destruct b end; [|cbn [fst]; intros r H; exact H].
  match goal with |- context [drv e ?cx DQuery KURR u] => destruct (drv e cx DQuery KURR u) as [c2 ok] eqn:E end.
  cbn [fst]. apply drv_shrinks in E; [|discriminate]. intros r H. apply E in H. exact H.
Qed.

Lemma diassociate_all_shrinks e us c : shrinks c (fst (diassociate_all e us c)).
Proof.
  revert c. induction us as [|u us IH]; intros c; cbn [diassociate_all]; [apply shrinks_refl|].
  pose proof (diassociate_shrinks e u c) as S1. destruct (diassociate e u c) as [c1 r1]. cbn [fst] in S1.
  pose proof (IH c1) as S2. destruct (diassociate_all e us c1) as [c2 r2]. cbn [fst] in *.
  eapply shrinks_trans; eauto.
Qed.

Lemma remove_pdr_shrinks e id c : shrinks c (fst (remove_pdr e id c)).
Proof.
  unfold remove_pdr. destruct id as [i|]; [|apply shrinks_refl].
  destruct (alookup i (s_pdrs (c_s c))) as [rel|]; [|apply shrinks_refl].
  destruct (drv e c DRemove KPDR i) as [c1 ok] eqn:E.
  assert (S1 : shrinks c c1) by (eapply drv_shrinks; [|eauto]; discriminate).
  destruct ok; cbn [negb]; [|exact S1].
  pose proof (diassociate_all_shrinks e rel c1) as S2.
  destruct (diassociate_all e rel c1) as [c2 rs]. cbn [fst] in *.
  intros r H. apply S1. apply S2. exact H.
Qed.

Lemma fold_rpt_fst {A} (f : A -> sctx -> sctx * list rpt) l c :
  fst (fold_rpt f l c) = fold_ctx (fun x c => fst (f x c)) l c.
Proof.
  unfold fold_ctx. revert c. induction l as [|x l IH]; intros c; cbn [fold_rpt fold_left]; [reflexivity|].
  destruct (f x c) as [c1 r1] eqn:E1. destruct (fold_rpt f l c1) as [c2 r2] eqn:E2. cbn [fst].
  rewrite <- IH, E2. reflexivity.
Qed.

Lemma fold_ctx_shrinks {A} (f : A -> sctx -> sctx) l c :
  (forall x c, shrinks c (f x c)) -> shrinks c (fold_ctx f l c).
Proof.
  intros Hf. unfold fold_ctx. revert c. induction l as [|x l IH]; intros c; cbn [fold_left]; [apply shrinks_refl|].
  eapply shrinks_trans; [apply Hf | apply IH].
Qed.

Lemma fold_ctx_cons {A} (f : A -> sctx -> sctx) x l c : fold_ctx f (x :: l) c = fold_ctx f l (f x c).
Proof. reflexivity. Qed.

(* a fold of removals: every element's target rule is gone afterwards *)
Lemma fold_ctx_gone {A} (f : A -> sctx -> sctx) (k : kind) (tid : A -> option N) l c :
  (forall x c, good c (f x c)) ->
  (forall x c, shrinks c (f x c)) ->
  (forall x c i, tid x = Some i -> SOK (c_s c) (c_dp c) -> ~ In (s_lid (c_s c), k, i) (c_dp (f x c))) ->
  SOK (c_s c) (c_dp c) ->
  forall x i, In x l -> tid x = Some i -> ~ In (s_lid (c_s c), k, i) (c_dp (fold_ctx f l c)).
Proof.
  intros Hg Hs Hgone. revert c.
  induction l as [|y l IH]; intros c HS x i Hx Ht; [destruct Hx|].
  rewrite fold_ctx_cons.
  pose proof (Hg y c) as [[Hl _ _ _ _] HS1].
  destruct Hx as [->|Hx].
  - intros Hi. apply (Hgone x c i Ht HS).
    apply (fold_ctx_shrinks f l (f x c) Hs). exact Hi.
  - rewrite <- Hl. apply (IH (f y c) (HS1 HS) x i Hx Ht).
Qed.

Lemma remove_simple_gone e k c i :
  SOK (c_s c) (c_dp c) -> ~ In (s_lid (c_s c), k, i) (c_dp (remove_simple e k (Some i) c)).
Proof.
  intros [Hc _]. unfold remove_simple.
  destruct (memN i (recorded (c_s c) k)) eqn:Em.
  - destruct (drv e c DRemove k i) as [c1 ok] eqn:E. apply drv_spec in E. destruct E as [_ [Hd _]].
    pose proof (dp_call_spec _ _ _ _ _ _ _ _ Hd) as [_ [_ [R1 [R2 _]]]].
    destruct ok.
    + cbn [upd_s c_dp]. apply R1; reflexivity.
    + destruct (R2 eq_refl eq_refl) as [Hn Heq]. rewrite Heq. exact Hn.
  - apply memN_false in Em. intros Hi. apply Em. apply Hc. exact Hi.
Qed.

Lemma remove_urr_gone e c i :
  SOK (c_s c) (c_dp c) -> ~ In (s_lid (c_s c), KURR, i) (c_dp (fst (remove_urr e (Some i) c))).
Proof.
  intros [Hc _]. unfold remove_urr.
  destruct (alookup i (s_urrs (c_s c))) as [inf|] eqn:El.
  - match goal with |- context [drv e ?cx DRemove KURR i] => destruct (drv e cx DRemove KURR i) as [c2 ok] eqn:E end.
    cbn [fst]. rewrite forget_urr_dp. apply drv_spec in E. destruct E as [_ [Hd _]]. cbn [upd_s c_s c_dp set_urrs s_lid] in Hd.
    pose proof (dp_call_spec _ _ _ _ _ _ _ _ Hd) as [_ [_ [R1 [R2 _]]]].
    destruct ok.
    + apply R1; reflexivity.
    + destruct (R2 eq_refl eq_refl) as [Hn Heq]. rewrite Heq. exact Hn.
  - cbn [fst]. intros Hi. apply Hc in Hi. cbn [recorded] in Hi.
    apply alookup_None in El. auto.
Qed.

Lemma remove_pdr_gone e c i :
  SOK (c_s c) (c_dp c) -> ~ In (s_lid (c_s c), KPDR, i) (c_dp (fst (remove_pdr e (Some i) c))).
Proof.
  intros [Hc _]. unfold remove_pdr.
  destruct (alookup i (s_pdrs (c_s c))) as [rel|] eqn:El.
  - destruct (drv e c DRemove KPDR i) as [c1 ok] eqn:E. apply drv_spec in E. destruct E as [_ [Hd _]].
    pose proof (dp_call_spec _ _ _ _ _ _ _ _ Hd) as [_ [_ [R1 [R2 _]]]].
    destruct ok; cbn [negb].
    + pose proof (diassociate_all_shrinks e rel c1) as S2.
      destruct (diassociate_all e rel c1) as [c2 rs]. cbn [fst upd_s c_dp] in *.
      intros Hi. apply S2 in Hi. revert Hi. apply R1; reflexivity.
    + cbn [fst]. destruct (R2 eq_refl eq_refl) as [Hn Heq]. rewrite Heq. exact Hn.
  - cbn [fst]. intros Hi. apply Hc in Hi. cbn [recorded] in Hi. apply alookup_None in El. auto.
Qed.

Definition kind_of_close (name : string) : option kind :=
  if String.eqb name "FARIDs:RemoveFAR" then Some KFAR else
  if String.eqb name "QERIDs:RemoveQER" then Some KQER else
  if String.eqb name "URRIDs:RemoveURR" then Some KURR else
  if String.eqb name "BARIDs:RemoveBAR" then Some KBAR else
  if String.eqb name "PDRIDs:RemovePDR" then Some KPDR else None.

Lemma close_category_shrinks e name c r : close_category e name c = Some r -> shrinks c (fst r).
Proof.
  unfold close_category.
  repeat match goal with
  | |- (if String.eqb name ?s then _ else _) = _ -> _ =>
    destruct (String.eqb name s);
    [ let H := fresh "H" in intros H; inversion H; subst; clear H; cbn [fst];
      first [ apply fold_ctx_shrinks; intros; apply remove_simple_shrinks
            | rewrite fold_rpt_fst; apply fold_ctx_shrinks; intros;
              first [apply remove_urr_shrinks | apply remove_pdr_shrinks] ] | ]
  end.
  discriminate.
Qed.

(* one category of Close empties its kind *)
Lemma close_category_empties e name c r k :
  close_category e name c = Some r -> kind_of_close name = Some k ->
  SOK (c_s c) (c_dp c) ->
  forall id, ~ In (s_lid (c_s c), k, id) (c_dp (fst r)).
Proof.
  unfold close_category, kind_of_close. intros Hc Hk HS id Hi.
  pose proof HS as [Hcont _].
  destruct (String.eqb name "FARIDs:RemoveFAR") eqn:EKFAR.
  { inversion Hc; subst; inversion Hk; subst; clear Hc Hk. cbn [fst] in *.
    assert (Hrec : In id (s_fars (c_s c))).
    { apply (Hcont KFAR id). revert Hi.
      apply (fold_ctx_shrinks (remove_simple e KFAR) (map Some (s_fars (c_s c))) c).
      intros; apply remove_simple_shrinks. }
    revert Hi.
    apply (fold_ctx_gone (remove_simple e KFAR) KFAR (fun x => x) (map Some (s_fars (c_s c))) c) with (x := Some id).
    - intros; apply remove_simple_good; apply simple_FAR.
    - intros; apply remove_simple_shrinks.
    - intros x c0 i Hx HS0. subst x. apply remove_simple_gone. exact HS0.
    - exact HS.
    - apply in_map. exact Hrec.
    - reflexivity. }
  destruct (String.eqb name "QERIDs:RemoveQER") eqn:EKQER.
  { inversion Hc; subst; inversion Hk; subst; clear Hc Hk. cbn [fst] in *.
    assert (Hrec : In id (s_qers (c_s c))).
    { apply (Hcont KQER id). revert Hi.
      apply (fold_ctx_shrinks (remove_simple e KQER) (map Some (s_qers (c_s c))) c).
      intros; apply remove_simple_shrinks. }
    revert Hi.
    apply (fold_ctx_gone (remove_simple e KQER) KQER (fun x => x) (map Some (s_qers (c_s c))) c) with (x := Some id).
    - intros; apply remove_simple_good; apply simple_QER.
    - intros; apply remove_simple_shrinks.
    - intros x c0 i Hx HS0. subst x. apply remove_simple_gone. exact HS0.
    - exact HS.
    - apply in_map. exact Hrec.
    - reflexivity. }
  destruct (String.eqb name "URRIDs:RemoveURR") eqn:EKURR.
  { inversion Hc; subst; inversion Hk; subst; clear Hc Hk. rewrite fold_rpt_fst in *.
    assert (Hrec : In id (map fst (s_urrs (c_s c)))).
    { apply (Hcont KURR id). revert Hi.
      apply (fold_ctx_shrinks (fun x c => fst (remove_urr e x c)) (map Some (map fst (s_urrs (c_s c)))) c).
      intros; apply remove_urr_shrinks. }
    revert Hi.
    apply (fold_ctx_gone (fun x c => fst (remove_urr e x c)) KURR (fun x => x) (map Some (map fst (s_urrs (c_s c)))) c) with (x := Some id).
    - intros; apply remove_urr_good.
    - intros; apply remove_urr_shrinks.
    - intros x c0 i Hx HS0. subst x. apply remove_urr_gone. exact HS0.
    - exact HS.
    - apply in_map. exact Hrec.
    - reflexivity. }
  destruct (String.eqb name "BARIDs:RemoveBAR") eqn:EKBAR.
  { inversion Hc; subst; inversion Hk; subst; clear Hc Hk. cbn [fst] in *.
    assert (Hrec : In id (s_bars (c_s c))).
    { apply (Hcont KBAR id). revert Hi.
      apply (fold_ctx_shrinks (remove_simple e KBAR) (map Some (s_bars (c_s c))) c).
      intros; apply remove_simple_shrinks. }
    revert Hi.
    apply (fold_ctx_gone (remove_simple e KBAR) KBAR (fun x => x) (map Some (s_bars (c_s c))) c) with (x := Some id).
    - intros; apply remove_simple_good; apply simple_BAR.
    - intros; apply remove_simple_shrinks.
    - intros x c0 i Hx HS0. subst x. apply remove_simple_gone. exact HS0.
    - exact HS.
    - apply in_map. exact Hrec.
    - reflexivity. }
  destruct (String.eqb name "PDRIDs:RemovePDR") eqn:EKPDR; [|discriminate].
  inversion Hc; subst; inversion Hk; subst; clear Hc Hk. rewrite fold_rpt_fst in *.
    assert (Hrec : In id (map fst (s_pdrs (c_s c)))).
    { apply (Hcont KPDR id). revert Hi.
      apply (fold_ctx_shrinks (fun x c => fst (remove_pdr e x c)) (map Some (map fst (s_pdrs (c_s c)))) c).
      intros; apply remove_pdr_shrinks. }
    revert Hi.
    apply (fold_ctx_gone (fun x c => fst (remove_pdr e x c)) KPDR (fun x => x) (map Some (map fst (s_pdrs (c_s c)))) c) with (x := Some id).
    - intros; apply remove_pdr_good.
    - intros; apply remove_pdr_shrinks.
    - intros x c0 i Hx HS0. subst x. apply remove_pdr_gone. exact HS0.
    - exact HS.
    - apply in_map. exact Hrec.
    - reflexivity.
Qed.

Lemma close_categories_shrinks e names c r : close_categories e names c = Some r -> shrinks c (fst r).
Proof.
  revert c r. induction names as [|n names IH]; intros c r; cbn [close_categories].
  - intros H. inversion H. apply shrinks_refl.
  - destruct (close_category e n c) as [[c1 r1]|] eqn:E1; [|discriminate].
    destruct (close_categories e names c1) as [[c2 r2]|] eqn:E2; [|discriminate].
    intros H. inversion H; subst. cbn [fst].
    apply close_category_shrinks in E1. apply IH in E2. cbn [fst] in *. eapply shrinks_trans; eauto.
Qed.

Lemma close_categories_empties e names c r k :
  close_categories e names c = Some r ->
  (exists n, In n names /\ kind_of_close n = Some k) ->
  SOK (c_s c) (c_dp c) ->
  forall id, ~ In (s_lid (c_s c), k, id) (c_dp (fst r)).
Proof.
  revert c r. induction names as [|n names IH]; intros c r; cbn [close_categories].
  - intros _ [n [[] _]].
  - destruct (close_category e n c) as [[c1 r1]|] eqn:E1; [|discriminate].
    destruct (close_categories e names c1) as [[c2 r2]|] eqn:E2; [|discriminate].
    intros H [m [Hm Hk]] HS id. inversion H; subst. cbn [fst].
    pose proof (close_category_good _ _ _ _ E1) as [[Hl _ _ _ _] HS1]. cbn [fst] in *.
    destruct Hm as [->|Hm].
    + intros Hi. apply (close_category_empties _ _ _ _ _ E1 Hk HS id). cbn [fst].
      apply (close_categories_shrinks _ _ _ _ E2). exact Hi.
    + rewrite <- Hl. eapply (IH c1 (c2, r2)); eauto.
Qed.

(* the generated Close order covers all five kinds: recomputed whenever node.go changes *)
Lemma close_order_covers : forall k, exists n, In n close_order /\ kind_of_close n = Some k.
Proof.
  assert (H : forallb (fun k => existsb (fun n => match kind_of_close n with
                                                    | Some k' => kind_eqb k k' | None => false end) close_order)
                      [KPDR; KFAR; KQER; KURR; KBAR] = true) by (vm_compute; reflexivity).
  rewrite forallb_forall in H. intros k.
  assert (Hk : In k [KPDR; KFAR; KQER; KURR; KBAR]) by (destruct k; cbn; auto 6).
  specialize (H k Hk). apply existsb_exists in H. destruct H as [n [Hn E]].
  exists n. split; [exact Hn|]. destruct (kind_of_close n) as [k'|]; [|discriminate].
  apply kind_eqb_eq in E. subst. reflexivity.
Qed.

Theorem close_withdraws e c c' rs :
  sess_close e c = Some (c', rs) -> SOK (c_s c) (c_dp c) ->
  forall k id, ~ In (s_lid (c_s c), k, id) (c_dp c').
Proof.
  unfold sess_close. destruct (close_categories e close_order c) as [[c1 r1]|] eqn:E; [|discriminate].
  intros H HS k id. inversion H; subst. cbn [upd_s c_dp].
  apply (close_categories_empties _ _ _ _ k E (close_order_covers k) HS id).
Qed.
