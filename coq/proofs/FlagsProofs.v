(* Proofs for C19: the model of report.go's flag words (model/Flags.v over the generated tables of
   gen/FlagsGen.v) against the tables transcribed from TS 29.244 (monitor/FlagsSpec.v).
   All statements are for ALL octet values; the only computations are finite sweeps over the tables
   (18 + 22 + 13 + 6 rows), lifted with forallb_forall. *)
From Coq Require Import String List Arith NArith Bool Lia.
From GoUpf Require Import Bytes FlagsGen FlagsSpec Flags.
Import ListNotations.
Local Open Scope N_scope.

(* ------------------------------------------------------------------ list helpers *)

Lemma nth_repeat0 k i : nth i (repeat 0 k) 0 = 0.
Proof. revert i. induction k as [|k IH]; intros [|i]; cbn [repeat nth]; auto. Qed.

Lemma nth_app_zeros (l : list N) k i : nth i (l ++ repeat 0 k) 0 = nth i l 0.
Proof.
  revert i. induction l as [|x l IH]; intros i; cbn [app].
  - rewrite nth_repeat0. destruct i; reflexivity.
  - destruct i; cbn [nth]; auto.
Qed.

Lemma nth_firstn_lt (n : nat) (l : list N) i : (i < n)%nat -> nth i (firstn n l) 0 = nth i l 0.
Proof.
  revert l i. induction n as [|n IH]; intros l i Hi; [lia|].
  destruct l as [|x l]; cbn [firstn]; [reflexivity|].
  destruct i as [|i]; cbn [nth]; [reflexivity|]. apply IH. lia.
Qed.

Lemma bytes_ok_firstn n l : bytes_ok l -> bytes_ok (firstn n l).
Proof.
  unfold bytes_ok. revert l. induction n as [|n IH]; intros l H; cbn [firstn]; [constructor|].
  destruct H as [|x l Hx Hl]; constructor; auto.
Qed.

Lemma bytes_ok_app_zeros l k : bytes_ok l -> bytes_ok (l ++ repeat 0 k).
Proof.
  unfold bytes_ok. intros H. apply Forall_app. split; [assumption|].
  induction k; cbn [repeat]; constructor; auto. unfold byte_ok. lia.
Qed.

Lemma bytes_ok_le_bytes n x : bytes_ok (le_bytes n x).
Proof.
  unfold bytes_ok. revert x. induction n as [|n IH]; intros x; cbn [le_bytes]; constructor; auto.
  unfold byte_ok. apply N.mod_lt. lia.
Qed.

Lemma find_none {A} (p : A -> bool) l : (forall x, In x l -> p x = false) -> find p l = None.
Proof.
  induction l as [|a l IH]; intros H; cbn [find]; [reflexivity|].
  rewrite (H a (or_introl eq_refl)). apply IH. intros x Hx. apply H. right. assumption.
Qed.

Lemma lor_lt_pow2 a b n : a < 2 ^ n -> b < 2 ^ n -> N.lor a b < 2 ^ n.
Proof.
  intros Ha Hb.
  assert (E : N.lor a b mod 2 ^ n = N.lor a b).
  { apply N.bits_inj. intro i. destruct (N.ltb_spec i n) as [Hi|Hi].
    - apply N.mod_pow2_bits_low. assumption.
    - rewrite N.mod_pow2_bits_high by assumption. rewrite N.lor_spec.
      rewrite <- (N.mod_small a (2 ^ n)) by assumption. rewrite <- (N.mod_small b (2 ^ n)) by assumption.
      rewrite !N.mod_pow2_bits_high by assumption. reflexivity. }
  rewrite <- E. apply N.mod_lt. apply N.pow_nonzero. discriminate.
Qed.

(* ------------------------------------------------------------------ table side conditions *)

(* every row of the hand-written table: bit < 8, octet < maxo, the name is unique in the table, and the
   GENERATED accessor of that name tests exactly the mask 2^(8*octet+bit) *)
Definition table_ok (maxo : nat) (spec : list row) (tbl : list (string * N)) : bool :=
  forallb (fun r =>
    (row_bit r <? 8) && Nat.ltb (row_octet r) maxo &&
    match find_row spec (row_name r) with
    | Some (o, b) => Nat.eqb o (row_octet r) && (b =? row_bit r) | None => false end &&
    match find (fun e => String.eqb (fst e) (row_name r)) tbl with
    | Some e => snd e =? row_mask r | None => false end) spec.

Lemma rt_table_ok : table_ok 3 rt_spec rpt_accessors = true.
Proof. vm_compute. reflexivity. Qed.
Lemma usar_table_ok : table_ok 3 usar_spec usar_accessors = true.
Proof. vm_compute. reflexivity. Qed.
Lemma aa_table_ok : table_ok 2 aa_spec act_accessors = true.
Proof. vm_compute. reflexivity. Qed.

Lemma table_ok_row maxo spec tbl r : table_ok maxo spec tbl = true -> In r spec ->
  row_bit r < 8 /\ (row_octet r < maxo)%nat /\
  find_row spec (row_name r) = Some (row_octet r, row_bit r) /\
  forall f, accessor tbl (row_name r) f = N.testbit f (row_pos r).
Proof.
  intros H Hr. unfold table_ok in H. rewrite forallb_forall in H. specialize (H r Hr).
  apply andb_prop in H. destruct H as [H H4]. apply andb_prop in H. destruct H as [H H3].
  apply andb_prop in H. destruct H as [H1 H2].
  apply N.ltb_lt in H1. apply Nat.ltb_lt in H2.
  repeat split; try assumption.
  - destruct (find_row spec (row_name r)) as [[o b]|]; [|discriminate].
    apply andb_prop in H3. destruct H3 as [Ho Hb]. apply Nat.eqb_eq in Ho. apply N.eqb_eq in Hb. subst. reflexivity.
  - intros f. unfold accessor, accessor_mask, accessor_m.
    destruct (find (fun e => String.eqb (fst e) (row_name r)) tbl) as [e|]; [|discriminate].
    apply N.eqb_eq in H4. rewrite H4. unfold row_mask. apply flag_pow2_testbit.
Qed.

Lemma row_pos_split r : row_bit r < 8 ->
  row_pos r / 8 = N.of_nat (row_octet r) /\ row_pos r mod 8 = row_bit r.
Proof.
  intros Hb. unfold row_pos. split.
  - rewrite N.mul_comm. rewrite N.div_add_l by lia. rewrite N.div_small by assumption. lia.
  - rewrite N.add_comm, N.mul_comm. rewrite N.mod_add by lia. apply N.mod_small. assumption.
Qed.

Lemma row_pos_bound r n : row_bit r < 8 -> (row_octet r < n)%nat -> row_pos r < 8 * N.of_nat n.
Proof. intros Hb Ho. unfold row_pos. lia. Qed.

(* bit (8*octet+bit) of the little-endian value is the flag the specification reads from the octets *)
Lemma testbit_le_val_spec maxo spec tbl r bs : table_ok maxo spec tbl = true -> In r spec -> bytes_ok bs ->
  N.testbit (le_val bs) (row_pos r) = spec_flag spec (row_name r) bs.
Proof.
  intros H Hr Hbs. destruct (table_ok_row _ _ _ _ H Hr) as (Hb & _ & Hf & _).
  unfold spec_flag. rewrite Hf. rewrite le_val_testbit by assumption.
  destruct (row_pos_split r Hb) as [E1 E2]. rewrite E1, E2, Nat2N.id. reflexivity.
Qed.

(* the same through a zero-padded, truncated copy (what Unmarshal builds) *)
Lemma decode_core maxo w spec tbl bs k r : table_ok maxo spec tbl = true -> (maxo <= w)%nat ->
  bytes_ok bs -> In r spec ->
  let f := le_val (firstn w (bs ++ repeat 0 k)) in
  accessor tbl (row_name r) f = spec_flag spec (row_name r) bs /\
  N.testbit f (row_pos r) = spec_flag spec (row_name r) bs.
Proof.
  intros H Hw Hbs Hr f. destruct (table_ok_row _ _ _ _ H Hr) as (Hb & Ho & Hf & Ha).
  assert (E : N.testbit f (row_pos r) = spec_flag spec (row_name r) bs).
  { unfold f. rewrite le_val_testbit by (apply bytes_ok_firstn, bytes_ok_app_zeros; assumption).
    destruct (row_pos_split r Hb) as [E1 E2]. rewrite E1, E2, Nat2N.id.
    rewrite nth_firstn_lt by lia. rewrite nth_app_zeros. unfold spec_flag. rewrite Hf. reflexivity. }
  split; [rewrite Ha|]; exact E.
Qed.

(* ------------------------------------------------------------------ Unmarshal *)

(* robust against a harmless change of the padding constant: any K >= 2 gives the same value *)
Lemma rt_shape : fst rt_pad = 0%nat /\ (2 <= snd rt_pad)%nat /\ rt_min_len = 2%nat /\ Nat.div rt_width 8 = 4%nat.
Proof. repeat split. apply Nat.leb_le. reflexivity. Qed.

Lemma aa_shape : fst aa_pad = 1%nat /\ (2 <= snd aa_pad)%nat /\ aa_min_len = 1%nat /\ Nat.div aa_width 8 = 2%nat.
Proof. repeat split. apply Nat.leb_le. reflexivity. Qed.

Lemma rt_unmarshal_res_eq bs : (2 <= length bs)%nat ->
  rt_unmarshal_res bs = UOk (le_val (firstn 4 (bs ++ repeat 0 (snd rt_pad)))).
Proof.
  intros Hl. destruct rt_shape as (Hk & Hp & Hm & Hw).
  unfold rt_unmarshal_res, unmarshal, padded_len. rewrite Hk, Hm, Hw.
  replace (length bs + snd rt_pad - length bs)%nat with (snd rt_pad) by lia.
  destruct (Nat.ltb_spec (length bs) 2) as [Hc|_]; [lia|].
  rewrite app_length, repeat_length.
  destruct (Nat.ltb_spec (length bs + snd rt_pad) 4) as [Hc|_]; [lia|]. reflexivity.
Qed.

Lemma aa_unmarshal_res_eq bs : (1 <= length bs)%nat ->
  aa_unmarshal_res bs = UOk (le_val (firstn 2 (bs ++ repeat 0 (Nat.max (snd aa_pad) (length bs) - length bs)))).
Proof.
  intros Hl. destruct aa_shape as (Hk & Hp & Hm & Hw).
  unfold aa_unmarshal_res, unmarshal, padded_len. rewrite Hk, Hm, Hw.
  destruct (Nat.ltb_spec (length bs) 1) as [Hc|_]; [lia|].
  rewrite app_length, repeat_length.
  destruct (Nat.ltb_spec (length bs + (Nat.max (snd aa_pad) (length bs) - length bs)) 2) as [Hc|_]; [lia|]. reflexivity.
Qed.

Lemma le_val_firstn_zeros w k : le_val (firstn w (repeat 0 k)) = 0.
Proof.
  revert k. induction w as [|w IH]; intros k; [reflexivity|].
  destruct k as [|k]; cbn [repeat firstn le_val]; [reflexivity|]. rewrite IH. reflexivity.
Qed.

Lemma le_val_firstn_pad bs w k : (length bs <= w)%nat -> le_val (firstn w (bs ++ repeat 0 k)) = le_val bs.
Proof.
  revert w. induction bs as [|x bs IH]; intros w Hl; cbn [app].
  - apply le_val_firstn_zeros.
  - destruct w as [|w]; cbn [length] in Hl; [lia|]. cbn [firstn le_val]. rewrite IH by lia. reflexivity.
Qed.

(* (c) too short: an error, not a value and not a panic *)
Lemma rt_too_short bs : (length bs < 2)%nat -> rt_unmarshal_res bs = UErr.
Proof.
  intros Hl. destruct rt_shape as (_ & _ & Hm & _). unfold rt_unmarshal_res, unmarshal. rewrite Hm.
  destruct (Nat.ltb_spec (length bs) 2) as [_|Hc]; [reflexivity|lia].
Qed.

Lemma aa_too_short : aa_unmarshal_res [] = UErr.
Proof. reflexivity. Qed.

(* (a) decoding, Reporting Triggers: any octet string of at least 2 octets (so 2 and 3, the permitted
   lengths, and also longer ones, which the code accepts) *)
Theorem rt_decode bs r : bytes_ok bs -> (2 <= length bs)%nat -> In r rt_spec ->
  exists f, rt_unmarshal_res bs = UOk f /\
            accessor rpt_accessors (row_name r) f = spec_flag rt_spec (row_name r) bs /\
            N.testbit f (row_pos r) = spec_flag rt_spec (row_name r) bs.
Proof.
  intros Hbs Hl Hr. eexists. split; [apply rt_unmarshal_res_eq; assumption|].
  apply (decode_core 3 4 rt_spec rpt_accessors bs _ r rt_table_ok); try assumption. lia.
Qed.

Theorem aa_decode bs r : bytes_ok bs -> (1 <= length bs)%nat -> In r aa_spec ->
  exists f, aa_unmarshal_res bs = UOk f /\
            accessor act_accessors (row_name r) f = spec_flag aa_spec (row_name r) bs /\
            N.testbit f (row_pos r) = spec_flag aa_spec (row_name r) bs.
Proof.
  intros Hbs Hl Hr. eexists. split; [apply aa_unmarshal_res_eq; assumption|].
  apply (decode_core 2 2 aa_spec act_accessors bs _ r aa_table_ok); try assumption. lia.
Qed.

(* the value stored for the permitted lengths: the octets read as one little-endian number *)
Lemma rt_unmarshal_value bs : In (length bs) rt_lengths -> rt_unmarshal_res bs = UOk (le_val bs).
Proof.
  intros Hl. assert (2 <= length bs <= 3)%nat by (cbn in Hl; lia).
  rewrite rt_unmarshal_res_eq by lia. rewrite le_val_firstn_pad by lia. reflexivity.
Qed.

Lemma aa_unmarshal_value bs : In (length bs) aa_lengths -> aa_unmarshal_res bs = UOk (le_val bs).
Proof.
  intros Hl. assert (1 <= length bs <= 2)%nat by (cbn in Hl; lia).
  rewrite aa_unmarshal_res_eq by lia. rewrite le_val_firstn_pad by lia. reflexivity.
Qed.

(* ------------------------------------------------------------------ IE() *)

Lemma put_le_eq n v : put_le n v = le_bytes n v.
Proof.
  revert v. induction n as [|n IH]; intros v; cbn [put_le le_bytes]; [reflexivity|].
  rewrite IH. change 255 with (N.ones 8). rewrite N.land_ones. rewrite N.shiftr_div_pow2. reflexivity.
Qed.

Lemma ie3 f : ie_octets 3 f = Some (le_bytes 3 (f mod 4294967296)).
Proof.
  unfold ie_octets. cbn [Nat.leb]. rewrite put_le_eq.
  change 4294967295 with (N.ones 32). rewrite N.land_ones. reflexivity.
Qed.

Lemma rt_ie3 f : rt_ie f = Some (le_bytes 3 (f mod 4294967296)).
Proof. unfold rt_ie, rt_ie_octets. apply ie3. Qed.
Lemma usar_ie3 f : usar_ie f = Some (le_bytes 3 (f mod 4294967296)).
Proof. unfold usar_ie, usar_ie_octets. apply ie3. Qed.

Lemma encode_core spec tbl f r : table_ok 3 spec tbl = true -> In r spec ->
  spec_flag spec (row_name r) (le_bytes 3 (f mod 4294967296)) = accessor tbl (row_name r) f.
Proof.
  intros H Hr. destruct (table_ok_row _ _ _ _ H Hr) as (Hb & Ho & _ & Ha).
  rewrite <- (testbit_le_val_spec 3 spec tbl r _ H Hr (bytes_ok_le_bytes _ _)).
  rewrite le_val_le_bytes. rewrite Ha.
  assert (Hp : row_pos r < 24) by (pose proof (row_pos_bound r 3 Hb Ho); lia).
  replace (8 * N.of_nat 3) with 24 by reflexivity.
  rewrite N.mod_pow2_bits_low by assumption.
  replace 4294967296 with (2 ^ 32) by reflexivity.
  rewrite N.mod_pow2_bits_low by lia. reflexivity.
Qed.

(* (b) encoding: three octets, each flag at the position TS 29.244 gives to its name *)
Theorem rt_encode f r : In r rt_spec ->
  exists p, rt_ie f = Some p /\ length p = 3%nat /\ bytes_ok p /\
            spec_flag rt_spec (row_name r) p = accessor rpt_accessors (row_name r) f.
Proof.
  intros Hr. exists (le_bytes 3 (f mod 4294967296)).
  split; [apply rt_ie3|]. split; [apply le_bytes_length|]. split; [apply bytes_ok_le_bytes|].
  apply encode_core; [exact rt_table_ok|assumption].
Qed.

Theorem usar_encode f r : In r usar_spec ->
  exists p, usar_ie f = Some p /\ length p = 3%nat /\ bytes_ok p /\
            spec_flag usar_spec (row_name r) p = accessor usar_accessors (row_name r) f.
Proof.
  intros Hr. exists (le_bytes 3 (f mod 4294967296)).
  split; [apply usar_ie3|]. split; [apply le_bytes_length|]. split; [apply bytes_ok_le_bytes|].
  apply encode_core; [exact usar_table_ok|assumption].
Qed.

Lemma le_bytes3 f : f < 16777216 ->
  le_bytes 3 (f mod 4294967296) = [f mod 256; (f / 256) mod 256; f / 65536].
Proof.
  intros Hf. rewrite (N.mod_small f 4294967296) by lia. cbn [le_bytes].
  rewrite N.div_div by lia. replace (256 * 256) with 65536 by reflexivity.
  rewrite (N.mod_small (f / 65536)) by (apply N.div_lt_upper_bound; lia). reflexivity.
Qed.

(* the octets themselves; the third is 0 when no flag of octet 7 is set *)
Lemma rt_ie_octets_eq f : f < 16777216 -> rt_ie f = Some [f mod 256; (f / 256) mod 256; f / 65536].
Proof. intros Hf. rewrite rt_ie3, le_bytes3 by assumption. reflexivity. Qed.

Lemma usar_ie_octets_eq f : f < 16777216 -> usar_ie f = Some [f mod 256; (f / 256) mod 256; f / 65536].
Proof. intros Hf. rewrite usar_ie3, le_bytes3 by assumption. reflexivity. Qed.

Lemma ie_third_zero f : f < 65536 -> f / 65536 = 0.
Proof. intros Hf. apply N.div_small. assumption. Qed.

(* decode after encode gives the flags back *)
Lemma rt_roundtrip f : f < 16777216 -> exists p, rt_ie f = Some p /\ rt_unmarshal_res p = UOk f.
Proof.
  intros Hf. exists (le_bytes 3 (f mod 4294967296)). split; [apply rt_ie3|].
  rewrite rt_unmarshal_value by (rewrite le_bytes_length; cbn; auto).
  rewrite le_val_le_bytes. rewrite (N.mod_small f 4294967296) by lia.
  replace (2 ^ (8 * N.of_nat 3)) with 16777216 by reflexivity.
  rewrite N.mod_small by assumption. reflexivity.
Qed.

(* ------------------------------------------------------------------ SetReportingTrigger *)

Definition opt_eqb (a b : option N) : bool :=
  match a, b with Some x, Some y => x =? y | None, None => true | _, _ => false end.

Lemma opt_eqb_eq a b : opt_eqb a b = true -> a = b.
Proof.
  destruct a, b; cbn [opt_eqb]; intros H; try discriminate; [|reflexivity].
  apply N.eqb_eq in H. subst. reflexivity.
Qed.

Definition srt_model_delta (r : N) : option N :=
  match find (fun e => fst e =? r) set_reporting_trigger_table with
  | Some e => Some (snd e) | None => None end.

Definition row_delta (x : row) : option N :=
  match find_row usar_spec (row_name x) with
  | Some (o, b) => Some (2 ^ (8 * N.of_nat o + b)) | None => None end.

Definition srt_spec_delta (r : N) : option N :=
  match find (fun x => row_mask x =? r) rt_spec with
  | Some x => row_delta x | None => None end.

Lemma srt_model_form f r :
  set_reporting_trigger f r = match srt_model_delta r with Some d => N.lor f d | None => f end.
Proof.
  unfold set_reporting_trigger, srt_model_delta.
  destruct (find (fun e => fst e =? r) set_reporting_trigger_table); reflexivity.
Qed.

Lemma srt_spec_form f r :
  srt_expected f r = match srt_spec_delta r with Some d => N.lor f d | None => f end.
Proof.
  unfold srt_expected, srt_spec_delta, row_delta.
  destruct (find (fun x => row_mask x =? r) rt_spec) as [x|]; [|reflexivity].
  destruct (find_row usar_spec (row_name x)) as [[o b]|]; reflexivity.
Qed.

Definition srt_keys : list N := (map fst set_reporting_trigger_table ++ map row_mask rt_spec)%list.

Lemma srt_keys_ok : forallb (fun r => opt_eqb (srt_model_delta r) (srt_spec_delta r)) srt_keys = true.
Proof. vm_compute. reflexivity. Qed.

Lemma srt_delta_eq r : srt_model_delta r = srt_spec_delta r.
Proof.
  destruct (in_dec N.eq_dec r srt_keys) as [Hin|Hout].
  - pose proof srt_keys_ok as H. rewrite forallb_forall in H. apply opt_eqb_eq. apply H. assumption.
  - unfold srt_model_delta, srt_spec_delta.
    rewrite (find_none (fun e => fst e =? r) set_reporting_trigger_table).
    + rewrite (find_none (fun x => row_mask x =? r) rt_spec); [reflexivity|].
      intros x Hx. apply N.eqb_neq. intros E. apply Hout. unfold srt_keys. apply in_or_app. right.
      rewrite <- E. apply in_map. assumption.
    + intros e He. apply N.eqb_neq. intros E. apply Hout. unfold srt_keys. apply in_or_app. left.
      rewrite <- E. apply in_map. assumption.
Qed.

(* (d) for EVERY initial flags value and EVERY 32-bit (indeed every) cause value the code does what the
   same-name rule says *)
Theorem srt_all f r : set_reporting_trigger f r = srt_expected f r.
Proof. rewrite srt_model_form, srt_spec_form, srt_delta_eq. reflexivity. Qed.

Lemma srt_rows_ok : forallb (fun x => opt_eqb (srt_spec_delta (row_mask x)) (row_delta x)) rt_spec = true.
Proof. vm_compute. reflexivity. Qed.

(* a Reporting Triggers row with a same-named Usage Report Trigger row: exactly that bit is or-ed in *)
Theorem srt_same_name f x o b : In x rt_spec -> find_row usar_spec (row_name x) = Some (o, b) ->
  set_reporting_trigger f (row_mask x) = N.lor f (2 ^ (8 * N.of_nat o + b)).
Proof.
  intros Hx Hf. rewrite srt_all, srt_spec_form.
  pose proof srt_rows_ok as H. rewrite forallb_forall in H. specialize (H x Hx). apply opt_eqb_eq in H.
  rewrite H. unfold row_delta. rewrite Hf. reflexivity.
Qed.

Lemma lor_pow2_bits f p i : N.testbit (N.lor f (2 ^ p)) i = (i =? p) || N.testbit f i.
Proof.
  rewrite N.lor_spec, N.pow2_bits_eqb, orb_comm. f_equal. apply N.eqb_sym.
Qed.

Theorem srt_same_name_bits f x o b i : In x rt_spec -> find_row usar_spec (row_name x) = Some (o, b) ->
  N.testbit (set_reporting_trigger f (row_mask x)) i = (i =? 8 * N.of_nat o + b) || N.testbit f i.
Proof. intros Hx Hf. rewrite (srt_same_name f x o b Hx Hf). apply lor_pow2_bits. Qed.

(* any other value — no bit, several bits, a bit outside the table, or a row without a same-named
   usage-report trigger — changes nothing *)
Theorem srt_other f r :
  (forall x, In x rt_spec -> find_row usar_spec (row_name x) <> None -> r <> row_mask x) ->
  set_reporting_trigger f r = f.
Proof.
  intros H. rewrite srt_all. unfold srt_expected.
  destruct (find (fun x => row_mask x =? r) rt_spec) as [x|] eqn:E; [|reflexivity].
  apply find_some in E. destruct E as [Hx Hm]. apply N.eqb_eq in Hm.
  destruct (find_row usar_spec (row_name x)) as [[o b]|] eqn:F; [|reflexivity].
  exfalso. apply (H x Hx); [rewrite F; discriminate|symmetry; assumption].
Qed.

(* REEMR ("report the end marker reception", Reporting Triggers octet 7 bit 1): TS 29.244 has no Usage
   Report Trigger of that name (the usage-report flag is called EMRRE), and the code has no case for it:
   SetReportingTrigger(RPT_TRIG_REEMR) leaves the flags unchanged, and no cause value whatsoever makes
   SetReportingTrigger set EMRRE. *)
Lemma reemr_facts :
  In ("REEMR"%string, 2%nat, 0) rt_spec /\ RPT_TRIG_REEMR = row_mask ("REEMR"%string, 2%nat, 0) /\
  find_row usar_spec "REEMR" = None /\ find_row usar_spec "EMRRE" = Some (2%nat, 4) /\
  USAR_TRIG_EMRRE = 2 ^ 20.
Proof. repeat split; vm_compute; auto 20. Qed.

Theorem srt_reemr f : set_reporting_trigger f RPT_TRIG_REEMR = f.
Proof.
  rewrite srt_all, srt_spec_form.
  replace (srt_spec_delta RPT_TRIG_REEMR) with (@None N) by (vm_compute; reflexivity). reflexivity.
Qed.

Lemma srt_table_no_emrre :
  forallb (fun e => negb (N.testbit (snd e) 20)) set_reporting_trigger_table = true.
Proof. vm_compute. reflexivity. Qed.

Theorem srt_never_emrre f r : N.testbit (set_reporting_trigger f r) 20 = N.testbit f 20.
Proof.
  unfold set_reporting_trigger.
  destruct (find (fun e => fst e =? r) set_reporting_trigger_table) as [e|] eqn:E; [|reflexivity].
  apply find_some in E. destruct E as [He _].
  pose proof srt_table_no_emrre as H. rewrite forallb_forall in H. specialize (H e He).
  rewrite N.lor_spec. apply negb_true_iff in H. rewrite H. apply orb_false_r.
Qed.

(* ------------------------------------------------------------------ SetFlags *)

Lemma sf_masks : setflags_base = mask_of_names vol_spec vol_always /\
                 N.lor setflags_base setflags_mnop =
                 mask_of_names vol_spec (vol_always ++ vol_if_mnop)%list.
Proof. split; vm_compute; reflexivity. Qed.

(* (e) *)
Theorem sf_all f mnop : f < 256 -> set_flags f mnop = sf_expected f mnop.
Proof.
  intros Hf. destruct sf_masks as [E1 E2]. unfold set_flags, sf_expected.
  destruct mnop; cbn [app].
  - rewrite <- N.lor_assoc, E2. apply N.mod_small.
    change 256 with (2 ^ 8). apply lor_lt_pow2; [assumption|vm_compute; reflexivity].
  - rewrite E1. apply N.mod_small.
    change 256 with (2 ^ 8). apply lor_lt_pow2; [assumption|vm_compute; reflexivity].
Qed.

Lemma sf_expected_bits f mnop i :
  N.testbit (sf_expected f mnop) i = N.testbit f i || (i <? 3) || (mnop && (i <? 6)).
Proof.
  unfold sf_expected. rewrite N.lor_spec. rewrite <- orb_assoc. f_equal.
  destruct mnop; cbn [app andb].
  - replace (mask_of_names vol_spec _) with 63 by (vm_compute; reflexivity).
    destruct (N.ltb_spec i 6) as [Hi|Hi].
    + assert (Hc : i = 0 \/ i = 1 \/ i = 2 \/ i = 3 \/ i = 4 \/ i = 5) by lia.
      destruct Hc as [->|[->|[->|[->|[->| ->]]]]]; reflexivity.
    + replace (i <? 3) with false by (symmetry; apply N.ltb_ge; lia).
      replace 63 with (63 mod 2 ^ 6) by reflexivity. apply N.mod_pow2_bits_high. assumption.
  - rewrite orb_false_r. replace (mask_of_names vol_spec _) with 7 by (vm_compute; reflexivity).
    destruct (N.ltb_spec i 3) as [Hi|Hi].
    + assert (Hc : i = 0 \/ i = 1 \/ i = 2) by lia. destruct Hc as [->|[->| ->]]; reflexivity.
    + replace 7 with (7 mod 2 ^ 3) by reflexivity. apply N.mod_pow2_bits_high. assumption.
Qed.

Theorem sf_bits f mnop i : f < 256 ->
  N.testbit (set_flags f mnop) i = N.testbit f i || (i <? 3) || (mnop && (i <? 6)).
Proof. intros Hf. rewrite sf_all by assumption. apply sf_expected_bits. Qed.

(* ------------------------------------------------------------------ constants and names *)

Lemma consts_ok :
  consts_mon rt_spec rpt_consts = true /\ consts_mon usar_spec usar_consts = true /\
  consts_mon aa_spec act_consts = true /\ consts_mon vol_spec vol_consts = true.
Proof. repeat split; vm_compute; reflexivity. Qed.

(* the code offers an accessor for exactly the names of the specification tables *)
Lemma names_ok :
  names_of rt_spec = map fst rpt_accessors /\ names_of usar_spec = map fst usar_accessors /\
  names_of aa_spec = map fst act_accessors.
Proof. repeat split; vm_compute; reflexivity. Qed.

(* ------------------------------------------------------------------ the monitors accept the model *)

Lemma accmask_cons tbl x names flags :
  accmask tbl (x :: names) flags = (if accessor tbl x flags then 1 else 0) + 2 * accmask tbl names flags.
Proof. reflexivity. Qed.

Lemma accmask_bit tbl names flags n i :
  NoDup names -> index_of n names 0 = Some i ->
  N.testbit (accmask tbl names flags) i = accessor tbl n flags.
Proof.
  intros Hnd. assert (G : forall k j, index_of n names k = Some j ->
                        k <= j /\ N.testbit (accmask tbl names flags) (j - k) = accessor tbl n flags).
  { induction names as [|x names IH]; intros k j Hj; cbn [index_of] in Hj; [discriminate|].
    inversion Hnd as [|? ? Hx Hnd']; subst. rewrite accmask_cons.
    destruct (String.eqb_spec x n) as [->|Hne].
    - inversion Hj; subst. split; [lia|]. rewrite N.sub_diag.
      destruct (accessor tbl n flags).
      + rewrite N.add_comm. rewrite N.testbit_odd_0. reflexivity.
      + rewrite N.add_0_l. rewrite N.testbit_even_0. reflexivity.
    - destruct (IH Hnd' (k + 1) j Hj) as [Hle Hb]. split; [lia|].
      replace (j - k) with (N.succ (j - (k + 1))) by lia.
      destruct (accessor tbl x flags).
      + rewrite N.add_comm. rewrite N.testbit_odd_succ by lia. exact Hb.
      + rewrite N.add_0_l. rewrite N.testbit_even_succ by lia. exact Hb. }
  intros Hi. destruct (G 0 i Hi) as [_ Hb]. rewrite N.sub_0_r in Hb. exact Hb.
Qed.

Lemma mon_rows_core maxo spec tbl names octets f :
  table_ok maxo spec tbl = true -> NoDup names -> names_mon spec names = true ->
  (forall r, In r spec -> accessor tbl (row_name r) f = spec_flag spec (row_name r) octets /\
                          N.testbit f (row_pos r) = spec_flag spec (row_name r) octets) ->
  forallb (fun e => match e with (o, b, ai) =>
             let s := N.testbit (nth o octets 0) b in
             Bool.eqb (N.testbit (accmask tbl names f) ai) s &&
             Bool.eqb (N.testbit f (8 * N.of_nat o + b)) s end) (prep spec names) = true.
Proof.
  intros Ht Hnd Hn H. apply forallb_forall. intros e He. unfold prep in He. apply in_map_iff in He.
  destruct He as [r [<- Hr]].
  destruct (table_ok_row _ _ _ _ Ht Hr) as (Hb & Ho & Hf & Ha).
  unfold names_mon in Hn. apply andb_prop in Hn. destruct Hn as [Hn _]. rewrite forallb_forall in Hn.
  specialize (Hn r Hr).
  destruct (index_of (row_name r) names 0) as [i|] eqn:Ei; [|discriminate].
  cbn zeta. rewrite (accmask_bit tbl names f _ i Hnd Ei).
  destruct (H r Hr) as [H1 H2]. unfold spec_flag in H1, H2. rewrite Hf in H1, H2.
  change (8 * N.of_nat (row_octet r) + row_bit r) with (row_pos r).
  rewrite H1, H2, !eqb_reflx. reflexivity.
Qed.

(* what the run-time monitors say about the model's own results: always true *)
Theorem rt_decode_mon_model names bs : NoDup names -> names_mon rt_spec names = true -> bytes_ok bs ->
  match rt_unmarshal_res bs with
  | UOk f => decode_mon (prep rt_spec names) 2 bs StOk f (accmask rpt_accessors names f)
  | UErr => decode_mon (prep rt_spec names) 2 bs StErr 0 0
  | UPanic => false
  end = true.
Proof.
  intros Hnd Hn Hbs. destruct (Nat.ltb_spec (length bs) 2) as [Hl|Hl].
  - rewrite rt_too_short by assumption. unfold decode_mon.
    destruct (Nat.ltb_spec (length bs) 2) as [_|Hc]; [reflexivity|lia].
  - rewrite rt_unmarshal_res_eq by assumption. unfold decode_mon.
    destruct (Nat.ltb_spec (length bs) 2) as [Hc|_]; [lia|]. cbn [status_eqb andb].
    apply (mon_rows_core 3 rt_spec rpt_accessors names bs _ rt_table_ok Hnd Hn).
    intros r Hr. apply (decode_core 3 4 rt_spec rpt_accessors bs _ r rt_table_ok); try assumption. lia.
Qed.

Theorem aa_decode_mon_model names bs : NoDup names -> names_mon aa_spec names = true -> bytes_ok bs ->
  match aa_unmarshal_res bs with
  | UOk f => decode_mon (prep aa_spec names) 1 bs StOk f (accmask act_accessors names f)
  | UErr => decode_mon (prep aa_spec names) 1 bs StErr 0 0
  | UPanic => false
  end = true.
Proof.
  intros Hnd Hn Hbs. destruct bs as [|b0 bs]; [reflexivity|].
  rewrite aa_unmarshal_res_eq by (cbn [length]; lia). unfold decode_mon.
  cbn [length Nat.ltb Nat.leb status_eqb andb].
  apply (mon_rows_core 2 aa_spec act_accessors names _ _ aa_table_ok Hnd Hn).
  intros r Hr. apply (decode_core 2 2 aa_spec act_accessors _ _ r aa_table_ok); try assumption. lia.
Qed.

Lemma encode_mon_core spec tbl names f : table_ok 3 spec tbl = true -> NoDup names -> names_mon spec names = true ->
  encode_mon (prep spec names) f (accmask tbl names f) StOk (le_bytes 3 (f mod 4294967296)) = true.
Proof.
  intros Ht Hnd Hn. unfold encode_mon. cbn [status_eqb andb].
  replace (bytes_okb (le_bytes 3 (f mod 4294967296))) with true
    by (symmetry; apply bytes_okb_spec, bytes_ok_le_bytes).
  cbn [andb]. apply (mon_rows_core 3 spec tbl names _ f Ht Hnd Hn).
  intros r Hr. pose proof (encode_core spec tbl f r Ht Hr) as E.
  destruct (table_ok_row _ _ _ _ Ht Hr) as (_ & _ & _ & Ha).
  split; [symmetry; exact E|]. rewrite <- Ha. symmetry. exact E.
Qed.

Theorem rt_encode_mon_model names f : NoDup names -> names_mon rt_spec names = true ->
  match rt_ie f with
  | Some p => encode_mon (prep rt_spec names) f (accmask rpt_accessors names f) StOk p
  | None => false end = true.
Proof. intros Hnd Hn. rewrite rt_ie3. apply (encode_mon_core rt_spec rpt_accessors names f rt_table_ok Hnd Hn). Qed.

Theorem usar_encode_mon_model names f : NoDup names -> names_mon usar_spec names = true ->
  match usar_ie f with
  | Some p => encode_mon (prep usar_spec names) f (accmask usar_accessors names f) StOk p
  | None => false end = true.
Proof. intros Hnd Hn. rewrite usar_ie3. apply (encode_mon_core usar_spec usar_accessors names f usar_table_ok Hnd Hn). Qed.

Theorem srt_mon_model f r : srt_mon f r StOk (set_reporting_trigger f r) = true.
Proof. unfold srt_mon. rewrite srt_all. cbn [status_eqb andb]. apply N.eqb_refl. Qed.

Theorem sf_mon_model f mnop : f < 256 -> sf_mon f mnop StOk (set_flags f mnop) = true.
Proof. intros Hf. unfold sf_mon. rewrite sf_all by assumption. cbn [status_eqb andb]. apply N.eqb_refl. Qed.
