From Coq Require Import List Bool Arith Lia.
From GoUpf Require Import Shutdown.
Import ListNotations.

Lemma length_set_nth {A} (l : list A) i x : length (set_nth l i x) = length l.
Proof. revert i. induction l as [|y r IH]; intros [|i]; cbn [set_nth length]; auto. Qed.

Lemma nth_set_nth_eq {A} (l : list A) i x d : i < length l -> nth i (set_nth l i x) d = x.
Proof.
  revert i. induction l as [|y r IH]; intros [|i] H; cbn [set_nth nth length] in *; try lia; auto.
  apply IH. lia.
Qed.

Lemma nth_set_nth_neq {A} (l : list A) i j x d : i <> j -> nth j (set_nth l i x) d = nth j l d.
Proof.
  revert i j. induction l as [|y r IH]; intros [|i] [|j] H; cbn [set_nth nth]; try reflexivity; try lia.
  apply IH. lia.
Qed.

Definition all_done (tk : list tstate) : Prop := forall i, nth i tk TDone = TDone.
Definition done_upto (k : nat) (tk : list tstate) : Prop := forall i, i < k -> nth i tk TDone = TDone.

Record Inv (s : sh) : Prop := mkInv {
  i_close : close_posted s = true -> stop_returned s = true;
  i_stop : stop_returned s = true -> loop_running s = false;
  i_sv : sv s <> SRun -> close_posted s = true;
  i_closed : evt_closed s = true -> sv s = SClosed;
  i_done : sv s = SClosed -> all_done (tickers s);
  i_stopping : forall rest, sv s = SStopping rest ->
               exists k, rest = seq k (length (tickers s) - k) /\ done_upto k (tickers s);
  i_sc : stop_closed s = [];
  i_alive_run : sv s = SRun -> forall i, i < length (tickers s) -> nth i (tickers s) TDone <> TDone;
  i_alive_stop : forall rest, sv s = SStopping rest -> forall i, In i rest -> nth i (tickers s) TDone <> TDone }.

(* a ticker that is not TDone sits at an index the done-prefix does not cover *)
Lemma done_upto_set_other k tk i x : nth i tk TDone <> TDone -> done_upto k tk -> done_upto k (set_nth tk i x).
Proof.
  intros Hn Hd j Hj. destruct (Nat.eq_dec i j) as [->|Hne].
  - exfalso. apply Hn. apply Hd. exact Hj.
  - rewrite nth_set_nth_neq by exact Hne. apply Hd. exact Hj.
Qed.

Lemma all_done_set_other tk i x : nth i tk TDone <> TDone -> all_done tk -> all_done (set_nth tk i x).
Proof. intros Hn Hd. exfalso. apply Hn. apply Hd. Qed.

Ltac inv_simpl := cbn [loop_running stop_returned close_posted sv evt_closed q_full stop_closed tickers] in *.

Lemma alive_lt tk i : nth i tk TDone <> TDone -> i < length tk.
Proof. intros H. destruct (Nat.lt_ge_cases i (length tk)) as [Hl|Hl]; [exact Hl|]. exfalso. apply H. apply nth_overflow. exact Hl. Qed.

Lemma alive_set tk i x j : x <> TDone -> nth i tk TDone <> TDone -> nth j tk TDone <> TDone -> nth j (set_nth tk i x) TDone <> TDone.
Proof.
  intros Hx Hi Hj. destruct (Nat.eq_dec i j) as [<-|Hne].
  - rewrite nth_set_nth_eq by (apply alive_lt; exact Hi). exact Hx.
  - rewrite nth_set_nth_neq by exact Hne. exact Hj.
Qed.

(* a tick-side change of a ticker that is not TDone preserves the invariant *)
Lemma inv_tick s s' i x : Inv s -> nth i (tickers s) TDone <> TDone -> x <> TDone ->
  loop_running s' = loop_running s -> stop_returned s' = stop_returned s -> close_posted s' = close_posted s ->
  sv s' = sv s -> evt_closed s' = evt_closed s -> stop_closed s' = stop_closed s -> tickers s' = set_nth (tickers s) i x ->
  Inv s'.
Proof.
  intros [H1 H2 H3 H4 H5 H6 H7 H8 H9] Hn Hx E1 E2 E3 E4 E5 E6 E7. constructor; rewrite ?E1, ?E2, ?E3, ?E4, ?E5, ?E6, ?E7; auto.
  - intros Hc. apply all_done_set_other; auto.
  - intros rest Hr. destruct (H6 _ Hr) as [k [E D]]. exists k. rewrite length_set_nth. split; [exact E|].
    apply done_upto_set_other; assumption.
  - intros Hs j Hj. rewrite length_set_nth in Hj. apply alive_set; auto.
  - intros rest Hr j Hj. apply alive_set; auto. eapply H9; eauto.
Qed.

Theorem step_safe p s a : stop_waits p = true -> rendezvous p = true -> Inv s ->
  match step p s a with
  | SendOnClosed => False
  | Next s' => Inv s'
  | Disabled => True
  end.
Proof.
  intros Hw Hr HI. pose proof HI as [H1 H2 H3 H4 H5 H6 H7 H8 H9].
  destruct a as [ | | | | | | | i | i | i | b]; cbn [step].
  - (* LoopDriverCall *)
    destruct (loop_running s) eqn:EL; [|exact I]. destruct (evt_closed s) eqn:EC; cbn [andb]; [|exact HI].
    destruct (drops p); cbn [negb]; [exact HI|].
    assert (Hs : sv s = SClosed) by auto. assert (Hc : close_posted s = true) by (apply H3; rewrite Hs; discriminate).
    pose proof (H2 (H1 Hc)) as X. congruence.
  - (* LoopExit *)
    constructor; inv_simpl; auto.
  - (* StopReturn *)
    rewrite Hw. cbn [andb]. destruct (loop_running s) eqn:EL; [exact I|].
    constructor; inv_simpl; auto.
  - (* DriverClose *)
    destruct (stop_returned s) eqn:ES; cbn [andb]; [|exact I]. destruct (close_posted s) eqn:EC; cbn [negb]; [exact I|].
    destruct (evt_closed s) eqn:EE; cbn [andb].
    + assert (Hs : sv s = SClosed) by auto. assert (Hc : false = true) by (apply H3; rewrite Hs; discriminate). discriminate.
    + constructor; inv_simpl; auto.
  - (* ServeTakeClose *)
    destruct (sv s) eqn:ESV; try exact I. destruct (close_posted s) eqn:EC; [|exact I].
    constructor; inv_simpl; auto; try discriminate.
    + intros Hc. specialize (H4 Hc). discriminate.
    + intros rest Hrest. injection Hrest as <-. exists 0. split; [rewrite Nat.sub_0_r; reflexivity|].
      intros i Hi. lia.
    + intros rest Hrest i Hi. injection Hrest as <-. apply in_seq in Hi. apply H8; [reflexivity | lia].
  - (* ServeStopTicker *)
    destruct (sv s) as [|[|i rest]|] eqn:ESV; try exact I. rewrite Hr.
    destruct (H6 _ eq_refl) as [k [E D]].
    assert (Hlen : k < length (tickers s)).
    { destruct (length (tickers s) - k) eqn:En; [cbn in E; discriminate | lia]. }
    assert (Hik : i = k /\ rest = seq (S k) (length (tickers s) - S k)).
    { replace (length (tickers s) - k) with (S (length (tickers s) - S k)) in E by lia. cbn [seq] in E.
      injection E as -> ->. split; reflexivity. }
    destruct Hik as [-> Hrest].
    assert (Hgoal : Inv (mkS (loop_running s) (stop_returned s) (close_posted s) (SStopping rest) (evt_closed s) (q_full s)
                             (stop_closed s) (set_nth (tickers s) k TDone))).
    { constructor; inv_simpl; auto; try discriminate.
      - intros _. apply H3. discriminate.
      - intros Hc. specialize (H4 Hc). discriminate.
      - intros rest' Hr'. injection Hr' as <-. exists (S k). rewrite length_set_nth. split; [exact Hrest|].
        intros j Hj. destruct (Nat.eq_dec k j) as [<-|Hne].
        + apply nth_set_nth_eq. exact Hlen.
        + rewrite nth_set_nth_neq by exact Hne. apply D. lia.
      - intros rest' Hr' j Hj. injection Hr' as <-. assert (k <> j).
        { intros ->. rewrite Hrest in Hj. apply in_seq in Hj. lia. }
        rewrite nth_set_nth_neq by assumption. apply (H9 _ eq_refl). right. exact Hj. }
    destruct (nth k (tickers s) TDone); [exact Hgoal | destruct (guarded p); [exact Hgoal | exact I] | exact I].
  - (* ServeFinish *)
    destruct (sv s) as [|[|i rest]|] eqn:ESV; try exact I.
    destruct (H6 _ eq_refl) as [k [E D]].
    constructor; inv_simpl; auto; try discriminate.
    + intros _. apply H3. discriminate.
    + intros _ i. destruct (Nat.lt_ge_cases i (length (tickers s))) as [Hl|Hl]; [|apply nth_overflow; exact Hl].
      apply D. destruct (length (tickers s) - k) eqn:En; [lia | cbn in E; discriminate].
  - (* TickFire *)
    destruct (nth i (tickers s) TDone) eqn:EN; try exact I.
    eapply (inv_tick s _ i TSend); try reflexivity; [exact HI | rewrite EN; discriminate | discriminate].
  - (* TickSent *)
    destruct (nth i (tickers s) TDone) eqn:EN; try exact I.
    destruct (evt_closed s) eqn:EE; cbn [andb].
    + assert (Hd : all_done (tickers s)) by auto. rewrite Hd in EN. discriminate.
    + destruct (q_full s); [exact I|].
      eapply (inv_tick s _ i TSel); try reflexivity; try exact HI; try (rewrite EN; discriminate); try discriminate; inv_simpl; congruence.
  - (* TickSeeStop *)
    rewrite H7. cbn [existsb]. exact I.
  - (* QueueFull *)
    constructor; inv_simpl; auto.
Qed.

Lemma init_inv n : Inv (init n).
Proof.
  constructor; cbn; try discriminate; auto.
  intros _ i Hi. rewrite repeat_length in Hi. rewrite nth_indep with (d' := TSel) by (rewrite repeat_length; exact Hi).
  rewrite nth_repeat. discriminate.
Qed.

Theorem run_no_fault p s l : stop_waits p = true -> rendezvous p = true -> Inv s ->
  exists s', run p s l = Next s' /\ Inv s'.
Proof.
  intros Hw Hr. revert s. induction l as [|a l IH]; intros s HI; cbn [run].
  - exists s. split; [reflexivity | exact HI].
  - pose proof (step_safe p s a Hw Hr HI) as H. destruct (step p s a) as [s'| |].
    + apply IH. exact H.
    + apply IH. exact HI.
    + destruct H.
Qed.

(* once the periodic server has taken CLOSE it is never stuck in stopTicker - provided the ticker's send is guarded *)
Theorem serve_never_stuck p s : stop_waits p = true -> rendezvous p = true -> guarded p = true -> Inv s ->
  serve_can_move p s = true.
Proof.
  intros Hw Hr Hg [H1 H2 H3 H4 H5 H6 H7 H8 H9]. unfold serve_can_move, step.
  destruct (sv s) as [|rest|] eqn:ESV; try reflexivity.
  destruct rest as [|i rest]; [reflexivity|]. rewrite Hr, Hg.
  destruct (nth i (tickers s) TDone) eqn:EN; try reflexivity.
  (* TDone at the head of the remaining list: excluded by the invariant *)
  exfalso. apply (H9 _ eq_refl i); [left; reflexivity | exact EN].
Qed.

(* ---- what each protocol element is needed for (witness schedules, checked by computation) *)

(* Stop returns while the loop still runs (the code before fix "Stop waits for the event loop"): the loop posts to the closed channel *)
Example stop_without_wait_refuted :
  run (mkP false true true false) (init 0) [StopReturn; DriverClose; ServeTakeClose; ServeFinish; LoopDriverCall] = SendOnClosed.
Proof. reflexivity. Qed.

(* stopTicker only closes the stop channel: a ticker that has already chosen to post its tick posts to the closed channel *)
Example no_rendezvous_refuted :
  run (mkP true false true false) (init 1)
      [LoopExit; StopReturn; DriverClose; TickFire 0; ServeTakeClose; ServeStopTicker; ServeFinish; TickSent 0] = SendOnClosed.
Proof. reflexivity. Qed.

(* plain (unguarded) tick send: with a full event queue the server waits in stopTicker for a ticker that waits for the server *)
Example unguarded_ticker_stuck :
  exists s, run (mkP true true false false) (init 1) [LoopExit; StopReturn; DriverClose; QueueFull true; TickFire 0; ServeTakeClose] = Next s
            /\ serve_can_move (mkP true true false false) s = false /\ step (mkP true true false false) s (TickSent 0) = Disabled.
Proof. eexists. split; [reflexivity|]. split; reflexivity. Qed.

Theorem run_from_init p n l : stop_waits p = true -> rendezvous p = true ->
  exists s', run p (init n) l = Next s' /\ Inv s'.
Proof. intros Hw Hr. apply run_no_fault; auto. apply init_inv. Qed.

Theorem never_stuck_from_init p n l s' : stop_waits p = true -> rendezvous p = true -> guarded p = true ->
  run p (init n) l = Next s' -> serve_can_move p s' = true.
Proof.
  intros Hw Hr Hg H. destruct (run_from_init p n l Hw Hr) as [s'' [E HI]]. rewrite E in H. injection H as <-.
  apply serve_never_stuck; assumption.
Qed.

(* with a queue that drops posts after close, NO schedule can fault, whatever the other protocol elements are *)
Theorem drops_never_faults p s a : drops p = true -> step p s a <> SendOnClosed.
Proof.
  intros Hd. destruct a; cbn [step]; rewrite ?Hd; cbn [negb]; rewrite ?andb_false_r;
    repeat match goal with |- context [match ?x with _ => _ end] => destruct x end; discriminate.
Qed.
