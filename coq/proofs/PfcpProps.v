(* Property-level consequences of the invariant development (C01 C04 C05 C06 C07 C08 C09). *)
From Coq Require Import String List NArith ZArith Bool Lia.
From GoUpf Require Import Bytes FlagsGen ConstsGen HandlerGen Pfcp PfcpBase PfcpSess PfcpClose PfcpTable PfcpDelete PfcpStep.
Import ListNotations.
Local Open Scope N_scope.

(* states reachable from the initial state by any history *)
Inductive reachable : world -> Prop :=
| reach_init q m : reachable (init q m)
| reach_step w ev w' o : reachable w -> step w ev = Ok (w', o) -> reachable w'.

Lemma reachable_inv w : reachable w -> WInv w.
Proof.
  induction 1 as [q m|w ev w' o Hr IH E]; [apply WInv_init|].
  destruct (step_preserves_inv w ev IH) as [w1 [o1 [E1 HI1]]]. congruence.
Qed.

Lemma reachable_run w evs w' os : reachable w -> run w evs = Ok (w', os) -> reachable w'.
Proof.
  revert w os. induction evs as [|ev evs IH]; intros w os Hr; cbn [run].
  - intros H. inversion H; subst. exact Hr.
  - destruct (step w ev) as [[w1 o]|f] eqn:E; [|discriminate].
    destruct (run w1 evs) as [[w2 os2]|f] eqn:E2; [|discriminate].
    intros H. inversion H; subst. eapply IH; [|eauto]. econstructor; eauto.
Qed.

(* ---------------------------------------------------------------- C07: no fault *)

Theorem step_never_faults w ev f : reachable w -> step w ev <> Fault f.
Proof.
  intros Hr. destruct (step_preserves_inv w ev (reachable_inv w Hr)) as [w1 [o [E _]]]. congruence.
Qed.

Theorem run_never_faults q m evs f : run (init q m) evs <> Fault f.
Proof.
  destruct (run_no_fault_inv evs (init q m) (WInv_init q m)) as [w' [os [E _]]]. congruence.
Qed.

Lemma klookup_kset_same {V} k (v : V) l : klookup k (kset k v l) = Some v.
Proof.
  assert (R : key_eqb k k = true) by (unfold key_eqb; rewrite !N.eqb_refl; reflexivity).
  induction l as [|[a b] l IH]; cbn; [rewrite R; reflexivity|].
  destruct (key_eqb k a) eqn:E; cbn; [rewrite R; reflexivity | rewrite E; assumption].
Qed.

(* a Heartbeat Request that is not a retransmission is answered, in every state *)
Theorem heartbeat_answered w peer seq e :
  klookup (peer, seq) (w_rx w) = None ->
  exists w', step w (EvRecv peer seq MHeartbeat e) = Ok (w', [OSend peer (PHeartbeatRsp seq) false]) /\ same_core w w'.
Proof.
  intros H. cbn [step is_request]. unfold recv_request. rewrite H. unfold send_rsp.
  cbn [set_rx w_rx]. rewrite klookup_kset_same. eexists. split; [reflexivity|]. repeat split.
Qed.

(* ---------------------------------------------------------------- C04 *)

Theorem lookup_exact sl seid :
  (forall f, lookup sl seid <> Fault f) /\
  (forall s, lookup sl seid = Ok (Found s) <-> 1 <= seid /\ nth_error sl (N.to_nat (seid - 1)) = Some (Some s)) /\
  (lookup sl seid = Ok NotFound <-> forall s, ~ (1 <= seid /\ nth_error sl (N.to_nat (seid - 1)) = Some (Some s))).
Proof.
  split; [intros f; apply lookup_no_fault|].
  set (w := mkWorld sl [] [] [] [] [] 0 0 []).
  split; [intros s; apply (lookup_found w seid s) | apply (lookup_notfound w seid)].
Qed.

(* live sessions have pairwise distinct, non-zero SEIDs: the SEID determines the slot *)
Theorem seid_unique w lid lid' s : WInv w -> live w lid s -> live w lid' s -> lid = lid'.
Proof. intros HI H1 H2. rewrite <- (live_lid _ _ _ HI H1). apply (live_lid _ _ _ HI H2). Qed.

Theorem seid_nonzero w lid s : live w lid s -> lid <> 0.
Proof. intros [H _]. lia. Qed.

(* a released SEID carries no rule in the data plane: re-issue starts from a clean slate *)
Theorem free_seid_clean w id k i : WInv w -> In id (w_free w) -> ~ In (id, k, i) (w_dp w).
Proof.
  intros HI Hf Hi. apply (wi_free w HI) in Hf. destruct Hf as [_ Hn].
  destruct (wi_dp w HI _ _ _ Hi) as [s [[_ HL] _]]. congruence.
Qed.

(* Modification / Deletion for a SEID that is not live: 'context not found', header SEID 0, nothing else changes *)
Theorem mod_not_found w peer seq seid nid o e :
  (forall s, ~ live w seid s) -> klookup (peer, seq) (w_rx w) <> None ->
  exists w', handle_mod w peer seq seid nid o e = Ok (w', [OSend peer (PModRsp seq 0 CauseNoContext []) false]) /\
             same_core w w' /\ w_tx w' = w_tx w /\ w_txseq w' = w_txseq w.
Proof.
  intros Hn Hrx. unfold handle_mod. apply lookup_notfound in Hn. rewrite Hn.
  unfold send_rsp. destruct (klookup (peer, seq) (w_rx w)); [|congruence].
  eexists. split; [reflexivity|]. repeat split.
Qed.

Theorem del_not_found w peer seq seid e :
  (forall s, ~ live w seid s) -> klookup (peer, seq) (w_rx w) <> None ->
  exists w', handle_del w peer seq seid e = Ok (w', [OSend peer (PDelRsp seq 0 CauseNoContext []) false]) /\
             same_core w w' /\ w_tx w' = w_tx w /\ w_txseq w' = w_txseq w.
Proof.
  intros Hn Hrx. unfold handle_del. apply lookup_notfound in Hn. rewrite Hn.
  unfold send_rsp. destruct (klookup (peer, seq) (w_rx w)); [|congruence].
  eexists. split; [reflexivity|]. repeat split.
Qed.

(* ---------------------------------------------------------------- C01 *)

Theorem containment w seid k id :
  reachable w -> In (seid, k, id) (w_dp w) -> exists s, live w seid s /\ In id (recorded s k).
Proof. intros Hr. apply (wi_dp w (reachable_inv w Hr)). Qed.

(* the found-check: an Update / Remove / Query for an id the session has not recorded never reaches the driver *)
Theorem guarded_update_simple e k i c : ~ In i (recorded (c_s c) k) -> update_simple e k (Some i) c = c.
Proof. intros H. unfold update_simple. apply memN_false in H. rewrite H. reflexivity. Qed.
Theorem guarded_remove_simple e k i c : ~ In i (recorded (c_s c) k) -> remove_simple e k (Some i) c = c.
Proof. intros H. unfold remove_simple. apply memN_false in H. rewrite H. reflexivity. Qed.
Theorem guarded_update_urr e o i c : uo_id o = Some i -> ~ In i (recorded (c_s c) KURR) -> update_urr e o c = (c, []).
Proof. intros E H. unfold update_urr. rewrite E. apply alookup_None in H. rewrite H. reflexivity. Qed.
Theorem guarded_remove_urr e i c : ~ In i (recorded (c_s c) KURR) -> remove_urr e (Some i) c = (c, []).
Proof. intros H. unfold remove_urr. apply alookup_None in H. rewrite H. reflexivity. Qed.
Theorem guarded_query_urr e i c : ~ In i (recorded (c_s c) KURR) -> query_urr e (Some i) c = (c, []).
Proof. intros H. unfold query_urr. apply alookup_None in H. rewrite H. reflexivity. Qed.
Theorem guarded_update_pdr e o c : ~ In (pdr_id o) (recorded (c_s c) KPDR) -> update_pdr e o c = (c, []).
Proof. intros H. unfold update_pdr. apply alookup_None in H. rewrite H. reflexivity. Qed.
Theorem guarded_remove_pdr e i c : ~ In i (recorded (c_s c) KPDR) -> remove_pdr e (Some i) c = (c, []).
Proof. intros H. unfold remove_pdr. apply alookup_None in H. rewrite H. reflexivity. Qed.
Theorem guarded_diassociate e u c : ~ In u (recorded (c_s c) KURR) -> diassociate e u c = (c, []).
Proof. intros H. unfold diassociate. apply alookup_None in H. rewrite H. reflexivity. Qed.

(* Session Deletion: every rule of the session is withdrawn, whatever failed before *)
Theorem deletion_withdraws w peer seq seid e s :
  WInv w -> live w seid s ->
  exists w' o, handle_del w peer seq seid e = Ok (w', o) /\
    (forall k id, ~ In (seid, k, id) (w_dp w')) /\ (forall s', ~ live w' seid s') /\ In seid (w_free w') /\
    (forall lid' s', lid' <> seid -> (live w' lid' s' <-> live w lid' s')) /\
    (forall r, fst (fst r) <> seid -> (In r (w_dp w') <-> In r (w_dp w))).
Proof.
  intros HI HL. unfold handle_del. pose proof HL as HL0. apply lookup_found in HL0. rewrite HL0.
  destruct (delete_sess_spec e w (s_node s) seid HI) as [w1 [r [Ed [DP Hsome]]]]. rewrite Ed.
  destruct (wi_node w HI _ _ HL) as [n [Hn Hin]].
  destruct r as [[[o1 s1] rs]|]; [|exfalso; eapply Hsome; eauto].
  destruct (dl_some _ _ _ _ _ DP _ _ _ eq_refl) as [_ [Hdead [Hfree [Hgone _]]]].
  destruct (emit USAR_TRIG_TERMR true (s_urrs s1) rs) as [u ies].
  pose proof (send_rsp_core w1 peer seq (PDelRsp seq (s_rid s) CauseAccepted ies)) as C.
  destruct (send_rsp w1 peer seq (PDelRsp seq (s_rid s) CauseAccepted ies)) as [w2 o2]. cbn [fst] in C.
  exists w2, (o1 ++ o2). split; [reflexivity|].
  destruct C as [E1 [E2 [E3 [E4 E5]]]].
  split; [intros k id; rewrite E5; apply Hgone|].
  split; [intros s' HL'; apply (Hdead s'); unfold live in *; rewrite <- E1; exact HL'|].
  split; [rewrite E2; exact Hfree|].
  split.
  - intros lid' s' Hne. rewrite <- (dl_others _ _ _ _ _ DP lid' s' Hne). unfold live. rewrite E1. tauto.
  - intros r0 Hr0. rewrite E5. apply (dl_dp_other _ _ _ _ _ DP). exact Hr0.
Qed.

(* ---------------------------------------------------------------- C06 *)

Theorem duplicate_not_executed w peer seq m e c :
  is_request m = true -> klookup (peer, seq) (w_rx w) = Some c ->
  step w (EvRecv peer seq m e) = Ok (w, match c with Some p => [OSend peer p true] | None => [] end).
Proof. intros Hm H. cbn [step]. rewrite Hm. unfold recv_request. rewrite H. destruct c; reflexivity. Qed.

Lemma klookup_kdel_same {V} k (l : list (N * N * V)) : klookup k (kdel k l) = None.
Proof.
  unfold kdel. induction l as [|[a b] l IH]; cbn; [reflexivity|].
  destruct (key_eqb k a) eqn:E; cbn; [assumption | rewrite E; assumption].
Qed.

Theorem rx_released w peer seq : exists w', step w (EvTimeoutRx peer seq) = Ok (w', []) /\ klookup (peer, seq) (w_rx w') = None.
Proof. eexists. split; [reflexivity|]. cbn [set_rx w_rx]. apply klookup_kdel_same. Qed.

Lemma key_eqb_eq a b : key_eqb a b = true <-> a = b.
Proof.
  destruct a, b. unfold key_eqb. cbn. rewrite andb_true_iff, !N.eqb_eq. split; [intros [-> ->]; reflexivity | intros H; inversion H; auto].
Qed.

(* ---------------------------------------------------------------- C09 *)

Theorem tx_retry_budget w peer seq t :
  klookup (peer, seq) (w_tx w) = Some t ->
  (tx_count t < w_maxretrans w ->
     exists w', step w (EvTimeoutTx peer seq) = Ok (w', [OSend peer (tx_pdu t) true]) /\
                klookup (peer, seq) (w_tx w') = Some (mkTx (tx_pdu t) (tx_count t + 1) (tx_rseid t))) /\
  (w_maxretrans w <= tx_count t ->
     exists w', step w (EvTimeoutTx peer seq) = Ok (w', []) /\ klookup (peer, seq) (w_tx w') = None).
Proof.
  intros H. cbn [step]. unfold timeout_tx. rewrite H. split; intros Hc.
  - destruct (N.ltb_spec (tx_count t) (w_maxretrans w)); [|lia].
    eexists. split; [reflexivity|]. cbn [set_tx w_tx]. apply klookup_kset_same.
  - destruct (N.ltb_spec (tx_count t) (w_maxretrans w)); [lia|].
    eexists. split; [reflexivity|]. cbn [set_tx w_tx]. apply klookup_kdel_same.
Qed.

Theorem tx_unmatched_noop w peer seq m e :
  is_request m = false -> klookup (peer, seq) (w_tx w) = None -> step w (EvRecv peer seq m e) = Ok (w, []).
Proof. intros Hm H. cbn [step]. rewrite Hm. unfold recv_response. rewrite H. reflexivity. Qed.

Theorem tx_timeout_unmatched_noop w peer seq :
  klookup (peer, seq) (w_tx w) = None -> step w (EvTimeoutTx peer seq) = Ok (w, []).
Proof. intros H. cbn [step]. unfold timeout_tx. rewrite H. reflexivity. Qed.

Theorem tx_response_releases w peer seq m e t :
  reachable w -> is_request m = false -> klookup (peer, seq) (w_tx w) = Some t ->
  exists w' o, step w (EvRecv peer seq m e) = Ok (w', o) /\ klookup (peer, seq) (w_tx w') = None /\
               (forall d p r, In (OSend d p r) o -> False).
Proof.
  intros Hr Hm H. pose proof (reachable_inv w Hr) as HI. cbn [step]. rewrite Hm. unfold recv_response. rewrite H.
  set (w1 := set_tx (kdel (peer, seq) (w_tx w)) (w_txseq w) w).
  assert (HI1 : WInv w1) by (apply WInv_set_tx; exact HI).
  assert (K1 : klookup (peer, seq) (w_tx w1) = None) by (cbn; apply klookup_kdel_same).
  destruct m; try (exists w1, []; split; [reflexivity|]; split; [exact K1 | intros d p r []]); try discriminate.
  unfold handle_report_rsp. destruct (hdr =? 0).
  - destruct (remote_sess (w_heap w1) (w_slots w1) (tx_rseid t) peer) as [s|] eqn:Er;
      [|exists w1, []; split; [reflexivity|]; split; [exact K1 | intros d p r []]].
    destruct (delete_sess_spec e w1 (s_node s) (s_lid s) HI1) as [w' [r [Ed [DP _]]]]. rewrite Ed.
    assert (K2 : klookup (peer, seq) (w_tx w') = None) by (rewrite (dl_tx _ _ _ _ _ DP); exact K1).
    destruct r as [[[o1 s1] rs]|].
    + exists w', o1. split; [reflexivity|]. split; [exact K2|].
      destruct (dl_some _ _ _ _ _ DP _ _ _ eq_refl) as [_ [_ [_ [_ [Fo _]]]]].
      intros d p r Hin. rewrite Forall_forall in Fo. apply Fo in Hin. exact Hin.
    + exists w', []. split; [reflexivity|]. split; [exact K2 | intros d p r []].
  - destruct (lookup (w_slots w1) hdr) as [x|f] eqn:El; [|exfalso; eapply lookup_no_fault; eauto].
    exists w1, []. split; [reflexivity|]. split; [exact K1 | intros d p r []].
Qed.

(* the sequence number on the wire is the counter, which stays below 2^24 *)
Theorem send_req_seq w dst rseid p :
  w_txseq w < 16777216 ->
  let '(w', o) := send_req w dst rseid p in
  w_txseq w' < 16777216 /\ klookup (dst, w_txseq w) (w_tx w') = Some (mkTx (pdu_with_seq p (w_txseq w)) 0 rseid) /\
  o = [OSend dst (pdu_with_seq p (w_txseq w)) false].
Proof.
  intros Hlt. unfold send_req. cbn [set_tx w_tx w_txseq].
  rewrite (N.mod_small (w_txseq w)) by exact Hlt.
  split; [apply N.mod_lt; discriminate|]. split; [apply klookup_kset_same | reflexivity].
Qed.
