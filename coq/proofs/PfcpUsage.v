(* Usage-report emission (C10, C11, C12d): the UR-SEQN discipline of [emit], the contents of a usage-report IE,
   and which per-session operations may touch a URR's counter or the packet queues. *)
From Coq Require Import String List NArith ZArith Bool Lia.
From GoUpf Require Import Bytes FlagsGen ConstsGen HandlerGen Pfcp PfcpBase PfcpSess PfcpCat.
Import ListNotations.
Local Open Scope N_scope.

Definition M32 : N := 4294967296.

Lemma M32_nz : M32 <> 0. Proof. discriminate. Qed.

(* the IEs / UR-SEQN values / reports that belong to URR [u], in order *)
Definition ies_for (u : N) (ies : list usage_ie) : list usage_ie := filter (fun ie => N.eqb (ur_urr ie) u) ies.
Definition seqs_for (u : N) (ies : list usage_ie) : list N := map ur_seqn (ies_for u ies).
Definition reports_for (u : N) (rs : list rpt) : list rpt := filter (fun r => N.eqb (r_urr r) u) rs.

Definition with_seqn (inf : urrinfo) (q : N) : urrinfo :=
  mkUrr (ui_removed inf) q (ui_durat inf) (ui_volum inf) (ui_event inf) (ui_mnop inf) (ui_ref inf).

Lemma with_seqn_same inf : with_seqn inf (ui_seqn inf) = inf.
Proof. destruct inf; reflexivity. Qed.

(* n consecutive values of a uint32 counter starting at s, and the counter after n increments *)
Fixpoint seq_from (s : N) (n : nat) : list N :=
  match n with O => [] | S k => s :: seq_from ((s + 1) mod M32) k end.
Fixpoint seq_adv (s : N) (n : nat) : N :=
  match n with O => s | S k => seq_adv ((s + 1) mod M32) k end.

Lemma seq_from_length s n : length (seq_from s n) = n.
Proof. revert s. induction n as [|n IH]; intros s; cbn [seq_from length]; [reflexivity|]. rewrite IH. reflexivity. Qed.

Lemma seq_adv_closed s n : s < M32 -> seq_adv s n = (s + N.of_nat n) mod M32.
Proof.
  revert s. induction n as [|n IH]; intros s Hs; cbn [seq_adv].
  - rewrite N.add_0_r, N.mod_small by exact Hs. reflexivity.
  - rewrite IH by (apply N.mod_upper_bound; exact M32_nz).
    rewrite N.add_mod_idemp_l by exact M32_nz. f_equal. lia.
Qed.

Lemma nth_seq_from s n k : s < M32 -> (k < n)%nat -> nth k (seq_from s n) 0 = (s + N.of_nat k) mod M32.
Proof.
  revert s k. induction n as [|n IH]; intros s k Hs Hk; [lia|].
  destruct k as [|k]; cbn [seq_from nth].
  - rewrite N.add_0_r, N.mod_small by exact Hs. reflexivity.
  - rewrite IH by (try (apply N.mod_upper_bound; exact M32_nz); lia).
    rewrite N.add_mod_idemp_l by exact M32_nz. f_equal. lia.
Qed.

(* ---------------------------------------------------------------- one step of the emission loop *)

Definition emit_next (d : bool) (inf : urrinfo) (k : N) (urrs : list (N * urrinfo)) : list (N * urrinfo) :=
  if d && ui_removed inf then adel k urrs else aset k (with_seqn inf ((ui_seqn inf + 1) mod M32)) urrs.

Lemma emit_cons_some extra d urrs r rest inf :
  alookup (r_urr r) urrs = Some inf ->
  emit extra d urrs (r :: rest) =
  (fst (emit extra d (emit_next d inf (r_urr r) urrs) rest),
   mk_usage_ie inf (ui_seqn inf) (or_trig extra r) :: snd (emit extra d (emit_next d inf (r_urr r) urrs) rest)).
Proof.
  intros H. cbn [emit]. rewrite H. unfold emit_next, with_seqn, M32.
  destruct (emit extra d _ rest) as [u2 ies]. reflexivity.
Qed.

Lemma emit_cons_none extra d urrs r rest :
  alookup (r_urr r) urrs = None -> emit extra d urrs (r :: rest) = emit extra d urrs rest.
Proof. intros H. cbn [emit]. rewrite H. reflexivity. Qed.

Lemma emit_next_other d inf k urrs u : u <> k -> alookup u (emit_next d inf k urrs) = alookup u urrs.
Proof.
  intros Hne. unfold emit_next. destruct (d && ui_removed inf).
  - apply alookup_adel_other. exact Hne.
  - apply alookup_aset_other. exact Hne.
Qed.

Lemma ies_for_cons_same u ie ies : ur_urr ie = u -> ies_for u (ie :: ies) = ie :: ies_for u ies.
Proof. intros <-. unfold ies_for. cbn [filter]. rewrite N.eqb_refl. reflexivity. Qed.

Lemma ies_for_cons_other u ie ies : ur_urr ie <> u -> ies_for u (ie :: ies) = ies_for u ies.
Proof. intros H. unfold ies_for. cbn [filter]. destruct (N.eqb_spec (ur_urr ie) u); [contradiction | reflexivity]. Qed.

(* a URR that is not (or no longer) known produces no IE and stays unknown *)
Lemma emit_absent extra d rs : forall urrs u,
  alookup u urrs = None ->
  ies_for u (snd (emit extra d urrs rs)) = [] /\ alookup u (fst (emit extra d urrs rs)) = None.
Proof.
  induction rs as [|r rest IH]; intros urrs u Hu; [cbn; auto|].
  destruct (alookup (r_urr r) urrs) as [inf|] eqn:E.
  - rewrite (emit_cons_some _ _ _ _ _ _ E). cbn [fst snd].
    assert (Hne : u <> r_urr r) by (intros ->; congruence).
    rewrite ies_for_cons_other by (cbn; congruence).
    apply IH. rewrite emit_next_other by exact Hne. exact Hu.
  - rewrite (emit_cons_none _ _ _ _ _ E). apply IH. exact Hu.
Qed.

(* number of IEs a URR with bookkeeping [inf] gets out of n reports *)
Definition emitted_n (d : bool) (inf : urrinfo) (n : nat) : nat :=
  if d && ui_removed inf then Nat.min 1 n else n.

(* the main lemma: UR-SEQN values of one URR in one emission, and its bookkeeping afterwards *)
Lemma emit_known extra d rs : forall urrs u inf,
  alookup u urrs = Some inf ->
  seqs_for u (snd (emit extra d urrs rs)) =
    seq_from (ui_seqn inf) (emitted_n d inf (length (reports_for u rs))) /\
  alookup u (fst (emit extra d urrs rs)) =
    if (d && ui_removed inf) && negb (Nat.eqb (length (reports_for u rs)) 0) then None
    else Some (with_seqn inf (seq_adv (ui_seqn inf) (emitted_n d inf (length (reports_for u rs))))).
Proof.
  induction rs as [|r rest IH]; intros urrs u inf Hu.
  - unfold emitted_n. cbn [emit fst snd reports_for filter length Nat.eqb negb seqs_for ies_for map].
    rewrite andb_false_r. destruct (d && ui_removed inf); cbn [Nat.min seq_from seq_adv];
      rewrite with_seqn_same; auto.
  - destruct (N.eqb_spec (r_urr r) u) as [Heq|Hne].
    + subst u. rewrite (emit_cons_some _ _ _ _ _ _ Hu). cbn [fst snd].
      unfold reports_for at 1 2 3. cbn [filter]. rewrite N.eqb_refl. cbn [length Nat.eqb negb].
      fold (reports_for (r_urr r) rest). rewrite andb_true_r.
      unfold seqs_for. rewrite ies_for_cons_same by reflexivity. cbn [map].
      unfold emitted_n, emit_next. destruct (d && ui_removed inf) eqn:G.
      * destruct (emit_absent extra d rest (adel (r_urr r) urrs) (r_urr r) (alookup_adel_same _ _)) as [A B].
        rewrite A, B. cbn [map]. destruct (length (reports_for (r_urr r) rest)); cbn; auto.
      * destruct (IH (aset (r_urr r) (with_seqn inf ((ui_seqn inf + 1) mod M32)) urrs) (r_urr r)
                     (with_seqn inf ((ui_seqn inf + 1) mod M32)) (alookup_aset_same _ _ _)) as [A B].
        unfold emitted_n in A, B. cbn [with_seqn ui_removed ui_seqn] in A, B. rewrite G in A, B.
        cbn [andb] in B. fold (seqs_for (r_urr r)
          (snd (emit extra d (aset (r_urr r) (with_seqn inf ((ui_seqn inf + 1) mod M32)) urrs) rest))).
        unfold with_seqn in *. cbn [ui_removed ui_seqn ui_durat ui_volum ui_event ui_mnop ui_ref] in *.
        rewrite A, B. cbn [seq_from seq_adv]. auto.
    + assert (Hr : reports_for u (r :: rest) = reports_for u rest).
      { unfold reports_for. cbn [filter]. destruct (N.eqb_spec (r_urr r) u); [contradiction | reflexivity]. }
      rewrite Hr.
      destruct (alookup (r_urr r) urrs) as [inf0|] eqn:E.
      * rewrite (emit_cons_some _ _ _ _ _ _ E). cbn [fst snd].
        unfold seqs_for. rewrite ies_for_cons_other by (cbn; exact Hne).
        apply IH. rewrite emit_next_other by congruence. exact Hu.
      * rewrite (emit_cons_none _ _ _ _ _ E). apply IH. exact Hu.
Qed.

(* ---------------------------------------------------------------- C11 (a)-(c), C12 (d) *)

(* (a) the UR-SEQN values of URR u in one emission are ui_seqn, ui_seqn+1, ... (mod 2^32), in order, without gap
   or repeat; their number is the number of reports for u - or, for a removed URR in a response (the entry
   is deleted after its first report), at most one *)
Theorem emit_seqn_consecutive extra d urrs rs urrs' ies u inf :
  emit extra d urrs rs = (urrs', ies) -> alookup u urrs = Some inf -> ui_seqn inf < M32 ->
  length (seqs_for u ies) = emitted_n d inf (length (reports_for u rs)) /\
  forall k, (k < length (seqs_for u ies))%nat ->
            nth k (seqs_for u ies) 0 = (ui_seqn inf + N.of_nat k) mod M32.
Proof.
  intros He Hu Hb. destruct (emit_known extra d rs urrs u inf Hu) as [A _]. rewrite He in A. cbn [snd] in A.
  rewrite A, seq_from_length. split; [reflexivity|]. intros k Hk. apply nth_seq_from; assumption.
Qed.

(* (b) the counter afterwards: advanced by exactly the number of IEs emitted for u; nothing else changed *)
Theorem emit_counter_after extra d urrs rs urrs' ies u inf inf' :
  emit extra d urrs rs = (urrs', ies) -> alookup u urrs = Some inf -> ui_seqn inf < M32 ->
  alookup u urrs' = Some inf' ->
  inf' = with_seqn inf ((ui_seqn inf + N.of_nat (length (seqs_for u ies))) mod M32).
Proof.
  intros He Hu Hb Hu'. destruct (emit_known extra d rs urrs u inf Hu) as [A B]. rewrite He in A, B. cbn [fst snd] in A, B.
  rewrite Hu' in B. rewrite A, seq_from_length.
  destruct ((d && ui_removed inf) && negb (Nat.eqb (length (reports_for u rs)) 0)); [discriminate|].
  inversion B. rewrite seq_adv_closed by exact Hb. reflexivity.
Qed.

(* when exactly the entry disappears: a removed URR, in a response, with at least one report *)
Theorem emit_dropped_iff extra d urrs rs urrs' ies u inf :
  emit extra d urrs rs = (urrs', ies) -> alookup u urrs = Some inf ->
  (alookup u urrs' = None <-> d = true /\ ui_removed inf = true /\ reports_for u rs <> []).
Proof.
  intros He Hu. destruct (emit_known extra d rs urrs u inf Hu) as [_ B]. rewrite He in B. cbn [fst] in B. rewrite B.
  destruct d, (ui_removed inf), (reports_for u rs) as [|r0 l0]; cbn [andb negb length Nat.eqb];
    (split; [intros H | intros [H1 [H2 H3]]]); try discriminate; try congruence.
  repeat split. discriminate.
Qed.

(* (c) URRs without a report are untouched; reports for unknown URRs produce no IE *)
Theorem emit_independent extra d urrs rs urrs' ies u :
  emit extra d urrs rs = (urrs', ies) -> reports_for u rs = [] -> alookup u urrs' = alookup u urrs.
Proof.
  intros He Hr. destruct (alookup u urrs) as [inf|] eqn:Hu.
  - destruct (emit_known extra d rs urrs u inf Hu) as [_ B]. rewrite He in B. cbn [fst] in B.
    rewrite B, Hr. cbn [length Nat.eqb negb]. rewrite andb_false_r.
    unfold emitted_n. destruct (d && ui_removed inf); cbn [Nat.min seq_adv]; rewrite with_seqn_same; reflexivity.
  - destruct (emit_absent extra d rs urrs u Hu) as [_ B]. rewrite He in B. exact B.
Qed.

Theorem emit_unknown_no_ie extra d urrs rs urrs' ies u :
  emit extra d urrs rs = (urrs', ies) -> alookup u urrs = None -> ies_for u ies = [] /\ alookup u urrs' = None.
Proof. intros He Hu. pose proof (emit_absent extra d rs urrs u Hu) as H. rewrite He in H. exact H. Qed.

(* a URR without reports gets no IE *)
Theorem emit_no_report_no_ie extra d urrs rs urrs' ies u :
  emit extra d urrs rs = (urrs', ies) -> reports_for u rs = [] -> ies_for u ies = [].
Proof.
  intros He Hr. destruct (alookup u urrs) as [inf|] eqn:Hu.
  - destruct (emit_known extra d rs urrs u inf Hu) as [A _]. rewrite He in A. cbn [snd] in A.
    rewrite Hr in A. unfold emitted_n in A. cbn [length] in A.
    assert (E : seqs_for u ies = []) by (rewrite A; destruct (d && ui_removed inf); reflexivity).
    unfold seqs_for in E. destruct (ies_for u ies); [reflexivity | discriminate].
  - exact (proj1 (emit_unknown_no_ie _ _ _ _ _ _ _ He Hu)).
Qed.

(* C12 (d): in a response, a removed URR is reported at most once per call *)
Theorem emit_once_per_removed extra urrs rs urrs' ies u inf :
  emit extra true urrs rs = (urrs', ies) -> alookup u urrs = Some inf -> ui_removed inf = true ->
  length (ies_for u ies) = Nat.min 1 (length (reports_for u rs)) /\ (length (ies_for u ies) <= 1)%nat.
Proof.
  intros He Hu Hr. destruct (emit_known extra true rs urrs u inf Hu) as [A _]. rewrite He in A. cbn [snd] in A.
  assert (L : length (ies_for u ies) = Nat.min 1 (length (reports_for u rs))).
  { rewrite <- (map_length ur_seqn). fold (seqs_for u ies). rewrite A, seq_from_length.
    unfold emitted_n. rewrite Hr. reflexivity. }
  split; [exact L|]. rewrite L. apply Nat.le_min_l.
Qed.

(* the counters stay within uint32 *)
Definition seq_bounded (urrs : list (N * urrinfo)) : Prop :=
  forall u inf, alookup u urrs = Some inf -> ui_seqn inf < M32.

Lemma emit_bounded extra d rs : forall urrs, seq_bounded urrs -> seq_bounded (fst (emit extra d urrs rs)).
Proof.
  induction rs as [|r rest IH]; intros urrs Hb; [exact Hb|].
  destruct (alookup (r_urr r) urrs) as [inf|] eqn:E.
  - rewrite (emit_cons_some _ _ _ _ _ _ E). cbn [fst]. apply IH.
    intros u inf' Hu. unfold emit_next in Hu. destruct (d && ui_removed inf).
    + destruct (N.eq_dec u (r_urr r)) as [->|Hne]; [rewrite alookup_adel_same in Hu; discriminate|].
      rewrite alookup_adel_other in Hu by exact Hne. eapply Hb; eauto.
    + destruct (N.eq_dec u (r_urr r)) as [->|Hne].
      * rewrite alookup_aset_same in Hu. inversion Hu. cbn. apply N.mod_upper_bound. exact M32_nz.
      * rewrite alookup_aset_other in Hu by exact Hne. eapply Hb; eauto.
  - rewrite (emit_cons_none _ _ _ _ _ E). apply IH. exact Hb.
Qed.

(* ---------------------------------------------------------------- C10 (c): unknown URRs are skipped, the rest is in order *)

Definition known (urrs : list (N * urrinfo)) (r : rpt) : bool :=
  match alookup (r_urr r) urrs with Some _ => true | None => false end.

Lemma emit_next_known d inf k urrs u : alookup k urrs = Some inf ->
  alookup u (emit_next d inf k urrs) <> None -> alookup u urrs <> None.
Proof.
  intros Hk. destruct (N.eq_dec u k) as [->|Hne]; [congruence|]. rewrite emit_next_other by exact Hne. auto.
Qed.

Lemma emit_filter extra d rs : forall urrs (p : rpt -> bool),
  (forall r, alookup (r_urr r) urrs <> None -> p r = true) ->
  emit extra d urrs (filter p rs) = emit extra d urrs rs.
Proof.
  induction rs as [|r rest IH]; intros urrs p Hp; [reflexivity|]. cbn [filter].
  destruct (alookup (r_urr r) urrs) as [inf|] eqn:E.
  - rewrite (Hp r) by congruence. rewrite !(emit_cons_some _ _ _ _ _ _ E).
    rewrite IH; [reflexivity|]. intros r' Hr'. apply Hp. eapply emit_next_known; eauto.
  - rewrite (emit_cons_none _ _ _ _ _ E). destruct (p r).
    + rewrite (emit_cons_none _ _ _ _ _ E). apply IH. exact Hp.
    + apply IH. exact Hp.
Qed.

(* dropping the reports of unknown URRs beforehand changes nothing: neither the IEs (content, order, UR-SEQN)
   nor the bookkeeping of the other URRs *)
Theorem emit_skips_unknown extra d urrs rs : emit extra d urrs (filter (known urrs) rs) = emit extra d urrs rs.
Proof.
  apply emit_filter. intros r Hr. unfold known. destruct (alookup (r_urr r) urrs); [reflexivity | congruence].
Qed.

(* the measurement-relevant part of the bookkeeping *)
Definition same_meas (a b : urrinfo) : Prop :=
  ui_durat a = ui_durat b /\ ui_volum a = ui_volum b /\ ui_mnop a = ui_mnop b.

Lemma mk_usage_ie_meas a b q r : same_meas a b -> mk_usage_ie a q r = mk_usage_ie b q r.
Proof. intros [E1 [E2 E3]]. unfold mk_usage_ie. rewrite E1, E2, E3. reflexivity. Qed.

Definition ie_of_report (extra : N) (urrs : list (N * urrinfo)) (r : rpt) (ie : usage_ie) : Prop :=
  exists inf, alookup (r_urr r) urrs = Some inf /\ ie = mk_usage_ie inf (ur_seqn ie) (or_trig extra r).

(* Session Report Request (nothing is deleted): the IEs are, one for one and in order, the IEs of the reports
   whose URR is known, built from that URR's bookkeeping *)
Lemma emit_false_ies_gen extra urrs0 rs : forall urrs,
  (forall u, match alookup u urrs0, alookup u urrs with
             | Some a, Some b => same_meas a b | None, None => True | _, _ => False end) ->
  Forall2 (ie_of_report extra urrs0) (filter (known urrs0) rs) (snd (emit extra false urrs rs)).
Proof.
  induction rs as [|r rest IH]; intros urrs Hm; [constructor|]. cbn [filter]. unfold known at 1.
  pose proof (Hm (r_urr r)) as Hr.
  destruct (alookup (r_urr r) urrs0) as [a|] eqn:E0; destruct (alookup (r_urr r) urrs) as [b|] eqn:E; try contradiction.
  - rewrite (emit_cons_some _ _ _ _ _ _ E). cbn [snd]. constructor.
    + exists a. split; [exact E0|]. cbn [mk_usage_ie ur_seqn]. symmetry. apply mk_usage_ie_meas. exact Hr.
    + apply IH. intros u. unfold emit_next. cbn [andb].
      destruct (N.eq_dec u (r_urr r)) as [->|Hne].
      * rewrite E0, alookup_aset_same. exact Hr.
      * rewrite alookup_aset_other by exact Hne. apply Hm.
  - rewrite (emit_cons_none _ _ _ _ _ E). apply IH. exact Hm.
Qed.

Theorem emit_false_ies extra urrs rs :
  Forall2 (ie_of_report extra urrs) (filter (known urrs) rs) (snd (emit extra false urrs rs)).
Proof.
  apply emit_false_ies_gen. intros u. destruct (alookup u urrs); [repeat split | exact I].
Qed.

(* every carrier: each emitted IE is the IE of one of the reports, built from that URR's bookkeeping *)
Lemma emit_ies_in_gen extra d urrs0 rs : forall urrs ie,
  (forall u b, alookup u urrs = Some b -> exists a, alookup u urrs0 = Some a /\ same_meas a b) ->
  In ie (snd (emit extra d urrs rs)) -> exists r, In r rs /\ ie_of_report extra urrs0 r ie.
Proof.
  induction rs as [|r rest IH]; intros urrs ie Hm Hin; [destruct Hin|].
  destruct (alookup (r_urr r) urrs) as [b|] eqn:E.
  - rewrite (emit_cons_some _ _ _ _ _ _ E) in Hin. cbn [snd] in Hin. destruct Hin as [<-|Hin].
    + exists r. split; [left; reflexivity|]. destruct (Hm _ _ E) as [a [Ha Hs]].
      exists a. split; [exact Ha|]. cbn [mk_usage_ie ur_seqn]. symmetry. apply mk_usage_ie_meas. exact Hs.
    + destruct (IH (emit_next d b (r_urr r) urrs) ie) as [r' [Hr' Hie]]; [|exact Hin|exists r'; split; [right|]; assumption].
      intros u b' Hu. destruct (N.eq_dec u (r_urr r)) as [->|Hne].
      * unfold emit_next in Hu. destruct (d && ui_removed b).
        -- rewrite alookup_adel_same in Hu. discriminate.
        -- rewrite alookup_aset_same in Hu. inversion Hu; subst b'. destruct (Hm _ _ E) as [a [Ha Hs]].
           exists a. split; [exact Ha | exact Hs].
      * rewrite emit_next_other in Hu by exact Hne. eapply Hm; eauto.
  - rewrite (emit_cons_none _ _ _ _ _ E) in Hin. destruct (IH urrs ie Hm Hin) as [r' [Hr' Hie]].
    exists r'. split; [right|]; assumption.
Qed.

Theorem emit_ies_in extra d urrs rs ie :
  In ie (snd (emit extra d urrs rs)) -> exists r, In r rs /\ ie_of_report extra urrs r ie.
Proof.
  apply emit_ies_in_gen. intros u b Hu. exists b. split; [exact Hu | repeat split].
Qed.

(* ---------------------------------------------------------------- C10 (a): the contents of a usage-report IE *)

Definition vol_flags (inf : urrinfo) (r : rpt) : N :=
  N.lor (N.lor (r_vflags r) setflags_base) (if ui_mnop inf then setflags_mnop else 0).

Definition no_times (t : N) : bool :=
  flag_of USAR_TRIG_START t || flag_of USAR_TRIG_STOPT t || flag_of USAR_TRIG_MACAR t.

Theorem mk_usage_ie_fields inf q r :
  ur_urr (mk_usage_ie inf q r) = r_urr r /\
  ur_seqn (mk_usage_ie inf q r) = q /\
  ur_trig (mk_usage_ie inf q r) = r_trig r mod 16777216 /\
  ur_times (mk_usage_ie inf q r) = (if no_times (r_trig r) then None else Some (r_start r, r_end r)) /\
  (ur_vol (mk_usage_ie inf q r) <> None <-> ui_volum inf = true) /\
  (forall fl cnt, ur_vol (mk_usage_ie inf q r) = Some (fl, cnt) -> fl = vol_flags inf r mod 256) /\
  ur_dur (mk_usage_ie inf q r) = (if ui_durat inf then Some (r_dur r) else None).
Proof.
  unfold mk_usage_ie, no_times, vol_flags. cbn [ur_urr ur_seqn ur_trig ur_times ur_vol ur_dur].
  repeat split; try reflexivity.
  - destruct (ui_volum inf); [reflexivity | intros H; exfalso; apply H; reflexivity].
  - intros H. rewrite H. discriminate.
  - intros fl cnt H. destruct (ui_volum inf); [|discriminate]. inversion H. reflexivity.
Qed.

Lemma vol_flags_low inf r i : i < 3 -> N.testbit (vol_flags inf r) i = true.
Proof.
  intros Hi. unfold vol_flags. rewrite !N.lor_spec.
  assert (E : N.testbit setflags_base i = true).
  { assert (C : i = 0 \/ i = 1 \/ i = 2) by lia. destruct C as [->|[->| ->]]; reflexivity. }
  rewrite E, orb_true_r. reflexivity.
Qed.

Lemma vol_flags_mnop inf r i : ui_mnop inf = true -> 3 <= i < 6 -> N.testbit (vol_flags inf r) i = true.
Proof.
  intros Hm Hi. unfold vol_flags. rewrite Hm, !N.lor_spec.
  assert (E : N.testbit setflags_mnop i = true).
  { assert (C : i = 3 \/ i = 4 \/ i = 5) by lia. destruct C as [->|[->| ->]]; reflexivity. }
  rewrite E, orb_true_r. reflexivity.
Qed.

(* the six counters: the three volume counters are ALWAYS those of the report (any N, no truncation);
   a packet counter is the report's iff its flag bit is set *)
Theorem mk_usage_ie_volume inf q r a b c d e f :
  ui_volum inf = true -> r_cnt r = [a; b; c; d; e; f] ->
  ur_vol (mk_usage_ie inf q r) =
    Some (vol_flags inf r mod 256,
          [a; b; c; if N.testbit (vol_flags inf r) 3 then d else 0;
                    if N.testbit (vol_flags inf r) 4 then e else 0;
                    if N.testbit (vol_flags inf r) 5 then f else 0]).
Proof.
  intros Hv Hc. unfold mk_usage_ie. cbn [ur_vol]. rewrite Hv, Hc. fold (vol_flags inf r).
  cbn [combine map fst snd].
  rewrite (vol_flags_low inf r 0), (vol_flags_low inf r 1), (vol_flags_low inf r 2) by lia. reflexivity.
Qed.

(* the driver reports with flags 0 (gtp5g): packet counters are passed on iff MNOP was requested *)
Theorem mk_usage_ie_volume_plain inf q r a b c d e f :
  ui_volum inf = true -> r_cnt r = [a; b; c; d; e; f] -> r_vflags r = 0 ->
  ur_vol (mk_usage_ie inf q r) =
    if ui_mnop inf then Some (63, [a; b; c; d; e; f]) else Some (7, [a; b; c; 0; 0; 0]).
Proof.
  intros Hv Hc Hf. rewrite (mk_usage_ie_volume inf q r a b c d e f Hv Hc).
  unfold vol_flags. rewrite Hf. destruct (ui_mnop inf); reflexivity.
Qed.

Theorem mk_usage_ie_volume_mnop inf q r a b c d e f :
  ui_volum inf = true -> r_cnt r = [a; b; c; d; e; f] -> ui_mnop inf = true ->
  exists fl, ur_vol (mk_usage_ie inf q r) = Some (fl, [a; b; c; d; e; f]).
Proof.
  intros Hv Hc Hm. rewrite (mk_usage_ie_volume inf q r a b c d e f Hv Hc).
  rewrite (vol_flags_mnop inf r 3), (vol_flags_mnop inf r 4), (vol_flags_mnop inf r 5) by (try exact Hm; lia).
  eexists. reflexivity.
Qed.

(* trigger bits below 24 survive the three-octet encoding *)
Lemma mk_usage_ie_trig_bit inf q r k : k < 24 -> N.testbit (ur_trig (mk_usage_ie inf q r)) k = N.testbit (r_trig r) k.
Proof.
  intros Hk. cbn [mk_usage_ie ur_trig]. replace 16777216 with (2 ^ 24) by reflexivity.
  apply N.mod_pow2_bits_low. exact Hk.
Qed.

(* ---------------------------------------------------------------- C12 (c): the cause bits *)

Lemma or_trig_flag k r : flag_of (2 ^ k) (r_trig (or_trig (2 ^ k) r)) = true.
Proof.
  rewrite flag_pow2_testbit. cbn [or_trig r_trig]. rewrite N.lor_spec, N.pow2_bits_true. apply orb_true_r.
Qed.

Lemma or_trig_termr r : flag_of USAR_TRIG_TERMR (r_trig (or_trig USAR_TRIG_TERMR r)) = true.
Proof. exact (or_trig_flag 11 r). Qed.

Lemma or_trig_immer r : flag_of USAR_TRIG_IMMER (r_trig (or_trig USAR_TRIG_IMMER r)) = true.
Proof. exact (or_trig_flag 7 r). Qed.

(* or-ing keeps every other field and every bit already set *)
Lemma or_trig_fields f r :
  r_urr (or_trig f r) = r_urr r /\ r_vflags (or_trig f r) = r_vflags r /\ r_cnt (or_trig f r) = r_cnt r /\
  r_dur (or_trig f r) = r_dur r /\ r_start (or_trig f r) = r_start r /\ r_end (or_trig f r) = r_end r /\
  forall k, N.testbit (r_trig (or_trig f r)) k = N.testbit (r_trig r) k || N.testbit f k.
Proof. repeat split. intros k. cbn [or_trig r_trig]. apply N.lor_spec. Qed.

(* the TERMR bit reaches the peer: it is inside the three encoded octets *)
Lemma termr_in_ie inf q r : flag_of USAR_TRIG_TERMR (ur_trig (mk_usage_ie inf q (or_trig USAR_TRIG_TERMR r))) = true.
Proof.
  replace USAR_TRIG_TERMR with (2 ^ 11) by reflexivity. rewrite flag_pow2_testbit.
  rewrite mk_usage_ie_trig_bit by lia. rewrite <- flag_pow2_testbit. apply or_trig_flag.
Qed.

(* ---------------------------------------------------------------- C11 (d): Create URR restarts the counter *)

Lemma drv_s e c op k id : c_s (fst (drv e c op k id)) = c_s c.
Proof. destruct (drv e c op k id) as [c' ok] eqn:E. apply drv_spec in E. cbn [fst]. apply E. Qed.

(* the session context create_urr leaves: the bookkeeping after the driver call, and whether the call succeeded *)
Lemma create_urr_unfold e o c i :
  uo_id o = Some i ->
  let old := held_urr (c_s c) i in
  let info := mkUrr false (match old with Some u => ui_seqn u | None => 0 end)
                    (bit 0 (uo_method o)) (bit 1 (uo_method o)) (bit 2 (uo_method o))
                    (bit 4 (uo_info o)) (pdr_refs (c_s c) i mod 65536) in
  let c1 := upd_s c (fun s => set_urrs (aset i info (s_urrs s)) s) in
  s_urrs (c_s (create_urr e o c)) =
    if snd (drv e c1 DCreate KURR i) then aset i info (s_urrs (c_s c))
    else match old with Some u => aset i u (aset i info (s_urrs (c_s c))) | None => aset i info (s_urrs (c_s c)) end.
Proof.
  intros Hi. cbn zeta. unfold create_urr. rewrite Hi.
  match goal with |- context [drv e ?cx DCreate KURR i] => set (c1 := cx) end.
  pose proof (drv_s e c1 DCreate KURR i) as Hs. destruct (drv e c1 DCreate KURR i) as [c2 ok]. cbn [fst snd] in *.
  destruct ok; [rewrite Hs; reflexivity|].
  destruct (held_urr (c_s c) i); cbn [upd_s c_s set_urrs s_urrs]; rewrite Hs; reflexivity.
Qed.

Lemma aset_restore {V} i (u v : V) l : alookup i l = Some u -> aset i u (aset i v l) = l.
Proof.
  induction l as [|[k x] r IH]; cbn [alookup aset]; [discriminate|].
  destruct (N.eqb i k) eqn:E.
  - intros H. inversion H; subst. apply N.eqb_eq in E. subst. cbn [aset]. rewrite N.eqb_refl. reflexivity.
  - intros H. cbn [aset]. rewrite E. rewrite IH by exact H. reflexivity.
Qed.

(* a Create URR for an id the session does not hold (never created, or removed): the counter starts at 0 *)
Theorem create_urr_restarts e o c i :
  uo_id o = Some i -> held_urr (c_s c) i = None ->
  exists inf, alookup i (s_urrs (c_s (create_urr e o c))) = Some inf /\ ui_seqn inf = 0 /\ ui_removed inf = false /\
              ui_durat inf = bit 0 (uo_method o) /\ ui_volum inf = bit 1 (uo_method o) /\ ui_mnop inf = bit 4 (uo_info o).
Proof.
  intros Hi Hh. rewrite (create_urr_unfold e o c i Hi). cbn zeta. rewrite Hh.
  destruct (snd _); eexists; (split; [apply alookup_aset_same|]); cbn; repeat split.
Qed.

(* a Create URR for an id the session still holds: the running URR keeps its counter; if the data plane rejects the
   duplicate, the URR bookkeeping is exactly what it was *)
Theorem create_urr_held_keeps_counter e o c i u :
  uo_id o = Some i -> held_urr (c_s c) i = Some u ->
  exists inf, alookup i (s_urrs (c_s (create_urr e o c))) = Some inf /\ ui_seqn inf = ui_seqn u /\ ui_removed inf = false.
Proof.
  intros Hi Hh. rewrite (create_urr_unfold e o c i Hi). cbn zeta. rewrite Hh.
  destruct (held_urr_spec _ _ _ Hh) as [_ Hr].
  destruct (snd _); eexists; (split; [apply alookup_aset_same|]); cbn; auto.
Qed.

Theorem create_urr_held_rejected_unchanged e o c i u :
  uo_id o = Some i -> held_urr (c_s c) i = Some u ->
  In (s_lid (c_s c), KURR, i) (c_dp c) ->           (* the data plane has the URR: NLM_F_EXCL makes it reject the create *)
  s_urrs (c_s (create_urr e o c)) = s_urrs (c_s c).
Proof.
  intros Hi Hh Hin. rewrite (create_urr_unfold e o c i Hi). cbn zeta. rewrite Hh.
  destruct (held_urr_spec _ _ _ Hh) as [Hl _].
  match goal with |- context [drv e ?cx DCreate KURR i] => set (c1 := cx) end.
  assert (Hok : snd (drv e c1 DCreate KURR i) = false).
  { unfold drv. cbn [c1 upd_s c_s c_dp set_urrs s_lid]. unfold dp_call.
    assert (Hp : dp_has (c_dp c) (s_lid (c_s c), KURR, i) = true) by (apply dp_has_In; exact Hin).
    change (s_lid (set_urrs _ (c_s c))) with (s_lid (c_s c)). rewrite Hp. cbn [negb]. rewrite andb_false_r.
    destruct (fails e DCreate KURR i); reflexivity. }
  rewrite Hok. apply aset_restore. exact Hl.
Qed.

(* ---------------------------------------------------------------- C11 (e), C13 (c): what the per-session operations keep *)

(* [cr] = the URR ids a Create URR of the message names.  Every URR of the later session either existed before
   with the same UR-SEQN counter, or was (re)created by a Create URR (counter 0); the packet queues are
   untouched. *)
Definition skept (cr : N -> Prop) (s s' : sess) : Prop :=
  s_q s' = s_q s /\
  forall u inf', alookup u (s_urrs s') = Some inf' ->
    (exists inf, alookup u (s_urrs s) = Some inf /\ ui_seqn inf' = ui_seqn inf) \/ (cr u /\ ui_seqn inf' = 0).

Definition ukept (cr : N -> Prop) (c c' : sctx) : Prop := skept cr (c_s c) (c_s c').

Lemma skept_refl cr s : skept cr s s.
Proof. split; [reflexivity|]. intros u inf' H. left. exists inf'. auto. Qed.

Lemma skept_trans cr a b c : skept cr a b -> skept cr b c -> skept cr a c.
Proof.
  intros [Q1 K1] [Q2 K2]. split; [congruence|]. intros u inf2 H2.
  destruct (K2 _ _ H2) as [[inf1 [H1 E1]]|Hc]; [|right; exact Hc].
  destruct (K1 _ _ H1) as [[inf0 [H0 E0]]|[Hc Hz]].
  - left. exists inf0. split; [exact H0 | congruence].
  - right. split; [exact Hc | congruence].
Qed.

Lemma skept_mono (cr cr' : N -> Prop) s s' : (forall u, cr u -> cr' u) -> skept cr s s' -> skept cr' s s'.
Proof.
  intros Hm [Q K]. split; [exact Q|]. intros u inf' H. destruct (K _ _ H) as [L|[Hc Hz]]; [left; exact L | right; auto].
Qed.

Lemma skept_same cr s s' : s_q s' = s_q s -> s_urrs s' = s_urrs s -> skept cr s s'.
Proof. intros Q U. split; [exact Q|]. rewrite U. intros u inf' H. left. exists inf'. auto. Qed.

(* replacing the entry of an existing URR by one with the same counter *)
Lemma skept_aset cr s u inf0 inf :
  alookup u (s_urrs s) = Some inf0 -> ui_seqn inf = ui_seqn inf0 -> skept cr s (set_urrs (aset u inf (s_urrs s)) s).
Proof.
  intros H0 E. split; [reflexivity|]. cbn [set_urrs s_urrs]. intros u' inf' H. left.
  destruct (N.eq_dec u' u) as [->|Hne].
  - rewrite alookup_aset_same in H. inversion H; subst. exists inf0. auto.
  - rewrite alookup_aset_other in H by exact Hne. exists inf'. auto.
Qed.

Definition no_create : N -> Prop := fun _ => False.

Lemma ukept_refl cr c : ukept cr c c. Proof. apply skept_refl. Qed.
Lemma ukept_trans cr a b c : ukept cr a b -> ukept cr b c -> ukept cr a c. Proof. apply skept_trans. Qed.

Lemma ukept_drv cr e c op k id : ukept cr c (fst (drv e c op k id)).
Proof. unfold ukept. rewrite drv_s. apply skept_refl. Qed.

Lemma create_simple_kept cr e k id c : ukept cr c (create_simple e k id c).
Proof.
  unfold create_simple. destruct id as [i|]; [|apply ukept_refl]. unfold ukept. rewrite drv_s.
  cbn [upd_s c_s]. apply skept_same; destruct k; reflexivity.
Qed.

Lemma update_simple_kept cr e k id c : ukept cr c (update_simple e k id c).
Proof.
  unfold update_simple. destruct id as [i|]; [|apply ukept_refl].
  destruct (memN i (recorded (c_s c) k)); [apply ukept_drv | apply ukept_refl].
Qed.

Lemma remove_simple_kept cr e k id c : ukept cr c (remove_simple e k id c).
Proof.
  unfold remove_simple. destruct id as [i|]; [|apply ukept_refl].
  destruct (memN i (recorded (c_s c) k)); [|apply ukept_refl].
  pose proof (drv_s e c DRemove k i) as Hs. destruct (drv e c DRemove k i) as [c1 ok]. cbn [fst] in Hs.
  destruct ok; unfold ukept; [|rewrite Hs; apply skept_refl].
  cbn [upd_s c_s]. rewrite Hs. apply skept_same; destruct k; reflexivity.
Qed.

Lemma create_urr_kept e o c : ukept (fun u => uo_id o = Some u) c (create_urr e o c).
Proof.
  destruct (uo_id o) as [i|] eqn:Hi; [|unfold create_urr; rewrite Hi; apply ukept_refl].
  unfold ukept, skept. split.
  - unfold create_urr. rewrite Hi.
    match goal with |- context [drv e ?cx DCreate KURR i] => pose proof (drv_s e cx DCreate KURR i) as Hs;
      destruct (drv e cx DCreate KURR i) as [c2 ok] end. cbn [fst] in Hs.
    destruct ok; [rewrite Hs; reflexivity|]. destruct (held_urr (c_s c) i); cbn [upd_s c_s set_urrs s_q]; rewrite Hs; reflexivity.
  - rewrite (create_urr_unfold e o c i Hi). cbn zeta. intros u inf' H.
    assert (Hcases : forall l0, (l0 = aset i (mkUrr false (match held_urr (c_s c) i with Some x => ui_seqn x | None => 0 end)
                                  (bit 0 (uo_method o)) (bit 1 (uo_method o)) (bit 2 (uo_method o)) (bit 4 (uo_info o))
                                  (pdr_refs (c_s c) i mod 65536)) (s_urrs (c_s c))
                          \/ exists x, held_urr (c_s c) i = Some x /\ l0 = s_urrs (c_s c)) ->
             alookup u l0 = Some inf' ->
             (exists inf, alookup u (s_urrs (c_s c)) = Some inf /\ ui_seqn inf' = ui_seqn inf) \/ (Some i = Some u /\ ui_seqn inf' = 0)).
    { intros l0 [->|[x [Hx ->]]] Hl.
      - destruct (N.eq_dec u i) as [->|Hne].
        + rewrite alookup_aset_same in Hl. inversion Hl; subst. cbn [ui_seqn].
          destruct (held_urr (c_s c) i) as [x|] eqn:Hh.
          * left. destruct (held_urr_spec _ _ _ Hh) as [Hx _]. exists x. auto.
          * right. auto.
        + rewrite alookup_aset_other in Hl by exact Hne. left. exists inf'. auto.
      - left. exists inf'. auto. }
    destruct (snd _).
    + apply (Hcases _ (or_introl eq_refl) H).
    + destruct (held_urr (c_s c) i) as [x|] eqn:Hh.
      * rewrite aset_restore in H by (apply (held_urr_spec _ _ _ Hh)). left. exists inf'. auto.
      * apply (Hcases _ (or_introl eq_refl) H).
Qed.

Lemma update_urr_kept cr e o c : ukept cr c (fst (update_urr e o c)).
Proof.
  unfold update_urr. destruct (uo_id o) as [i|]; [|apply ukept_refl].
  destruct (alookup i (s_urrs (c_s c))) as [inf|] eqn:El; [|apply ukept_refl].
  match goal with |- context [drv e ?cx DUpdate KURR i] =>
    pose proof (drv_s e cx DUpdate KURR i) as Hs; destruct (drv e cx DUpdate KURR i) as [c2 ok] end.
  cbn [fst] in *. unfold ukept. rewrite Hs. cbn [upd_s c_s].
  apply (skept_aset cr _ _ inf); [exact El|]. destruct (uo_info o), (uo_method o); reflexivity.
Qed.

Lemma forget_urr_kept cr ok i rs c : ukept cr c (forget_urr ok i rs c).
Proof.
  unfold ukept. destruct (forget_urr_s ok i rs c) as [E|E]; rewrite E; [apply skept_refl|].
  split; [reflexivity|]. intros u inf' H. cbn [set_urrs s_urrs] in H. left.
  destruct (N.eq_dec u i) as [->|Hne]; [rewrite alookup_adel_same in H; discriminate|].
  rewrite alookup_adel_other in H by exact Hne. exists inf'. auto.
Qed.

Lemma remove_urr_kept cr e id c : ukept cr c (fst (remove_urr e id c)).
Proof.
  unfold remove_urr. destruct id as [i|]; [|apply ukept_refl].
  destruct (alookup i (s_urrs (c_s c))) as [inf|] eqn:El; [|apply ukept_refl].
  match goal with |- context [drv e ?cx DRemove KURR i] =>
    pose proof (drv_s e cx DRemove KURR i) as Hs; destruct (drv e cx DRemove KURR i) as [c2 ok] end.
  cbn [fst] in *. eapply ukept_trans; [|apply forget_urr_kept]. unfold ukept. rewrite Hs. cbn [upd_s c_s].
  apply (skept_aset cr _ _ inf); [exact El | reflexivity].
Qed.

Lemma query_urr_kept cr e id c : ukept cr c (fst (query_urr e id c)).
Proof.
  unfold query_urr. destruct id as [i|]; [|apply ukept_refl].
  destruct (alookup i (s_urrs (c_s c))) as [inf|]; [|apply ukept_refl].
  pose proof (drv_s e c DQuery KURR i) as Hs. destruct (drv e c DQuery KURR i) as [c1 ok]. cbn [fst] in *.
  unfold ukept. rewrite Hs. apply skept_refl.
Qed.

Lemma diassociate_kept cr e u c : ukept cr c (fst (diassociate e u c)).
Proof.
  unfold diassociate. destruct (alookup u (s_urrs (c_s c))) as [inf|] eqn:El; [|apply ukept_refl].
  destruct (0 <? ui_ref inf); [|apply ukept_refl].
  match goal with |- context [if ?b then _ else _] => destruct b end.
  - match goal with |- context [drv e ?cx DQuery KURR u] =>
      pose proof (drv_s e cx DQuery KURR u) as Hs; destruct (drv e cx DQuery KURR u) as [c2 ok] end.
    cbn [fst] in *. unfold ukept. rewrite Hs. cbn [upd_s c_s]. apply (skept_aset cr _ _ inf); [exact El | reflexivity].
  - cbn [fst]. unfold ukept. cbn [upd_s c_s]. apply (skept_aset cr _ _ inf); [exact El | reflexivity].
Qed.

Lemma diassociate_all_kept cr e us c : ukept cr c (fst (diassociate_all e us c)).
Proof.
  revert c. induction us as [|u us IH]; intros c; cbn [diassociate_all]; [apply ukept_refl|].
  pose proof (diassociate_kept cr e u c) as G1. destruct (diassociate e u c) as [c1 r1]. cbn [fst] in G1.
  pose proof (IH c1) as G2. destruct (diassociate_all e us c1) as [c2 r2]. cbn [fst] in *.
  eapply ukept_trans; eauto.
Qed.

Lemma incr_ref_kept cr u s : skept cr s (set_urrs (incr_ref u (s_urrs s)) s).
Proof.
  unfold incr_ref. destruct (alookup u (s_urrs s)) as [inf|] eqn:E.
  - apply (skept_aset cr _ _ inf); [exact E | reflexivity].
  - apply skept_same; reflexivity.
Qed.

Lemma incr_refs_kept cr us : forall s, skept cr s (set_urrs (fold_left (fun l u => incr_ref u l) us (s_urrs s)) s).
Proof.
  induction us as [|u us IH]; intros s; cbn [fold_left]; [apply skept_same; reflexivity|].
  eapply skept_trans; [apply (incr_ref_kept cr u s)|].
  specialize (IH (set_urrs (incr_ref u (s_urrs s)) s)). cbn [set_urrs s_urrs] in IH.
  destruct IH as [Q K]. split; [exact Q | exact K].
Qed.

Lemma decr_ref_kept cr u s : skept cr s (set_urrs (decr_ref u (s_urrs s)) s).
Proof.
  unfold decr_ref. destruct (alookup u (s_urrs s)) as [inf|] eqn:E; [|apply skept_same; reflexivity].
  destruct (0 <? ui_ref inf); [|apply skept_same; reflexivity].
  apply (skept_aset cr _ _ inf); [exact E | reflexivity].
Qed.

Lemma decr_refs_kept cr us : forall s, skept cr s (set_urrs (fold_left (fun l u => decr_ref u l) us (s_urrs s)) s).
Proof.
  induction us as [|u us IH]; intros s; cbn [fold_left]; [apply skept_same; reflexivity|].
  eapply skept_trans; [apply (decr_ref_kept cr u s)|].
  specialize (IH (set_urrs (decr_ref u (s_urrs s)) s)). cbn [set_urrs s_urrs] in IH.
  destruct IH as [Q K]. split; [exact Q | exact K].
Qed.

Lemma create_pdr_kept cr e o c : ukept cr c (create_pdr e o c).
Proof.
  unfold create_pdr. destruct (alookup (pdr_id o) (s_pdrs (c_s c))) as [old|].
  - unfold create_pdr_held.
    match goal with |- context [drv e ?cx DCreate KPDR (pdr_id o)] => pose proof (drv_s e cx DCreate KPDR (pdr_id o)) as Hs;
      destruct (drv e cx DCreate KPDR (pdr_id o)) as [c3 ok] end. cbn [fst] in Hs.
    destruct ok.
    + unfold ukept. rewrite Hs. cbn [upd_s c_s].
      eapply skept_trans; [apply (incr_refs_kept cr (filter (fun u => negb (memN u old)) (dedup (po_urrs o))))|].
      eapply skept_trans; [apply (decr_refs_kept cr (filter (fun u => negb (memN u (dedup (po_urrs o)))) old))|].
      apply skept_same; reflexivity.
    + unfold ukept. cbn [upd_s c_s]. apply skept_same; cbn [set_pdrs set_urrs s_q s_urrs]; [rewrite Hs; reflexivity | reflexivity].
  - unfold create_pdr_new, ukept. rewrite drv_s. cbn [upd_s c_s].
    eapply skept_trans; [apply (incr_refs_kept cr (dedup (po_urrs o)))|]. apply skept_same; reflexivity.
Qed.

Lemma update_pdr_kept cr e o c : ukept cr c (fst (update_pdr e o c)).
Proof.
  unfold update_pdr. destruct (alookup (pdr_id o) (s_pdrs (c_s c))) as [old|]; [|apply ukept_refl].
  pose proof (ukept_drv cr e c DUpdate KPDR (pdr_id o)) as G1.
  destruct (drv e c DUpdate KPDR (pdr_id o)) as [c1 ok]. cbn [fst] in G1.
  destruct (negb ok); [exact G1|]. destruct (negb (po_has_urr_ie o)); [exact G1|].
  match goal with |- context [diassociate_all e ?d ?cx] =>
    pose proof (diassociate_all_kept cr e d cx) as G3; destruct (diassociate_all e d cx) as [c3 rs] end.
  cbn [fst] in *. eapply ukept_trans; [exact G1|].
  eapply ukept_trans; [|eapply ukept_trans; [exact G3|]].
  - unfold ukept. cbn [upd_s c_s]. apply incr_refs_kept.
  - unfold ukept. cbn [upd_s c_s]. apply skept_same; reflexivity.
Qed.

Lemma remove_pdr_kept cr e id c : ukept cr c (fst (remove_pdr e id c)).
Proof.
  unfold remove_pdr. destruct id as [i|]; [|apply ukept_refl].
  destruct (alookup i (s_pdrs (c_s c))) as [rel|]; [|apply ukept_refl].
  pose proof (ukept_drv cr e c DRemove KPDR i) as G1.
  destruct (drv e c DRemove KPDR i) as [c1 ok]. cbn [fst] in G1.
  destruct (negb ok); [exact G1|].
  pose proof (diassociate_all_kept cr e rel c1) as G2. destruct (diassociate_all e rel c1) as [c2 rs]. cbn [fst] in *.
  eapply ukept_trans; [exact G1|]. eapply ukept_trans; [exact G2|].
  unfold ukept. cbn [upd_s c_s]. apply skept_same; reflexivity.
Qed.

(* the URR ids named by the Create URR IEs of a message *)
Definition created_by (o : ops) (u : N) : Prop := exists x, In x (cURR o) /\ uo_id x = Some u.

(* C11 (e) + C13 (c): for ANY category order *)
Theorem run_categories_kept e o names c r :
  run_categories e o names c = Some r -> ukept (created_by o) c (fst r).
Proof.
  apply (run_categories_rel (ukept (created_by o)) (ukept_refl _) (ukept_trans _) e o); intros.
  - apply create_simple_kept.
  - apply update_simple_kept.
  - apply remove_simple_kept.
  - eapply skept_mono; [|apply create_urr_kept]. intros u Hu. exists x. auto.
  - apply update_urr_kept.
  - apply remove_urr_kept.
  - apply query_urr_kept.
  - apply create_pdr_kept.
  - apply update_pdr_kept.
  - apply remove_pdr_kept.
Qed.

(* a message without Create URR never changes a counter *)
Corollary run_categories_seqn_kept e o names c r u inf' :
  run_categories e o names c = Some r -> cURR o = [] ->
  alookup u (s_urrs (c_s (fst r))) = Some inf' ->
  exists inf, alookup u (s_urrs (c_s c)) = Some inf /\ ui_seqn inf' = ui_seqn inf.
Proof.
  intros H Hc Hu. destruct (run_categories_kept _ _ _ _ _ H) as [_ K].
  destruct (K _ _ Hu) as [L|[[x [Hx _]] _]]; [exact L|]. rewrite Hc in Hx. destruct Hx.
Qed.

Corollary run_categories_q_kept e o names c r :
  run_categories e o names c = Some r -> s_q (c_s (fst r)) = s_q (c_s c).
Proof. intros H. exact (proj1 (run_categories_kept _ _ _ _ _ H)). Qed.

(* Sess.Close: counters kept (it only marks URRs removed), and the queues are dropped *)
Theorem sess_close_kept e c c' rs :
  sess_close e c = Some (c', rs) ->
  s_q (c_s c') = [] /\
  forall u inf', alookup u (s_urrs (c_s c')) = Some inf' ->
    exists inf, alookup u (s_urrs (c_s c)) = Some inf /\ ui_seqn inf' = ui_seqn inf.
Proof.
  unfold sess_close. destruct (close_categories e close_order c) as [[c1 r1]|] eqn:E; [|discriminate].
  assert (K : ukept no_create c c1).
  { refine (close_categories_rel (ukept no_create) (ukept_refl _) (ukept_trans _) e _ _ _ close_order c (c1, r1) E);
      intros; [apply remove_simple_kept | apply remove_urr_kept | apply remove_pdr_kept]. }
  intros H. inversion H; subst. cbn [upd_s c_s set_q s_q s_urrs]. split; [reflexivity|].
  intros u inf' Hu. destruct K as [_ K]. destruct (K _ _ Hu) as [L|[[] _]]. exact L.
Qed.

(* the bound on the counters is kept as well *)
Lemma skept_bounded cr s s' : skept cr s s' -> seq_bounded (s_urrs s) -> seq_bounded (s_urrs s').
Proof.
  intros [_ K] Hb u inf' Hu. destruct (K _ _ Hu) as [[inf [H0 E]]|[_ Hz]].
  - rewrite E. eapply Hb; eauto.
  - rewrite Hz. reflexivity.
Qed.

Theorem run_categories_counters_kept e o names c r :
  run_categories e o names c = Some r ->
  forall u inf', alookup u (s_urrs (c_s (fst r))) = Some inf' ->
    (exists inf, alookup u (s_urrs (c_s c)) = Some inf /\ ui_seqn inf' = ui_seqn inf) \/
    (created_by o u /\ ui_seqn inf' = 0).
Proof. intros H. exact (proj2 (run_categories_kept e o names c r H)). Qed.

Lemma usage_ie_defs (inf : urrinfo) (r : rpt) (t : N) :
  no_times t = (flag_of USAR_TRIG_START t || flag_of USAR_TRIG_STOPT t || flag_of USAR_TRIG_MACAR t) /\
  vol_flags inf r = N.lor (N.lor (r_vflags r) 7) (if ui_mnop inf then 56 else 0).
Proof. split; reflexivity. Qed.
