(* Usage-report emission (C10, C11, C12d): the UR-SEQN discipline of [emit], the contents of a usage-report IE,
   and which per-session operations may touch a URR's counter or the packet queues. *)
From Coq Require Import String List NArith ZArith Bool Lia.
From GoUpf Require Import Bytes FlagsGen ConstsGen HandlerGen Pfcp PfcpBase PfcpSess PfcpCat.
Import ListNotations.
Local Open Scope N_scope.

Definition M32 : N := 4294967296.

Lemma M32_nz : M32 <> 0. Proof. discriminate. Qed.

(* the IEs / UR-SEQN values / reports that belong to URR [u], in order *)
Definition ies_for (u : N) (ies : list usage_ie) : list usage_ie := filter (fun ie => N.eqb (ur_urr ie) u) ies.
Definition seqs_for (u : N) (ies : list usage_ie) : list N := map ur_seqn (ies_for u ies).
Definition reports_for (u : N) (rs : list rpt) : list rpt := filter (fun r => N.eqb (r_urr r) u) rs.

Definition with_seqn (inf : urrinfo) (q : N) : urrinfo :=
  mkUrr (ui_removed inf) q (ui_durat inf) (ui_volum inf) (ui_event inf) (ui_mnop inf) (ui_ref inf).

Lemma with_seqn_same inf : with_seqn inf (ui_seqn inf) = inf.
Proof. destruct inf; reflexivity. Qed.

(* n consecutive values of a uint32 counter starting at s, and the counter after n increments *)
Fixpoint seq_from (s : N) (n : nat) : list N :=
  match n with O => [] | S k => s :: seq_from ((s + 1) mod M32) k end.
Fixpoint seq_adv (s : N) (n : nat) : N :=
  match n with O => s | S k => seq_adv ((s + 1) mod M32) k end.

Lemma seq_from_length s n : length (seq_from s n) = n.
Proof. revert s. induction n as [|n IH]; intros s; cbn [seq_from length]; [reflexivity|]. rewrite IH. reflexivity. Qed.

Lemma seq_adv_closed s n : s < M32 -> seq_adv s n = (s + N.of_nat n) mod M32.
Proof.
  revert s. induction n as [|n IH]; intros s Hs; cbn [seq_adv].
  - rewrite N.add_0_r, N.mod_small by exact Hs. reflexivity.
  - rewrite IH by (apply N.mod_upper_bound; exact M32_nz).
    rewrite N.add_mod_idemp_l by exact M32_nz. f_equal. lia.
Qed.

Lemma nth_seq_from s n k : s < M32 -> (k < n)%nat -> nth k (seq_from s n) 0 = (s + N.of_nat k) mod M32.
Proof.
  revert s k. induction n as [|n IH]; intros s k Hs Hk; [lia|].
  destruct k as [|k]; cbn [seq_from nth].
  - rewrite N.add_0_r, N.mod_small by exact Hs. reflexivity.
  - rewrite IH by (try (apply N.mod_upper_bound; exact M32_nz); lia).
    rewrite N.add_mod_idemp_l by exact M32_nz. f_equal. lia.
Qed.

(* ---------------------------------------------------------------- one step of the emission loop *)

Definition emit_next (d : bool) (inf : urrinfo) (k : N) (urrs : list (N * urrinfo)) : list (N * urrinfo) :=
  if d && ui_removed inf then adel k urrs else aset k (with_seqn inf ((ui_seqn inf + 1) mod M32)) urrs.

Lemma emit_cons_some extra d urrs r rest inf :
  alookup (r_urr r) urrs = Some inf ->
  emit extra d urrs (r :: rest) =
  (fst (emit extra d (emit_next d inf (r_urr r) urrs) rest),
   mk_usage_ie inf (ui_seqn inf) (or_trig extra r) :: snd (emit extra d (emit_next d inf (r_urr r) urrs) rest)).
Proof.
  intros H. cbn [emit]. rewrite H. unfold emit_next, with_seqn, M32.
  destruct (emit extra d _ rest) as [u2 ies]. reflexivity.
Qed.

Lemma emit_cons_none extra d urrs r rest :
  alookup (r_urr r) urrs = None -> emit extra d urrs (r :: rest) = emit extra d urrs rest.
Proof. intros H. cbn [emit]. rewrite H. reflexivity. Qed.

Lemma emit_next_other d inf k urrs u : u <> k -> alookup u (emit_next d inf k urrs) = alookup u urrs.
Proof.
  intros Hne. unfold emit_next. destruct (d && ui_removed inf).
  - apply alookup_adel_other. exact Hne.
  - apply alookup_aset_other. exact Hne.
Qed.

Lemma ies_for_cons_same u ie ies : ur_urr ie = u -> ies_for u (ie :: ies) = ie :: ies_for u ies.
Proof. intros <-. unfold ies_for. cbn [filter]. rewrite N.eqb_refl. reflexivity. Qed.

Lemma ies_for_cons_other u ie ies : ur_urr ie <> u -> ies_for u (ie :: ies) = ies_for u ies.
Proof. intros H. unfold ies_for. cbn [filter]. destruct (N.eqb_spec (ur_urr ie) u); [contradiction | reflexivity]. Qed.

(* a URR that is not (or no longer) known produces no IE and stays unknown *)
Lemma emit_absent extra d rs : forall urrs u,
  alookup u urrs = None ->
  ies_for u (snd (emit extra d urrs rs)) = [] /\ alookup u (fst (emit extra d urrs rs)) = None.
Proof.
  induction rs as [|r rest IH]; intros urrs u Hu; [cbn; auto|].
  destruct (alookup (r_urr r) urrs) as [inf|] eqn:E.
  - rewrite (emit_cons_some _ _ _ _ _ _ E). cbn [fst snd].
    assert (Hne : u <> r_urr r) by (intros ->; congruence).
    rewrite ies_for_cons_other by (cbn; congruence).
    apply IH. rewrite emit_next_other by exact Hne. exact Hu.
  - rewrite (emit_cons_none _ _ _ _ _ E). apply IH. exact Hu.
Qed.

(* number of IEs a URR with bookkeeping [inf] gets out of n reports *)
Definition emitted_n (d : bool) (inf : urrinfo) (n : nat) : nat :=
  if d && ui_removed inf then Nat.min 1 n else n.

(* the main lemma: UR-SEQN values of one URR in one emission, and its bookkeeping afterwards *)
Lemma emit_known extra d rs : forall urrs u inf,
  alookup u urrs = Some inf ->
  seqs_for u (snd (emit extra d urrs rs)) =
    seq_from (ui_seqn inf) (emitted_n d inf (length (reports_for u rs))) /\
  alookup u (fst (emit extra d urrs rs)) =
    if (d && ui_removed inf) && negb (Nat.eqb (length (reports_for u rs)) 0) then None
    else Some (with_seqn inf (seq_adv (ui_seqn inf) (emitted_n d inf (length (reports_for u rs))))).
Proof.
  induction rs as [|r rest IH]; intros urrs u inf Hu.
  - unfold emitted_n. cbn [emit fst snd reports_for filter length Nat.eqb negb seqs_for ies_for map].
    rewrite andb_false_r. destruct (d && ui_removed inf); cbn [Nat.min seq_from seq_adv];
      rewrite with_seqn_same; auto.
  - destruct (N.eqb_spec (r_urr r) u) as [Heq|Hne].
    + subst u. rewrite (emit_cons_some _ _ _ _ _ _ Hu). cbn [fst snd].
      unfold reports_for at 1 2 3. cbn [filter]. rewrite N.eqb_refl. cbn [length Nat.eqb negb].
      fold (reports_for (r_urr r) rest). rewrite andb_true_r.
      unfold seqs_for. rewrite ies_for_cons_same by reflexivity. cbn [map].
      unfold emitted_n, emit_next. destruct (d && ui_removed inf) eqn:G.
      * destruct (emit_absent extra d rest (adel (r_urr r) urrs) (r_urr r) (alookup_adel_same _ _)) as [A B].
        rewrite A, B. cbn [map]. destruct (length (reports_for (r_urr r) rest)); cbn; auto.
      * destruct (IH (aset (r_urr r) (with_seqn inf ((ui_seqn inf + 1) mod M32)) urrs) (r_urr r)
                     (with_seqn inf ((ui_seqn inf + 1) mod M32)) (alookup_aset_same _ _ _)) as [A B].
        unfold emitted_n in A, B. cbn [with_seqn ui_removed ui_seqn] in A, B. rewrite G in A, B.
        cbn [andb] in B. fold (seqs_for (r_urr r)
          (snd (emit extra d (aset (r_urr r) (with_seqn inf ((ui_seqn inf + 1) mod M32)) urrs) rest))).
        unfold with_seqn in *. cbn [ui_removed ui_seqn ui_durat ui_volum ui_event ui_mnop ui_ref] in *.
        rewrite A, B. cbn [seq_from seq_adv]. auto.
    + assert (Hr : reports_for u (r :: rest) = reports_for u rest).
      { unfold reports_for. cbn [filter]. destruct (N.eqb_spec (r_urr r) u); [contradiction | reflexivity]. }
      rewrite Hr.
      destruct (alookup (r_urr r) urrs) as [inf0|] eqn:E.
      * rewrite (emit_cons_some _ _ _ _ _ _ E). cbn [fst snd].
        unfold seqs_for. rewrite ies_for_cons_other by (cbn; exact Hne).
        apply IH. rewrite emit_next_other by congruence. exact Hu.
      * rewrite (emit_cons_none _ _ _ _ _ E). apply IH. exact Hu.
Qed.

(* ---------------------------------------------------------------- C11 (a)-(c), C12 (d) *)

(* (a) the UR-SEQN values of URR u in one emission are ui_seqn, ui_seqn+1, ... (mod 2^32), in order, without gap
   or repeat; their number is the number of reports for u - or, for a removed URR in a response (the entry
   is deleted after its first report), at most one *)
Theorem emit_seqn_consecutive extra d urrs rs urrs' ies u inf :
  emit extra d urrs rs = (urrs', ies) -> alookup u urrs = Some inf -> ui_seqn inf < M32 ->
  length (seqs_for u ies) = emitted_n d inf (length (reports_for u rs)) /\
  forall k, (k < length (seqs_for u ies))%nat ->
            nth k (seqs_for u ies) 0 = (ui_seqn inf + N.of_nat k) mod M32.
Proof.
  intros He Hu Hb. destruct (emit_known extra d rs urrs u inf Hu) as [A _]. rewrite He in A. cbn [snd] in A.
  rewrite A, seq_from_length. split; [reflexivity|]. intros k Hk. apply nth_seq_from; assumption.
Qed.

(* (b) the counter afterwards: advanced by exactly the number of IEs emitted for u; nothing else changed *)
Theorem emit_counter_after extra d urrs rs urrs' ies u inf inf' :
  emit extra d urrs rs = (urrs', ies) -> alookup u urrs = Some inf -> ui_seqn inf < M32 ->
  alookup u urrs' = Some inf' ->
  inf' = with_seqn inf ((ui_seqn inf + N.of_nat (length (seqs_for u ies))) mod M32).
Proof.
  intros He Hu Hb Hu'. destruct (emit_known extra d rs urrs u inf Hu) as [A B]. rewrite He in A, B. cbn [fst snd] in A, B.
  rewrite Hu' in B. rewrite A, seq_from_length.
  destruct ((d && ui_removed inf) && negb (Nat.eqb (length (reports_for u rs)) 0)); [discriminate|].
  inversion B. rewrite seq_adv_closed by exact Hb. reflexivity.
Qed.

(* when exactly the entry disappears: a removed URR, in a response, with at least one report *)
Theorem emit_dropped_iff extra d urrs rs urrs' ies u inf :
  emit extra d urrs rs = (urrs', ies) -> alookup u urrs = Some inf ->
  (alookup u urrs' = None <-> d = true /\ ui_removed inf = true /\ reports_for u rs <> []).
Proof.
  intros He Hu. destruct (emit_known extra d rs urrs u inf Hu) as [_ B]. rewrite He in B. cbn [fst] in B. rewrite B.
  destruct d, (ui_removed inf), (reports_for u rs) as [|r0 l0]; cbn [andb negb length Nat.eqb];
    (split; [intros H | intros [H1 [H2 H3]]]); try discriminate; try congruence.
  repeat split. discriminate.
Qed.

(* (c) URRs without a report are untouched; reports for unknown URRs produce no IE *)
Theorem emit_independent extra d urrs rs urrs' ies u :
  emit extra d urrs rs = (urrs', ies) -> reports_for u rs = [] -> alookup u urrs' = alookup u urrs.
Proof.
  intros He Hr. destruct (alookup u urrs) as [inf|] eqn:Hu.
  - destruct (emit_known extra d rs urrs u inf Hu) as [_ B]. rewrite He in B. cbn [fst] in B.
    rewrite B, Hr. cbn [length Nat.eqb negb]. rewrite andb_false_r.
    unfold emitted_n. destruct (d && ui_removed inf); cbn [Nat.min seq_adv]; rewrite with_seqn_same; reflexivity.
  - destruct (emit_absent extra d rs urrs u Hu) as [_ B]. rewrite He in B. exact B.
Qed.

Theorem emit_unknown_no_ie extra d urrs rs urrs' ies u :
  emit extra d urrs rs = (urrs', ies) -> alookup u urrs = None -> ies_for u ies = [] /\ alookup u urrs' = None.
Proof. intros He Hu. pose proof (emit_absent extra d rs urrs u Hu) as H. rewrite He in H. exact H. Qed.

(* a URR without reports gets no IE *)
Theorem emit_no_report_no_ie extra d urrs rs urrs' ies u :
  emit extra d urrs rs = (urrs', ies) -> reports_for u rs = [] -> ies_for u ies = [].
Proof.
  intros He Hr. destruct (alookup u urrs) as [inf|] eqn:Hu.
  - destruct (emit_known extra d rs urrs u inf Hu) as [A _]. rewrite He in A. cbn [snd] in A.
    rewrite Hr in A. unfold emitted_n in A. cbn [length] in A.
    assert (E : seqs_for u ies = []) by (rewrite A; destruct (d && ui_removed inf); reflexivity).
    unfold seqs_for in E. destruct (ies_for u ies); [reflexivity | discriminate].
  - exact (proj1 (emit_unknown_no_ie _ _ _ _ _ _ _ He Hu)).
Qed.

(* C12 (d): in a response, a removed URR is reported at most once per call *)
Theorem emit_once_per_removed extra urrs rs urrs' ies u inf :
  emit extra true urrs rs = (urrs', ies) -> alookup u urrs = Some inf -> ui_removed inf = true ->
  length (ies_for u ies) = Nat.min 1 (length (reports_for u rs)) /\ (length (ies_for u ies) <= 1)%nat.
Proof.
  intros He Hu Hr. destruct (emit_known extra true rs urrs u inf Hu) as [A _]. rewrite He in A. cbn [snd] in A.
  assert (L : length (ies_for u ies) = Nat.min 1 (length (reports_for u rs))).
  { rewrite <- (map_length ur_seqn). fold (seqs_for u ies). rewrite A, seq_from_length.
    unfold emitted_n. rewrite Hr. reflexivity. }
  split; [exact L|]. rewrite L. apply Nat.le_min_l.
Qed.

(* the counters stay within uint32 *)
Definition seq_bounded (urrs : list (N * urrinfo)) : Prop :=
  forall u inf, alookup u urrs = Some inf -> ui_seqn inf < M32.

Lemma emit_bounded extra d rs : forall urrs, seq_bounded urrs -> seq_bounded (fst (emit extra d urrs rs)).
Proof.
  induction rs as [|r rest IH]; intros urrs Hb; [exact Hb|].
  destruct (alookup (r_urr r) urrs) as [inf|] eqn:E.
  - rewrite (emit_cons_some _ _ _ _ _ _ E). cbn [fst]. apply IH.
    intros u inf' Hu. unfold emit_next in Hu. destruct (d && ui_removed inf).
    + destruct (N.eq_dec u (r_urr r)) as [->|Hne]; [rewrite alookup_adel_same in Hu; discriminate|].
      rewrite alookup_adel_other in Hu by exact Hne. eapply Hb; eauto.
    + destruct (N.eq_dec u (r_urr r)) as [->|Hne].
      * rewrite alookup_aset_same in Hu. inversion Hu. cbn. apply N.mod_upper_bound. exact M32_nz.
      * rewrite alookup_aset_other in Hu by exact Hne. eapply Hb; eauto.
  - rewrite (emit_cons_none _ _ _ _ _ E). apply IH. exact Hb.
Qed.

(* ---------------------------------------------------------------- C10 (c): unknown URRs are skipped, the rest is in order *)

Definition known (urrs : list (N * urrinfo)) (r : rpt) : bool :=
  match alookup (r_urr r) urrs with Some _ => true | None => false end.

Lemma emit_next_known d inf k urrs u : alookup k urrs = Some inf ->
  alookup u (emit_next d inf k urrs) <> None -> alookup u urrs <> None.
Proof.
  intros Hk. destruct (N.eq_dec u k) as [->|Hne]; [congruence|]. rewrite emit_next_other by exact Hne. auto.
Qed.

Lemma emit_filter extra d rs : forall urrs (p : rpt -> bool),
  (forall r, alookup (r_urr r) urrs <> None -> p r = true) ->
  emit extra d urrs (filter p rs) = emit extra d urrs rs.
Proof.
  induction rs as [|r rest IH]; intros urrs p Hp; [reflexivity|]. cbn [filter].
  destruct (alookup (r_urr r) urrs) as [inf|] eqn:E.
  - rewrite (Hp r) by congruence. rewrite !(emit_cons_some _ _ _ _ _ _ E).
    rewrite IH; [reflexivity|]. intros r' Hr'. apply Hp. eapply emit_next_known; eauto.
  - rewrite (emit_cons_none _ _ _ _ _ E). destruct (p r).
    + rewrite (emit_cons_none _ _ _ _ _ E). apply IH. exact Hp.
    + apply IH. exact Hp.
Qed.

(* dropping the reports of unknown URRs beforehand changes nothing: neither the IEs (content, order, UR-SEQN)
   nor the bookkeeping of the other URRs *)
Theorem emit_skips_unknown extra d urrs rs : emit extra d urrs (filter (known urrs) rs) = emit extra d urrs rs.
Proof.
  apply emit_filter. intros r Hr. unfold known. destruct (alookup (r_urr r) urrs); [reflexivity | congruence].
Qed.

(* the measurement-relevant part of the bookkeeping *)
Definition same_meas (a b : urrinfo) : Prop :=
  ui_durat a = ui_durat b /\ ui_volum a = ui_volum b /\ ui_mnop a = ui_mnop b.

Lemma mk_usage_ie_meas a b q r : same_meas a b -> mk_usage_ie a q r = mk_usage_ie b q r.
Proof. intros [E1 [E2 E3]]. unfold mk_usage_ie. rewrite E1, E2, E3. reflexivity. Qed.

Definition ie_of_report (extra : N) (urrs : list (N * urrinfo)) (r : rpt) (ie : usage_ie) : Prop :=
  exists inf, alookup (r_urr r) urrs = Some inf /\ ie = mk_usage_ie inf (ur_seqn ie) (or_trig extra r).

(* Session Report Request (nothing is deleted): the IEs are, one for one and in order, the IEs of the reports
   whose URR is known, built from that URR's bookkeeping *)
Lemma emit_false_ies_gen extra urrs0 rs : forall urrs,
  (forall u, match alookup u urrs0, alookup u urrs with
             | Some a, Some b => same_meas a b | None, None => True | _, _ => False end) ->
  Forall2 (ie_of_report extra urrs0) (filter (known urrs0) rs) (snd (emit extra false urrs rs)).
Proof.
  induction rs as [|r rest IH]; intros urrs Hm; [constructor|]. cbn [filter]. unfold known at 1.
  pose proof (Hm (r_urr r)) as Hr.
  destruct (alookup (r_urr r) urrs0) as [a|] eqn:E0; destruct (alookup (r_urr r) urrs) as [b|] eqn:E; try contradiction.
  - rewrite (emit_cons_some _ _ _ _ _ _ E). cbn [snd]. constructor.
    + exists a. split; [exact E0|]. cbn [mk_usage_ie ur_seqn]. symmetry. apply mk_usage_ie_meas. exact Hr.
    + apply IH. intros u. unfold emit_next. cbn [andb].
      destruct (N.eq_dec u (r_urr r)) as [->|Hne].
      * rewrite E0, alookup_aset_same. exact Hr.
      * rewrite alookup_aset_other by exact Hne. apply Hm.
  - rewrite (emit_cons_none _ _ _ _ _ E). apply IH. exact Hm.
Qed.

Theorem emit_false_ies extra urrs rs :
  Forall2 (ie_of_report extra urrs) (filter (known urrs) rs) (snd (emit extra false urrs rs)).
Proof.
  apply emit_false_ies_gen. intros u. destruct (alookup u urrs); [repeat split | exact I].
Qed.

(* every carrier: each emitted IE is the IE of one of the reports, built from that URR's bookkeeping *)
Lemma emit_ies_in_gen extra d urrs0 rs : forall urrs ie,
  (forall u b, alookup u urrs = Some b -> exists a, alookup u urrs0 = Some a /\ same_meas a b) ->
  In ie (snd (emit extra d urrs rs)) -> exists r, In r rs /\ ie_of_report extra urrs0 r ie.
Proof.
  induction rs as [|r rest IH]; intros urrs ie Hm Hin; [destruct Hin|].
  destruct (alookup (r_urr r) urrs) as [b|] eqn:E.
  - rewrite (emit_cons_some _ _ _ _ _ _ E) in Hin. cbn [snd] in Hin. destruct Hin as [<-|Hin].
    + exists r. split; [left; reflexivity|]. destruct (Hm _ _ E) as [a [Ha Hs]].
      exists a. split; [exact Ha|]. cbn [mk_usage_ie ur_seqn]. symmetry. apply mk_usage_ie_meas. exact Hs.
    + destruct (IH (emit_next d b (r_urr r) urrs) ie) as [r' [Hr' Hie]]; [|exact Hin|exists r'; split; [right|]; assumption].
      intros u b' Hu. destruct (N.eq_dec u (r_urr r)) as [->|Hne].
      * unfold emit_next in Hu. destruct (d && ui_removed b).
        -- rewrite alookup_adel_same in Hu. discriminate.
        -- rewrite alookup_aset_same in Hu. inversion Hu; subst b'. destruct (Hm _ _ E) as [a [Ha Hs]].
           exists a. split; [exact Ha | exact Hs].
      * rewrite emit_next_other in Hu by exact Hne. eapply Hm; eauto.
  - rewrite (emit_cons_none _ _ _ _ _ E) in Hin. destruct (IH urrs ie Hm Hin) as [r' [Hr' Hie]].
    exists r'. split; [right|]; assumption.
Qed.

Theorem emit_ies_in extra d urrs rs ie :
  In ie (snd (emit extra d urrs rs)) -> exists r, In r rs /\ ie_of_report extra urrs r ie.
Proof.
  apply emit_ies_in_gen. intros u b Hu. exists b. split; [exact Hu | repeat split].
Qed.
