(* Proofs for C16: the model of ParseFlowDesc applied to any rendering of any well-formed rule
   returns the rule's denotation; the attribute list built by newFlowDesc decodes to it. *)
From Coq Require Import List NArith Bool String Lia.
From GoUpf Require Import Bytes FlowTypes FlowSpec FlowDesc.
Import ListNotations.
Local Open Scope N_scope.

(* ---------------------------------------------------------------- list equality *)

Lemma N_list_eqb_refl l : N_list_eqb l l = true.
Proof. unfold N_list_eqb. destruct (list_eq_dec N.eq_dec l l); congruence. Qed.

Lemma N_list_eqb_neq a b : a <> b -> N_list_eqb a b = false.
Proof. intros H. unfold N_list_eqb. destruct (list_eq_dec N.eq_dec a b); congruence. Qed.

(* a non-empty text whose octets all satisfy P differs from a word starting with a non-P octet *)
Lemma eqb_head_false (P : N -> bool) l k kw :
  l <> [] -> forallb P l = true -> P k = false -> N_list_eqb l (k :: kw) = false.
Proof.
  intros Hne Hall Hk. apply N_list_eqb_neq. intros E. subst l.
  cbn [forallb] in Hall. rewrite Hk in Hall. discriminate.
Qed.

Lemma forallb_impl (P Q : N -> bool) l :
  (forall c, P c = true -> Q c = true) -> forallb P l = true -> forallb Q l = true.
Proof.
  intros H. induction l as [|c l IH]; cbn [forallb]; [reflexivity|].
  rewrite !andb_true_iff. intros [A B]. split; auto.
Qed.

(* ---------------------------------------------------------------- splitp / fields / split1 *)

Lemma splitp_nosep p l : forallb (fun c => negb (p c)) l = true -> splitp p l = [l].
Proof.
  induction l as [|c l IH]; cbn [forallb splitp]; [reflexivity|].
  rewrite andb_true_iff, negb_true_iff. intros [A B]. rewrite A, (IH B). reflexivity.
Qed.

Lemma splitp_app p l1 c l2 :
  forallb (fun c => negb (p c)) l1 = true -> p c = true ->
  splitp p (l1 ++ c :: l2) = l1 :: splitp p l2.
Proof.
  intros H Hc. induction l1 as [|x l1 IH]; cbn [app splitp].
  - rewrite Hc. reflexivity.
  - cbn [forallb] in H. rewrite andb_true_iff, negb_true_iff in H. destruct H as [A B].
    rewrite A, (IH B). reflexivity.
Qed.

Lemma split1_nosep sep l : forallb (fun c => negb (sep =? c)) l = true -> split1 sep l = None.
Proof.
  induction l as [|c l IH]; cbn [forallb split1]; [reflexivity|].
  rewrite andb_true_iff, negb_true_iff. intros [A B].
  rewrite N.eqb_sym, A, (IH B). reflexivity.
Qed.

Lemma split1_app sep l1 l2 :
  forallb (fun c => negb (sep =? c)) l1 = true -> split1 sep (l1 ++ sep :: l2) = Some (l1, l2).
Proof.
  induction l1 as [|c l1 IH]; cbn [forallb app split1].
  - rewrite N.eqb_refl. reflexivity.
  - rewrite andb_true_iff, negb_true_iff. intros [A B].
    rewrite N.eqb_sym, A, (IH B). reflexivity.
Qed.

Definition nonspace (c : N) : bool := negb (is_space c).

Lemma ws_code_space w : is_space (ws_code w) = true.
Proof. destruct w; reflexivity. Qed.

Lemma fields_space c r : is_space c = true -> fields (c :: r) = fields r.
Proof. intros H. unfold fields. cbn [splitp]. rewrite H. reflexivity. Qed.

Lemma fields_spaces ws r : fields (map ws_code ws ++ r) = fields r.
Proof.
  induction ws as [|w ws IH]; cbn [map app]; [reflexivity|].
  rewrite fields_space by apply ws_code_space. exact IH.
Qed.

Lemma fields_nil : fields [] = [].
Proof. reflexivity. Qed.

Lemma fields_tok t c r :
  t <> [] -> forallb nonspace t = true -> is_space c = true -> fields (t ++ c :: r) = t :: fields r.
Proof.
  intros Hne Ht Hc. unfold fields. rewrite splitp_app by assumption.
  cbn [filter]. destruct t; [congruence|]. reflexivity.
Qed.

Lemma fields_tok_end t : t <> [] -> forallb nonspace t = true -> fields t = [t].
Proof.
  intros Hne Ht. unfold fields. rewrite splitp_nosep by assumption.
  cbn [filter]. destruct t; [congruence|]. reflexivity.
Qed.

Definition tok_ok (t : text) : Prop := t <> [] /\ forallb nonspace t = true.

Lemma fields_join toks gap i trail :
  Forall tok_ok toks -> fields (join toks gap i ++ map ws_code trail) = toks.
Proof.
  intros H. revert i. induction H as [|t rest [Hne Ht] Hrest IH]; intros i.
  - cbn [join app]. rewrite <- (app_nil_r (map ws_code trail)), fields_spaces. reflexivity.
  - cbn [join]. destruct rest as [|t2 rest].
    + rewrite app_nil_r. destruct trail as [|w trail]; cbn [map].
      * rewrite app_nil_r. apply fields_tok_end; assumption.
      * rewrite fields_tok by (try assumption; apply ws_code_space).
        rewrite <- (app_nil_r (map ws_code trail)), fields_spaces. reflexivity.
    + cbv iota. unfold gap_text. rewrite <- !app_assoc. cbn [app].
      rewrite fields_tok by (try assumption; apply ws_code_space).
      rewrite fields_spaces. rewrite (IH (S i)). reflexivity.
Qed.

(* ---------------------------------------------------------------- numerals *)

Lemma pd_app a l1 l2 :
  pd a (l1 ++ l2) = match pd a l1 with Some v => pd v l2 | None => None end.
Proof.
  revert a. induction l1 as [|c l1 IH]; intros a; cbn [app pd]; [reflexivity|].
  destruct (is_digit c); [apply IH | reflexivity].
Qed.

Lemma is_digit_48_plus d : d < 10 -> is_digit (48 + d) = true.
Proof. intros H. unfold is_digit. rewrite andb_true_iff, !N.leb_le. lia. Qed.

Lemma dec_aux_spec k : forall n acc,
  n < 2 ^ N.of_nat (S k) ->
  exists ds, dec_aux (S k) n acc = (ds ++ acc)%list /\ ds <> [] /\ forallb is_digit ds = true /\ pd 0 ds = Some n.
Proof.
  induction k as [|k IH]; intros n acc Hn.
  - assert (n < 2) by (replace (2 ^ N.of_nat 1) with 2 in Hn by reflexivity; exact Hn).
    cbn [dec_aux]. destruct (N.ltb_spec n 10) as [_|?]; [|lia].
    exists [48 + n mod 10]. repeat split; try discriminate.
    + cbn [forallb]. rewrite is_digit_48_plus by (apply N.mod_lt; lia). reflexivity.
    + cbn [pd]. rewrite is_digit_48_plus by (apply N.mod_lt; lia). f_equal.
      rewrite N.mod_small by lia. lia.
  - remember (S k) as k1 eqn:Ek. cbn [dec_aux]. destruct (N.ltb_spec n 10) as [Hlt|Hge].
    + exists [48 + n mod 10]. repeat split; try discriminate.
      * cbn [forallb]. rewrite is_digit_48_plus by (apply N.mod_lt; lia). reflexivity.
      * cbn [pd]. rewrite is_digit_48_plus by (apply N.mod_lt; lia). f_equal.
        rewrite N.mod_small by lia. lia.
    + assert (Hq : n / 10 < 2 ^ N.of_nat k1).
      { replace (N.of_nat (S k1)) with (1 + N.of_nat k1) in Hn by lia.
        rewrite N.pow_add_r in Hn. change (2 ^ 1) with 2 in Hn.
        apply N.div_lt_upper_bound; [lia|]. remember (2 ^ N.of_nat k1) as P. lia. }
      subst k1. destruct (IH (n / 10) ((48 + n mod 10) :: acc) Hq) as (ds & E & Hne & Hd & Hv).
      exists (ds ++ [48 + n mod 10])%list. repeat split.
      * rewrite E, <- app_assoc. reflexivity.
      * destruct ds; discriminate.
      * rewrite forallb_app, Hd. cbn [forallb]. rewrite is_digit_48_plus by (apply N.mod_lt; lia). reflexivity.
      * rewrite pd_app, Hv. cbn [pd]. rewrite is_digit_48_plus by (apply N.mod_lt; lia). f_equal.
        assert (M := N.div_mod n 10 ltac:(lia)). clear - M. generalize dependent (n / 10). generalize (n mod 10). intros; lia.
Qed.

Lemma dec_spec n : dec n <> [] /\ forallb is_digit (dec n) = true /\ pd 0 (dec n) = Some n.
Proof.
  unfold dec.
  destruct (dec_aux_spec (N.to_nat (N.size n)) n []) as (ds & E & Hne & Hd & Hv).
  - apply N.lt_le_trans with (2 ^ N.size n); [apply N.size_gt|].
    apply N.pow_le_mono_r; lia.
  - rewrite E, app_nil_r. auto.
Qed.

Lemma zeros_digits z : forallb is_digit (repeat 48 z) = true.
Proof. induction z; cbn [repeat forallb]; auto. Qed.

Lemma pd_zeros z : pd 0 (repeat 48 z) = Some 0.
Proof. induction z; cbn [repeat pd]; auto. Qed.

Lemma num_spec z n :
  num z n <> [] /\ forallb is_digit (num z n) = true /\ parse_dec (num z n) = Some n.
Proof.
  destruct (dec_spec n) as (Hne & Hd & Hv). unfold num. repeat split.
  - destruct (repeat 48 z); [exact Hne | discriminate].
  - rewrite forallb_app, zeros_digits, Hd. reflexivity.
  - unfold parse_dec. destruct (repeat 48 z ++ dec n)%list eqn:E.
    + destruct (repeat 48 z); [contradiction | discriminate].
    + rewrite <- E, pd_app, pd_zeros. exact Hv.
Qed.

Lemma parse_uint_num bits z n : n < 2 ^ bits -> parse_uint bits (num z n) = Some n.
Proof.
  intros H. unfold parse_uint. destruct (num_spec z n) as (_ & _ & ->).
  destruct (N.ltb_spec n (2 ^ bits)); [reflexivity | lia].
Qed.

Lemma dec_is_num n : dec n = num 0 n.
Proof. reflexivity. Qed.

(* separators are not digits *)
Lemma digits_nosep sep l :
  is_digit sep = false -> forallb is_digit l = true -> forallb (fun c => negb (sep =? c)) l = true.
Proof.
  intros Hs. apply forallb_impl. intros c Hc. rewrite negb_true_iff.
  destruct (N.eqb_spec sep c) as [->|]; [congruence | reflexivity].
Qed.

(* ---------------------------------------------------------------- finite sweeps *)

Definition Nrange (n : nat) : list N := map N.of_nat (seq 0 n).

Lemma Nrange_in n k : k < N.of_nat n -> In k (Nrange n).
Proof.
  intros H. unfold Nrange. rewrite <- (N2Nat.id k). apply in_map. apply in_seq. lia.
Qed.

Lemma sweep (P : N -> bool) n : forallb P (Nrange n) = true -> forall k, k < N.of_nat n -> P k = true.
Proof. intros H k Hk. rewrite forallb_forall in H. apply H. apply Nrange_in. exact Hk. Qed.

(* address octets 0..255: the numeral without leading zeros is accepted by the octet parser *)
Lemma parse_octet_dec n : n < 256 -> parse_octet (dec n) = Some n.
Proof.
  intros H.
  assert (S : forallb (fun n => match parse_octet (dec n) with Some m => m =? n | None => false end) (Nrange 256) = true)
    by (vm_compute; reflexivity).
  pose proof (sweep _ _ S n H) as E. cbv beta in E.
  destruct (parse_octet (dec n)); [|discriminate]. apply N.eqb_eq in E. congruence.
Qed.

(* prefix lengths 0..32: Go's CIDRMask loop yields the netmask of the specification *)
Lemma cidr_mask_prefix len : len <= 32 -> cidr_mask len = prefix_mask len.
Proof.
  intros H.
  assert (S : forallb (fun n => N_list_eqb (cidr_mask n) (prefix_mask n)) (Nrange 33) = true)
    by (vm_compute; reflexivity).
  pose proof (sweep _ _ S len ltac:(lia)) as E. cbv beta in E.
  unfold N_list_eqb in E. destruct (list_eq_dec N.eq_dec (cidr_mask len) (prefix_mask len)); congruence.
Qed.

(* ---------------------------------------------------------------- addresses *)

Lemma dec_digits n : forallb is_digit (dec n) = true.
Proof. apply dec_spec. Qed.
Lemma dec_nonnil n : dec n <> [].
Proof. apply dec_spec. Qed.

Lemma parse_ipv4_dotted a b c d :
  a < 256 -> b < 256 -> c < 256 -> d < 256 -> parse_ipv4 (dotted a b c d) = Some [a; b; c; d].
Proof.
  intros Ha Hb Hc Hd. unfold parse_ipv4, dotted.
  rewrite splitp_app by (first [apply (digits_nosep 46); [reflexivity | apply dec_digits] | reflexivity]).
  rewrite splitp_app by (first [apply (digits_nosep 46); [reflexivity | apply dec_digits] | reflexivity]).
  rewrite splitp_app by (first [apply (digits_nosep 46); [reflexivity | apply dec_digits] | reflexivity]).
  rewrite splitp_nosep by (apply (digits_nosep 46); [reflexivity | apply dec_digits]).
  rewrite !parse_octet_dec by assumption. reflexivity.
Qed.

(* octets of a dotted quad: digits and dots *)
Definition dd (c : N) : bool := is_digit c || (c =? 46).

Lemma dotted_dd a b c d : forallb dd (dotted a b c d) = true.
Proof.
  assert (D : forall n, forallb dd (dec n) = true).
  { intros n. apply (forallb_impl is_digit); [|apply dec_digits].
    intros x Hx. unfold dd. rewrite Hx. reflexivity. }
  unfold dotted. rewrite !forallb_app. cbn [forallb]. rewrite !forallb_app. cbn [forallb].
  rewrite !forallb_app. cbn [forallb]. rewrite !D. reflexivity.
Qed.

Lemma dotted_nonnil a b c d : dotted a b c d <> [].
Proof. unfold dotted. pose proof (dec_nonnil a). destruct (dec a); [congruence | discriminate]. Qed.

Lemma dd_nosep sep l :
  dd sep = false -> forallb dd l = true -> forallb (fun c => negb (sep =? c)) l = true.
Proof.
  intros Hs. apply forallb_impl. intros c Hc. rewrite negb_true_iff.
  destruct (N.eqb_spec sep c) as [->|]; [congruence | reflexivity].
Qed.

Lemma existsb_false_forallb (P : N -> bool) l :
  forallb (fun c => negb (P c)) l = true -> existsb P l = false.
Proof.
  induction l as [|c l IH]; cbn [forallb existsb]; [reflexivity|].
  rewrite andb_true_iff, negb_true_iff. intros [A B]. rewrite A, (IH B). reflexivity.
Qed.

Lemma parse_ipnet_render a z :
  wf_addr a -> parse_ipnet (render_addr a z) = Ok (denote_addr a).
Proof.
  destruct a as [| |a b c d|a b c d len]; cbn [wf_addr render_addr denote_addr].
  - intros _. reflexivity.
  - intros _. reflexivity.
  - intros (Ha & Hb & Hc & Hd). unfold parse_ipnet, kw_any, kw_assigned.
    rewrite (eqb_head_false dd) by (try apply dotted_nonnil; try apply dotted_dd; reflexivity).
    rewrite (eqb_head_false dd) by (try apply dotted_nonnil; try apply dotted_dd; reflexivity).
    cbn [orb].
    rewrite existsb_false_forallb by (apply (dd_nosep 58); [reflexivity | apply dotted_dd]).
    rewrite split1_nosep by (apply (dd_nosep 47); [reflexivity | apply dotted_dd]).
    rewrite parse_ipv4_dotted by assumption. reflexivity.
  - intros (Ha & Hb & Hc & Hd & Hl). unfold parse_ipnet, kw_any, kw_assigned.
    destruct (num_spec z len) as (Nne & Nd & Nv).
    assert (DD : forallb dd (dotted a b c d ++ 47 :: num z len) = true -> True) by auto.
    assert (Hall : forallb (fun c => dd c || (c =? 47)) (dotted a b c d ++ 47 :: num z len) = true).
    { rewrite forallb_app. cbn [forallb]. rewrite andb_true_iff. split.
      - apply (forallb_impl dd); [|apply dotted_dd]. intros x Hx. rewrite Hx. reflexivity.
      - cbn [orb andb N.eqb Pos.eqb]. apply (forallb_impl is_digit); [|exact Nd].
        intros x Hx. unfold dd. rewrite Hx. reflexivity. }
    assert (Hnn : (dotted a b c d ++ 47 :: num z len)%list <> []).
    { destruct (dotted a b c d); discriminate. }
    rewrite (eqb_head_false _ _ _ _ Hnn Hall) by reflexivity.
    rewrite (eqb_head_false _ _ _ _ Hnn Hall) by reflexivity.
    cbn [orb].
    rewrite existsb_false_forallb.
    2:{ apply (forallb_impl (fun c => dd c || (c =? 47))); [|exact Hall].
        intros x Hx. rewrite negb_true_iff. destruct (N.eqb_spec 58 x) as [<-|]; [discriminate Hx | reflexivity]. }
    rewrite split1_app by (apply (dd_nosep 47); [reflexivity | apply dotted_dd]).
    unfold parse_cidr. rewrite parse_ipv4_dotted by assumption. rewrite Nv.
    destruct (N.leb_spec len 32) as [_|?]; [|lia].
    rewrite cidr_mask_prefix by assumption. reflexivity.
Qed.

(* ---------------------------------------------------------------- ports *)

Definition pc (c : N) : bool := is_digit c || (c =? 45).        (* one item: digits and '-' *)
Definition ppc (c : N) : bool := pc c || (c =? 44).             (* a list: also ',' *)

Lemma num_pc z n : forallb pc (num z n) = true.
Proof.
  apply (forallb_impl is_digit); [|apply num_spec]. intros x Hx. unfold pc. rewrite Hx. reflexivity.
Qed.

Lemma render_port_pc p z : forallb pc (render_port p z) = true.
Proof.
  destruct p; cbn [render_port]; [apply num_pc|].
  rewrite forallb_app. cbn [forallb]. rewrite !num_pc. reflexivity.
Qed.

Lemma render_port_nonnil p z : render_port p z <> [].
Proof.
  destruct p; cbn [render_port].
  - apply num_spec.
  - pose proof (proj1 (num_spec (fst z) lo)). destruct (num (fst z) lo); [congruence | discriminate].
Qed.

Lemma pc_nosep sep l :
  pc sep = false -> forallb pc l = true -> forallb (fun c => negb (sep =? c)) l = true.
Proof.
  intros Hs. apply forallb_impl. intros c Hc. rewrite negb_true_iff.
  destruct (N.eqb_spec sep c) as [->|]; [congruence | reflexivity].
Qed.

Lemma parse_port_item_render p z :
  wf_port p -> parse_port_item (render_port p z) = Some (denote_port p).
Proof.
  destruct p as [v|lo hi]; cbn [wf_port render_port denote_port]; unfold parse_port_item.
  - intros Hv.
    rewrite split1_nosep by (apply (digits_nosep 45); [reflexivity | apply num_spec]).
    rewrite (parse_uint_num 16) by exact Hv. reflexivity.
  - intros [Hlo Hhi].
    rewrite split1_app by (apply (digits_nosep 45); [reflexivity | apply num_spec]).
    rewrite !(parse_uint_num 16) by assumption. reflexivity.
Qed.

Lemma parse_ports_render ps zs :
  ps <> [] -> Forall wf_port ps -> parse_ports (render_ports ps zs) = Some (map denote_port ps).
Proof.
  intros Hne H. revert zs. induction H as [|p rest Hp Hrest IH]; [congruence|]. intros zs.
  cbn [render_ports map]. unfold parse_ports. destruct rest as [|p2 rest].
  - rewrite app_nil_r.
    rewrite splitp_nosep by (apply (pc_nosep 44); [reflexivity | apply render_port_pc]).
    cbn [map_opt]. rewrite parse_port_item_render by assumption. reflexivity.
  - rewrite splitp_app by (first [apply (pc_nosep 44); [reflexivity | apply render_port_pc] | reflexivity]).
    cbn [map_opt]. rewrite parse_port_item_render by assumption.
    specialize (IH ltac:(discriminate) (tl zs)). unfold parse_ports in IH. rewrite IH. reflexivity.
Qed.

Lemma render_ports_ppc ps zs : forallb ppc (render_ports ps zs) = true.
Proof.
  revert zs. induction ps as [|p rest IH]; intros zs; cbn [render_ports]; [reflexivity|].
  rewrite forallb_app. rewrite andb_true_iff. split.
  - apply (forallb_impl pc); [|apply render_port_pc]. intros x Hx. unfold ppc. rewrite Hx. reflexivity.
  - destruct rest; [reflexivity|]. cbn [forallb]. rewrite IH. reflexivity.
Qed.

Lemma render_ports_nonnil ps zs : ps <> [] -> render_ports ps zs <> [].
Proof.
  destruct ps as [|p rest]; [congruence|]. intros _. cbn [render_ports].
  pose proof (render_port_nonnil p (hd (0%nat, 0%nat) zs)).
  destruct (render_port p (hd (0%nat, 0%nat) zs)); [congruence | discriminate].
Qed.

(* the keyword that follows the source is never mistaken for a port list *)
Lemma to_not_ports : parse_ports kw_to = None.
Proof. reflexivity. Qed.

(* ---------------------------------------------------------------- protocol *)

Lemma parse_proto_render z p :
  match p with Some v => v < 256 | None => True end ->
  parse_proto (match p with None => txt "ip" | Some v => num z v end)
  = Some (match p with None => 255 | Some v => v end).
Proof.
  destruct p as [v|]; intros H; unfold parse_proto; [|reflexivity].
  destruct (num_spec z v) as (Hne & Hd & _). unfold kw_ip.
  rewrite (eqb_head_false is_digit) by (try assumption; reflexivity).
  rewrite (parse_uint_num 8) by exact H. rewrite N.mod_small by exact H. reflexivity.
Qed.

(* ---------------------------------------------------------------- the token list *)

Definition tchar (c : N) : bool := (33 <=? c) && (c <? 127).
Definition tok_good (t : text) : Prop := t <> [] /\ forallb tchar t = true.

Ltac charclass :=
  let c := fresh "c" in let H := fresh "H" in
  intros c H; unfold tchar, ppc, pc, dd, is_digit, nonspace, is_space in *;
  repeat rewrite ?orb_true_iff, ?andb_true_iff, ?negb_true_iff, ?orb_false_iff, ?andb_false_iff,
                 ?N.leb_le, ?N.ltb_lt, ?N.eqb_eq, ?N.leb_gt, ?N.eqb_neq in *; lia.

Lemma digit_tchar : forall c, is_digit c = true -> tchar c = true.
Proof. charclass. Qed.
Lemma dd_tchar : forall c, dd c = true -> tchar c = true.
Proof. charclass. Qed.
Lemma dd47_tchar : forall c, dd c || (c =? 47) = true -> tchar c = true.
Proof. charclass. Qed.
Lemma ppc_tchar : forall c, ppc c = true -> tchar c = true.
Proof. charclass. Qed.
Lemma tchar_nonspace : forall c, tchar c = true -> nonspace c = true.
Proof. charclass. Qed.
Lemma tchar_low : forall c, tchar c = true -> (c <? 128) = true.
Proof. charclass. Qed.

Lemma addr_tok_good a z : tok_good (render_addr a z).
Proof.
  destruct a as [| |a b c d|a b c d len]; cbn [render_addr]; split; try discriminate; try reflexivity.
  - apply dotted_nonnil.
  - apply (forallb_impl dd); [apply dd_tchar | apply dotted_dd].
  - pose proof (dotted_nonnil a b c d). destruct (dotted a b c d); [congruence | discriminate].
  - rewrite forallb_app. cbn [forallb]. rewrite andb_true_iff. split.
    + apply (forallb_impl dd); [apply dd_tchar | apply dotted_dd].
    + cbn [andb]. replace (tchar 47) with true by reflexivity. cbn [andb].
      apply (forallb_impl is_digit); [apply digit_tchar | apply num_spec].
Qed.

Lemma opt_tok_good ps zs : Forall tok_good (opt_tok ps zs).
Proof.
  destruct ps as [|p rest]; cbn [opt_tok]; constructor; [|constructor]. split.
  - apply render_ports_nonnil. discriminate.
  - apply (forallb_impl ppc); [apply ppc_tchar | apply render_ports_ppc].
Qed.

Lemma tokens_good r sp : Forall tok_good (tokens r sp).
Proof.
  unfold tokens. apply Forall_app. split.
  - repeat constructor; try discriminate.
    + destruct (r_dir r); discriminate.
    + destruct (r_dir r); reflexivity.
    + destruct (r_proto r); [apply num_spec | discriminate].
    + destruct (r_proto r); [|reflexivity].
      apply (forallb_impl is_digit); [apply digit_tchar | apply num_spec].
    + apply addr_tok_good.
    + apply addr_tok_good.
  - apply Forall_app. split; [apply opt_tok_good|]. apply Forall_app. split; [|apply opt_tok_good].
    repeat constructor; try discriminate; apply addr_tok_good.
Qed.

Lemma fields_render r sp : fields (render r sp) = tokens r sp.
Proof.
  unfold render. rewrite fields_spaces. apply fields_join.
  eapply Forall_impl; [|apply tokens_good]. intros t [A B]. split; [exact A|].
  apply (forallb_impl tchar); [apply tchar_nonspace | exact B].
Qed.

(* every octet of a rendering is ASCII *)
Lemma join_low toks gap i :
  Forall tok_good toks -> forallb (fun c => c <? 128) (join toks gap i) = true.
Proof.
  intros H. revert i. induction H as [|t rest [_ Ht] Hrest IH]; intros i; cbn [join]; [reflexivity|].
  rewrite forallb_app, andb_true_iff. split.
  - apply (forallb_impl tchar); [apply tchar_low | exact Ht].
  - destruct rest; [reflexivity|]. rewrite forallb_app, IH, andb_true_r.
    unfold gap_text. cbn [forallb]. rewrite andb_true_iff. split.
    + destruct (fst (gap i)); reflexivity.
    + induction (snd (gap i)) as [|w l IHl]; cbn [map forallb]; [reflexivity|].
      rewrite IHl, andb_true_r. destruct w; reflexivity.
Qed.

Lemma ws_low l : forallb (fun c => c <? 128) (map ws_code l) = true.
Proof. induction l as [|w l IH]; cbn [map forallb]; [reflexivity|]. rewrite IH. destruct w; reflexivity. Qed.

Lemma render_ascii r sp : existsb (fun c => 128 <=? c) (render r sp) = false.
Proof.
  apply existsb_false_forallb.
  apply (forallb_impl (fun c => c <? 128)).
  - intros c H. rewrite negb_true_iff. apply N.ltb_lt in H. apply N.leb_gt. exact H.
  - unfold render. rewrite !forallb_app, !ws_low, join_low by apply tokens_good. reflexivity.
Qed.

(* ---------------------------------------------------------------- ParseFlowDesc on the tokens *)

Lemma kwok_permit : N_list_eqb (txt "permit") kw_permit = true. Proof. reflexivity. Qed.
Lemma kwok_from : N_list_eqb (txt "from") kw_from = true. Proof. reflexivity. Qed.
Lemma kwok_to : N_list_eqb (txt "to") kw_to = true. Proof. reflexivity. Qed.
Lemma kwok_dir d :
  let t := match d with DIn => txt "in" | DOut => txt "out" end in
  N_list_eqb t kw_in || N_list_eqb t kw_out = true.
Proof. destruct d; reflexivity. Qed.

Lemma parse_tokens_render r sp : wf_rule r -> parse_tokens (tokens r sp) = Ok (denote r).
Proof.
  intros (Hp & Hs & Hd & Hsp & Hdp).
  unfold tokens, denote. cbn [app]. unfold parse_tokens.
  rewrite kwok_permit. cbn [negb].
  rewrite (kwok_dir (r_dir r)). cbn [negb].
  rewrite (parse_proto_render (z_proto sp) (r_proto r) Hp).
  rewrite kwok_from. cbn [negb].
  rewrite (parse_ipnet_render _ _ Hs).
  destruct (denote_addr (r_src r)) as [sip smask].
  cbn [fst snd].
  destruct (r_sports r) as [|p1 ps1] eqn:Es; destruct (r_dports r) as [|p2 ps2] eqn:Ed;
    cbn [opt_tok app map].
  - change (txt "to") with kw_to. rewrite to_not_ports.
    rewrite N_list_eqb_refl. cbn [negb].
    rewrite (parse_ipnet_render _ _ Hd).
    destruct (denote_addr (r_dst r)) as [dip dmask]. reflexivity.
  - change (txt "to") with kw_to. rewrite to_not_ports.
    rewrite N_list_eqb_refl. cbn [negb].
    rewrite (parse_ipnet_render _ _ Hd).
    destruct (denote_addr (r_dst r)) as [dip dmask].
    rewrite parse_ports_render by (try discriminate; assumption). reflexivity.
  - rewrite parse_ports_render by (try discriminate; assumption).
    rewrite kwok_to. cbn [negb].
    rewrite (parse_ipnet_render _ _ Hd).
    destruct (denote_addr (r_dst r)) as [dip dmask]. reflexivity.
  - rewrite parse_ports_render by (try discriminate; assumption).
    rewrite kwok_to. cbn [negb].
    rewrite (parse_ipnet_render _ _ Hd).
    destruct (denote_addr (r_dst r)) as [dip dmask].
    rewrite parse_ports_render by (try discriminate; assumption). reflexivity.
Qed.

Theorem parse_render r sp : wf_rule r -> parse_flow_desc (render r sp) = Ok (denote r).
Proof.
  intros H. unfold parse_flow_desc. rewrite render_ascii, fields_render.
  apply parse_tokens_render. exact H.
Qed.

(* ---------------------------------------------------------------- convertSlice / unpack *)

Lemma lor_shift16 lo hi : hi < 65536 -> N.lor (N.shiftl lo 16) hi = hi + 2 ^ 16 * lo.
Proof.
  intros H. change 65536 with (2 ^ 16) in H. apply N.bits_inj. intros i.
  rewrite N.lor_spec. destruct (N.ltb_spec i 16) as [Hi|Hi].
  - rewrite N.shiftl_spec_low by assumption. cbn [orb].
    rewrite testbit_add_mul_pow2_low by assumption. reflexivity.
  - rewrite N.shiftl_spec_high' by assumption.
    rewrite testbit_add_mul_pow2_high by assumption.
    replace (N.testbit hi i) with false; [apply orb_false_r|].
    symmetry. rewrite <- (N.mod_small hi (2 ^ 16)) by assumption.
    apply N.mod_pow2_bits_high. exact Hi.
Qed.

Lemma le32_word w : w < 4294967296 ->
  match le32 w with
  | [b0; b1; b2; b3] => b0 + 256 * b1 + 65536 * b2 + 16777216 * b3 = w
  | _ => False
  end.
Proof.
  intros H. unfold le32.
  assert (E1 := N.div_mod w 256 ltac:(lia)).
  assert (E2 := N.div_mod (w / 256) 256 ltac:(lia)).
  assert (E3 := N.div_mod (w / 256 / 256) 256 ltac:(lia)).
  replace (w / 65536) with (w / 256 / 256) by (rewrite N.div_div by lia; reflexivity).
  replace (w / 16777216) with (w / 256 / 256 / 256) by (rewrite !N.div_div by lia; reflexivity).
  assert (w / 256 / 256 / 256 < 256) by (repeat apply N.div_lt_upper_bound; lia).
  rewrite (N.mod_small (w / 256 / 256 / 256)) by assumption.
  remember (w / 256 / 256 / 256) as q3. remember (w / 256 / 256) as q2. remember (w / 256) as q1.
  remember (w mod 256) as r0. remember (q1 mod 256) as r1. remember (q2 mod 256) as r2. lia.
Qed.

Lemma unpack_word lo hi r :
  lo < 65536 -> hi < 65536 ->
  unpack (le32 (N.lor (N.shiftl lo 16) hi) ++ r) =
  match unpack r with Some l => Some ((lo, hi) :: l) | None => None end.
Proof.
  intros Hlo Hhi. rewrite lor_shift16 by assumption. change (2 ^ 16) with 65536.
  assert (Hw : hi + 65536 * lo < 4294967296) by lia.
  pose proof (le32_word _ Hw) as E. unfold le32 in *. cbn [app unpack]. rewrite E.
  replace (hi + 65536 * lo) with (hi + lo * 65536) by lia.
  rewrite N.div_add, N.mod_add by lia. rewrite N.div_small, N.mod_small by assumption.
  reflexivity.
Qed.

Theorem unpack_convert l :
  Forall wf_entry l -> unpack (convert_slice l) = Some (map entry_range l).
Proof.
  induction 1 as [|p l Hp Hl IH]; [reflexivity|].
  unfold convert_slice in *. cbn [flat_map map].
  destruct p as [|a [|b [|c p]]]; cbn [wf_entry] in Hp; try contradiction.
  - cbn [port_word entry_range]. rewrite unpack_word by assumption. rewrite IH. reflexivity.
  - destruct Hp. cbn [port_word entry_range]. rewrite unpack_word by assumption. rewrite IH. reflexivity.
Qed.

Lemma wf_entry_denote ps : Forall wf_port ps -> Forall wf_entry (map denote_port ps).
Proof.
  induction 1 as [|p ps Hp _ IH]; cbn [map]; constructor; [|exact IH].
  destruct p; cbn [denote_port wf_entry]; exact Hp.
Qed.

Lemma entry_range_denote ps : map entry_range (map denote_port ps) = map dp_port ps.
Proof. rewrite map_map. apply map_ext. intros p. destruct p; reflexivity. Qed.

Lemma unpack_ports ps :
  Forall wf_port ps -> unpack (convert_slice (map denote_port ps)) = Some (map dp_port ps).
Proof.
  intros H. rewrite unpack_convert by (apply wf_entry_denote; exact H).
  rewrite entry_range_denote. reflexivity.
Qed.

(* ---------------------------------------------------------------- newFlowDesc *)

Lemma first4_addr a : wf_addr a ->
  first4 (fst (denote_addr a)) = Some (fst (dp_addr a)) /\
  first4 (snd (denote_addr a)) = Some (snd (dp_addr a)).
Proof. destruct a; intros _; split; reflexivity. Qed.

Lemma decode_attrs act dir proto si sm di dm sp dp si' sm' di' dm' sp' dp' :
  first4 si = Some si' -> first4 sm = Some sm' -> first4 di = Some di' -> first4 dm = Some dm' ->
  unpack sp = Some sp' -> unpack dp = Some dp' ->
  decode_fd [ (FD_ACTION, AU8 act); (FD_DIRECTION, AU8 dir); (FD_PROTOCOL, AU8 proto);
              (FD_SRC_IPV4, ABytes si); (FD_SRC_MASK, ABytes sm);
              (FD_DEST_IPV4, ABytes di); (FD_DEST_MASK, ABytes dm);
              (FD_SRC_PORT, ABytes sp); (FD_DEST_PORT, ABytes dp) ]
  = Some {| d_action := act; d_dir := dir; d_proto := proto;
            d_src_ip := si'; d_src_mask := sm'; d_dst_ip := di'; d_dst_mask := dm';
            d_sports := sp'; d_dports := dp' |}.
Proof.
  intros A B C D E F. unfold decode_fd, get_u8, get_bytes.
  unfold FD_ACTION, FD_DIRECTION, FD_PROTOCOL, FD_SRC_IPV4, FD_SRC_MASK, FD_DEST_IPV4, FD_DEST_MASK,
         FD_SRC_PORT, FD_DEST_PORT.
  cbn [get_attr N.eqb Pos.eqb bind]. rewrite A, B, C, D, E, F. reflexivity.
Qed.

Lemma dir_code d :
  let t := match d with DIn => txt "in" | DOut => txt "out" end in
  (if N_list_eqb t kw_in then Some SDF_IN else if N_list_eqb t kw_out then Some SDF_OUT else None)
  = Some (match d with DIn => 1 | DOut => 2 end).
Proof. destruct d; reflexivity. Qed.

Theorem pack_render r sp up : wf_rule r ->
  exists al, new_flow_desc (render r sp) up = Ok al /\ decode_fd al = Some (swap_if up (denote_dp r)).
Proof.
  intros H. unfold new_flow_desc. rewrite (parse_render r sp H).
  destruct H as (Hp & Hs & Hd & Hsp & Hdp).
  destruct (first4_addr _ Hs) as [S1 S2]. destruct (first4_addr _ Hd) as [D1 D2].
  pose proof (unpack_ports _ Hsp) as P1. pose proof (unpack_ports _ Hdp) as P2.
  unfold attrs_of.
  destruct up; cbn [swap_fdesc denote f_action f_dir f_proto f_src_ip f_src_mask f_dst_ip f_dst_mask f_sports f_dports];
    rewrite kwok_permit; cbn [negb]; rewrite (dir_code (r_dir r)).
  all: eexists; split; [reflexivity|].
  all: erewrite decode_attrs by eassumption; reflexivity.
Qed.

(* ---------------------------------------------------------------- consistency of the two readings *)

Lemma map_o_ports ps :
  map_o (fun p : list N => match p with [v] => Some (v, v) | [lo; hi] => Some (lo, hi) | _ => None end)
        (map denote_port ps) = Some (map dp_port ps).
Proof.
  induction ps as [|p ps IH]; [reflexivity|]. cbn [map map_o]. rewrite IH. destruct p; reflexivity.
Qed.

Theorem dp_of_denote r : wf_rule r -> dp_of (denote r) = Some (denote_dp r).
Proof.
  intros (Hp & Hs & Hd & Hsp & Hdp).
  destruct (first4_addr _ Hs) as [S1 S2]. destruct (first4_addr _ Hd) as [D1 D2].
  unfold dp_of, denote. cbn [f_action f_dir f_proto f_src_ip f_src_mask f_dst_ip f_dst_mask f_sports f_dports].
  rewrite S1, S2, D1, D2, !map_o_ports. rewrite N_list_eqb_refl.
  unfold denote_dp. destruct (r_dir r); reflexivity.
Qed.

(* the specification's netmask is the usual one: the 32-bit value 2^32 - 2^(32-len) *)
Lemma prefix_mask_value len : len <= 32 ->
  match prefix_mask len with
  | [a; b; c; d] => rd32 a b c d = 2 ^ 32 - 2 ^ (32 - len)
  | _ => False
  end.
Proof.
  intros H.
  assert (S : forallb (fun n => match prefix_mask n with
                                | [a; b; c; d] => rd32 a b c d =? 2 ^ 32 - 2 ^ (32 - n)
                                | _ => false end) (Nrange 33) = true) by (vm_compute; reflexivity).
  pose proof (sweep _ _ S len ltac:(lia)) as E. cbv beta in E.
  unfold prefix_mask in *. apply N.eqb_eq in E. exact E.
Qed.

Theorem total_parse s :
  (exists f, parse_flow_desc s = Ok f) \/ parse_flow_desc s = Err \/ parse_flow_desc s = Unmodelled.
Proof. destruct (parse_flow_desc s); eauto. Qed.

Theorem total_new s up :
  (exists al, new_flow_desc s up = Ok al) \/ new_flow_desc s up = Err \/ new_flow_desc s up = Unmodelled.
Proof. destruct (new_flow_desc s up); eauto. Qed.
