(* Generic lemmas about the list / association-list / data-plane primitives of model/Pfcp.v *)
From Coq Require Import String List NArith ZArith Bool Lia.
From GoUpf Require Import Bytes FlagsGen ConstsGen HandlerGen Pfcp.
Import ListNotations.
Local Open Scope N_scope.

Lemma memN_In x l : memN x l = true <-> In x l.
Proof.
  unfold memN. rewrite existsb_exists. split.
  - intros [y [Hy E]]. apply N.eqb_eq in E. subst. assumption.
  - intros H. exists x. split; [assumption | apply N.eqb_refl].
Qed.

Lemma memN_false x l : memN x l = false <-> ~ In x l.
Proof. rewrite <- memN_In. destruct (memN x l); intuition congruence. Qed.

Lemma addN_In x y l : In y (addN x l) <-> y = x \/ In y l.
Proof.
  unfold addN. destruct (memN x l) eqn:E.
  - apply memN_In in E. split; [auto | intros [->|]; assumption].
  - rewrite in_app_iff. cbn. split; [intros [|[|[]]]; auto | intros [|]; auto].
Qed.

Lemma delN_In x y l : In y (delN x l) <-> y <> x /\ In y l.
Proof.
  unfold delN. rewrite filter_In. split.
  - intros [H E]. split; [|assumption]. intros ->. rewrite N.eqb_refl in E. discriminate.
  - intros [H1 H2]. split; [assumption|]. destruct (N.eqb_spec x y); [congruence | reflexivity].
Qed.

Lemma addN_NoDup x l : NoDup l -> NoDup (addN x l).
Proof.
  intros H. unfold addN. destruct (memN x l) eqn:E; [assumption|].
  apply memN_false in E. induction H as [|a l Ha Hl IH]; cbn.
  - constructor; [intros []|constructor].
  - constructor.
    + rewrite in_app_iff. cbn. intros [|[<-|[]]]; [auto|]. apply E. left. reflexivity.
    + apply IH. intros Hx. apply E. right. assumption.
Qed.

Lemma delN_NoDup x l : NoDup l -> NoDup (delN x l).
Proof. intros. unfold delN. apply NoDup_filter. assumption. Qed.

Section AssocLemmas.
  Context {V : Type}.
  Implicit Types (l : list (N * V)).

  Lemma keys_aset k v l k' : In k' (map fst (aset k v l)) <-> k' = k \/ In k' (map fst l).
  Proof.
    induction l as [|[a b] l IH]; cbn.
    - split; [intros [|[]]; auto | intros [|[]]; auto].
    - destruct (N.eqb_spec k a) as [->|Hn]; cbn.
      + split; [intros [|]; auto | intros [|[|]]; auto].
      + rewrite IH. split; [intros [|[|]]; auto | intros [|[|]]; auto].
  Qed.

  Lemma keys_adel k l k' : In k' (map fst (adel k l)) <-> k' <> k /\ In k' (map fst l).
  Proof.
    unfold adel. induction l as [|[a b] l IH]; cbn.
    - split; [intros [] | intros [_ []]].
    - destruct (N.eqb_spec k a) as [->|Hn]; cbn.
      + rewrite IH. split; [intros [? ?]; auto | intros [? [|]]; [congruence | auto]].
      + rewrite IH. split.
        * intros [<-|[? ?]]; [split; [congruence | auto] | auto].
        * intros [? [|]]; auto.
  Qed.

  Lemma alookup_In k l v : alookup k l = Some v -> In (k, v) l.
  Proof.
    induction l as [|[a b] l IH]; cbn; [discriminate|].
    destruct (N.eqb_spec k a) as [->|Hn].
    - intros E. inversion E. left. reflexivity.
    - intros E. right. auto.
  Qed.

  Lemma alookup_key k l v : alookup k l = Some v -> In k (map fst l).
  Proof. intros H. apply alookup_In in H. apply (in_map fst) in H. exact H. Qed.

  Lemma alookup_None k l : alookup k l = None <-> ~ In k (map fst l).
  Proof.
    induction l as [|[a b] l IH]; cbn.
    - split; [intros _ [] | reflexivity].
    - destruct (N.eqb_spec k a) as [->|Hn].
      + split; [discriminate | intros H; exfalso; apply H; auto].
      + rewrite IH. split; [intros H [|]; [congruence | auto] | intros H Hi; apply H; auto].
  Qed.

  Lemma alookup_aset_same k v l : alookup k (aset k v l) = Some v.
  Proof.
    induction l as [|[a b] l IH]; cbn.
    - rewrite N.eqb_refl. reflexivity.
    - destruct (N.eqb_spec k a) as [->|Hn]; cbn.
      + rewrite N.eqb_refl. reflexivity.
      + destruct (N.eqb_spec k a); [congruence | assumption].
  Qed.

  Lemma alookup_aset_other k k' v l : k' <> k -> alookup k' (aset k v l) = alookup k' l.
  Proof.
    intros Hn. induction l as [|[a b] l IH]; cbn.
    - destruct (N.eqb_spec k' k); [congruence | reflexivity].
    - destruct (N.eqb_spec k a) as [->|Hk]; cbn.
      + destruct (N.eqb_spec k' a); [congruence | reflexivity].
      + destruct (N.eqb_spec k' a); [reflexivity | assumption].
  Qed.

  Lemma alookup_adel_same k l : alookup k (adel k l) = None.
  Proof. apply alookup_None. rewrite keys_adel. intros [H _]. congruence. Qed.

  Lemma alookup_adel_other k k' l : k' <> k -> alookup k' (adel k l) = alookup k' l.
  Proof.
    intros Hn. unfold adel. induction l as [|[a b] l IH]; cbn; [reflexivity|].
    destruct (N.eqb_spec k a) as [->|Hk]; cbn.
    - destruct (N.eqb_spec k' a); [congruence | assumption].
    - destruct (N.eqb_spec k' a); [reflexivity | assumption].
  Qed.

  Lemma aset_NoDup k v l : NoDup (map fst l) -> NoDup (map fst (aset k v l)).
  Proof.
    induction l as [|[a b] l IH]; cbn; intros H.
    - constructor; [intros [] | constructor].
    - inversion H as [|? ? Ha Hl]; subst.
      destruct (N.eqb_spec k a) as [->|Hk]; cbn.
      + constructor; assumption.
      + constructor; [|auto]. rewrite keys_aset. intros [|]; [congruence | auto].
  Qed.

  Lemma adel_NoDup k l : NoDup (map fst l) -> NoDup (map fst (adel k l)).
  Proof.
    unfold adel. induction l as [|[a b] l IH]; cbn; intros H; [constructor|].
    inversion H as [|? ? Ha Hl]; subst.
    destruct (N.eqb k a); cbn; [auto|].
    constructor; [|auto]. fold (adel k l). rewrite keys_adel. intros [_ ?]. auto.
  Qed.
End AssocLemmas.

(* ---------------------------------------------------------------- data plane *)

Lemma kind_eqb_eq a b : kind_eqb a b = true <-> a = b.
Proof. destruct a, b; cbn; split; intros; congruence. Qed.

Lemma dop_eqb_eq a b : dop_eqb a b = true <-> a = b.
Proof. destruct a, b; cbn; split; intros; congruence. Qed.

Lemma rule_eqb_eq (a b : rule) : rule_eqb a b = true <-> a = b.
Proof.
  destruct a as [[s k] i], b as [[s' k'] i']. unfold rule_eqb.
  rewrite !andb_true_iff, !N.eqb_eq, kind_eqb_eq. split.
  - intros [[-> ->] ->]. reflexivity.
  - intros E. inversion E. auto.
Qed.

Lemma rule_eqb_refl r : rule_eqb r r = true.
Proof. apply rule_eqb_eq. reflexivity. Qed.

Lemma dp_has_In dp r : dp_has dp r = true <-> In r dp.
Proof.
  unfold dp_has. rewrite existsb_exists. split.
  - intros [y [Hy E]]. apply rule_eqb_eq in E. subst. assumption.
  - intros H. exists r. split; [assumption | apply rule_eqb_refl].
Qed.

Lemma dp_add_In dp r x : In x (dp_add dp r) <-> x = r \/ In x dp.
Proof. unfold dp_add. rewrite in_app_iff. cbn. split; [intros [|[|[]]]; auto | intros [|]; auto]. Qed.

Lemma dp_del_In dp r x : In x (dp_del dp r) <-> x <> r /\ In x dp.
Proof.
  unfold dp_del. rewrite filter_In. split.
  - intros [H E]. split; [|assumption]. intros ->. rewrite rule_eqb_refl in E. discriminate.
  - intros [H1 H2]. split; [assumption|].
    destruct (rule_eqb r x) eqn:E; [|reflexivity]. apply rule_eqb_eq in E. congruence.
Qed.

(* what one data-plane call can do *)
Lemma dp_call_spec e dp op k seid id dp' ok :
  dp_call e dp op k seid id = (dp', ok) ->
  (forall x, In x dp' -> In x dp \/ (x = (seid, k, id) /\ op = DCreate)) /\
  (forall x, In x dp -> x <> (seid, k, id) -> In x dp') /\
  (op = DRemove -> ok = true -> ~ In (seid, k, id) dp') /\
  (op = DRemove -> ok = false -> ~ In (seid, k, id) dp /\ dp' = dp) /\
  (op <> DRemove -> forall x, In x dp -> In x dp') /\
  (op <> DCreate -> forall x, In x dp' -> In x dp) /\
  (ok = true -> op <> DCreate -> In (seid, k, id) dp).
Proof.
  unfold dp_call. intros H.
  destruct (dp_has dp (seid, k, id)) eqn:Eh; cbn [negb] in H; rewrite ?andb_false_r, ?andb_true_r in H.
  - apply dp_has_In in Eh.
    destruct op; repeat match type of H with context [if ?b then _ else _] => destruct b end;
      inversion H; subst; clear H;
      repeat split; intros; try congruence; auto;
      try (rewrite dp_del_In in *; tauto).
  - assert (Hn : ~ In (seid, k, id) dp) by (rewrite <- dp_has_In; congruence).
    destruct op; repeat match type of H with context [if ?b then _ else _] => destruct b end;
      inversion H; subst; clear H;
      repeat split; intros; try congruence; auto;
      try (rewrite dp_add_In in *; tauto);
      try (match goal with Hx : In _ (dp_add _ _) |- _ => apply dp_add_In in Hx; destruct Hx; auto end).
Qed.

(* ---------------------------------------------------------------- indexing *)

Lemma set_nth_length {A} n (x : A) l : length (set_nth n x l) = length l.
Proof. revert n; induction l as [|y l IH]; intros [|n]; cbn; auto. Qed.

Lemma nth_error_set_nth_same {A} n (x : A) l : (n < length l)%nat -> nth_error (set_nth n x l) n = Some x.
Proof.
  revert n; induction l as [|y l IH]; intros [|n] H; cbn in *; try lia; auto. apply IH. lia.
Qed.

Lemma nth_error_set_nth_other {A} n m (x : A) l : n <> m -> nth_error (set_nth n x l) m = nth_error l m.
Proof.
  revert n m; induction l as [|y l IH]; intros [|n] [|m] H; cbn; auto; try congruence.
Qed.

Lemma slot_get_Ok sl i x : slot_get sl i = Ok x <-> nth_error sl i = Some x.
Proof. unfold slot_get. destruct (nth_error sl i); split; intros H; inversion H; reflexivity. Qed.

Lemma slot_set_Ok sl i x sl' : slot_set sl i x = Ok sl' -> (i < length sl)%nat /\ sl' = set_nth i x sl.
Proof.
  unfold slot_set. destruct (Nat.ltb_spec i (length sl)) as [Hlt|Hge]; intros E; inversion E. auto.
Qed.

Lemma slot_set_in_range sl i x : (i < length sl)%nat -> slot_set sl i x = Ok (set_nth i x sl).
Proof. intros Hi. unfold slot_set. destruct (Nat.ltb_spec i (length sl)) as [Hlt|Hge]; [reflexivity | lia]. Qed.
