(* Isolation (C05) and response correlation (C08): what a request may touch, and what it sends. *)
From Coq Require Import String List NArith ZArith Bool Lia.
From GoUpf Require Import Bytes FlagsGen ConstsGen HandlerGen Pfcp PfcpBase PfcpSess PfcpClose PfcpTable PfcpDelete PfcpStep PfcpProps.
Import ListNotations.
Local Open Scope N_scope.

Definition is_drv (x : out) : Prop := match x with ODrv _ _ _ _ _ => True | OSend _ _ _ => False end.

Lemma own_drv_is_drv lid o : Forall (own_drv lid) o -> Forall is_drv o.
Proof. apply Forall_impl. intros [] H; cbn in *; auto. Qed.

Definition pdu_seq (p : pdu) : N :=
  match p with
  | PHeartbeatRsp s | PAssocRsp s _ | PEstRsp s _ _ _ _ | PModRsp s _ _ _ | PDelRsp s _ _ _
  | PReportDLDR s _ _ | PReportUSAR s _ _ => s
  end.

Definition is_response (p : pdu) : bool :=
  match p with PReportDLDR _ _ _ | PReportUSAR _ _ _ => false | _ => true end.

(* every datagram in [o] is a response to (peer, seq) *)
Definition correlated (peer seq : N) (o : list out) : Prop :=
  forall d p r, In (OSend d p r) o -> d = peer /\ pdu_seq p = seq /\ is_response p = true.

Lemma correlated_drv peer seq o : Forall is_drv o -> correlated peer seq o.
Proof. intros H d p r Hin. rewrite Forall_forall in H. apply H in Hin. destruct Hin. Qed.

Lemma correlated_app peer seq a b : correlated peer seq a -> correlated peer seq b -> correlated peer seq (a ++ b).
Proof. intros Ha Hb d p r Hin. apply in_app_iff in Hin. destruct Hin; eauto. Qed.

Lemma send_rsp_out w peer seq p :
  snd (send_rsp w peer seq p) = [] \/ snd (send_rsp w peer seq p) = [OSend peer p false].
Proof. unfold send_rsp. destruct (klookup (peer, seq) (w_rx w)); cbn; auto. Qed.

Lemma send_rsp_correlated w peer seq p :
  pdu_seq p = seq -> is_response p = true -> correlated peer seq (snd (send_rsp w peer seq p)).
Proof.
  intros E R. destruct (send_rsp_out w peer seq p) as [H|H]; rewrite H; intros d q r Hin; cbn in Hin.
  - destruct Hin.
  - destruct Hin as [Hin|[]]. inversion Hin; subst. auto.
Qed.

(* ---------------------------------------------------------------- session frame of a world update *)

Record wframe (w w' : world) (seid : N) : Prop := mkWFrame {
  wf_others : forall lid' s', lid' <> seid -> (live w' lid' s' <-> live w lid' s');
  wf_dp : forall r, fst (fst r) <> seid -> (In r (w_dp w') <-> In r (w_dp w)) }.

Lemma wframe_refl w seid : wframe w w seid.
Proof. constructor; tauto. Qed.

Lemma wframe_trans a b c seid : wframe a b seid -> wframe b c seid -> wframe a c seid.
Proof.
  intros [A1 A2] [B1 B2]. constructor.
  - intros l s H. rewrite B1, A1 by assumption. tauto.
  - intros r H. rewrite B2, A2 by assumption. tauto.
Qed.

Lemma wframe_core w w' seid : same_core w w' -> wframe w w' seid.
Proof.
  intros C. constructor.
  - intros l s _. apply live_core. assumption.
  - intros r _. destruct C as [_ [_ [_ [_ E]]]]. rewrite E. tauto.
Qed.

Lemma wframe_upd w lid s dp :
  1 <= lid -> (forall r, fst (fst r) <> lid -> (In r dp <-> In r (w_dp w))) -> wframe w (upd_world w lid s dp) lid.
Proof.
  intros Hp Hf. constructor.
  - intros l s' Hne. apply live_upd_other; assumption.
  - exact Hf.
Qed.

(* ---------------------------------------------------------------- modification *)

Theorem mod_spec w peer seq seid nid o e s :
  WInv w -> live w seid s -> nid = IeAbsent ->
  exists w' out, handle_mod w peer seq seid nid o e = Ok (w', out) /\ WInv w' /\ wframe w w' seid /\
    (exists drvs snd_, out = drvs ++ snd_ /\ Forall (own_drv seid) drvs /\ correlated peer seq snd_) /\
    w_heap w' = w_heap w /\ w_rnodes w' = w_rnodes w /\ w_free w' = w_free w /\
    (out = [] \/ exists s1, live w' seid s1 /\ s_rid s1 = s_rid s /\ s_node s1 = s_node s).
Proof.
  intros HI HL ->. unfold handle_mod. pose proof HL as HL0. apply lookup_found in HL0. rewrite HL0.
  destruct (run_categories e o mod_order (mkCtx s (w_dp w) [])) as [[c rs]|] eqn:Ec.
  2:{ exists w, []. split; [reflexivity|]. split; [assumption|]. split; [apply wframe_refl|].
      split; [exists [], []; split; [reflexivity|]; split; [constructor | intros d p r []]|]. auto. }
  apply run_categories_good in Ec. cbn [fst] in Ec. destruct Ec as [[Fl Fr Fn Fo [o' [Eo Fo']]] HS]. cbn [c_s c_dp c_out] in *.
  pose proof (emit_rel 0 true (s_urrs (c_s c)) rs) as R.
  destruct (emit 0 true (s_urrs (c_s c)) rs) as [urrs ies]. cbn [fst] in R.
  assert (Hlid : s_lid s = seid) by (eapply live_lid; eauto).
  rewrite (put_slot_upd w seid s (set_urrs urrs (c_s c)) (c_dp c) HL) by (cbn; congruence).
  set (w2 := upd_world w seid (set_urrs urrs (c_s c)) (c_dp c)).
  assert (HI2 : WInv w2).
  { eapply WInv_upd; eauto.
    - cbn. congruence.
    - apply SOK_urr_rel; auto. apply HS. eapply live_SOK; eauto.
    - intros r Hr. apply Fo. congruence. }
  pose proof (send_rsp_core w2 peer seq (PModRsp seq (s_rid s) CauseAccepted ies)) as C.
  pose proof (send_rsp_correlated w2 peer seq (PModRsp seq (s_rid s) CauseAccepted ies) eq_refl eq_refl) as Hcor.
  destruct (send_rsp w2 peer seq (PModRsp seq (s_rid s) CauseAccepted ies)) as [w3 o3]. cbn [fst snd] in *.
  exists w3, (c_out c ++ o3). split; [reflexivity|].
  split; [eapply WInv_core; eauto|].
  assert (Hp : 1 <= seid) by (destruct HL; assumption).
  split.
  { eapply wframe_trans; [|apply wframe_core; exact C]. apply wframe_upd; [assumption|].
    intros r Hr. apply Fo. congruence. }
  split.
  { exists (c_out c), o3. split; [reflexivity|]. split; [|exact Hcor]. rewrite Eo. cbn. rewrite <- Hlid. exact Fo'. }
  destruct C as [E1 [E2 [E3 [E4 E5]]]].
  split; [rewrite E3; reflexivity|]. split; [rewrite E4; reflexivity|]. split; [rewrite E2; reflexivity|].
  right. exists (set_urrs urrs (c_s c)). split.
  - unfold live. rewrite E1. apply (live_upd_same w seid s _ _ HL).
  - cbn. split; congruence.
Qed.

(* ---------------------------------------------------------------- establishment *)

Theorem est_spec w peer seq id rid o e ref :
  WInv w -> alookup id (w_rnodes w) = Some ref ->
  exists w' out, handle_est w peer seq (IeVal id) (IeVal rid) o e = Ok (w', out) /\ WInv w' /\
    (out = [] /\ w' = w \/
     exists lid s1, lid <> 0 /\ (forall s', ~ live w lid s') /\ live w' lid s1 /\ s_rid s1 = rid /\ s_node s1 = ref /\
       wframe w w' lid /\
       (exists drvs snd_, out = drvs ++ snd_ /\ Forall (own_drv lid) drvs /\ correlated peer seq snd_ /\
          (snd_ = [] \/ snd_ = [OSend peer (PEstRsp seq rid CauseAccepted lid (map pdr_id (filter po_ueip (cPDR o)))) false]))).
Proof.
  intros HI Er. unfold handle_est. rewrite Er.
  destruct (rnodes_ref_valid _ _ _ HI Er) as [n Hn].
  destruct (est_alloc_spec w rid ref n HI Hn) as [w2 [s [Ea AP]]].
  unfold est_alloc in Ea. destruct (new_sess w rid ref) as [[w1 s1]|f]; [|discriminate].
  inversion Ea; subst s1. clear Ea. rewrite H0. clear H0 w1.
  pose proof (ap_inv _ _ _ _ _ AP) as HI2. pose proof (ap_live _ _ _ _ _ AP) as HL2.
  destruct (run_categories e o est_order (mkCtx s (w_dp w2) [])) as [[c rs]|] eqn:Ec.
  2:{ exists w, []. split; [reflexivity|]. split; [assumption|]. left. auto. }
  apply run_categories_good in Ec. cbn [fst] in Ec. destruct Ec as [[Fl Fr Fn Fo [o' [Eo Fo']]] HS]. cbn [c_s c_dp c_out] in *.
  rewrite (put_slot_upd w2 (s_lid s) s (c_s c) (c_dp c) HL2 Fl).
  set (w3 := upd_world w2 (s_lid s) (c_s c) (c_dp c)).
  assert (HI3 : WInv w3).
  { eapply WInv_upd; eauto. apply HS. eapply live_SOK; eauto. }
  set (p := PEstRsp seq (s_rid s) CauseAccepted (s_lid s) (map pdr_id (filter po_ueip (cPDR o)))).
  pose proof (send_rsp_core w3 peer seq p) as C.
  pose proof (send_rsp_correlated w3 peer seq p eq_refl eq_refl) as Hcor.
  pose proof (send_rsp_out w3 peer seq p) as Hout.
  destruct (send_rsp w3 peer seq p) as [w4 o4]. cbn [fst snd] in *.
  exists w4, (c_out c ++ o4). split; [reflexivity|]. split; [eapply WInv_core; eauto|].
  right. exists (s_lid s), (c_s c).
  assert (Hrid : s_rid s = rid) by (rewrite (ap_shape _ _ _ _ _ AP); reflexivity).
  assert (Hnode : s_node s = ref) by (rewrite (ap_shape _ _ _ _ _ AP); reflexivity).
  split; [apply (ap_nz _ _ _ _ _ AP)|]. split; [apply (ap_fresh _ _ _ _ _ AP)|].
  split.
  { apply (live_core _ _ _ _ C). apply (live_upd_same w2 (s_lid s) s _ _ HL2). }
  split; [congruence|]. split; [congruence|].
  assert (Hp : 1 <= s_lid s) by (destruct HL2; assumption).
  split.
  { eapply wframe_trans; [|apply wframe_core; exact C].
    eapply wframe_trans; [|apply wframe_upd; [assumption | intros r Hr; apply Fo; exact Hr]].
    constructor.
    - apply (ap_others _ _ _ _ _ AP).
    - intros r _. rewrite (ap_dp _ _ _ _ _ AP). tauto. }
  exists (c_out c), o4. split; [reflexivity|]. split; [rewrite Eo; cbn; exact Fo'|]. split; [exact Hcor|].
  unfold p in Hout. rewrite Hrid in Hout. exact Hout.
Qed.

(* ---------------------------------------------------------------- deletion *)

Theorem del_spec w peer seq seid e s :
  WInv w -> live w seid s ->
  exists w' out, handle_del w peer seq seid e = Ok (w', out) /\ WInv w' /\ wframe w w' seid /\
    (forall s', ~ live w' seid s') /\ (forall k id, ~ In (seid, k, id) (w_dp w')) /\
    (exists drvs snd_ ies, out = drvs ++ snd_ /\ Forall (own_drv seid) drvs /\ correlated peer seq snd_ /\
       (snd_ = [] \/ snd_ = [OSend peer (PDelRsp seq (s_rid s) CauseAccepted ies) false])).
Proof.
  intros HI HL. unfold handle_del. pose proof HL as HL0. apply lookup_found in HL0. rewrite HL0.
  destruct (delete_sess_spec e w (s_node s) seid HI) as [w1 [r [Ed [DP Hsome]]]]. rewrite Ed.
  destruct (wi_node w HI _ _ HL) as [n [Hn Hin]].
  destruct r as [[[o1 s1] rs]|]; [|exfalso; eapply Hsome; eauto].
  destruct (dl_some _ _ _ _ _ DP _ _ _ eq_refl) as [_ [Hdead [Hfree [Hgone [Fo _]]]]].
  destruct (emit USAR_TRIG_TERMR true (s_urrs s1) rs) as [u ies].
  set (p := PDelRsp seq (s_rid s) CauseAccepted ies).
  pose proof (send_rsp_core w1 peer seq p) as C.
  pose proof (send_rsp_correlated w1 peer seq p eq_refl eq_refl) as Hcor.
  pose proof (send_rsp_out w1 peer seq p) as Hout.
  destruct (send_rsp w1 peer seq p) as [w2 o2]. cbn [fst snd] in *.
  exists w2, (o1 ++ o2). split; [reflexivity|]. split; [eapply WInv_core; eauto; apply (dl_inv _ _ _ _ _ DP)|].
  split.
  { eapply wframe_trans; [|apply wframe_core; exact C]. constructor; [apply (dl_others _ _ _ _ _ DP) | apply (dl_dp_other _ _ _ _ _ DP)]. }
  split; [intros s' HL'; apply (Hdead s'); apply (live_core _ _ _ _ C); exact HL'|].
  split; [intros k id; destruct C as [_ [_ [_ [_ E5]]]]; rewrite E5; apply Hgone|].
  exists o1, o2, ies. split; [reflexivity|]. split; [exact Fo|]. split; [exact Hcor | exact Hout].
Qed.

(* ---------------------------------------------------------------- request correlation for every message *)

Lemma reset_loop_drv e ref ids : forall w acc, WInv w -> Forall is_drv acc ->
  forall w' o, reset_loop e w ref ids acc = Ok (w', o) -> Forall is_drv o.
Proof.
  induction ids as [|lid ids IH]; intros w acc HI Ha w' o; cbn [reset_loop].
  - intros H. inversion H; subst. exact Ha.
  - destruct (delete_sess_spec e w ref lid HI) as [w1 [r [Ed [DP _]]]]. rewrite Ed.
    destruct r as [[[o1 s1] rs]|].
    + apply IH; [apply (dl_inv _ _ _ _ _ DP)|].
      apply Forall_app. split; [exact Ha|].
      destruct (dl_some _ _ _ _ _ DP _ _ _ eq_refl) as [_ [_ [_ [_ [Fo _]]]]]. eapply own_drv_is_drv; eauto.
    + apply IH; [apply (dl_inv _ _ _ _ _ DP) | exact Ha].
Qed.

Theorem assoc_spec w peer seq nid order e :
  WInv w ->
  exists w' out, handle_assoc w peer seq nid order e = Ok (w', out) /\ WInv w' /\
    exists drvs snd_, out = drvs ++ snd_ /\ Forall is_drv drvs /\ correlated peer seq snd_ /\
      (snd_ = [] \/ snd_ = [OSend peer (PAssocRsp seq CauseAccepted) false]).
Proof.
  intros HI. unfold handle_assoc.
  destruct nid as [| |id];
    try (exists w, []; split; [reflexivity|]; split; [assumption|]; exists [], []; split; [reflexivity|];
         split; [constructor|]; split; [intros d p r []|left; reflexivity]).
  destruct (alookup id (w_rnodes w)) as [ref|] eqn:Er.
  - destruct (node_reset_ok e w ref order HI) as [w1 [o [E [HI1 _]]]]. rewrite E.
    assert (Hdrv : Forall is_drv o).
    { unfold node_reset in E. destruct (nth_error (w_heap w) ref) as [n|]; [|inversion E; constructor].
      match type of E with context [reset_loop e w ref ?l []] => destruct (reset_loop e w ref l []) as [[wx ox]|f] eqn:El end;
        [|discriminate].
      injection E as _ <-. exact (reset_loop_drv e ref _ w [] HI (Forall_nil _) _ _ El). }
    pose proof (WInv_adel_rnodes w1 id HI1) as HI2.
    pose proof (WInv_new_node _ id peer HI2) as HI3.
    cbn [set_rnodes w_heap w_rnodes] in HI3 |- *.
    match goal with |- context [send_rsp ?wx peer seq ?px] =>
      pose proof (send_rsp_core wx peer seq px) as C;
      pose proof (send_rsp_correlated wx peer seq px eq_refl eq_refl) as Hcor;
      pose proof (send_rsp_out wx peer seq px) as Hout;
      destruct (send_rsp wx peer seq px) as [w4 o4] end. cbn [fst snd] in *.
    exists w4, (o ++ o4). split; [reflexivity|]. split; [eapply WInv_core; eauto|].
    exists o, o4. auto.
  - pose proof (WInv_new_node _ id peer HI) as HI3.
    match goal with |- context [send_rsp ?wx peer seq ?px] =>
      pose proof (send_rsp_core wx peer seq px) as C;
      pose proof (send_rsp_correlated wx peer seq px eq_refl eq_refl) as Hcor;
      pose proof (send_rsp_out wx peer seq px) as Hout;
      destruct (send_rsp wx peer seq px) as [w4 o4] end. cbn [fst snd] in *.
    exists w4, ([] ++ o4). split; [reflexivity|]. split; [eapply WInv_core; eauto|].
    exists [], o4. split; [reflexivity|]. split; [constructor|]. auto.
Qed.

(* ---------------------------------------------------------------- re-association removes exactly the node's sessions *)

Lemma delete_sess_none e w ref lid :
  (forall n, nth_error (w_heap w) ref = Some n -> ~ In lid (n_sess n)) -> delete_sess e w ref lid = Ok (w, None).
Proof.
  intros H. unfold delete_sess. destruct (nth_error (w_heap w) ref) as [n|]; [|reflexivity].
  destruct (memN lid (n_sess n)) eqn:E; [|reflexivity]. apply memN_In in E. exfalso. eapply H; eauto.
Qed.

Lemma reset_loop_exact e ref ids : forall w acc w' o n,
  WInv w -> nth_error (w_heap w) ref = Some n -> reset_loop e w ref ids acc = Ok (w', o) ->
  (forall lid' s', ~ In lid' (n_sess n) -> (live w' lid' s' <-> live w lid' s')) /\
  (forall r, ~ In (fst (fst r)) (n_sess n) -> (In r (w_dp w') <-> In r (w_dp w))) /\
  (forall lid, In lid ids -> In lid (n_sess n) ->
     (forall s', ~ live w' lid s') /\ (forall k id, ~ In (lid, k, id) (w_dp w'))).
Proof.
  induction ids as [|lid0 ids IH]; intros w acc w' o n HI Hn; cbn [reset_loop].
  - intros H. inversion H; subst. split; [tauto|]. split; [tauto|]. intros lid [].
  - destruct (in_dec N.eq_dec lid0 (n_sess n)) as [Hin|Hnin].
    + destruct (delete_sess_spec e w ref lid0 HI) as [w1 [r [Ed [DP Hsome]]]]. rewrite Ed.
      destruct (dl_nsess _ _ _ _ _ DP n Hn) as [n1 [Hn1 Hs1]].
      destruct r as [[[o1 s1] rs]|]; [|exfalso; eapply Hsome; eauto].
      destruct (dl_some _ _ _ _ _ DP _ _ _ eq_refl) as [_ [Hdead [_ [Hgone _]]]].
      intros E. destruct (IH w1 _ w' o n1 (dl_inv _ _ _ _ _ DP) Hn1 E) as [A [B C]].
      assert (Hsub : forall x, ~ In x (n_sess n) -> ~ In x (n_sess n1)) by (intros x Hx Hx1; apply Hs1 in Hx1; tauto).
      assert (Hnot0 : ~ In lid0 (n_sess n1)) by (intros Hx; apply Hs1 in Hx; tauto).
      split; [|split].
      * intros lid' s' Hx. rewrite (A lid' s' (Hsub _ Hx)). apply (dl_others _ _ _ _ _ DP). intros ->. contradiction.
      * intros r0 Hx. rewrite (B r0 (Hsub _ Hx)). apply (dl_dp_other _ _ _ _ _ DP). intros Heq. apply Hx. rewrite Heq. exact Hin.
      * intros lid [<-|Hl] Hl2.
        -- split.
           ++ intros s' HL'. apply (A lid0 s' Hnot0) in HL'. eapply Hdead; eauto.
           ++ intros k id Hi. apply (B (lid0, k, id) Hnot0) in Hi. eapply Hgone; eauto.
        -- destruct (N.eq_dec lid lid0) as [->|Hne].
           ++ split.
              ** intros s' HL'. apply (A lid0 s' Hnot0) in HL'. eapply Hdead; eauto.
              ** intros k id Hi. apply (B (lid0, k, id) Hnot0) in Hi. eapply Hgone; eauto.
           ++ apply C; [exact Hl|]. apply Hs1. split; assumption.
    + rewrite (delete_sess_none e w ref lid0) by (intros n0 Hn0; rewrite Hn in Hn0; injection Hn0 as <-; exact Hnin).
      intros E. destruct (IH w _ w' o n HI Hn E) as [A [B C]].
      split; [exact A|]. split; [exact B|].
      intros lid [<-|Hl] Hl2; [contradiction | apply C; assumption].
Qed.

Theorem reassociation_exact w peer seq id order e ref n :
  WInv w -> alookup id (w_rnodes w) = Some ref -> nth_error (w_heap w) ref = Some n ->
  exists w' out, handle_assoc w peer seq (IeVal id) order e = Ok (w', out) /\
    (forall lid' s', ~ In lid' (n_sess n) -> (live w' lid' s' <-> live w lid' s')) /\
    (forall r, ~ In (fst (fst r)) (n_sess n) -> (In r (w_dp w') <-> In r (w_dp w))) /\
    (forall lid, In lid (n_sess n) -> (forall s', ~ live w' lid s') /\ (forall k i, ~ In (lid, k, i) (w_dp w'))).
Proof.
  intros HI Er Hn. unfold handle_assoc. rewrite Er. unfold node_reset. rewrite Hn.
  match goal with |- context [reset_loop e w ref ?l []] => set (ids := l) end.
  destruct (reset_loop_ok e ref ids w [] HI) as [w1 [o [E _]]]. rewrite E.
  destruct (reset_loop_exact e ref ids w [] w1 o n HI Hn E) as [A [B C]].
  cbn [set_rnodes set_heap w_heap w_rnodes].
  match goal with |- context [send_rsp ?wx peer seq ?px] =>
    pose proof (send_rsp_core wx peer seq px) as Cc; destruct (send_rsp wx peer seq px) as [w4 o4] end.
  cbn [fst] in Cc. destruct Cc as [E1 [E2 [E3 [E4 E5]]]]. cbn [set_rnodes set_heap w_slots w_dp] in E1, E5.
  exists w4, (o ++ o4). split; [reflexivity|].
  assert (Hcov : forall x, In x (n_sess n) -> In x ids).
  { intros x Hx. unfold ids. apply in_app_iff. destruct (memN x order) eqn:Em.
    - left. apply filter_In. split; [apply dedup_In; apply memN_In; exact Em | apply memN_In; exact Hx].
    - right. apply filter_In. split; [exact Hx | rewrite Em; reflexivity]. }
  split; [|split].
  - intros lid' s' Hx. rewrite <- (A lid' s' Hx). unfold live. rewrite E1. tauto.
  - intros r Hx. rewrite E5. apply B. exact Hx.
  - intros lid Hl. destruct (C lid (Hcov _ Hl) Hl) as [C1 C2]. split.
    + intros s' HL'. apply (C1 s'). unfold live in *. rewrite <- E1. exact HL'.
    + intros k i. rewrite E5. apply C2.
Qed.

(* ---------------------------------------------------------------- SEID-0 report response *)

Lemma remote_sess_match heap sl rseid addr s :
  remote_sess heap sl rseid addr = Found s ->
  s_rid s = rseid /\ exists n, nth_error heap (s_node s) = Some n /\ n_addr n = addr.
Proof.
  induction sl as [|[x|] sl IH]; cbn [remote_sess]; [discriminate| |exact IH].
  destruct (s_rid x =? rseid) eqn:E1; cbn [andb]; [|exact IH].
  destruct (nth_error heap (s_node x)) as [n|] eqn:E2; [|exact IH].
  destruct (n_addr n =? addr) eqn:E3; [|exact IH].
  intros H. inversion H; subst. apply N.eqb_eq in E1. apply N.eqb_eq in E3. split; [assumption|]. exists n. auto.
Qed.

Theorem seid0_exact w peer t e :
  WInv w ->
  exists w' out, handle_report_rsp w peer 0 t e = Ok (w', out) /\ WInv w' /\
    (w' = w /\ out = [] \/
     exists s, live w (s_lid s) s /\ s_rid s = tx_rseid t /\
       (exists n, nth_error (w_heap w) (s_node s) = Some n /\ n_addr n = peer) /\
       wframe w w' (s_lid s) /\ (forall s', ~ live w' (s_lid s) s') /\ Forall (own_drv (s_lid s)) out).
Proof.
  intros HI. unfold handle_report_rsp. cbn [N.eqb].
  destruct (remote_sess (w_heap w) (w_slots w) (tx_rseid t) peer) as [s|] eqn:Er.
  2:{ exists w, []. split; [reflexivity|]. split; [assumption|]. left. auto. }
  pose proof (remote_sess_live _ _ _ _ HI Er) as HL.
  destruct (remote_sess_match _ _ _ _ _ Er) as [Hrid Hnode].
  destruct (delete_sess_spec e w (s_node s) (s_lid s) HI) as [w1 [r [Ed [DP Hsome]]]]. rewrite Ed.
  destruct (wi_node w HI _ _ HL) as [n [Hn Hin]].
  destruct r as [[[o1 s1] rs]|]; [|exfalso; eapply Hsome; eauto].
  destruct (dl_some _ _ _ _ _ DP _ _ _ eq_refl) as [_ [Hdead [_ [_ [Fo _]]]]].
  exists w1, o1. split; [reflexivity|]. split; [apply (dl_inv _ _ _ _ _ DP)|].
  right. exists s. split; [exact HL|]. split; [exact Hrid|]. split; [exact Hnode|].
  split; [constructor; [apply (dl_others _ _ _ _ _ DP) | apply (dl_dp_other _ _ _ _ _ DP)]|].
  split; [exact Hdead | exact Fo].
Qed.

(* ---------------------------------------------------------------- ownership *)

Theorem node_sets_disjoint w r1 r2 n1 n2 lid :
  WInv w -> nth_error (w_heap w) r1 = Some n1 -> nth_error (w_heap w) r2 = Some n2 ->
  In lid (n_sess n1) -> In lid (n_sess n2) -> r1 = r2.
Proof.
  intros HI H1 H2 I1 I2.
  destruct (wi_owner w HI _ _ _ H1 I1) as [s1 [L1 E1]].
  destruct (wi_owner w HI _ _ _ H2 I2) as [s2 [L2 E2]].
  rewrite (live_fun _ _ _ _ L1 L2) in E1. congruence.
Qed.

(* ---------------------------------------------------------------- the finding: takeover onto an associated node id *)

Definition no_ops : ops := mkOps [] [] [] [] [] [] [] [] [] [] [] [] [] [] [] [].
Definition no_env : env := mkEnv [] [].

(* nodes 0 and 1 each establish a session; node 1 takes over session 1 (Modification with Node ID 1: node 1 has its own
   association, so the session MOVES to it - fix "takeover by a node with its own association moves the session");
   node 1 re-associates: both of its sessions are removed, node 0 keeps its association and owns nothing.
   (Before the fix session 2 survived and node id 0 lost its association.) *)
Definition takeover_history : list event :=
  [EvRecv 0 1 (MAssocSetup (IeVal 0) []) no_env; EvRecv 1 1 (MAssocSetup (IeVal 1) []) no_env;
   EvRecv 0 2 (MEst (IeVal 0) (IeVal 10) no_ops) no_env; EvRecv 1 2 (MEst (IeVal 1) (IeVal 20) no_ops) no_env;
   EvRecv 1 3 (MMod 1 (IeVal 1) no_ops) no_env;
   EvRecv 1 4 (MAssocSetup (IeVal 1) []) no_env].

Example takeover_collision_exact :
  match run (init 0 1) takeover_history with
  | Ok (w, _) => map (option_map s_rid) (w_slots w) = [None; None] /\ alookup 0 (w_rnodes w) <> None /\
                 map n_sess (w_heap w) = [[]; []; []]
  | Fault _ => False
  end.
Proof. vm_compute. split; [reflexivity | split; [discriminate | reflexivity]]. Qed.

Theorem est_rejected_no_trace w peer seq nid fseid o e :
  (nid = IeAbsent \/ nid = IeBad \/ (exists id, nid = IeVal id /\ alookup id (w_rnodes w) = None) \/
   (exists id, nid = IeVal id /\ (fseid = IeAbsent \/ fseid = IeBad))) ->
  handle_est w peer seq nid fseid o e = Ok (w, []).
Proof.
  intros H. unfold handle_est.
  destruct H as [H | [H | [[id [H E]] | [id [H [H2 | H2]]]]]]; subst; try reflexivity.
  - rewrite E. reflexivity.
  - destruct (alookup id (w_rnodes w)); reflexivity.
  - destruct (alookup id (w_rnodes w)); reflexivity.
Qed.

(* ---------------------------------------------------------------- contained handler panics (fix 242a7e8) *)

(* a Modification whose handler is aborted after the operations of o: the invariant holds, every OTHER session and every
   other session's rules are untouched, only driver calls tagged with this session's SEID were made, NO datagram leaves,
   node table / free list / transaction tables are unchanged *)
Theorem mod_abort_spec w seid o e s :
  WInv w -> live w seid s ->
  exists w' out, handle_mod_abort w seid IeAbsent o e = Ok (w', out) /\ WInv w' /\ wframe w w' seid /\
    Forall (own_drv seid) out /\
    w_heap w' = w_heap w /\ w_rnodes w' = w_rnodes w /\ w_free w' = w_free w /\ w_rx w' = w_rx w /\ w_tx w' = w_tx w /\
    exists s1, live w' seid s1 /\ s_rid s1 = s_rid s /\ s_node s1 = s_node s.
Proof.
  intros HI HL. unfold handle_mod_abort. pose proof HL as HL0. apply lookup_found in HL0. rewrite HL0.
  destruct (run_categories e o mod_order (mkCtx s (w_dp w) [])) as [[c rs]|] eqn:Ec.
  2:{ exists w, []. split; [reflexivity|]. split; [assumption|]. split; [apply wframe_refl|]. split; [constructor|].
      repeat (split; [reflexivity|]). exists s. auto. }
  apply run_categories_good in Ec. cbn [fst] in Ec. destruct Ec as [[Fl Fr Fn Fo [o' [Eo Fo']]] HS]. cbn [c_s c_dp c_out] in *.
  assert (Hlid : s_lid s = seid) by (eapply live_lid; eauto).
  rewrite (put_slot_upd w seid s (c_s c) (c_dp c) HL) by congruence.
  exists (upd_world w seid (c_s c) (c_dp c)), (c_out c). split; [reflexivity|].
  assert (Hp : 1 <= seid) by (destruct HL; assumption).
  split.
  { eapply WInv_upd; eauto; [congruence | apply HS; eapply live_SOK; eauto | intros r Hr; apply Fo; congruence]. }
  split; [apply wframe_upd; [assumption | intros r Hr; apply Fo; congruence]|].
  split; [rewrite Eo; cbn; rewrite <- Hlid; exact Fo'|].
  repeat (split; [reflexivity|]).
  exists (c_s c). split; [apply (live_upd_same w seid s _ _ HL)|]. split; congruence.
Qed.

(* an Establishment aborted after the operations of o: either nothing happened, or exactly one fresh session exists
   (non-zero SEID not in use before), every session that existed is untouched, only driver calls tagged with the new
   SEID were made, no datagram leaves *)
Theorem est_abort_spec w id rid o e ref :
  WInv w -> alookup id (w_rnodes w) = Some ref ->
  exists w' out, handle_est_abort w (IeVal id) (IeVal rid) o e = Ok (w', out) /\ WInv w' /\
    (out = [] /\ w' = w \/
     exists lid s1, lid <> 0 /\ (forall s', ~ live w lid s') /\ live w' lid s1 /\ s_rid s1 = rid /\ s_node s1 = ref /\
       wframe w w' lid /\ Forall (own_drv lid) out).
Proof.
  intros HI Er. unfold handle_est_abort. rewrite Er.
  destruct (rnodes_ref_valid _ _ _ HI Er) as [n Hn].
  destruct (est_alloc_spec w rid ref n HI Hn) as [w2 [s [Ea AP]]].
  unfold est_alloc in Ea. destruct (new_sess w rid ref) as [[w1 s1]|f]; [|discriminate].
  inversion Ea; subst s1. clear Ea. rewrite H0. clear H0 w1.
  pose proof (ap_inv _ _ _ _ _ AP) as HI2. pose proof (ap_live _ _ _ _ _ AP) as HL2.
  destruct (run_categories e o est_order (mkCtx s (w_dp w2) [])) as [[c rs]|] eqn:Ec.
  2:{ exists w, []. split; [reflexivity|]. split; [assumption|]. left. auto. }
  apply run_categories_good in Ec. cbn [fst] in Ec. destruct Ec as [[Fl Fr Fn Fo [o' [Eo Fo']]] HS]. cbn [c_s c_dp c_out] in *.
  rewrite (put_slot_upd w2 (s_lid s) s (c_s c) (c_dp c) HL2 Fl).
  set (w3 := upd_world w2 (s_lid s) (c_s c) (c_dp c)).
  assert (HI3 : WInv w3).
  { eapply WInv_upd; eauto. apply HS. eapply live_SOK; eauto. }
  exists w3, (c_out c). split; [reflexivity|]. split; [exact HI3|].
  right. exists (s_lid s), (c_s c).
  assert (Hrid : s_rid s = rid) by (rewrite (ap_shape _ _ _ _ _ AP); reflexivity).
  assert (Hnode : s_node s = ref) by (rewrite (ap_shape _ _ _ _ _ AP); reflexivity).
  split; [apply (ap_nz _ _ _ _ _ AP)|]. split; [apply (ap_fresh _ _ _ _ _ AP)|].
  split; [apply (live_upd_same w2 (s_lid s) s _ _ HL2)|].
  split; [congruence|]. split; [congruence|].
  assert (Hp : 1 <= s_lid s) by (destruct HL2; assumption).
  split.
  { eapply wframe_trans; [|apply wframe_upd; [assumption | intros r Hr; apply Fo; exact Hr]].
    constructor.
    - apply (ap_others _ _ _ _ _ AP).
    - intros r _. rewrite (ap_dp _ _ _ _ _ AP). tauto. }
  rewrite Eo. cbn. exact Fo'.
Qed.

Lemma put_slot_rx w s w' : put_slot w s = Ok w' -> w_rx w' = w_rx w.
Proof. unfold put_slot. destruct (slot_set _ _ _); [|discriminate]. intros H. inversion H; subst. reflexivity. Qed.

Lemma new_sess_rx w rid ref w' s : new_sess w rid ref = Ok (w', s) -> w_rx w' = w_rx w.
Proof.
  unfold new_sess. destruct (rev (w_free w)).
  - intros H. inversion H; subst. reflexivity.
  - destruct (slot_set _ _ _); [|discriminate]. intros H. inversion H; subst. reflexivity.
Qed.

Lemma update_node_id_rx w ref id : w_rx (update_node_id w ref id) = w_rx w.
Proof. unfold update_node_id. destruct (nth_error (w_heap w) ref); reflexivity. Qed.

Lemma handle_est_abort_rx w nid fseid o e w' out : handle_est_abort w nid fseid o e = Ok (w', out) -> w_rx w' = w_rx w.
Proof.
  unfold handle_est_abort. destruct nid as [| |id]; try (intros H; inversion H; subst; reflexivity).
  destruct (alookup id (w_rnodes w)); [|intros H; inversion H; subst; reflexivity].
  destruct fseid as [| |rid]; try (intros H; inversion H; subst; reflexivity).
  destruct (new_sess w rid n) as [[w1 s]|f] eqn:En; [|discriminate]. apply new_sess_rx in En.
  match goal with |- context [run_categories e o est_order ?cx] => destruct (run_categories e o est_order cx) as [[c rs]|] end;
    [|intros H; inversion H; subst; reflexivity].
  match goal with |- context [put_slot ?wx ?sx] => destruct (put_slot wx sx) as [wb|f] eqn:Ep end; [|discriminate].
  apply put_slot_rx in Ep. intros H. inversion H; subst. rewrite Ep. cbn. exact En.
Qed.

Lemma takeover_rx w s id : w_rx (fst (takeover w s id)) = w_rx w.
Proof.
  unfold takeover. destruct (alookup id (w_rnodes w)) as [r|]; [destruct (Nat.eqb r (s_node s))|]; cbn [fst];
    try apply update_node_id_rx. reflexivity.
Qed.

(* takeover by a node id that already has an association of its own: that association is NOT displaced; exactly this
   session changes hands, every other session (and all rules) stay as they are *)
Theorem takeover_collision_spec w seid s newid ref' :
  WInv w -> live w seid s -> alookup newid (w_rnodes w) = Some ref' -> ref' <> s_node s ->
  WInv (fst (takeover w s newid)) /\ live (fst (takeover w s newid)) seid (snd (takeover w s newid)) /\
  s_node (snd (takeover w s newid)) = ref' /\ w_rnodes (fst (takeover w s newid)) = w_rnodes w /\
  (forall l x, l <> seid -> (live (fst (takeover w s newid)) l x <-> live w l x)) /\
  w_dp (fst (takeover w s newid)) = w_dp w.
Proof.
  intros HI HL Er Hne.
  destruct (takeover w s newid) as [w1 s1] eqn:Et.
  destruct (takeover_inv _ _ _ _ _ _ HI HL Et) as [A [B [C _]]]. cbn [fst snd].
  unfold takeover in Et. rewrite Er in Et. destruct (Nat.eqb_spec ref' (s_node s)) as [E|_]; [contradiction|].
  unfold move_sess in Et. inversion Et; subst. clear Et.
  split; [exact A|]. split; [exact B|]. split; [reflexivity|]. split; [reflexivity|]. split; [|reflexivity].
  intros l x Hl. pose proof (live_lid w seid s HI HL) as Hlid. rewrite Hlid.
  unfold live. cbn [set_heap set_dp set_slots_free w_slots].
  destruct HL as [Hp _].
  split; intros [H1 H2]; (split; [exact H1|]).
  - rewrite nth_error_set_nth_other in H2 by lia. exact H2.
  - rewrite nth_error_set_nth_other by lia. exact H2.
Qed.

Lemma handle_mod_abort_rx w seid nid o e w' out : handle_mod_abort w seid nid o e = Ok (w', out) -> w_rx w' = w_rx w.
Proof.
  unfold handle_mod_abort. destruct (lookup (w_slots w) seid) as [[s|]|f]; [| |discriminate].
  2:{ intros H; inversion H; subst; reflexivity. }
  destruct nid as [| |id]; [|intros H; inversion H; subst; reflexivity|].
  - destruct (run_categories e o mod_order _) as [[c rs]|]; [|intros H; inversion H; subst; reflexivity].
    match goal with |- context [put_slot ?wx ?sx] => destruct (put_slot wx sx) as [wb|f] eqn:Ep end; [|discriminate].
    apply put_slot_rx in Ep. intros H. inversion H; subst. rewrite Ep. reflexivity.
  - pose proof (takeover_rx w s id) as Ht. destruct (takeover w s id) as [w1 s1]. cbn [fst] in Ht.
    destruct (run_categories e o mod_order _) as [[c rs]|]; [|intros H; inversion H; subst; reflexivity].
    match goal with |- context [put_slot ?wx ?sx] => destruct (put_slot wx sx) as [wb|f] eqn:Ep end; [|discriminate].
    apply put_slot_rx in Ep. intros H. inversion H; subst. rewrite Ep. cbn. exact Ht.
Qed.

(* only driver calls come out of an aborted handler *)
Lemma handle_est_abort_out w nid fseid o e w' out : handle_est_abort w nid fseid o e = Ok (w', out) -> Forall is_drv out.
Proof.
  unfold handle_est_abort. destruct nid as [| |id]; try (intros H; inversion H; subst; constructor).
  destruct (alookup id (w_rnodes w)); [|intros H; inversion H; subst; constructor].
  destruct fseid as [| |rid]; try (intros H; inversion H; subst; constructor).
  destruct (new_sess w rid n) as [[w1 s]|f]; [|discriminate].
  match goal with |- context [run_categories e o est_order ?cx] => destruct (run_categories e o est_order cx) as [[c rs]|] eqn:Ec end;
    [|intros H; inversion H; subst; constructor].
  apply run_categories_good in Ec. cbn [fst] in Ec. destruct Ec as [[Fl Fr Fn Fo [o' [Eo Fo']]] HS]. cbn [c_s c_dp c_out] in *.
  match goal with |- context [put_slot ?wx ?sx] => destruct (put_slot wx sx) as [wb|f] end; [|discriminate].
  intros H. inversion H; subst. rewrite Eo. cbn. eapply own_drv_is_drv. exact Fo'.
Qed.

Lemma handle_mod_abort_out w seid nid o e w' out : handle_mod_abort w seid nid o e = Ok (w', out) -> Forall is_drv out.
Proof.
  unfold handle_mod_abort. destruct (lookup (w_slots w) seid) as [[s|]|f]; [| |discriminate].
  2:{ intros H; inversion H; subst; constructor. }
  destruct nid as [| |id]; [|intros H; inversion H; subst; constructor|].
  - destruct (run_categories e o mod_order _) as [[c rs]|] eqn:Ec; [|intros H; inversion H; subst; constructor].
    apply run_categories_good in Ec. cbn [fst] in Ec. destruct Ec as [[Fl Fr Fn Fo [o' [Eo Fo']]] HS]. cbn [c_s c_dp c_out] in *.
    match goal with |- context [put_slot ?wx ?sx] => destruct (put_slot wx sx) as [wb|f] end; [|discriminate].
    intros H. inversion H; subst. rewrite Eo. cbn. eapply own_drv_is_drv. exact Fo'.
  - destruct (takeover w s id) as [w1 s1].
    destruct (run_categories e o mod_order _) as [[c rs]|] eqn:Ec; [|intros H; inversion H; subst; constructor].
    apply run_categories_good in Ec. cbn [fst] in Ec. destruct Ec as [[Fl Fr Fn Fo [o' [Eo Fo']]] HS]. cbn [c_s c_dp c_out] in *.
    match goal with |- context [put_slot ?wx ?sx] => destruct (put_slot wx sx) as [wb|f] end; [|discriminate].
    intros H. inversion H; subst. rewrite Eo. cbn. eapply own_drv_is_drv. exact Fo'.
Qed.

(* whatever the aborted request was: the receive transaction is left WITHOUT a cached answer, so every retransmission
   of it is ignored (C06's duplicate theorem applies), and nothing but driver calls came out *)
Theorem abort_leaves_unanswered_transaction w peer seq m e w' out :
  is_request m = true -> klookup (peer, seq) (w_rx w) = None ->
  step w (EvRecvAbort peer seq m e) = Ok (w', out) ->
  klookup (peer, seq) (w_rx w') = Some None /\ Forall is_drv out.
Proof.
  intros Hq Hk. cbn [step]. rewrite Hq. unfold recv_request_abort. rewrite Hk.
  set (w0 := set_rx (kset (peer, seq) None (w_rx w)) w).
  assert (K0 : klookup (peer, seq) (w_rx w0) = Some None) by (unfold w0; cbn; apply klookup_kset_same).
  destruct m; try (intros H; inversion H; subst; split; [exact K0 | constructor]).
  - intros H. split; [rewrite (handle_est_abort_rx _ _ _ _ _ _ _ H); exact K0 | eapply handle_est_abort_out; exact H].
  - intros H. split; [rewrite (handle_mod_abort_rx _ _ _ _ _ _ _ H); exact K0 | eapply handle_mod_abort_out; exact H].
Qed.
