(* Socket write failures while a report is served (event EvReportWF): PfcpServer.sendReqTo takes the sequence counter,
   registers the transaction (whose send arms the retransmission timer) and only then writes; the error of the write is
   logged and nothing else happens.  So a failed first transmission changes nothing but the emission: the request is
   outstanding under its number, retried from the timer, retired by a response (C09), and no state is lost (C07). *)
From Coq Require Import String List NArith ZArith Bool Lia.
From GoUpf Require Import Bytes FlagsGen ConstsGen HandlerGen Pfcp PfcpBase PfcpSess PfcpClose PfcpTable PfcpDelete
  PfcpStep PfcpProps PfcpFrame PfcpCat PfcpUsage PfcpRef PfcpQueue.
Import ListNotations.
Local Open Scope N_scope.

Lemma drop_sends_no_send o d p r : ~ In (OSend d p r) (drop_sends o).
Proof. unfold drop_sends. rewrite filter_In. intros [_ H]. discriminate. Qed.

Lemma drop_sends_drv o op k seid id ok : In (ODrv op k seid id ok) (drop_sends o) <-> In (ODrv op k seid id ok) o.
Proof. unfold drop_sends. rewrite filter_In. cbn. tauto. Qed.

(* the event is the plain report with the emission taken away: same fault behaviour, same successor state *)
Theorem step_write_failure w seid items e :
  step w (EvReportWF seid items e) = write_fails (step w (EvReport seid items e)).
Proof. reflexivity. Qed.

Theorem write_failure_same_state w seid items e w' o :
  step w (EvReport seid items e) = Ok (w', o) -> step w (EvReportWF seid items e) = Ok (w', drop_sends o).
Proof. cbn [step]. intros ->. reflexivity. Qed.

Theorem write_failure_inv w seid items e w' o' :
  step w (EvReportWF seid items e) = Ok (w', o') ->
  exists o, step w (EvReport seid items e) = Ok (w', o) /\ o' = drop_sends o.
Proof.
  cbn [step]. destruct (serve_report w seid items) as [[w1 o1]|f]; cbn [write_fails]; [|discriminate].
  intros H. inversion H; subst. eauto.
Qed.

Theorem write_failure_emits_nothing w seid items e w' o' :
  step w (EvReportWF seid items e) = Ok (w', o') -> forall d p r, ~ In (OSend d p r) o'.
Proof. intros H d p r. apply write_failure_inv in H. destruct H as [o [_ ->]]. apply drop_sends_no_send. Qed.

(* a report made of usage items for a live session: ONE request, registered under the counter's value with retry
   count 0, the counter advanced modulo 2^24 - whether or not the write succeeds *)
Theorem usage_report_registers w seid s n usars :
  WInv w -> live w seid s -> nth_error (w_heap w) (s_node s) = Some n -> usars <> [] ->
  exists w' p,
    serve_report w seid (map RUsa usars) = Ok (w', [OSend (n_id n) p false]) /\
    klookup (n_id n, w_txseq w) (w_tx w') = Some (mkTx p 0 (s_rid s)) /\
    w_txseq w' = (w_txseq w + 1) mod 16777216.
Proof.
  intros HI HL Hn Hne. unfold serve_report.
  pose proof HL as HL0. apply lookup_found in HL0.
  rewrite HL0, Hn, (serve_items_usa_only w s (n_id n) usars []). cbn [app].
  destruct usars as [|r rs]; [congruence|].
  destruct (emit 0 false (s_urrs s) (r :: rs)) as [urrs ies] eqn:Ee.
  unfold send_req. cbn [set_urrs s_rid].
  assert (Hlid : s_lid s = seid) by (eapply live_lid; eauto).
  match goal with |- context [put_slot ?wx ?sx] =>
    assert (C2 : same_core w wx) by apply same_core_set_tx;
    assert (HLx : live wx seid s) by (apply (live_core _ _ _ _ C2); exact HL);
    assert (Ep : put_slot wx sx = Ok (upd_world wx seid sx (w_dp wx)))
      by (rewrite <- (put_slot_upd wx seid s sx (w_dp wx) HLx) by (cbn; congruence); destruct wx; reflexivity)
  end.
  rewrite Ep. eexists. eexists. split; [reflexivity|].
  destruct w; cbn. split; [|reflexivity].
  apply klookup_kset_same.
Qed.

Theorem failed_write_still_registered w seid s n usars e :
  WInv w -> live w seid s -> nth_error (w_heap w) (s_node s) = Some n -> usars <> [] ->
  exists w' p,
    step w (EvReportWF seid (map RUsa usars) e) = Ok (w', []) /\
    klookup (n_id n, w_txseq w) (w_tx w') = Some (mkTx p 0 (s_rid s)) /\
    w_txseq w' = (w_txseq w + 1) mod 16777216.
Proof.
  intros HI HL Hn Hne. destruct (usage_report_registers w seid s n usars HI HL Hn Hne) as [w' [p [E [K Q]]]].
  exists w', p. split; [|auto]. cbn [step]. rewrite E. reflexivity.
Qed.

(* ... and is then retried from the timer and retired by the peer's response exactly like a request that went out:
   the expiry re-sends the stored datagram (the first transmission the peer can see), the response releases the entry *)
Theorem failed_write_then_expiry w seid s n usars e :
  WInv w -> live w seid s -> nth_error (w_heap w) (s_node s) = Some n -> usars <> [] ->
  exists w' p, step w (EvReportWF seid (map RUsa usars) e) = Ok (w', []) /\
    (0 < w_maxretrans w' ->
       exists w'', step w' (EvTimeoutTx (n_id n) (w_txseq w)) = Ok (w'', [OSend (n_id n) p true])) /\
    (w_maxretrans w' = 0 ->
       exists w'', step w' (EvTimeoutTx (n_id n) (w_txseq w)) = Ok (w'', []) /\ klookup (n_id n, w_txseq w) (w_tx w'') = None).
Proof.
  intros HI HL Hn Hne. destruct (failed_write_still_registered w seid s n usars e HI HL Hn Hne) as [w' [p [E [K Q]]]].
  exists w', p. split; [exact E|].
  destruct (tx_retry_budget w' (n_id n) (w_txseq w) _ K) as [A B]. cbn [tx_count tx_pdu] in A, B. split.
  - intros H. destruct (A H) as [w'' [E2 _]]. eauto.
  - intros H. apply B. lia.
Qed.

(* ---------------------------------------------------------------- the same for received datagrams and expiries *)

Theorem step_write_failure_recv w peer seq m e :
  step w (EvRecvWF peer seq m e) = write_fails (step w (EvRecv peer seq m e)).
Proof. reflexivity. Qed.

Theorem step_write_failure_timeout w peer seq :
  step w (EvTimeoutTxWF peer seq) = write_fails (step w (EvTimeoutTx peer seq)).
Proof. reflexivity. Qed.

Theorem recv_write_failure_same_state w peer seq m e w' o :
  step w (EvRecv peer seq m e) = Ok (w', o) -> step w (EvRecvWF peer seq m e) = Ok (w', drop_sends o).
Proof. rewrite step_write_failure_recv. intros ->. reflexivity. Qed.

Theorem timeout_write_failure_same_state w peer seq w' o :
  step w (EvTimeoutTx peer seq) = Ok (w', o) -> step w (EvTimeoutTxWF peer seq) = Ok (w', drop_sends o).
Proof. rewrite step_write_failure_timeout. intros ->. reflexivity. Qed.

(* a Heartbeat Request whose response is lost in the socket: the response is retained all the same, and the
   retransmitted request is answered with it (the first copy the peer sees), without being executed *)
Theorem lost_heartbeat_response_retained w peer seq e e' :
  klookup (peer, seq) (w_rx w) = None ->
  exists w', step w (EvRecvWF peer seq MHeartbeat e) = Ok (w', []) /\
             step w' (EvRecv peer seq MHeartbeat e') = Ok (w', [OSend peer (PHeartbeatRsp seq) true]).
Proof.
  intros H. rewrite step_write_failure_recv. cbn [step is_request]. unfold recv_request at 1. rewrite H. unfold send_rsp.
  cbn [set_rx w_rx]. rewrite klookup_kset_same. eexists. split; [reflexivity|].
  unfold recv_request. cbn [set_rx w_rx]. rewrite klookup_kset_same. reflexivity.
Qed.

(* an expiry whose retransmission is lost in the socket counts against the budget like any other *)
Theorem lost_retransmission_counted w peer seq t :
  klookup (peer, seq) (w_tx w) = Some t -> tx_count t < w_maxretrans w ->
  exists w', step w (EvTimeoutTxWF peer seq) = Ok (w', []) /\
             klookup (peer, seq) (w_tx w') = Some (mkTx (tx_pdu t) (tx_count t + 1) (tx_rseid t)).
Proof.
  intros K Hlt. destruct (tx_retry_budget w peer seq t K) as [A _]. destruct (A Hlt) as [w' [E K']].
  exists w'. split; [|exact K']. rewrite step_write_failure_timeout, E. reflexivity.
Qed.
