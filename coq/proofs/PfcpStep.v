(* Every step of the server preserves the world invariant and raises no Go run-time fault
   (C07, go-upf's own fault sites; C04/C01 state invariants for all histories). *)
From Coq Require Import String List NArith ZArith Bool Lia.
From GoUpf Require Import Bytes FlagsGen ConstsGen HandlerGen Pfcp PfcpBase PfcpSess PfcpClose PfcpTable PfcpDelete.
Import ListNotations.
Local Open Scope N_scope.

(* the invariant does not mention the transaction tables *)
Definition same_core (w w' : world) : Prop :=
  w_slots w' = w_slots w /\ w_free w' = w_free w /\ w_heap w' = w_heap w /\ w_rnodes w' = w_rnodes w /\ w_dp w' = w_dp w.

Lemma WInv_core w w' : same_core w w' -> WInv w -> WInv w'.
Proof.
  intros [E1 [E2 [E3 [E4 E5]]]] HI. destruct HI as [A B C D E F G H].
  constructor; unfold live in *; rewrite ?E1, ?E2, ?E3, ?E4, ?E5; assumption.
Qed.

Lemma same_core_refl w : same_core w w. Proof. repeat split. Qed.
Lemma same_core_set_rx r w : same_core w (set_rx r w). Proof. repeat split. Qed.
Lemma same_core_set_tx t q w : same_core w (set_tx t q w). Proof. repeat split. Qed.
Lemma same_core_trans a b c : same_core a b -> same_core b c -> same_core a c.
Proof. unfold same_core. intuition congruence. Qed.

Lemma send_rsp_core w peer seq p : same_core w (fst (send_rsp w peer seq p)).
Proof. unfold send_rsp. destruct (klookup (peer, seq) (w_rx w)); cbn [fst]; [apply same_core_set_rx | apply same_core_refl]. Qed.

Lemma send_req_core w dst rseid p : same_core w (fst (send_req w dst rseid p)).
Proof. unfold send_req. cbn [fst]. apply same_core_set_tx. Qed.

Lemma live_core w w' lid s : same_core w w' -> (live w' lid s <-> live w lid s).
Proof. intros [E _]. unfold live. rewrite E. tauto. Qed.

(* ---------------------------------------------------------------- emission keeps the session consistent *)

Definition urr_rel (a b : list (N * urrinfo)) : Prop :=
  (forall u inf', alookup u b = Some inf' -> exists inf, alookup u a = Some inf /\ ui_removed inf' = ui_removed inf) /\
  (forall u inf, alookup u a = Some inf -> alookup u b <> None \/ ui_removed inf = true).

Lemma urr_rel_refl a : urr_rel a a.
Proof. split; intros u inf H; [exists inf; auto | left; congruence]. Qed.

Lemma urr_rel_trans a b c : urr_rel a b -> urr_rel b c -> urr_rel a c.
Proof.
  intros [A1 A2] [B1 B2]. split.
  - intros u inf' H. destruct (B1 _ _ H) as [i1 [H1 E1]]. destruct (A1 _ _ H1) as [i0 [H0 E0]].
    exists i0. split; [assumption | congruence].
  - intros u inf H. destruct (A2 _ _ H) as [Hb|Hr]; [|right; assumption].
    destruct (alookup u b) as [i1|] eqn:E; [|congruence].
    destruct (B2 _ _ E) as [Hc|Hr]; [left; assumption|].
    right. destruct (A1 _ _ E) as [i0 [H0 E0]]. rewrite H in H0. inversion H0; subst. congruence.
Qed.

Lemma emit_rel extra d urrs rs : urr_rel urrs (fst (emit extra d urrs rs)).
Proof.
  revert urrs. induction rs as [|r rs IH]; intros urrs; cbn [emit fst]; [apply urr_rel_refl|].
  destruct (alookup (r_urr r) urrs) as [inf|] eqn:E; [|apply IH].
  match goal with |- context [emit extra d ?u1 rs] => set (urrs1 := u1) end.
  pose proof (IH urrs1) as R2. destruct (emit extra d urrs1 rs) as [urrs2 ies]. cbn [fst] in *.
  eapply urr_rel_trans; [|exact R2]. unfold urrs1.
  destruct (d && ui_removed inf) eqn:Ed.
  - apply andb_true_iff in Ed. destruct Ed as [_ Hrm]. split.
    + intros u inf' H. destruct (N.eq_dec u (r_urr r)) as [->|Hne].
      * rewrite alookup_adel_same in H. discriminate.
      * rewrite alookup_adel_other in H by assumption. exists inf'. auto.
    + intros u inf0 H. destruct (N.eq_dec u (r_urr r)) as [->|Hne].
      * right. congruence.
      * left. rewrite alookup_adel_other by assumption. congruence.
  - split.
    + intros u inf' H. destruct (N.eq_dec u (r_urr r)) as [->|Hne].
      * rewrite alookup_aset_same in H. inversion H; subst. exists inf. auto.
      * rewrite alookup_aset_other in H by assumption. exists inf'. auto.
    + intros u inf0 H. left. destruct (N.eq_dec u (r_urr r)) as [->|Hne].
      * rewrite alookup_aset_same. discriminate.
      * rewrite alookup_aset_other by assumption. congruence.
Qed.

Lemma SOK_urr_rel s dp urrs' :
  SOK s dp -> NoDup (map fst (s_urrs s)) \/ True -> urr_rel (s_urrs s) urrs' -> SOK (set_urrs urrs' s) dp.
Proof.
  intros [Hc Hr] _ [R1 R2]. split.
  - intros k id Hi. cbn [set_urrs s_lid] in Hi. pose proof (Hc _ _ Hi) as Hin. rewrite recorded_set_urrs.
    destruct k; try assumption. cbn [recorded] in Hin.
    destruct (alookup id (s_urrs s)) as [inf|] eqn:E.
    + destruct (R2 _ _ E) as [Hn|Hrm].
      * destruct (alookup id urrs') as [i'|] eqn:E'; [|congruence]. eapply alookup_key; eauto.
      * exfalso. eapply Hr; eauto.
    + apply alookup_None in E. contradiction.
  - intros u inf' Hu Hrm. cbn [set_urrs s_urrs s_lid] in *.
    destruct (R1 _ _ Hu) as [i0 [H0 E0]]. eapply Hr; [exact H0 | congruence].
Qed.

Lemma SOK_set_q s dp q : SOK s dp -> SOK (set_q q s) dp.
Proof.
  intros [Hc Hr]. split.
  - intros k id Hi. apply Hc in Hi. destruct k; assumption.
  - intros u inf Hu Hrm. eapply Hr; eauto.
Qed.

Lemma push_SOK s dp pdrid p : SOK s dp -> SOK (push pdrid p s) dp.
Proof. intros H. unfold push. destruct (_ <? _); apply SOK_set_q; assumption. Qed.

Lemma push_ids pdrid p s : s_lid (push pdrid p s) = s_lid s /\ s_node (push pdrid p s) = s_node s /\ s_rid (push pdrid p s) = s_rid s.
Proof. unfold push. destruct (_ <? _); auto. Qed.

(* ---------------------------------------------------------------- misc world updates *)

Lemma remote_sess_live w rseid addr s :
  WInv w -> remote_sess (w_heap w) (w_slots w) rseid addr = Found s -> live w (s_lid s) s.
Proof.
  intros HI. assert (G : forall pre sl, w_slots w = pre ++ sl ->
           remote_sess (w_heap w) sl rseid addr = Found s -> exists i, nth_error (w_slots w) i = Some (Some s)).
  { intros pre sl. revert pre. induction sl as [|[x|] sl IH]; intros pre E; cbn [remote_sess]; [discriminate| |].
    - destruct (_ && _).
      + intros H. inversion H; subst. exists (length pre). rewrite E, nth_error_app2, Nat.sub_diag by lia. reflexivity.
      + apply (IH (pre ++ [Some x])). rewrite <- app_assoc. exact E.
    - apply (IH (pre ++ [None])). rewrite <- app_assoc. exact E. }
  intros H. destruct (G [] (w_slots w) eq_refl H) as [i Hi].
  pose proof (wi_lid w HI _ _ Hi) as El. split; [lia|].
  replace (N.to_nat (s_lid s - 1)) with i by lia. exact Hi.
Qed.

Lemma aset_pairs {V} k (v : V) l k' v' : In (k', v') (aset k v l) -> (k', v') = (k, v) \/ In (k', v') l.
Proof.
  induction l as [|[a b] l IH]; cbn.
  - intros [H|[]]; auto.
  - destruct (N.eqb k a); cbn; intros [H|H]; auto. destruct (IH H); auto.
Qed.

Lemma update_node_id_inv w ref newid n :
  WInv w -> nth_error (w_heap w) ref = Some n -> WInv (update_node_id w ref newid).
Proof.
  intros HI Hn. unfold update_node_id. rewrite Hn.
  destruct HI as [A B C D E F G H].
  constructor; cbn [set_rnodes set_heap w_free w_slots w_dp w_heap w_rnodes]; unfold live in *;
    cbn [set_rnodes set_heap w_free w_slots w_dp w_heap w_rnodes]; auto.
  - intros lid s HL. destruct (F _ _ HL) as [m [Hm Hin]]. rewrite node_upd_nth, Hm.
    destruct (Nat.eqb ref (s_node s)); eexists; (split; [reflexivity|]); assumption.
  - intros r m lid Hm Hin. rewrite node_upd_nth in Hm.
    destruct (nth_error (w_heap w) r) as [m0|] eqn:Em; [|discriminate].
    destruct (Nat.eqb ref r); inversion Hm; subst; cbn [n_sess] in Hin; eapply G; eauto.
  - intros id r Hin. rewrite node_upd_length.
    apply aset_pairs in Hin. destruct Hin as [Hin|Hin].
    + inversion Hin; subst. apply nth_error_Some. congruence.
    + unfold adel in Hin. apply filter_In in Hin. destruct Hin as [Hin _]. eapply H; eauto.
Qed.

(* handing a session over to another node object keeps the world invariant *)
Lemma In_delN x y l : In x (delN y l) <-> x <> y /\ In x l.
Proof.
  unfold delN. rewrite filter_In. split.
  - intros [H E]. split; [|exact H]. intros ->. rewrite N.eqb_refl in E. discriminate.
  - intros [H1 H2]. split; [exact H2|]. destruct (N.eqb y x) eqn:E; [apply N.eqb_eq in E; congruence | reflexivity].
Qed.

Lemma In_addN x y l : In x (addN y l) <-> x = y \/ In x l.
Proof.
  unfold addN. destruct (memN y l) eqn:E.
  - split; [auto|]. intros [->|H]; [|exact H]. unfold memN in E. apply existsb_exists in E. destruct E as [z [Hz Ez]].
    apply N.eqb_eq in Ez. subst. exact Hz.
  - rewrite in_app_iff. cbn [In]. split; [intros [H|[H|[]]]; auto | intros [H|H]; auto].
Qed.

Lemma move_sess_inv w seid s ref' m :
  WInv w -> live w seid s -> nth_error (w_heap w) ref' = Some m -> ref' <> s_node s ->
  WInv (fst (move_sess w s ref')) /\ live (fst (move_sess w s ref')) seid (set_node ref' s) /\
  w_dp (fst (move_sess w s ref')) = w_dp w.
Proof.
  intros HI HL Hm Hne.
  assert (Hlid : s_lid s = seid) by (eapply live_lid; eauto).
  pose proof HL as [Hp Hnth].
  unfold move_sess. cbn [fst]. rewrite Hlid.
  set (s' := set_node ref' s).
  set (h1 := node_upd (s_node s) (fun n => mkNode (n_id n) (n_addr n) (delN seid (n_sess n))) (w_heap w)).
  set (h2 := node_upd ref' (fun n => mkNode (n_id n) (n_addr n) (addN seid (n_sess n))) h1).
  change (set_dp (w_dp w) (set_slots_free (set_nth (N.to_nat (seid - 1)) (Some s') (w_slots w)) (w_free w) w))
    with (upd_world w seid s' (w_dp w)).
  set (wu := upd_world w seid s' (w_dp w)).
  assert (Lsame : live (set_heap h2 wu) seid s') by (apply (live_upd_same w seid s s' (w_dp w) HL)).
  assert (Lother : forall l x, l <> seid -> (live (set_heap h2 wu) l x <-> live w l x)).
  { intros l x Hl. apply (live_upd_other w seid s' (w_dp w) l x Hl Hp). }
  assert (Hh2 : forall r, nth_error h2 r =
     match nth_error (w_heap w) r with
     | Some n => if Nat.eqb ref' r then Some (mkNode (n_id n) (n_addr n) (addN seid (n_sess n)))
                 else if Nat.eqb (s_node s) r then Some (mkNode (n_id n) (n_addr n) (delN seid (n_sess n))) else Some n
     | None => None end).
  { intros r. unfold h2. rewrite node_upd_nth. unfold h1. rewrite node_upd_nth.
    destruct (nth_error (w_heap w) r) as [n|]; [|reflexivity].
    destruct (Nat.eqb_spec ref' r) as [->|E1]; destruct (Nat.eqb_spec (s_node s) r) as [E2|E2]; try reflexivity.
    exfalso. apply Hne. symmetry. exact E2. }
  split; [|split; [exact Lsame | reflexivity]].
  destruct HI as [A B C D E F G H].
  constructor; cbn [set_heap w_free w_slots w_dp w_heap w_rnodes]; cbn [wu upd_world set_dp set_slots_free w_free w_slots w_dp w_heap w_rnodes].
  - exact A.
  - intros id. rewrite (B id). rewrite nth_set_nth.
    assert (Hlt : (N.to_nat (seid - 1) < length (w_slots w))%nat) by (apply nth_error_Some; congruence).
    destruct (Nat.eqb_spec (N.to_nat (seid - 1)) (N.to_nat (id - 1))) as [E0|E0].
    + split; intros [H1 H2].
      * exfalso. rewrite <- E0 in H2. congruence.
      * exfalso. destruct (N.to_nat (seid - 1) <? length (w_slots w))%nat; discriminate.
    + tauto.
  - intros i x Hx. rewrite nth_set_nth in Hx.
    destruct (Nat.eqb_spec (N.to_nat (seid - 1)) i) as [E0|E0].
    + destruct (N.to_nat (seid - 1) <? length (w_slots w))%nat; inversion Hx; subst. cbn [s' set_node s_lid]. lia.
    + apply C. exact Hx.
  - intros sd k id Hi. destruct (D _ _ _ Hi) as [x [Lx Rx]].
    destruct (N.eq_dec sd seid) as [->|Hd].
    + exists s'. split; [exact Lsame|]. rewrite (live_fun _ _ _ _ Lx HL) in Rx. destruct k; exact Rx.
    + exists x. split; [apply Lother; assumption | exact Rx].
  - intros l x Lx. destruct (N.eq_dec l seid) as [->|Hd].
    + rewrite (live_fun _ _ _ _ Lx Lsame). pose proof (E _ _ HL) as Er. intros u inf Hu Hr Hi. apply (Er u inf Hu Hr). exact Hi.
    + apply Lother in Lx; [|exact Hd]. apply (E _ _ Lx).
  - intros l x Lx. destruct (N.eq_dec l seid) as [->|Hd].
    + rewrite (live_fun _ _ _ _ Lx Lsame). cbn [s' set_node s_node]. rewrite Hh2, Hm, Nat.eqb_refl.
      eexists. split; [reflexivity|]. cbn [n_sess]. apply In_addN. left. reflexivity.
    + apply Lother in Lx; [|exact Hd]. destruct (F _ _ Lx) as [n [Hn Hin]]. rewrite Hh2, Hn.
      destruct (Nat.eqb ref' (s_node x)); [eexists; split; [reflexivity|]; cbn [n_sess]; apply In_addN; right; exact Hin|].
      destruct (Nat.eqb (s_node s) (s_node x)); eexists; (split; [reflexivity|]); cbn [n_sess]; [apply In_delN; split; assumption | exact Hin].
  - intros r n l Hn Hin. rewrite Hh2 in Hn. destruct (nth_error (w_heap w) r) as [n0|] eqn:En0; [|discriminate].
    destruct (Nat.eqb_spec ref' r) as [<-|E1].
    + inversion Hn; subst n. cbn [n_sess] in Hin. apply In_addN in Hin. destruct Hin as [->|Hin].
      * exists s'. split; [exact Lsame | reflexivity].
      * destruct (G _ _ _ En0 Hin) as [x [Lx Ex]]. destruct (N.eq_dec l seid) as [->|Hd].
        -- exists s'. split; [exact Lsame | reflexivity].
        -- exists x. split; [apply Lother; assumption | exact Ex].
    + destruct (Nat.eqb_spec (s_node s) r) as [E2|E2].
      * inversion Hn; subst n. cbn [n_sess] in Hin. apply In_delN in Hin. destruct Hin as [Hd Hin].
        destruct (G _ _ _ En0 Hin) as [x [Lx Ex]]. exists x. split; [apply Lother; assumption | exact Ex].
      * inversion Hn; subst n. destruct (G _ _ _ En0 Hin) as [x [Lx Ex]].
        destruct (N.eq_dec l seid) as [->|Hd].
        -- exfalso. rewrite (live_fun _ _ _ _ Lx HL) in Ex. apply E2. exact Ex.
        -- exists x. split; [apply Lother; assumption | exact Ex].
  - intros id r Hin. unfold h2, h1. rewrite !node_upd_length. eapply H; eauto.
Qed.

Lemma takeover_inv w seid s newid w1 s1 :
  WInv w -> live w seid s -> takeover w s newid = (w1, s1) ->
  WInv w1 /\ live w1 seid s1 /\ w_dp w1 = w_dp w /\ s_lid s1 = s_lid s /\ s_rid s1 = s_rid s.
Proof.
  intros HI HL. unfold takeover.
  assert (Hrekey : forall id, WInv (update_node_id w (s_node s) id) /\ live (update_node_id w (s_node s) id) seid s /\
                              w_dp (update_node_id w (s_node s) id) = w_dp w).
  { intros id. destruct (wi_node w HI _ _ HL) as [n [Hn _]]. split; [eapply update_node_id_inv; eauto|].
    unfold update_node_id. rewrite Hn. split; [exact HL | reflexivity]. }
  destruct (alookup newid (w_rnodes w)) as [ref'|] eqn:Er.
  - destruct (Nat.eqb_spec ref' (s_node s)) as [E|E].
    + intros H. inversion H; subst. destruct (Hrekey newid) as [A [B C]]. auto.
    + intros H. assert (Hx : w1 = fst (move_sess w s ref') /\ s1 = set_node ref' s).
      { unfold move_sess in *. inversion H; subst. split; reflexivity. }
      destruct Hx as [-> ->].
      apply alookup_In in Er. pose proof (wi_rnodes w HI _ _ Er) as Hlt.
      destruct (nth_error (w_heap w) ref') as [m|] eqn:Em; [|apply nth_error_None in Em; lia].
      destruct (move_sess_inv w seid s ref' m HI HL Em E) as [A [B C]]. auto.
  - intros H. inversion H; subst. destruct (Hrekey newid) as [A [B C]]. auto.
Qed.

(* ---------------------------------------------------------------- committing a modified session *)

Lemma put_slot_upd w lid s0 s' dp' :
  live w lid s0 -> s_lid s' = lid -> put_slot (set_dp dp' w) s' = Ok (upd_world w lid s' dp').
Proof.
  intros [Hp H] El. unfold put_slot. cbn [set_dp w_slots]. rewrite El.
  rewrite slot_set_in_range by (apply nth_error_Some; congruence).
  destruct w; reflexivity.
Qed.

Definition step_ok (r : res (world * list out)) : Prop := exists w' o, r = Ok (w', o) /\ WInv w'.

Lemma step_ok_same w o : WInv w -> step_ok (Ok (w, o)).
Proof. intros H. exists w, o. auto. Qed.

Lemma step_ok_send_rsp w peer seq p o0 :
  WInv w -> step_ok (let '(w1, o1) := send_rsp w peer seq p in Ok (w1, o0 ++ o1)).
Proof.
  intros HI. pose proof (send_rsp_core w peer seq p) as C.
  destruct (send_rsp w peer seq p) as [w1 o1]. cbn [fst] in C.
  exists w1, (o0 ++ o1). split; [reflexivity|]. eapply WInv_core; eauto.
Qed.

Lemma step_ok_send_rsp' w peer seq p :
  WInv w -> step_ok (let '(w1, o1) := send_rsp w peer seq p in Ok (w1, o1)).
Proof.
  intros HI. pose proof (send_rsp_core w peer seq p) as C.
  destruct (send_rsp w peer seq p) as [w1 o1]. cbn [fst] in C.
  exists w1, o1. split; [reflexivity|]. eapply WInv_core; eauto.
Qed.

Lemma rnodes_ref_valid w id ref : WInv w -> alookup id (w_rnodes w) = Some ref -> exists n, nth_error (w_heap w) ref = Some n.
Proof.
  intros HI H. apply alookup_In in H. apply (wi_rnodes w HI) in H.
  destruct (nth_error (w_heap w) ref) as [n|] eqn:E; [eauto|]. apply nth_error_None in E. lia.
Qed.

(* ---------------------------------------------------------------- establishment *)

Lemma handle_est_ok w peer seq nid fseid o e : WInv w -> step_ok (handle_est w peer seq nid fseid o e).
Proof.
  intros HI. unfold handle_est.
  destruct nid as [| |id]; try (apply step_ok_same; assumption).
  destruct (alookup id (w_rnodes w)) as [ref|] eqn:Er; [|apply step_ok_same; assumption].
  destruct fseid as [| |rid]; try (apply step_ok_same; assumption).
  destruct (rnodes_ref_valid _ _ _ HI Er) as [n Hn].
  destruct (est_alloc_spec w rid ref n HI Hn) as [w2 [s [Ea AP]]].
  unfold est_alloc in Ea. destruct (new_sess w rid ref) as [[w1 s1]|f]; [|discriminate].
  inversion Ea; subst s1. clear Ea. rewrite H0. clear H0 w1.
  pose proof (ap_inv _ _ _ _ _ AP) as HI2. pose proof (ap_live _ _ _ _ _ AP) as HL2.
  destruct (run_categories e o est_order (mkCtx s (w_dp w2) [])) as [[c rs]|] eqn:Ec; [|apply step_ok_same; assumption].
  apply run_categories_good in Ec. cbn [fst] in Ec. destruct Ec as [[Fl Fr Fn Fo _] HS]. cbn [c_s c_dp] in *.
  rewrite (put_slot_upd w2 (s_lid s) s (c_s c) (c_dp c) HL2 Fl).
  apply step_ok_send_rsp.
  eapply WInv_upd; eauto. apply HS. eapply live_SOK; eauto.
Qed.

Lemma handle_est_abort_ok w nid fseid o e : WInv w -> step_ok (handle_est_abort w nid fseid o e).
Proof.
  intros HI. unfold handle_est_abort.
  destruct nid as [| |id]; try (apply step_ok_same; assumption).
  destruct (alookup id (w_rnodes w)) as [ref|] eqn:Er; [|apply step_ok_same; assumption].
  destruct fseid as [| |rid]; try (apply step_ok_same; assumption).
  destruct (rnodes_ref_valid _ _ _ HI Er) as [n Hn].
  destruct (est_alloc_spec w rid ref n HI Hn) as [w2 [s [Ea AP]]].
  unfold est_alloc in Ea. destruct (new_sess w rid ref) as [[w1 s1]|f]; [|discriminate].
  inversion Ea; subst s1. clear Ea. rewrite H0. clear H0 w1.
  pose proof (ap_inv _ _ _ _ _ AP) as HI2. pose proof (ap_live _ _ _ _ _ AP) as HL2.
  destruct (run_categories e o est_order (mkCtx s (w_dp w2) [])) as [[c rs]|] eqn:Ec; [|apply step_ok_same; assumption].
  apply run_categories_good in Ec. cbn [fst] in Ec. destruct Ec as [[Fl Fr Fn Fo _] HS]. cbn [c_s c_dp] in *.
  rewrite (put_slot_upd w2 (s_lid s) s (c_s c) (c_dp c) HL2 Fl).
  apply step_ok_same.
  eapply WInv_upd; eauto. apply HS. eapply live_SOK; eauto.
Qed.

(* ---------------------------------------------------------------- modification *)

Lemma handle_mod_ok w peer seq seid nid o e : WInv w -> step_ok (handle_mod w peer seq seid nid o e).
Proof.
  intros HI. unfold handle_mod.
  destruct (lookup (w_slots w) seid) as [[s|]|f] eqn:El.
  - apply lookup_found in El.
    assert (Main : forall w1 s1, WInv w1 -> live w1 seid s1 -> s_lid s1 = seid ->
      step_ok (match run_categories e o mod_order (mkCtx s1 (w_dp w1) []) with
               | Some (c, rs) =>
                 let '(urrs, ies) := emit 0 true (s_urrs (c_s c)) rs in
                 match put_slot (set_dp (c_dp c) w1) (set_urrs urrs (c_s c)) with
                 | Ok w2 => let '(w3, o3) := send_rsp w2 peer seq (PModRsp seq (s_rid s) CauseAccepted ies) in Ok (w3, c_out c ++ o3)
                 | Fault f => Fault f
                 end
               | None => Ok (w, [])
               end)).
    { intros w1 s1 HI1 HL1 Hlid.
      destruct (run_categories e o mod_order (mkCtx s1 (w_dp w1) [])) as [[c rs]|] eqn:Ec; [|apply step_ok_same; assumption].
      apply run_categories_good in Ec. cbn [fst] in Ec. destruct Ec as [[Fl Fr Fn Fo _] HS]. cbn [c_s c_dp] in *.
      pose proof (emit_rel 0 true (s_urrs (c_s c)) rs) as R.
      destruct (emit 0 true (s_urrs (c_s c)) rs) as [urrs ies]. cbn [fst] in R.
      rewrite (put_slot_upd w1 seid s1 (set_urrs urrs (c_s c)) (c_dp c) HL1) by (cbn; congruence).
      apply step_ok_send_rsp.
      eapply WInv_upd; eauto.
      * cbn. congruence.
      * apply SOK_urr_rel; auto. apply HS. eapply live_SOK; eauto.
      * intros r Hr. apply Fo. congruence. }
    assert (Hlid : s_lid s = seid) by (eapply live_lid; eauto).
    destruct nid as [| |id]; [|apply step_ok_same; assumption|].
    + apply Main; assumption.
    + destruct (takeover w s id) as [w1 s1] eqn:Et.
      destruct (takeover_inv _ _ _ _ _ _ HI El Et) as [HI1 [HL1 [_ [Hl1 _]]]].
      apply Main; [assumption | assumption | congruence].
  - apply step_ok_send_rsp'. assumption.
  - exfalso. eapply lookup_no_fault; eauto.
Qed.

Lemma handle_mod_abort_ok w seid nid o e : WInv w -> step_ok (handle_mod_abort w seid nid o e).
Proof.
  intros HI. unfold handle_mod_abort.
  destruct (lookup (w_slots w) seid) as [[s|]|f] eqn:El.
  - apply lookup_found in El.
    assert (Main : forall w1 s1, WInv w1 -> live w1 seid s1 -> s_lid s1 = seid ->
      step_ok (match run_categories e o mod_order (mkCtx s1 (w_dp w1) []) with
               | Some (c, _) =>
                 match put_slot (set_dp (c_dp c) w1) (c_s c) with
                 | Ok w2 => Ok (w2, c_out c)
                 | Fault f => Fault f
                 end
               | None => Ok (w, [])
               end)).
    { intros w1 s1 HI1 HL1 Hlid.
      destruct (run_categories e o mod_order (mkCtx s1 (w_dp w1) [])) as [[c rs]|] eqn:Ec; [|apply step_ok_same; assumption].
      apply run_categories_good in Ec. cbn [fst] in Ec. destruct Ec as [[Fl Fr Fn Fo _] HS]. cbn [c_s c_dp] in *.
      rewrite (put_slot_upd w1 seid s1 (c_s c) (c_dp c) HL1) by congruence.
      apply step_ok_same. eapply WInv_upd; eauto.
      * congruence.
      * apply HS. eapply live_SOK; eauto.
      * intros r Hr. apply Fo. congruence. }
    assert (Hlid : s_lid s = seid) by (eapply live_lid; eauto).
    destruct nid as [| |id]; [|apply step_ok_same; assumption|].
    + apply Main; assumption.
    + destruct (takeover w s id) as [w1 s1] eqn:Et.
      destruct (takeover_inv _ _ _ _ _ _ HI El Et) as [HI1 [HL1 [_ [Hl1 _]]]].
      apply Main; [assumption | assumption | congruence].
  - apply step_ok_same. assumption.
  - exfalso. eapply lookup_no_fault; eauto.
Qed.

(* ---------------------------------------------------------------- deletion *)

Lemma handle_del_ok w peer seq seid e : WInv w -> step_ok (handle_del w peer seq seid e).
Proof.
  intros HI. unfold handle_del.
  destruct (lookup (w_slots w) seid) as [[s|]|f] eqn:El.
  - destruct (delete_sess_spec e w (s_node s) seid HI) as [w' [r [Ed [DP _]]]]. rewrite Ed.
    destruct r as [[[o1 s1] rs]|].
    + destruct (emit USAR_TRIG_TERMR true (s_urrs s1) rs) as [u ies].
      apply step_ok_send_rsp. apply (dl_inv _ _ _ _ _ DP).
    + apply step_ok_send_rsp'. apply (dl_inv _ _ _ _ _ DP).
  - apply step_ok_send_rsp'. assumption.
  - exfalso. eapply lookup_no_fault; eauto.
Qed.

(* ---------------------------------------------------------------- association setup *)

Lemma dedup_In l x : In x (dedup l) <-> In x l.
Proof.
  unfold dedup. assert (G : forall acc, In x (fold_left (fun acc x => addN x acc) l acc) <-> In x l \/ In x acc).
  { induction l as [|a l IH]; intros acc; cbn [fold_left].
    - cbn. tauto.
    - rewrite IH, addN_In. cbn. intuition. }
  rewrite G. cbn. tauto.
Qed.

Lemma reset_loop_ok e ref ids : forall w acc, WInv w ->
  exists w' o, reset_loop e w ref ids acc = Ok (w', o) /\ WInv w' /\ w_rnodes w' = w_rnodes w /\
    length (w_heap w') = length (w_heap w) /\
    (forall n, nth_error (w_heap w) ref = Some n ->
       exists n', nth_error (w_heap w') ref = Some n' /\ forall x, In x (n_sess n') <-> In x (n_sess n) /\ ~ In x ids).
Proof.
  induction ids as [|lid ids IH]; intros w acc HI; cbn [reset_loop].
  - exists w, acc. split; [reflexivity|]. split; [exact HI|]. split; [reflexivity|]. split; [reflexivity|].
    intros n Hn. exists n. split; [assumption|]. intros x. cbn. tauto.
  - destruct (delete_sess_spec e w ref lid HI) as [w1 [r [Ed [DP _]]]]. rewrite Ed.
    assert (G : forall acc', exists w' o, reset_loop e w1 ref ids acc' = Ok (w', o) /\ WInv w' /\ w_rnodes w' = w_rnodes w /\
              length (w_heap w') = length (w_heap w) /\
              (forall n, nth_error (w_heap w) ref = Some n ->
                 exists n', nth_error (w_heap w') ref = Some n' /\ forall x, In x (n_sess n') <-> In x (n_sess n) /\ ~ In x (lid :: ids))).
    { intros acc'. destruct (IH w1 acc' (dl_inv _ _ _ _ _ DP)) as [w' [o [E [HI' [Er [Eh Hn]]]]]].
      exists w', o. split; [exact E|]. split; [exact HI'|].
      split; [rewrite Er; apply (dl_rnodes _ _ _ _ _ DP)|]. split; [rewrite Eh; apply (dl_hlen _ _ _ _ _ DP)|].
      intros n Hn0. destruct (dl_nsess _ _ _ _ _ DP n Hn0) as [n1 [Hn1 H1]].
      destruct (Hn n1 Hn1) as [n' [Hn' H']]. exists n'. split; [exact Hn'|].
      intros x. rewrite H', H1. cbn. intuition. }
    destruct r as [[[o1 s1] rs]|]; apply G.
Qed.

Lemma WInv_clear_nsess w ref n :
  WInv w -> nth_error (w_heap w) ref = Some n -> (forall x, ~ In x (n_sess n)) ->
  WInv (set_heap (node_upd ref (fun n => mkNode (n_id n) (n_addr n) []) (w_heap w)) w).
Proof.
  intros HI Hn He. destruct HI as [A B C D E F G H].
  constructor; cbn [set_heap w_free w_slots w_dp w_heap w_rnodes]; unfold live in *;
    cbn [set_heap w_free w_slots w_dp w_heap w_rnodes]; auto.
  - intros lid s HL. destruct (F _ _ HL) as [m [Hm Hin]]. rewrite node_upd_nth, Hm.
    destruct (Nat.eqb_spec ref (s_node s)) as [E1|E1].
    + exfalso. rewrite <- E1, Hn in Hm. inversion Hm; subst. eapply He; eauto.
    + eexists. split; [reflexivity | assumption].
  - intros r m lid Hm Hin. rewrite node_upd_nth in Hm.
    destruct (nth_error (w_heap w) r) as [m0|] eqn:Em; [|discriminate].
    destruct (Nat.eqb ref r); inversion Hm; subst; cbn [n_sess] in Hin; [destruct Hin | eapply G; eauto].
  - intros id r Hin. rewrite node_upd_length. eapply H; eauto.
Qed.

Lemma node_reset_ok e w ref order : WInv w ->
  exists w' o, node_reset e w ref order = Ok (w', o) /\ WInv w' /\ w_rnodes w' = w_rnodes w /\
               length (w_heap w') = length (w_heap w).
Proof.
  intros HI. unfold node_reset. destruct (nth_error (w_heap w) ref) as [n|] eqn:Hn.
  - match goal with |- context [reset_loop e w ref ?l []] => set (ids := l) end.
    destruct (reset_loop_ok e ref ids w [] HI) as [w1 [o [E [HI1 [Er [Eh Hns]]]]]]. rewrite E.
    destruct (Hns n Hn) as [n' [Hn' H']].
    exists (set_heap (node_upd ref (fun n0 => mkNode (n_id n0) (n_addr n0) []) (w_heap w1)) w1), o.
    split; [reflexivity|]. split; [|split; [exact Er|cbn [set_heap w_heap]; rewrite node_upd_length; exact Eh]].
    eapply WInv_clear_nsess; eauto.
    intros x Hx. apply H' in Hx. destruct Hx as [Hx Hnot]. apply Hnot. unfold ids.
    apply in_app_iff. destruct (memN x order) eqn:Em.
    + left. apply filter_In. split; [apply dedup_In; apply memN_In; exact Em | apply memN_In; exact Hx].
    + right. apply filter_In. split; [exact Hx | rewrite Em; reflexivity].
  - exists w, []. auto.
Qed.

Lemma WInv_new_node w id peer :
  WInv w ->
  WInv (set_rnodes (aset id (length (w_heap w)) (w_rnodes w)) (set_heap (w_heap w ++ [mkNode id peer []]) w)).
Proof.
  intros HI. destruct HI as [A B C D E F G H].
  constructor; cbn [set_rnodes set_heap w_free w_slots w_dp w_heap w_rnodes]; unfold live in *;
    cbn [set_rnodes set_heap w_free w_slots w_dp w_heap w_rnodes]; auto.
  - intros lid s HL. destruct (F _ _ HL) as [m [Hm Hin]]. exists m. split; [|assumption].
    rewrite nth_error_app1; [assumption|]. apply nth_error_Some. congruence.
  - intros r m lid Hm Hin.
    destruct (Nat.lt_ge_cases r (length (w_heap w))) as [Hlt|Hge].
    + rewrite nth_error_app1 in Hm by assumption. eapply G; eauto.
    + rewrite nth_error_app2 in Hm by assumption.
      destruct (r - length (w_heap w))%nat as [|k]; cbn in Hm.
      * inversion Hm; subst. destruct Hin.
      * destruct k; discriminate.
  - intros id' r Hin. rewrite app_length. cbn [length]. apply aset_pairs in Hin. destruct Hin as [Hin|Hin].
    + inversion Hin; subst. lia.
    + apply H in Hin. lia.
Qed.

Lemma WInv_adel_rnodes w id : WInv w -> WInv (set_rnodes (adel id (w_rnodes w)) w).
Proof.
  intros HI. destruct HI as [A B C D E F G H].
  constructor; cbn [set_rnodes w_free w_slots w_dp w_heap w_rnodes]; unfold live in *;
    cbn [set_rnodes w_free w_slots w_dp w_heap w_rnodes]; auto.
  intros id' r Hin. unfold adel in Hin. apply filter_In in Hin. destruct Hin as [Hin _]. eapply H; eauto.
Qed.

Lemma handle_assoc_ok w peer seq nid order e : WInv w -> step_ok (handle_assoc w peer seq nid order e).
Proof.
  intros HI. unfold handle_assoc.
  destruct nid as [| |id]; try (apply step_ok_same; assumption).
  destruct (alookup id (w_rnodes w)) as [ref|] eqn:Er.
  - destruct (node_reset_ok e w ref order HI) as [w1 [o [E [HI1 _]]]]. rewrite E.
    pose proof (WInv_adel_rnodes w1 id HI1) as HI2.
    pose proof (WInv_new_node _ id peer HI2) as HI3.
    cbn [set_rnodes w_heap w_rnodes] in HI3 |- *.
    apply step_ok_send_rsp. exact HI3.
  - pose proof (WInv_new_node _ id peer HI) as HI3.
    apply (step_ok_send_rsp _ peer seq (PAssocRsp seq CauseAccepted) []). exact HI3.
Qed.

(* ---------------------------------------------------------------- the request / response branches *)

Lemma WInv_set_rx r w : WInv w -> WInv (set_rx r w).
Proof. apply WInv_core. apply same_core_set_rx. Qed.

Lemma WInv_set_tx t q w : WInv w -> WInv (set_tx t q w).
Proof. apply WInv_core. apply same_core_set_tx. Qed.

Lemma recv_request_ok w peer seq m e : WInv w -> step_ok (recv_request w peer seq m e).
Proof.
  intros HI. unfold recv_request.
  destruct (klookup (peer, seq) (w_rx w)) as [[p|]|]; try (apply step_ok_same; assumption).
  pose proof (WInv_set_rx (kset (peer, seq) None (w_rx w)) w HI) as HI0.
  destruct m; try (apply step_ok_same; assumption).
  - apply step_ok_send_rsp'. assumption.
  - apply handle_assoc_ok. assumption.
  - apply handle_est_ok. assumption.
  - apply handle_mod_ok. assumption.
  - apply handle_del_ok. assumption.
Qed.

Lemma recv_request_abort_ok w peer seq m e : WInv w -> step_ok (recv_request_abort w peer seq m e).
Proof.
  intros HI. unfold recv_request_abort.
  destruct (klookup (peer, seq) (w_rx w)) as [[p|]|]; try (apply step_ok_same; assumption).
  pose proof (WInv_set_rx (kset (peer, seq) None (w_rx w)) w HI) as HI0.
  destruct m; try (apply step_ok_same; assumption).
  - apply handle_est_abort_ok. assumption.
  - apply handle_mod_abort_ok. assumption.
Qed.

Lemma handle_report_rsp_ok w peer hdr t e : WInv w -> step_ok (handle_report_rsp w peer hdr t e).
Proof.
  intros HI. unfold handle_report_rsp. destruct (hdr =? 0).
  - destruct (remote_sess (w_heap w) (w_slots w) (tx_rseid t) peer) as [s|] eqn:Er; [|apply step_ok_same; assumption].
    destruct (delete_sess_spec e w (s_node s) (s_lid s) HI) as [w' [r [Ed [DP _]]]]. rewrite Ed.
    destruct r as [[[o1 s1] rs]|]; apply step_ok_same; apply (dl_inv _ _ _ _ _ DP).
  - destruct (lookup (w_slots w) hdr) as [x|f] eqn:El; [apply step_ok_same; assumption|].
    exfalso. eapply lookup_no_fault; eauto.
Qed.

Lemma recv_response_ok w peer seq m e : WInv w -> step_ok (recv_response w peer seq m e).
Proof.
  intros HI. unfold recv_response.
  destruct (klookup (peer, seq) (w_tx w)) as [t|]; [|apply step_ok_same; assumption].
  pose proof (WInv_set_tx (kdel (peer, seq) (w_tx w)) (w_txseq w) w HI) as HI1.
  destruct m; try (apply step_ok_same; assumption).
  apply handle_report_rsp_ok. assumption.
Qed.

(* ---------------------------------------------------------------- reports *)

Ltac conj_split := repeat match goal with |- _ /\ _ => split end.

Lemma serve_items_spec items : forall w s dst usars w1 s1 o1 u,
  serve_items w s dst items usars = (w1, s1, o1, u) ->
  same_core w w1 /\ s_lid s1 = s_lid s /\ s_node s1 = s_node s /\ s_rid s1 = s_rid s /\
  s_urrs s1 = s_urrs s /\ (forall dp, SOK s dp -> SOK s1 dp).
Proof.
  induction items as [|it items IH]; intros w s dst usars w1 s1 o1 u; cbn [serve_items].
  - intros H. inversion H; subst. conj_split; auto using same_core_refl.
  - destruct it as [pdrid action p|r].
    + match goal with |- context [serve_items _ ?sx dst items usars] => set (s' := sx) end.
      assert (Hs' : s_lid s' = s_lid s /\ s_node s' = s_node s /\ s_rid s' = s_rid s /\ s_urrs s' = s_urrs s /\
                    (forall dp, SOK s dp -> SOK s' dp)).
      { unfold s'. destruct (_ && _).
        - destruct (push_ids pdrid p s) as [A [B C]]. conj_split; auto using same_core_refl.
          + unfold push. destruct (_ <? _); reflexivity.
          + intros dp. apply push_SOK.
        - conj_split; auto using same_core_refl. }
      destruct Hs' as [A [B [C [D E]]]].
      destruct (negb (flag_of APPLY_ACT_NOCP action)).
      * intros H. inversion H; subst. conj_split; auto using same_core_refl.
      * pose proof (send_req_core w dst (s_rid s') (PReportDLDR 0 (s_rid s') pdrid)) as C1.
        destruct (send_req w dst (s_rid s') (PReportDLDR 0 (s_rid s') pdrid)) as [wa oa]. cbn [fst] in C1.
        destruct (serve_items wa s' dst items usars) as [[[w2 s2] o2] u2] eqn:E2.
        intros H. inversion H; subst.
        destruct (IH _ _ _ _ _ _ _ _ E2) as [C2 [A2 [B2 [C3 [D2 E3]]]]].
        split; [eapply same_core_trans; eauto|]. conj_split; try congruence. intros dp Hdp. auto.
    + apply IH.
Qed.

Lemma serve_report_ok w seid items : WInv w -> step_ok (serve_report w seid items).
Proof.
  intros HI. unfold serve_report.
  destruct (lookup (w_slots w) seid) as [[s|]|f] eqn:El.
  - apply lookup_found in El.
    destruct (wi_node w HI _ _ El) as [n [Hn _]]. rewrite Hn.
    destruct (serve_items w s (n_id n) items []) as [[[w1 s1] o1] u] eqn:Es.
    destruct (serve_items_spec _ _ _ _ _ _ _ _ _ Es) as [C1 [A [B [C [D E]]]]].
    assert (HI1 : WInv w1) by (eapply WInv_core; eauto).
    assert (HL1 : live w1 seid s) by (apply (live_core _ _ _ _ C1); exact El).
    assert (Hlid : s_lid s = seid) by (eapply live_lid; eauto).
    assert (Hdp1 : w_dp w1 = w_dp w) by apply C1.
    pose proof (live_SOK _ _ _ HI El) as HS.
    destruct u as [[|r rs]|].
    + (* no usage reports *)
      assert (Ep : put_slot w1 s1 = Ok (upd_world w1 seid s1 (w_dp w1))).
      { rewrite <- (put_slot_upd w1 seid s s1 (w_dp w1) HL1) by congruence. destruct w1; reflexivity. }
      rewrite Ep. apply step_ok_same. eapply WInv_upd; eauto; try congruence; try tauto.
      rewrite Hdp1. apply E. exact HS.
    + pose proof (emit_rel 0 false (s_urrs s1) (r :: rs)) as R.
      destruct (emit 0 false (s_urrs s1) (r :: rs)) as [urrs ies]. cbn [fst] in R.
      pose proof (send_req_core w1 (n_id n) (s_rid (set_urrs urrs s1)) (PReportUSAR 0 (s_rid (set_urrs urrs s1)) ies)) as C2.
      destruct (send_req w1 (n_id n) (s_rid (set_urrs urrs s1)) (PReportUSAR 0 (s_rid (set_urrs urrs s1)) ies)) as [w2 o2].
      cbn [fst] in C2.
      assert (HI2 : WInv w2) by (eapply WInv_core; eauto).
      assert (HL2 : live w2 seid s) by (apply (live_core _ _ _ _ C2); exact HL1).
      assert (Hdp2 : w_dp w2 = w_dp w) by (destruct C2 as [_ [_ [_ [_ X]]]]; congruence).
      assert (Ep : put_slot w2 (set_urrs urrs s1) = Ok (upd_world w2 seid (set_urrs urrs s1) (w_dp w2))).
      { rewrite <- (put_slot_upd w2 seid s (set_urrs urrs s1) (w_dp w2) HL2) by (cbn; congruence). destruct w2; reflexivity. }
      rewrite Ep. apply step_ok_same. eapply WInv_upd; eauto; try (cbn; congruence); try tauto.
      rewrite Hdp2. apply SOK_urr_rel; auto.
    + assert (Ep : put_slot w1 s1 = Ok (upd_world w1 seid s1 (w_dp w1))).
      { rewrite <- (put_slot_upd w1 seid s s1 (w_dp w1) HL1) by congruence. destruct w1; reflexivity. }
      rewrite Ep. apply step_ok_same. eapply WInv_upd; eauto; try congruence; try tauto.
      rewrite Hdp1. apply E. exact HS.
  - apply step_ok_same. assumption.
  - exfalso. eapply lookup_no_fault; eauto.
Qed.

(* ---------------------------------------------------------------- the step and all histories *)

Lemma step_ok_write_fails r : step_ok r -> step_ok (write_fails r).
Proof. intros [w' [o [E HI]]]. subst r. exists w', (drop_sends o). split; [reflexivity|exact HI]. Qed.

Theorem step_preserves_inv w ev : WInv w -> step_ok (step w ev).
Proof.
  intros HI. destruct ev as [peer seq m e|peer seq m e|seid items e|peer seq|peer seq|seid items e|peer seq m e|peer seq]; cbn [step].
  - destruct (is_request m); [apply recv_request_ok | apply recv_response_ok]; assumption.
  - destruct (is_request m); [apply recv_request_abort_ok; assumption|].
    destruct (klookup (peer, seq) (w_tx w)); apply step_ok_same; [apply WInv_set_tx|]; assumption.
  - apply serve_report_ok. assumption.
  - unfold timeout_tx. destruct (klookup (peer, seq) (w_tx w)) as [t|]; [|apply step_ok_same; assumption].
    destruct (tx_count t <? w_maxretrans w); apply step_ok_same; apply WInv_set_tx; assumption.
  - apply step_ok_same. apply WInv_set_rx. assumption.
  - apply step_ok_write_fails. apply serve_report_ok. assumption.
  - apply step_ok_write_fails. destruct (is_request m); [apply recv_request_ok | apply recv_response_ok]; assumption.
  - apply step_ok_write_fails. unfold timeout_tx. destruct (klookup (peer, seq) (w_tx w)) as [t|]; [|apply step_ok_same; assumption].
    destruct (tx_count t <? w_maxretrans w); apply step_ok_same; apply WInv_set_tx; assumption.
Qed.

Lemma WInv_init q m : WInv (init q m).
Proof.
  constructor; cbn; try tauto.
  - constructor.
  - intros id. split; [intros []|]. intros [_ H]. destruct (N.to_nat (id - 1)); discriminate.
  - intros i s H. destruct i; discriminate.
  - intros lid s [_ H]. destruct (N.to_nat (lid - 1)); discriminate.
  - intros lid s [_ H]. destruct (N.to_nat (lid - 1)); discriminate.
  - intros r n lid H. destruct r; discriminate.
Qed.

(* every history: no fault, and the invariant holds in the final state *)
Theorem run_no_fault_inv evs : forall w, WInv w -> exists w' os, run w evs = Ok (w', os) /\ WInv w'.
Proof.
  induction evs as [|ev evs IH]; intros w HI; cbn [run].
  - exists w, []. auto.
  - destruct (step_preserves_inv w ev HI) as [w1 [o [E HI1]]]. rewrite E.
    destruct (IH w1 HI1) as [w2 [os [E2 HI2]]]. rewrite E2. exists w2, (o :: os). auto.
Qed.
