From Coq Require Import List NArith Bool Lia.
From GoUpf Require Import Bytes FlagsGen ConstsGen GtpuGen Gtpu GtpuRef GtpuProofs Release.
Import ListNotations.
Local Open Scope N_scope.

Definition queue_of (s : rstate) (pdr : N) : list pkt :=
  match alook pdr (r_q s) with Some q => q | None => [] end.

Definition e_payload (e : emission) : option (list N) :=
  match e with Emit _ _ bs => option_map g_payload (ref_parse bs) end.
Definition e_teid (e : emission) : option N :=
  match e with Emit _ _ bs => option_map g_teid (ref_parse bs) end.
Definition e_qfi (e : emission) : option (option N) :=
  match e with Emit _ _ bs => option_map (fun g => option_map snd (g_ext g)) (ref_parse bs) end.
Definition e_dst (e : emission) : N * N := match e with Emit p q _ => (p, q) end.

Definition small_pkt (p : pkt) : Prop := N.of_nat (length p) + 8 < 65536.

Lemma write_packet_parse teid qfi p :
  teid < 4294967296 -> (match qfi with Some q => q < 64 | None => True end) -> small_pkt p ->
  ref_parse (encode (write_packet_msg teid qfi p)) =
  Some {| g_version := 1; g_pt := true; g_type := 255;
          g_len := N.of_nat (length (encode (write_packet_msg teid qfi p))) - 8;
          g_teid := teid; g_ext := option_map (fun x => (0, x)) qfi; g_payload := p |}.
Proof.
  intros Ht Hq Hp. rewrite emitted_write_packet. apply roundtrip; [assumption| |].
  - destruct qfi; cbn; [split; [lia | assumption] | exact I].
  - rewrite msg_len_emitted. unfold small_pkt in Hp. destruct qfi; cbn [option_map]; lia.
Qed.

Lemma release_list h qfi (q : list pkt) :
  oh_teid h < 4294967296 -> (match qfi with Some x => x < 64 | None => True end) -> Forall small_pkt q ->
  let es := map (fun p => Emit (oh_peer h) (oh_port h) (encode (write_packet_msg (oh_teid h) qfi p))) q in
  map e_payload es = map Some q /\
  Forall (fun e => e_dst e = (oh_peer h, oh_port h) /\ e_teid e = Some (oh_teid h) /\ e_qfi e = Some qfi) es.
Proof.
  intros Ht Hq Hs. cbv zeta. induction q as [|p ps IH]; cbn [map]; [split; constructor|].
  inversion Hs as [|? ? Hp1 Hps]; subst. destruct (IH Hps) as [I1 I2].
  assert (R := write_packet_parse (oh_teid h) qfi p Ht Hq Hp1).
  split.
  - cbn [e_payload]. rewrite R. cbn [option_map g_payload]. f_equal. exact I1.
  - constructor; [|exact I2]. cbn [e_dst e_teid e_qfi]. rewrite R. cbn [option_map g_teid g_ext].
    split; [reflexivity|]. split; [reflexivity|]. destruct qfi; reflexivity.
Qed.

(* one PDR's release: its queued packets, in queue order, each once, as G-PDUs with the FAR's outer header and the PDR's QFI *)
Theorem release_pdr_exact s f pdr far qs h :
  alook pdr (r_pdrs s) = Some (far, qs) -> kf_ohc f = Some h -> oh_teid h < 4294967296 ->
  (forall q, first_qfi s qs = Some q -> q < 64) -> Forall small_pkt (queue_of s pdr) ->
  map e_payload (release_pdr s f pdr) = map Some (queue_of s pdr) /\
  Forall (fun e => e_dst e = (oh_peer h, oh_port h) /\ e_teid e = Some (oh_teid h) /\ e_qfi e = Some (first_qfi s qs))
         (release_pdr s f pdr).
Proof.
  intros Hp Hh Ht Hq Hs. unfold release_pdr. rewrite Hp, Hh.
  apply (release_list h (first_qfi s qs) (queue_of s pdr) Ht); [|exact Hs].
  destruct (first_qfi s qs) eqn:E; [apply Hq; reflexivity | exact I].
Qed.

Lemma alook_aput_same {V} k (v : V) l : alook k (aput k v l) = Some v.
Proof.
  induction l as [|[a b] l IH]; cbn; [rewrite N.eqb_refl; reflexivity|].
  destruct (N.eqb_spec k a) as [->|Hn]; cbn; [rewrite N.eqb_refl; reflexivity|].
  destruct (N.eqb_spec k a); [congruence | assumption].
Qed.

Lemma alook_aput_other {V} k k' (v : V) l : k' <> k -> alook k' (aput k v l) = alook k' l.
Proof.
  intros Hn. induction l as [|[a b] l IH]; cbn.
  - destruct (N.eqb_spec k' k); [congruence | reflexivity].
  - destruct (N.eqb_spec k a) as [->|Hk]; cbn.
    + destruct (N.eqb_spec k' a); [congruence | reflexivity].
    + destruct (N.eqb_spec k' a); [reflexivity | assumption].
Qed.

Lemma empty_queue_same pdr q : match alook pdr (empty_queue pdr q) with Some x => x = [] | None => True end.
Proof.
  unfold empty_queue. destruct (alook pdr q) eqn:E; [rewrite alook_aput_same; reflexivity | rewrite E; exact I].
Qed.

Lemma empty_queue_other pdr p q : p <> pdr -> alook p (empty_queue pdr q) = alook p q.
Proof. intros H. unfold empty_queue. destruct (alook pdr q); [apply alook_aput_other; assumption | reflexivity]. Qed.

Lemma drained_drop_spec s pdrs p :
  (In p pdrs -> match alook p (drained_drop s pdrs) with Some x => x = [] | None => True end) /\
  (~ In p pdrs -> alook p (drained_drop s pdrs) = alook p (r_q s)).
Proof.
  unfold drained_drop. generalize (r_q s) as q. induction pdrs as [|a l IH]; intros q; cbn [fold_left].
  - split; [intros [] | reflexivity].
  - destruct (IH (empty_queue a q)) as [I1 I2]. split.
    + intros [->|Hin].
      * destruct (in_dec N.eq_dec p l) as [Hl|Hl]; [apply I1; exact Hl|].
        rewrite (I2 Hl). apply empty_queue_same.
      * apply I1. exact Hin.
    + intros Hn. rewrite I2 by (intros H; apply Hn; right; exact H).
      apply empty_queue_other. intros ->. apply Hn. left. reflexivity.
Qed.

(* BUFF -> DROP: nothing is emitted, the queues of the FAR's PDRs are emptied, all other queues are untouched *)
Theorem update_far_drop s u old a :
  alook (fu_id u) (r_fars s) = Some old -> fu_action u = Some a ->
  flag_of APPLY_ACT_BUFF (kf_action old) = true -> flag_of APPLY_ACT_DROP a = true ->
  let '(s', es) := update_far s u in
  es = [] /\
  (forall p, In p (related_pdrs s (fu_id u)) -> queue_of s' p = []) /\
  (forall p, ~ In p (related_pdrs s (fu_id u)) -> queue_of s' p = queue_of s p).
Proof.
  intros Ho Ha Hb Hd. unfold update_far. rewrite Ho, Ha, Hb, Hd. cbn [negb].
  split; [reflexivity|]. unfold queue_of. cbn [r_q r_pdrs related_pdrs].
  set (s1 := mkR _ (r_pdrs s) (r_qers s) (r_q s) (r_alive s)).
  assert (Er : related_pdrs s1 (fu_id u) = related_pdrs s (fu_id u)) by reflexivity.
  split; intros p Hp.
  - destruct (drained_drop_spec s1 (related_pdrs s1 (fu_id u)) p) as [I1 _]. rewrite Er in *.
    specialize (I1 Hp). destruct (alook p (drained_drop s1 (related_pdrs s (fu_id u)))); [exact I1 | reflexivity].
  - destruct (drained_drop_spec s1 (related_pdrs s1 (fu_id u)) p) as [_ I2]. rewrite Er in *. rewrite (I2 Hp). reflexivity.
Qed.

(* no Apply Action IE, or the FAR was not buffering: no packet leaves and no queue changes *)
Theorem update_far_no_release s u :
  (fu_action u = None \/ (exists old, alook (fu_id u) (r_fars s) = Some old /\ flag_of APPLY_ACT_BUFF (kf_action old) = false)
   \/ alook (fu_id u) (r_fars s) = None) ->
  snd (update_far s u) = [] /\ r_q (fst (update_far s u)) = r_q s.
Proof.
  intros H. unfold update_far. destruct (alook (fu_id u) (r_fars s)) as [old|] eqn:Eo; [|auto].
  destruct H as [H|[[o [Ho Hb]]|H]]; [rewrite H; auto| |discriminate].
  inversion Ho; subst. destruct (fu_action u); [rewrite Hb; auto | auto].
Qed.

Lemma first_qfi_ext s s' qs : r_qers s' = r_qers s -> first_qfi s' qs = first_qfi s qs.
Proof. intros E. induction qs as [|q r IH]; cbn [first_qfi]; [reflexivity|]. rewrite E, IH. reflexivity. Qed.

Lemma release_pdr_ext s s' f p :
  r_pdrs s' = r_pdrs s -> r_qers s' = r_qers s -> r_q s' = r_q s -> release_pdr s' f p = release_pdr s f p.
Proof.
  intros E1 E2 E3. unfold release_pdr. rewrite E1, E3.
  destruct (alook p (r_pdrs s)) as [[fa qs]|]; [|reflexivity]. rewrite (first_qfi_ext s s' qs E2). reflexivity.
Qed.

(* BUFF -> FORW: the emissions are exactly, PDR by PDR in the data plane's order, the release of each PDR with the
   UPDATED forwarding parameters; afterwards the queues of the PDRs the data plane knows are empty *)
Theorem update_far_forw s u old a :
  alook (fu_id u) (r_fars s) = Some old -> fu_action u = Some a ->
  flag_of APPLY_ACT_BUFF (kf_action old) = true -> flag_of APPLY_ACT_DROP a = false -> flag_of APPLY_ACT_FORW a = true ->
  let f' := mkFar a (match fu_ohc u with Some h => Some h | None => kf_ohc old end) in
  let '(s', es) := update_far s u in
  es = flat_map (fun p => release_pdr s f' p) (related_pdrs s (fu_id u)) /\
  alook (fu_id u) (r_fars s') = Some f'.
Proof.
  intros Ho Ha Hb Hd Hf. unfold update_far. rewrite Ho, Ha, Hb, Hd, Hf. cbn [negb].
  split; [|cbn [r_fars]; apply alook_aput_same].
  apply flat_map_ext. intros p. apply release_pdr_ext; reflexivity.
Qed.

(* a queue never exceeds the capacity, older packets are never displaced *)
Theorem buffer_in_fifo_cap s pdr action p :
  let '(s', d) := buffer_in s pdr action p in
  (exists tl, queue_of s' pdr = queue_of s pdr ++ tl /\ (tl = [] \/ tl = [p])) /\
  (N.of_nat (length (queue_of s pdr)) <= BUFFQ_LEN -> N.of_nat (length (queue_of s' pdr)) <= BUFFQ_LEN) /\
  (forall q, q <> pdr -> queue_of s' q = queue_of s q) /\
  d = (if r_alive s && flag_of APPLY_ACT_NOCP action then [pdr] else []).
Proof.
  unfold buffer_in. destruct (r_alive s) eqn:Ea; cbn [negb andb].
  2:{ split; [exists []; rewrite app_nil_r; auto|]. auto. }
  unfold queue_of.
  destruct (flag_of APPLY_ACT_BUFF action && negb match p with [] => true | _ => false end) eqn:Ep.
  - cbn [r_q]. rewrite alook_aput_same.
    destruct (N.ltb_spec (N.of_nat (length (match alook pdr (r_q s) with Some q => q | None => [] end))) BUFFQ_LEN) as [Hl|Hl].
    + split; [exists [p]; auto|]. split; [intros _; rewrite app_length; cbn [length]; lia|].
      split; [intros q Hq; rewrite alook_aput_other by assumption; reflexivity | reflexivity].
    + split; [exists []; rewrite app_nil_r; auto|]. split; [auto|].
      split; [intros q Hq; rewrite alook_aput_other by assumption; reflexivity | reflexivity].
  - split; [exists []; rewrite app_nil_r; auto|]. auto.
Qed.

(* after the session ended nothing is queued: a later session under the same SEID cannot release old packets *)
Theorem ended_session_holds_nothing s : r_q (fst (fst (rstep_run s RDel))) = [].
Proof. reflexivity. Qed.

Lemma update_far_empty_queues s u : r_q s = [] -> snd (update_far s u) = [].
Proof.
  intros Hq. unfold update_far. destruct (alook (fu_id u) (r_fars s)) as [old|]; [|reflexivity].
  destruct (fu_action u) as [a|]; [|reflexivity].
  destruct (negb (flag_of APPLY_ACT_BUFF (kf_action old))); [reflexivity|].
  destruct (flag_of APPLY_ACT_DROP a); [reflexivity|]. destruct (flag_of APPLY_ACT_FORW a); [|reflexivity].
  cbn [snd]. induction (related_pdrs _ _) as [|p l IH]; cbn [flat_map]; [reflexivity|].
  rewrite IH, app_nil_r. unfold release_pdr. cbn [r_pdrs r_q]. rewrite Hq.
  destruct (alook p (r_pdrs s)) as [[f qs]|]; [|reflexivity]. destruct (match fu_ohc u with Some _ => _ | None => _ end); reflexivity.
Qed.
