(* C10, kernel side: proofs about model/UsageDec.v. *)
From Coq Require Import List NArith ZArith Bool String Lia.
From GoUpf Require Import Bytes Nlattr RulesGen FlagsGen Flags UsageDecGen Pfcp PfcpBase PfcpUsage UsageDec.
Import ListNotations.
Local Open Scope N_scope.

(* ------------------------------------------------------------------ the library's decoder clauses (T-gen) are the ones
   model/UsageDec.v (dec_all / dec_report / dec_vol) was written from *)
Example decoder_clauses_pinned :
  usagedec_alldecoder =
    [("UR", "r, err := decodeUSAReport(b[n:attrLen]); if err != nil { return nil, err }; usars = append(usars, *r)")]%string /\
  usagedec_decoder =
    [("UR_URRID", "report.URRID = native.Uint32(b[n:attrLen])");
     ("UR_USAGE_REPORT_TRIGGER", "report.USARTrigger = native.Uint32(b[n:attrLen])");
     ("UR_URSEQN", "report.URSEQN = native.Uint32(b[n:attrLen])");
     ("UR_VOLUME_MEASUREMENT", "volMeasurement, err := decodeVolumeMeasurement(b[n:attrLen]); if err != nil { return nil, err }; report.VolMeasurement = volMeasurement");
     ("UR_START_TIME", "v := native.Uint64(b[n:attrLen]); report.StartTime = time.Unix(0, int64(v))");
     ("UR_END_TIME", "v := native.Uint64(b[n:attrLen]); report.EndTime = time.Unix(0, int64(v))");
     ("UR_SEID", "report.SEID = native.Uint64(b[n:attrLen])")]%string /\
  usagedec_voldecoder =
    [("UR_VOLUME_MEASUREMENT_TOVOL", "v := native.Uint64(b[n:attrLen]); VolMeasurement.TotalVolume = v; VolMeasurement.Flag |= TOVOL");
     ("UR_VOLUME_MEASUREMENT_UVOL", "v := native.Uint64(b[n:attrLen]); VolMeasurement.UplinkVolume = v; VolMeasurement.Flag |= ULVOL");
     ("UR_VOLUME_MEASUREMENT_DVOL", "v := native.Uint64(b[n:attrLen]); VolMeasurement.DownlinkVolume = v; VolMeasurement.Flag |= DLVOL");
     ("UR_VOLUME_MEASUREMENT_TOPACKET", "v := native.Uint64(b[n:attrLen]); VolMeasurement.TotalPktNum = v; VolMeasurement.Flag |= TONOP");
     ("UR_VOLUME_MEASUREMENT_UPACKET", "v := native.Uint64(b[n:attrLen]); VolMeasurement.UplinkPktNum = v; VolMeasurement.Flag |= ULNOP");
     ("UR_VOLUME_MEASUREMENT_DPACKET", "v := native.Uint64(b[n:attrLen]); VolMeasurement.DownlinkPktNum = v; VolMeasurement.Flag |= DLNOP");
     ("default", "return VolMeasurement, nil")]%string /\
  map fst usagedec_ranges = ["ServeMsg"; "UpdateURR"; "RemoveURR"; "queryURR"; "queryMultiURR"]%string /\
  (nl_UR_VOLUME_MEASUREMENT_TOVOL, nl_UR_VOLUME_MEASUREMENT_UVOL, nl_UR_VOLUME_MEASUREMENT_DVOL,
   nl_UR_VOLUME_MEASUREMENT_TOPACKET, nl_UR_VOLUME_MEASUREMENT_UPACKET, nl_UR_VOLUME_MEASUREMENT_DPACKET) = (2, 3, 4, 5, 6, 7) /\
  (nl_TOVOL, nl_ULVOL, nl_DLVOL, nl_TONOP, nl_ULNOP, nl_DLNOP) = (1, 2, 4, 8, 16, 32).
Proof. repeat split; reflexivity. Qed.

(* ------------------------------------------------------------------ leaves *)
Lemma rd_pre_V32 n : n < 4294967296 -> rd_pre 4 (V32 n) = Some n.
Proof.
  intros H. unfold rd_pre. cbn [is_nest payload]. rewrite le_bytes_length. cbn [Nat.ltb Nat.leb].
  replace (firstn 4 (le_bytes 4 n)) with (le_bytes 4 n) by reflexivity.
  rewrite le_val_le_bytes. replace (2 ^ (8 * N.of_nat 4)) with 4294967296 by reflexivity.
  rewrite N.mod_small by exact H. reflexivity.
Qed.

Lemma rd_pre_V64 n : n < 18446744073709551616 -> rd_pre 8 (V64 n) = Some n.
Proof.
  intros H. unfold rd_pre. cbn [is_nest payload]. rewrite le_bytes_length. cbn [Nat.ltb Nat.leb].
  replace (firstn 8 (le_bytes 8 n)) with (le_bytes 8 n) by reflexivity.
  rewrite le_val_le_bytes. replace (2 ^ (8 * N.of_nat 8)) with 18446744073709551616 by reflexivity.
  rewrite N.mod_small by exact H. reflexivity.
Qed.

Lemma to_int64_small v : v < 9223372036854775808 -> to_int64 v = Z.of_N v.
Proof. intros H. unfold to_int64. apply N.ltb_lt in H. rewrite H. reflexivity. Qed.

(* ------------------------------------------------------------------ decoding the kernel's layout *)
Lemma dec_vol_opt2 (b : bool) v r fl t u dd tp up dp : v < 18446744073709551616 ->
  dec_vol ((if b then [A 2 (V64 v)] else []) ++ r) (mkKvol fl t u dd tp up dp) =
  dec_vol r (mkKvol (if b then N.lor fl 1 else fl) (if b then v else t) u dd tp up dp).
Proof.
  intros H. destruct b; cbn [app]; [|reflexivity]. cbn [dec_vol]. unfold dec_vol_step.
  cbn [N.eqb Pos.eqb nl_UR_VOLUME_MEASUREMENT_TOVOL nl_UR_VOLUME_MEASUREMENT_UVOL nl_UR_VOLUME_MEASUREMENT_DVOL
       nl_UR_VOLUME_MEASUREMENT_TOPACKET nl_UR_VOLUME_MEASUREMENT_UPACKET nl_UR_VOLUME_MEASUREMENT_DPACKET].
  rewrite (rd_pre_V64 v H). reflexivity.
Qed.

Lemma dec_vol_opt3 (b : bool) v r fl t u dd tp up dp : v < 18446744073709551616 ->
  dec_vol ((if b then [A 3 (V64 v)] else []) ++ r) (mkKvol fl t u dd tp up dp) =
  dec_vol r (mkKvol (if b then N.lor fl 2 else fl) t (if b then v else u) dd tp up dp).
Proof.
  intros H. destruct b; cbn [app]; [|reflexivity]. cbn [dec_vol]. unfold dec_vol_step.
  cbn [N.eqb Pos.eqb nl_UR_VOLUME_MEASUREMENT_TOVOL nl_UR_VOLUME_MEASUREMENT_UVOL nl_UR_VOLUME_MEASUREMENT_DVOL
       nl_UR_VOLUME_MEASUREMENT_TOPACKET nl_UR_VOLUME_MEASUREMENT_UPACKET nl_UR_VOLUME_MEASUREMENT_DPACKET].
  rewrite (rd_pre_V64 v H). reflexivity.
Qed.

Lemma dec_vol_opt4 (b : bool) v r fl t u dd tp up dp : v < 18446744073709551616 ->
  dec_vol ((if b then [A 4 (V64 v)] else []) ++ r) (mkKvol fl t u dd tp up dp) =
  dec_vol r (mkKvol (if b then N.lor fl 4 else fl) t u (if b then v else dd) tp up dp).
Proof.
  intros H. destruct b; cbn [app]; [|reflexivity]. cbn [dec_vol]. unfold dec_vol_step.
  cbn [N.eqb Pos.eqb nl_UR_VOLUME_MEASUREMENT_TOVOL nl_UR_VOLUME_MEASUREMENT_UVOL nl_UR_VOLUME_MEASUREMENT_DVOL
       nl_UR_VOLUME_MEASUREMENT_TOPACKET nl_UR_VOLUME_MEASUREMENT_UPACKET nl_UR_VOLUME_MEASUREMENT_DPACKET].
  rewrite (rd_pre_V64 v H). reflexivity.
Qed.

Lemma dec_vol_opt5 (b : bool) v r fl t u dd tp up dp : v < 18446744073709551616 ->
  dec_vol ((if b then [A 5 (V64 v)] else []) ++ r) (mkKvol fl t u dd tp up dp) =
  dec_vol r (mkKvol (if b then N.lor fl 8 else fl) t u dd (if b then v else tp) up dp).
Proof.
  intros H. destruct b; cbn [app]; [|reflexivity]. cbn [dec_vol]. unfold dec_vol_step.
  cbn [N.eqb Pos.eqb nl_UR_VOLUME_MEASUREMENT_TOVOL nl_UR_VOLUME_MEASUREMENT_UVOL nl_UR_VOLUME_MEASUREMENT_DVOL
       nl_UR_VOLUME_MEASUREMENT_TOPACKET nl_UR_VOLUME_MEASUREMENT_UPACKET nl_UR_VOLUME_MEASUREMENT_DPACKET].
  rewrite (rd_pre_V64 v H). reflexivity.
Qed.

Lemma dec_vol_opt6 (b : bool) v r fl t u dd tp up dp : v < 18446744073709551616 ->
  dec_vol ((if b then [A 6 (V64 v)] else []) ++ r) (mkKvol fl t u dd tp up dp) =
  dec_vol r (mkKvol (if b then N.lor fl 16 else fl) t u dd tp (if b then v else up) dp).
Proof.
  intros H. destruct b; cbn [app]; [|reflexivity]. cbn [dec_vol]. unfold dec_vol_step.
  cbn [N.eqb Pos.eqb nl_UR_VOLUME_MEASUREMENT_TOVOL nl_UR_VOLUME_MEASUREMENT_UVOL nl_UR_VOLUME_MEASUREMENT_DVOL
       nl_UR_VOLUME_MEASUREMENT_TOPACKET nl_UR_VOLUME_MEASUREMENT_UPACKET nl_UR_VOLUME_MEASUREMENT_DPACKET].
  rewrite (rd_pre_V64 v H). reflexivity.
Qed.

Lemma dec_vol_opt7 (b : bool) v r fl t u dd tp up dp : v < 18446744073709551616 ->
  dec_vol ((if b then [A 7 (V64 v)] else []) ++ r) (mkKvol fl t u dd tp up dp) =
  dec_vol r (mkKvol (if b then N.lor fl 32 else fl) t u dd tp up (if b then v else dp)).
Proof.
  intros H. destruct b; cbn [app]; [|reflexivity]. cbn [dec_vol]. unfold dec_vol_step.
  cbn [N.eqb Pos.eqb nl_UR_VOLUME_MEASUREMENT_TOVOL nl_UR_VOLUME_MEASUREMENT_UVOL nl_UR_VOLUME_MEASUREMENT_DVOL
       nl_UR_VOLUME_MEASUREMENT_TOPACKET nl_UR_VOLUME_MEASUREMENT_UPACKET nl_UR_VOLUME_MEASUREMENT_DPACKET].
  rewrite (rd_pre_V64 v H). reflexivity.
Qed.

Lemma dec_vol_sim s : sim_wf s -> dec_vol (sim_vol_from 0 (s_mask s) (sim_cnts s)) kvol0 = Some (kvol_of_sim s).
Proof.
  intros (_ & _ & _ & _ & _ & _ & _ & H1 & H2 & H3 & H4 & H5 & H6).
  unfold sim_cnts, kvol0. cbn [sim_vol_from].
  replace (nl_UR_VOLUME_MEASUREMENT_TOVOL + 0) with 2 by reflexivity.
  replace (nl_UR_VOLUME_MEASUREMENT_TOVOL + (0 + 1)) with 3 by reflexivity.
  replace (nl_UR_VOLUME_MEASUREMENT_TOVOL + (0 + 1 + 1)) with 4 by reflexivity.
  replace (nl_UR_VOLUME_MEASUREMENT_TOVOL + (0 + 1 + 1 + 1)) with 5 by reflexivity.
  replace (nl_UR_VOLUME_MEASUREMENT_TOVOL + (0 + 1 + 1 + 1 + 1)) with 6 by reflexivity.
  replace (nl_UR_VOLUME_MEASUREMENT_TOVOL + (0 + 1 + 1 + 1 + 1 + 1)) with 7 by reflexivity.
  replace (0 + 1 + 1 + 1 + 1 + 1) with 5 by reflexivity. replace (0 + 1 + 1 + 1 + 1) with 4 by reflexivity.
  replace (0 + 1 + 1 + 1) with 3 by reflexivity. replace (0 + 1 + 1) with 2 by reflexivity. replace (0 + 1) with 1 by reflexivity.
  rewrite (dec_vol_opt2 _ _ _ _ _ _ _ _ _ _ H1), (dec_vol_opt3 _ _ _ _ _ _ _ _ _ _ H2), (dec_vol_opt4 _ _ _ _ _ _ _ _ _ _ H3),
          (dec_vol_opt5 _ _ _ _ _ _ _ _ _ _ H4), (dec_vol_opt6 _ _ _ _ _ _ _ _ _ _ H5), (dec_vol_opt7 _ _ _ _ _ _ _ _ _ _ H6).
  cbn [dec_vol]. unfold kvol_of_sim, mbit.
  destruct (N.testbit (s_mask s) 0), (N.testbit (s_mask s) 1), (N.testbit (s_mask s) 2),
           (N.testbit (s_mask s) 3), (N.testbit (s_mask s) 4), (N.testbit (s_mask s) 5); reflexivity.
Qed.

Lemma dec_report_urrid v r a b c d e f g h : v < 4294967296 ->
  dec_report (A 3 (V32 v) :: r) (mkK a b c d e f g h) = dec_report r (mkK v b c d e f g h).
Proof.
  intros H. cbn [dec_report]. unfold dec_report_step.
  cbn [N.eqb Pos.eqb nl_UR_URRID nl_UR_USAGE_REPORT_TRIGGER nl_UR_URSEQN nl_UR_VOLUME_MEASUREMENT nl_UR_START_TIME nl_UR_END_TIME nl_UR_SEID].
  rewrite (rd_pre_V32 v H). reflexivity.
Qed.

Lemma dec_report_trig v r a b c d e f g h : v < 4294967296 ->
  dec_report (A 4 (V32 v) :: r) (mkK a b c d e f g h) = dec_report r (mkK a b v d e f g h).
Proof.
  intros H. cbn [dec_report]. unfold dec_report_step.
  cbn [N.eqb Pos.eqb nl_UR_URRID nl_UR_USAGE_REPORT_TRIGGER nl_UR_URSEQN nl_UR_VOLUME_MEASUREMENT nl_UR_START_TIME nl_UR_END_TIME nl_UR_SEID].
  rewrite (rd_pre_V32 v H). reflexivity.
Qed.

Lemma dec_report_seqn v r a b c d e f g h : v < 4294967296 ->
  dec_report (A 5 (V32 v) :: r) (mkK a b c d e f g h) = dec_report r (mkK a v c d e f g h).
Proof.
  intros H. cbn [dec_report]. unfold dec_report_step.
  cbn [N.eqb Pos.eqb nl_UR_URRID nl_UR_USAGE_REPORT_TRIGGER nl_UR_URSEQN nl_UR_VOLUME_MEASUREMENT nl_UR_START_TIME nl_UR_END_TIME nl_UR_SEID].
  rewrite (rd_pre_V32 v H). reflexivity.
Qed.

Lemma dec_report_qref v r a b c d e f g h : v < 4294967296 ->
  dec_report (A 7 (V32 v) :: r) (mkK a b c d e f g h) = dec_report r (mkK a b c d e f g h).
Proof.
  intros H. cbn [dec_report]. unfold dec_report_step.
  cbn [N.eqb Pos.eqb nl_UR_URRID nl_UR_USAGE_REPORT_TRIGGER nl_UR_URSEQN nl_UR_VOLUME_MEASUREMENT nl_UR_START_TIME nl_UR_END_TIME nl_UR_SEID].
   reflexivity.
Qed.

Lemma dec_report_start v r a b c d e f g h : v < 18446744073709551616 ->
  dec_report (A 8 (V64 v) :: r) (mkK a b c d e f g h) = dec_report r (mkK a b c d e (Some (to_int64 v)) g h).
Proof.
  intros H. cbn [dec_report]. unfold dec_report_step.
  cbn [N.eqb Pos.eqb nl_UR_URRID nl_UR_USAGE_REPORT_TRIGGER nl_UR_URSEQN nl_UR_VOLUME_MEASUREMENT nl_UR_START_TIME nl_UR_END_TIME nl_UR_SEID].
  rewrite (rd_pre_V64 v H). reflexivity.
Qed.

Lemma dec_report_end v r a b c d e f g h : v < 18446744073709551616 ->
  dec_report (A 9 (V64 v) :: r) (mkK a b c d e f g h) = dec_report r (mkK a b c d e f (Some (to_int64 v)) h).
Proof.
  intros H. cbn [dec_report]. unfold dec_report_step.
  cbn [N.eqb Pos.eqb nl_UR_URRID nl_UR_USAGE_REPORT_TRIGGER nl_UR_URSEQN nl_UR_VOLUME_MEASUREMENT nl_UR_START_TIME nl_UR_END_TIME nl_UR_SEID].
  rewrite (rd_pre_V64 v H). reflexivity.
Qed.

Lemma dec_report_seid v r a b c d e f g h : v < 18446744073709551616 ->
  dec_report (A 10 (V64 v) :: r) (mkK a b c d e f g h) = dec_report r (mkK a b c d e f g v).
Proof.
  intros H. cbn [dec_report]. unfold dec_report_step.
  cbn [N.eqb Pos.eqb nl_UR_URRID nl_UR_USAGE_REPORT_TRIGGER nl_UR_URSEQN nl_UR_VOLUME_MEASUREMENT nl_UR_START_TIME nl_UR_END_TIME nl_UR_SEID].
  rewrite (rd_pre_V64 v H). reflexivity.
Qed.

Lemma dec_report_vol sub x r a b c d e f g h : dec_vol sub kvol0 = Some x ->
  dec_report (A 6 (VNest sub) :: r) (mkK a b c d e f g h) = dec_report r (mkK a b c x e f g h).
Proof.
  intros H. cbn [dec_report]. unfold dec_report_step.
  cbn [N.eqb Pos.eqb nl_UR_URRID nl_UR_USAGE_REPORT_TRIGGER nl_UR_URSEQN nl_UR_VOLUME_MEASUREMENT].
  rewrite H. reflexivity.
Qed.

Lemma dec_report_sim s : sim_wf s -> dec_report (sim_children s) k0 = Some (k_of_sim s).
Proof.
  intros W. pose proof (dec_vol_sim s W) as HV.
  destruct W as (A1 & A2 & A3 & A4 & A5 & A6 & A7 & _).
  unfold sim_children, k0.
  replace nl_UR_URRID with 3 by reflexivity. replace nl_UR_USAGE_REPORT_TRIGGER with 4 by reflexivity.
  replace nl_UR_URSEQN with 5 by reflexivity. replace nl_UR_VOLUME_MEASUREMENT with 6 by reflexivity.
  replace nl_UR_QUERY_URR_REFERENCE with 7 by reflexivity. replace nl_UR_START_TIME with 8 by reflexivity.
  replace nl_UR_END_TIME with 9 by reflexivity. replace nl_UR_SEID with 10 by reflexivity.
  rewrite (dec_report_urrid _ _ _ _ _ _ _ _ _ _ A1), (dec_report_trig _ _ _ _ _ _ _ _ _ _ A2), (dec_report_seqn _ _ _ _ _ _ _ _ _ _ A3).
  rewrite (dec_report_vol _ _ _ _ _ _ _ _ _ _ _ HV).
  rewrite (dec_report_qref _ _ _ _ _ _ _ _ _ _ A4), (dec_report_start _ _ _ _ _ _ _ _ _ _ A6), (dec_report_end _ _ _ _ _ _ _ _ _ _ A7),
          (dec_report_seid _ _ _ _ _ _ _ _ _ _ A5).
  reflexivity.
Qed.

Lemma dec_all_sim rs : Forall sim_wf rs -> dec_all (map sim_attr rs) = Some (map k_of_sim rs).
Proof.
  induction 1 as [|s rs W _ IH]; [reflexivity|].
  cbn [map]. unfold sim_attr at 1. cbn [dec_all N.eqb Pos.eqb nl_UR].
  rewrite (dec_report_sim s W). cbn [obind]. rewrite IH. reflexivity.
Qed.

(* ------------------------------------------------------------------ the five conversion sites *)
(* every site copies the same fields, one for one; they differ in the trigger only *)
Lemma conv_site_spec k :
  conv_site "ServeMsg" k = Some (usa_of k (set_reporting_trigger 0 (k_trig k))) /\
  conv_site "UpdateURR" k = Some (usa_of k (k_trig k)) /\
  conv_site "RemoveURR" k = Some (usa_of k (k_trig k)) /\
  conv_site "queryURR" k = Some (usa_of k 0) /\
  conv_site "queryMultiURR" k = Some (usa_of k 0).
Proof. repeat split; reflexivity. Qed.

Lemma conv_site_in site k : In site sites5 -> conv_site site k = Some (usa_of k (site_trig site (k_trig k))).
Proof.
  destruct (conv_site_spec k) as (H1 & H2 & H3 & H4 & H5).
  intros [<-|[<-|[<-|[<-|[<-|[]]]]]]; assumption.
Qed.

Lemma site_grouped_spec :
  site_grouped "ServeMsg" = Some true /\ site_grouped "UpdateURR" = Some false /\ site_grouped "RemoveURR" = Some false /\
  site_grouped "queryURR" = Some false /\ site_grouped "queryMultiURR" = Some true.
Proof. repeat split; reflexivity. Qed.

Lemma conv_list_sim site rs : In site sites5 ->
  conv_list site (map k_of_sim rs) = Some (map (fun s => (s_seid s, usa_of_sim site s)) rs).
Proof.
  intros Hs. induction rs as [|s rs IH]; [reflexivity|].
  cbn [map conv_list]. rewrite (conv_site_in site (k_of_sim s) Hs). cbn [obind]. rewrite IH. reflexivity.
Qed.

(* one report through decoder and conversion site: every field is the kernel's *)
Theorem kernel_report_converted site s : sim_wf s -> In site sites5 ->
  obind (dec_all [sim_attr s]) (conv_list site) = Some [(s_seid s, usa_of_sim site s)] /\
  u_urrid (usa_of_sim site s) = s_urrid s /\
  u_trig (usa_of_sim site s) = site_trig site (s_trig s) /\
  usa_cnt (usa_of_sim site s) =
    [mbit (s_mask s) 0 (s_tot s); mbit (s_mask s) 1 (s_ul s); mbit (s_mask s) 2 (s_dl s);
     mbit (s_mask s) 3 (s_tpk s); mbit (s_mask s) 4 (s_upk s); mbit (s_mask s) 5 (s_dpk s)] /\
  u_start (usa_of_sim site s) = Some (to_int64 (s_start s)) /\
  u_end (usa_of_sim site s) = Some (to_int64 (s_end s)) /\
  u_vflags (usa_of_sim site s) = 0 /\ u_dur (usa_of_sim site s) = 0 /\ u_seqn (usa_of_sim site s) = 0.
Proof.
  intros W Hs. split; [|repeat split; reflexivity].
  change [sim_attr s] with (map sim_attr [s]).
  rewrite (dec_all_sim [s]) by (constructor; [exact W|constructor]).
  cbn [obind]. rewrite (conv_list_sim site [s] Hs). reflexivity.
Qed.

(* ------------------------------------------------------------------ batches *)
Lemma galookup_group_add x s u g :
  galookup x (group_add s u g) =
    if s =? x then Some (match galookup x g with Some us => us ++ [u] | None => [u] end)%list else galookup x g.
Proof.
  induction g as [|[s' us] g IH]; cbn [group_add galookup].
  - destruct (N.eqb_spec s x); reflexivity.
  - destruct (N.eqb_spec s' s) as [->|Hne]; cbn [galookup].
    + destruct (N.eqb_spec s x); reflexivity.
    + rewrite IH. destruct (N.eqb_spec s' x) as [->|Hx]; [|reflexivity].
      destruct (N.eqb_spec s x) as [->|]; [contradiction Hne; reflexivity|reflexivity].
Qed.

Lemma galookup_fold x us : forall g,
  galookup x (fold_left (fun acc p => group_add (fst p) (snd p) acc) us g) =
    match galookup x g, sel x us with
    | None, [] => None
    | None, l => Some l
    | Some a, l => Some (a ++ l)%list
    end.
Proof.
  induction us as [|[s u] us IH]; intros g; cbn [fold_left].
  - unfold sel. cbn [filter map]. destruct (galookup x g); [rewrite app_nil_r|]; reflexivity.
  - rewrite IH. rewrite galookup_group_add. unfold sel. cbn [filter fst snd].
    destruct (N.eqb_spec s x) as [->|Hne]; cbn [map snd].
    + destruct (galookup x g) as [a|].
      * rewrite <- app_assoc. reflexivity.
      * reflexivity.
    + reflexivity.
Qed.

Lemma sel_map site x rs :
  sel x (map (fun s => (s_seid s, usa_of_sim site s)) rs) = map (usa_of_sim site) (filter (fun s => s_seid s =? x) rs).
Proof.
  unfold sel. induction rs as [|s rs IH]; [reflexivity|].
  cbn [map filter fst]. destruct (s_seid s =? x); cbn [map snd]; rewrite IH; reflexivity.
Qed.

(* a REPORT multicast with n >= 1 reports for any mixture of sessions: accepted, and the group handed to the PFCP layer
   for a SEID is exactly that SEID's reports, in the kernel's order, each converted field by field; a SEID without
   reports gets no group.  Hence no report is lost, duplicated, or moved to another session by the decoding. *)
Theorem mcast_groups rs : rs <> [] -> Forall sim_wf rs ->
  exists g, serve_mcast (sim_mcast rs) = Some (true, g) /\
    forall x, galookup x g =
      match filter (fun s => s_seid s =? x) rs with
      | [] => None
      | l => Some (map (usa_of_sim "ServeMsg") l)
      end.
Proof.
  intros Hne W.
  assert (Hs : In "ServeMsg"%string sites5) by (left; reflexivity).
  unfold serve_mcast, sim_mcast. cbn [N.eqb Pos.eqb nl_REPORT]. rewrite app_nil_r.
  rewrite (dec_all_sim rs W). cbn [obind].
  destruct rs as [|s0 rs0]; [contradiction Hne; reflexivity|].
  remember (s0 :: rs0) as rs eqn:E. replace (map k_of_sim rs) with (k_of_sim s0 :: map k_of_sim rs0) by (rewrite E; reflexivity).
  unfold conv_batch. destruct site_grouped_spec as (G & _). rewrite G. cbn [obind].
  replace (k_of_sim s0 :: map k_of_sim rs0) with (map k_of_sim rs) by (rewrite E; reflexivity).
  rewrite (conv_list_sim "ServeMsg" rs Hs). cbn [obind].
  eexists. split; [reflexivity|].
  intros x. rewrite galookup_fold. cbn [galookup]. rewrite sel_map.
  destruct (filter (fun s => s_seid s =? x) rs); reflexivity.
Qed.

(* replies (GET_REPORT / ADD_URR+REPLACE / DEL_URR answer a plain slice; GET_MULTI_REPORTS groups per SEID) *)
Theorem reply_plain site rs : In site ["UpdateURR"; "RemoveURR"; "queryURR"]%string -> Forall sim_wf rs ->
  serve_reply site (sim_reply rs) = Some (match rs with [] => [] | _ => [(0, map (usa_of_sim site) rs)] end).
Proof.
  intros Hs W. assert (Hs5 : In site sites5) by (destruct Hs as [<-|[<-|[<-|[]]]]; cbn; auto).
  unfold serve_reply, sim_reply. rewrite (dec_all_sim rs W). cbn [obind]. unfold conv_batch.
  assert (G : site_grouped site = Some false).
  { destruct site_grouped_spec as (_ & G1 & G2 & G3 & _). destruct Hs as [<-|[<-|[<-|[]]]]; assumption. }
  rewrite G. cbn [obind]. rewrite (conv_list_sim site rs Hs5). cbn [obind].
  destruct rs as [|s rs]; [reflexivity|]. cbn [map]. rewrite map_map. reflexivity.
Qed.

Theorem reply_multi rs : Forall sim_wf rs ->
  exists g, serve_reply "queryMultiURR" (sim_reply rs) = Some g /\
    forall x, galookup x g =
      match filter (fun s => s_seid s =? x) rs with
      | [] => None
      | l => Some (map (usa_of_sim "queryMultiURR") l)
      end.
Proof.
  intros W. assert (Hs : In "queryMultiURR"%string sites5) by (cbn; auto 6).
  unfold serve_reply, sim_reply. rewrite (dec_all_sim rs W). cbn [obind]. unfold conv_batch.
  destruct site_grouped_spec as (_ & _ & _ & _ & G). rewrite G. cbn [obind].
  rewrite (conv_list_sim "queryMultiURR" rs Hs). cbn [obind].
  eexists. split; [reflexivity|].
  intros x. rewrite galookup_fold. cbn [galookup]. rewrite sel_map.
  destruct (filter (fun s => s_seid s =? x) rs); reflexivity.
Qed.

(* ------------------------------------------------------------------ composition with the PFCP layer's IE *)
Lemma unix_secs_int64 v : v < 9223372036854775808 -> unix_secs (Some (to_int64 v)) = v / 1000000000.
Proof.
  intros H. rewrite to_int64_small by exact H. unfold unix_secs.
  replace 1000000000%Z with (Z.of_N 1000000000) by reflexivity.
  rewrite <- N2Z.inj_div. apply N2Z.id.
Qed.

Theorem kernel_report_ie inf q extra site s :
  sim_wf s -> s_start s < 9223372036854775808 -> s_end s < 9223372036854775808 ->
  let ie := ie_of_kernel inf q extra site s in
  let t := N.lor (site_trig site (s_trig s)) extra in
  let m := s_mask s in
  ur_urr ie = s_urrid s /\
  ur_seqn ie = q /\
  ur_trig ie = t mod 16777216 /\
  ur_times ie = (if no_times t then None else Some (s_start s / 1000000000, s_end s / 1000000000)) /\
  ur_vol ie = (if ui_volum inf
               then Some (if ui_mnop inf
                          then (63, [mbit m 0 (s_tot s); mbit m 1 (s_ul s); mbit m 2 (s_dl s);
                                     mbit m 3 (s_tpk s); mbit m 4 (s_upk s); mbit m 5 (s_dpk s)])
                          else (7, [mbit m 0 (s_tot s); mbit m 1 (s_ul s); mbit m 2 (s_dl s); 0; 0; 0]))
               else None) /\
  ur_dur ie = (if ui_durat inf then Some 0 else None).
Proof.
  intros W Hs He ie t m.
  destruct (mk_usage_ie_fields inf q (rpt_of_usa extra (usa_of_sim site s))) as (F1 & F2 & F3 & F4 & _ & _ & F7).
  unfold ie, ie_of_kernel.
  split; [exact F1|]. split; [exact F2|]. split; [exact F3|].
  split.
  { rewrite F4. cbn [rpt_of_usa r_trig r_start r_end usa_of_sim usa_of u_trig u_start u_end k_of_sim k_start k_end].
    rewrite (unix_secs_int64 _ Hs), (unix_secs_int64 _ He). reflexivity. }
  split; [|exact F7].
  destruct (ui_volum inf) eqn:Ev.
  - rewrite (mk_usage_ie_volume_plain inf q _ (mbit m 0 (s_tot s)) (mbit m 1 (s_ul s)) (mbit m 2 (s_dl s))
               (mbit m 3 (s_tpk s)) (mbit m 4 (s_upk s)) (mbit m 5 (s_dpk s)) Ev); [|reflexivity|reflexivity].
    destruct (ui_mnop inf); reflexivity.
  - unfold mk_usage_ie. cbn [ur_vol]. rewrite Ev. reflexivity.
Qed.

(* all six counters present (the layout gtp5g sends): the IE's counters are the kernel's, for all 64-bit values *)
Corollary kernel_report_ie_full inf q extra site s :
  sim_wf s -> s_mask s = 63 -> ui_volum inf = true ->
  ur_vol (ie_of_kernel inf q extra site s) =
    Some (if ui_mnop inf then (63, [s_tot s; s_ul s; s_dl s; s_tpk s; s_upk s; s_dpk s])
          else (7, [s_tot s; s_ul s; s_dl s; 0; 0; 0])).
Proof.
  intros W Hm Ev. unfold ie_of_kernel.
  rewrite (mk_usage_ie_volume_plain inf q _ (s_tot s) (s_ul s) (s_dl s) (s_tpk s) (s_upk s) (s_dpk s) Ev).
  - destruct (ui_mnop inf); reflexivity.
  - unfold rpt_of_usa, usa_cnt, usa_of_sim, usa_of, k_of_sim, kvol_of_sim, mbit.
    cbn [r_cnt k_vol kv_tot kv_ul kv_dl kv_tpk kv_upk kv_dpk u_tot u_ul u_dl u_tpk u_upk u_dpk]. rewrite Hm. reflexivity.
  - reflexivity.
Qed.

(* the multicast's trigger word is one Reporting-Triggers cause; the IE carries the same-named usage-report trigger *)
Lemma mcast_trigger_table :
  map (fun c => site_trig "ServeMsg" (fst c)) set_reporting_trigger_table = map snd set_reporting_trigger_table.
Proof. reflexivity. Qed.
