From Coq Require Import List NArith Bool Lia.
From GoUpf Require Import ConstsGen Wedge2.
Import ListNotations.
Local Open Scope N_scope.

Lemma cap_sr_pos : 0 < cap_sr.
Proof. unfold cap_sr. vm_compute. reflexivity. Qed.

(* the queue only ever holds at least as many events as ticks *)
Definition QInv (w : qstate) : Prop := ticks w <= evt w.

Lemma qstep_inv w a w' : QInv w -> qstep w a = Some w' -> QInv w'.
Proof.
  unfold QInv. destruct a; cbn [qstep];
    repeat match goal with |- context [if ?b then _ else _] => destruct b eqn:? end;
    intros H E; inversion E; subst; cbn [ticks evt];
    repeat match goal with
           | H : (_ && _) = true |- _ => apply andb_prop in H; destruct H
           | H : (_ <? _) = true |- _ => apply N.ltb_lt in H
           | H : (_ <=? _) = true |- _ => apply N.leb_le in H
           | H : (_ =? _) = true |- _ => apply N.eqb_eq in H
           end; lia.
Qed.

Lemma qrun_inv l : forall w, QInv w -> QInv (qrun w l).
Proof.
  induction l as [|a l IH]; intros w H; cbn [qrun]; [exact H|].
  destruct (qstep w a) as [w'|] eqn:E; [apply IH; eapply qstep_inv; eauto | apply IH; exact H].
Qed.

(* (1) the loop is never blocked posting a timer event, whatever the queues hold *)
Theorem loop_post_never_blocks w : 0 < l_pending w -> qstep w LPost <> None.
Proof. intros H. cbn [qstep]. apply N.ltb_lt in H. rewrite H. discriminate. Qed.

(* (2) hence the loop finishes its turn in exactly l_pending steps of its own, and nobody else's step can undo that *)
Lemma others_keep_l_pending w a w' : qstep w a = Some w' -> a <> LPost -> (forall k, a <> LStartTurn k) -> a <> LDrain ->
  l_pending w' = l_pending w.
Proof.
  intros E H1 H2 H3. destruct a as [ |k| | | |m| ]; cbn [qstep] in E.
  - congruence.
  - exfalso. apply (H2 k). reflexivity.
  - congruence.
  - destruct (_ && _); inversion E; reflexivity.
  - destruct (_ && _); inversion E; reflexivity.
  - destruct (_ && _); inversion E; reflexivity.
  - inversion E; reflexivity.
Qed.

Theorem turn_completes w : l_pending (qrun w (repeat LPost (N.to_nat (l_pending w)))) = 0.
Proof.
  remember (N.to_nat (l_pending w)) as n eqn:En. revert w En.
  induction n as [|n IH]; intros w En; cbn [repeat qrun].
  - lia.
  - cbn [qstep]. assert (H : 0 <? l_pending w = true) by (apply N.ltb_lt; lia). rewrite H.
    apply IH. cbn [l_pending]. lia.
Qed.

(* (3) no deadlock: in every state (with the queue invariant) either everything has been served or one of the two
   servers can take a step of its own *)
Theorem no_deadlock w : QInv w -> quiescent w = false -> server_can_move w = true.
Proof.
  unfold QInv, quiescent, server_can_move. intros HI HQ. cbn [qstep].
  destruct (0 <? l_pending w) eqn:EL; [reflexivity|].
  apply N.ltb_ge in EL. assert (l_pending w = 0) as L0 by lia. rewrite L0 in *. cbn [N.eqb andb] in *.
  destruct (0 <? sr w) eqn:ES; [reflexivity|]. apply N.ltb_ge in ES. assert (sr w = 0) as S0 by lia. rewrite S0 in *.
  pose proof cap_sr_pos as CP. assert (HC : 0 <? cap_sr = true) by (apply N.ltb_lt; exact CP). rewrite HC.
  destruct (0 <? p_pending w) eqn:EP; [reflexivity|]. apply N.ltb_ge in EP. assert (p_pending w = 0) as P0 by lia.
  rewrite P0 in *. cbn [N.eqb andb] in *.
  destruct (evt w =? 0) eqn:EE; [discriminate|]. apply N.eqb_neq in EE.
  destruct (ticks w <? evt w) eqn:ET; [reflexivity|]. apply N.ltb_ge in ET.
  assert (ticks w = evt w) as TE by lia.
  assert (H1 : 0 <? ticks w = true) by (apply N.ltb_lt; lia). assert (H2 : ticks w <=? evt w = true) by (apply N.leb_le; lia).
  rewrite H1, H2. reflexivity.
Qed.

(* (4) every step of a server lowers the remaining work: without new input the system reaches quiescence *)
Ltac unb :=
  repeat match goal with
         | H : (_ && _) = true |- _ => apply andb_prop in H; destruct H
         | H : (_ <? _) = true |- _ => apply N.ltb_lt in H
         | H : (_ <=? _) = true |- _ => apply N.leb_le in H
         | H : (_ =? _) = true |- _ => apply N.eqb_eq in H
         end.

Theorem server_step_lowers_work w a w' : QInv w -> qstep w a = Some w' ->
  a <> TTick -> (forall k, a <> LStartTurn k) -> (forall m, a <> PTakeTick m) -> work w' < work w.
Proof.
  unfold work, QInv. intros HI E H1 H2 H3. destruct a as [ |k| | | |m| ]; cbn [qstep] in E.
  - destruct (0 <? l_pending w) eqn:B; inversion E; subst; cbn [l_pending evt p_pending sr]; unb; lia.
  - exfalso. apply (H2 k). reflexivity.
  - destruct (_ && _) eqn:B; inversion E; subst; cbn [l_pending evt p_pending sr]; unb; lia.
  - destruct (_ && _) eqn:B; inversion E; subst; cbn [l_pending evt p_pending sr]; unb; lia.
  - destruct (_ && _) eqn:B; inversion E; subst; cbn [l_pending evt p_pending sr]; unb; lia.
  - exfalso. apply (H3 m). reflexivity.
  - congruence.
Qed.

(* the history that wedged the old code (one tick over cap_sr + 1 sessions held while a turn posts 600 events):
   here the turn completes, the reports drain, nothing is stuck *)
Example old_wedge_history_now_completes :
  let w := qrun q_init ([TTick; PTakeTick (cap_sr + 1)] ++ repeat PSend (N.to_nat cap_sr) ++ [LStartTurn 600]
                        ++ repeat LPost 600 ++ [PSend; LDrain; PSend]) in
  l_pending w = 0 /\ p_pending w = 0 /\ evt w = 600.
Proof. vm_compute. repeat split; reflexivity. Qed.
