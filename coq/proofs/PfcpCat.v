(* A generic combinator: a reflexive-transitive relation on working contexts that every per-session operation
   satisfies is satisfied by every category loop, by run_categories for ANY list of category names, and by
   Sess.Close.  Used by PfcpUsage (UR-SEQN / queue preservation) and PfcpRef (reference counts). *)
From Coq Require Import String List NArith ZArith Bool Lia.
From GoUpf Require Import Bytes FlagsGen ConstsGen HandlerGen Pfcp PfcpBase PfcpSess.
Import ListNotations.
Local Open Scope N_scope.

Section CatRel.
  Variable R : sctx -> sctx -> Prop.
  Hypothesis R_refl : forall c, R c c.
  Hypothesis R_trans : forall a b c, R a b -> R b c -> R a c.

  Lemma fold_ctx_rel {A} (f : A -> sctx -> sctx) l c :
    (forall x c, In x l -> R c (f x c)) -> R c (fold_ctx f l c).
  Proof.
    unfold fold_ctx. revert c. induction l as [|x l IH]; intros c Hf; cbn [fold_left]; [apply R_refl|].
    eapply R_trans; [apply Hf; left; reflexivity|]. apply IH. intros y c' Hy. apply Hf. right. exact Hy.
  Qed.

  Lemma fold_rpt_rel {A} (f : A -> sctx -> sctx * list rpt) l c :
    (forall x c, In x l -> R c (fst (f x c))) -> R c (fst (fold_rpt f l c)).
  Proof.
    revert c. induction l as [|x l IH]; intros c Hf; cbn [fold_rpt]; [apply R_refl|].
    pose proof (Hf x c (or_introl eq_refl)) as G1. destruct (f x c) as [c1 r1]. cbn [fst] in G1.
    assert (G2 : R c1 (fst (fold_rpt f l c1))) by (apply IH; intros y c' Hy; apply Hf; right; exact Hy).
    destruct (fold_rpt f l c1) as [c2 r2]. cbn [fst] in *. eapply R_trans; eauto.
  Qed.

  Variable e : env.
  Variable o : ops.
  Hypothesis H_create_simple : forall k id c, R c (create_simple e k id c).
  Hypothesis H_update_simple : forall k id c, R c (update_simple e k id c).
  Hypothesis H_remove_simple : forall k id c, R c (remove_simple e k id c).
  Hypothesis H_create_urr : forall x c, In x (cURR o) -> R c (create_urr e x c).
  Hypothesis H_update_urr : forall x c, R c (fst (update_urr e x c)).
  Hypothesis H_remove_urr : forall id c, R c (fst (remove_urr e id c)).
  Hypothesis H_query_urr : forall id c, R c (fst (query_urr e id c)).
  Hypothesis H_create_pdr : forall x c, In x (cPDR o) -> R c (create_pdr e x c).
  Hypothesis H_update_pdr : forall x c, In x (uPDR o) -> R c (fst (update_pdr e x c)).
  Hypothesis H_remove_pdr : forall id c, R c (fst (remove_pdr e id c)).

  Lemma run_category_rel name c r : run_category e o name c = Some r -> R c (fst r).
  Proof.
    unfold run_category.
    repeat match goal with
    | |- (if String.eqb name ?s then _ else _) = _ -> _ =>
      destruct (String.eqb name s);
      [ let H := fresh "H" in intros H; inversion H; subst; clear H; cbn [fst];
        first [ apply fold_ctx_rel; intros; auto | apply fold_rpt_rel; intros; auto ] | ]
    end.
    discriminate.
  Qed.

  Lemma run_categories_rel names c r : run_categories e o names c = Some r -> R c (fst r).
  Proof.
    revert c r. induction names as [|n names IH]; intros c r; cbn [run_categories].
    - intros H. inversion H. apply R_refl.
    - destruct (run_category e o n c) as [[c1 r1]|] eqn:E1; [|discriminate].
      destruct (run_categories e o names c1) as [[c2 r2]|] eqn:E2; [|discriminate].
      intros H. inversion H; subst. cbn [fst].
      apply run_category_rel in E1. apply IH in E2. cbn [fst] in *. eapply R_trans; eauto.
  Qed.

  Lemma close_category_rel name c r : close_category e name c = Some r -> R c (fst r).
  Proof.
    unfold close_category.
    repeat match goal with
    | |- (if String.eqb name ?s then _ else _) = _ -> _ =>
      destruct (String.eqb name s);
      [ let H := fresh "H" in intros H; inversion H; subst; clear H; cbn [fst];
        first [ apply fold_ctx_rel; intros; auto | apply fold_rpt_rel; intros; auto ] | ]
    end.
    discriminate.
  Qed.

  Lemma close_categories_rel names c r : close_categories e names c = Some r -> R c (fst r).
  Proof.
    revert c r. induction names as [|n names IH]; intros c r; cbn [close_categories].
    - intros H. inversion H. apply R_refl.
    - destruct (close_category e n c) as [[c1 r1]|] eqn:E1; [|discriminate].
      destruct (close_categories e names c1) as [[c2 r2]|] eqn:E2; [|discriminate].
      intros H. inversion H; subst. cbn [fst].
      apply close_category_rel in E1. apply IH in E2. cbn [fst] in *. eapply R_trans; eauto.
  Qed.
End CatRel.

(* a category other than Create PDR does not look at the Create PDR list *)
Definition without_cpdr (o : ops) : ops :=
  mkOps (cFAR o) (cQER o) (cURR o) (cBAR o) [] (rFAR o) (rQER o) (rURR o) (rBAR o) (rPDR o)
        (uFAR o) (uQER o) (uURR o) (uBAR o) (uPDR o) (qURR o).

Lemma run_category_without_cpdr e o name c :
  String.eqb name "CreatePDR:CreatePDR" = false ->
  run_category e o name c = run_category e (without_cpdr o) name c.
Proof.
  intros Hn. unfold run_category. rewrite Hn.
  repeat match goal with
  | |- (if String.eqb name ?s then _ else _) = _ => destruct (String.eqb name s); [reflexivity|]
  end.
  reflexivity.
Qed.

Lemma run_category_cpdr e o c :
  run_category e o "CreatePDR:CreatePDR" c = Some (fold_ctx (create_pdr e) (cPDR o) c, []).
Proof. reflexivity. Qed.
