(* Proofs for C15: the periodic-report server model (model/Perio.v) refines the spec of
   monitor/PerioSpec.v on every well-formed history; invariants on every history. *)
From Coq Require Import List NArith Bool Lia PeanoNat.
From GoUpf Require Import PerioGen PerioSpec Perio.
Import ListNotations.
Local Open Scope N_scope.

(* ================================================================ generic list facts *)

Lemma NoDup_app_intro {A} (l m : list A) :
  NoDup l -> NoDup m -> (forall a, In a l -> ~ In a m) -> NoDup (l ++ m).
Proof.
  induction l as [|a l IH]; intros Hl Hm Hd; cbn [app]; [assumption|].
  inversion Hl as [|? ? Ha Hl']; subst. constructor.
  - rewrite in_app_iff. intros [H|H]; [contradiction|]. apply (Hd a); [left; reflexivity|assumption].
  - apply IH; [assumption|assumption|]. intros b Hb. apply Hd. right; assumption.
Qed.

Lemma NoDup_snoc {A} (l : list A) a : NoDup l -> ~ In a l -> NoDup (l ++ [a]).
Proof.
  intros Hl Ha. apply NoDup_app_intro; [assumption|repeat constructor; intros []|].
  intros b Hb [E|[]]. subst. contradiction.
Qed.

Lemma NoDup_map_inj {A B} (f : A -> B) (l : list A) :
  (forall a b, f a = f b -> a = b) -> NoDup l -> NoDup (map f l).
Proof.
  intros Hf. induction l as [|a l IH]; intros H; cbn [map]; [constructor|].
  inversion H as [|? ? Ha Hl]; subst. constructor; [|apply IH; assumption].
  rewrite in_map_iff. intros [b [E Hb]]. apply Hf in E. subst. contradiction.
Qed.

Lemma mem_In u l : mem u l = true <-> In u l.
Proof.
  unfold mem. rewrite existsb_exists. split.
  - intros [v [Hv E]]. apply N.eqb_eq in E. subst. assumption.
  - intros H. exists u. split; [assumption|apply N.eqb_refl].
Qed.

Lemma mem_false u l : mem u l = false <-> ~ In u l.
Proof.
  rewrite <- mem_In. destruct (mem u l); split; intros H; try reflexivity; try discriminate; try (intros E; discriminate).
  exfalso. apply H. reflexivity.
Qed.

Lemma remove_n_In u l v : In v (remove_n u l) <-> In v l /\ v <> u.
Proof.
  unfold remove_n. rewrite filter_In. rewrite negb_true_iff, N.eqb_neq. reflexivity.
Qed.

Lemma remove_n_NoDup u l : NoDup l -> NoDup (remove_n u l).
Proof. apply NoDup_filter. Qed.

Lemma remove_n_notin u l : ~ In u l -> remove_n u l = l.
Proof.
  induction l as [|a l IH]; intros H; [reflexivity|].
  cbn [remove_n filter]. destruct (N.eqb_spec a u) as [E|E].
  - exfalso. apply H. left. assumption.
  - cbn [negb]. f_equal. apply IH. intros Hi. apply H. right. assumption.
Qed.

Lemma remove_n_cons_same u l : remove_n u (u :: l) = remove_n u l.
Proof. cbn [remove_n filter]. rewrite N.eqb_refl. reflexivity. Qed.

Lemma remove_n_cons_other u a l : a <> u -> remove_n u (a :: l) = a :: remove_n u l.
Proof. intros H. cbn [remove_n filter]. apply N.eqb_neq in H. rewrite H. reflexivity. Qed.

Lemma is_nil_true {A} (l : list A) : is_nil l = true <-> l = [].
Proof. destruct l; cbn; split; intros H; try reflexivity; discriminate. Qed.

Lemma is_nil_false {A} (l : list A) : is_nil l = false <-> l <> [].
Proof. destruct l; cbn; split; intros H; try reflexivity; try discriminate; try (intros E; discriminate). exfalso; apply H; reflexivity. Qed.

(* ================================================================ association lists *)

Section AssocLemmas.
  Context {V : Type}.
  Implicit Types (l : list (N * V)).

  Definition keys l : list N := map fst l.

  Lemma lookup_In k v l : lookup k l = Some v -> In (k, v) l.
  Proof.
    induction l as [|[k' v'] l IH]; cbn [lookup]; [discriminate|].
    destruct (N.eqb_spec k' k) as [E|E]; intros H.
    - inversion H; subst. left. reflexivity.
    - right. apply IH. assumption.
  Qed.

  Lemma lookup_None k l : lookup k l = None <-> ~ In k (keys l).
  Proof.
    induction l as [|[k' v'] l IH]; cbn [lookup keys map fst In].
    - split; [intros _ []|reflexivity].
    - destruct (N.eqb_spec k' k) as [E|E].
      + split; [discriminate|]. intros H. exfalso. apply H. left. assumption.
      + rewrite IH. unfold keys. split; intros H; [intros [H1|H1]; contradiction|].
        intros H1. apply H. right. assumption.
  Qed.

  Lemma lookup_Some_key k v l : lookup k l = Some v -> In k (keys l).
  Proof. intros H. apply lookup_In in H. unfold keys. apply in_map_iff. exists (k, v). split; [reflexivity|assumption]. Qed.

  Lemma In_key k v l : In (k, v) l -> In k (keys l).
  Proof. intros H. unfold keys. apply in_map_iff. exists (k, v). split; [reflexivity|assumption]. Qed.

  Lemma In_lookup k v l : NoDup (keys l) -> In (k, v) l -> lookup k l = Some v.
  Proof.
    induction l as [|[k' v'] l IH]; cbn [keys map fst]; intros Hn H; [destruct H|].
    inversion Hn as [|? ? Hk Hn']; subst. cbn [lookup]. destruct H as [H|H].
    - inversion H; subst. rewrite N.eqb_refl. reflexivity.
    - destruct (N.eqb_spec k' k) as [E|E].
      + subst. exfalso. apply Hk. apply (In_key _ _ _ H).
      + apply IH; assumption.
  Qed.

  Lemma In_unique k v v' l : NoDup (keys l) -> In (k, v) l -> In (k, v') l -> v = v'.
  Proof.
    intros Hn H1 H2. apply (In_lookup _ _ _ Hn) in H1. apply (In_lookup _ _ _ Hn) in H2.
    rewrite H1 in H2. inversion H2. reflexivity.
  Qed.

  Lemma keys_update k v l : keys (update k v l) = keys l.
  Proof.
    induction l as [|[k' v'] l IH]; [reflexivity|].
    cbn [update]. destruct (k' =? k); cbn [keys map fst]; [reflexivity|].
    f_equal. apply IH.
  Qed.

  Lemma keys_app l m : keys (l ++ m) = (keys l ++ keys m)%list.
  Proof. apply map_app. Qed.

  Lemma keys_remove_key k l : keys (remove_key k l) = remove_n k (keys l).
  Proof.
    induction l as [|[k' v'] l IH]; [reflexivity|].
    cbn [remove_key filter fst keys map remove_n]. destruct (k' =? k); cbn [negb map fst]; [apply IH|].
    f_equal. apply IH.
  Qed.

  Lemma In_update k v l k' v' : NoDup (keys l) -> In k (keys l) ->
    (In (k', v') (update k v l) <-> (k' <> k /\ In (k', v') l) \/ (k' = k /\ v' = v)).
  Proof.
    induction l as [|[k0 v0] l IH]; cbn [keys map fst]; intros Hn Hk; [destruct Hk|].
    inversion Hn as [|? ? Hk0 Hn']; subst. cbn [update].
    destruct (N.eqb_spec k0 k) as [E|E].
    - subst k0. cbn [In]. split.
      + intros [H|H]; [inversion H; subst; right; split; reflexivity|].
        left. split; [|right; assumption]. intros E. subst. apply Hk0. apply (In_key _ _ _ H).
      + intros [[Hne [H|H]]|[E1 E2]].
        * inversion H; subst. exfalso. apply Hne. reflexivity.
        * right. assumption.
        * subst. left. reflexivity.
    - destruct Hk as [Hk|Hk]; [contradiction|]. cbn [In]. rewrite (IH Hn' Hk). split.
      + intros [H|[[Hne H]|[E1 E2]]].
        * inversion H; subst. left. split; [congruence|left; reflexivity].
        * left. split; [assumption|right; assumption].
        * right. split; assumption.
      + intros [[Hne [H|H]]|[E1 E2]].
        * left. assumption.
        * right. left. split; assumption.
        * right. right. split; assumption.
  Qed.

  Lemma In_remove_key k l k' v' : In (k', v') (remove_key k l) <-> k' <> k /\ In (k', v') l.
  Proof.
    unfold remove_key. rewrite filter_In. cbn [fst]. rewrite negb_true_iff, N.eqb_neq. tauto.
  Qed.

  Lemma Forall_update (P : N * V -> Prop) k v l : Forall P l -> P (k, v) -> Forall P (update k v l).
  Proof.
    induction l as [|[k0 v0] l IH]; intros H Hp; [constructor|].
    inversion H as [|? ? H0 Hl]; subst. cbn [update]. destruct (N.eqb_spec k0 k) as [E|E].
    - subst. constructor; assumption.
    - constructor; [assumption|apply IH; assumption].
  Qed.

  Lemma Forall_remove_key (P : N * V -> Prop) k l : Forall P l -> Forall P (remove_key k l).
  Proof.
    intros H. rewrite Forall_forall in *. intros e He. apply H. unfold remove_key in He.
    apply filter_In in He. apply He.
  Qed.

  Lemma update_nil k v l : update k v l = [] -> l = [].
  Proof. destruct l as [|[k0 v0] l]; [reflexivity|]. cbn [update]. destruct (k0 =? k); discriminate. Qed.

  (* flattening a keyed list *)
  Context {B : Type} (f : V -> list B).
  Definition flatk l : list (N * B) := flat_map (fun e => map (pair (fst e)) (f (snd e))) l.

  Lemma in_flatk l k b : In (k, b) (flatk l) <-> exists v, In (k, v) l /\ In b (f v).
  Proof.
    unfold flatk. rewrite in_flat_map. split.
    - intros [[k0 v0] [He Hm]]. cbn [fst snd] in Hm. apply in_map_iff in Hm.
      destruct Hm as [b0 [E Hb]]. inversion E; subst. exists v0. split; assumption.
    - intros [v [He Hb]]. exists (k, v). split; [assumption|]. cbn [fst snd].
      apply in_map_iff. exists b. split; [reflexivity|assumption].
  Qed.

  Lemma flatk_app l m : flatk (l ++ m) = (flatk l ++ flatk m)%list.
  Proof. unfold flatk. apply flat_map_app. Qed.

  Lemma NoDup_flatk l : NoDup (keys l) -> Forall (fun e => NoDup (f (snd e))) l -> NoDup (flatk l).
  Proof.
    induction l as [|[k v] l IH]; cbn [keys map fst]; intros Hn Hf; [constructor|].
    inversion Hn as [|? ? Hk Hn']; subst. inversion Hf as [|? ? Hv Hf']; subst.
    cbn [flatk flat_map fst snd]. apply NoDup_app_intro.
    - apply NoDup_map_inj; [|assumption]. intros a b E. inversion E. reflexivity.
    - apply IH; assumption.
    - intros [k' b] H1 H2. apply in_map_iff in H1. destruct H1 as [b0 [E _]]. inversion E; subst.
      apply in_flatk in H2. destruct H2 as [v' [H2 _]]. apply Hk. apply (In_key _ _ _ H2).
  Qed.
End AssocLemmas.

Lemma flat_pairs_flatk (g : group) : flat_pairs g = flatk (fun us => us) g.
Proof. reflexivity. Qed.
Lemma flat_regs_flatk (gs : list (N * group)) : flat_regs gs = flatk flat_pairs gs.
Proof. reflexivity. Qed.

Lemma in_flat_pairs (g : group) x u : In (x, u) (flat_pairs g) <-> exists us, In (x, us) g /\ In u us.
Proof. rewrite flat_pairs_flatk. apply in_flatk. Qed.

Lemma in_flat_regs (gs : list (N * group)) p xu :
  In (p, xu) (flat_regs gs) <-> exists g, In (p, g) gs /\ In xu (flat_pairs g).
Proof. rewrite flat_regs_flatk. apply in_flatk. Qed.

(* ================================================================ groups: ADD / DEL on one group *)

Definition entry_ok (e : N * list N) : Prop := snd e <> [] /\ NoDup (snd e).
Definition group_ok (g : group) : Prop := g <> [] /\ NoDup (keys g) /\ Forall entry_ok g.

Lemma group_ok_single x u : group_ok [(x, [u])].
Proof.
  split; [discriminate|]. split.
  - cbn. constructor; [intros []|constructor].
  - constructor; [|constructor]. split; cbn [snd]; [discriminate|]. constructor; [intros []|constructor].
Qed.

Lemma group_add_ok x u g : NoDup (keys g) -> Forall entry_ok g ->
  group_add x u g <> [] /\ NoDup (keys (group_add x u g)) /\ Forall entry_ok (group_add x u g).
Proof.
  intros Hn Hf. unfold group_add. destruct (lookup x g) as [us|] eqn:L.
  - destruct (mem u us) eqn:M.
    + split; [|split; assumption]. apply lookup_In in L. intros E. rewrite E in L. destruct L.
    + split; [|split].
      * intros E. apply update_nil in E. apply lookup_In in L. rewrite E in L. destruct L.
      * rewrite keys_update. assumption.
      * apply Forall_update; [assumption|]. apply lookup_In in L.
        rewrite Forall_forall in Hf. destruct (Hf _ L) as [_ Hnd]. cbn [snd] in Hnd.
        split; cbn [snd].
        -- destruct us; discriminate.
        -- apply NoDup_snoc; [assumption|]. apply mem_false. assumption.
  - split; [|split].
    + destruct g; discriminate.
    + rewrite keys_app. cbn [keys map fst]. apply NoDup_snoc; [assumption|]. apply lookup_None. assumption.
    + apply Forall_app. split; [assumption|]. constructor; [|constructor].
      split; cbn [snd]; [discriminate|]. constructor; [intros []|constructor].
Qed.

Lemma group_add_In x u g y v : NoDup (keys g) ->
  (In (y, v) (flat_pairs (group_add x u g)) <-> In (y, v) (flat_pairs g) \/ (y = x /\ v = u)).
Proof.
  intros Hn. unfold group_add. destruct (lookup x g) as [us|] eqn:L.
  - destruct (mem u us) eqn:M.
    + split; [intros H; left; assumption|]. intros [H|[E1 E2]]; [assumption|]. subst.
      apply in_flat_pairs. exists us. split; [apply lookup_In; assumption|apply mem_In; assumption].
    + rewrite !in_flat_pairs. split.
      * intros [vs [H1 H2]]. apply In_update in H1; [|assumption|apply (lookup_Some_key _ _ _ L)].
        destruct H1 as [[Hne H1]|[E1 E2]].
        -- left. exists vs. split; assumption.
        -- subst. apply in_app_iff in H2. destruct H2 as [H2|[H2|[]]].
           ++ left. exists us. split; [apply lookup_In; assumption|assumption].
           ++ right. split; [reflexivity|symmetry; assumption].
      * intros [[vs [H1 H2]]|[E1 E2]].
        -- destruct (N.eq_dec y x) as [E|E].
           ++ subst. assert (vs = us) by (apply (In_unique x _ _ g Hn H1); apply lookup_In; assumption). subst.
              exists (us ++ [u])%list. split; [|apply in_app_iff; left; assumption].
              apply In_update; [assumption|apply (lookup_Some_key _ _ _ L)|]. right. split; reflexivity.
           ++ exists vs. split; [|assumption].
              apply In_update; [assumption|apply (lookup_Some_key _ _ _ L)|]. left. split; assumption.
        -- subst. exists (us ++ [u])%list. split; [|apply in_app_iff; right; left; reflexivity].
           apply In_update; [assumption|apply (lookup_Some_key _ _ _ L)|]. right. split; reflexivity.
  - rewrite flat_pairs_flatk, flatk_app, in_app_iff, <- flat_pairs_flatk.
    cbn [flatk flat_map fst snd map app In]. split.
    + intros [H|[H|[]]]; [left; assumption|]. inversion H; subst. right. split; reflexivity.
    + intros [H|[E1 E2]]; [left; assumption|]. subst. right. left. reflexivity.
Qed.

Lemma has_reg_In x u g : NoDup (keys g) -> (has_reg x u g = true <-> In (x, u) (flat_pairs g)).
Proof.
  intros Hn. unfold has_reg. rewrite in_flat_pairs. destruct (lookup x g) as [us|] eqn:L.
  - rewrite mem_In. split.
    + intros H. exists us. split; [apply lookup_In; assumption|assumption].
    + intros [vs [H1 H2]]. assert (vs = us) by (apply (In_unique x _ _ g Hn H1); apply lookup_In; assumption).
      subst. assumption.
  - split; [discriminate|]. intros [vs [H1 _]]. apply lookup_None in L. exfalso. apply L. apply (In_key _ _ _ H1).
Qed.

Lemma group_del_ok x u g : NoDup (keys g) -> Forall entry_ok g ->
  NoDup (keys (group_del x u g)) /\ Forall entry_ok (group_del x u g).
Proof.
  intros Hn Hf. unfold group_del. destruct (lookup x g) as [us|] eqn:L; [|split; assumption].
  cbv zeta. destruct (is_nil (remove_n u us)) eqn:Z.
  - split; [rewrite keys_remove_key; apply remove_n_NoDup; assumption|apply Forall_remove_key; assumption].
  - split; [rewrite keys_update; assumption|]. apply Forall_update; [assumption|].
    apply is_nil_false in Z. split; cbn [snd]; [assumption|]. apply remove_n_NoDup.
    apply lookup_In in L. rewrite Forall_forall in Hf. apply (Hf _ L).
Qed.

Lemma group_del_In x u g y v : NoDup (keys g) ->
  (In (y, v) (flat_pairs (group_del x u g)) <-> In (y, v) (flat_pairs g) /\ ~ (y = x /\ v = u)).
Proof.
  intros Hn. unfold group_del. destruct (lookup x g) as [us|] eqn:L.
  - pose proof (lookup_In _ _ _ L) as Lin. pose proof (lookup_Some_key _ _ _ L) as Lk.
    cbv zeta. destruct (is_nil (remove_n u us)) eqn:Z.
    + apply is_nil_true in Z. rewrite !in_flat_pairs. split.
      * intros [vs [H1 H2]]. apply In_remove_key in H1. destruct H1 as [Hne H1].
        split; [exists vs; split; assumption|]. intros [E _]. contradiction.
      * intros [[vs [H1 H2]] Hnot]. exists vs. split; [|assumption]. apply In_remove_key. split; [|assumption].
        intros E. subst y. assert (vs = us) by (apply (In_unique x _ _ g Hn H1); assumption). subst vs.
        destruct (N.eq_dec v u) as [Ev|Ev]; [apply Hnot; split; [reflexivity|assumption]|].
        assert (Hin : In v (remove_n u us)) by (apply remove_n_In; split; assumption).
        rewrite Z in Hin. destruct Hin.
    + rewrite !in_flat_pairs. split.
      * intros [vs [H1 H2]]. apply In_update in H1; [|assumption|assumption].
        destruct H1 as [[Hne H1]|[E1 E2]].
        -- split; [exists vs; split; assumption|]. intros [E _]. contradiction.
        -- subst. apply remove_n_In in H2. destruct H2 as [H2 H3].
           split; [exists us; split; assumption|]. intros [_ E]. contradiction.
      * intros [[vs [H1 H2]] Hnot]. destruct (N.eq_dec y x) as [E|E].
        -- subst y. assert (vs = us) by (apply (In_unique x _ _ g Hn H1); assumption). subst vs.
           exists (remove_n u us). split.
           ++ apply In_update; [assumption|assumption|]. right. split; reflexivity.
           ++ apply remove_n_In. split; [assumption|]. intros Ev. apply Hnot. split; [reflexivity|assumption].
        -- exists vs. split; [|assumption]. apply In_update; [assumption|assumption|]. left. split; assumption.
  - split; [|intros [H _]; assumption]. intros H. split; [assumption|]. intros [E1 E2]. subst.
    apply in_flat_pairs in H. destruct H as [vs [H1 _]]. apply lookup_None in L. apply L. apply (In_key _ _ _ H1).
Qed.

(* ================================================================ the invariant (every history) *)

Record Inv (s : state) : Prop := {
  inv_keys : NoDup (keys (groups s));
  inv_groups : Forall (fun pg => group_ok (snd pg)) (groups s);
  inv_tick : tickers s = keys (groups s);
  inv_closed : closed s = true -> groups s = []
}.

Lemma Inv_init : Inv init.
Proof. constructor; cbn; [constructor|constructor|reflexivity|reflexivity]. Qed.

(* the DEL scan *)
Lemma del_scan_shape x u gs gs' st :
  del_scan x u gs = (gs', st) -> NoDup (keys gs) -> Forall (fun pg => group_ok (snd pg)) gs ->
  NoDup (keys gs') /\ Forall (fun pg => group_ok (snd pg)) gs' /\
  match st with
  | Some p => In p (keys gs) /\ keys gs' = remove_n p (keys gs)
  | None => keys gs' = keys gs
  end.
Proof.
  revert gs' st. induction gs as [|[p g] r IH]; intros gs' st H Hn Hf.
  - cbn in H. inversion H; subst. split; [constructor|]. split; [constructor|reflexivity].
  - cbn [keys map fst] in Hn. inversion Hn as [|? ? Hp Hn']; subst.
    inversion Hf as [|? ? Hg Hf']; subst. cbn [snd] in Hg. destruct Hg as [Hne [Hgn Hgf]].
    cbn [del_scan] in H. destruct (has_reg x u g) eqn:HR.
    + destruct (group_del_ok x u g Hgn Hgf) as [Dn Df].
      destruct (is_nil (group_del x u g)) eqn:Z; inversion H; subst.
      * split; [assumption|]. split; [assumption|]. split; [left; reflexivity|].
        cbn [keys map fst]. rewrite remove_n_cons_same. symmetry. apply remove_n_notin. assumption.
      * split; [cbn [keys map fst]; constructor; assumption|]. split; [|reflexivity].
        constructor; [|assumption]. cbn [snd]. apply is_nil_false in Z. split; [assumption|split; assumption].
    + destruct (del_scan x u r) as [r' st'] eqn:D. inversion H; subst.
      destruct (IH r' st eq_refl Hn' Hf') as [In1 [If1 Ik]].
      assert (Hsub : forall q, In q (keys r') -> In q (keys r)).
      { intros q Hq. destruct st as [p'|].
        - destruct Ik as [_ Ik]. rewrite Ik in Hq. apply remove_n_In in Hq. apply Hq.
        - rewrite Ik in Hq. assumption. }
      split; [cbn [keys map fst]; constructor; [intros Hq; apply Hp; apply Hsub; assumption|assumption]|].
      split; [constructor; [cbn [snd]; split; [assumption|split; assumption]|assumption]|].
      destruct st as [p'|].
      * destruct Ik as [Ip Ik]. split; [right; assumption|]. cbn [keys map fst].
        rewrite remove_n_cons_other; [f_equal; assumption|]. intros E. subst. contradiction.
      * cbn [keys map fst]. f_equal. assumption.
Qed.

Lemma fold_remove_all (gs : list (N * group)) : forall t,
  (forall q, In q t -> In q (keys gs)) ->
  fold_left (fun t pg => remove_n (fst pg) t) gs t = [].
Proof.
  induction gs as [|[p g] r IH]; intros t H; cbn [fold_left fst].
  - destruct t as [|a t]; [reflexivity|]. destruct (H a (or_introl eq_refl)).
  - apply IH. intros q Hq. apply remove_n_In in Hq. destruct Hq as [Hq Hne].
    destruct (H q Hq) as [E|E]; [cbn [fst] in E; congruence|assumption].
Qed.

Lemma Inv_step s e : Inv s -> Inv (fst (step s e)).
Proof.
  intros [Hk Hg Ht Hc]. unfold step. destruct (closed s) eqn:C; [cbn [fst]; constructor; try assumption; intros _; apply Hc; reflexivity|].
  destruct e as [x u p|x u|p a|].
  - (* Add *) unfold step_add. destruct (lookup p (groups s)) as [g|] eqn:L; cbn [fst groups tickers closed].
    + pose proof (lookup_In _ _ _ L) as Lin. rewrite Forall_forall in Hg.
      destruct (Hg _ Lin) as [_ [Gn Gf]]. cbn [snd] in Gn, Gf.
      destruct (group_add_ok x u g Gn Gf) as [A1 [A2 A3]].
      constructor; cbn [groups tickers closed].
      * rewrite keys_update. assumption.
      * apply Forall_update; [apply Forall_forall; assumption|]. cbn [snd]. split; [assumption|split; assumption].
      * rewrite keys_update. assumption.
      * rewrite C. discriminate.
    + constructor; cbn [groups tickers closed].
      * rewrite keys_app. cbn [keys map fst]. apply NoDup_snoc; [assumption|]. apply lookup_None. assumption.
      * apply Forall_app. split; [assumption|]. constructor; [|constructor]. apply group_ok_single.
      * rewrite keys_app, Ht. reflexivity.
      * rewrite C. discriminate.
  - (* Del *) unfold step_del. destruct (del_scan x u (groups s)) as [gs' st] eqn:D.
    destruct (del_scan_shape _ _ _ _ _ D Hk Hg) as [D1 [D2 D3]].
    destruct st as [p|]; cbn [fst]; constructor; cbn [groups tickers closed]; try assumption;
      try (rewrite C; discriminate).
    + destruct D3 as [_ D3]. rewrite D3, Ht. reflexivity.
    + rewrite D3. assumption.
  - (* Tick *) unfold step_tick. destruct (lookup p (groups s)); cbn [fst]; constructor; try assumption; rewrite C; discriminate.
  - (* Close *) unfold step_close. cbn [fst]. constructor; cbn [groups tickers closed];
      [constructor|constructor| |reflexivity].
    apply fold_remove_all. intros q Hq. rewrite <- Ht. assumption.
Qed.

Lemma Inv_run_from s evs : Inv s -> Inv (run_from s evs).
Proof.
  revert s. induction evs as [|e r IH]; intros s H; [assumption|].
  cbn [run_from fold_left]. apply IH. apply Inv_step. assumption.
Qed.

Lemma Inv_run evs : Inv (run evs).
Proof. apply Inv_run_from. apply Inv_init. Qed.

Lemma run_app evs1 evs2 : run (evs1 ++ evs2) = run_from (run evs1) evs2.
Proof. unfold run, run_from. apply fold_left_app. Qed.

Lemma closed_stays s evs : closed s = true -> run_from s evs = s.
Proof.
  induction evs as [|e r IH]; intros H; [reflexivity|].
  cbn [run_from fold_left]. unfold step. rewrite H. cbn [fst]. apply IH. assumption.
Qed.

(* after Close: no ticker, no group, and it stays that way whatever follows *)
Lemma close_releases evs1 evs2 :
  tickers (run (evs1 ++ Close :: evs2)) = [] /\ groups (run (evs1 ++ Close :: evs2)) = [].
Proof.
  rewrite run_app. cbn [run_from fold_left]. pose proof (Inv_run evs1) as I.
  set (s := run evs1) in *. pose proof (Inv_step s Close I) as I'.
  assert (Hc : closed (fst (step s Close)) = true).
  { unfold step. destruct (closed s) eqn:C; [assumption|reflexivity]. }
  fold (run_from (fst (step s Close)) evs2). rewrite closed_stays by assumption.
  destruct I' as [_ _ It Icl]. rewrite It, (Icl Hc). split; reflexivity.
Qed.

(* the ticker list moves exactly with the TickerStart / TickerStop outputs *)
Fixpoint apply_ticker_outs (t : list N) (outs : list output) : list N :=
  match outs with
  | [] => t
  | TickerStart p :: r => apply_ticker_outs (t ++ [p]) r
  | TickerStop p :: r => apply_ticker_outs (remove_n p t) r
  | _ :: r => apply_ticker_outs t r
  end.

Lemma apply_ticker_stops (gs : list (N * group)) : forall t,
  apply_ticker_outs t (map (fun pg => TickerStop (fst pg)) gs) = fold_left (fun t pg => remove_n (fst pg) t) gs t.
Proof. induction gs as [|pg r IH]; intros t; [reflexivity|]. cbn [map apply_ticker_outs fold_left]. apply IH. Qed.

Lemma apply_ticker_notifs a t : apply_ticker_outs t (notifications a) = t.
Proof.
  unfold notifications. destruct a as [l|]; [|reflexivity]. destruct l as [|e l]; [reflexivity|].
  generalize (e :: l). intros m. induction m as [|e' m IH]; [reflexivity|]. cbn [map apply_ticker_outs]. assumption.
Qed.

Lemma tickers_follow_outputs s e :
  tickers (fst (step s e)) = apply_ticker_outs (tickers s) (snd (step s e)).
Proof.
  unfold step. destruct (closed s); [reflexivity|]. destruct e as [x u p|x u|p a|].
  - unfold step_add. destruct (lookup p (groups s)); reflexivity.
  - unfold step_del. destruct (del_scan x u (groups s)) as [gs' [p|]]; reflexivity.
  - unfold step_tick. destruct (lookup p (groups s)); [|reflexivity]. cbn [fst snd apply_ticker_outs].
    symmetry. apply apply_ticker_notifs.
  - unfold step_close. cbn [fst snd tickers]. symmetry. apply apply_ticker_stops.
Qed.

(* ================================================================ refinement to the spec (well-formed histories) *)

Lemma pair_eqb_eq a b : pair_eqb a b = true <-> a = b.
Proof.
  destruct a as [a1 a2], b as [b1 b2]. unfold pair_eqb. cbn [fst snd].
  rewrite andb_true_iff, !N.eqb_eq. split; [intros [E1 E2]; subst; reflexivity|intros E; inversion E; split; reflexivity].
Qed.

Lemma reg_eqb_eq a b : reg_eqb a b = true <-> a = b.
Proof.
  destruct a as [a1 [a2 a3]], b as [b1 [b2 b3]]. unfold reg_eqb. cbn [fst snd].
  rewrite !andb_true_iff, !N.eqb_eq. split; [intros [[E1 E2] E3]; subst; reflexivity|intros E; inversion E; repeat split; reflexivity].
Qed.

Definition U (l : list reg) : Prop := forall p q xu, In (p, xu) l -> In (q, xu) l -> p = q.

Lemma spec_add_In sp x u p t : sopen sp = true ->
  (In t (regs (spec_step sp (Add x u p))) <-> In t (regs sp) \/ t = (p, (x, u))).
Proof.
  intros Ho. unfold spec_step. rewrite Ho. destruct (existsb (reg_eqb (p, (x, u))) (regs sp)) eqn:E.
  - split; [intros H; left; assumption|]. intros [H|H]; [assumption|]. subst.
    apply existsb_exists in E. destruct E as [r [Hr Er]]. apply reg_eqb_eq in Er. subst. assumption.
  - cbn [regs]. rewrite in_app_iff. cbn [In]. split.
    + intros [H|[H|[]]]; [left; assumption|right; symmetry; assumption].
    + intros [H|H]; [left; assumption|right; left; symmetry; assumption].
Qed.

Lemma spec_del_In sp x u q y v : sopen sp = true ->
  (In (q, (y, v)) (regs (spec_step sp (Del x u))) <-> In (q, (y, v)) (regs sp) /\ ~ (y = x /\ v = u)).
Proof.
  intros Ho. unfold spec_step. rewrite Ho. cbn [regs]. rewrite filter_In. cbn [snd].
  rewrite negb_true_iff. split; intros [H1 H2]; (split; [assumption|]).
  - intros [E1 E2]. subst. assert (T : pair_eqb (x, u) (x, u) = true) by (apply pair_eqb_eq; reflexivity).
    rewrite T in H2. discriminate.
  - destruct (pair_eqb (y, v) (x, u)) eqn:E; [|reflexivity]. apply pair_eqb_eq in E. inversion E; subst.
    exfalso. apply H2. split; reflexivity.
Qed.

Lemma step_add_In s x u p q yv : Inv s ->
  (In (q, yv) (flat_regs (groups (fst (step_add s x u p)))) <->
   In (q, yv) (flat_regs (groups s)) \/ (q, yv) = (p, (x, u))).
Proof.
  intros [Hk Hg _ _]. unfold step_add. destruct (lookup p (groups s)) as [g|] eqn:L; cbn [fst groups].
  - pose proof (lookup_In _ _ _ L) as Lin. pose proof (lookup_Some_key _ _ _ L) as Lk.
    assert (Gn : NoDup (keys g)). { rewrite Forall_forall in Hg. apply (Hg _ Lin). }
    rewrite !in_flat_regs. destruct yv as [y v]. split.
    + intros [g0 [H1 H2]]. apply In_update in H1; [|assumption|assumption].
      destruct H1 as [[Hne H1]|[E1 E2]].
      * left. exists g0. split; assumption.
      * subst. apply group_add_In in H2; [|assumption]. destruct H2 as [H2|[E1 E2]].
        -- left. exists g. split; assumption.
        -- subst. right. reflexivity.
    + intros [[g0 [H1 H2]]|E].
      * destruct (N.eq_dec q p) as [Eq|Eq].
        -- subst q. assert (g0 = g) by (apply (In_unique p _ _ _ Hk H1 Lin)). subst g0.
           exists (group_add x u g). split; [apply In_update; [assumption|assumption|right; split; reflexivity]|].
           apply group_add_In; [assumption|left; assumption].
        -- exists g0. split; [|assumption]. apply In_update; [assumption|assumption|left; split; assumption].
      * inversion E; subst. exists (group_add x u g).
        split; [apply In_update; [assumption|assumption|right; split; reflexivity]|].
        apply group_add_In; [assumption|right; split; reflexivity].
  - rewrite flat_regs_flatk, flatk_app, in_app_iff, <- flat_regs_flatk.
    cbn [flatk flat_map fst snd flat_pairs map app In]. split.
    + intros [H|[H|[]]]; [left; assumption|right; symmetry; assumption].
    + intros [H|H]; [left; assumption|right; left; symmetry; assumption].
Qed.

Lemma flat_regs_cons p (g : group) r q0 yv :
  In (q0, yv) (flat_regs ((p, g) :: r)) <-> (q0 = p /\ In yv (flat_pairs g)) \/ In (q0, yv) (flat_regs r).
Proof.
  cbn [flat_regs flat_map fst snd]. rewrite in_app_iff, in_map_iff. split.
  - intros [[b [E Hb]]|H]; [inversion E; subst; left; split; [reflexivity|assumption]|right; assumption].
  - intros [[E H]|H]; [subst; left; exists yv; split; [reflexivity|assumption]|right; assumption].
Qed.

Lemma del_scan_In x u gs : NoDup (keys gs) -> Forall (fun pg => group_ok (snd pg)) gs -> U (flat_regs gs) ->
  forall q y v, In (q, (y, v)) (flat_regs (fst (del_scan x u gs))) <->
                In (q, (y, v)) (flat_regs gs) /\ ~ (y = x /\ v = u).
Proof.
  induction gs as [|[p g] r IH]; intros Hn Hf HU q y v.
  - cbn. tauto.
  - cbn [keys map fst] in Hn. inversion Hn as [|? ? Hp Hn']; subst.
    inversion Hf as [|? ? Hg Hf']; subst. cbn [snd] in Hg. destruct Hg as [_ [Gn _]].
    pose proof (fun g0 => flat_regs_cons p g0 r) as Hcons.
    assert (Hr_keys : forall q0 yv, In (q0, yv) (flat_regs r) -> In q0 (keys r)).
    { intros q0 yv H. apply in_flat_regs in H. destruct H as [g0 [H _]]. apply (In_key _ _ _ H). }
    assert (HU' : U (flat_regs r)).
    { intros a b xu Ha Hb. apply (HU a b xu); apply Hcons; right; assumption. }
    cbn [del_scan]. destruct (has_reg x u g) eqn:HR.
    + apply has_reg_In in HR; [|assumption].
      assert (Hnot_r : forall q0, ~ In (q0, (x, u)) (flat_regs r)).
      { intros q0 H. assert (q0 = p) by (apply (HU q0 p (x, u)); apply Hcons; [right; assumption|left; split; [reflexivity|assumption]]).
        subst. apply Hp. apply (Hr_keys _ _ H). }
      destruct (is_nil (group_del x u g)) eqn:Z; cbn [fst].
      * apply is_nil_true in Z. rewrite Hcons. split.
        -- intros H. split; [right; assumption|]. intros [E1 E2]. subst. apply (Hnot_r q). assumption.
        -- intros [[[E H]|H] Hnot]; [|assumption]. subst.
           assert (Hd : In (y, v) (flat_pairs (group_del x u g))) by (apply group_del_In; [assumption|split; assumption]).
           rewrite Z in Hd. destruct Hd.
      * rewrite !Hcons. rewrite group_del_In by assumption. split.
        -- intros [[E [H Hnot]]|H]; [split; [left; split; assumption|assumption]|].
           split; [right; assumption|]. intros [E1 E2]. subst. apply (Hnot_r q). assumption.
        -- intros [[[E H]|H] Hnot]; [left; split; [assumption|split; assumption]|right; assumption].
    + assert (HRn : ~ In (x, u) (flat_pairs g)).
      { intros H. apply has_reg_In in H; [|assumption]. rewrite H in HR. discriminate. }
      specialize (IH Hn' Hf' HU' q y v). destruct (del_scan x u r) as [r' st] eqn:D. cbn [fst] in IH |- *.
      rewrite !flat_regs_cons, IH. split.
      * intros [[E H]|[H Hnot]]; [|split; [right; assumption|assumption]].
        split; [left; split; assumption|]. intros [E1 E2]. subst. contradiction.
      * intros [[[E H]|H] Hnot]; [left; split; assumption|right; split; assumption].
Qed.

Record Sim (s : state) (sp : spec) : Prop := {
  sim_inv : Inv s;
  sim_R : forall t, In t (regs sp) <-> In t (flat_regs (groups s));
  sim_U : U (regs sp);
  sim_open : sopen sp = negb (closed s)
}.

Lemma Sim_init : Sim init spec_init.
Proof. constructor; [apply Inv_init|cbn; tauto|intros p q xu []|reflexivity]. Qed.

Lemma Sim_step s sp e : Sim s sp -> ev_ok sp e -> Sim (fst (step s e)) (spec_step sp e).
Proof.
  intros [HI HR HU Ho] Hok. pose proof (Inv_step s e HI) as HI'.
  destruct (closed s) eqn:C.
  - cbn [negb] in Ho. unfold step in *. rewrite C in *. unfold spec_step. rewrite Ho. cbn [fst].
    constructor; try assumption. rewrite C. assumption.
  - cbn [negb] in Ho. unfold step in *. rewrite C in *. destruct e as [x u p|x u|p a|].
    + (* Add *) constructor; [assumption| | |].
      * intros [q yv]. rewrite spec_add_In by assumption. rewrite step_add_In by assumption.
        rewrite HR. reflexivity.
      * intros a b xu Ha Hb. apply spec_add_In in Ha; [|assumption]. apply spec_add_In in Hb; [|assumption].
        cbn [ev_ok] in Hok. unfold add_ok in Hok.
        destruct Ha as [Ha|Ha], Hb as [Hb|Hb].
        -- apply (HU a b xu); assumption.
        -- inversion Hb; subst. apply Hok. assumption.
        -- inversion Ha; subst. symmetry. apply Hok. assumption.
        -- inversion Ha; inversion Hb; subst. reflexivity.
      * unfold spec_step. rewrite Ho. unfold step_add.
        destruct (existsb (reg_eqb (p, (x, u))) (regs sp)); destruct (lookup p (groups s));
          cbn [fst closed sopen]; rewrite ?C, ?Ho; reflexivity.
    + (* Del *) constructor; [assumption| | |].
      * intros [q [y v]]. rewrite spec_del_In by assumption. rewrite HR.
        unfold step_del. destruct HI as [Hk Hg _ _].
        assert (HUm : U (flat_regs (groups s))).
        { intros a b xu Ha Hb. apply (HU a b xu); apply HR; assumption. }
        pose proof (del_scan_In x u (groups s) Hk Hg HUm q y v) as D.
        destruct (del_scan x u (groups s)) as [gs' [p|]]; cbn [fst groups] in *; symmetry; assumption.
      * intros a b [y v] Ha Hb. apply spec_del_In in Ha; [|assumption]. apply spec_del_In in Hb; [|assumption].
        apply (HU a b (y, v)); [apply Ha|apply Hb].
      * unfold spec_step. rewrite Ho. unfold step_del.
        destruct (del_scan x u (groups s)) as [gs' [p|]]; cbn [fst closed sopen]; rewrite C; reflexivity.
    + (* Tick *) unfold spec_step. rewrite Ho. unfold step_tick.
      destruct (lookup p (groups s)); cbn [fst]; constructor; try assumption; rewrite C; assumption.
    + (* Close *) unfold spec_step. rewrite Ho. cbn [fst step_close].
      constructor; [assumption|cbn; tauto|intros p q xu []|reflexivity].
Qed.

Lemma Sim_run_from s sp evs : Sim s sp -> wf_from sp evs ->
  Sim (run_from s evs) (fold_left spec_step evs sp).
Proof.
  revert s sp. induction evs as [|e r IH]; intros s sp HS Hw; [assumption|].
  cbn [wf_from] in Hw. destruct Hw as [Hok Hw]. cbn [run_from fold_left].
  apply IH; [apply Sim_step; assumption|assumption].
Qed.

Lemma Sim_run evs : wf_hist evs -> Sim (run evs) (spec_run evs).
Proof. intros H. apply Sim_run_from; [apply Sim_init|assumption]. Qed.

(* ================================================================ C15_tick_exact *)

Lemma query_of_id g : Forall entry_ok g -> query_of g = g.
Proof.
  intros H. unfold query_of. induction g as [|e g IH]; [reflexivity|].
  inversion H as [|? ? He Hg]; subst. cbn [filter]. destruct He as [Hne _].
  destruct (snd e) eqn:E; [exfalso; apply Hne; reflexivity|]. cbn [is_nil negb]. f_equal. apply IH. assumption.
Qed.

Lemma group_ok_inhabited g : group_ok g -> exists x u, In (x, u) (flat_pairs g).
Proof.
  intros [Hne [_ Hf]]. destruct g as [|[x us] g]; [exfalso; apply Hne; reflexivity|].
  inversion Hf as [|? ? He _]; subst. destruct He as [Hn _]. cbn [snd] in Hn.
  destruct us as [|u us]; [exfalso; apply Hn; reflexivity|].
  exists x, u. apply in_flat_pairs. exists (u :: us). split; left; reflexivity.
Qed.

Lemma tick_exact_sim s sp p a :
  Sim s sp -> sopen sp = true ->
  (exists x u, In (p, (x, u)) (regs sp)) ->
  exists q, step s (Tick p a) = (s, Query q :: notifications a)
            /\ NoDup (flat_pairs q)
            /\ (forall e, In e q -> snd e <> [])
            /\ (forall x u, In (x, u) (flat_pairs q) <-> In (p, (x, u)) (regs sp)).
Proof.
  intros [HI HR HU Ho] Hopen [x0 [u0 H0]].
  rewrite Hopen in Ho. assert (C : closed s = false) by (destruct (closed s); [discriminate|reflexivity]).
  destruct HI as [Hk Hg _ _].
  apply HR in H0. apply in_flat_regs in H0. destruct H0 as [g [Hin _]].
  pose proof (In_lookup _ _ _ Hk Hin) as L.
  assert (Gok : group_ok g). { rewrite Forall_forall in Hg. apply (Hg _ Hin). }
  destruct Gok as [_ [Gn Gf]].
  exists g. unfold step. rewrite C. unfold step_tick. rewrite L. rewrite (query_of_id g Gf).
  split; [reflexivity|]. split; [|split].
  - rewrite flat_pairs_flatk. apply NoDup_flatk; [assumption|].
    rewrite Forall_forall in *. intros e He. apply (Gf e He).
  - intros e He. rewrite Forall_forall in Gf. apply (Gf e He).
  - intros x u. rewrite HR, in_flat_regs. split.
    + intros H. exists g. split; assumption.
    + intros [g' [H1 H2]]. assert (g' = g) by (apply (In_unique p _ _ _ Hk H1 Hin)). subst. assumption.
Qed.

Lemma tick_exact evs p a :
  wf_hist evs -> sopen (spec_run evs) = true ->
  (exists x u, In (p, (x, u)) (regs (spec_run evs))) ->
  exists q, step (run evs) (Tick p a) = (run evs, Query q :: notifications a)
            /\ NoDup (flat_pairs q)
            /\ (forall e, In e q -> snd e <> [])
            /\ (forall x u, In (x, u) (flat_pairs q) <-> In (p, (x, u)) (regs (spec_run evs))).
Proof. intros Hw. apply tick_exact_sim. apply Sim_run. assumption. Qed.

Lemma tick_stale_sim s sp p a :
  Sim s sp -> (forall x u, ~ In (p, (x, u)) (regs sp)) ->
  step s (Tick p a) = (s, []).
Proof.
  intros [HI HR HU Ho] Hno.
  unfold step. destruct (closed s) eqn:C; [reflexivity|].
  unfold step_tick. destruct (lookup p (groups s)) as [g|] eqn:L; [|reflexivity].
  exfalso. destruct HI as [Hk Hg _ _]. pose proof (lookup_In _ _ _ L) as Lin.
  assert (Gok : group_ok g). { rewrite Forall_forall in Hg. apply (Hg _ Lin). }
  destruct (group_ok_inhabited g Gok) as [x [u Hxu]].
  apply (Hno x u). apply HR. apply in_flat_regs. exists g. split; assumption.
Qed.

Lemma tick_stale evs p a :
  wf_hist evs -> (forall x u, ~ In (p, (x, u)) (regs (spec_run evs))) ->
  step (run evs) (Tick p a) = (run evs, []).
Proof. intros Hw. apply tick_stale_sim. apply Sim_run. assumption. Qed.

(* a tick never changes the state *)
Lemma tick_state s p a : fst (step s (Tick p a)) = s.
Proof. unfold step. destruct (closed s); [reflexivity|]. unfold step_tick. destruct (lookup p (groups s)); reflexivity. Qed.

(* only ticks query or notify *)
Lemma quiet_events s e : (forall p a, e <> Tick p a) ->
  queries_of (snd (step s e)) = [] /\ notifies_of (snd (step s e)) = [].
Proof.
  intros Hne. unfold step. destruct (closed s); [split; reflexivity|]. destruct e as [x u p|x u|p a|].
  - unfold step_add. destruct (lookup p (groups s)); split; reflexivity.
  - unfold step_del. destruct (del_scan x u (groups s)) as [gs' [p|]]; split; reflexivity.
  - exfalso. apply (Hne p a). reflexivity.
  - unfold step_close. cbn [snd]. split; induction (groups s) as [|pg r IH]; try reflexivity; cbn [map queries_of notifies_of flat_map app]; assumption.
Qed.

(* ================================================================ C15_deliver *)

Definition flat_reports (l : list (N * list report)) : list (N * report) :=
  flat_map (fun e => map (pair (fst e)) (snd e)) l.

Lemma mark_periodic r : is_periodic (mark r) = true /\ r_urr (mark r) = r_urr r /\ r_tag (mark r) = r_tag r
  /\ forall i, i <> PERIO_BIT -> N.testbit (r_flags (mark r)) i = N.testbit (r_flags r) i.
Proof.
  unfold is_periodic, mark, PERIO_BIT. cbn [r_flags r_urr r_tag].
  replace perio_mark_flag with 1 by reflexivity.
  split; [|split; [reflexivity|split; [reflexivity|]]].
  - rewrite N.lor_spec. cbn. apply orb_true_r.
  - intros i Hi. rewrite N.lor_spec. replace (N.testbit 1 i) with false; [apply orb_false_r|].
    symmetry. destruct i as [|[i|i|]]; try reflexivity. exfalso. apply Hi. reflexivity.
Qed.

Lemma notifies_of_notifications a :
  notifies_of (notifications a) =
  match a with Some l => map (fun e => (fst e, map mark (snd e))) l | None => [] end.
Proof.
  destruct a as [l|]; [|reflexivity]. unfold notifications. destruct l as [|e l]; [reflexivity|].
  generalize (e :: l). intros m. induction m as [|e' m IH]; [reflexivity|].
  cbn [map notifies_of flat_map app]. f_equal. apply IH.
Qed.

Lemma queries_of_notifications a : queries_of (notifications a) = [].
Proof.
  destruct a as [l|]; [|reflexivity]. unfold notifications. destruct l as [|e l]; [reflexivity|].
  generalize (e :: l). intros m. induction m as [|e' m IH]; [reflexivity|]. cbn [map queries_of flat_map app]. apply IH.
Qed.

Lemma flat_reports_map_mark l :
  flat_reports (map (fun e => (fst e, map mark (snd e))) l) =
  map (fun xr => (fst xr, mark (snd xr))) (flat_reports l).
Proof.
  induction l as [|[x rs] l IH]; [reflexivity|].
  unfold flat_reports in *. cbn [map flat_map fst snd]. rewrite map_app, IH. f_equal.
  rewrite !map_map. reflexivity.
Qed.

(* whenever a tick finds its group: the notifications are exactly the returned answer, report by report,
   each with PERIO set, under the SEID it was returned for (error => nothing) *)
Lemma deliver s p a g :
  closed s = false -> lookup p (groups s) = Some g ->
  notifies_of (snd (step s (Tick p a))) =
    match a with Some l => map (fun e => (fst e, map mark (snd e))) l | None => [] end
  /\ flat_reports (notifies_of (snd (step s (Tick p a)))) =
     map (fun xr => (fst xr, mark (snd xr))) (match a with Some l => flat_reports l | None => [] end).
Proof.
  intros C L. unfold step. rewrite C. unfold step_tick. rewrite L. cbn [snd].
  assert (E : notifies_of (Query (query_of g) :: notifications a) = notifies_of (notifications a)) by reflexivity.
  rewrite E, notifies_of_notifications. split; [reflexivity|].
  destruct a as [l|]; [apply flat_reports_map_mark|reflexivity].
Qed.

(* ================================================================ C15_tickers *)

Lemma tickers_iff evs p : wf_hist evs ->
  (In p (tickers (run evs)) <-> exists x u, In (p, (x, u)) (regs (spec_run evs))).
Proof.
  intros Hw. destruct (Sim_run evs Hw) as [[Hk Hg Ht _] HR _ _]. rewrite Ht. split.
  - intros H. unfold keys in H. apply in_map_iff in H. destruct H as [[p' g] [E Hin]]. cbn [fst] in E. subst p'.
    assert (Gok : group_ok g). { rewrite Forall_forall in Hg. apply (Hg _ Hin). }
    destruct (group_ok_inhabited g Gok) as [x [u Hxu]]. exists x, u. apply HR. apply in_flat_regs.
    exists g. split; assumption.
  - intros [x [u H]]. apply HR in H. apply in_flat_regs in H. destruct H as [g [Hin _]]. apply (In_key _ _ _ Hin).
Qed.

(* ================================================================ C15_batches *)

Section BatchProofs.
  Context {A : Type}.

  Lemma batches_aux_concat n : forall (l acc : list A), concat (batches_aux n acc l) = (acc ++ l)%list.
  Proof.
    induction l as [|a r IH]; intros acc; cbn [batches_aux].
    - destruct acc; [reflexivity|]. cbn [concat]. rewrite !app_nil_r. reflexivity.
    - cbv zeta. destruct (Nat.leb n (length (acc ++ [a]))).
      + cbn [concat]. rewrite IH. cbn [app]. rewrite <- app_assoc. reflexivity.
      + rewrite IH. rewrite <- app_assoc. reflexivity.
  Qed.

  Lemma batches_aux_sizes n : forall (l acc : list A), (0 < n)%nat -> (length acc < n)%nat ->
    Forall (fun b => (1 <= length b <= n)%nat) (batches_aux n acc l).
  Proof.
    induction l as [|a r IH]; intros acc Hn Hacc; cbn [batches_aux].
    - destruct acc as [|a0 acc]; [constructor|]. constructor; [|constructor]. cbn [length] in *. lia.
    - cbv zeta. assert (El : length (acc ++ [a]) = S (length acc)) by (rewrite app_length; cbn [length]; lia).
      destruct (Nat.leb n (length (acc ++ [a]))) eqn:E.
      + apply Nat.leb_le in E. constructor; [lia|]. apply IH; [assumption|cbn [length]; lia].
      + apply Nat.leb_gt in E. apply IH; [assumption|lia].
  Qed.

  (* every request but the last is full: the number of requests is minimal *)
  Lemma batches_aux_full n : forall (l acc : list A), (0 < n)%nat -> (length acc < n)%nat ->
    forall bs b, batches_aux n acc l = (bs ++ [b])%list -> Forall (fun c => length c = n) bs.
  Proof.
    induction l as [|a r IH]; intros acc Hn Hacc bs b; cbn [batches_aux].
    - destruct acc as [|a0 acc]; intros H.
      + destruct bs; discriminate.
      + destruct bs as [|c bs]; [constructor|]. inversion H as [[E1 E2]]. destruct bs; discriminate.
    - cbv zeta. assert (El : length (acc ++ [a]) = S (length acc)) by (rewrite app_length; cbn [length]; lia).
      destruct (Nat.leb n (length (acc ++ [a]))) eqn:E; intros H.
      + apply Nat.leb_le in E. destruct bs as [|c bs].
        * constructor.
        * inversion H as [[E1 E2]]. subst c. constructor; [lia|]. apply (IH [] Hn ltac:(cbn [length]; lia) bs b E2).
      + apply Nat.leb_gt in E. apply (IH (acc ++ [a])%list Hn ltac:(lia) bs b H).
  Qed.

  Lemma batches_spec n (l : list A) : (0 < n)%nat ->
    concat (batches n l) = l
    /\ Forall (fun b => (1 <= length b <= n)%nat) (batches n l)
    /\ (forall bs b, batches n l = (bs ++ [b])%list -> Forall (fun c => length c = n) bs).
  Proof.
    intros Hn. unfold batches. split; [apply batches_aux_concat|]. split.
    - apply batches_aux_sizes; [assumption|cbn [length]; lia].
    - apply batches_aux_full; [assumption|cbn [length]; lia].
  Qed.
End BatchProofs.

(* ================================================================ the monitors accept the model (no false alarm) *)

From Coq Require Import Permutation.

Section SetBProofs.
  Context {A : Type} (eqb : A -> A -> bool) (eqb_eq : forall a b, eqb a b = true <-> a = b).

  Lemma memb_In a l : memb eqb a l = true <-> In a l.
  Proof.
    unfold memb. rewrite existsb_exists. split.
    - intros [b [Hb E]]. apply eqb_eq in E. subst. assumption.
    - intros H. exists a. split; [assumption|apply eqb_eq; reflexivity].
  Qed.

  Lemma inclb_intro l m : (forall a, In a l -> In a m) -> inclb eqb l m = true.
  Proof. intros H. unfold inclb. apply forallb_forall. intros a Ha. apply memb_In. apply H. assumption. Qed.

  Lemma nodupb_intro l : NoDup l -> nodupb eqb l = true.
  Proof.
    induction l as [|a l IH]; intros H; [reflexivity|]. inversion H as [|? ? Ha Hl]; subst.
    cbn [nodupb]. rewrite IH by assumption. rewrite andb_true_r. apply negb_true_iff.
    destruct (memb eqb a l) eqn:E; [|reflexivity]. apply memb_In in E. contradiction.
  Qed.

  Lemma same_setb_intro l m : NoDup l -> (forall a, In a l <-> In a m) -> same_setb eqb l m = true.
  Proof.
    intros Hn H. unfold same_setb. rewrite !andb_true_iff. split; [split|].
    - apply inclb_intro. intros a. apply H.
    - apply inclb_intro. intros a. apply H.
    - apply nodupb_intro. assumption.
  Qed.
End SetBProofs.

Lemma spec_pairs_In sp p x u : In (x, u) (spec_pairs sp p) <-> In (p, (x, u)) (regs sp).
Proof.
  unfold spec_pairs. rewrite in_map_iff. split.
  - intros [[q xu] [E H]]. cbn [snd] in E. subst xu. apply filter_In in H. destruct H as [H Eq].
    cbn [fst] in Eq. apply N.eqb_eq in Eq. subst. assumption.
  - intros H. exists (p, (x, u)). split; [reflexivity|]. apply filter_In. split; [assumption|]. cbn [fst]. apply N.eqb_refl.
Qed.

Lemma no_fault_open s e : closed s = false -> faulted (snd (step s e)) = false.
Proof.
  intros C. unfold step. rewrite C. destruct e as [x u p|x u|p a|].
  - unfold step_add. destruct (lookup p (groups s)); reflexivity.
  - unfold step_del. destruct (del_scan x u (groups s)) as [gs' [p|]]; reflexivity.
  - unfold step_tick. destruct (lookup p (groups s)); [|reflexivity]. cbn [snd faulted existsb orb].
    unfold notifications. destruct a as [l|]; [|reflexivity]. destruct l as [|e l]; [reflexivity|].
    generalize (e :: l). intros m. induction m as [|e' m IH]; [reflexivity|]. cbn [map existsb orb]. assumption.
  - unfold step_close. cbn [snd]. unfold faulted. induction (groups s) as [|pg r IH]; [reflexivity|]. cbn [map existsb orb]. assumption.
Qed.

Lemma ins_key_map {V W} (f : V -> W) (e : N * V) l :
  ins_key (fst e, f (snd e)) (map (fun x => (fst x, f (snd x))) l) = map (fun x => (fst x, f (snd x))) (ins_key e l).
Proof.
  induction l as [|h t IH]; [reflexivity|]. cbn [map ins_key fst]. destruct (fst e <=? fst h); [reflexivity|].
  cbn [map]. f_equal. apply IH.
Qed.

Lemma sort_key_map {V W} (f : V -> W) l :
  sort_key (map (fun x => (fst x, f (snd x))) l) = map (fun x => (fst x, f (snd x))) (sort_key l).
Proof.
  unfold sort_key. induction l as [|e l IH]; [reflexivity|]. cbn [map fold_right]. rewrite IH. apply ins_key_map.
Qed.

Lemma marked_matches (m : list (N * list report)) :
  list_eqb notify_matches (map (fun e => (fst e, map mark (snd e))) m) m = true.
Proof.
  induction m as [|[x rs] m IH]; [reflexivity|]. cbn [map list_eqb fst snd]. rewrite IH, andb_true_r.
  unfold notify_matches. cbn [fst snd]. rewrite N.eqb_refl. cbn [andb].
  induction rs as [|r rs IHr]; [reflexivity|]. cbn [map list_eqb]. rewrite IHr, andb_true_r.
  unfold same_but_perio. destruct (mark_periodic r) as [P [E1 [E2 _]]]. rewrite E1, E2, !N.eqb_refl, P. reflexivity.
Qed.

Lemma NoDup_flat_regs gs : NoDup (keys gs) -> Forall (fun pg => group_ok (snd pg)) gs -> NoDup (flat_regs gs).
Proof.
  intros Hk Hg. rewrite flat_regs_flatk. apply NoDup_flatk; [assumption|].
  rewrite Forall_forall in *. intros pg Hpg. destruct (Hg pg Hpg) as [_ [Gn Gf]].
  rewrite flat_pairs_flatk. apply NoDup_flatk; [assumption|].
  rewrite Forall_forall in *. intros e He. apply (Gf e He).
Qed.

Lemma mon_tickers_ok s sp : Sim s sp ->
  mon_tickers sp {| o_queries := []; o_notifies := []; o_groups := groups s;
                    o_tickers := N.of_nat (length (tickers s)); o_fault := false |} = true.
Proof.
  intros [[Hk Hg Ht Hc] HR HU Ho]. unfold mon_tickers. cbn [o_groups o_tickers].
  rewrite !andb_true_iff. repeat split.
  - apply (same_setb_intro reg_eqb reg_eqb_eq); [apply NoDup_flat_regs; assumption|]. intros t. symmetry. apply HR.
  - apply forallb_forall. intros pg Hpg. rewrite Forall_forall in Hg. destruct (Hg pg Hpg) as [Gne [_ Gf]].
    destruct pg as [p0 g]. cbn [snd] in *. destruct g as [|e0 g0]; [exfalso; apply Gne; reflexivity|]. cbn [andb].
    apply forallb_forall. intros e He. rewrite Forall_forall in Gf. destruct (Gf e He) as [Ene _].
    destruct e as [x0 us]. cbn [snd] in *. destruct us; [exfalso; apply Ene; reflexivity|reflexivity].
  - apply (nodupb_intro N.eqb N.eqb_eq). assumption.
  - apply N.eqb_eq. f_equal. rewrite Ht. apply Permutation_length. apply NoDup_Permutation.
    + assumption.
    + unfold spec_periods. apply NoDup_nodup.
    + intros p. unfold spec_periods. rewrite nodup_In, in_map_iff. split.
      * intros H. unfold keys in H. apply in_map_iff in H. destruct H as [[p' g] [E Hin]]. cbn [fst] in E. subst p'.
        assert (Gok : group_ok g). { rewrite Forall_forall in Hg. apply (Hg _ Hin). }
        destruct (group_ok_inhabited g Gok) as [x [u Hxu]]. exists (p, (x, u)). split; [reflexivity|].
        apply HR. apply in_flat_regs. exists g. split; assumption.
      * intros [[p' xu] [E H]]. cbn [fst] in E. subst p'. apply HR in H. apply in_flat_regs in H.
        destruct H as [g [Hin _]]. apply (In_key _ _ _ Hin).
Qed.

Lemma mon_tickers_irrel sp q n g t f :
  mon_tickers sp {| o_queries := q; o_notifies := n; o_groups := g; o_tickers := t; o_fault := f |} =
  mon_tickers sp {| o_queries := []; o_notifies := []; o_groups := g; o_tickers := t; o_fault := false |}.
Proof. reflexivity. Qed.

Lemma mon_event_ok s sp e : Sim s sp -> ev_ok sp e -> mon_event sp e (obs_of (step s e)) = true.
Proof.
  intros HS Hok. pose proof (Sim_step s sp e HS Hok) as HS'. pose proof HS as HSim.
  destruct HS as [HI HR HU Ho]. unfold mon_event. destruct (sopen sp) eqn:Open.
  - assert (C : closed s = false) by (destruct (closed s); [discriminate|reflexivity]).
    rewrite !andb_true_iff. split; [split; [split|]|].
    + unfold obs_of. cbn [o_fault]. rewrite (no_fault_open s e C). reflexivity.
    + (* tick_exact *)
      unfold mon_tick_exact, obs_of. cbn [o_queries].
      destruct e as [x u p|x u|p a|];
        [ rewrite (proj1 (quiet_events s (Add x u p) ltac:(intros; discriminate))); reflexivity
        | rewrite (proj1 (quiet_events s (Del x u) ltac:(intros; discriminate))); reflexivity
        | 
        | rewrite (proj1 (quiet_events s Close ltac:(intros; discriminate))); reflexivity ].
      destruct (spec_pairs sp p) as [|w ws] eqn:W.
      * assert (E : step s (Tick p a) = (s, [])).
        { apply (tick_stale_sim s sp p a HSim). intros x u H. apply spec_pairs_In in H. rewrite W in H. destruct H. }
        rewrite E. reflexivity.
      * destruct (tick_exact_sim s sp p a HSim Open) as [q [E [Hn [Hne Hiff]]]].
        { destruct w as [x u]. exists x, u. apply spec_pairs_In. rewrite W. left. reflexivity. }
        rewrite E. cbn [snd]. assert (Q : queries_of (Query q :: notifications a) = [q]).
        { change (queries_of (Query q :: notifications a)) with (q :: queries_of (notifications a)).
          rewrite queries_of_notifications. reflexivity. }
        rewrite Q. rewrite andb_true_iff. split.
        -- apply (same_setb_intro pair_eqb pair_eqb_eq); [assumption|]. intros [x u]. rewrite Hiff, <- spec_pairs_In, W. reflexivity.
        -- apply forallb_forall. intros e0 He0. specialize (Hne e0 He0). destruct (snd e0); [exfalso; apply Hne; reflexivity|reflexivity].
    + (* deliver *)
      unfold mon_deliver, obs_of. cbn [o_notifies].
      destruct e as [x u p|x u|p a|];
        [ rewrite (proj2 (quiet_events s (Add x u p) ltac:(intros; discriminate))); reflexivity
        | rewrite (proj2 (quiet_events s (Del x u) ltac:(intros; discriminate))); reflexivity
        | 
        | rewrite (proj2 (quiet_events s Close ltac:(intros; discriminate))); reflexivity ].
      assert (Hstale : spec_pairs sp p = [] -> notifies_of (snd (step s (Tick p a))) = []).
      { intros W. assert (E : step s (Tick p a) = (s, [])).
        { apply (tick_stale_sim s sp p a HSim). intros x u H. apply spec_pairs_In in H. rewrite W in H. destruct H. }
        rewrite E. reflexivity. }
      assert (Hlive : spec_pairs sp p <> [] -> notifies_of (snd (step s (Tick p a))) =
                      match a with Some l => map (fun e => (fst e, map mark (snd e))) l | None => [] end).
      { intros W. destruct (spec_pairs sp p) as [|[x u] ws] eqn:W'; [exfalso; apply W; reflexivity|].
        destruct (tick_exact_sim s sp p a HSim Open) as [q [E _]].
        { exists x, u. apply spec_pairs_In. rewrite W'. left. reflexivity. }
        rewrite E. cbn [snd]. change (notifies_of (Query q :: notifications a)) with (notifies_of (notifications a)).
        apply notifies_of_notifications. }
      destruct a as [[|r rest]|].
      * destruct (spec_pairs sp p) eqn:W; [rewrite Hstale by reflexivity; reflexivity|].
        rewrite Hlive by discriminate. reflexivity.
      * destruct (spec_pairs sp p) eqn:W; [rewrite Hstale by reflexivity; reflexivity|].
        rewrite Hlive by discriminate. rewrite sort_key_map. apply marked_matches.
      * destruct (spec_pairs sp p) eqn:W; [rewrite Hstale by reflexivity; reflexivity|].
        rewrite Hlive by discriminate. reflexivity.
    + unfold obs_of. rewrite mon_tickers_irrel. apply mon_tickers_ok. assumption.
  - assert (C : closed s = true) by (destruct (closed s); [reflexivity|discriminate]).
    unfold step. rewrite C. unfold obs_of. cbn [fst snd o_queries o_notifies o_groups o_tickers queries_of notifies_of flat_map app].
    destruct HI as [_ _ Ht Hc]. rewrite (Hc C). rewrite Ht, (Hc C). reflexivity.
Qed.

Lemma mon_from_ok evs : forall s sp, Sim s sp -> wf_from sp evs ->
  mon_from sp evs (map obs_of (trace_from s evs)) = true.
Proof.
  induction evs as [|e r IH]; intros s sp HS Hw; [reflexivity|].
  cbn [wf_from] in Hw. destruct Hw as [Hok Hw]. cbn [trace_from map mon_from].
  rewrite (mon_event_ok s sp e HS Hok). cbn [andb]. apply IH; [apply Sim_step; assumption|assumption].
Qed.

Lemma monitor_accepts_model evs : wf_hist evs -> monitor evs (map obs_of (trace evs)) = true.
Proof. intros H. apply mon_from_ok; [apply Sim_init|assumption]. Qed.

(* ================================================================ T-gen: the source shapes the model was written for *)

From Coq Require Import String.
Local Open Scope string_scope.
Lemma source_shapes :
  perio_mark_name = "USAR_TRIG_PERIO" /\ perio_mark_flag = 1%N
  /\ perio_timeout_call_sites = (1%N, 1%N)
  /\ batch_limit_src = "gtp5gnl.MaxNetlinkUsageReportNum()"
  /\ batch_flush_cond = "queryNum >= queryNumOnce"
  /\ batch_flush_call = "gtp5gnl.GetMultiReportsOID(c, g.link.link, oids)"
  /\ batch_flush_resets = ["reports = append(reports, rs...)"; "oids = oids[:0]"; "queryNum = 0"]
  /\ batch_tail_cond = "len(oids) > 0"
  /\ batch_tail_call = "gtp5gnl.GetMultiReportsOID(c, g.link.link, oids)".
Proof. repeat split; reflexivity. Qed.
Local Close Scope string_scope.
