(* The session table (LocalNode), node ownership and data-plane containment as one world invariant;
   the table-level operations preserve it. *)
From Coq Require Import String List NArith ZArith Bool Lia.
From GoUpf Require Import Bytes FlagsGen ConstsGen HandlerGen Pfcp PfcpBase PfcpSess PfcpClose.
Import ListNotations.
Local Open Scope N_scope.

Definition live (w : world) (lid : N) (s : sess) : Prop :=
  1 <= lid /\ nth_error (w_slots w) (N.to_nat (lid - 1)) = Some (Some s).

Record WInv (w : world) : Prop := mkWInv {
  wi_free_nodup : NoDup (w_free w);
  wi_free : forall id, In id (w_free w) <-> 1 <= id /\ nth_error (w_slots w) (N.to_nat (id - 1)) = Some None;
  wi_lid : forall i s, nth_error (w_slots w) i = Some (Some s) -> s_lid s = N.of_nat i + 1;
  wi_dp : forall seid k id, In (seid, k, id) (w_dp w) -> exists s, live w seid s /\ In id (recorded s k);
  wi_removed : forall lid s, live w lid s -> removed_absent s (w_dp w);
  wi_node : forall lid s, live w lid s ->
            exists n, nth_error (w_heap w) (s_node s) = Some n /\ In lid (n_sess n);
  wi_owner : forall ref n lid, nth_error (w_heap w) ref = Some n -> In lid (n_sess n) ->
             exists s, live w lid s /\ s_node s = ref;
  wi_rnodes : forall id ref, In (id, ref) (w_rnodes w) -> (ref < length (w_heap w))%nat }.

Lemma live_fun w lid s s' : live w lid s -> live w lid s' -> s = s'.
Proof. intros [_ H1] [_ H2]. congruence. Qed.

Lemma live_lid w lid s : WInv w -> live w lid s -> s_lid s = lid.
Proof. intros HI [H1 H2]. rewrite (wi_lid w HI _ _ H2). lia. Qed.

Lemma live_SOK w lid s : WInv w -> live w lid s -> SOK s (w_dp w).
Proof.
  intros HI HL. split.
  - intros k id Hi. rewrite (live_lid _ _ _ HI HL) in Hi.
    destruct (wi_dp w HI _ _ _ Hi) as [s' [HL' Hr]]. rewrite (live_fun _ _ _ _ HL HL'). exact Hr.
  - eapply wi_removed; eauto.
Qed.

(* ---------------------------------------------------------------- lookup *)

Lemma lookup_spec sl seid :
  (exists s, lookup sl seid = Ok (Found s) /\ 1 <= seid /\ nth_error sl (N.to_nat (seid - 1)) = Some (Some s)) \/
  (lookup sl seid = Ok NotFound /\
   (seid = 0 \/ nth_error sl (N.to_nat (seid - 1)) = None \/ nth_error sl (N.to_nat (seid - 1)) = Some None)).
Proof.
  unfold lookup. destruct (N.eqb_spec seid 0) as [->|Hz]; [right; auto|].
  destruct (N.ltb_spec (N.of_nat (length sl)) seid) as [Hlt|Hge].
  - right. split; [reflexivity|]. right. left. apply nth_error_None. lia.
  - unfold slot_get. destruct (nth_error sl (N.to_nat (seid - 1))) as [[s|]|] eqn:E.
    + left. exists s. repeat split; auto. lia.
    + right. auto.
    + exfalso. apply nth_error_None in E. lia.
Qed.

Lemma lookup_no_fault sl seid f : lookup sl seid <> Fault f.
Proof. destruct (lookup_spec sl seid) as [[s [H _]]|[H _]]; rewrite H; discriminate. Qed.

Lemma lookup_found w seid s : lookup (w_slots w) seid = Ok (Found s) <-> live w seid s.
Proof.
  unfold live. destruct (lookup_spec (w_slots w) seid) as [[s' [H [H1 H2]]]|[H H1]]; rewrite H.
  - split; [intros E; inversion E; subst; auto | intros [_ E]; congruence].
  - split; [discriminate|]. intros [Hp E]. destruct H1 as [->|[H1|H1]]; [lia | congruence | congruence].
Qed.

Lemma lookup_notfound w seid : lookup (w_slots w) seid = Ok NotFound <-> forall s, ~ live w seid s.
Proof.
  destruct (lookup_spec (w_slots w) seid) as [[s' [H [H1 H2]]]|[H H1]]; rewrite H.
  - split; [discriminate|]. intros Hn. exfalso. apply (Hn s'). split; assumption.
  - split; [|reflexivity]. intros _ s [Hp E]. destruct H1 as [->|[H1|H1]]; [lia | congruence | congruence].
Qed.

(* the code before the repair faults for a SEID whose int64 reinterpretation is negative *)
Example lookup_legacy_faults : lookup_legacy [] 18446744073709551615 = Fault FIndexOutOfRange.
Proof. vm_compute. reflexivity. Qed.

(* ---------------------------------------------------------------- replacing a live session *)

Lemma nth_set_nth {A} n m (x : A) l :
  nth_error (set_nth n x l) m = if Nat.eqb n m then (if (n <? length l)%nat then Some x else None) else nth_error l m.
Proof.
  destruct (Nat.eqb_spec n m) as [->|Hne].
  - destruct (Nat.ltb_spec m (length l)).
    + apply nth_error_set_nth_same. assumption.
    + apply nth_error_None. rewrite set_nth_length. assumption.
  - apply nth_error_set_nth_other. assumption.
Qed.

Definition upd_world (w : world) (lid : N) (s : sess) (dp : dplane) : world :=
  set_dp dp (set_slots_free (set_nth (N.to_nat (lid - 1)) (Some s) (w_slots w)) (w_free w) w).

Lemma live_upd_same w lid s0 s dp : live w lid s0 -> live (upd_world w lid s dp) lid s.
Proof.
  intros [Hp H]. split; [assumption|]. cbn [upd_world set_dp set_slots_free w_slots].
  rewrite nth_error_set_nth_same; [reflexivity|]. apply nth_error_Some. congruence.
Qed.

Lemma live_upd_other w lid s dp lid' s' :
  lid' <> lid -> 1 <= lid -> (live (upd_world w lid s dp) lid' s' <-> live w lid' s').
Proof.
  intros Hne Hp. unfold live. cbn [upd_world set_dp set_slots_free w_slots].
  split; intros [H1 H2]; (split; [assumption|]).
  - rewrite nth_error_set_nth_other in H2 by lia. assumption.
  - rewrite nth_error_set_nth_other by lia. assumption.
Qed.

Lemma WInv_upd w lid s0 s dp :
  WInv w -> live w lid s0 ->
  s_lid s = lid -> s_node s = s_node s0 ->
  SOK s dp ->
  (forall r, fst (fst r) <> lid -> (In r dp <-> In r (w_dp w))) ->
  WInv (upd_world w lid s dp).
Proof.
  intros HI HL Hlid Hnode [Hc Hr] Hframe.
  pose proof HL as [Hp Hnth].
  assert (Hlt : (N.to_nat (lid - 1) < length (w_slots w))%nat) by (apply nth_error_Some; congruence).
  constructor; cbn [upd_world set_dp set_slots_free w_free w_slots w_dp w_heap w_rnodes].
  - apply (wi_free_nodup w HI).
  - intros id. rewrite (wi_free w HI id). rewrite nth_set_nth.
    destruct (Nat.eqb_spec (N.to_nat (lid - 1)) (N.to_nat (id - 1))) as [E|E].
    + split; intros [H1 H2].
      * exfalso. rewrite <- E in H2. congruence.
      * exfalso. destruct (N.to_nat (lid - 1) <? length (w_slots w))%nat; discriminate.
    + tauto.
  - intros i s' H. rewrite nth_set_nth in H.
    destruct (Nat.eqb_spec (N.to_nat (lid - 1)) i) as [E|E].
    + destruct (N.to_nat (lid - 1) <? length (w_slots w))%nat; inversion H; subst. lia.
    + apply (wi_lid w HI). assumption.
  - intros seid k id Hi. destruct (N.eq_dec seid lid) as [->|Hne].
    + exists s. split; [eapply live_upd_same; eauto|]. apply Hc. rewrite Hlid. assumption.
    + apply Hframe in Hi; [|cbn; assumption].
      destruct (wi_dp w HI _ _ _ Hi) as [s' [HL' Hin]]. exists s'. split; [|assumption].
      apply live_upd_other; assumption.
  - intros lid' s' HL' u inf Hu Hrm Hi.
    destruct (N.eq_dec lid' lid) as [->|Hne].
    + pose proof (live_fun _ _ _ _ HL' (live_upd_same w lid s0 s dp HL)). subst s'.
      eapply Hr; eauto.
    + apply live_upd_other in HL'; [|assumption|assumption].
      assert (E : s_lid s' = lid') by (eapply live_lid; eauto).
      apply Hframe in Hi; [|cbn; congruence]. eapply (wi_removed w HI); eauto.
  - intros lid' s' HL'. destruct (N.eq_dec lid' lid) as [->|Hne].
    + pose proof (live_fun _ _ _ _ HL' (live_upd_same w lid s0 s dp HL)). subst s'.
      rewrite Hnode. apply (wi_node w HI). assumption.
    + apply live_upd_other in HL'; [|assumption|assumption]. apply (wi_node w HI). assumption.
  - intros ref n lid' Hn Hin. destruct (wi_owner w HI _ _ _ Hn Hin) as [s' [HL' E]].
    destruct (N.eq_dec lid' lid) as [->|Hne].
    + exists s. split; [eapply live_upd_same; eauto|]. rewrite (live_fun _ _ _ _ HL' HL) in E. congruence.
    + exists s'. split; [|assumption]. apply live_upd_other; assumption.
  - apply (wi_rnodes w HI).
Qed.

Lemma put_slot_spec w s s0 :
  live w (s_lid s) s0 -> put_slot w s = Ok (upd_world w (s_lid s) s (w_dp w)).
Proof.
  intros [Hp H]. unfold put_slot. rewrite slot_set_in_range by (apply nth_error_Some; congruence).
  destruct w; reflexivity.
Qed.

(* ---------------------------------------------------------------- allocation *)

Lemma nth_error_app_last {A} (l : list A) x : nth_error (l ++ [x]) (length l) = Some x.
Proof. rewrite nth_error_app2 by lia. rewrite Nat.sub_diag. reflexivity. Qed.

Lemma rev_last_removelast {A} (l : list A) x r : rev l = x :: r -> l = removelast l ++ [x] /\ removelast l = rev r.
Proof.
  intros H. assert (E : l = rev r ++ [x]) by (rewrite <- (rev_involutive l), H; reflexivity).
  rewrite E. rewrite removelast_last. auto.
Qed.

(* NewSess followed by the registration in the node's session set *)
Definition est_alloc (w : world) (rid : N) (ref : nat) : res (world * sess) :=
  match new_sess w rid ref with
  | Fault f => Fault f
  | Ok (w1, s) =>
    Ok (set_heap (node_upd ref (fun n => mkNode (n_id n) (n_addr n) (addN (s_lid s) (n_sess n))) (w_heap w1)) w1, s)
  end.

Lemma node_upd_nth ref f h r :
  nth_error (node_upd ref f h) r =
  match nth_error h r with Some n => if Nat.eqb ref r then Some (f n) else Some n | None => None end.
Proof.
  unfold node_upd. destruct (nth_error h ref) as [n|] eqn:E.
  - rewrite nth_set_nth. destruct (Nat.eqb_spec ref r) as [->|Hne].
    + rewrite E. assert (r < length h)%nat by (apply nth_error_Some; congruence).
      destruct (Nat.ltb_spec r (length h)); [reflexivity | lia].
    + destruct (nth_error h r); reflexivity.
  - destruct (Nat.eqb_spec ref r) as [->|Hne]; [rewrite E; reflexivity|]. destruct (nth_error h r); reflexivity.
Qed.

Lemma node_upd_length ref f h : length (node_upd ref f h) = length h.
Proof. unfold node_upd. destruct (nth_error h ref); [apply set_nth_length | reflexivity]. Qed.

Record alloc_post (w : world) (rid : N) (ref : nat) (w2 : world) (s : sess) : Prop := mkAllocPost {
  ap_inv : WInv w2;
  ap_live : live w2 (s_lid s) s;
  ap_shape : s = empty_sess (s_lid s) rid ref;
  ap_nz : s_lid s <> 0;
  ap_fresh : forall s', ~ live w (s_lid s) s';
  ap_dp : w_dp w2 = w_dp w;
  ap_rnodes : w_rnodes w2 = w_rnodes w;
  ap_rx : w_rx w2 = w_rx w;
  ap_tx : w_tx w2 = w_tx w;
  ap_txseq : w_txseq w2 = w_txseq w;
  ap_maxr : w_maxretrans w2 = w_maxretrans w;
  ap_others : forall lid' s', lid' <> s_lid s -> (live w2 lid' s' <-> live w lid' s');
  ap_hlen : length (w_heap w2) = length (w_heap w);
  ap_heap_other : forall r m, r <> ref -> (nth_error (w_heap w2) r = Some m <-> nth_error (w_heap w) r = Some m) }.

Lemma est_alloc_spec w rid ref n :
  WInv w -> nth_error (w_heap w) ref = Some n ->
  exists w2 s, est_alloc w rid ref = Ok (w2, s) /\ alloc_post w rid ref w2 s.
Proof.
  intros HI Hn. unfold est_alloc, new_sess.
  destruct (rev (w_free w)) as [|last rest] eqn:Er.
  - (* append *)
    set (lid := N.of_nat (length (w_slots w)) + 1).
    set (s := empty_sess lid rid ref).
    eexists. exists s. split; [reflexivity|].
    assert (Hfree : w_free w = []) by (rewrite <- (rev_involutive (w_free w)), Er; reflexivity).
    assert (Hidx : N.to_nat (lid - 1) = length (w_slots w)) by (unfold lid; lia).
    assert (Hnl : forall s', ~ live w lid s').
    { intros s' [_ H]. rewrite Hidx in H. assert (length (w_slots w) < length (w_slots w))%nat; [|lia].
      apply nth_error_Some. congruence. }
    assert (Hlive : forall lid' s', lid' <> lid ->
              (1 <= lid' /\ nth_error (w_slots w ++ [Some s]) (N.to_nat (lid' - 1)) = Some (Some s')) <-> live w lid' s').
    { intros lid' s' Hne. unfold live. split; intros [H1 H2]; (split; [assumption|]).
      - destruct (Nat.lt_ge_cases (N.to_nat (lid' - 1)) (length (w_slots w))) as [Hlt|Hge].
        + rewrite nth_error_app1 in H2 by assumption. assumption.
        + rewrite nth_error_app2 in H2 by assumption.
          destruct (N.to_nat (lid' - 1) - length (w_slots w))%nat as [|k] eqn:Ek.
          * exfalso. apply Hne. unfold lid. lia.
          * cbn in H2. destruct k; discriminate.
      - rewrite nth_error_app1; [assumption|]. apply nth_error_Some. congruence. }
    constructor; cbn [set_heap set_slots_free w_free w_slots w_dp w_heap w_rnodes w_rx w_tx w_txseq w_maxretrans s_lid s empty_sess]; try reflexivity.
    + constructor; cbn [set_heap set_slots_free w_free w_slots w_dp w_heap w_rnodes].
      * apply (wi_free_nodup w HI).
      * intros id. rewrite Hfree. split; [intros []|]. intros [H1 H2].
        destruct (Nat.lt_ge_cases (N.to_nat (id - 1)) (length (w_slots w))) as [Hlt|Hge].
        -- rewrite nth_error_app1 in H2 by assumption.
           assert (In id (w_free w)) by (apply (wi_free w HI); auto). rewrite Hfree in *. assumption.
        -- rewrite nth_error_app2 in H2 by assumption.
           destruct (N.to_nat (id - 1) - length (w_slots w))%nat as [|k]; cbn in H2; [discriminate|].
           destruct k; discriminate.
      * intros i s' H.
        destruct (Nat.lt_ge_cases i (length (w_slots w))) as [Hlt|Hge].
        -- rewrite nth_error_app1 in H by assumption. apply (wi_lid w HI). assumption.
        -- rewrite nth_error_app2 in H by assumption.
           destruct (i - length (w_slots w))%nat as [|k] eqn:Ek; cbn in H.
           ++ inversion H; subst. cbn. unfold lid. lia.
           ++ destruct k; discriminate.
      * intros seid k id Hi. destruct (wi_dp w HI _ _ _ Hi) as [s' [HL' Hin]].
        exists s'. split; [|assumption].
        assert (seid <> lid) by (intros ->; eapply Hnl; eauto).
        apply Hlive; assumption.
      * intros lid' s' HL' u inf Hu Hrm Hi.
        destruct (N.eq_dec lid' lid) as [->|Hne].
        -- destruct HL' as [_ H2]. cbn [set_heap set_slots_free w_slots] in H2. rewrite Hidx, nth_error_app_last in H2.
           injection H2 as <-. unfold s in Hu. cbn in Hu. discriminate.
        -- apply Hlive in HL'; [|assumption]. eapply (wi_removed w HI); eauto.
      * intros lid' s' HL'. rewrite node_upd_nth.
        destruct (N.eq_dec lid' lid) as [->|Hne].
        -- destruct HL' as [_ H2]. cbn [set_heap set_slots_free w_slots] in H2. rewrite Hidx, nth_error_app_last in H2.
           injection H2 as <-. unfold s. cbn [s_node empty_sess]. rewrite Hn, Nat.eqb_refl.
           eexists. split; [reflexivity|]. cbn [n_sess]. apply addN_In. left. reflexivity.
        -- apply Hlive in HL'; [|assumption].
           destruct (wi_node w HI _ _ HL') as [m [Hm Hin]]. rewrite Hm.
           destruct (Nat.eqb ref (s_node s')); eexists; (split; [reflexivity|]); cbn [n_sess]; [apply addN_In; right|]; assumption.
      * intros r m lid' Hm Hin. rewrite node_upd_nth in Hm.
        destruct (nth_error (w_heap w) r) as [m0|] eqn:Em; [|discriminate].
        destruct (Nat.eqb_spec ref r) as [->|Hne].
        -- inversion Hm; subst. cbn [n_sess] in Hin. apply addN_In in Hin. destruct Hin as [->|Hin].
           ++ exists s. split; [|reflexivity]. split; [unfold lid; lia|].
              cbn [set_heap set_slots_free w_slots]. rewrite Hidx. apply nth_error_app_last.
           ++ destruct (wi_owner w HI _ _ _ Em Hin) as [s' [HL' E]]. exists s'. split; [|assumption].
              assert (lid' <> lid) by (intros ->; eapply Hnl; eauto). apply Hlive; assumption.
        -- inversion Hm; subst. destruct (wi_owner w HI _ _ _ Em Hin) as [s' [HL' E]]. exists s'. split; [|assumption].
           assert (lid' <> lid) by (intros ->; eapply Hnl; eauto). apply Hlive; assumption.
      * intros id r Hin. rewrite node_upd_length. apply (wi_rnodes w HI _ _ Hin).
    + split; [unfold lid; lia|]. cbn [set_heap set_slots_free w_slots]. rewrite Hidx. apply nth_error_app_last.
    + unfold lid. lia.
    + exact Hnl.
    + intros lid' s' Hne. apply Hlive. assumption.
    + apply node_upd_length.
    + intros r m Hr. split; intros H.
      * rewrite node_upd_nth in H. destruct (nth_error (w_heap w) r) as [m0|]; [|discriminate].
        destruct (Nat.eqb_spec ref r); [congruence | assumption].
      * rewrite node_upd_nth, H. destruct (Nat.eqb_spec ref r); [congruence | reflexivity].
  - (* reuse the id freed last *)
    destruct (rev_last_removelast _ _ _ Er) as [Hsplit Hrl].
    assert (Hin : In last (w_free w)) by (rewrite Hsplit; apply in_app_iff; right; left; reflexivity).
    destruct (proj1 (wi_free w HI last) Hin) as [Hp Hnone].
    assert (Hlt : (N.to_nat (last - 1) < length (w_slots w))%nat) by (apply nth_error_Some; congruence).
    set (s := empty_sess last rid ref).
    rewrite slot_set_in_range by assumption.
    eexists. exists s. split; [reflexivity|].
    assert (Hnl : forall s', ~ live w last s') by (intros s' [_ H]; congruence).
    assert (Hlive : forall lid' s', lid' <> last ->
              (1 <= lid' /\ nth_error (set_nth (N.to_nat (last - 1)) (Some s) (w_slots w)) (N.to_nat (lid' - 1)) = Some (Some s'))
              <-> live w lid' s').
    { intros lid' s' Hne. unfold live. split; intros [H1 H2]; (split; [assumption|]).
      - rewrite nth_error_set_nth_other in H2 by lia. assumption.
      - rewrite nth_error_set_nth_other by lia. assumption. }
    assert (Hnd : NoDup (removelast (w_free w)) /\ ~ In last (removelast (w_free w))).
    { pose proof (wi_free_nodup w HI) as Hd. rewrite Hsplit in Hd. apply NoDup_remove in Hd.
      rewrite app_nil_r in Hd. exact Hd. }
    constructor; cbn [set_heap set_slots_free w_free w_slots w_dp w_heap w_rnodes w_rx w_tx w_txseq w_maxretrans s_lid s empty_sess]; try reflexivity.
    + constructor; cbn [set_heap set_slots_free w_free w_slots w_dp w_heap w_rnodes].
      * apply Hnd.
      * intros id. rewrite nth_set_nth.
        destruct (Nat.eqb_spec (N.to_nat (last - 1)) (N.to_nat (id - 1))) as [E|E].
        -- split.
           ++ intros Hi. assert (In id (w_free w)) by (rewrite Hsplit; apply in_app_iff; left; assumption).
              destruct (proj1 (wi_free w HI id) H) as [Hp' _]. assert (id = last) by lia. subst. exfalso. apply Hnd. assumption.
           ++ intros [_ H2]. destruct (N.to_nat (last - 1) <? length (w_slots w))%nat; discriminate.
        -- split.
           ++ intros Hi. apply (wi_free w HI). rewrite Hsplit. apply in_app_iff. left. assumption.
           ++ intros H. apply (wi_free w HI) in H. rewrite Hsplit in H. apply in_app_iff in H.
              destruct H as [H|[<-|[]]]; [assumption|]. exfalso. apply E. reflexivity.
      * intros i s' H. rewrite nth_set_nth in H.
        destruct (Nat.eqb_spec (N.to_nat (last - 1)) i) as [E|E].
        -- destruct (N.to_nat (last - 1) <? length (w_slots w))%nat; inversion H; subst. cbn. lia.
        -- apply (wi_lid w HI). assumption.
      * intros seid k id Hi. destruct (wi_dp w HI _ _ _ Hi) as [s' [HL' Hin']].
        exists s'. split; [|assumption].
        assert (seid <> last) by (intros ->; eapply Hnl; eauto). apply Hlive; assumption.
      * intros lid' s' HL' u inf Hu Hrm Hi.
        destruct (N.eq_dec lid' last) as [->|Hne].
        -- destruct HL' as [_ H2]. cbn [set_heap set_slots_free w_slots] in H2.
           rewrite nth_error_set_nth_same in H2 by assumption. injection H2 as <-. unfold s in Hu. cbn in Hu. discriminate.
        -- apply Hlive in HL'; [|assumption]. eapply (wi_removed w HI); eauto.
      * intros lid' s' HL'. rewrite node_upd_nth.
        destruct (N.eq_dec lid' last) as [->|Hne].
        -- destruct HL' as [_ H2]. cbn [set_heap set_slots_free w_slots] in H2.
           rewrite nth_error_set_nth_same in H2 by assumption.
           injection H2 as <-. unfold s. cbn [s_node empty_sess]. rewrite Hn, Nat.eqb_refl.
           eexists. split; [reflexivity|]. cbn [n_sess]. apply addN_In. left. reflexivity.
        -- apply Hlive in HL'; [|assumption].
           destruct (wi_node w HI _ _ HL') as [m [Hm Hin']]. rewrite Hm.
           destruct (Nat.eqb ref (s_node s')); eexists; (split; [reflexivity|]); cbn [n_sess]; [apply addN_In; right|]; assumption.
      * intros r m lid' Hm Hin'. rewrite node_upd_nth in Hm.
        destruct (nth_error (w_heap w) r) as [m0|] eqn:Em; [|discriminate].
        destruct (Nat.eqb_spec ref r) as [->|Hne].
        -- inversion Hm; subst. cbn [n_sess] in Hin'. apply addN_In in Hin'. destruct Hin' as [->|Hin'].
           ++ exists s. split; [|reflexivity]. split; [assumption|].
              cbn [set_heap set_slots_free w_slots]. apply nth_error_set_nth_same. assumption.
           ++ destruct (wi_owner w HI _ _ _ Em Hin') as [s' [HL' E]]. exists s'. split; [|assumption].
              assert (lid' <> last) by (intros ->; eapply Hnl; eauto). apply Hlive; assumption.
        -- inversion Hm; subst. destruct (wi_owner w HI _ _ _ Em Hin') as [s' [HL' E]]. exists s'. split; [|assumption].
           assert (lid' <> last) by (intros ->; eapply Hnl; eauto). apply Hlive; assumption.
      * intros id r Hin'. rewrite node_upd_length. apply (wi_rnodes w HI _ _ Hin').
    + split; [assumption|]. cbn [set_heap set_slots_free w_slots]. apply nth_error_set_nth_same. assumption.
    + lia.
    + exact Hnl.
    + intros lid' s' Hne. apply Hlive. assumption.
    + apply node_upd_length.
    + intros r m Hr. split; intros H.
      * rewrite node_upd_nth in H. destruct (nth_error (w_heap w) r) as [m0|]; [|discriminate].
        destruct (Nat.eqb_spec ref r); [congruence | assumption].
      * rewrite node_upd_nth, H. destruct (Nat.eqb_spec ref r); [congruence | reflexivity].
Qed.
