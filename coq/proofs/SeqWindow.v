(* C09: "distinct from every other outstanding one".  The k-th request sent since the counter stood at x0 carries
   (x0 + k) mod 2^24 (send_request stores counter+1 mod 2^24 each time: C09_sequence_24bit).  Two requests carry
   different numbers iff fewer than 2^24 requests were sent between them - so a request can only meet an outstanding
   one with its own number if that one has stayed outstanding over 2^24 later requests (its life is bounded by the
   retry budget: (N+1)*T, see C09_retry_budget_and_release). *)
From Coq Require Import NArith ZArith Lia ZifyN ZifyNat.
Ltac Zify.zify_post_hook ::= Z.div_mod_to_equations.
Local Open Scope N_scope.

Definition seq_next (s : N) : N := (s + 1) mod 16777216.
Definition seq_after (x0 : N) (k : nat) : N := Nat.iter k seq_next (x0 mod 16777216).

Lemma seq_after_closed x0 k : seq_after x0 k = (x0 + N.of_nat k) mod 16777216.
Proof.
  unfold seq_after. induction k as [|k IH].
  - change (Nat.iter 0 seq_next (x0 mod 16777216)) with (x0 mod 16777216). rewrite N.add_0_r. reflexivity.
  - change (Nat.iter (S k) seq_next (x0 mod 16777216)) with (seq_next (Nat.iter k seq_next (x0 mod 16777216))).
    rewrite IH. unfold seq_next. rewrite N.add_mod_idemp_l by discriminate. f_equal. lia.
Qed.

Lemma seq_distinct_within_window x0 (a b : nat) :
  (a < b)%nat -> N.of_nat b - N.of_nat a < 16777216 -> seq_after x0 a <> seq_after x0 b.
Proof.
  intros Hab Hw. rewrite !seq_after_closed. intros E.
  assert (D : (x0 + N.of_nat b) mod 16777216 = ((x0 + N.of_nat a) mod 16777216 + (N.of_nat b - N.of_nat a)) mod 16777216).
  { rewrite N.add_mod_idemp_l by discriminate. f_equal. lia. }
  rewrite <- E in D. lia.
Qed.

(* and at the window's edge they do coincide: the bound is exact *)
Lemma seq_repeat_at_window x0 a : seq_after x0 (a + N.to_nat 16777216) = seq_after x0 a.
Proof.
  rewrite !seq_after_closed. rewrite Nat2N.inj_add, N2Nat.id.
  replace (x0 + (N.of_nat a + 16777216)) with (x0 + N.of_nat a + 1 * 16777216) by lia.
  apply N.mod_add. discriminate.
Qed.
