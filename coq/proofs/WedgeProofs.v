From Coq Require Import List NArith Bool Lia.
From GoUpf Require Import ConstsGen Wedge.
Import ListNotations.
Local Open Scope N_scope.

Lemma caps_positive : 0 < cap_evt /\ 0 < cap_sr.
Proof. unfold cap_evt, cap_sr. split; vm_compute; reflexivity. Qed.

(* mid-turn and mid-tick, the only moves of the two servers are their own sends *)
Lemma midturn_moves w : 0 < l_pending w -> 0 < p_pending w ->
  wstep w LDrain = None /\ wstep w PTakeEvent = None /\ (forall m, wstep w (PTakeTick m) = None) /\
  (forall k, wstep w (LStartTurn k) = None).
Proof.
  intros Hl Hp. unfold wstep.
  destruct (N.eqb_spec (l_pending w) 0); [lia|]. destruct (N.eqb_spec (p_pending w) 0); [lia|].
  cbn [andb]. auto.
Qed.

(* characterisation: while both servers are inside their critical sections, neither of them can move
   if and only if both queues are full *)
Theorem deadlock_characterisation w :
  0 < l_pending w -> 0 < p_pending w -> evt w <= cap_evt -> sr w <= cap_sr ->
  ((wstep w LSend = None /\ wstep w PSend = None) <-> wedged w = true).
Proof.
  intros Hl Hp He Hs. unfold wstep, wedged.
  destruct (N.ltb_spec 0 (l_pending w)); [|lia]. destruct (N.ltb_spec 0 (p_pending w)); [|lia]. cbn [andb].
  destruct (N.ltb_spec (evt w) cap_evt); destruct (N.ltb_spec (sr w) cap_sr);
    destruct (N.eqb_spec (evt w) cap_evt); destruct (N.eqb_spec (sr w) cap_sr); cbn [andb];
    try lia; split; try (intros [? ?]); try discriminate; auto; try (intros; split; reflexivity).
Qed.

(* a wedged state is permanent: no action of anybody changes it (tickers are blocked too) *)
Theorem wedged_forever w a : wedged w = true -> wstep w a = None.
Proof.
  unfold wedged. intros H. repeat (apply andb_true_iff in H; destruct H as [H ?]).
  apply N.ltb_lt in H. apply N.eqb_eq in H2. apply N.ltb_lt in H1. apply N.eqb_eq in H0.
  destruct a; unfold wstep.
  - destruct (N.ltb_spec (evt w) cap_evt); [lia|]. rewrite andb_false_r. reflexivity.
  - destruct (N.eqb_spec (l_pending w) 0); [lia|reflexivity].
  - destruct (N.eqb_spec (l_pending w) 0); [lia|reflexivity].
  - destruct (N.ltb_spec (sr w) cap_sr); [lia|]. rewrite andb_false_r. reflexivity.
  - destruct (N.eqb_spec (p_pending w) 0); [lia|reflexivity].
  - destruct (N.eqb_spec (p_pending w) 0); [lia|reflexivity].
  - destruct (N.ltb_spec (evt w) cap_evt); [lia|reflexivity].
Qed.

Theorem wedged_run l w : wedged w = true -> wrun w l = w.
Proof. induction l as [|a l IH]; intros H; cbn [wrun]; [reflexivity|]. rewrite (wedged_forever w a H). auto. Qed.

(* progress below the thresholds: if the loop never has more sends pending than evtCh has room for, it is never
   blocked (its send is always enabled while pending), hence it always reaches the point where it drains srCh *)
Definition room_inv (w : wstate) : Prop := evt w + l_pending w <= cap_evt.

Theorem loop_never_blocked w : room_inv w -> 0 < l_pending w -> wstep w LSend <> None.
Proof.
  unfold room_inv, wstep. intros Hr Hl.
  destruct (N.ltb_spec 0 (l_pending w)); [|lia]. destruct (N.ltb_spec (evt w) cap_evt); [|lia]. discriminate.
Qed.

Theorem not_wedged_with_room w : room_inv w -> wedged w = false.
Proof.
  unfold room_inv, wedged. intros Hr.
  destruct (N.ltb_spec 0 (l_pending w)); [|reflexivity].
  destruct (N.eqb_spec (evt w) cap_evt); [lia|reflexivity].
Qed.

(* the symmetric condition for the periodic server *)
Definition room_inv_sr (w : wstate) : Prop := sr w + p_pending w <= cap_sr.

Theorem not_wedged_with_room_sr w : room_inv_sr w -> wedged w = false.
Proof.
  unfold room_inv_sr, wedged. intros Hr.
  destruct (N.ltb_spec 0 (l_pending w)); [|reflexivity].
  destruct (N.eqb_spec (evt w) cap_evt); [|reflexivity]. cbn [andb].
  destruct (N.ltb_spec 0 (p_pending w)); [|reflexivity].
  destruct (N.eqb_spec (sr w) cap_sr); [lia|reflexivity].
Qed.

(* the full property is FALSE: a reachable wedge.  One tick reporting cap_sr+1 sessions is taken while the loop
   starts a turn touching cap_evt+1 URRs (e.g. re-association of a node with that many periodic URRs). *)
Definition wedge_witness : list wact :=
  [TTick; PTakeTick (cap_sr + 1); LStartTurn (cap_evt + 1)] ++ repeat PSend (N.to_nat cap_sr) ++ repeat LSend (N.to_nat cap_evt).

Theorem wedge_reachable : wedged (wrun w_init wedge_witness) = true.
Proof. vm_compute. reflexivity. Qed.
