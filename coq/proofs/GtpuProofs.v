From Coq Require Import List NArith Bool Lia.
From GoUpf Require Import Bytes GtpuGen Gtpu GtpuRef.
Import ListNotations.
Local Open Scope N_scope.

(* finite sweep over the PSC fields, lifted to a universally quantified lemma *)
Definition psc_table_ok : bool :=
  forallb (fun pt => forallb (fun qfi =>
     if list_eq_dec N.eq_dec (psc_bytes (N.of_nat pt) (N.of_nat qfi))
                              [133; 1; N.of_nat pt * 16; N.of_nat qfi] then true else false)
     (seq 0 64)) (seq 0 16).

Lemma psc_table_ok_true : psc_table_ok = true.
Proof. vm_compute. reflexivity. Qed.

Lemma psc_bytes_spec pt qfi : pt < 16 -> qfi < 64 ->
  psc_bytes pt qfi = [133; 1; pt * 16; qfi].
Proof.
  intros Hp Hq. pose proof psc_table_ok_true as H. unfold psc_table_ok in H.
  rewrite forallb_forall in H. specialize (H (N.to_nat pt)).
  rewrite in_seq in H. specialize (H ltac:(lia)).
  rewrite forallb_forall in H. specialize (H (N.to_nat qfi)).
  rewrite in_seq in H. specialize (H ltac:(lia)).
  rewrite !N2Nat.id in H.
  destruct (list_eq_dec N.eq_dec (psc_bytes pt qfi) [133; 1; pt * 16; qfi]); [assumption|discriminate].
Qed.

Lemma psc_len_4 : psc_len = 4%nat.
Proof. reflexivity. Qed.

Lemma flags52 teid q pkt :
  has_seq (write_packet_msg teid q pkt) = false /\ has_npdu (write_packet_msg teid q pkt) = false.
Proof. split; vm_compute; reflexivity. Qed.

Definition ext_of (q : option (N * N)) : list psc :=
  match q with Some (pt, qfi) => [{| psc_pt := pt; psc_qfi := qfi |}] | None => [] end.

(* the message form go-upf emits, generalised over the PDU type *)
Definition emitted (teid : N) (ext : option (N * N)) (pkt : list N) : gmsg :=
  {| m_flags := 52; m_type := MsgTypeTPDU; m_teid := teid; m_seq := 0; m_npdu := 0;
     m_exts := ext_of ext; m_payload := pkt |}.

Lemma emitted_write_packet teid q pkt :
  write_packet_msg teid q pkt = emitted teid (option_map (fun x => (0, x)) q) pkt.
Proof. destruct q; reflexivity. Qed.

Lemma opt_end_emitted teid ext pkt : opt_end (emitted teid ext pkt) = 8.
Proof. reflexivity. Qed.

Lemma exts_len_emitted teid ext pkt :
  exts_len (emitted teid ext pkt) = match ext with Some _ => 4 | None => 0 end.
Proof. destruct ext as [[pt qfi]|]; reflexivity. Qed.

Lemma msg_len_emitted teid ext pkt :
  msg_len (emitted teid ext pkt) =
  12 + (match ext with Some _ => 4 | None => 0 end) + N.of_nat (length pkt).
Proof.
  unfold msg_len. rewrite opt_end_emitted, exts_len_emitted.
  replace (align_pos 8) with 11 by reflexivity. cbn [emitted m_payload]. lia.
Qed.

Theorem roundtrip teid ext pkt :
  teid < 4294967296 ->
  (match ext with Some (pt, qfi) => pt < 16 /\ qfi < 64 | None => True end) ->
  msg_len (emitted teid ext pkt) - 8 < 65536 ->
  ref_parse (encode (emitted teid ext pkt)) =
    Some {| g_version := 1; g_pt := true; g_type := 255;
            g_len := N.of_nat (length (encode (emitted teid ext pkt))) - 8;
            g_teid := teid; g_ext := ext; g_payload := pkt |}.
Proof.
  intros Ht He Hl.
  assert (Hlen : N.of_nat (length (encode (emitted teid ext pkt))) = msg_len (emitted teid ext pkt)).
  { rewrite msg_len_emitted. unfold encode. rewrite opt_end_emitted.
    replace (has_seq (emitted teid ext pkt)) with false by reflexivity.
    replace (has_npdu (emitted teid ext pkt)) with false by reflexivity.
    replace (N.to_nat (align_pos 8 - 8)) with 3%nat by reflexivity.
    cbn [emitted m_flags m_exts m_payload m_type m_teid].
    destruct ext as [[pt qfi]|]; cbn [ext_of flat_map].
    - destruct He as [Hp Hq]. rewrite psc_bytes_spec by assumption.
      cbn [app length repeat be16 be32]. rewrite ?app_length. cbn [length]. lia.
    - cbn [app length repeat be16 be32]. lia. }
  rewrite Hlen. rewrite msg_len_emitted in *.
  unfold encode. rewrite opt_end_emitted, msg_len_emitted.
  replace (has_seq (emitted teid ext pkt)) with false by reflexivity.
  replace (has_npdu (emitted teid ext pkt)) with false by reflexivity.
  replace (N.to_nat (align_pos 8 - 8)) with 3%nat by reflexivity.
  cbn [emitted m_flags m_exts m_payload m_type m_teid].
  set (L := 12 + match ext with Some _ => 4 | None => 0 end + N.of_nat (length pkt) - 8) in *.
  pose proof (rd32_be32 teid Ht) as R32.
  pose proof (rd16_be16 (L mod 65536) ltac:(apply N.mod_lt; lia)) as R16.
  rewrite (N.mod_small _ _ Hl) in *.
  destruct (be32 teid) as [|a [|b [|c [|d [|? ?]]]]] eqn:E32; try contradiction.
  destruct (be16 L) as [|l1 [|l2 [|? ?]]] eqn:E16; try contradiction.
  change (52 mod 256) with 52. change (MsgTypeTPDU mod 256) with 255.
  cbn [app repeat ref_parse].
  rewrite R16, R32.
  change (N.testbit 52 2) with true. change (N.testbit 52 4) with true. change (52 / 32) with 1.
  cbn [negb orb].
  destruct ext as [[pt qfi]|].
  - destruct He as [Hp Hq]. cbn [ext_of flat_map]. rewrite psc_bytes_spec by assumption.
    cbn [app length].
    replace (L =? N.of_nat (S (S (S (S (S (S (S (S (length pkt))))))))))
      with true by (symmetry; apply N.eqb_eq; unfold L; lia).
    cbn [negb]. change (133 =? 0) with false. change (133 =? 133) with true.
    change (1 =? 1) with true. change (0 =? 0) with true. cbn [negb].
    cbn [psc_pt psc_qfi]. rewrite N.div_mul by lia. rewrite (N.mod_small qfi 64) by assumption. unfold L. repeat f_equal; lia.
  - cbn [ext_of flat_map app length].
    replace (L =? N.of_nat (S (S (S (S (length pkt))))))
      with true by (symmetry; apply N.eqb_eq; unfold L; lia).
    cbn [negb]. change (0 =? 0) with true. unfold L. repeat f_equal; lia.
Qed.

(* the same statement through the boolean monitor *)
Theorem roundtrip_monitor teid ext pkt :
  teid < 4294967296 ->
  (match ext with Some (pt, qfi) => pt < 16 /\ qfi < 64 | None => True end) ->
  msg_len (emitted teid ext pkt) - 8 < 65536 ->
  gpdu_ok teid ext pkt (encode (emitted teid ext pkt)) = true.
Proof.
  intros Ht He Hl. unfold gpdu_ok. rewrite roundtrip by assumption.
  cbn [g_version g_pt g_type g_teid g_len g_ext g_payload].
  assert (8 <= N.of_nat (length (encode (emitted teid ext pkt)))).
  { unfold encode. cbn [app length be16 be32]. lia. }
  replace (N.of_nat (length (encode (emitted teid ext pkt))) - 8 + 8 =?
           N.of_nat (length (encode (emitted teid ext pkt)))) with true
    by (symmetry; apply N.eqb_eq; lia).
  rewrite (N.eqb_refl teid). change (1 =? 1) with true. change (255 =? 255) with true.
  destruct (list_eq_dec N.eq_dec pkt pkt) as [_|n]; [|contradiction].
  destruct ext as [[pt qfi]|]; rewrite ?N.eqb_refl; reflexivity.
Qed.

(* payload is the suffix, unchanged, for every flag combination and extension list *)
Lemma payload_is_suffix m : exists hd, encode m = hd ++ m_payload m.
Proof.
  unfold encode. eexists. rewrite !app_assoc. reflexivity.
Qed.
