(* Session-level operations (node.go): every operation touches only the session's own rules in the
   data plane, tags every driver call with the session's own SEID, and keeps the data plane's rules of
   that session inside the recorded id sets. *)
From Coq Require Import String List NArith ZArith Bool Lia.
From GoUpf Require Import Bytes FlagsGen ConstsGen HandlerGen Pfcp PfcpBase.
Import ListNotations.
Local Open Scope N_scope.

Definition contained (s : sess) (dp : dplane) : Prop :=
  forall k id, In (s_lid s, k, id) dp -> In id (recorded s k).

Definition removed_absent (s : sess) (dp : dplane) : Prop :=
  forall u inf, alookup u (s_urrs s) = Some inf -> ui_removed inf = true -> ~ In (s_lid s, KURR, u) dp.

Definition SOK (s : sess) (dp : dplane) : Prop := contained s dp /\ removed_absent s dp.

Definition own_drv (lid : N) (x : out) : Prop :=
  match x with ODrv _ _ seid _ _ => seid = lid | OSend _ _ _ => False end.

Record sframe (c c' : sctx) : Prop := mkFrame {
  sf_lid : s_lid (c_s c') = s_lid (c_s c);
  sf_rid : s_rid (c_s c') = s_rid (c_s c);
  sf_node : s_node (c_s c') = s_node (c_s c);
  sf_other : forall r, fst (fst r) <> s_lid (c_s c) -> (In r (c_dp c') <-> In r (c_dp c));
  sf_out : exists o, c_out c' = c_out c ++ o /\ Forall (own_drv (s_lid (c_s c))) o }.

Definition good (c c' : sctx) : Prop :=
  sframe c c' /\ (SOK (c_s c) (c_dp c) -> SOK (c_s c') (c_dp c')).

Lemma sframe_refl c : sframe c c.
Proof.
  constructor; try reflexivity.
  exists []. rewrite app_nil_r. split; [reflexivity | constructor].
Qed.

Lemma sframe_trans a b c : sframe a b -> sframe b c -> sframe a c.
Proof.
  intros [l1 r1 n1 o1 [x1 [e1 f1]]] [l2 r2 n2 o2 [x2 [e2 f2]]].
  constructor; try congruence.
  - intros r Hr. rewrite o2 by congruence. apply o1. assumption.
  - exists (x1 ++ x2). split.
    + rewrite e2, e1, app_assoc. reflexivity.
    + apply Forall_app. split; [assumption|]. rewrite l1 in f2. assumption.
Qed.

Lemma good_refl c : good c c.
Proof. split; [apply sframe_refl | auto]. Qed.

Lemma good_trans a b c : good a b -> good b c -> good a c.
Proof. intros [f1 s1] [f2 s2]. split; [eapply sframe_trans; eauto | auto]. Qed.

(* ---------------------------------------------------------------- recorded / setters *)

Lemma recorded_set_simple k l s k' :
  recorded (set_simple k l s) k' =
  match k with
  | KFAR | KQER | KBAR => if kind_eqb k k' then l else recorded s k'
  | _ => recorded s k'
  end.
Proof. destruct k, k'; reflexivity. Qed.

Lemma recorded_set_urrs l s k : recorded (set_urrs l s) k = match k with KURR => map fst l | _ => recorded s k end.
Proof. destruct k; reflexivity. Qed.

Lemma recorded_set_pdrs l s k : recorded (set_pdrs l s) k = match k with KPDR => map fst l | _ => recorded s k end.
Proof. destruct k; reflexivity. Qed.

Definition simple_kind (k : kind) : Prop := k = KFAR \/ k = KQER \/ k = KBAR.

(* ---------------------------------------------------------------- the driver call *)

Lemma drv_spec e c op k id c' ok :
  drv e c op k id = (c', ok) ->
  c_s c' = c_s c /\
  dp_call e (c_dp c) op k (s_lid (c_s c)) id = (c_dp c', ok) /\
  c_out c' = c_out c ++ [ODrv op k (s_lid (c_s c)) id ok].
Proof.
  unfold drv. destruct (dp_call e (c_dp c) op k (s_lid (c_s c)) id) as [dp' ok'] eqn:E.
  intros H. inversion H; subst. cbn. auto.
Qed.

Lemma drv_frame e c op k id c' ok : drv e c op k id = (c', ok) -> sframe c c'.
Proof.
  intros H. apply drv_spec in H. destruct H as [Hs [Hd Ho]].
  pose proof (dp_call_spec _ _ _ _ _ _ _ _ Hd) as [A [B _]].
  constructor; try (rewrite Hs; reflexivity).
  - intros r Hr. split.
    + intros Hi. apply A in Hi. destruct Hi as [|[-> _]]; [assumption|]. cbn in Hr. congruence.
    + intros Hi. apply B; [assumption|]. intros ->. cbn in Hr. congruence.
  - exists [ODrv op k (s_lid (c_s c)) id ok]. split; [assumption|]. constructor; [reflexivity | constructor].
Qed.

Lemma upd_s_frame c f :
  s_lid (f (c_s c)) = s_lid (c_s c) -> s_rid (f (c_s c)) = s_rid (c_s c) -> s_node (f (c_s c)) = s_node (c_s c) ->
  sframe c (upd_s c f).
Proof.
  intros. constructor; cbn; auto; try tauto.
  exists []. rewrite app_nil_r. split; [reflexivity | constructor].
Qed.

(* ---------------------------------------------------------------- FAR / QER / BAR *)

Lemma create_simple_good e k id c : simple_kind k -> good c (create_simple e k id c).
Proof.
  intros Hk. unfold create_simple. destruct id as [i|]; [|apply good_refl].
  set (c1 := upd_s c (fun s => set_simple k (addN i (recorded s k)) s)).
  destruct (drv e c1 DCreate k i) as [c2 ok] eqn:E. cbn [fst].
  assert (F1 : sframe c c1) by (apply upd_s_frame; destruct Hk as [-> | [-> | ->]]; reflexivity).
  split; [eapply sframe_trans; [exact F1 | eapply drv_frame; eauto]|].
  intros [Hc Hr]. apply drv_spec in E. destruct E as [Hs [Hd _]].
  pose proof (dp_call_spec _ _ _ _ _ _ _ _ Hd) as [A _].
  rewrite Hs. cbn [c1 upd_s c_s c_dp] in *.
  assert (Hl : s_lid (set_simple k (addN i (recorded (c_s c) k)) (c_s c)) = s_lid (c_s c))
    by (destruct Hk as [-> | [-> | ->]]; reflexivity).
  split.
  - intros k' id' Hi. rewrite Hl in Hi. apply A in Hi. rewrite recorded_set_simple.
    destruct Hi as [Hi|[Heq _]].
    + apply Hc in Hi. destruct Hk as [-> | [-> | ->]]; cbn [kind_eqb]; destruct k'; cbn; auto; apply addN_In; auto.
    + rewrite Hl in Heq. inversion Heq; subst.
      destruct Hk as [-> | [-> | ->]]; cbn; apply addN_In; auto.
  - intros u inf Hu Hrm Hi. rewrite Hl in Hi.
    assert (Hu' : alookup u (s_urrs (c_s c)) = Some inf) by (destruct Hk as [-> | [-> | ->]]; exact Hu).
    apply A in Hi. destruct Hi as [Hi|[Heq _]].
    + eapply Hr; eauto.
    + rewrite Hl in Heq. inversion Heq; subst. destruct Hk as [Hk | [Hk | Hk]]; discriminate.
Qed.

Lemma update_simple_good e k id c : good c (update_simple e k id c).
Proof.
  unfold update_simple. destruct id as [i|]; [|apply good_refl].
  destruct (memN i (recorded (c_s c) k)); [|apply good_refl].
  destruct (drv e c DUpdate k i) as [c1 ok] eqn:E. cbn [fst].
  split; [eapply drv_frame; eauto|].
  intros [Hc Hr]. apply drv_spec in E. destruct E as [Hs [Hd _]].
  pose proof (dp_call_spec _ _ _ _ _ _ _ _ Hd) as [_ [_ [_ [_ [_ [B _]]]]]].
  rewrite Hs. split.
  - intros k' id' Hi. apply B in Hi; [|discriminate]. auto.
  - intros u inf Hu Hrm Hi. apply B in Hi; [|discriminate]. eapply Hr; eauto.
Qed.

Lemma remove_simple_good e k id c : simple_kind k -> good c (remove_simple e k id c).
Proof.
  intros Hk. unfold remove_simple. destruct id as [i|]; [|apply good_refl].
  destruct (memN i (recorded (c_s c) k)); [|apply good_refl].
  destruct (drv e c DRemove k i) as [c1 ok] eqn:E.
  pose proof (drv_frame _ _ _ _ _ _ _ E) as F1.
  apply drv_spec in E. destruct E as [Hs [Hd _]].
  pose proof (dp_call_spec _ _ _ _ _ _ _ _ Hd) as [_ [_ [R1 [_ [_ [B _]]]]]].
  destruct ok.
  - split.
    + eapply sframe_trans; [exact F1|]. apply upd_s_frame; rewrite Hs; destruct Hk as [-> | [-> | ->]]; reflexivity.
    + intros [Hc Hr]. cbn [upd_s c_s c_dp]. rewrite Hs.
      assert (Hl : s_lid (set_simple k (delN i (recorded (c_s c) k)) (c_s c)) = s_lid (c_s c))
        by (destruct Hk as [-> | [-> | ->]]; reflexivity).
      split.
      * intros k' id' Hi. rewrite Hl in Hi. rewrite recorded_set_simple.
        assert (Hin : In (s_lid (c_s c), k', id') (c_dp c)) by (apply B; [discriminate | assumption]).
        apply Hc in Hin.
        destruct (kind_eqb k k') eqn:Ek.
        -- apply kind_eqb_eq in Ek. subst k'.
           destruct Hk as [-> | [-> | ->]]; cbn; apply delN_In; (split; [|assumption]);
             intros ->; apply (R1 eq_refl eq_refl); assumption.
        -- destruct Hk as [-> | [-> | ->]]; destruct k'; cbn in *; try discriminate; assumption.
      * intros u inf Hu Hrm Hi. rewrite Hl in Hi.
        assert (Hu' : alookup u (s_urrs (c_s c)) = Some inf) by (destruct Hk as [-> | [-> | ->]]; exact Hu).
        apply B in Hi; [|discriminate]. eapply Hr; eauto.
  - split; [exact F1|]. intros [Hc Hr]. rewrite Hs. split.
    + intros k' id' Hi. apply B in Hi; [|discriminate]. auto.
    + intros u inf Hu Hrm Hi. apply B in Hi; [|discriminate]. eapply Hr; eauto.
Qed.

(* ---------------------------------------------------------------- URR *)

(* replacing the bookkeeping of an existing or new URR; [rm] = the new entry's removed flag is no worse *)
Lemma SOK_aset_urr s dp u inf :
  SOK s dp ->
  (ui_removed inf = true -> ~ In (s_lid s, KURR, u) dp) ->
  SOK (set_urrs (aset u inf (s_urrs s)) s) dp.
Proof.
  intros [Hc Hr] Hn. split.
  - intros k id Hi. change (s_lid (set_urrs (aset u inf (s_urrs s)) s)) with (s_lid s) in Hi.
    apply Hc in Hi. rewrite recorded_set_urrs. destruct k; try assumption.
    apply keys_aset. right. assumption.
  - intros u' inf' Hu Hrm. change (s_lid (set_urrs (aset u inf (s_urrs s)) s)) with (s_lid s).
    cbn [set_urrs s_urrs] in Hu.
    destruct (N.eq_dec u' u) as [->|Hne].
    + rewrite alookup_aset_same in Hu. inversion Hu; subst. auto.
    + rewrite alookup_aset_other in Hu by assumption. eapply Hr; eauto.
Qed.

Lemma set_urrs_frame c l : sframe c (upd_s c (set_urrs l)).
Proof. apply upd_s_frame; reflexivity. Qed.

Lemma held_urr_spec s i u : held_urr s i = Some u -> alookup i (s_urrs s) = Some u /\ ui_removed u = false.
Proof.
  unfold held_urr. destruct (alookup i (s_urrs s)) as [x|]; [|discriminate].
  destruct (ui_removed x) eqn:R; [discriminate|]. intros H. inversion H; subst. auto.
Qed.

Lemma create_urr_good e o c : good c (create_urr e o c).
Proof.
  unfold create_urr. destruct (uo_id o) as [i|]; [|apply good_refl].
  set (old := held_urr (c_s c) i).
  match goal with |- context [aset i ?inf (s_urrs _)] => set (info := inf) end.
  assert (Hinfo : ui_removed info = false) by reflexivity.
  set (c1 := upd_s c (fun s => set_urrs (aset i info (s_urrs s)) s)).
  destruct (drv e c1 DCreate KURR i) as [c2 ok] eqn:E.
  assert (G2 : good c c2).
  { assert (F1 : sframe c c1) by (apply upd_s_frame; reflexivity).
    split; [eapply sframe_trans; [exact F1 | eapply drv_frame; eauto]|].
    intros HS. apply drv_spec in E. destruct E as [Hs [Hd _]].
    pose proof (dp_call_spec _ _ _ _ _ _ _ _ Hd) as [A _].
    rewrite Hs.
    assert (H1 : SOK (c_s c1) (c_dp c)).
    { apply SOK_aset_urr; [assumption|]. intros Hrm. rewrite Hinfo in Hrm. discriminate. }
    destruct H1 as [Hc Hr]. cbn [c1 upd_s c_s c_dp] in *. split.
    - intros k id Hi. apply A in Hi. destruct Hi as [Hi|[Heq _]]; [auto|].
      inversion Heq; subst. rewrite recorded_set_urrs. apply keys_aset. left. reflexivity.
    - intros u inf Hu Hrm Hi. apply A in Hi. destruct Hi as [Hi|[Heq _]]; [eapply Hr; eauto|].
      inversion Heq; subst. cbn [set_urrs s_urrs] in Hu. rewrite alookup_aset_same in Hu.
      inversion Hu; subst. rewrite Hinfo in Hrm. discriminate. }
  destruct ok; [exact G2|]. destruct old as [u|] eqn:Eo; [|exact G2].
  eapply good_trans; [exact G2|]. split; [apply upd_s_frame; reflexivity|].
  intros HS. cbn [upd_s c_s c_dp]. apply SOK_aset_urr; [exact HS|].
  intros Hrm. destruct (held_urr_spec _ _ _ Eo) as [_ Hf]. rewrite Hf in Hrm. discriminate.
Qed.

Lemma update_urr_good e o c : good c (fst (update_urr e o c)).
Proof.
  unfold update_urr. destruct (uo_id o) as [i|]; [|apply good_refl].
  destruct (alookup i (s_urrs (c_s c))) as [inf|] eqn:El; [|apply good_refl].
  match goal with |- context [aset i ?x _] => set (inf2 := x) end.
  assert (Hrm : ui_removed inf2 = ui_removed inf).
  { unfold inf2. destruct (uo_info o), (uo_method o); reflexivity. }
  set (c1 := upd_s c (fun s => set_urrs (aset i inf2 (s_urrs s)) s)).
  destruct (drv e c1 DUpdate KURR i) as [c2 ok] eqn:E. cbn [fst].
  assert (F1 : sframe c c1) by (apply upd_s_frame; reflexivity).
  split; [eapply sframe_trans; [exact F1 | eapply drv_frame; eauto]|].
  intros HS. apply drv_spec in E. destruct E as [Hs [Hd _]].
  pose proof (dp_call_spec _ _ _ _ _ _ _ _ Hd) as [_ [_ [_ [_ [_ [B _]]]]]].
  rewrite Hs.
  assert (H1 : SOK (c_s c1) (c_dp c)).
  { apply SOK_aset_urr; [assumption|]. rewrite Hrm. intros Hr. destruct HS as [_ HR]. eapply HR; eauto. }
  destruct H1 as [Hc Hr]. cbn [c1 upd_s c_s c_dp] in *. split.
  - intros k id Hi. apply B in Hi; [|discriminate]. auto.
  - intros u inf' Hu Hrm' Hi. apply B in Hi; [|discriminate]. eapply Hr; eauto.
Qed.

Lemma forget_urr_dp ok i rs c : c_dp (forget_urr ok i rs c) = c_dp c.
Proof. unfold forget_urr. destruct (ok && negb (names_urr i rs)); reflexivity. Qed.

Lemma forget_urr_out ok i rs c : c_out (forget_urr ok i rs c) = c_out c.
Proof. unfold forget_urr. destruct (ok && negb (names_urr i rs)); reflexivity. Qed.

Lemma forget_urr_s ok i rs c :
  c_s (forget_urr ok i rs c) = c_s c \/ c_s (forget_urr ok i rs c) = set_urrs (adel i (s_urrs (c_s c))) (c_s c).
Proof. unfold forget_urr. destruct (ok && negb (names_urr i rs)); [right | left]; reflexivity. Qed.

(* forgetting an entry that is marked removed (hence absent from the data plane) keeps the session consistent *)
Lemma forget_urr_good ok i rs c :
  (forall inf, alookup i (s_urrs (c_s c)) = Some inf -> ui_removed inf = true) -> good c (forget_urr ok i rs c).
Proof.
  intros Hrm. unfold forget_urr. destruct (ok && negb (names_urr i rs)); [|apply good_refl].
  split; [apply upd_s_frame; reflexivity|].
  intros [Hc Hr]. cbn [upd_s c_s c_dp]. split.
  - intros k id Hi. change (s_lid (set_urrs (adel i (s_urrs (c_s c))) (c_s c))) with (s_lid (c_s c)) in Hi.
    pose proof (Hc _ _ Hi) as Hin. rewrite recorded_set_urrs. destruct k; try exact Hin.
    apply keys_adel. split; [|exact Hin]. intros ->.
    cbn [recorded] in Hin. destruct (alookup i (s_urrs (c_s c))) as [inf|] eqn:El.
    + apply (Hr _ _ El (Hrm _ eq_refl)). exact Hi.
    + apply alookup_None in El. auto.
  - intros u inf Hu Hm Hi. cbn [set_urrs s_urrs] in Hu.
    change (s_lid (set_urrs (adel i (s_urrs (c_s c))) (c_s c))) with (s_lid (c_s c)) in Hi.
    destruct (N.eq_dec u i) as [->|Hne]; [rewrite alookup_adel_same in Hu; discriminate|].
    rewrite alookup_adel_other in Hu by exact Hne. eapply Hr; eauto.
Qed.

Lemma remove_urr_good e id c : good c (fst (remove_urr e id c)).
Proof.
  unfold remove_urr. destruct id as [i|]; [|apply good_refl].
  destruct (alookup i (s_urrs (c_s c))) as [inf|] eqn:El; [|apply good_refl].
  match goal with |- context [aset i ?x _] => set (inf1 := x) end.
  set (c1 := upd_s c (fun s => set_urrs (aset i inf1 (s_urrs s)) s)).
  destruct (drv e c1 DRemove KURR i) as [c2 ok] eqn:E. cbn [fst].
  apply (good_trans c c2); [|apply forget_urr_good; intros inf0 H0; pose proof E as E0; apply drv_spec in E0;
    destruct E0 as [Hs0 _]; rewrite Hs0 in H0; cbn [c1 upd_s c_s set_urrs s_urrs] in H0;
    rewrite alookup_aset_same in H0; inversion H0; reflexivity].
  assert (F1 : sframe c c1) by (apply upd_s_frame; reflexivity).
  split; [eapply sframe_trans; [exact F1 | eapply drv_frame; eauto]|].
  intros [Hc Hr]. apply drv_spec in E. destruct E as [Hs [Hd _]].
  pose proof (dp_call_spec _ _ _ _ _ _ _ _ Hd) as [_ [_ [R1 [R2 [_ [B _]]]]]].
  rewrite Hs. cbn [c1 upd_s c_s c_dp] in *.
  change (s_lid (set_urrs (aset i inf1 (s_urrs (c_s c))) (c_s c))) with (s_lid (c_s c)) in *.
  split.
  - intros k id Hi. change (s_lid (set_urrs (aset i inf1 (s_urrs (c_s c))) (c_s c))) with (s_lid (c_s c)) in Hi.
    apply B in Hi; [|discriminate]. apply Hc in Hi. rewrite recorded_set_urrs.
    destruct k; try assumption. apply keys_aset. right. assumption.
  - intros u inf' Hu Hrm Hi.
    change (s_lid (set_urrs (aset i inf1 (s_urrs (c_s c))) (c_s c))) with (s_lid (c_s c)) in Hi.
    cbn [set_urrs s_urrs] in Hu.
    destruct (N.eq_dec u i) as [->|Hne].
    + destruct ok.
      * apply (R1 eq_refl eq_refl). assumption.
      * destruct (R2 eq_refl eq_refl) as [Hn Heq]. rewrite Heq in Hi. auto.
    + rewrite alookup_aset_other in Hu by assumption.
      apply B in Hi; [|discriminate]. eapply Hr; eauto.
Qed.

Lemma query_urr_good e id c : good c (fst (query_urr e id c)).
Proof.
  unfold query_urr. destruct id as [i|]; [|apply good_refl].
  destruct (alookup i (s_urrs (c_s c))) as [inf|] eqn:El; [|apply good_refl].
  destruct (drv e c DQuery KURR i) as [c1 ok] eqn:E. cbn [fst].
  split; [eapply drv_frame; eauto|].
  intros [Hc Hr]. apply drv_spec in E. destruct E as [Hs [Hd _]].
  pose proof (dp_call_spec _ _ _ _ _ _ _ _ Hd) as [_ [_ [_ [_ [_ [B _]]]]]].
  rewrite Hs. split.
  - intros k' id' Hi. apply B in Hi; [|discriminate]. auto.
  - intros u inf' Hu Hrm Hi. apply B in Hi; [|discriminate]. eapply Hr; eauto.
Qed.

Lemma diassociate_good e u c : good c (fst (diassociate e u c)).
Proof.
  unfold diassociate.
  destruct (alookup u (s_urrs (c_s c))) as [inf|] eqn:El; [|apply good_refl].
  destruct (0 <? ui_ref inf); [|apply good_refl].
  match goal with |- context [aset u ?x _] => set (inf1 := x) end.
  set (c1 := upd_s c (fun s => set_urrs (aset u inf1 (s_urrs s)) s)).
  assert (G1 : good c c1).
  { split; [apply upd_s_frame; reflexivity|]. intros HS. apply SOK_aset_urr; [assumption|].
    cbn. intros Hrm. destruct HS as [_ HR]. eapply HR; eauto. }
  destruct (ui_ref inf1 =? 0); [|exact G1].
  destruct (drv e c1 DQuery KURR u) as [c2 ok] eqn:E. cbn [fst].
  eapply good_trans; [exact G1|].
  split; [eapply drv_frame; eauto|].
  intros [Hc Hr]. apply drv_spec in E. destruct E as [Hs [Hd _]].
  pose proof (dp_call_spec _ _ _ _ _ _ _ _ Hd) as [_ [_ [_ [_ [_ [B _]]]]]].
  rewrite Hs. split.
  - intros k' id' Hi. apply B in Hi; [|discriminate]. auto.
  - intros u' inf' Hu Hrm Hi. apply B in Hi; [|discriminate]. eapply Hr; eauto.
Qed.

Lemma diassociate_all_good e us c : good c (fst (diassociate_all e us c)).
Proof.
  revert c. induction us as [|u us IH]; intros c; cbn [diassociate_all]; [apply good_refl|].
  pose proof (diassociate_good e u c) as G1.
  destruct (diassociate e u c) as [c1 r1]. cbn [fst] in G1.
  pose proof (IH c1) as G2.
  destruct (diassociate_all e us c1) as [c2 r2]. cbn [fst] in *.
  eapply good_trans; eauto.
Qed.

(* ---------------------------------------------------------------- PDR *)

Lemma incr_ref_removed u l u' inf' :
  alookup u' (incr_ref u l) = Some inf' ->
  exists inf, alookup u' l = Some inf /\ ui_removed inf' = ui_removed inf.
Proof.
  unfold incr_ref. destruct (alookup u l) as [inf|] eqn:E.
  - destruct (N.eq_dec u' u) as [->|Hne].
    + rewrite alookup_aset_same. intros H. inversion H; subst. exists inf. auto.
    + rewrite alookup_aset_other by assumption. intros H. exists inf'. auto.
  - intros H. exists inf'. auto.
Qed.

Lemma incr_ref_keys u l k : In k (map fst (incr_ref u l)) <-> In k (map fst l).
Proof.
  unfold incr_ref. destruct (alookup u l) as [inf|] eqn:E; [|tauto].
  rewrite keys_aset. apply alookup_key in E. split.
  - intros [Hk | Hk]; [subst; assumption | assumption].
  - intros Hk. right. assumption.
Qed.

Lemma incr_refs_removed us l u' inf' :
  alookup u' (fold_left (fun l u => incr_ref u l) us l) = Some inf' ->
  exists inf, alookup u' l = Some inf /\ ui_removed inf' = ui_removed inf.
Proof.
  revert l. induction us as [|u us IH]; intros l; cbn [fold_left].
  - intros H. exists inf'. auto.
  - intros H. apply IH in H. destruct H as [i1 [H1 E1]].
    apply incr_ref_removed in H1. destruct H1 as [i0 [H0 E0]]. exists i0. split; [assumption | congruence].
Qed.

Lemma incr_refs_keys us l k : In k (map fst (fold_left (fun l u => incr_ref u l) us l)) <-> In k (map fst l).
Proof.
  revert l. induction us as [|u us IH]; intros l; cbn [fold_left]; [tauto|].
  rewrite IH. apply incr_ref_keys.
Qed.

Lemma SOK_incr_refs s dp us :
  SOK s dp -> SOK (set_urrs (fold_left (fun l u => incr_ref u l) us (s_urrs s)) s) dp.
Proof.
  intros [Hc Hr]. split.
  - intros k id Hi. cbn [set_urrs s_lid] in Hi. apply Hc in Hi. rewrite recorded_set_urrs.
    destruct k; try assumption. apply incr_refs_keys. assumption.
  - intros u inf Hu Hrm. cbn [set_urrs s_urrs s_lid] in *.
    apply incr_refs_removed in Hu. destruct Hu as [i0 [H0 E0]]. eapply Hr; [exact H0 | congruence].
Qed.

Lemma SOK_aset_pdr s dp p us : SOK s dp -> SOK (set_pdrs (aset p us (s_pdrs s)) s) dp.
Proof.
  intros [Hc Hr]. split.
  - intros k id Hi. cbn [set_pdrs s_lid] in Hi. apply Hc in Hi. rewrite recorded_set_pdrs.
    destruct k; try assumption. apply keys_aset. right. assumption.
  - intros u inf Hu Hrm. cbn [set_pdrs s_urrs s_lid] in *. eapply Hr; eauto.
Qed.

Lemma decr_ref_removed u l u' inf' :
  alookup u' (decr_ref u l) = Some inf' ->
  exists inf, alookup u' l = Some inf /\ ui_removed inf' = ui_removed inf.
Proof.
  unfold decr_ref. destruct (alookup u l) as [inf|] eqn:E; [|intros H; exists inf'; auto].
  destruct (0 <? ui_ref inf); [|intros H; exists inf'; auto].
  destruct (N.eq_dec u' u) as [->|Hne].
  - rewrite alookup_aset_same. intros H. inversion H; subst. exists inf. auto.
  - rewrite alookup_aset_other by assumption. intros H. exists inf'. auto.
Qed.

Lemma decr_ref_keys u l k : In k (map fst (decr_ref u l)) <-> In k (map fst l).
Proof.
  unfold decr_ref. destruct (alookup u l) as [inf|] eqn:E; [|tauto]. destruct (0 <? ui_ref inf); [|tauto].
  rewrite keys_aset. apply alookup_key in E. split.
  - intros [Hk | Hk]; [subst; assumption | assumption].
  - intros Hk. right. assumption.
Qed.

Lemma decr_refs_removed us l u' inf' :
  alookup u' (fold_left (fun l u => decr_ref u l) us l) = Some inf' ->
  exists inf, alookup u' l = Some inf /\ ui_removed inf' = ui_removed inf.
Proof.
  revert l. induction us as [|u us IH]; intros l; cbn [fold_left].
  - intros H. exists inf'. auto.
  - intros H. apply IH in H. destruct H as [i1 [H1 E1]].
    apply decr_ref_removed in H1. destruct H1 as [i0 [H0 E0]]. exists i0. split; [assumption | congruence].
Qed.

Lemma decr_refs_keys us l k : In k (map fst (fold_left (fun l u => decr_ref u l) us l)) <-> In k (map fst l).
Proof.
  revert l. induction us as [|u us IH]; intros l; cbn [fold_left]; [tauto|].
  rewrite IH. apply decr_ref_keys.
Qed.

Lemma SOK_decr_refs s dp us :
  SOK s dp -> SOK (set_urrs (fold_left (fun l u => decr_ref u l) us (s_urrs s)) s) dp.
Proof.
  intros [Hc Hr]. split.
  - intros k id Hi. cbn [set_urrs s_lid] in Hi. apply Hc in Hi. rewrite recorded_set_urrs.
    destruct k; try assumption. apply decr_refs_keys. assumption.
  - intros u inf Hu Hrm. cbn [set_urrs s_urrs s_lid] in *.
    apply decr_refs_removed in Hu. destruct Hu as [i0 [H0 E0]]. eapply Hr; [exact H0 | congruence].
Qed.

Lemma set_urrs_twice l l' s : set_urrs l (set_urrs l' s) = set_urrs l s.
Proof. destruct s; reflexivity. Qed.

Lemma SOK_decr_incr_refs s dp ds us :
  SOK s dp -> SOK (set_urrs (fold_left (fun l u => decr_ref u l) ds (fold_left (fun l u => incr_ref u l) us (s_urrs s))) s) dp.
Proof.
  intros H. pose proof (SOK_decr_refs _ dp ds (SOK_incr_refs s dp us H)) as H2.
  cbn [set_urrs s_urrs] in H2. rewrite set_urrs_twice in H2. exact H2.
Qed.

Lemma create_pdr_new_good e o c : good c (create_pdr_new e o c).
Proof.
  unfold create_pdr_new.
  set (us := dedup (po_urrs o)).
  set (c1 := upd_s c (fun s => set_urrs (fold_left (fun l u => incr_ref u l) us (s_urrs s)) s)).
  set (c2 := upd_s c1 (fun s => set_pdrs (aset (pdr_id o) us (s_pdrs s)) s)).
  destruct (drv e c2 DCreate KPDR (pdr_id o)) as [c3 ok] eqn:E. cbn [fst].
  assert (F1 : sframe c c1) by (apply upd_s_frame; reflexivity).
  assert (F2 : sframe c1 c2) by (apply upd_s_frame; reflexivity).
  split; [eapply sframe_trans; [exact F1 | eapply sframe_trans; [exact F2 | eapply drv_frame; eauto]]|].
  intros HS. apply drv_spec in E. destruct E as [Hs [Hd _]].
  pose proof (dp_call_spec _ _ _ _ _ _ _ _ Hd) as [A _].
  rewrite Hs.
  assert (H2 : SOK (c_s c2) (c_dp c)).
  { cbn [c2 c1 upd_s c_s]. apply SOK_aset_pdr. apply SOK_incr_refs. assumption. }
  destruct H2 as [Hc Hr]. cbn [c2 c1 upd_s c_s c_dp] in *. split.
  - intros k id Hi. apply A in Hi. destruct Hi as [Hi|[Heq _]]; [auto|].
    inversion Heq; subst. rewrite recorded_set_pdrs. apply keys_aset. left. reflexivity.
  - intros u inf Hu Hrm Hi. apply A in Hi. destruct Hi as [Hi|[Heq _]]; [eapply Hr; eauto|].
    inversion Heq.
Qed.

Lemma create_pdr_held_good e o old c : alookup (pdr_id o) (s_pdrs (c_s c)) = Some old -> good c (create_pdr_held e o old c).
Proof.
  intros Hold. unfold create_pdr_held.
  set (new := dedup (po_urrs o)).
  match goal with |- context [upd_s c ?f] => set (c1 := upd_s c f) end.
  set (c2 := upd_s c1 (fun s => set_pdrs (aset (pdr_id o) new (s_pdrs s)) s)).
  destruct (drv e c2 DCreate KPDR (pdr_id o)) as [c3 ok] eqn:E.
  assert (F1 : sframe c c1) by (apply upd_s_frame; reflexivity).
  assert (F2 : sframe c1 c2) by (apply upd_s_frame; reflexivity).
  assert (F3 : sframe c c3) by (eapply sframe_trans; [exact F1 | eapply sframe_trans; [exact F2 | eapply drv_frame; eauto]]).
  pose proof E as E0. apply drv_spec in E. destruct E as [Hs [Hd _]].
  pose proof (dp_call_spec _ _ _ _ _ _ _ _ Hd) as [A _].
  destruct ok.
  - split; [exact F3|]. intros HS. rewrite Hs.
    assert (H2 : SOK (c_s c2) (c_dp c)).
    { cbn [c2 c1 upd_s c_s]. apply SOK_aset_pdr. apply SOK_decr_incr_refs. assumption. }
    destruct H2 as [Hc Hr]. cbn [c2 c1 upd_s c_s c_dp] in *. split.
    + intros k id Hi. apply A in Hi. destruct Hi as [Hi|[Heq _]]; [auto|].
      inversion Heq; subst. rewrite recorded_set_pdrs. apply keys_aset. left. reflexivity.
    + intros u inf Hu Hrm Hi. apply A in Hi. destruct Hi as [Hi|[Heq _]]; [eapply Hr; eauto|]. inversion Heq.
  - split.
    + eapply sframe_trans; [exact F3|]. apply upd_s_frame; cbn [set_pdrs set_urrs s_lid s_rid s_node];
        destruct F3 as [l3 r3 n3 _ _]; congruence.
    + intros [Hc Hr]. cbn [upd_s c_s c_dp]. cbn [c2 c1 upd_s c_s c_dp set_pdrs set_urrs s_lid] in *.
      assert (Hl : s_lid (set_pdrs (s_pdrs (c_s c)) (set_urrs (s_urrs (c_s c)) (c_s c3))) = s_lid (c_s c)).
      { cbn [set_pdrs set_urrs s_lid]. rewrite Hs. reflexivity. }
      split.
      * intros k id Hi. rewrite Hl in Hi. apply A in Hi.
        assert (Hrec : forall k0, recorded (set_pdrs (s_pdrs (c_s c)) (set_urrs (s_urrs (c_s c)) (c_s c3))) k0 = recorded (c_s c) k0).
        { intros k0. rewrite Hs. destruct k0; reflexivity. }
        rewrite Hrec. destruct Hi as [Hi|[Heq _]]; [apply Hc; exact Hi|].
        inversion Heq; subst. cbn [recorded]. apply alookup_key in Hold. exact Hold.
      * intros u inf Hu Hrm Hi. rewrite Hl in Hi. cbn [set_pdrs set_urrs s_urrs] in Hu. apply A in Hi.
        destruct Hi as [Hi|[Heq _]]; [eapply Hr; eauto|]. inversion Heq.
Qed.

Lemma create_pdr_good e o c : good c (create_pdr e o c).
Proof.
  unfold create_pdr. destruct (alookup (pdr_id o) (s_pdrs (c_s c))) as [old|] eqn:E;
    [apply create_pdr_held_good; exact E | apply create_pdr_new_good].
Qed.

Lemma update_pdr_good e o c : good c (fst (update_pdr e o c)).
Proof.
  unfold update_pdr.
  destruct (alookup (pdr_id o) (s_pdrs (c_s c))) as [old|] eqn:El; [|apply good_refl].
  destruct (drv e c DUpdate KPDR (pdr_id o)) as [c1 ok] eqn:E.
  assert (G1 : good c c1).
  { split; [eapply drv_frame; eauto|].
    intros [Hc Hr]. apply drv_spec in E. destruct E as [Hs [Hd _]].
    pose proof (dp_call_spec _ _ _ _ _ _ _ _ Hd) as [_ [_ [_ [_ [_ [B _]]]]]].
    rewrite Hs. split.
    - intros k' id' Hi. apply B in Hi; [|discriminate]. auto.
    - intros u' inf' Hu Hrm Hi. apply B in Hi; [|discriminate]. eapply Hr; eauto. }
  destruct (negb ok); [exact G1|].
  destruct (negb (po_has_urr_ie o)); [exact G1|].
  match goal with |- context [fold_left _ ?a _] => set (added := a) end.
  set (c2 := upd_s c1 (fun s => set_urrs (fold_left (fun l u => incr_ref u l) added (s_urrs s)) s)).
  assert (G2 : good c1 c2).
  { split; [apply upd_s_frame; reflexivity|]. intros HS. cbn [c2 upd_s c_s c_dp]. apply SOK_incr_refs. assumption. }
  match goal with |- context [diassociate_all e ?d c2] => set (dropped := d) end.
  pose proof (diassociate_all_good e dropped c2) as G3.
  destruct (diassociate_all e dropped c2) as [c3 rs]. cbn [fst] in *.
  eapply good_trans; [exact G1|]. eapply good_trans; [exact G2|]. eapply good_trans; [exact G3|].
  split; [apply upd_s_frame; reflexivity|].
  intros HS. cbn [upd_s c_s c_dp]. apply SOK_aset_pdr. assumption.
Qed.

Lemma remove_pdr_good e id c : good c (fst (remove_pdr e id c)).
Proof.
  unfold remove_pdr. destruct id as [i|]; [|apply good_refl].
  destruct (alookup i (s_pdrs (c_s c))) as [rel|] eqn:El; [|apply good_refl].
  destruct (drv e c DRemove KPDR i) as [c1 ok] eqn:E.
  pose proof (drv_frame _ _ _ _ _ _ _ E) as F1.
  apply drv_spec in E. destruct E as [Hs [Hd _]].
  pose proof (dp_call_spec _ _ _ _ _ _ _ _ Hd) as [_ [_ [R1 [_ [_ [B _]]]]]].
  assert (G1 : good c c1).
  { split; [exact F1|]. intros [Hc Hr]. rewrite Hs. split.
    - intros k' id' Hi. apply B in Hi; [|discriminate]. auto.
    - intros u' inf' Hu Hrm Hi. apply B in Hi; [|discriminate]. eapply Hr; eauto. }
  destruct ok; cbn [negb]; [|exact G1].
  pose proof (diassociate_all_good e rel c1) as G2.
  destruct (diassociate_all e rel c1) as [c2 rs] eqn:E2. cbn [fst] in *.
  split.
  - eapply sframe_trans; [exact F1|]. eapply sframe_trans; [apply G2|]. apply upd_s_frame; reflexivity.
  - intros HS. pose proof HS as [Hc0 _].
    assert (H2 : SOK (c_s c2) (c_dp c2)) by (apply G2; apply G1; assumption).
    destruct H2 as [Hc Hr]. cbn [upd_s c_s c_dp].
    assert (Hlid : s_lid (c_s c2) = s_lid (c_s c)).
    { destruct G2 as [[L2 _ _ _ _] _]. destruct F1 as [L1 _ _ _ _]. congruence. }
    (* the PDR rule is gone from the data plane: diassociation only queries *)
    assert (Hgone : ~ In (s_lid (c_s c), KPDR, i) (c_dp c2)).
    { intros Hi. apply (R1 eq_refl eq_refl).
      clear - Hi E2. revert c1 c2 rs E2 Hi.
      induction rel as [|u us IH]; intros c1 c2 rs E2 Hi; cbn [diassociate_all] in E2.
      - inversion E2; subst. assumption.
      - destruct (diassociate e u c1) as [cc r1] eqn:Ed.
        destruct (diassociate_all e us cc) as [cc2 r2] eqn:Ea. inversion E2; subst.
        specialize (IH _ _ _ Ea Hi).
        unfold diassociate in Ed.
        destruct (alookup u (s_urrs (c_s c1))) as [inf|]; [|inversion Ed; subst; assumption].
        destruct (0 <? ui_ref inf); [|inversion Ed; subst; assumption].
        match type of Ed with context [if ?b then _ else _] => destruct b end;
          [|inversion Ed; subst; assumption].
        match type of Ed with context [drv e ?cx DQuery KURR u] => destruct (drv e cx DQuery KURR u) as [cy oky] eqn:Eq end.
        inversion Ed; subst. apply drv_spec in Eq. destruct Eq as [_ [Hd' _]].
        pose proof (dp_call_spec _ _ _ _ _ _ _ _ Hd') as [_ [_ [_ [_ [_ [B' _]]]]]].
        apply B' in IH; [|discriminate]. exact IH. }
    split.
    + intros k id Hi. cbn [set_pdrs s_lid] in Hi. rewrite recorded_set_pdrs.
      pose proof (Hc _ _ Hi) as Hin. destruct k; try assumption.
      apply keys_adel. split; [|assumption]. intros ->. apply Hgone. rewrite <- Hlid. assumption.
    + intros u inf Hu Hrm. cbn [set_pdrs s_urrs s_lid] in *. eapply Hr; eauto.
Qed.

(* ---------------------------------------------------------------- folds, categories, Close *)

Lemma fold_ctx_good {A} (f : A -> sctx -> sctx) l c :
  (forall x c, good c (f x c)) -> good c (fold_ctx f l c).
Proof.
  intros Hf. unfold fold_ctx. revert c. induction l as [|x l IH]; intros c; cbn [fold_left]; [apply good_refl|].
  eapply good_trans; [apply Hf | apply IH].
Qed.

Lemma fold_rpt_good {A} (f : A -> sctx -> sctx * list rpt) l c :
  (forall x c, good c (fst (f x c))) -> good c (fst (fold_rpt f l c)).
Proof.
  intros Hf. revert c. induction l as [|x l IH]; intros c; cbn [fold_rpt]; [apply good_refl|].
  pose proof (Hf x c) as G1. destruct (f x c) as [c1 r1]. cbn [fst] in G1.
  pose proof (IH c1) as G2. destruct (fold_rpt f l c1) as [c2 r2]. cbn [fst] in *.
  eapply good_trans; eauto.
Qed.

Lemma simple_FAR : simple_kind KFAR. Proof. left; reflexivity. Qed.
Lemma simple_QER : simple_kind KQER. Proof. right; left; reflexivity. Qed.
Lemma simple_BAR : simple_kind KBAR. Proof. right; right; reflexivity. Qed.

Ltac cat_op :=
  first [ apply create_simple_good; first [apply simple_FAR | apply simple_QER | apply simple_BAR]
        | apply remove_simple_good; first [apply simple_FAR | apply simple_QER | apply simple_BAR]
        | apply update_simple_good | apply create_urr_good | apply create_pdr_good
        | apply update_urr_good | apply remove_urr_good | apply query_urr_good
        | apply update_pdr_good | apply remove_pdr_good ].

Ltac cat_branch :=
  let H := fresh "H" in
  intros H; inversion H; subst; clear H; cbn [fst];
  first [ apply fold_ctx_good; intros; cat_op | apply fold_rpt_good; intros; cat_op ].

Lemma run_category_good e o name c r :
  run_category e o name c = Some r -> good c (fst r).
Proof.
  unfold run_category.
  repeat match goal with
  | |- (if String.eqb name ?s then _ else _) = _ -> _ => destruct (String.eqb name s); [cat_branch|]
  end.
  discriminate.
Qed.

Lemma run_categories_good e o names c r :
  run_categories e o names c = Some r -> good c (fst r).
Proof.
  revert c r. induction names as [|n names IH]; intros c r; cbn [run_categories].
  - intros H. inversion H. apply good_refl.
  - destruct (run_category e o n c) as [[c1 r1]|] eqn:E1; [|discriminate].
    destruct (run_categories e o names c1) as [[c2 r2]|] eqn:E2; [|discriminate].
    intros H. inversion H; subst. cbn [fst].
    apply run_category_good in E1. apply IH in E2. cbn [fst] in *. eapply good_trans; eauto.
Qed.

Lemma close_category_good e name c r :
  close_category e name c = Some r -> good c (fst r).
Proof.
  unfold close_category.
  repeat match goal with
  | |- (if String.eqb name ?s then _ else _) = _ -> _ => destruct (String.eqb name s); [cat_branch|]
  end.
  discriminate.
Qed.

Lemma close_categories_good e names c r :
  close_categories e names c = Some r -> good c (fst r).
Proof.
  revert c r. induction names as [|n names IH]; intros c r; cbn [close_categories].
  - intros H. inversion H. apply good_refl.
  - destruct (close_category e n c) as [[c1 r1]|] eqn:E1; [|discriminate].
    destruct (close_categories e names c1) as [[c2 r2]|] eqn:E2; [|discriminate].
    intros H. inversion H; subst. cbn [fst].
    apply close_category_good in E1. apply IH in E2. cbn [fst] in *. eapply good_trans; eauto.
Qed.

Lemma sess_close_good e c r : sess_close e c = Some r -> good c (fst r).
Proof.
  unfold sess_close. destruct (close_categories e close_order c) as [[c1 rs]|] eqn:E; [|discriminate].
  intros H. inversion H; subst. cbn [fst].
  apply close_categories_good in E. cbn [fst] in E.
  eapply good_trans; [exact E|]. split; [apply upd_s_frame; reflexivity|].
  intros [Hc Hr]. cbn [upd_s c_s c_dp]. split.
  - intros k id Hi. apply Hc in Hi. destruct k; assumption.
  - intros u inf Hu Hrm. eapply Hr; eauto.
Qed.
