(* C15 — periodic reporting queries exactly the URRs currently registered.
   Statements only; proofs are in proofs/PerioProofs.v.
   Vocabulary: monitor/PerioSpec.v (events, the spec "set of (period,(seid,urr))", wf_hist = the property's
   quantifier "each URR registered at most once at a time"); model/Perio.v (step, run, batches).
   [run evs] is the model state after the history [evs] (fold_left of step from the initial state), [spec_run evs]
   the spec state; ticks may occur anywhere in [evs] and the tick under consideration is the next event. *)
From Coq Require Import String List NArith Bool.
From GoUpf Require Import PerioGen PerioSpec Perio PerioProofs.
Import ListNotations.
Local Open Scope N_scope.

(* Every tick of a period that has registrations issues exactly ONE query; the query map lists exactly the
   (seid,urr) pairs the spec holds for that period - nothing removed, nothing missing, nothing twice, no empty
   entry - then the notifications for the data plane's answer [a]; the state is unchanged. *)
Theorem C15_tick_exact : forall evs p a,
  wf_hist evs -> sopen (spec_run evs) = true ->
  (exists x u, In (p, (x, u)) (regs (spec_run evs))) ->
  exists q, step (run evs) (Tick p a) = (run evs, Query q :: notifications a)
            /\ NoDup (flat_pairs q)
            /\ (forall e, In e q -> snd e <> [])
            /\ (forall x u, In (x, u) (flat_pairs q) <-> In (p, (x, u)) (regs (spec_run evs))).
Proof. exact tick_exact. Qed.
Print Assumptions C15_tick_exact.

(* A tick that is still queued when the last URR of its period has gone (or whose period never existed)
   does nothing at all; after Close whatever is posted is dropped by the queue. *)
Theorem C15_stale_tick : forall evs p a,
  wf_hist evs -> (forall x u, ~ In (p, (x, u)) (regs (spec_run evs))) ->
  step (run evs) (Tick p a) = (run evs, []).
Proof. exact tick_stale. Qed.
Print Assumptions C15_stale_tick.

(* Nothing but a tick queries or notifies (any state, any event). *)
Theorem C15_only_ticks_query : forall s e, (forall p a, e <> Tick p a) ->
  queries_of (snd (step s e)) = [] /\ notifies_of (snd (step s e)) = [].
Proof. exact quiet_events. Qed.
Print Assumptions C15_only_ticks_query.

(* queryMultiURR's chunking: for a positive limit n the requests are a partition of the flattened query in
   order, every request carries between 1 and n ids, and every request but the last carries exactly n. *)
Theorem C15_batches : forall (A : Type) (n : nat) (l : list A), (0 < n)%nat ->
  concat (batches n l) = l
  /\ Forall (fun b => (1 <= length b <= n)%nat) (batches n l)
  /\ (forall bs b, batches n l = (bs ++ [b])%list -> Forall (fun c => length c = n) bs).
Proof. exact @batches_spec. Qed.
Print Assumptions C15_batches.

(* Delivery: when the tick finds its group, the NotifySessReport calls are exactly the entries of the answer in
   order - so every returned report is delivered exactly once, under the SEID it was returned for - and each
   delivered report is the returned one with the PERIO bit set and everything else unchanged.
   An error answer (None) delivers nothing. *)
Theorem C15_deliver : forall s p a g,
  closed s = false -> lookup p (groups s) = Some g ->
  notifies_of (snd (step s (Tick p a))) =
    match a with Some l => map (fun e => (fst e, map mark (snd e))) l | None => [] end
  /\ flat_reports (notifies_of (snd (step s (Tick p a)))) =
     map (fun xr => (fst xr, mark (snd xr))) (match a with Some l => flat_reports l | None => [] end).
Proof. exact deliver. Qed.
Print Assumptions C15_deliver.

Theorem C15_marked_periodic : forall r,
  is_periodic (mark r) = true /\ r_urr (mark r) = r_urr r /\ r_tag (mark r) = r_tag r
  /\ forall i, i <> PERIO_BIT -> N.testbit (r_flags (mark r)) i = N.testbit (r_flags r) i.
Proof. exact mark_periodic. Qed.
Print Assumptions C15_marked_periodic.

(* Tickers: on EVERY history (well-formed or not) the live tickers are exactly the keys of the group table,
   keys are distinct, no group is empty, no seid entry is empty or repeats a URR. *)
Theorem C15_tickers : forall evs, Inv (run evs).
Proof. exact Inv_run. Qed.
Print Assumptions C15_tickers.

(* ... a period has a ticker iff some URR is registered with it: when the last one goes the timer is released *)
Theorem C15_ticker_iff_registered : forall evs p, wf_hist evs ->
  (In p (tickers (run evs)) <-> exists x u, In (p, (x, u)) (regs (spec_run evs))).
Proof. exact tickers_iff. Qed.
Print Assumptions C15_ticker_iff_registered.

(* ... closing the server releases all of them, whatever follows *)
Theorem C15_close_releases : forall evs1 evs2,
  tickers (run (evs1 ++ Close :: evs2)) = [] /\ groups (run (evs1 ++ Close :: evs2)) = [].
Proof. exact close_releases. Qed.
Print Assumptions C15_close_releases.

(* ... and the ticker list changes only through the TickerStart / TickerStop outputs *)
Theorem C15_tickers_follow_outputs : forall s e,
  tickers (fst (step s e)) = apply_ticker_outs (tickers s) (snd (step s e)).
Proof. exact tickers_follow_outputs. Qed.
Print Assumptions C15_tickers_follow_outputs.

(* The refinement itself: on every well-formed history the group table denotes exactly the spec's set. *)
Theorem C15_refines_spec : forall evs, wf_hist evs ->
  forall t, In t (regs (spec_run evs)) <-> In t (flat_regs (groups (run evs))).
Proof. intros evs H. exact (sim_R _ _ (Sim_run evs H)). Qed.
Print Assumptions C15_refines_spec.

(* The theorem statements as boolean monitors (monitor/PerioSpec.v, which knows nothing of the model) accept the
   model's own behaviour on every well-formed history: a monitor failure on the implementation's observations is
   therefore a difference between implementation and model, never an artefact of the monitor. *)
Theorem C15_monitor_accepts_model : forall evs, wf_hist evs -> monitor evs (map obs_of (trace evs)) = true.
Proof. exact monitor_accepts_model. Qed.
Print Assumptions C15_monitor_accepts_model.

(* The source shapes the model was written against (regenerated from /repo on every run): the constant OR-ed
   into the reports, one query and one notify call site, the chunking loop's limit / conditions / resets. *)
Theorem C15_source_shapes :
  perio_mark_name = "USAR_TRIG_PERIO"%string /\ perio_mark_flag = 1
  /\ perio_timeout_call_sites = (1, 1)
  /\ batch_limit_src = "gtp5gnl.MaxNetlinkUsageReportNum()"%string
  /\ batch_flush_cond = "queryNum >= queryNumOnce"%string
  /\ batch_flush_call = "gtp5gnl.GetMultiReportsOID(c, g.link.link, oids)"%string
  /\ batch_flush_resets = ["reports = append(reports, rs...)"; "oids = oids[:0]"; "queryNum = 0"]%string
  /\ batch_tail_cond = "len(oids) > 0"%string
  /\ batch_tail_call = "gtp5gnl.GetMultiReportsOID(c, g.link.link, oids)"%string.
Proof. exact source_shapes. Qed.
Print Assumptions C15_source_shapes.

(* non-vacuity: a well-formed history with two periods, a batch of three URRs, a removal that releases a
   ticker, a stale tick and a live tick *)
Example C15_nonvacuous :
  let evs := [Add 1 10 5; Add 1 11 5; Add 2 10 5; Add 3 7 9; Del 3 7] in
  wf_histb evs = true
  /\ step (run evs) (Tick 9 (Some [])) = (run evs, [])
  /\ snd (step (run evs) (Tick 5 (Some [(2, [{| r_urr := 10; r_flags := 2; r_tag := 77 |}])]))) =
     [Query [(1, [10; 11]); (2, [10])]; Notify 2 [{| r_urr := 10; r_flags := 3; r_tag := 77 |}]]
  /\ tickers (run evs) = [5]
  /\ batches 2 [1; 2; 3; 4; 5] = [[1; 2]; [3; 4]; [5]].
Proof. vm_compute. repeat split; reflexivity. Qed.
