(* C07 — no datagram sequence can take the control plane down (the part a theorem can carry: go-upf's own
   fault sites over all PARSED messages and all reachable states; the byte parser and IE accessors of
   go-pfcp are exercised by the correspondence/mutation side only — see DESIGN.md). Statements only. *)
From Coq Require Import String List NArith ZArith Bool.
From GoUpf Require Import Bytes FlagsGen ConstsGen HandlerGen Pfcp PfcpBase PfcpSess PfcpClose PfcpTable PfcpDelete PfcpStep PfcpProps.
Import ListNotations.
Local Open Scope N_scope.

(* no history of parsed messages, reports and timer events - whatever SEIDs, ids, missing or undecodable
   IEs, unknown types, failure oracles - makes any slice index, nil slot or look-up fault *)
Theorem C07_no_fault_any_history : forall q m evs f, run (init q m) evs <> Fault f.
Proof. exact run_never_faults. Qed.
Print Assumptions C07_no_fault_any_history.

Theorem C07_no_fault_any_reachable_state : forall w ev f, reachable w -> step w ev <> Fault f.
Proof. exact step_never_faults. Qed.
Print Assumptions C07_no_fault_any_reachable_state.

(* in every state, a Heartbeat Request that is not a retransmission is answered with one Heartbeat Response to
   its sender carrying its sequence number, and nothing but the transaction bookkeeping changes *)
Theorem C07_heartbeat_answered : forall w peer seq e,
  klookup (peer, seq) (w_rx w) = None ->
  exists w', step w (EvRecv peer seq MHeartbeat e) = Ok (w', [OSend peer (PHeartbeatRsp seq) false]) /\ same_core w w'.
Proof. exact heartbeat_answered. Qed.
Print Assumptions C07_heartbeat_answered.

(* the pre-repair look-up did fault (fix f339873) *)
Example C07_legacy_refuted : lookup_legacy [] 18446744073709551615 = Fault FIndexOutOfRange.
Proof. exact lookup_legacy_faults. Qed.

Example C07_nonvacuous :
  match run (init 0 1) [EvRecv 0 1 (MMod 18446744073709551615 IeAbsent (mkOps [] [] [] [] [] [] [] [] [] [] [] [] [] [] [] [])) (mkEnv [] []);
                        EvRecv 0 2 (MReportRsp 0) (mkEnv [] []);
                        EvReport 9223372036854775808 [] (mkEnv [] [])] with
  | Ok (_, os) => os = [[OSend 0 (PModRsp 1 0 65 []) false]; []; []]
  | Fault _ => False
  end.
Proof. vm_compute. reflexivity. Qed.
