(* C07 — no datagram sequence can take the control plane down (the part a theorem can carry: go-upf's own
   fault sites over all PARSED messages and all reachable states; the byte parser and IE accessors of
   go-pfcp are exercised by the correspondence/mutation side only — see DESIGN.md). Statements only. *)
From Coq Require Import String List NArith ZArith Bool.
From GoUpf Require Import Bytes FlagsGen ConstsGen HandlerGen Pfcp PfcpBase PfcpSess PfcpClose PfcpTable PfcpDelete PfcpStep PfcpProps PfcpFrame.
Import ListNotations.
Local Open Scope N_scope.

(* no history of parsed messages, reports and timer events - whatever SEIDs, ids, missing or undecodable
   IEs, unknown types, failure oracles - makes any slice index, nil slot or look-up fault *)
Theorem C07_no_fault_any_history : forall q m evs f, run (init q m) evs <> Fault f.
Proof. exact run_never_faults. Qed.
Print Assumptions C07_no_fault_any_history.

Theorem C07_no_fault_any_reachable_state : forall w ev f, reachable w -> step w ev <> Fault f.
Proof. exact step_never_faults. Qed.
Print Assumptions C07_no_fault_any_reachable_state.

(* `event` includes EvReportWF - a report served while every write on the PFCP socket fails (the first transmission of
   a Session Report Request is lost inside the UPF, the request stays registered) - so the two theorems above cover
   histories with such failures, and whatever datagram follows (a response with that sequence number, from anyone) is
   an ordinary event of a reachable state.  Explicitly: *)
Theorem C07_failed_write_then_any_event : forall w seid items e w' o ev f,
  reachable w -> step w (EvReportWF seid items e) = Ok (w', o) -> step w' ev <> Fault f.
Proof. intros w seid items e w' o ev f Hr E. apply step_never_faults. eapply reach_step; eauto. Qed.
Print Assumptions C07_failed_write_then_any_event.

(* in every state, a Heartbeat Request that is not a retransmission is answered with one Heartbeat Response to
   its sender carrying its sequence number, and nothing but the transaction bookkeeping changes *)
Theorem C07_heartbeat_answered : forall w peer seq e,
  klookup (peer, seq) (w_rx w) = None ->
  exists w', step w (EvRecv peer seq MHeartbeat e) = Ok (w', [OSend peer (PHeartbeatRsp seq) false]) /\ same_core w w'.
Proof. exact heartbeat_answered. Qed.
Print Assumptions C07_heartbeat_answered.

(* ---- contained handler panics (fix 242a7e8).  The event EvRecvAbort stands for a request whose handler panicked in
   an IE accessor right after the operations listed in it; it is part of `event`, so the two theorems above already
   say: histories containing such events never fault and keep the world invariant.  What else holds: *)

(* a Modification aborted at ANY point (any operations done so far, any failure oracle): every other session and its
   rules are untouched, only this session's driver calls were made, no datagram leaves, the tables are unchanged *)
Theorem C07_aborted_modification_contained : forall w seid o e s,
  WInv w -> live w seid s ->
  exists w' out, handle_mod_abort w seid IeAbsent o e = Ok (w', out) /\ WInv w' /\ wframe w w' seid /\
    Forall (own_drv seid) out /\
    w_heap w' = w_heap w /\ w_rnodes w' = w_rnodes w /\ w_free w' = w_free w /\ w_rx w' = w_rx w /\ w_tx w' = w_tx w /\
    exists s1, live w' seid s1 /\ s_rid s1 = s_rid s /\ s_node s1 = s_node s.
Proof. exact mod_abort_spec. Qed.
Print Assumptions C07_aborted_modification_contained.

(* an Establishment aborted at any point: nothing, or one fresh session; every session that existed is untouched *)
Theorem C07_aborted_establishment_contained : forall w id rid o e ref,
  WInv w -> alookup id (w_rnodes w) = Some ref ->
  exists w' out, handle_est_abort w (IeVal id) (IeVal rid) o e = Ok (w', out) /\ WInv w' /\
    (out = [] /\ w' = w \/
     exists lid s1, lid <> 0 /\ (forall s', ~ live w lid s') /\ live w' lid s1 /\ s_rid s1 = rid /\ s_node s1 = ref /\
       wframe w w' lid /\ Forall (own_drv lid) out).
Proof. exact est_abort_spec. Qed.
Print Assumptions C07_aborted_establishment_contained.

(* the aborted request leaves a receive transaction WITHOUT an answer (its retransmissions are ignored: C06) and nothing
   but driver calls came out of it *)
Theorem C07_aborted_request_unanswered : forall w peer seq m e w' out,
  is_request m = true -> klookup (peer, seq) (w_rx w) = None ->
  step w (EvRecvAbort peer seq m e) = Ok (w', out) ->
  klookup (peer, seq) (w_rx w') = Some None /\ Forall is_drv out.
Proof. exact abort_leaves_unanswered_transaction. Qed.
Print Assumptions C07_aborted_request_unanswered.

(* the pre-repair look-up did fault (fix f339873) *)
Example C07_legacy_refuted : lookup_legacy [] 18446744073709551615 = Fault FIndexOutOfRange.
Proof. exact lookup_legacy_faults. Qed.

Example C07_nonvacuous :
  match run (init 0 1) [EvRecv 0 1 (MMod 18446744073709551615 IeAbsent (mkOps [] [] [] [] [] [] [] [] [] [] [] [] [] [] [] [])) (mkEnv [] []);
                        EvRecv 0 2 (MReportRsp 0) (mkEnv [] []);
                        EvReport 9223372036854775808 [] (mkEnv [] [])] with
  | Ok (_, os) => os = [[OSend 0 (PModRsp 1 0 65 []) false]; []; []]
  | Fault _ => False
  end.
Proof. vm_compute. reflexivity. Qed.

(* an aborted Modification after its first operation: the FAR is there, no response, the heartbeat is still answered *)
Example C07_abort_nonvacuous :
  match run (init 0 1) [EvRecv 0 1 (MAssocSetup (IeVal 0) []) (mkEnv [] []);
                        EvRecv 0 2 (MEst (IeVal 0) (IeVal 10) (mkOps [] [] [] [] [] [] [] [] [] [] [] [] [] [] [] [])) (mkEnv [] []);
                        EvRecvAbort 0 3 (MMod 1 IeAbsent (mkOps [Some 7] [] [] [] [] [] [] [] [] [] [] [] [] [] [] [])) (mkEnv [] []);
                        EvRecv 0 3 (MMod 1 IeAbsent (mkOps [Some 7] [] [] [] [] [] [] [] [] [] [] [] [] [] [] [])) (mkEnv [] []);
                        EvRecv 0 4 MHeartbeat (mkEnv [] [])] with
  | Ok (w, os) => nth 2 os [] = [ODrv DCreate KFAR 1 7 true] /\ nth 3 os [OSend 0 (PHeartbeatRsp 0) false] = []
                  /\ nth 4 os [] = [OSend 0 (PHeartbeatRsp 4) false] /\ w_dp w = [(1, KFAR, 7)]
  | Fault _ => False
  end.
Proof. vm_compute. repeat split; reflexivity. Qed.
