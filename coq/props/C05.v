(* C05 — a message for one session or node never disturbs another. Statements only. *)
From Coq Require Import String List NArith ZArith Bool.
From GoUpf Require Import Bytes FlagsGen ConstsGen HandlerGen Pfcp PfcpBase PfcpSess PfcpClose PfcpTable PfcpDelete PfcpStep PfcpProps PfcpFrame.
Import ListNotations.
Local Open Scope N_scope.

(* every per-session operation of a handler: same SEID, every driver call tagged with it, rules of all other
   SEIDs in the data plane untouched (sframe), for every category order T-gen can produce *)
Theorem C05_categories_frame : forall e o names c r,
  run_categories e o names c = Some r -> sframe c (fst r).
Proof. intros e o names c r H. apply run_categories_good in H. exact (proj1 H). Qed.
Print Assumptions C05_categories_frame.

(* Session Modification (no takeover): every other session is IDENTICAL (rule ids, URR counters, packet
   queues are fields of the session value), the data plane's rules of other SEIDs are unchanged, all driver
   calls carry the addressed SEID, node table / free list unchanged *)
Theorem C05_modification_frame : forall w peer seq seid nid o e s,
  WInv w -> live w seid s -> nid = IeAbsent ->
  exists w' out, handle_mod w peer seq seid nid o e = Ok (w', out) /\ WInv w' /\ wframe w w' seid /\
    (exists drvs snd_, out = drvs ++ snd_ /\ Forall (own_drv seid) drvs /\ correlated peer seq snd_) /\
    w_heap w' = w_heap w /\ w_rnodes w' = w_rnodes w /\ w_free w' = w_free w /\
    (out = [] \/ exists s1, live w' seid s1 /\ s_rid s1 = s_rid s /\ s_node s1 = s_node s).
Proof. exact mod_spec. Qed.
Print Assumptions C05_modification_frame.

Theorem C05_deletion_frame : forall w peer seq seid e s,
  WInv w -> live w seid s ->
  exists w' out, handle_del w peer seq seid e = Ok (w', out) /\ WInv w' /\ wframe w w' seid /\
    (forall s', ~ live w' seid s') /\ (forall k id, ~ In (seid, k, id) (w_dp w')) /\
    (exists drvs snd_ ies, out = drvs ++ snd_ /\ Forall (own_drv seid) drvs /\ correlated peer seq snd_ /\
       (snd_ = [] \/ snd_ = [OSend peer (PDelRsp seq (s_rid s) CauseAccepted ies) false])).
Proof. exact del_spec. Qed.
Print Assumptions C05_deletion_frame.

(* re-association of the node registered under [id]: exactly the sessions of that node object are removed
   (and their rules withdrawn); every other session and every other rule is untouched - for every Reset order *)
Theorem C05_reassociation_exact : forall w peer seq id order e ref n,
  WInv w -> alookup id (w_rnodes w) = Some ref -> nth_error (w_heap w) ref = Some n ->
  exists w' out, handle_assoc w peer seq (IeVal id) order e = Ok (w', out) /\
    (forall lid' s', ~ In lid' (n_sess n) -> (live w' lid' s' <-> live w lid' s')) /\
    (forall r, ~ In (fst (fst r)) (n_sess n) -> (In r (w_dp w') <-> In r (w_dp w))) /\
    (forall lid, In lid (n_sess n) -> (forall s', ~ live w' lid s') /\ (forall k i, ~ In (lid, k, i) (w_dp w'))).
Proof. exact reassociation_exact. Qed.
Print Assumptions C05_reassociation_exact.

(* a Session Report Response with SEID 0 removes at most one session: the first one whose control-plane SEID
   is the SEID of the answered request and whose node has the sender's address; nothing else changes *)
Theorem C05_seid0_exact : forall w peer t e,
  WInv w ->
  exists w' out, handle_report_rsp w peer 0 t e = Ok (w', out) /\ WInv w' /\
    (w' = w /\ out = [] \/
     exists s, live w (s_lid s) s /\ s_rid s = tx_rseid t /\
       (exists n, nth_error (w_heap w) (s_node s) = Some n /\ n_addr n = peer) /\
       wframe w w' (s_lid s) /\ (forall s', ~ live w' (s_lid s) s') /\ Forall (own_drv (s_lid s)) out).
Proof. exact seid0_exact. Qed.
Print Assumptions C05_seid0_exact.

(* node session sets are pairwise disjoint in every reachable state *)
Theorem C05_node_sets_disjoint : forall w r1 r2 n1 n2 lid,
  WInv w -> nth_error (w_heap w) r1 = Some n1 -> nth_error (w_heap w) r2 = Some n2 ->
  In lid (n_sess n1) -> In lid (n_sess n2) -> r1 = r2.
Proof. exact node_sets_disjoint. Qed.
Print Assumptions C05_node_sets_disjoint.

(* C05_reassociation_exact speaks about the node OBJECT registered under the id.  The property's "sessions established
   under that node id" coincides with it because a takeover (Modification carrying a Node ID) never displaces an
   association: when the new id has an association of its own, exactly the addressed session moves to it (fix "takeover by
   a node with its own association moves the session"; before it the node object was re-keyed over that association) *)
Theorem C05_takeover_does_not_displace : forall w seid s newid ref',
  WInv w -> live w seid s -> alookup newid (w_rnodes w) = Some ref' -> ref' <> s_node s ->
  WInv (fst (takeover w s newid)) /\ live (fst (takeover w s newid)) seid (snd (takeover w s newid)) /\
  s_node (snd (takeover w s newid)) = ref' /\ w_rnodes (fst (takeover w s newid)) = w_rnodes w /\
  (forall l x, l <> seid -> (live (fst (takeover w s newid)) l x <-> live w l x)) /\
  w_dp (fst (takeover w s newid)) = w_dp w.
Proof. exact takeover_collision_spec. Qed.
Print Assumptions C05_takeover_does_not_displace.

(* the history of the former finding takeover-collision: nodes 0 and 1 each establish a session; node 1 takes over
   session 1; node 1 re-associates => BOTH its sessions go, node 0 keeps its association *)
Example C05_takeover_collision_exact :
  match run (init 0 1) takeover_history with
  | Ok (w, _) => map (option_map s_rid) (w_slots w) = [None; None] /\ alookup 0 (w_rnodes w) <> None /\
                 map n_sess (w_heap w) = [[]; []; []]
  | Fault _ => False
  end.
Proof. exact takeover_collision_exact. Qed.
