(* C10 — usage reports reach the owning SMF with the measured values intact. Statements only. *)
From Coq Require Import String List NArith ZArith Bool.
From GoUpf Require Import Bytes FlagsGen ConstsGen HandlerGen Pfcp PfcpBase PfcpSess PfcpClose PfcpTable PfcpDelete
  PfcpStep PfcpProps PfcpCat PfcpUsage PfcpQueue PfcpRef Nlattr RulesGen Flags UsageDecGen UsageDec UsageDecProofs.
Import ListNotations.
Local Open Scope N_scope.

(* (a) the IE built from a driver report r for a URR with bookkeeping inf and UR-SEQN q *)
Theorem C10_mk_usage_ie_fields : forall inf q r,
  ur_urr (mk_usage_ie inf q r) = r_urr r /\
  ur_seqn (mk_usage_ie inf q r) = q /\
  ur_trig (mk_usage_ie inf q r) = r_trig r mod 16777216 /\
  ur_times (mk_usage_ie inf q r) = (if no_times (r_trig r) then None else Some (r_start r, r_end r)) /\
  (ur_vol (mk_usage_ie inf q r) <> None <-> ui_volum inf = true) /\
  (forall fl cnt, ur_vol (mk_usage_ie inf q r) = Some (fl, cnt) -> fl = vol_flags inf r mod 256) /\
  ur_dur (mk_usage_ie inf q r) = (if ui_durat inf then Some (r_dur r) else None).
Proof. exact mk_usage_ie_fields. Qed.
Print Assumptions C10_mk_usage_ie_fields.

(* no_times t = START, STOPT or MACAR set;  vol_flags = (r_vflags | TOVOL|ULVOL|DLVOL | (MNOP ? TONOP|ULNOP|DLNOP : 0)) *)
Theorem C10_definitions : forall inf r t,
  no_times t = (flag_of USAR_TRIG_START t || flag_of USAR_TRIG_STOPT t || flag_of USAR_TRIG_MACAR t) /\
  vol_flags inf r = N.lor (N.lor (r_vflags r) 7) (if ui_mnop inf then 56 else 0).
Proof. exact usage_ie_defs. Qed.
Print Assumptions C10_definitions.

(* the three volume counters are EXACTLY the report's, for all values (no truncation); a packet counter is the
   report's iff its flag bit is set, else 0 *)
Theorem C10_mk_usage_ie_volume : forall inf q r a b c d e f,
  ui_volum inf = true -> r_cnt r = [a; b; c; d; e; f] ->
  ur_vol (mk_usage_ie inf q r) =
    Some (vol_flags inf r mod 256,
          [a; b; c; if N.testbit (vol_flags inf r) 3 then d else 0;
                    if N.testbit (vol_flags inf r) 4 then e else 0;
                    if N.testbit (vol_flags inf r) 5 then f else 0]).
Proof. exact mk_usage_ie_volume. Qed.
Print Assumptions C10_mk_usage_ie_volume.

Theorem C10_mk_usage_ie_volume_plain : forall inf q r a b c d e f,
  ui_volum inf = true -> r_cnt r = [a; b; c; d; e; f] -> r_vflags r = 0 ->
  ur_vol (mk_usage_ie inf q r) =
    if ui_mnop inf then Some (63, [a; b; c; d; e; f]) else Some (7, [a; b; c; 0; 0; 0]).
Proof. exact mk_usage_ie_volume_plain. Qed.
Print Assumptions C10_mk_usage_ie_volume_plain.

Theorem C10_mk_usage_ie_volume_mnop : forall inf q r a b c d e f,
  ui_volum inf = true -> r_cnt r = [a; b; c; d; e; f] -> ui_mnop inf = true ->
  exists fl, ur_vol (mk_usage_ie inf q r) = Some (fl, [a; b; c; d; e; f]).
Proof. exact mk_usage_ie_volume_mnop. Qed.
Print Assumptions C10_mk_usage_ie_volume_mnop.

Theorem C10_trigger_bits : forall inf q r k, k < 24 -> N.testbit (ur_trig (mk_usage_ie inf q r)) k = N.testbit (r_trig r) k.
Proof. exact mk_usage_ie_trig_bit. Qed.
Print Assumptions C10_trigger_bits.

(* (b) routing: a report of usage items for a live session yields exactly one Session Report Request, sent to the
   node id of the node object that owns the session, header SEID = the peer's SEID, sequence number = the
   server's counter; its IEs are the emission over the session's own URR bookkeeping; other sessions untouched *)
Theorem C10_serve_report_route : forall w seid s n usars,
  WInv w -> live w seid s -> nth_error (w_heap w) (s_node s) = Some n -> usars <> [] ->
  exists w',
    serve_report w seid (map RUsa usars) =
      Ok (w', [OSend (n_id n) (PReportUSAR (w_txseq w mod 16777216) (s_rid s) (snd (emit 0 false (s_urrs s) usars))) false]) /\
    live w' seid (set_urrs (fst (emit 0 false (s_urrs s) usars)) s) /\
    (forall lid' s', lid' <> seid -> (live w' lid' s' <-> live w lid' s')).
Proof. exact serve_report_route. Qed.
Print Assumptions C10_serve_report_route.

(* ... and every live session has such an owning node (world invariant, all histories) *)
Theorem C10_owner_exists : forall w, WInv w -> forall lid s, live w lid s ->
  exists n, nth_error (w_heap w) (s_node s) = Some n /\ In lid (n_sess n).
Proof. exact wi_node. Qed.
Print Assumptions C10_owner_exists.

Theorem C10_serve_report_unknown : forall w seid items, (forall s, ~ live w seid s) -> serve_report w seid items = Ok (w, []).
Proof. exact serve_report_unknown. Qed.
Print Assumptions C10_serve_report_unknown.

(* (c) reports for unknown URRs are skipped and disturb nothing; the remaining IEs are, one for one and in the
   order of their reports, built from the report and that URR's bookkeeping (ie_of_report) *)
Theorem C10_emit_skips_unknown : forall extra d urrs rs,
  emit extra d urrs (filter (known urrs) rs) = emit extra d urrs rs.
Proof. exact emit_skips_unknown. Qed.
Print Assumptions C10_emit_skips_unknown.

Theorem C10_emit_false_ies : forall extra urrs rs,
  Forall2 (fun r ie => exists inf, alookup (r_urr r) urrs = Some inf /\
                                    ie = mk_usage_ie inf (ur_seqn ie) (or_trig extra r))
          (filter (known urrs) rs) (snd (emit extra false urrs rs)).
Proof. exact emit_false_ies. Qed.
Print Assumptions C10_emit_false_ies.

Theorem C10_emit_ies_in : forall extra d urrs rs ie,
  In ie (snd (emit extra d urrs rs)) ->
  exists r, In r rs /\ exists inf, alookup (r_urr r) urrs = Some inf /\ ie = mk_usage_ie inf (ur_seqn ie) (or_trig extra r).
Proof. exact emit_ies_in. Qed.
Print Assumptions C10_emit_ies_in.

(* a URR whose removal succeeded and which no returned report names is unknown from then on (fix "a removed URR that no
   final report names is forgotten at once"): by C10_emit_unknown_no_ie a later report naming it yields no IE *)
Theorem C10_removed_urr_is_unknown : forall e i c inf,
  alookup i (s_urrs (c_s c)) = Some inf -> remove_keeps e c i = false ->
  alookup i (s_urrs (c_s (fst (remove_urr e (Some i) c)))) = None.
Proof. exact removed_urr_unknown. Qed.
Print Assumptions C10_removed_urr_is_unknown.

Theorem C10_emit_unknown_no_ie : forall extra d urrs rs urrs' ies u,
  emit extra d urrs rs = (urrs', ies) -> alookup u urrs = None -> ies_for u ies = [] /\ alookup u urrs' = None.
Proof. exact emit_unknown_no_ie. Qed.
Print Assumptions C10_emit_unknown_no_ie.

(* ---------------------------------------------------------------------------------------------------------------
   (d) KERNEL SIDE (model/UsageDec.v): from the attribute tree of a gtp5g usage report (sim_attr: the layout the kernel
   sends = what go-gtp5gnl's DecodeAllUSAReports reads) through go-gtp5gnl's decoder (dec_all, written from the library's
   clauses, pinned by decoder_clauses_pinned) and go-upf's five conversion sites (conv_site INTERPRETS the field tables
   T-gen extracts from buffnetlink.ServeMsg and Gtp5g.UpdateURR / RemoveURR / queryURR / queryMultiURR) to the
   report.USAReport handed to the PFCP layer, and on to the usage-report IE.
   sim_wf s = the report's fields are Go uint32 / uint64 values;  mbit m i v = if bit i of m then v else 0. *)

(* the five sites copy the same fields one for one (URR id, the six counters, query reference, start and end time; UR-SEQN,
   volume flags and duration stay zero) and differ only in the trigger: the multicast maps the Reporting-Triggers cause
   through SetReportingTrigger, Update/Remove URR copy the word, the two query sites leave it to the caller *)
Theorem C10_kernel_sites_agree : forall k,
  conv_site "ServeMsg" k = Some (usa_of k (set_reporting_trigger 0 (k_trig k))) /\
  conv_site "UpdateURR" k = Some (usa_of k (k_trig k)) /\
  conv_site "RemoveURR" k = Some (usa_of k (k_trig k)) /\
  conv_site "queryURR" k = Some (usa_of k 0) /\
  conv_site "queryMultiURR" k = Some (usa_of k 0).
Proof. exact conv_site_spec. Qed.
Print Assumptions C10_kernel_sites_agree.

(* one kernel report, ALL 32-bit ids / trigger words, ALL 64-bit counters and times, ALL presence masks, every site:
   decoding and converting the tree yields exactly that report's fields - no truncation, no swapped counter, an absent
   counter is 0, start/end keep their nanosecond value (int64 reading of the 64-bit word) *)
Theorem C10_kernel_report_converted : forall site s, sim_wf s -> In site sites5 ->
  obind (dec_all [sim_attr s]) (conv_list site) = Some [(s_seid s, usa_of_sim site s)] /\
  u_urrid (usa_of_sim site s) = s_urrid s /\
  u_trig (usa_of_sim site s) = site_trig site (s_trig s) /\
  usa_cnt (usa_of_sim site s) =
    [mbit (s_mask s) 0 (s_tot s); mbit (s_mask s) 1 (s_ul s); mbit (s_mask s) 2 (s_dl s);
     mbit (s_mask s) 3 (s_tpk s); mbit (s_mask s) 4 (s_upk s); mbit (s_mask s) 5 (s_dpk s)] /\
  u_start (usa_of_sim site s) = Some (to_int64 (s_start s)) /\
  u_end (usa_of_sim site s) = Some (to_int64 (s_end s)) /\
  u_vflags (usa_of_sim site s) = 0 /\ u_dur (usa_of_sim site s) = 0 /\ u_seqn (usa_of_sim site s) = 0.
Proof. exact kernel_report_converted. Qed.
Print Assumptions C10_kernel_report_converted.

Theorem C10_kernel_time_preserved : forall v, v < 9223372036854775808 -> to_int64 v = Z.of_N v.
Proof. exact to_int64_small. Qed.
Print Assumptions C10_kernel_time_preserved.

(* a REPORT multicast with n >= 1 reports for any mixture of sessions is accepted, and the group handed to the PFCP layer
   for SEID x is exactly x's reports in the kernel's order, each converted as above; a SEID without reports gets none.
   (galookup = lookup in the per-SEID map.)  So decoding neither loses, duplicates nor re-addresses a report. *)
Theorem C10_kernel_mcast_groups : forall rs, rs <> [] -> Forall sim_wf rs ->
  exists g, serve_mcast (sim_mcast rs) = Some (true, g) /\
    forall x, galookup x g =
      match filter (fun s => s_seid s =? x) rs with
      | [] => None
      | l => Some (map (usa_of_sim "ServeMsg") l)
      end.
Proof. exact mcast_groups. Qed.
Print Assumptions C10_kernel_mcast_groups.

(* replies to ADD_URR+REPLACE, DEL_URR, GET_REPORT: all reports, in order; GET_MULTI_REPORTS: grouped per SEID *)
Theorem C10_kernel_reply_plain : forall site rs, In site ["UpdateURR"; "RemoveURR"; "queryURR"]%string -> Forall sim_wf rs ->
  serve_reply site (sim_reply rs) = Some (match rs with [] => [] | _ => [(0, map (usa_of_sim site) rs)] end).
Proof. exact reply_plain. Qed.
Print Assumptions C10_kernel_reply_plain.

Theorem C10_kernel_reply_multi : forall rs, Forall sim_wf rs ->
  exists g, serve_reply "queryMultiURR" (sim_reply rs) = Some g /\
    forall x, galookup x g =
      match filter (fun s => s_seid s =? x) rs with
      | [] => None
      | l => Some (map (usa_of_sim "queryMultiURR") l)
      end.
Proof. exact reply_multi. Qed.
Print Assumptions C10_kernel_reply_multi.

(* composition with (a): the usage-report IE built by the PFCP layer (mk_usage_ie) from the converted report, with the
   cause [extra] added on the way (TERMR / IMMER / PERIO / 0), carries the KERNEL's values: URR id, trigger, start/end in
   whole seconds, the volume counters selected by the URR's method / MNOP *)
Theorem C10_kernel_report_ie : forall inf q extra site s,
  sim_wf s -> s_start s < 9223372036854775808 -> s_end s < 9223372036854775808 ->
  let ie := ie_of_kernel inf q extra site s in
  let t := N.lor (site_trig site (s_trig s)) extra in
  let m := s_mask s in
  ur_urr ie = s_urrid s /\
  ur_seqn ie = q /\
  ur_trig ie = t mod 16777216 /\
  ur_times ie = (if no_times t then None else Some (s_start s / 1000000000, s_end s / 1000000000)) /\
  ur_vol ie = (if ui_volum inf
               then Some (if ui_mnop inf
                          then (63, [mbit m 0 (s_tot s); mbit m 1 (s_ul s); mbit m 2 (s_dl s);
                                     mbit m 3 (s_tpk s); mbit m 4 (s_upk s); mbit m 5 (s_dpk s)])
                          else (7, [mbit m 0 (s_tot s); mbit m 1 (s_ul s); mbit m 2 (s_dl s); 0; 0; 0]))
               else None) /\
  ur_dur ie = (if ui_durat inf then Some 0 else None).
Proof. exact kernel_report_ie. Qed.
Print Assumptions C10_kernel_report_ie.

Theorem C10_kernel_report_ie_full : forall inf q extra site s,
  sim_wf s -> s_mask s = 63 -> ui_volum inf = true ->
  ur_vol (ie_of_kernel inf q extra site s) =
    Some (if ui_mnop inf then (63, [s_tot s; s_ul s; s_dl s; s_tpk s; s_upk s; s_dpk s])
          else (7, [s_tot s; s_ul s; s_dl s; 0; 0; 0])).
Proof. exact kernel_report_ie_full. Qed.
Print Assumptions C10_kernel_report_ie_full.

(* the multicast's trigger word is one Reporting-Triggers cause of the generated SetReportingTrigger table: the report
   carries the flag the table gives (C19 proves that table maps every cause to the same-named usage-report trigger) *)
Theorem C10_kernel_mcast_trigger :
  map (fun c => site_trig "ServeMsg" (fst c)) set_reporting_trigger_table = map snd set_reporting_trigger_table.
Proof. exact mcast_trigger_table. Qed.
Print Assumptions C10_kernel_mcast_trigger.

(* non-vacuity: two SMFs (node ids 50, 60), one session each; a usage report for session 2 (URR 7: VOLUM|DURAT,
   MNOP; a 97-bit volume; plus a report for the unknown URR 8) goes to node id 60 only, SEID 200, values intact *)
Definition C10_history : list event :=
  [EvRecv 5 1 (MAssocSetup (IeVal 50) []) (mkEnv [] []);
   EvRecv 6 1 (MAssocSetup (IeVal 60) []) (mkEnv [] []);
   EvRecv 5 2 (MEst (IeVal 50) (IeVal 100) (mkOps [] [] [] [] [] [] [] [] [] [] [] [] [] [] [] [])) (mkEnv [] []);
   EvRecv 6 2 (MEst (IeVal 60) (IeVal 200)
     (mkOps [] [] [mkUrrOp (Some 7) (Some 3) (Some 16)] [] [mkPdrOp (Some 1) [7] true false] [] [] [] [] [] [] [] [] [] [] []))
     (mkEnv [] []);
   EvReport 2 [RUsa (mkRpt 7 1 0 [123456789012345678901234567890; 2; 3; 4; 5; 6] 77 100 200);
               RUsa (mkRpt 8 1 0 [1; 1; 1; 1; 1; 1] 5 100 200)] (mkEnv [] [])].

Example C10_nonvacuous :
  match run (init 0 1) C10_history with
  | Ok (_, os) =>
      nth 4 os [] =
        [OSend 60 (PReportUSAR 0 200
           [mkUie 7 0 1 (Some (100, 200)) (Some (63, [123456789012345678901234567890; 2; 3; 4; 5; 6])) (Some 77)]) false]
  | Fault _ => False
  end.
Proof. vm_compute. reflexivity. Qed.

(* non-vacuity, kernel side: the BYTES of a REPORT multicast with three reports for two sessions (counters 2^64-1, 2^32,
   2^63; a report with counters 0 and 2 only; trigger VOLTH = 2, VOLQU = 256, LIUSA = 128 -> usage-report flag 1024),
   parsed, decoded and converted *)
Example C10_kernel_nonvacuous :
  obind (parse 64 (ser_list (sim_mcast
           [mkSim 7 2 2 0 9 1700000000123456789 1700000100999999999 63 18446744073709551615 4294967296 9223372036854775808 1 2 3;
            mkSim 8 3 256 0 0 5000000000 6000000000 5 11 12 13 14 15 16;
            mkSim 9 2 128 0 0 0 999999999 63 0 0 0 0 0 0]))) serve_mcast =
  Some (true,
        [(2, [mkUsa 7 0 2 0 18446744073709551615 4294967296 9223372036854775808 1 2 3 0 0
                    (Some 1700000000123456789%Z) (Some 1700000100999999999%Z);
              mkUsa 9 0 1024 0 0 0 0 0 0 0 0 0 (Some 0%Z) (Some 999999999%Z)]);
         (3, [mkUsa 8 0 256 0 11 0 13 0 0 0 0 0 (Some 5000000000%Z) (Some 6000000000%Z)])]).
Proof. vm_compute. reflexivity. Qed.
