(* C10 — usage reports reach the owning SMF with the measured values intact. Statements only. *)
From Coq Require Import String List NArith ZArith Bool.
From GoUpf Require Import Bytes FlagsGen ConstsGen HandlerGen Pfcp PfcpBase PfcpSess PfcpClose PfcpTable PfcpDelete
  PfcpStep PfcpProps PfcpCat PfcpUsage PfcpQueue.
Import ListNotations.
Local Open Scope N_scope.

(* (a) the IE built from a driver report r for a URR with bookkeeping inf and UR-SEQN q *)
Theorem C10_mk_usage_ie_fields : forall inf q r,
  ur_urr (mk_usage_ie inf q r) = r_urr r /\
  ur_seqn (mk_usage_ie inf q r) = q /\
  ur_trig (mk_usage_ie inf q r) = r_trig r mod 16777216 /\
  ur_times (mk_usage_ie inf q r) = (if no_times (r_trig r) then None else Some (r_start r, r_end r)) /\
  (ur_vol (mk_usage_ie inf q r) <> None <-> ui_volum inf = true) /\
  (forall fl cnt, ur_vol (mk_usage_ie inf q r) = Some (fl, cnt) -> fl = vol_flags inf r mod 256) /\
  ur_dur (mk_usage_ie inf q r) = (if ui_durat inf then Some (r_dur r) else None).
Proof. exact mk_usage_ie_fields. Qed.
Print Assumptions C10_mk_usage_ie_fields.

(* no_times t = START, STOPT or MACAR set;  vol_flags = (r_vflags | TOVOL|ULVOL|DLVOL | (MNOP ? TONOP|ULNOP|DLNOP : 0)) *)
Theorem C10_definitions : forall inf r t,
  no_times t = (flag_of USAR_TRIG_START t || flag_of USAR_TRIG_STOPT t || flag_of USAR_TRIG_MACAR t) /\
  vol_flags inf r = N.lor (N.lor (r_vflags r) 7) (if ui_mnop inf then 56 else 0).
Proof. exact usage_ie_defs. Qed.
Print Assumptions C10_definitions.

(* the three volume counters are EXACTLY the report's, for all values (no truncation); a packet counter is the
   report's iff its flag bit is set, else 0 *)
Theorem C10_mk_usage_ie_volume : forall inf q r a b c d e f,
  ui_volum inf = true -> r_cnt r = [a; b; c; d; e; f] ->
  ur_vol (mk_usage_ie inf q r) =
    Some (vol_flags inf r mod 256,
          [a; b; c; if N.testbit (vol_flags inf r) 3 then d else 0;
                    if N.testbit (vol_flags inf r) 4 then e else 0;
                    if N.testbit (vol_flags inf r) 5 then f else 0]).
Proof. exact mk_usage_ie_volume. Qed.
Print Assumptions C10_mk_usage_ie_volume.

Theorem C10_mk_usage_ie_volume_plain : forall inf q r a b c d e f,
  ui_volum inf = true -> r_cnt r = [a; b; c; d; e; f] -> r_vflags r = 0 ->
  ur_vol (mk_usage_ie inf q r) =
    if ui_mnop inf then Some (63, [a; b; c; d; e; f]) else Some (7, [a; b; c; 0; 0; 0]).
Proof. exact mk_usage_ie_volume_plain. Qed.
Print Assumptions C10_mk_usage_ie_volume_plain.

Theorem C10_mk_usage_ie_volume_mnop : forall inf q r a b c d e f,
  ui_volum inf = true -> r_cnt r = [a; b; c; d; e; f] -> ui_mnop inf = true ->
  exists fl, ur_vol (mk_usage_ie inf q r) = Some (fl, [a; b; c; d; e; f]).
Proof. exact mk_usage_ie_volume_mnop. Qed.
Print Assumptions C10_mk_usage_ie_volume_mnop.

Theorem C10_trigger_bits : forall inf q r k, k < 24 -> N.testbit (ur_trig (mk_usage_ie inf q r)) k = N.testbit (r_trig r) k.
Proof. exact mk_usage_ie_trig_bit. Qed.
Print Assumptions C10_trigger_bits.

(* (b) routing: a report of usage items for a live session yields exactly one Session Report Request, sent to the
   node id of the node object that owns the session, header SEID = the peer's SEID, sequence number = the
   server's counter; its IEs are the emission over the session's own URR bookkeeping; other sessions untouched *)
Theorem C10_serve_report_route : forall w seid s n usars,
  WInv w -> live w seid s -> nth_error (w_heap w) (s_node s) = Some n -> usars <> [] ->
  exists w',
    serve_report w seid (map RUsa usars) =
      Ok (w', [OSend (n_id n) (PReportUSAR (w_txseq w mod 16777216) (s_rid s) (snd (emit 0 false (s_urrs s) usars))) false]) /\
    live w' seid (set_urrs (fst (emit 0 false (s_urrs s) usars)) s) /\
    (forall lid' s', lid' <> seid -> (live w' lid' s' <-> live w lid' s')).
Proof. exact serve_report_route. Qed.
Print Assumptions C10_serve_report_route.

(* ... and every live session has such an owning node (world invariant, all histories) *)
Theorem C10_owner_exists : forall w, WInv w -> forall lid s, live w lid s ->
  exists n, nth_error (w_heap w) (s_node s) = Some n /\ In lid (n_sess n).
Proof. exact wi_node. Qed.
Print Assumptions C10_owner_exists.

Theorem C10_serve_report_unknown : forall w seid items, (forall s, ~ live w seid s) -> serve_report w seid items = Ok (w, []).
Proof. exact serve_report_unknown. Qed.
Print Assumptions C10_serve_report_unknown.

(* (c) reports for unknown URRs are skipped and disturb nothing; the remaining IEs are, one for one and in the
   order of their reports, built from the report and that URR's bookkeeping (ie_of_report) *)
Theorem C10_emit_skips_unknown : forall extra d urrs rs,
  emit extra d urrs (filter (known urrs) rs) = emit extra d urrs rs.
Proof. exact emit_skips_unknown. Qed.
Print Assumptions C10_emit_skips_unknown.

Theorem C10_emit_false_ies : forall extra urrs rs,
  Forall2 (fun r ie => exists inf, alookup (r_urr r) urrs = Some inf /\
                                    ie = mk_usage_ie inf (ur_seqn ie) (or_trig extra r))
          (filter (known urrs) rs) (snd (emit extra false urrs rs)).
Proof. exact emit_false_ies. Qed.
Print Assumptions C10_emit_false_ies.

Theorem C10_emit_ies_in : forall extra d urrs rs ie,
  In ie (snd (emit extra d urrs rs)) ->
  exists r, In r rs /\ exists inf, alookup (r_urr r) urrs = Some inf /\ ie = mk_usage_ie inf (ur_seqn ie) (or_trig extra r).
Proof. exact emit_ies_in. Qed.
Print Assumptions C10_emit_ies_in.

Theorem C10_emit_unknown_no_ie : forall extra d urrs rs urrs' ies u,
  emit extra d urrs rs = (urrs', ies) -> alookup u urrs = None -> ies_for u ies = [] /\ alookup u urrs' = None.
Proof. exact emit_unknown_no_ie. Qed.
Print Assumptions C10_emit_unknown_no_ie.

(* non-vacuity: two SMFs (node ids 50, 60), one session each; a usage report for session 2 (URR 7: VOLUM|DURAT,
   MNOP; a 97-bit volume; plus a report for the unknown URR 8) goes to node id 60 only, SEID 200, values intact *)
Definition C10_history : list event :=
  [EvRecv 5 1 (MAssocSetup (IeVal 50) []) (mkEnv [] []);
   EvRecv 6 1 (MAssocSetup (IeVal 60) []) (mkEnv [] []);
   EvRecv 5 2 (MEst (IeVal 50) (IeVal 100) (mkOps [] [] [] [] [] [] [] [] [] [] [] [] [] [] [] [])) (mkEnv [] []);
   EvRecv 6 2 (MEst (IeVal 60) (IeVal 200)
     (mkOps [] [] [mkUrrOp (Some 7) (Some 3) (Some 16)] [] [mkPdrOp (Some 1) [7] true false] [] [] [] [] [] [] [] [] [] [] []))
     (mkEnv [] []);
   EvReport 2 [RUsa (mkRpt 7 1 0 [123456789012345678901234567890; 2; 3; 4; 5; 6] 77 100 200);
               RUsa (mkRpt 8 1 0 [1; 1; 1; 1; 1; 1] 5 100 200)] (mkEnv [] [])].

Example C10_nonvacuous :
  match run (init 0 1) C10_history with
  | Ok (_, os) =>
      nth 4 os [] =
        [OSend 60 (PReportUSAR 0 200
           [mkUie 7 0 1 (Some (100, 200)) (Some (63, [123456789012345678901234567890; 2; 3; 4; 5; 6])) (Some 77)]) false]
  | Fault _ => False
  end.
Proof. vm_compute. reflexivity. Qed.
