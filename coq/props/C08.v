(* C08 — responses are correlated with their request and consistent with its effect. Statements only. *)
From Coq Require Import String List NArith ZArith Bool.
From GoUpf Require Import Bytes FlagsGen ConstsGen HandlerGen Pfcp PfcpCmp PfcpBase PfcpSess PfcpClose PfcpTable PfcpDelete PfcpStep PfcpProps PfcpFrame.
Import ListNotations.
Local Open Scope N_scope.

(* [correlated peer seq o]: every datagram in o goes to [peer], carries sequence number [seq], is a response *)

(* Establishment: either nothing happens at all (state identical, no answer), or a fresh session becomes live
   under the UP F-SEID returned in the accepted response, which carries the peer's CP SEID in the header and
   lists exactly the Create PDRs that have a UE IP address *)
Theorem C08_establishment : forall w peer seq id rid o e ref,
  WInv w -> alookup id (w_rnodes w) = Some ref ->
  exists w' out, handle_est w peer seq (IeVal id) (IeVal rid) o e = Ok (w', out) /\ WInv w' /\
    (out = [] /\ w' = w \/
     exists lid s1, lid <> 0 /\ (forall s', ~ live w lid s') /\ live w' lid s1 /\ s_rid s1 = rid /\ s_node s1 = ref /\
       wframe w w' lid /\
       (exists drvs snd_, out = drvs ++ snd_ /\ Forall (own_drv lid) drvs /\ correlated peer seq snd_ /\
          (snd_ = [] \/ snd_ = [OSend peer (PEstRsp seq rid CauseAccepted lid (map pdr_id (filter po_ueip (cPDR o)))) false]))).
Proof. exact est_spec. Qed.
Print Assumptions C08_establishment.

(* requests lacking Node ID / F-SEID, or naming an unknown node: no answer and NO trace *)
Theorem C08_establishment_rejected_no_trace : forall w peer seq nid fseid o e,
  (nid = IeAbsent \/ nid = IeBad \/ (exists id, nid = IeVal id /\ alookup id (w_rnodes w) = None) \/
   (exists id, nid = IeVal id /\ (fseid = IeAbsent \/ fseid = IeBad))) ->
  handle_est w peer seq nid fseid o e = Ok (w, []).
Proof. exact est_rejected_no_trace. Qed.
Print Assumptions C08_establishment_rejected_no_trace.

(* Modification of a live session: the response goes to the sender with its sequence number and the session's CP SEID *)
Theorem C08_modification : forall w peer seq seid nid o e s,
  WInv w -> live w seid s -> nid = IeAbsent ->
  exists w' out, handle_mod w peer seq seid nid o e = Ok (w', out) /\ WInv w' /\ wframe w w' seid /\
    (exists drvs snd_, out = drvs ++ snd_ /\ Forall (own_drv seid) drvs /\ correlated peer seq snd_) /\
    w_heap w' = w_heap w /\ w_rnodes w' = w_rnodes w /\ w_free w' = w_free w /\
    (out = [] \/ exists s1, live w' seid s1 /\ s_rid s1 = s_rid s /\ s_node s1 = s_node s).
Proof. exact mod_spec. Qed.
Print Assumptions C08_modification.

(* session not found: header SEID 0, cause 65, state unchanged apart from the transaction bookkeeping *)
Theorem C08_mod_not_found : forall w peer seq seid nid o e,
  (forall s, ~ live w seid s) -> klookup (peer, seq) (w_rx w) <> None ->
  exists w', handle_mod w peer seq seid nid o e = Ok (w', [OSend peer (PModRsp seq 0 CauseNoContext []) false]) /\
             same_core w w' /\ w_tx w' = w_tx w /\ w_txseq w' = w_txseq w.
Proof. exact mod_not_found. Qed.
Theorem C08_del_not_found : forall w peer seq seid e,
  (forall s, ~ live w seid s) -> klookup (peer, seq) (w_rx w) <> None ->
  exists w', handle_del w peer seq seid e = Ok (w', [OSend peer (PDelRsp seq 0 CauseNoContext []) false]) /\
             same_core w w' /\ w_tx w' = w_tx w /\ w_txseq w' = w_txseq w.
Proof. exact del_not_found. Qed.
Print Assumptions C08_del_not_found.

Theorem C08_deletion : forall w peer seq seid e s,
  WInv w -> live w seid s ->
  exists w' out, handle_del w peer seq seid e = Ok (w', out) /\ WInv w' /\ wframe w w' seid /\
    (forall s', ~ live w' seid s') /\ (forall k id, ~ In (seid, k, id) (w_dp w')) /\
    (exists drvs snd_ ies, out = drvs ++ snd_ /\ Forall (own_drv seid) drvs /\ correlated peer seq snd_ /\
       (snd_ = [] \/ snd_ = [OSend peer (PDelRsp seq (s_rid s) CauseAccepted ies) false])).
Proof. exact del_spec. Qed.
Print Assumptions C08_deletion.

Theorem C08_association : forall w peer seq nid order e,
  WInv w ->
  exists w' out, handle_assoc w peer seq nid order e = Ok (w', out) /\ WInv w' /\
    exists drvs snd_, out = drvs ++ snd_ /\ Forall is_drv drvs /\ correlated peer seq snd_ /\
      (snd_ = [] \/ snd_ = [OSend peer (PAssocRsp seq CauseAccepted) false]).
Proof. exact assoc_spec. Qed.
Print Assumptions C08_association.

Theorem C08_heartbeat : forall w peer seq e,
  klookup (peer, seq) (w_rx w) = None ->
  exists w', step w (EvRecv peer seq MHeartbeat e) = Ok (w', [OSend peer (PHeartbeatRsp seq) false]) /\ same_core w w'.
Proof. exact heartbeat_answered. Qed.
Print Assumptions C08_heartbeat.

(* The recovery time stamp is not a field of the model state: the model's Heartbeat / Association Setup
   responses cannot vary in it; the check compares the actual IE across all responses of a run. *)
Example C08_nonvacuous :
  match run (init 0 1) [EvRecv 2 9 (MAssocSetup (IeVal 2) []) (mkEnv [] []);
                        EvRecv 2 10 (MEst (IeVal 2) (IeVal 77) (mkOps [] [] [] [] [mkPdrOp (Some 4) [] false true; mkPdrOp (Some 5) [] false false] [] [] [] [] [] [] [] [] [] [] [])) (mkEnv [] []);
                        EvRecv 1 3 (MDel 9) (mkEnv [] [])] with
  | Ok (_, os) => map (fun o => sends_of o) os =
      [[(2, PAssocRsp 9 1, false)]; [(2, PEstRsp 10 77 1 1 [4], false)]; [(1, PDelRsp 3 0 65 [], false)]]
  | Fault _ => False
  end.
Proof. vm_compute. reflexivity. Qed.
